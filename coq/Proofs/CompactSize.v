(* Proofs/CompactSize.v — lemmas about the CompactSize model (C18, used by C06/C01). *)
From Coq Require Import ZArith List Bool Lia.
From Coq.Strings Require Import Byte.
From Verif Require Import Lib.Bytes Model.Wire.
Import ListNotations.
Open Scope Z_scope.

Lemma zb_253 : zb 253 = xfd. Proof. reflexivity. Qed.

Lemma firstn_le_bytes_app k n rest : firstn k (le_bytes k n ++ rest) = le_bytes k n.
Proof.
  rewrite <- (le_bytes_length k n) at 1. rewrite firstn_app, Nat.sub_diag, firstn_all.
  simpl. apply app_nil_r.
Qed.

Lemma skipn_le_bytes_app k n rest : skipn k (le_bytes k n ++ rest) = rest.
Proof.
  rewrite <- (le_bytes_length k n) at 1. rewrite skipn_app, Nat.sub_diag, skipn_all. reflexivity.
Qed.


Lemma lib_dec_fd r : lib_cs_dec (xfd :: r) = (of_le (firstn 2 r), 3%nat). Proof. reflexivity. Qed.
Lemma lib_dec_fe r : lib_cs_dec (xfe :: r) = (of_le (firstn 4 r), 5%nat). Proof. reflexivity. Qed.
Lemma lib_dec_ff r : lib_cs_dec (xff :: r) = (of_le (firstn 8 r), 9%nat). Proof. reflexivity. Qed.
Lemma core_dec_fd r : core_cs_dec (xfd :: r) =
  if (length r <? 2)%nat then None
  else let v := of_le (firstn 2 r) in if v <? 253 then None else Some (v, skipn 2 r).
Proof. reflexivity. Qed.
Lemma core_dec_fe r : core_cs_dec (xfe :: r) =
  if (length r <? 4)%nat then None
  else let v := of_le (firstn 4 r) in if v <? 65536 then None else Some (v, skipn 4 r).
Proof. reflexivity. Qed.
Lemma core_dec_ff r : core_cs_dec (xff :: r) =
  if (length r <? 8)%nat then None
  else let v := of_le (firstn 8 r) in if v <? 4294967296 then None else Some (v, skipn 8 r).
Proof. reflexivity. Qed.

Lemma lib_cs_enc_eq n : lib_cs_enc n =
  if n <? 0 then None
  else if n <? 253 then Some (le_bytes 1 n)
  else if n <=? 65535 then Some (xfd :: le_bytes 2 n)
  else if n <=? 4294967295 then Some (xfe :: le_bytes 4 n)
  else if n <? 18446744073709551616 then Some (xff :: le_bytes 8 n)
  else None.
Proof. reflexivity. Qed.

Ltac some_inj H :=
  match type of H with
  | Some ?a = Some ?b => let X := fresh in assert (X : b = a) by congruence; subst b; clear H
  end.

Ltac cases_enc H :=
  unfold lib_cs_enc in H;
  repeat match type of H with
         | context [if ?c then _ else _] => let E := fresh "E" in destruct c eqn:E
         end;
  try discriminate H; some_inj H.

(* the library's encoder is Bitcoin Core's encoder on its whole domain [0, 2^64) *)
Lemma lib_cs_enc_core n : 0 <= n < 2 ^ 64 -> lib_cs_enc n = Some (core_cs_enc n).
Proof.
  intros [H0 H1]. unfold lib_cs_enc, core_cs_enc.
  destruct (n <? 0) eqn:E0; [apply Z.ltb_lt in E0; lia|].
  destruct (n <? 253); [reflexivity|].
  destruct (n <=? 65535); [reflexivity|].
  destruct (n <=? 4294967295); [reflexivity|].
  destruct (n <? 18446744073709551616) eqn:E; [reflexivity|].
  apply Z.ltb_ge in E. change (2 ^ 64) with 18446744073709551616 in H1. lia.
Qed.

Lemma lib_cs_enc_domain n : lib_cs_enc n <> None <-> 0 <= n < 2 ^ 64.
Proof.
  split.
  - intros H. rewrite lib_cs_enc_eq in H. change (2 ^ 64) with 18446744073709551616.
    destruct (n <? 0) eqn:E0; [congruence|]. apply Z.ltb_ge in E0.
    destruct (n <? 253) eqn:E1; [apply Z.ltb_lt in E1; lia|].
    destruct (n <=? 65535) eqn:E2; [apply Z.leb_le in E2; lia|].
    destruct (n <=? 4294967295) eqn:E3; [apply Z.leb_le in E3; lia|].
    destruct (n <? 18446744073709551616) eqn:E4; [apply Z.ltb_lt in E4; lia|congruence].
  - intros H. rewrite lib_cs_enc_core by exact H. discriminate.
Qed.

(* round trip through the library's own (lax) reader, with an arbitrary suffix *)
Lemma cs_roundtrip n e rest :
  lib_cs_enc n = Some e -> lib_cs_dec (e ++ rest) = (n, length e).
Proof.
  intros H. rewrite lib_cs_enc_eq in H.
  destruct (n <? 0) eqn:E0; [discriminate|]. apply Z.ltb_ge in E0.
  destruct (n <? 253) eqn:E1.
  { apply Z.ltb_lt in E1. some_inj H. cbn [le_bytes app lib_cs_dec length].
    rewrite bz_zb, Z.mod_small by lia.
    destruct (n <? 253) eqn:E; [reflexivity | apply Z.ltb_ge in E; lia]. }
  apply Z.ltb_ge in E1.
  destruct (n <=? 65535) eqn:E2.
  { apply Z.leb_le in E2. some_inj H.
    rewrite <- app_comm_cons, lib_dec_fd.
    rewrite firstn_le_bytes_app, of_le_le_bytes_small by (change (256 ^ Z.of_nat 2) with 65536; lia).
    cbn [length]. rewrite le_bytes_length. reflexivity. }
  apply Z.leb_gt in E2.
  destruct (n <=? 4294967295) eqn:E3.
  { apply Z.leb_le in E3. some_inj H.
    rewrite <- app_comm_cons, lib_dec_fe.
    rewrite firstn_le_bytes_app, of_le_le_bytes_small by (change (256 ^ Z.of_nat 4) with 4294967296; lia).
    cbn [length]. rewrite le_bytes_length. reflexivity. }
  apply Z.leb_gt in E3.
  destruct (n <? 18446744073709551616) eqn:E4; [|discriminate].
  apply Z.ltb_lt in E4. some_inj H.
  rewrite <- app_comm_cons, lib_dec_ff.
  rewrite firstn_le_bytes_app, of_le_le_bytes_small by (change (256 ^ Z.of_nat 8) with 18446744073709551616; lia).
  cbn [length]. rewrite le_bytes_length. reflexivity.
Qed.

(* what the library writes is accepted by Bitcoin Core's strict reader and read back exactly:
   this is canonicity at every boundary (0xfc/0xfd, 0xffff/0x10000, 2^32-1/2^32) *)
Lemma cs_core_reads n e rest :
  lib_cs_enc n = Some e -> core_cs_dec (e ++ rest) = Some (n, rest).
Proof.
  intros H. rewrite lib_cs_enc_eq in H.
  destruct (n <? 0) eqn:E0; [discriminate|]. apply Z.ltb_ge in E0.
  destruct (n <? 253) eqn:E1.
  { apply Z.ltb_lt in E1. some_inj H. cbn [le_bytes app core_cs_dec].
    rewrite bz_zb, Z.mod_small by lia.
    destruct (n <? 253) eqn:E; [reflexivity | apply Z.ltb_ge in E; lia]. }
  apply Z.ltb_ge in E1.
  destruct (n <=? 65535) eqn:E2.
  { apply Z.leb_le in E2. some_inj H.
    rewrite <- app_comm_cons, core_dec_fd. cbv zeta.
    rewrite firstn_le_bytes_app, skipn_le_bytes_app, of_le_le_bytes_small by (change (256 ^ Z.of_nat 2) with 65536; lia).
    rewrite app_length, le_bytes_length.
    destruct (2 + length rest <? 2)%nat eqn:EL; [apply Nat.ltb_lt in EL; lia|].
    destruct (n <? 253) eqn:E; [apply Z.ltb_lt in E; lia | reflexivity]. }
  apply Z.leb_gt in E2.
  destruct (n <=? 4294967295) eqn:E3.
  { apply Z.leb_le in E3. some_inj H.
    rewrite <- app_comm_cons, core_dec_fe. cbv zeta.
    rewrite firstn_le_bytes_app, skipn_le_bytes_app, of_le_le_bytes_small by (change (256 ^ Z.of_nat 4) with 4294967296; lia).
    rewrite app_length, le_bytes_length.
    destruct (4 + length rest <? 4)%nat eqn:EL; [apply Nat.ltb_lt in EL; lia|].
    destruct (n <? 65536) eqn:E; [apply Z.ltb_lt in E; lia | reflexivity]. }
  apply Z.leb_gt in E3.
  destruct (n <? 18446744073709551616) eqn:E4; [|discriminate].
  apply Z.ltb_lt in E4. some_inj H.
  rewrite <- app_comm_cons, core_dec_ff. cbv zeta.
  rewrite firstn_le_bytes_app, skipn_le_bytes_app, of_le_le_bytes_small by (change (256 ^ Z.of_nat 8) with 18446744073709551616; lia).
  rewrite app_length, le_bytes_length.
  destruct (8 + length rest <? 8)%nat eqn:EL; [apply Nat.ltb_lt in EL; lia|].
  destruct (n <? 4294967296) eqn:E; [apply Z.ltb_lt in E; lia | reflexivity].
Qed.

(* exact lengths: the shortest of the four forms *)
Lemma cs_length n e :
  lib_cs_enc n = Some e ->
  length e = if n <? 253 then 1%nat else if n <? 65536 then 3%nat else if n <? 4294967296 then 5%nat else 9%nat.
Proof.
  intros H. rewrite lib_cs_enc_eq in H.
  destruct (n <? 0) eqn:E0; [discriminate|]. apply Z.ltb_ge in E0.
  destruct (n <? 253) eqn:E1; [inversion H; reflexivity|]. apply Z.ltb_ge in E1.
  destruct (n <=? 65535) eqn:E2.
  { apply Z.leb_le in E2. inversion H. destruct (n <? 65536) eqn:E; [reflexivity|apply Z.ltb_ge in E; lia]. }
  apply Z.leb_gt in E2.
  destruct (n <? 65536) eqn:E5; [apply Z.ltb_lt in E5; lia|].
  destruct (n <=? 4294967295) eqn:E3.
  { apply Z.leb_le in E3. inversion H. destruct (n <? 4294967296) eqn:E; [reflexivity|apply Z.ltb_ge in E; lia]. }
  apply Z.leb_gt in E3.
  destruct (n <? 4294967296) eqn:E6; [apply Z.ltb_lt in E6; lia|].
  destruct (n <? 18446744073709551616); [inversion H; reflexivity|discriminate].
Qed.

(* prefix-freeness / injectivity with arbitrary suffixes (used to compose parsers) *)
Lemma cs_prefix_free a b ea eb ra rb :
  lib_cs_enc a = Some ea -> lib_cs_enc b = Some eb -> ea ++ ra = eb ++ rb -> a = b /\ ra = rb.
Proof.
  intros Ha Hb H.
  pose proof (cs_core_reads a ea ra Ha) as H1.
  pose proof (cs_core_reads b eb rb Hb) as H2.
  rewrite H in H1. rewrite H1 in H2. inversion H2. split; reflexivity.
Qed.

(* everything Core's strict reader accepts is exactly what the library would have written:
   the accepted language is the image of the encoder *)
Lemma core_dec_is_lib_enc l val rest :
  core_cs_dec l = Some (val, rest) -> exists e, lib_cs_enc val = Some e /\ l = e ++ rest.
Proof.
  destruct l as [|b r]; [discriminate|]. cbn [core_cs_dec]. pose proof (bz_range b) as Hb.
  destruct (bz b <? 253) eqn:E1.
  { intros H. assert (val = bz b) by congruence. assert (rest = r) by congruence. subst val rest.
    apply Z.ltb_lt in E1.
    exists [b]. split; [|reflexivity]. rewrite lib_cs_enc_eq.
    destruct (bz b <? 0) eqn:E; [apply Z.ltb_lt in E; lia|].
    destruct (bz b <? 253) eqn:E'; [|apply Z.ltb_ge in E'; lia].
    cbn [le_bytes]. rewrite zb_bz. reflexivity. }
  assert (Hsplit : forall k, (k <= length r)%nat ->
            r = le_bytes k (of_le (firstn k r)) ++ skipn k r).
  { intros k Hk. rewrite <- (firstn_skipn k r) at 1. f_equal.
    rewrite <- (le_bytes_of_le (firstn k r)) at 1. rewrite firstn_length_le by exact Hk. reflexivity. }
  assert (Hcase : forall (k : nat) (tag : byte) (lo hi : Z),
     (k <= length r)%nat -> b = tag -> hi = 256 ^ Z.of_nat k ->
     (forall v, lo <= v < hi -> lib_cs_enc v = Some (tag :: le_bytes k v)) ->
     lo <= of_le (firstn k r) ->
     val = of_le (firstn k r) -> rest = skipn k r ->
     exists e, lib_cs_enc val = Some e /\ b :: r = e ++ rest).
  { intros k tag lo hi Hk Hbt Hhi Henc Hlo Hv Hrest. subst val rest b.
    pose proof (of_le_range (firstn k r)) as Hr. rewrite firstn_length_le in Hr by exact Hk.
    exists (tag :: le_bytes k (of_le (firstn k r))). split.
    - apply Henc. lia.
    - rewrite <- app_comm_cons. f_equal. apply Hsplit. exact Hk. }
  destruct (bz b =? 253) eqn:E2.
  { apply Z.eqb_eq in E2. destruct (length r <? 2)%nat eqn:EL; [discriminate|]. apply Nat.ltb_ge in EL.
    cbv zeta. destruct (of_le (firstn 2 r) <? 253) eqn:E; [discriminate|]. apply Z.ltb_ge in E.
    intros H. apply (Hcase 2%nat xfd 253 65536); try assumption; try congruence.
    - apply bz_inj. exact E2.
    - reflexivity.
    - intros v Hv. rewrite lib_cs_enc_eq.
      destruct (v <? 0) eqn:Ea; [apply Z.ltb_lt in Ea; lia|].
      destruct (v <? 253) eqn:Eb; [apply Z.ltb_lt in Eb; lia|].
      destruct (v <=? 65535) eqn:Ec; [reflexivity|apply Z.leb_gt in Ec; lia]. }
  destruct (bz b =? 254) eqn:E3.
  { apply Z.eqb_eq in E3. destruct (length r <? 4)%nat eqn:EL; [discriminate|]. apply Nat.ltb_ge in EL.
    cbv zeta. destruct (of_le (firstn 4 r) <? 65536) eqn:E; [discriminate|]. apply Z.ltb_ge in E.
    intros H. apply (Hcase 4%nat xfe 65536 4294967296); try assumption; try congruence.
    - apply bz_inj. exact E3.
    - reflexivity.
    - intros v Hv. rewrite lib_cs_enc_eq.
      destruct (v <? 0) eqn:Ea; [apply Z.ltb_lt in Ea; lia|].
      destruct (v <? 253) eqn:Eb; [apply Z.ltb_lt in Eb; lia|].
      destruct (v <=? 65535) eqn:Ec; [apply Z.leb_le in Ec; lia|].
      destruct (v <=? 4294967295) eqn:Ed; [reflexivity|apply Z.leb_gt in Ed; lia]. }
  apply Z.ltb_ge in E1. apply Z.eqb_neq in E2. apply Z.eqb_neq in E3.
  assert (bz b = 255) as E4 by lia.
  destruct (length r <? 8)%nat eqn:EL; [discriminate|]. apply Nat.ltb_ge in EL.
  cbv zeta. destruct (of_le (firstn 8 r) <? 4294967296) eqn:E; [discriminate|]. apply Z.ltb_ge in E.
  intros H. apply (Hcase 8%nat xff 4294967296 18446744073709551616); try assumption; try congruence.
  - apply bz_inj. exact E4.
  - reflexivity.
  - intros v Hv. rewrite lib_cs_enc_eq.
    destruct (v <? 0) eqn:Ea; [apply Z.ltb_lt in Ea; lia|].
    destruct (v <? 253) eqn:Eb; [apply Z.ltb_lt in Eb; lia|].
    destruct (v <=? 65535) eqn:Ec; [apply Z.leb_le in Ec; lia|].
    destruct (v <=? 4294967295) eqn:Ed; [apply Z.leb_le in Ed; lia|].
    destruct (v <? 18446744073709551616) eqn:Ee; [reflexivity|apply Z.ltb_ge in Ee; lia].
Qed.
