(* Proofs/Der.v — DER signature codec lemmas (C13). *)
From Coq Require Import ZArith List Bool Lia.
From Coq.Strings Require Import Byte.
From Verif Require Import Lib.Bytes Model.Wire Model.Der Proofs.ScriptNum Proofs.ScriptCodec.
Import ListNotations.
Open Scope Z_scope.

Lemma der_int_eq v : der_int v =
  let b := be_bytes (byte_len v) v in
  match b with
  | h :: _ => if high_set h then x00 :: b else b
  | [] => [x00]
  end.
Proof. reflexivity. Qed.

(* shape of the minimal big-endian form of v > 0: non-empty, leading byte non-zero *)
Lemma be_shape v : 0 < v ->
  exists h t, be_bytes (byte_len v) v = h :: t /\ 1 <= bz h /\ length t = (byte_len v - 1)%nat /\
              of_be (h :: t) = v.
Proof.
  intros Hv. destruct (enc_shape v Hv) as (f & l & Hd & Hlen & Hval & Hl1).
  exists l, (rev f). unfold be_bytes. rewrite Hd, rev_app_distr. cbn [rev app].
  split; [reflexivity|]. split; [exact Hl1|]. split; [rewrite rev_length; exact Hlen|].
  unfold of_be. change (l :: rev f) with ([l] ++ rev f). rewrite rev_app_distr, rev_involutive.
  cbn [rev app]. rewrite of_le_snoc, Hlen. lia.
Qed.

Lemma byte_len_le32 v : 0 < v < 2 ^ 256 -> (byte_len v <= 32)%nat.
Proof.
  intros [H0 H1]. pose proof (byte_len_min v H0) as Hm. pose proof (byte_len_pos v H0) as Hp.
  destruct (le_lt_dec (byte_len v) 32) as [H|H]; [exact H|exfalso].
  assert (256 ^ 32 <= 256 ^ (Z.of_nat (byte_len v) - 1)) by (apply Z.pow_le_mono_r; lia).
  change (256 ^ 32) with (2 ^ 256) in *. lia.
Qed.

Lemma der_int_props v : 0 < v < 2 ^ 256 ->
  int_ok (der_int v) = true /\ of_be (der_int v) = v /\ (1 <= length (der_int v) <= 33)%nat.
Proof.
  intros Hv. destruct (be_shape v ltac:(lia)) as (h & t & Hb & Hh1 & Hlen & Hval).
  pose proof (byte_len_le32 v Hv) as H32. pose proof (byte_len_pos v ltac:(lia)) as Hp.
  rewrite der_int_eq. cbv zeta. rewrite Hb. pose proof (bz_range h) as Hr.
  destruct (high_set h) eqn:Eh.
  - split; [|split].
    + cbn [int_ok]. change (high_set x00) with false. change (bz x00 =? 0) with true. rewrite Eh. reflexivity.
    + unfold of_be in *. cbn [rev]. rewrite of_le_snoc. change (bz x00) with 0. cbn [rev] in Hval. lia.
    + cbn [length]. lia.
  - split; [|split].
    + cbn [int_ok]. rewrite Eh. destruct (bz h =? 0) eqn:E0; [apply Z.eqb_eq in E0; lia|reflexivity].
    + exact Hval.
    + cbn [length]. lia.
Qed.

Lemma der_split_eq b : der_split b =
  match b with
  | t :: l :: t2 :: lr :: rest2 =>
      let len := Z.of_nat (length b) in
      let lenR := Z.to_nat (bz lr) in
      let rb := firstn lenR rest2 in
      match skipn lenR rest2 with
      | t3 :: ls :: rest4 =>
          let lenS := Z.to_nat (bz ls) in
          if (bz t =? 48) && (bz l =? len - 2) && (bz t2 =? 2) && (bz t3 =? 2)
             && (length rb =? lenR)%nat && (length rest4 =? lenS)%nat
             && int_ok rb && int_ok rest4
          then Some (rb, rest4) else None
      | _ => None
      end
  | _ => None
  end.
Proof. reflexivity. Qed.

Lemma der_split_build rb sb :
  (1 <= length rb <= 33)%nat -> (1 <= length sb <= 33)%nat -> int_ok rb = true -> int_ok sb = true ->
  der_split (x30 :: zb (Z.of_nat (length rb + length sb) + 4) ::
             (x02 :: zb (Z.of_nat (length rb)) :: rb) ++ (x02 :: zb (Z.of_nat (length sb)) :: sb))
  = Some (rb, sb).
Proof.
  intros Hr Hs Ir Is. rewrite der_split_eq. rewrite <- !app_comm_cons. cbv zeta.
  rewrite !bz_zb. rewrite !Z.mod_small by lia. rewrite !Nat2Z.id.
  rewrite firstn_app_exact, skipn_app_exact.
  rewrite !bz_zb. rewrite !Z.mod_small by lia. rewrite !Nat2Z.id.
  change (bz x30 =? 48) with true. change (bz x02 =? 2) with true.
  rewrite !Nat.eqb_refl, Ir, Is. cbn [andb].
  cbn [length]. rewrite app_length. cbn [length].
  destruct (_ =? _) eqn:E; [reflexivity|]. apply Z.eqb_neq in E. lia.
Qed.

Lemma der_enc_eq r s : der_enc r s =
  let rb := der_int r in
  let sb := der_int s in
  x30 :: zb (Z.of_nat (length rb + length sb) + 4) ::
    (x02 :: zb (Z.of_nat (length rb)) :: rb) ++ (x02 :: zb (Z.of_nat (length sb)) :: sb).
Proof. reflexivity. Qed.

Lemma der_split_enc r s : 0 < r < 2 ^ 256 -> 0 < s < 2 ^ 256 ->
  der_split (der_enc r s) = Some (der_int r, der_int s).
Proof.
  intros Hr Hs. destruct (der_int_props r Hr) as (I1 & V1 & L1). destruct (der_int_props s Hs) as (I2 & V2 & L2).
  rewrite der_enc_eq. cbv zeta. apply der_split_build; assumption.
Qed.

(* decode (encode (r, s)) = (r, s) *)
Lemma der_roundtrip r s : 0 < r < 2 ^ 256 -> 0 < s < 2 ^ 256 -> der_dec (der_enc r s) = Some (r, s).
Proof.
  intros Hr Hs. unfold der_dec. rewrite der_split_enc by assumption.
  destruct (der_int_props r Hr) as (_ & V1 & _). destruct (der_int_props s Hs) as (_ & V2 & _).
  rewrite V1, V2. reflexivity.
Qed.

Lemma der_enc_length r s : 0 < r < 2 ^ 256 -> 0 < s < 2 ^ 256 -> (8 <= length (der_enc r s) <= 72)%nat.
Proof.
  intros Hr Hs. destruct (der_int_props r Hr) as (_ & _ & L1). destruct (der_int_props s Hs) as (_ & _ & L2).
  rewrite der_enc_eq. cbv zeta. cbn [length]. rewrite app_length. cbn [length]. lia.
Qed.

(* every signature the encoder writes, followed by any hash-type byte, passes BIP66 *)
Lemma der_strict r s ht : 0 < r < 2 ^ 256 -> 0 < s < 2 ^ 256 -> is_strict_der (der_enc r s ++ [ht]) = true.
Proof.
  intros Hr Hs. unfold is_strict_der. cbv zeta. rewrite removelast_snoc, der_split_enc by assumption.
  pose proof (der_enc_length r s Hr Hs) as HL. rewrite app_length. cbn [length].
  destruct (9 <=? _) eqn:E1; [|apply Z.leb_gt in E1; lia].
  destruct (_ <=? 73) eqn:E2; [reflexivity|apply Z.leb_gt in E2; lia].
Qed.

(* canonical: an INTEGER body accepted by BIP66 is exactly what the encoder writes for its value *)
Lemma be_bytes_of_be_len l k : length l = k -> be_bytes k (of_be l) = l.
Proof. intros <-. apply be_bytes_of_be. Qed.

Lemma of_be_cons h t : of_be (h :: t) = bz h * 256 ^ Z.of_nat (length t) + of_be t.
Proof. unfold of_be. cbn [rev]. rewrite of_le_snoc, rev_length. lia. Qed.

Lemma int_ok_canonical b : int_ok b = true -> 0 < of_be b -> der_int (of_be b) = b.
Proof.
  intros Hok Hpos. destruct b as [|h tl]; [discriminate|]. cbn [int_ok] in Hok.
  apply andb_true_iff in Hok. destruct Hok as [Hh Hpad]. apply negb_true_iff in Hh.
  pose proof (bz_range h) as Hr.
  assert (Hlt : bz h < 128) by (destruct (Z_lt_dec (bz h) 128); [assumption|]; exfalso;
        assert (high_set h = true) by (apply high_set_spec; lia); congruence).
  destruct (bz h =? 0) eqn:E0.
  - (* leading 00: the next byte has its high bit set *)
    cbn [andb] in Hpad. apply Z.eqb_eq in E0.
    destruct tl as [|h2 t2]; [exfalso; rewrite of_be_cons in Hpos; cbn in Hpos; lia|].
    rewrite negb_involutive in Hpad. apply high_set_spec in Hpad.
    assert (Hv : of_be (h :: h2 :: t2) = of_be (h2 :: t2)) by (rewrite (of_be_cons h), E0; lia).
    rewrite Hv. rewrite der_int_eq. cbv zeta.
    pose proof (of_be_range t2) as Ht2. pose proof (pow256_pos (length t2)) as Hpp. pose proof (bz_range h2) as Hr2.
    assert (Hbl : byte_len (of_be (h2 :: t2)) = S (length t2)).
    { apply byte_len_unique; [lia|]. replace (S (length t2) - 1)%nat with (length t2) by lia.
      rewrite of_be_cons, Nat2Z.inj_succ, Z.pow_succ_r by lia. nia. }
    rewrite Hbl, be_bytes_of_be_len by reflexivity.
    assert (Hh2 : high_set h2 = true) by (apply high_set_spec; lia). rewrite Hh2.
    f_equal. apply bz_inj. rewrite E0. reflexivity.
  - apply Z.eqb_neq in E0. rewrite der_int_eq. cbv zeta.
    pose proof (of_be_range tl) as Ht. pose proof (pow256_pos (length tl)) as Hpp.
    assert (Hbl : byte_len (of_be (h :: tl)) = S (length tl)).
    { apply byte_len_unique; [lia|]. replace (S (length tl) - 1)%nat with (length tl) by lia.
      rewrite of_be_cons, Nat2Z.inj_succ, Z.pow_succ_r by lia. nia. }
    rewrite Hbl, be_bytes_of_be_len by reflexivity. rewrite Hh. reflexivity.
Qed.

Lemma byte_of_bz b v : bz b = v -> b = zb v.
Proof. intros <-. symmetry. apply zb_bz. Qed.

(* everything the strict decoder accepts (with positive r, s) is exactly the encoder's output:
   one signature value has exactly one accepted DER spelling *)
Lemma der_canonical b r s : der_dec b = Some (r, s) -> 0 < r -> 0 < s -> der_enc r s = b.
Proof.
  unfold der_dec. destruct (der_split b) as [[rb sb]|] eqn:Hs; [|discriminate].
  intros H Hr Hsp. assert (r = of_be rb) by congruence. assert (s = of_be sb) by congruence. subst r s. clear H.
  rewrite der_split_eq in Hs.
  destruct b as [|t [|l [|t2 [|lr rest2]]]]; try discriminate. cbv zeta in Hs.
  destruct (skipn (Z.to_nat (bz lr)) rest2) as [|t3 [|ls rest4]] eqn:Esk; try discriminate.
  destruct (_ && _) eqn:Econd in Hs; [|discriminate].
  assert (rb = firstn (Z.to_nat (bz lr)) rest2) by congruence. assert (sb = rest4) by congruence.
  subst sb. clear Hs.
  repeat (apply andb_true_iff in Econd; destruct Econd as [Econd ?]).
  match goal with H : int_ok rest4 = true |- _ => rename H into Is end.
  match goal with H : int_ok (firstn _ _) = true |- _ => rename H into Ir end.
  match goal with H : (length rest4 =? _)%nat = true |- _ => apply Nat.eqb_eq in H; rename H into Ls end.
  match goal with H : (length (firstn _ _) =? _)%nat = true |- _ => apply Nat.eqb_eq in H; rename H into Lr end.
  match goal with H : (bz t3 =? 2) = true |- _ => apply Z.eqb_eq in H; rename H into T3 end.
  match goal with H : (bz t2 =? 2) = true |- _ => apply Z.eqb_eq in H; rename H into T2 end.
  match goal with H : (bz l =? _) = true |- _ => apply Z.eqb_eq in H; rename H into Ll end.
  apply Z.eqb_eq in Econd. rename Econd into T1.
  rewrite <- H in Ir, Lr.
  assert (Hrest : rest2 = rb ++ t3 :: ls :: rest4).
  { rewrite <- (firstn_skipn (Z.to_nat (bz lr)) rest2), Esk, <- H. reflexivity. }
  rewrite der_enc_eq. cbv zeta.
  rewrite (int_ok_canonical rb Ir Hr), (int_ok_canonical rest4 Is Hsp).
  pose proof (bz_range lr) as Hlr. pose proof (bz_range ls) as Hls.
  assert (Elr : lr = zb (Z.of_nat (length rb))) by (apply byte_of_bz; lia).
  assert (Els : ls = zb (Z.of_nat (length rest4))) by (apply byte_of_bz; lia).
  assert (Et : t = x30) by (apply bz_inj; exact T1).
  assert (Et2 : t2 = x02) by (apply bz_inj; exact T2).
  assert (Et3 : t3 = x02) by (apply bz_inj; exact T3).
  assert (El : l = zb (Z.of_nat (length rb + length rest4) + 4)).
  { apply byte_of_bz. rewrite Ll, Hrest. cbn [length]. rewrite app_length. cbn [length]. lia. }
  rewrite Hrest, Et, Et2, Et3, <- El, <- Elr, <- Els. reflexivity.
Qed.

(* ---------------------------------------------------------------- the library's (fastecdsa) decoder on strict input *)

(* what der_split = Some says about the bytes *)
Lemma der_split_inv b rb sb : der_split b = Some (rb, sb) ->
  exists t l t2 lr t3 ls,
    b = t :: l :: t2 :: lr :: rb ++ t3 :: ls :: sb /\ bz t = 48 /\ bz l = Z.of_nat (length b) - 2 /\
    bz t2 = 2 /\ bz t3 = 2 /\ bz lr = Z.of_nat (length rb) /\ bz ls = Z.of_nat (length sb) /\
    int_ok rb = true /\ int_ok sb = true.
Proof.
  intros Hs. rewrite der_split_eq in Hs.
  destruct b as [|t [|l [|t2 [|lr rest2]]]]; try discriminate. cbv zeta in Hs.
  destruct (skipn (Z.to_nat (bz lr)) rest2) as [|t3 [|ls rest4]] eqn:Esk; try discriminate.
  destruct (_ && _) eqn:Econd in Hs; [|discriminate].
  assert (rb = firstn (Z.to_nat (bz lr)) rest2) by congruence. assert (sb = rest4) by congruence.
  subst sb. clear Hs.
  repeat (apply andb_true_iff in Econd; destruct Econd as [Econd ?]).
  match goal with H : int_ok rest4 = true |- _ => rename H into Is end.
  match goal with H : int_ok (firstn _ _) = true |- _ => rename H into Ir end.
  match goal with H : (length rest4 =? _)%nat = true |- _ => apply Nat.eqb_eq in H; rename H into Ls end.
  match goal with H : (length (firstn _ _) =? _)%nat = true |- _ => apply Nat.eqb_eq in H; rename H into Lr end.
  match goal with H : (bz t3 =? 2) = true |- _ => apply Z.eqb_eq in H; rename H into T3 end.
  match goal with H : (bz t2 =? 2) = true |- _ => apply Z.eqb_eq in H; rename H into T2 end.
  match goal with H : (bz l =? _) = true |- _ => apply Z.eqb_eq in H; rename H into Ll end.
  apply Z.eqb_eq in Econd. rename Econd into T1.
  rewrite <- H in Ir, Lr.
  assert (Hrest : rest2 = rb ++ t3 :: ls :: rest4).
  { rewrite <- (firstn_skipn (Z.to_nat (bz lr)) rest2), Esk, <- H. reflexivity. }
  pose proof (bz_range lr) as Hlr. pose proof (bz_range ls) as Hls.
  exists t, l, t2, lr, t3, ls. rewrite Hrest. repeat split; try assumption; try lia.
  rewrite <- Hrest. exact Ll.
Qed.

Lemma asn1_split_app a b : asn1_split (Z.of_nat (length a)) (a ++ b) = Some (a, b).
Proof.
  unfold asn1_split. rewrite Nat2Z.id, firstn_app_exact, skipn_app_exact.
  destruct (_ <? _) eqn:E; [|reflexivity]. apply Z.ltb_lt in E. rewrite app_length in E. lia.
Qed.

Lemma asn1_length_short lb a b : bz lb = Z.of_nat (length a) -> (length a < 128)%nat ->
  asn1_length (lb :: a ++ b) = Some (a, b).
Proof.
  intros Hl Hs. unfold asn1_length. rewrite Hl.
  destruct (_ <? 128) eqn:E; [apply asn1_split_app|]. apply Z.ltb_ge in E. lia.
Qed.

Lemma asn1_int_eq data : asn1_int data =
  match data with
  | t :: rest => if (length data <? 3)%nat || negb (bz t =? 2) then None else asn1_length rest
  | [] => None
  end.
Proof. reflexivity. Qed.

Lemma asn1_int_short t lb a b : bz t = 2 -> bz lb = Z.of_nat (length a) -> (1 <= length a < 128)%nat ->
  asn1_int (t :: lb :: a ++ b) = Some (a, b).
Proof.
  intros Ht Hl Hs. rewrite asn1_int_eq. rewrite Ht. change (negb (2 =? 2)) with false.
  destruct (_ <? 3)%nat eqn:E.
  - apply Nat.ltb_lt in E. cbn [length] in E. rewrite app_length in E. lia.
  - cbn [orb]. apply asn1_length_short; [exact Hl|lia].
Qed.

Lemma int_ok_nonempty b : int_ok b = true -> (1 <= length b)%nat.
Proof. destruct b; [discriminate|]. cbn [length]. lia. Qed.

Lemma lib_der_dec_eq sig : lib_der_dec sig =
  match sig with
  | t :: rest =>
      if bz t =? 48 then
        match asn1_length rest with
        | Some (sq, []) =>
            match asn1_int sq with
            | Some (rb, sdata) =>
                match asn1_int sdata with
                | Some (sb, _) =>
                    if lib_int_ok rb && lib_int_ok sb then Some (of_be rb, of_be sb) else None
                | None => None
                end
            | None => None
            end
        | _ => None
        end
      else None
  | [] => None
  end.
Proof. reflexivity. Qed.

(* on a BIP66-shaped body the library's decoder takes exactly the strict decoder's path *)
Lemma lib_der_dec_of_split b rb sb : der_split b = Some (rb, sb) -> (length b <= 129)%nat ->
  lib_der_dec b = if lib_int_ok rb && lib_int_ok sb then Some (of_be rb, of_be sb) else None.
Proof.
  intros Hs Hlen. destruct (der_split_inv b rb sb Hs) as (t & l & t2 & lr & t3 & ls & Hb & T & L & T2 & T3 & LR & LS & Ir & Is).
  pose proof (int_ok_nonempty rb Ir) as Nr. pose proof (int_ok_nonempty sb Is) as Ns.
  assert (Hlb : length b = (4 + length rb + (2 + length sb))%nat).
  { rewrite Hb. cbn [length]. rewrite app_length. cbn [length]. lia. }
  rewrite lib_der_dec_eq. rewrite Hb. rewrite T. change (48 =? 48) with true. cbv iota.
  replace (t2 :: lr :: rb ++ t3 :: ls :: sb) with ((t2 :: lr :: rb ++ t3 :: ls :: sb) ++ []) by apply app_nil_r.
  rewrite asn1_length_short.
  - rewrite asn1_int_short by (try assumption; lia).
    replace (t3 :: ls :: sb) with (t3 :: ls :: sb ++ []) by (rewrite app_nil_r; reflexivity).
    rewrite asn1_int_short by (try assumption; lia). reflexivity.
  - rewrite L, Hlb. cbn [length]. rewrite app_length. cbn [length]. lia.
  - cbn [length]. rewrite app_length. cbn [length]. lia.
Qed.

(* the only INTEGER body BIP66 admits and the library's decoder does not is the single byte 00 (value 0) *)
Lemma lib_int_ok_or_zero b : int_ok b = true -> lib_int_ok b = true \/ of_be b = 0.
Proof.
  intros Hok. destruct b as [|h tl]; [discriminate|]. cbn [int_ok] in Hok. cbn [lib_int_ok].
  apply andb_true_iff in Hok. destruct Hok as [Hh Hpad]. rewrite Hh. cbn [andb].
  destruct tl as [|h2 t2].
  - destruct (bz h =? 0) eqn:E0; [right|left; reflexivity].
    apply Z.eqb_eq in E0. rewrite of_be_cons, E0. cbn. reflexivity.
  - left. exact Hpad.
Qed.

Lemma length_removelast (A : Type) (l : list A) : l <> [] -> length l = S (length (removelast l)).
Proof.
  intros Hn. destruct (exists_last Hn) as (l' & a & ->). rewrite removelast_snoc, app_length. cbn [length]. lia.
Qed.
