(* Proofs/LedgerDb.v — C08 at the level of the database file: several wallets, session and committed rows.
   - every operation's effect is in the file when the operation returns (durability, every operation kind);
   - an operation on one wallet keeps the ledger invariant of EVERY wallet of the file and leaves the other wallets'
     rows alone, except that send() marks the outpoints it consumed in the rows of every wallet;
   - delete() re-opens only outpoints the deleted transaction consumed (sibling outputs stay as they are). *)
From Coq Require Import ZArith List Bool Lia.
From Verif Require Import Lib.Bytes Model.Ledger Proofs.LedgerBalance Proofs.LedgerInv Proofs.LedgerGroups.
Import ListNotations.
Open Scope Z_scope.

Definition Synced (w : wal) : Prop := wl_disk w = persisted (wl_live w).
Definition DbSynced (D : dbase) : Prop := forall w, In w D -> Synced w.
Definition DbInv (D : dbase) : Prop := forall w, In w D -> Inv (wl_live w) /\ Synced w.

(* the variants the theorems speak about: repaired balance update, strict delete, delete commits *)
Definition good (v : variant) : Prop := v_repaired v = true /\ v_strict v = true /\ v_del_commits v = true.

Lemma good_lib : good lib_variant.
Proof. repeat split. Qed.
Lemma good_own : good own_variant.
Proof. repeat split. Qed.

(* ---------------------------------------------------------------- the step as one map over the file *)
Definition new_wal (v : variant) (w : wal) (wid : Z) (o : op) : wal :=
  let live0 := match o with Reopen => open_disk w | _ => wl_live w end in
  let r := step_gen (v_repaired v) (v_strict v) live0 o in
  mkWal wid (fst r) (if commits v o then persisted (fst r) else wl_disk w).

Definition others_fn (v : variant) (o : op) (x : wal) : wal :=
  match o with
  | Store true d => if v_mark_all v then mark_wal (d_ins d) x else x
  | _ => x
  end.

Definition refusal (v : variant) (D : dbase) (wid : Z) (w : wal) (o : op) : bool :=
  delete_blocked v D wid o && (match o with Delete txid => has_tx (l_txs (wl_live w)) txid | _ => false end).

Lemma find_wal_in D wid w : find_wal D wid = Some w -> In w D /\ wl_id w = wid.
Proof.
  unfold find_wal. intros H. apply find_some in H. destruct H as [A B]. apply Z.eqb_eq in B. split; assumption.
Qed.

Lemma db_step_eq v D wid o w :
  find_wal D wid = Some w -> refusal v D wid w o = false ->
  fst (db_step_gen v D wid o) =
  map (fun x => if wl_id x =? wid then new_wal v w wid o else others_fn v o x) D.
Proof.
  intros Hf Hr. unfold db_step_gen. rewrite Hf. unfold refusal in Hr. rewrite Hr.
  fold (new_wal v w wid o).
  assert (Hid : wl_id (new_wal v w wid o) =? wid = true) by (unfold new_wal; cbn [wl_id]; apply Z.eqb_refl).
  assert (E2 : map (fun x => if wl_id x =? wid then x else others_fn v o x)
                   (map (fun x => if wl_id x =? wid then new_wal v w wid o else x) D) =
               map (fun x => if wl_id x =? wid then new_wal v w wid o else others_fn v o x) D).
  { rewrite map_map. apply map_ext. intros a. destruct (wl_id a =? wid) eqn:E; [rewrite Hid; reflexivity | rewrite E; reflexivity]. }
  destruct o as [ | | |sent d| | | | | | ]; cbn [fst others_fn] in *; try reflexivity.
  destruct sent.
  - revert E2. destruct (v_mark_all v); intros E2.
    + rewrite <- E2. reflexivity.
    + reflexivity.
  - reflexivity.
Qed.

Lemma db_step_none v D wid o : find_wal D wid = None -> fst (db_step_gen v D wid o) = D.
Proof. intros H. unfold db_step_gen. rewrite H. reflexivity. Qed.

Lemma db_step_refused v D wid o w :
  find_wal D wid = Some w -> refusal v D wid w o = true -> fst (db_step_gen v D wid o) = D.
Proof. intros H R. unfold db_step_gen. rewrite H. unfold refusal in R. rewrite R. reflexivity. Qed.

(* ---------------------------------------------------------------- what depends on the persisted component only *)
Lemma Inv_ext a b : l_keys a = l_keys b -> l_txs a = l_txs b -> Inv a -> Inv b.
Proof. intros K T [[ND W] S]. unfold Inv, WF. rewrite <- K, <- T. split; [split|]; assumption. Qed.

Lemma open_disk_keys w : Synced w -> l_keys (open_disk w) = l_keys (wl_live w).
Proof. unfold Synced, open_disk, persisted. intros ->. reflexivity. Qed.
Lemma open_disk_txs w : Synced w -> l_txs (open_disk w) = l_txs (wl_live w).
Proof. unfold Synced, open_disk, persisted. intros ->. reflexivity. Qed.

Lemma utxos_ext a b g mc : l_keys a = l_keys b -> l_txs a = l_txs b -> utxos a g mc = utxos b g mc.
Proof. intros K T. unfold utxos. rewrite K, T. reflexivity. Qed.

Theorem second_object_reads_live_proof w :
  Synced w ->
  persisted (open_disk w) = persisted (wl_live w) /\
  l_default (open_disk w) = l_default (wl_live w) /\
  (forall g mc, utxos (open_disk w) g mc = utxos (wl_live w) g mc) /\
  persisted (fst (step (open_disk w) Reopen)) = persisted (wl_live w).
Proof.
  intros S. pose proof (open_disk_keys w S) as K. pose proof (open_disk_txs w S) as T.
  split; [unfold persisted; rewrite K, T; reflexivity|]. split; [reflexivity|].
  split; [intros g mc; apply utxos_ext; assumption|].
  cbn [step step_gen fst persisted l_keys l_txs]. rewrite K, T. reflexivity.
Qed.

(* operations which do not commit do not change the rows *)
Lemma nocommit_persisted v r st s o :
  v_del_commits v = true -> commits v o = false -> persisted (fst (step_gen r st s o)) = persisted s.
Proof.
  intros C H. destruct o; cbn [commits] in H; try discriminate; try reflexivity.
  rewrite C in H. discriminate.
Qed.

(* ---------------------------------------------------------------- send() of another wallet *)
Lemma mark_spent_id ins txs : unspent_consumed ins txs = false -> mark_spent ins txs = txs.
Proof.
  intros H. unfold mark_spent. rewrite <- (map_id txs) at 2. apply map_ext_in. intros t Ht.
  assert (Ho : map (fun o => if consumed ins (t_txid t) (o_n o) then mkOut (o_n o) (o_value o) (o_key o) true else o)
                   (t_outs t) = t_outs t).
  { rewrite <- (map_id (t_outs t)) at 2. apply map_ext_in. intros o Hin.
    destruct (consumed ins (t_txid t) (o_n o)) eqn:C; [|reflexivity].
    unfold unspent_consumed in H.
    assert (F : existsb (fun o => negb (o_spent o) && consumed ins (t_txid t) (o_n o)) (t_outs t) = false).
    { destruct (existsb (fun o => negb (o_spent o) && consumed ins (t_txid t) (o_n o)) (t_outs t)) eqn:E; [|reflexivity].
      assert (existsb (fun t => existsb (fun o => negb (o_spent o) && consumed ins (t_txid t) (o_n o)) (t_outs t)) txs = true)
        by (apply existsb_exists; exists t; split; assumption).
      congruence. }
    assert (G : negb (o_spent o) && consumed ins (t_txid t) (o_n o) = false).
    { destruct (negb (o_spent o) && consumed ins (t_txid t) (o_n o)) eqn:E; [|reflexivity].
      assert (existsb (fun o => negb (o_spent o) && consumed ins (t_txid t) (o_n o)) (t_outs t) = true)
        by (apply existsb_exists; exists o; split; assumption).
      congruence. }
    rewrite C, andb_true_r in G. apply negb_false_iff in G. destruct o as [n vl k sp]. cbn [o_spent o_n o_value o_key] in *.
    subst sp. reflexivity. }
  unfold set_tx. rewrite Ho. destruct t; reflexivity.
Qed.

Lemma mark_wal_id ins x :
  unspent_consumed ins (l_txs (wl_live x)) = false -> unspent_consumed ins (snd (wl_disk x)) = false ->
  mark_wal ins x = x.
Proof.
  intros A B. unfold mark_wal. rewrite (mark_spent_id _ _ A), (mark_spent_id _ _ B).
  destruct x as [i l d]. cbn [wl_id wl_live wl_disk]. destruct l; destruct d; reflexivity.
Qed.

Lemma mark_wal_inv ins x : Inv (wl_live x) -> Inv (wl_live (mark_wal ins x)).
Proof.
  intros [[ND W] S]. unfold mark_wal. cbn [wl_live]. split; [split|]; cbn [with_txs l_keys l_txs].
  - exact ND.
  - apply mark_spent_keys_ok. exact W.
  - apply mark_spent_sent. intros t o Ht Ho H. left. eapply S; eauto.
Qed.

Lemma mark_wal_synced ins x : Synced x -> Synced (mark_wal ins x).
Proof.
  unfold Synced, mark_wal, persisted. cbn [wl_disk wl_live with_txs l_keys l_txs]. intros ->. reflexivity.
Qed.

Lemma others_fn_inv v o x : Inv (wl_live x) -> Inv (wl_live (others_fn v o x)).
Proof.
  intros I. unfold others_fn. destruct o; try exact I. destruct sent; [|exact I].
  destruct (v_mark_all v); [apply mark_wal_inv|]; exact I.
Qed.

Lemma others_fn_synced v o x : Synced x -> Synced (others_fn v o x).
Proof.
  intros I. unfold others_fn. destruct o; try exact I. destruct sent; [|exact I].
  destruct (v_mark_all v); [apply mark_wal_synced|]; exact I.
Qed.

Lemma others_fn_id v o x : wl_id (others_fn v o x) = wl_id x.
Proof.
  unfold others_fn. destruct o; try reflexivity. destruct sent; [|reflexivity].
  destruct (v_mark_all v); reflexivity.
Qed.

(* ---------------------------------------------------------------- durability: every operation kind *)
Lemma new_wal_synced v w wid o : v_del_commits v = true -> Synced w -> Synced (new_wal v w wid o).
Proof.
  intros C S. unfold Synced, new_wal. cbn [wl_disk wl_live].
  destruct (commits v o) eqn:E; [reflexivity|].
  rewrite (nocommit_persisted v _ _ _ o C E).
  destruct o; try exact S.
  unfold open_disk, persisted. cbn [l_keys l_txs]. destruct (wl_disk w); reflexivity.
Qed.

Theorem synced_step_proof v D wid o :
  v_del_commits v = true -> DbSynced D -> DbSynced (fst (db_step_gen v D wid o)).
Proof.
  intros C S. destruct (find_wal D wid) as [w|] eqn:F; [|rewrite (db_step_none _ _ _ _ F); exact S].
  destruct (refusal v D wid w o) eqn:R; [rewrite (db_step_refused _ _ _ _ _ F R); exact S|].
  rewrite (db_step_eq _ _ _ _ _ F R). intros x Hx. apply in_map_iff in Hx. destruct Hx as [x0 [<- Hx0]].
  destruct (wl_id x0 =? wid).
  - apply new_wal_synced; [exact C|]. apply S. apply (find_wal_in _ _ _ F).
  - apply others_fn_synced. apply S. exact Hx0.
Qed.

Lemma synced_create D wid d b : DbSynced D -> DbSynced (db_create D wid d b).
Proof.
  intros S w Hw. unfold db_create in Hw. apply in_app_or in Hw. destruct Hw as [Hw|[<-|[]]]; [apply S; exact Hw|].
  reflexivity.
Qed.

Theorem synced_run_proof v xs : v_del_commits v = true -> forall D, DbSynced D -> DbSynced (db_run v D xs).
Proof.
  intros C. induction xs as [|x r IH]; intros D S; [exact S|].
  unfold db_run. cbn [fold_left]. apply IH. destruct x as [wid d b|wid o]; cbn [db_apply].
  - apply synced_create. exact S.
  - apply synced_step_proof; assumption.
Qed.

Lemma synced_empty : DbSynced [].
Proof. intros w []. Qed.

(* after ANY history over the file (no precondition), for every wallet: what a second Wallet object, another process
   or the wallet after close + reopen reads is what the live object holds *)
Theorem reload_equal_every_op_proof xs w :
  In w (db_run lib_variant [] xs) ->
  persisted (open_disk w) = persisted (wl_live w) /\
  l_default (open_disk w) = l_default (wl_live w) /\
  (forall g mc, utxos (open_disk w) g mc = utxos (wl_live w) g mc) /\
  persisted (fst (step (open_disk w) Reopen)) = persisted (wl_live w).
Proof.
  intros H. apply second_object_reads_live_proof.
  apply (synced_run_proof lib_variant xs eq_refl [] synced_empty). exact H.
Qed.

(* ---------------------------------------------------------------- the invariant of every wallet of the file *)
Lemma new_wal_inv v w wid o :
  good v -> Inv (wl_live w) -> Synced w ->
  op_ok (match o with Reopen => open_disk w | _ => wl_live w end) o = true ->
  Inv (wl_live (new_wal v w wid o)).
Proof.
  intros [R [St _]] I S G. unfold new_wal. cbn [wl_live]. rewrite R, St.
  change (step_gen true true) with step.
  apply inv_step_proof; [|exact G].
  destruct o; try exact I.
  apply (Inv_ext (wl_live w)); [symmetry; apply open_disk_keys; exact S | symmetry; apply open_disk_txs; exact S | exact I].
Qed.

Theorem db_inv_step_proof v D wid o :
  good v -> DbInv D -> db_op_ok D wid o = true -> DbInv (fst (db_step_gen v D wid o)).
Proof.
  intros Gv I G. destruct (find_wal D wid) as [w|] eqn:F; [|rewrite (db_step_none _ _ _ _ F); exact I].
  destruct (refusal v D wid w o) eqn:R; [rewrite (db_step_refused _ _ _ _ _ F R); exact I|].
  rewrite (db_step_eq _ _ _ _ _ F R). intros x Hx. apply in_map_iff in Hx. destruct Hx as [x0 [<- Hx0]].
  unfold db_op_ok in G. rewrite F in G.
  destruct (I w (proj1 (find_wal_in _ _ _ F))) as [Iw Sw].
  destruct (wl_id x0 =? wid).
  - split; [apply new_wal_inv; assumption | apply new_wal_synced; [apply Gv | exact Sw]].
  - destruct (I x0 Hx0) as [I0 S0]. split; [apply others_fn_inv; exact I0 | apply others_fn_synced; exact S0].
Qed.

Lemma db_inv_create D wid d b : DbInv D -> DbInv (db_create D wid d b).
Proof.
  intros I w Hw. unfold db_create in Hw. apply in_app_or in Hw. destruct Hw as [Hw|[<-|[]]]; [apply I; exact Hw|].
  split; [apply inv_init_proof | reflexivity].
Qed.

Fixpoint db_ops_ok (v : variant) (D : dbase) (xs : list dbop) : bool :=
  match xs with
  | [] => true
  | x :: r => (match x with DCreate _ _ _ => true | DOp wid o => db_op_ok D wid o end) && db_ops_ok v (db_apply v D x) r
  end.

Theorem db_inv_run_proof v xs : good v -> forall D, DbInv D -> db_ops_ok v D xs = true -> DbInv (db_run v D xs).
Proof.
  intros Gv. induction xs as [|x r IH]; intros D I G; [exact I|].
  cbn [db_ops_ok] in G. apply andb_true_iff in G. destruct G as [G1 G2].
  unfold db_run. cbn [fold_left]. apply IH; [|exact G2].
  destruct x as [wid d b|wid o]; cbn [db_apply].
  - apply db_inv_create. exact I.
  - apply db_inv_step_proof; assumption.
Qed.

Lemma db_inv_empty : DbInv [].
Proof. intros w []. Qed.

(* the property for every wallet of the file, after any guarded history over the file *)
Theorem db_ledger_consistent_proof xs :
  db_ops_ok lib_variant [] xs = true ->
  forall w, In w (db_run lib_variant [] xs) ->
  let s' := fst (step (wl_live w) Balance) in
  forall g,
  reported s' g = usum s' g /\ ksum s' g = usum s' g /\
  (forall mc u, In u (utxos s' g mc) -> spent_by_sent (l_txs s') (u_txid u) (u_n u) = false).
Proof.
  intros G w Hw s' g.
  destruct (db_inv_run_proof lib_variant xs good_lib [] db_inv_empty G w Hw) as [I _].
  destruct (balance_consistent (wl_live w) g (proj1 I)) as [A B].
  split; [exact A|]. split; [exact B|].
  intros mc u Hu. apply (utxos_never_spent_any s' g mc); [|exact Hu].
  unfold s'. apply inv_step_proof; [exact I | reflexivity].
Qed.

(* ---------------------------------------------------------------- the other wallets of the file *)
Theorem other_wallets_untouched_proof v D wid o x :
  In x D -> wl_id x <> wid -> touches_others v D wid o = false -> In x (fst (db_step_gen v D wid o)).
Proof.
  intros Hx Hne T. destruct (find_wal D wid) as [w|] eqn:F; [|rewrite (db_step_none _ _ _ _ F); exact Hx].
  destruct (refusal v D wid w o) eqn:R; [rewrite (db_step_refused _ _ _ _ _ F R); exact Hx|].
  rewrite (db_step_eq _ _ _ _ _ F R). apply in_map_iff. exists x. split; [|exact Hx].
  apply Z.eqb_neq in Hne. rewrite Hne.
  unfold others_fn. destruct o; try reflexivity. destruct sent; [|reflexivity].
  destruct (v_mark_all v) eqn:M; [|reflexivity].
  cbn [touches_others] in T. rewrite M in T. cbn [andb] in T.
  assert (Q : negb (wl_id x =? wid) &&
              (unspent_consumed (d_ins d) (l_txs (wl_live x)) || unspent_consumed (d_ins d) (snd (wl_disk x))) = false).
  { destruct (negb (wl_id x =? wid) &&
              (unspent_consumed (d_ins d) (l_txs (wl_live x)) || unspent_consumed (d_ins d) (snd (wl_disk x)))) eqn:E;
      [|reflexivity].
    assert (existsb (fun x => negb (wl_id x =? wid) &&
              (unspent_consumed (d_ins d) (l_txs (wl_live x)) || unspent_consumed (d_ins d) (snd (wl_disk x)))) D = true)
      by (apply existsb_exists; exists x; split; assumption).
    congruence. }
  rewrite Hne in Q. cbn [negb andb] in Q. apply orb_false_iff in Q. destruct Q as [Q1 Q2].
  apply mark_wal_id; assumption.
Qed.

Lemma touches_others_isolated v D wid o : v_mark_all v = false -> touches_others v D wid o = false.
Proof. intros M. destruct o; try reflexivity. destruct sent; [|reflexivity]. cbn [touches_others]. rewrite M. reflexivity. Qed.

(* with a send() that looks only at the rows of its own wallet, no guard is needed *)
Theorem other_wallets_untouched_isolated_proof v D wid o x :
  v_mark_all v = false -> In x D -> wl_id x <> wid -> In x (fst (db_step_gen v D wid o)).
Proof. intros M Hx Hne. apply other_wallets_untouched_proof; [exact Hx | exact Hne | apply touches_others_isolated; exact M]. Qed.

(* without the guard: another wallet is either untouched or its rows got the marks of the transaction just sent; its
   keys, key balances and in-memory balances never change *)
Theorem other_wallets_only_marked_proof v D wid o x :
  In x D -> wl_id x <> wid ->
  In x (fst (db_step_gen v D wid o)) \/
  (exists d, o = Store true d /\ v_mark_all v = true /\ In (mark_wal (d_ins d) x) (fst (db_step_gen v D wid o))).
Proof.
  intros Hx Hne. destruct (find_wal D wid) as [w|] eqn:F; [|left; rewrite (db_step_none _ _ _ _ F); exact Hx].
  destruct (refusal v D wid w o) eqn:R; [left; rewrite (db_step_refused _ _ _ _ _ F R); exact Hx|].
  rewrite (db_step_eq _ _ _ _ _ F R).
  assert (Hin : In (others_fn v o x) (map (fun x => if wl_id x =? wid then new_wal v w wid o else others_fn v o x) D)).
  { apply in_map_iff. exists x. split; [|exact Hx]. apply Z.eqb_neq in Hne. rewrite Hne. reflexivity. }
  unfold others_fn in Hin at 1. destruct o; try (left; exact Hin). destruct sent; [|left; exact Hin].
  destruct (v_mark_all v) eqn:M; [|left; exact Hin].
  right. exists d. split; [reflexivity|]. split; [reflexivity | exact Hin].
Qed.

Lemma mark_wal_keeps ins x :
  wl_id (mark_wal ins x) = wl_id x /\ l_keys (wl_live (mark_wal ins x)) = l_keys (wl_live x) /\
  l_cache (wl_live (mark_wal ins x)) = l_cache (wl_live x) /\ fst (wl_disk (mark_wal ins x)) = fst (wl_disk x).
Proof. repeat split. Qed.

(* ---------------------------------------------------------------- delete re-opens only what the transaction consumed *)
Theorem delete_reopens_only_its_inputs_proof s txid d g mc u :
  find_tx (l_txs s) txid = Some d ->
  In u (utxos (delete_tx true txid s) g mc) ->
  In u (utxos s g mc) \/ consumed (t_ins d) (u_txid u) (u_n u) = true.
Proof.
  intros F Hu. unfold delete_tx in Hu. rewrite F in Hu.
  unfold utxos in Hu. cbn [with_txs l_keys l_txs] in Hu.
  apply in_flat_map in Hu. destruct Hu as [t' [Ht' Hu]].
  unfold unmark in Ht'. apply in_map_iff in Ht'. destruct Ht' as [t [<- Ht]].
  apply filter_In in Ht. destruct Ht as [Ht _].
  unfold tx_utxos in Hu. cbn [set_tx t_grp t_conf t_outs t_txid] in Hu.
  destruct (grp_eqb (t_grp t) g && (mc <=? t_conf t)) eqn:E; [|destruct Hu].
  apply in_flat_map in Hu. destruct Hu as [o' [Ho' Hu]].
  apply in_map_iff in Ho'. destruct Ho' as [o [<- Ho]].
  set (rest := filter (fun t0 => negb (t_txid t0 =? txid)) (l_txs s)) in *.
  destruct (o_spent o && consumed (t_ins d) (t_txid t) (o_n o) && negb (true && spent_in_db rest (t_txid t) (o_n o))) eqn:C.
  - right. cbn [o_key o_spent o_n o_value] in Hu.
    destruct (o_key o) as [k|]; [|destruct Hu].
    destruct (negb false && has_key (l_keys s) k); [|destruct Hu].
    destruct Hu as [<-|[]]. cbn [u_txid u_n].
    apply andb_true_iff in C. destruct C as [C _]. apply andb_true_iff in C. destruct C as [_ C]. exact C.
  - left. unfold utxos. apply in_flat_map. exists t. split; [exact Ht|].
    unfold tx_utxos. rewrite E. apply in_flat_map. exists o. split; [exact Ho | exact Hu].
Qed.
