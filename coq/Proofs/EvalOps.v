(* Proofs/EvalOps.v — per-opcode comparison of the library's Stack methods with Core's EvalScript cases. *)
From Coq Require Import ZArith List Bool Lia.
From Coq.Strings Require Import Byte.
From Verif Require Import Lib.Bytes Gen.GenConsts Model.Wire Model.EvalLib Model.EvalCore Proofs.ScriptNum Proofs.EvalNum.
Import ListNotations.
Open Scope Z_scope.

(* one step agrees: both continue with the same stack, or both make the script fail *)
Definition op_agree (l : opres) (c : option stack) : Prop :=
  match l, c with
  | ROk s, Some s' => s = s'
  | RFalse _, None | RExc _, None => True
  | _, _ => False
  end.

(* ... and the operand discipline survives the step *)
Definition op_agree_good (l : opres) (c : option stack) : Prop :=
  match l, c with
  | ROk s, Some s' => s = s' /\ Forall good s
  | RFalse _, None | RExc _, None => True
  | _, _ => False
  end.

Lemma op_agree_good_weaken l c : op_agree_good l c -> op_agree l c.
Proof. destruct l, c; cbn; tauto. Qed.

Lemma bytes_eqb_sym a b : bytes_eqb a b = bytes_eqb b a.
Proof.
  destruct (bytes_eqb a b) eqn:E1, (bytes_eqb b a) eqn:E2; try reflexivity.
  - apply bytes_eqb_true in E1. subst. rewrite bytes_eqb_refl in E2. discriminate.
  - apply bytes_eqb_true in E2. subst. rewrite bytes_eqb_refl in E1. discriminate.
Qed.

Lemma is_arith1 a r : is_arith 1 (a :: r) = Some (length a <=? 4)%nat.
Proof. unfold is_arith. cbn. rewrite andb_true_r. reflexivity. Qed.
Lemma is_arith2 a b r : is_arith 2 (a :: b :: r) = Some ((length a <=? 4)%nat && (length b <=? 4)%nat).
Proof. unfold is_arith. cbn. rewrite andb_true_r. reflexivity. Qed.
Lemma is_arith3 a b c r : is_arith 3 (a :: b :: c :: r) =
  Some ((length a <=? 4)%nat && ((length b <=? 4)%nat && (length c <=? 4)%nat)).
Proof. unfold is_arith. cbn. rewrite andb_true_r. reflexivity. Qed.

Ltac inv_good :=
  repeat match goal with
         | H : Forall good (_ :: _) |- _ => inversion H; clear H; subst
         end.
Ltac good_tac :=
  repeat first [ apply Forall_cons | apply Forall_nil | apply good_enc | apply good_bool | apply good_nil
               | assumption ].

Lemma cast_x01 : cast_to_bool [x01] = true.
Proof. reflexivity. Qed.
Lemma cast_nil : cast_to_bool [] = false.
Proof. reflexivity. Qed.

Section Ops.
  Variable h_ripemd160 h_sha1 h_sha256 : bytes -> bytes.
  Variable sigcheck : bytes -> bytes -> sigres.
  Variable e : env.
  Variable fl : flags.
  Hypothesis h_ripemd160_good : forall x, good (h_ripemd160 x).
  Hypothesis h_sha1_good : forall x, good (h_sha1 x).
  Hypothesis h_sha256_good : forall x, good (h_sha256 x).

  Notation lop := (lib_op h_ripemd160 h_sha1 h_sha256 sigcheck e).
  Notation cop := (core_op h_ripemd160 h_sha1 h_sha256 sigcheck e fl).

  Lemma core_num4_good x : good x ->
    core_num fl 4 x = if (length x <=? 4)%nat then Some (lib_decode_num x) else None.
  Proof.
    intros G. unfold core_num. rewrite Nat.leb_antisym.
    destruct (4 <? length x)%nat eqn:E; [reflexivity|]. cbn [negb].
    apply Nat.ltb_ge in E. rewrite (good_short x G) by lia. cbn [negb]. rewrite andb_false_r.
    rewrite core_dec_is_lib. reflexivity.
  Qed.

  Lemma core_num5_good x : good x ->
    core_num fl 5 x = if (5 <? length x)%nat then None else Some (lib_decode_num x).
  Proof.
    intros G. unfold core_num.
    destruct (5 <? length x)%nat eqn:E; [reflexivity|].
    apply Nat.ltb_ge in E. rewrite (good_short x G) by lia. cbn [negb]. rewrite andb_false_r.
    rewrite core_dec_is_lib. reflexivity.
  Qed.

  Local Opaque core_num lib_decode_num lib_encode_num core_scriptnum_ser core_minimal cast_to_bool.

  (* ----- opcodes that agree on every stack, no operand discipline needed ----- *)

  Ltac stack_op :=
    intros s G;
    repeat (let a := fresh "a" in destruct s as [|a s]; [cbn; exact I|]);
    cbn; inv_good; split; [reflexivity|good_tac].

  Lemma op_nop_agrees s : Forall good s -> op_agree_good (lop K_NOP s) (cop K_NOP s).
  Proof. intros G. cbn. auto. Qed.
  Lemma op_return_agrees s : Forall good s -> op_agree_good (lop K_RETURN s) (cop K_RETURN s).
  Proof. intros G. cbn. auto. Qed.
  Lemma op_2drop_agrees s : Forall good s -> op_agree_good (lop K_2DROP s) (cop K_2DROP s).
  Proof. intros G. destruct s as [|a [|b r]]; cbn; auto. inv_good. auto. Qed.
  Lemma op_2dup_agrees s : Forall good s -> op_agree_good (lop K_2DUP s) (cop K_2DUP s).
  Proof. intros G. destruct s as [|a [|b r]]; cbn; auto. inv_good. split; [reflexivity|good_tac]. Qed.
  Lemma op_3dup_agrees s : Forall good s -> op_agree_good (lop K_3DUP s) (cop K_3DUP s).
  Proof. intros G. destruct s as [|a [|b [|c r]]]; cbn; auto. inv_good. split; [reflexivity|good_tac]. Qed.
  Lemma op_2over_agrees s : Forall good s -> op_agree_good (lop K_2OVER s) (cop K_2OVER s).
  Proof. intros G. destruct s as [|a [|b [|c [|d r]]]]; cbn; auto. inv_good. split; [reflexivity|good_tac]. Qed.
  Lemma op_2rot_agrees s : Forall good s -> op_agree_good (lop K_2ROT s) (cop K_2ROT s).
  Proof.
    intros G. destruct s as [|a [|b [|c [|d [|x [|f r]]]]]]; cbn; auto. inv_good. split; [reflexivity|good_tac].
  Qed.
  Lemma op_depth_agrees s : Forall good s -> op_agree_good (lop K_DEPTH s) (cop K_DEPTH s).
  Proof. intros G. cbn. unfold ser, enc. rewrite ser_is_enc. split; [reflexivity|good_tac]. Qed.
  Lemma op_drop_agrees s : Forall good s -> op_agree_good (lop K_DROP s) (cop K_DROP s).
  Proof. intros G. destruct s as [|a r]; cbn; auto. inv_good. auto. Qed.
  Lemma op_dup_agrees s : Forall good s -> op_agree_good (lop K_DUP s) (cop K_DUP s).
  Proof. intros G. destruct s as [|a r]; cbn; auto. inv_good. split; [reflexivity|good_tac]. Qed.
  Lemma op_nip_agrees s : Forall good s -> op_agree_good (lop K_NIP s) (cop K_NIP s).
  Proof. intros G. destruct s as [|a [|b r]]; cbn; auto. inv_good. split; [reflexivity|good_tac]. Qed.
  Lemma op_over_agrees s : Forall good s -> op_agree_good (lop K_OVER s) (cop K_OVER s).
  Proof. intros G. destruct s as [|a [|b r]]; cbn; auto. inv_good. split; [reflexivity|good_tac]. Qed.
  Lemma op_rot_agrees s : Forall good s -> op_agree_good (lop K_ROT s) (cop K_ROT s).
  Proof. intros G. destruct s as [|a [|b [|c r]]]; cbn; auto. inv_good. split; [reflexivity|good_tac]. Qed.
  Lemma op_swap_agrees s : Forall good s -> op_agree_good (lop K_SWAP s) (cop K_SWAP s).
  Proof. intros G. destruct s as [|a [|b r]]; cbn; auto. inv_good. split; [reflexivity|good_tac]. Qed.
  Lemma op_size_agrees s : Forall good s -> op_agree_good (lop K_SIZE s) (cop K_SIZE s).
  Proof.
    intros G. destruct s as [|a r]; cbn; auto. unfold ser, enc. rewrite ser_is_enc. inv_good.
    split; [reflexivity|good_tac].
  Qed.
  Lemma op_equal_agrees s : Forall good s -> op_agree_good (lop K_EQUAL s) (cop K_EQUAL s).
  Proof.
    intros G. destruct s as [|a [|b r]]; cbn; auto. inv_good. rewrite (bytes_eqb_sym b a).
    split; [destruct (bytes_eqb a b); reflexivity|good_tac].
  Qed.
  Lemma op_equalverify_agrees s : Forall good s -> op_agree_good (lop K_EQUALVERIFY s) (cop K_EQUALVERIFY s).
  Proof.
    intros G. destruct s as [|a [|b r]]; cbn; auto. inv_good. rewrite (bytes_eqb_sym b a).
    destruct (bytes_eqb a b); cbn; auto.
  Qed.

  (* ----- truth tests: agree on [good] operands (b'' vs CastToBool) ----- *)
  Lemma op_verify_agrees s : Forall good s -> op_agree_good (lop K_VERIFY s) (cop K_VERIFY s).
  Proof.
    intros G. destruct s as [|a r]; cbn; auto. inv_good.
    rewrite (good_truth a) by assumption. destruct (is_empty a); cbn; auto.
  Qed.
  Lemma op_ifdup_agrees s : Forall good s -> op_agree_good (lop K_IFDUP s) (cop K_IFDUP s).
  Proof.
    intros G. destruct s as [|a r]; cbn; auto. inv_good.
    rewrite (good_truth a) by assumption. destruct (is_empty a); cbn; (split; [reflexivity|good_tac]).
  Qed.

  (* ----- arithmetic on one operand ----- *)
  Lemma unary_agrees (f : Z -> bytes) (g : Z -> bytes) s :
    (forall z, f z = g z) -> (forall z, good (f z)) -> Forall good s ->
    op_agree_good (unary_arith f s) (core_unary fl g s).
  Proof.
    intros Hfg Hg G. destruct s as [|a r]; [cbn; auto|]. inv_good.
    unfold unary_arith, core_unary. rewrite is_arith1, core_num4_good by assumption.
    destruct (length a <=? 4)%nat; cbn; auto. unfold dec. rewrite Hfg. split; [reflexivity|].
    apply Forall_cons; [rewrite <- Hfg; apply Hg|assumption].
  Qed.

  Lemma op_1add_agrees s : Forall good s -> op_agree_good (lop K_1ADD s) (cop K_1ADD s).
  Proof. intros G. cbn. apply unary_agrees; auto; intros; unfold ser, enc; [rewrite ser_is_enc; reflexivity|apply good_enc]. Qed.
  Lemma op_1sub_agrees s : Forall good s -> op_agree_good (lop K_1SUB s) (cop K_1SUB s).
  Proof. intros G. cbn. apply unary_agrees; auto; intros; unfold ser, enc; [rewrite ser_is_enc; reflexivity|apply good_enc]. Qed.
  Lemma op_negate_agrees s : Forall good s -> op_agree_good (lop K_NEGATE s) (cop K_NEGATE s).
  Proof. intros G. cbn. apply unary_agrees; auto; intros; unfold ser, enc; [rewrite ser_is_enc; reflexivity|apply good_enc]. Qed.
  Lemma op_abs_agrees s : Forall good s -> op_agree_good (lop K_ABS s) (cop K_ABS s).
  Proof.
    intros G. cbn. apply unary_agrees; auto; intros; unfold ser, enc; [|apply good_enc].
    rewrite ser_is_enc. f_equal. destruct (Z.ltb_spec z 0); lia.
  Qed.

  (* NOT / 0NOTEQUAL look at the raw bytes in the library *)
  Lemma unary_raw_agrees (f : bytes -> bytes) (g : Z -> bytes) s :
    (forall x, core_minimal x = true -> f x = g (lib_decode_num x)) -> (forall x, good (f x)) -> Forall good s ->
    op_agree_good (unary_raw f s) (core_unary fl g s).
  Proof.
    intros Hfg Hg G. destruct s as [|a r]; [cbn; auto|]. inv_good.
    unfold unary_raw, core_unary. rewrite is_arith1, core_num4_good by assumption.
    destruct (length a <=? 4)%nat eqn:L; cbn; auto. apply Nat.leb_le in L.
    rewrite Hfg by (apply good_short; [assumption|lia]). split; [reflexivity|].
    apply Forall_cons; [rewrite <- Hfg by (apply good_short; [assumption|lia]); apply Hg|assumption].
  Qed.
  Lemma op_not_agrees s : Forall good s -> op_agree_good (lop K_NOT s) (cop K_NOT s).
  Proof.
    intros G. cbn. apply unary_raw_agrees; auto; intros; [|apply good_bool].
    rewrite minimal_zero by assumption. destruct (is_empty x); reflexivity.
  Qed.
  Lemma op_0notequal_agrees s : Forall good s -> op_agree_good (lop K_0NOTEQUAL s) (cop K_0NOTEQUAL s).
  Proof.
    intros G. cbn. apply unary_raw_agrees; auto; intros; [|apply good_bool].
    rewrite minimal_zero by assumption. destruct (is_empty x); reflexivity.
  Qed.

  (* ----- arithmetic on two operands: the library pops the TOP first ----- *)
  Lemma binary_agrees (f : Z -> Z -> bytes) (g : Z -> Z -> bytes) s :
    (forall top snd, f top snd = g snd top) -> (forall a b, good (f a b)) -> Forall good s ->
    op_agree_good (binary_arith f s) (core_binary fl g s).
  Proof.
    intros Hfg Hg G. destruct s as [|a [|b r]]; [cbn; auto|cbn; auto|]. inv_good.
    unfold binary_arith, core_binary. rewrite is_arith2, !core_num4_good by assumption.
    destruct (length a <=? 4)%nat, (length b <=? 4)%nat; cbn; auto. unfold dec. rewrite Hfg. split; [reflexivity|].
    apply Forall_cons; [rewrite <- Hfg; apply Hg|assumption].
  Qed.
  Lemma binary_raw_agrees (f : bytes -> bytes -> bytes) (g : Z -> Z -> bytes) s :
    (forall top snd, core_minimal top = true -> core_minimal snd = true ->
                     f top snd = g (lib_decode_num snd) (lib_decode_num top)) ->
    (forall a b, good (f a b)) -> Forall good s ->
    op_agree_good (binary_raw f s) (core_binary fl g s).
  Proof.
    intros Hfg Hg G. destruct s as [|a [|b r]]; [cbn; auto|cbn; auto|]. inv_good.
    unfold binary_raw, core_binary. rewrite is_arith2, !core_num4_good by assumption.
    destruct (length a <=? 4)%nat eqn:La, (length b <=? 4)%nat eqn:Lb; cbn; auto.
    apply Nat.leb_le in La, Lb.
    rewrite Hfg by (apply good_short; [assumption|lia]). split; [reflexivity|].
    apply Forall_cons; [rewrite <- Hfg by (apply good_short; [assumption|lia]); apply Hg|assumption].
  Qed.

  Lemma op_add_agrees s : Forall good s -> op_agree_good (lop K_ADD s) (cop K_ADD s).
  Proof.
    intros G. cbn. apply binary_agrees; auto; intros; unfold ser, enc; [|apply good_enc].
    rewrite ser_is_enc. f_equal. lia.
  Qed.
  Lemma op_min_agrees s : Forall good s -> op_agree_good (lop K_MIN s) (cop K_MIN s).
  Proof.
    intros G. cbn. apply binary_agrees; auto; intros; unfold ser, enc.
    - rewrite ser_is_enc. destruct (Z.ltb_spec top snd), (Z.ltb_spec snd top); try reflexivity; f_equal; lia.
    - destruct (a <? b); apply good_enc.
  Qed.
  Lemma op_max_agrees s : Forall good s -> op_agree_good (lop K_MAX s) (cop K_MAX s).
  Proof.
    intros G. cbn. apply binary_agrees; auto; intros; unfold ser, enc.
    - rewrite ser_is_enc. rewrite !Z.gtb_ltb.
      destruct (Z.ltb_spec top snd), (Z.ltb_spec snd top); try reflexivity; f_equal; lia.
    - destruct (a >? b); apply good_enc.
  Qed.
  Lemma op_booland_agrees s : Forall good s -> op_agree_good (lop K_BOOLAND s) (cop K_BOOLAND s).
  Proof.
    intros G. cbn. apply binary_raw_agrees; auto; intros; [|apply good_bool].
    rewrite !minimal_zero by assumption. destruct (is_empty top), (is_empty snd); reflexivity.
  Qed.
  Lemma op_boolor_agrees s : Forall good s -> op_agree_good (lop K_BOOLOR s) (cop K_BOOLOR s).
  Proof.
    intros G. cbn. apply binary_raw_agrees; auto; intros; [|apply good_bool].
    rewrite !minimal_zero by assumption. destruct (is_empty top), (is_empty snd); reflexivity.
  Qed.
  Lemma op_numequal_agrees s : Forall good s -> op_agree_good (lop K_NUMEQUAL s) (cop K_NUMEQUAL s).
  Proof.
    intros G. cbn. unfold lib_numequal. apply binary_raw_agrees; auto; intros; [|apply good_bool].
    rewrite (minimal_eq top snd) by assumption. rewrite Z.eqb_sym.
    destruct (lib_decode_num snd =? lib_decode_num top); reflexivity.
  Qed.
  Lemma op_numnotequal_agrees s : Forall good s -> op_agree_good (lop K_NUMNOTEQUAL s) (cop K_NUMNOTEQUAL s).
  Proof.
    intros G. cbn. apply binary_raw_agrees; auto; intros; [|apply good_bool].
    rewrite (minimal_eq top snd) by assumption. rewrite Z.eqb_sym.
    destruct (lib_decode_num snd =? lib_decode_num top); reflexivity.
  Qed.

  (* ----- hashes and signature checks (oracles shared by both sides) ----- *)
  Lemma hash_agrees h s : (forall x, good (h x)) -> Forall good s -> op_agree_good (hash_op h s) (core_hash h s).
  Proof. intros Hh G. destruct s as [|a r]; cbn; auto. inv_good. split; [reflexivity|]. apply Forall_cons; auto. Qed.
  Lemma op_ripemd160_agrees s : Forall good s -> op_agree_good (lop K_RIPEMD160 s) (cop K_RIPEMD160 s).
  Proof. intros G. cbn. apply hash_agrees; auto. Qed.
  Lemma op_sha1_agrees s : Forall good s -> op_agree_good (lop K_SHA1 s) (cop K_SHA1 s).
  Proof. intros G. cbn. apply hash_agrees; auto. Qed.
  Lemma op_sha256_agrees s : Forall good s -> op_agree_good (lop K_SHA256 s) (cop K_SHA256 s).
  Proof. intros G. cbn. apply hash_agrees; auto. Qed.
  Lemma op_hash160_agrees s : Forall good s -> op_agree_good (lop K_HASH160 s) (cop K_HASH160 s).
  Proof. intros G. cbn. apply hash_agrees; auto. Qed.
  Lemma op_hash256_agrees s : Forall good s -> op_agree_good (lop K_HASH256 s) (cop K_HASH256 s).
  Proof.
    intros G. destruct s as [|a r]; cbn; auto. inv_good. split; [reflexivity|]. apply Forall_cons; auto.
  Qed.
  Lemma op_checksig_agrees s : Forall good s -> op_agree_good (lop K_CHECKSIG s) (cop K_CHECKSIG s).
  Proof.
    intros G. destruct s as [|a [|b r]]; cbn; auto. inv_good.
    destruct (sigcheck b a); cbn; auto; (split; [reflexivity|]); apply Forall_cons; auto; left; reflexivity.
  Qed.
  Lemma op_checksigverify_agrees s :
    Forall good s -> op_agree_good (lop K_CHECKSIGVERIFY s) (cop K_CHECKSIGVERIFY s).
  Proof.
    intros G. destruct s as [|a [|b r]]; cbn; auto. inv_good.
    destruct (sigcheck b a); cbn; auto; unfold ser_bool; rewrite ?cast_x01, ?cast_nil; cbn; auto.
  Qed.

  (* ----- BIP65 / BIP112 (after fix C19-1 / C19-2) ----- *)
  Ltac bool_cases :=
    repeat match goal with
           | |- context [Z.ltb ?a ?b] => destruct (Z.ltb_spec a b)
           | |- context [Z.leb ?a ?b] => destruct (Z.leb_spec a b)
           | |- context [Z.eqb ?a ?b] => destruct (Z.eqb_spec a b)
           end.

  Lemma op_cltv_agrees s : Forall good s -> op_agree_good (lop K_CLTV s) (cop K_CLTV s).
  Proof.
    intros G. cbn. unfold lib_cltv, core_cltv.
    destruct s as [|top r].
    - destruct (e_sequence e), (e_locktime e); cbn; auto. destruct (z =? 4294967295); cbn; auto.
    - assert (Gt : good top) by (inversion G; assumption).
      rewrite core_num5_good by assumption.
      destruct (e_sequence e) as [sq|]; [|destruct (5 <? length top)%nat, (e_locktime e); cbn; auto].
      destruct (e_locktime e) as [tl|]; [|destruct (5 <? length top)%nat; cbn; auto].
      unfold dec, lib_cltv_threshold, LOCKTIME_THRESHOLD, SEQUENCE_FINAL.
      set (n := lib_decode_num top).
      destruct (5 <? length top)%nat; [destruct (sq =? 4294967295); cbn; auto|].
      rewrite ?Z.geb_leb, ?Z.gtb_ltb.
      bool_cases; cbn; auto; try lia.
  Qed.

  Lemma op_csv_agrees s : Forall good s -> op_agree_good (lop K_CSV s) (cop K_CSV s).
  Proof.
    intros G. cbn. unfold lib_csv, core_csv.
    destruct s as [|top r].
    - destruct (e_sequence e), (e_version e); cbn; auto.
    - assert (Gt : good top) by (inversion G; assumption).
      rewrite core_num5_good by assumption.
      destruct (e_sequence e) as [sq|]; [|destruct (5 <? length top)%nat, (e_version e); cbn; auto].
      destruct (e_version e) as [ver|]; [|destruct (5 <? length top)%nat; cbn; auto].
      destruct (5 <? length top)%nat; [cbn; auto|].
      unfold dec, cfg_SEQUENCE_LOCKTIME_DISABLE_FLAG, cfg_SEQUENCE_LOCKTIME_TYPE_FLAG, cfg_SEQUENCE_LOCKTIME_MASK,
        SEQUENCE_DISABLE_FLAG, SEQUENCE_TYPE_FLAG, SEQUENCE_MASK.
      set (n := lib_decode_num top). cbv zeta.
      set (mask := Z.lor 4194304 65535).
      set (nd := Z.land n 2147483648). set (sd := Z.land sq 2147483648).
      set (nm := Z.land n mask). set (sm := Z.land sq mask).
      rewrite ?Z.geb_leb, ?Z.gtb_ltb.
      bool_cases; cbn; auto; try lia.
  Qed.
End Ops.
