(* Proofs/SignPlace.v — the stateful machine the driver runs decides exactly what Model/VerifyInput.v says;
   the first Transaction.sign call on an unsigned input places its signatures in key order. *)
From Coq Require Import List Bool Arith ZArith Lia.
From Verif Require Import Model.VerifyInput Model.SignPlace Proofs.VerifyInput.
Import ListNotations.

Section RunIsLoop.
  Context {B : Type}.
  Variable sv : B -> Z -> bool.

  Lemma verify_run_eq keys sigs need :
    lib_verify_run sv keys sigs need =
    match need with
    | O => (true, sigs)
    | S need' =>
      match keys with
      | [] => (false, sigs)
      | k :: ks =>
        match sigs with
        | [] => (false, [])
        | s :: ss =>
          if sv (body s) k then
            let (r, l) := lib_verify_run sv ks ss need' in (r, retag s k :: l)
          else lib_verify_run sv ks (retag s k :: ss) need
        end
      end
    end.
  Proof. destruct need; destruct keys; reflexivity. Qed.

  Lemma verify_run_fst : forall keys sigs need,
    fst (lib_verify_run sv keys sigs need) = lib_verify_loop sv keys (map (@body B) sigs) need.
  Proof.
    induction keys as [|k ks IH]; intros sigs need; rewrite verify_run_eq, loop_eq.
    - destruct need; reflexivity.
    - destruct need as [|n]; [reflexivity|].
      destruct sigs as [|s ss]; [reflexivity|].
      rewrite map_cons. destruct (sv (body s) k) eqn:E.
      + specialize (IH ss n). destruct (lib_verify_run sv ks ss n) as [r l]. exact IH.
      + rewrite IH. reflexivity.
  Qed.

  (* retagging never changes the bodies *)
  Lemma verify_run_bodies : forall keys sigs need,
    map (@body B) (snd (lib_verify_run sv keys sigs need)) = map (@body B) sigs.
  Proof.
    induction keys as [|k ks IH]; intros sigs need; rewrite verify_run_eq.
    - destruct need; [reflexivity|]. reflexivity.
    - destruct need as [|n]; [reflexivity|].
      destruct sigs as [|s ss]; [reflexivity|].
      destruct (sv (body s) k) eqn:E.
      + specialize (IH ss n). destruct (lib_verify_run sv ks ss n) as [r l]. simpl in *. rewrite IH. reflexivity.
      + rewrite IH. reflexivity.
  Qed.

  Lemma verify_input_run_fst keys sigs m :
    fst (lib_verify_input_run sv keys sigs m) = lib_verify_input sv false keys (map (@body B) sigs) m.
  Proof.
    unfold lib_verify_input_run, lib_verify_input. destruct sigs as [|s ss]; [reflexivity|].
    rewrite verify_run_fst. reflexivity.
  Qed.
End RunIsLoop.

Section TxRunIsTx.
  Context {B : Type}.
  Variable svi : nat -> B -> Z -> bool.

  Lemma tx_run_from_fst : forall ins i,
    fst (lib_tx_verify_run_from svi i ins) = lib_tx_verify_from svi i (map (@view B) ins).
  Proof.
    induction ins as [|x r IH]; intros i; [reflexivity|].
    simpl. destruct (si_hash_ok x); simpl; [|reflexivity].
    pose proof (verify_input_run_fst (svi i) (si_keys x) (si_sigs x) (si_m x)) as E.
    destruct (lib_verify_input_run (svi i) (si_keys x) (si_sigs x) (si_m x)) as [ok l]. simpl in E.
    rewrite <- E. destruct ok; [|reflexivity].
    specialize (IH (S i)). destruct (lib_tx_verify_run_from svi (S i) r) as [b r']. exact IH.
  Qed.

  Lemma view_set_valid v (x : @sinput B) : view (set_valid v x) = view x.
  Proof. reflexivity. Qed.

  Theorem tx_run_is_tx_verify ins :
    fst (lib_tx_verify_run svi ins) = lib_tx_verify svi (map (@view B) ins).
  Proof.
    unfold lib_tx_verify_run, lib_tx_verify. rewrite tx_run_from_fst. rewrite map_map.
    f_equal.
  Qed.
End TxRunIsTx.

(* ---------- the first sign() call on an unsigned input ---------- *)
Section SignFresh.
  Context {B : Type}.
  Variable sv : B -> Z -> bool.
  Variable mk : Z -> B.
  Hypothesis mk_valid : forall k, sv (mk k) k = true.      (* a key's own signature verifies (C13) *)

  Definition own (k : Z) : sg B := {| body := mk k; tag := Some k |}.
  Definition slot_ok (k : Z) (o : option (sg B)) : Prop := o = None \/ o = Some (own k).

  Lemma index_of_set_nth : forall pubs dom k pos,
    Forall2 slot_ok pubs dom -> index_of k pubs = Some pos ->
    Forall2 slot_ok pubs (set_nth pos (Some (own k)) dom).
  Proof.
    induction pubs as [|p ps IH]; intros dom k pos F Hi; [discriminate|].
    inversion F as [|? o ? dm Hs Fr]; subst. simpl in Hi.
    destruct (Z.eqb k p) eqn:E.
    - inversion Hi; subst pos. apply Z.eqb_eq in E; subst p. simpl. constructor; [right; reflexivity|exact Fr].
    - destruct (index_of k ps) as [q|] eqn:Eq; [|discriminate]. simpl in Hi. inversion Hi; subst pos.
      simpl. constructor; [exact Hs|]. apply IH; assumption.
  Qed.

  Lemma sign_new_slots : forall signers pubs old replace fail dom n dom' n',
    Forall2 slot_ok pubs dom ->
    lib_sign_new mk pubs old replace fail signers dom n = Some (dom', n') ->
    Forall2 slot_ok pubs dom'.
  Proof.
    induction signers as [|k rest IH]; intros pubs old replace fail dom n dom' n' F H; simpl in H.
    - inversion H; subst; exact F.
    - destruct (index_of k pubs) as [pos|] eqn:Ei.
      + destruct (negb replace && existsb (tag_is k) old).
        * eapply IH; eassumption.
        * eapply IH; [|exact H]. apply index_of_set_nth; assumption.
      + destruct fail; [discriminate|]. eapply IH; eassumption.
  Qed.

  Lemma slots_in_order : forall pubs dom,
    Forall2 slot_ok pubs dom -> signed_in_order sv pubs (map (@body B) (somes dom)).
  Proof.
    induction 1 as [|k o ps dm Hs F IH]; simpl; [constructor|].
    destruct Hs as [-> | ->]; simpl.
    - apply sio_skip. exact IH.
    - apply sio_take; [apply mk_valid|exact IH].
  Qed.

  Lemma repeat_slots : forall pubs, Forall2 slot_ok pubs (repeat None (length pubs)).
  Proof. induction pubs; simpl; constructor; [left; reflexivity|assumption]. Qed.

  Theorem sign_fresh_in_order pubs replace fail signers l :
    lib_sign_input mk pubs [] replace fail signers = SignDone l ->
    signed_in_order sv pubs (map (@body B) l).
  Proof.
    unfold lib_sign_input. intros H.
    destruct (lib_sign_new mk pubs [] replace fail signers (repeat None (length pubs)) 0) as [[dom n]|] eqn:E;
      [|discriminate].
    destruct n; [discriminate|].
    unfold lib_sign_place in H. simpl in H. inversion H; subst l.
    apply slots_in_order. eapply sign_new_slots; [apply repeat_slots|exact E].
  Qed.

  (* signed through the library, then verified: enough signatures  =>  True *)
  Theorem sign_fresh_then_verify pubs replace fail signers l m :
    lib_sign_input mk pubs [] replace fail signers = SignDone l ->
    1 <= m <= length l ->
    fst (lib_verify_input_run sv pubs l m) = true.
  Proof.
    intros H Hm. rewrite verify_input_run_fst. apply verify_complete_thm.
    - eapply sign_fresh_in_order; exact H.
    - rewrite map_length. exact Hm.
  Qed.
End SignFresh.
