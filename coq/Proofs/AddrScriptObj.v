(* Proofs/AddrScriptObj.v — C05: outputs created from Address(...) objects. *)
From Coq Require Import ZArith List Bool Lia String.
From Coq.Strings Require Import Byte.
From Verif Require Import Lib.Bytes Gen.GenNetworks Gen.GenConsts Model.Wire Model.AddrScript.
From Verif Require Import Proofs.ScriptCodec Proofs.AddrScriptSpec Proofs.AddrScriptTac.
Import ListNotations.
Open Scope Z_scope.

Section WithH.
Variable H160 : bytes -> bytes.

(* =========================== Address(hashed_data=, script_type=, witver=, network=) object =========================== *)
Lemma stype_not_p2shseg t e wv : String.eqb (fst (addr_wt (Some (stype_name t)) e None wv)) s_p2sh_segwit = false.
Proof. destruct t, e as [[|]|]; reflexivity. Qed.

Lemma lock_is_spec_obj fx net d :
  In net all_networks -> standard d = true ->
  (fx_witver fx = true \/ cls_witver_obj d = false) ->
  fx_tb fx (d_payload d) = d_payload d -> pfx_ok fx net ->
  match lib_address_new H160 fx (d_payload d) None (Some (stype_name (d_stype d))) None None (d_witver d) net with
  | Some ao =>
    ao_addr ao = spec_address net d /\
    out_is (lib_out_addr_obj H160 fx net ao)
           (spec_lock_script d) (stype_name (d_stype d)) (nw_name net) (OaIs (spec_address net d))
  | None => False
  end.
Proof.
  intros Hn Hstd Hg Htb Hp.
  rewrite address_new_tb;
    [ | destruct (std_payload_cons d Hstd) as (pa & pr & ->); discriminate | exact Htb | exact Hp | left; discriminate
      | left; apply stype_not_p2shseg ].
  clear Htb Hp.
  destruct fx as [fw fn fp fa tb0]. cbn [fx_witver] in Hg.
  std_shapes d Hstd; (each_net Hn; (destruct fw, fn, fp;
    first [ guard_false Hg
          | vm_compute; split; [reflexivity|]; eexists; repeat split; reflexivity ])).
Qed.

End WithH.
