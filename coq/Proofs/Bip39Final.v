(* Proofs/Bip39Final.v — the statements of Properties/C14.v, assembled; instances for the executable SHA-256. *)
From Coq Require Import ZArith List Bool Lia.
From Coq.Strings Require Import Byte.
From Verif Require Import Lib.Bytes Lib.BitRegroup Model.ChangeBase Model.Bip39 Crypto.Sha256.
From Verif Require Import Proofs.ChangeBase Proofs.Bip39Spec Proofs.Bip39Lib Proofs.Bip39LibEntropy.
From Verif Require Import Gen.GenWordlists Proofs.Bip39Wordlists.
Import ListNotations.
Open Scope Z_scope.

Definition hash32 (H : bytes -> bytes) : Prop := forall x, length (H x) = 32%nat.

Lemma sha256_hash32 : hash32 sha256.
Proof. exact sha256_length. Qed.

Lemma final_roundtrip : forall H, hash32 H -> forall ent, valid_ent_len (length ent) ->
  spec_to_entropy H (spec_to_indices H ent) = Some ent /\
  in_base 2048 (spec_to_indices H ent) /\
  (length (spec_to_indices H ent) = length ent * 3 / 4)%nat /\
  valid_ms (length (spec_to_indices H ent)) = true.
Proof. intros H HH ent. apply spec_roundtrip, HH. Qed.

Lemma final_lib_is_bip39 : forall H, hash32 H -> forall ent, valid_ent_len (length ent) -> hexlike ent = false ->
  lib_to_indices H ent = Some (spec_to_indices H ent) /\
  lib_to_entropy H (spec_to_indices H ent) = Some ent.
Proof. intros H HH ent. apply lib_is_bip39_all, HH. Qed.

Lemma final_lib_is_bip39_sha256 : forall ent, valid_ent_len (length ent) -> hexlike ent = false ->
  lib_to_indices sha256 ent = Some (spec_to_indices sha256 ent) /\
  lib_to_entropy sha256 (spec_to_indices sha256 ent) = Some ent.
Proof. exact (final_lib_is_bip39 sha256 sha256_hash32). Qed.

Lemma final_lib_accepts_as_bip39 : forall H, hash32 H -> forall idxs,
  valid_ms (length idxs) = true -> in_base 2048 idxs -> hexlike (candidate_entropy idxs) = false ->
  lib_to_entropy H idxs = spec_to_entropy H idxs.
Proof. intros H HH idxs. apply lib_to_entropy_is_spec, HH. Qed.

(* a sentence with a checksum mismatch is rejected by the library *)
Lemma final_lib_rejects_bad_checksum : forall H, hash32 H -> forall idxs,
  valid_ms (length idxs) = true -> in_base 2048 idxs -> hexlike (candidate_entropy idxs) = false ->
  (forall ent, idxs <> spec_to_indices H ent) -> lib_to_entropy H idxs = None.
Proof.
  intros H HH idxs Hv Hb Hx Hn. rewrite (final_lib_accepts_as_bip39 H HH idxs Hv Hb Hx).
  apply spec_reject_noncanonical, Hn.
Qed.

Lemma final_words_roundtrip : forall H, hash32 H ->
  forall (W : Type) (weqb : W -> W -> bool), (forall a b, weqb a b = true <-> a = b) ->
  forall (d : W) (wl : list W) ent, NoDup wl -> length wl = 2048%nat ->
  valid_ent_len (length ent) -> hexlike ent = false ->
  exists ws, lib_words_of_entropy H W d wl ent = Some ws /\
             (length ws = length ent * 3 / 4)%nat /\
             lib_entropy_of_words H W weqb wl ws = Some ent.
Proof.
  intros H HH W weqb Hw d wl ent Hnd Hl Hv Hx.
  destruct (final_lib_is_bip39 H HH ent Hv Hx) as [A B].
  destruct (final_roundtrip H HH ent Hv) as [_ [Hb [Hlen _]]].
  exists (map (word_at W d wl) (spec_to_indices H ent)).
  unfold lib_words_of_entropy. rewrite A. split; [reflexivity|]. split; [rewrite map_length; exact Hlen|].
  rewrite (words_then_indices W weqb Hw H d wl _ Hnd Hl Hb). exact B.
Qed.

Lemma final_word_index_inverse : forall (W : Type) (weqb : W -> W -> bool), (forall a b, weqb a b = true <-> a = b) ->
  forall wl, NoDup wl ->
  (forall i d, (i < length wl)%nat -> index_of W weqb (nth i wl d) wl = Some (Z.of_nat i)) /\
  (forall w i, index_of W weqb w wl = Some i -> 0 <= i < Z.of_nat (length wl) /\ forall d, nth (Z.to_nat i) wl d = w).
Proof.
  intros W weqb Hw wl Hnd. split.
  - intros i d Hi. apply index_of_nth; assumption.
  - intros w i. apply index_of_some. exact Hw.
Qed.

Lemma final_unknown_word_rejected : forall (W : Type) (weqb : W -> W -> bool), (forall a b, weqb a b = true <-> a = b) ->
  forall H w ws wl, In w ws -> ~ In w wl -> lib_entropy_of_words H W weqb wl ws = None.
Proof. intros W weqb Hw H w ws wl. apply unknown_word_rejected. exact Hw. Qed.

Lemma final_seed : forall (str : Type) (NFKD : str -> str) (utf8 : str -> bytes) (KDF : bytes -> bytes -> Z -> Z -> bytes)
  (accepts : str -> bool) s pw,
  lib_to_seed str NFKD utf8 KDF accepts s pw =
    if accepts (NFKD s) then Some (KDF (utf8 (NFKD s)) (mnemonic_salt ++ utf8 (NFKD pw)) 2048 64) else None.
Proof. intros. apply lib_seed_is_spec. Qed.

(* ---------------- the nine bundled lists (Gen/GenWordlists.v, regenerated from the repository) ---------------- *)
Lemma final_bundled_ok : Forall wordlist_ok bundled_wordlists /\ bundled_count = 9%nat.
Proof. exact bundled_ok. Qed.

Lemma final_bundled_roundtrip : forall H, hash32 H -> forall wl, In wl bundled_wordlists ->
  forall ent, valid_ent_len (length ent) -> hexlike ent = false ->
  exists ws, lib_words_of_entropy H Z 0 wl ent = Some ws /\
             (length ws = length ent * 3 / 4)%nat /\
             lib_entropy_of_words H Z Z.eqb wl ws = Some ent.
Proof.
  intros H HH wl Hin ent Hv Hx.
  destruct bundled_ok as [Hall _]. rewrite Forall_forall in Hall. destruct (Hall wl Hin) as [Hl Hnd].
  apply (final_words_roundtrip H HH Z Z.eqb Z.eqb_eq 0 wl ent Hnd Hl Hv Hx).
Qed.

Lemma final_bundled_unknown : forall H wl w ws, In wl bundled_wordlists -> In w ws -> ~ In w wl ->
  lib_entropy_of_words H Z Z.eqb wl ws = None.
Proof. intros H wl w ws _. apply (final_unknown_word_rejected Z Z.eqb Z.eqb_eq). Qed.
