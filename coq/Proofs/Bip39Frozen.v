(* Proofs/Bip39Frozen.v — the word lists regenerated from bitcoinlib/wordlist/*.txt on this run (Gen/GenWordlists.v)
   are exactly the frozen BIP39 lists of Model/Bip39Frozen.v (same nine lists, same order, same 2048 words each). *)
From Coq Require Import ZArith List Bool.
From Verif Require Import Gen.GenWordlists Model.Bip39Frozen.
Import ListNotations.
Open Scope Z_scope.

Fixpoint zl_eqb (a b : list Z) : bool :=
  match a, b with
  | [], [] => true
  | x :: a', y :: b' => Z.eqb x y && zl_eqb a' b'
  | _, _ => false
  end.

Lemma zl_eqb_eq a : forall b, zl_eqb a b = true -> a = b.
Proof.
  induction a as [|x a IH]; intros [|y b] Hq; try discriminate; [reflexivity|].
  cbn [zl_eqb] in Hq. apply andb_true_iff in Hq. destruct Hq as [Hx Hr].
  apply Z.eqb_eq in Hx. subst y. f_equal. apply IH, Hr.
Qed.

Fixpoint zll_eqb (a b : list (list Z)) : bool :=
  match a, b with
  | [], [] => true
  | x :: a', y :: b' => zl_eqb x y && zll_eqb a' b'
  | _, _ => false
  end.

Lemma zll_eqb_eq a : forall b, zll_eqb a b = true -> a = b.
Proof.
  induction a as [|x a IH]; intros [|y b] Hq; try discriminate; [reflexivity|].
  cbn [zll_eqb] in Hq. apply andb_true_iff in Hq. destruct Hq as [Hx Hr].
  apply zl_eqb_eq in Hx. subst y. f_equal. apply IH, Hr.
Qed.

Lemma bundled_eqb_frozen : zll_eqb bundled_wordlists frozen_wordlists = true.
Proof. vm_compute. reflexivity. Qed.

Lemma bundled_is_frozen : bundled_wordlists = frozen_wordlists /\ bundled_count = frozen_count.
Proof. split; [apply zll_eqb_eq, bundled_eqb_frozen | reflexivity]. Qed.

(* spot values of the frozen lists, readable against the BIP39 repository: english "abandon" ... "zoo",
   japanese first word, spanish first word in NFKD form (a + U+0301 ...) *)
Lemma frozen_spot_values :
  nth 0 frozen_english 0 = 27411243344359278 /\      (* "abandon" *)
  nth 2047 frozen_english 0 = 8023919 /\             (* "zoo" *)
  nth 3 frozen_english 0 = 418263299444 /\           (* "about" *)
  length frozen_wordlists = 9%nat.
Proof. repeat split; vm_compute; reflexivity. Qed.
