(* Proofs/KeyFormatXkey.v — C12: extended keys.  Exact description of what HDKey(text) and HDKey.from_wif(text)
   return on the text HDKey.wif() produced, for every row of the regenerated prefix table. *)
From Coq Require Import ZArith List Bool Lia.
From Coq Require String.
From Coq.Strings Require Import Byte.
From Verif Require Import Lib.Bytes Gen.GenConsts Gen.GenNetworks Crypto.Sha256 Crypto.HashLemmas
  Model.Base58 Model.KeyFormat Proofs.Base58 Proofs.KeyFormatBase Proofs.KeyFormatWif.
Import ListNotations.
Import Coq.Strings.String.StringSyntax.
Open Scope Z_scope.

(* ------------------------------------------------------------------ what a prefix stands for in the table *)
Definition prefix_rows (p : bytes) : list hd_match := lib_wif_prefix_search p None None None.
Definition prefix_networks (p : bytes) : list str := dedup_str (map hm_network (prefix_rows p)).
Definition prefix_scripts (p : bytes) : list str := dedup_str (map (fun x => wr_script_type (hm_row x)) (prefix_rows p)).
Definition prefix_witness (p : bytes) : list str := dedup_str (map (fun x => wr_witness_type (hm_row x)) (prefix_rows p)).
Definition prefix_multisig (p : bytes) : list bool := dedup_bool (map (fun x => wr_multisig (hm_row x)) (prefix_rows p)).

(* ------------------------------------------------------------------ dedup *)
Lemma dedup_in_l {A} (eqb : A -> A -> bool) x : forall l seen, In x (dedup eqb seen l) -> In x l.
Proof.
  induction l as [|y r IH]; intros seen H; [destruct H|]. cbn [dedup] in H.
  destruct (existsb (eqb y) seen).
  - right. eapply IH. exact H.
  - destruct H as [E|H]; [left; exact E | right; eapply IH; exact H].
Qed.

Lemma dedup_str_in x : forall l seen, In x l -> existsb (String.eqb x) seen = false -> In x (dedup String.eqb seen l).
Proof.
  induction l as [|y r IH]; intros seen H Hs; [destruct H|]. cbn [dedup].
  destruct (String.eqb x y) eqn:E.
  - apply String.eqb_eq in E. subst y. rewrite Hs. left. reflexivity.
  - destruct H as [H|H]; [subst y; rewrite String.eqb_refl in E; discriminate|].
    destruct (existsb (String.eqb y) seen).
    + apply IH; assumption.
    + right. apply IH; [exact H|]. cbn [existsb]. rewrite E, Hs. reflexivity.
Qed.

Lemma dedup_bool_in x : forall l seen, In x l -> existsb (Bool.eqb x) seen = false -> In x (dedup Bool.eqb seen l).
Proof.
  induction l as [|y r IH]; intros seen H Hs; [destruct H|]. cbn [dedup].
  destruct (Bool.eqb x y) eqn:E.
  - apply eqb_prop in E. subst y. rewrite Hs. left. reflexivity.
  - destruct H as [H|H]; [subst y; rewrite eqb_reflx in E; discriminate|].
    destruct (existsb (Bool.eqb y) seen).
    + apply IH; assumption.
    + right. apply IH; [exact H|]. cbn [existsb]. rewrite E, Hs. reflexivity.
Qed.

Lemma dedup_bool_const b : forall l, (forall x, In x l -> x = b) -> dedup Bool.eqb [b] l = [].
Proof.
  induction l as [|y r IH]; intros H; [reflexivity|]. cbn [dedup existsb].
  rewrite (H y (or_introl eq_refl)), eqb_reflx. cbn [orb]. apply IH. intros x Hx. apply H. right. exact Hx.
Qed.

Lemma dedup_bool_all b l : l <> [] -> (forall x, In x l -> x = b) -> dedup_bool l = [b].
Proof.
  intros Hne H. destruct l as [|y r]; [contradiction|]. unfold dedup_bool. cbn [dedup existsb].
  rewrite (H y (or_introl eq_refl)). f_equal. apply dedup_bool_const. intros x Hx. apply H. right. exact Hx.
Qed.

(* ------------------------------------------------------------------ rows behind a prefix *)
Lemma prefix_rows_in n r : In n all_networks -> In r (nw_prefixes_wif n) ->
  In {| hm_network := nw_name n; hm_row := r |} (prefix_rows (wr_prefix r)).
Proof.
  intros Hn Hr. unfold prefix_rows. apply search_in. split; [apply row_in_all_rows; assumption|].
  unfold hm_matches, row_matches. cbn [hm_row]. rewrite bytes_eqb_refl. reflexivity.
Qed.

Lemma prefix_rows_sound p m : In m (prefix_rows p) -> In m all_rows /\ wr_prefix (hm_row m) = p.
Proof.
  unfold prefix_rows. intros H. apply search_in in H. destruct H as [H1 H2]. split; [exact H1|].
  unfold hm_matches, row_matches in H2. cbn [andb] in H2.
  rewrite !andb_true_r in H2. apply bytes_eqb_true in H2. exact H2.
Qed.

Lemma all_rows_network m : In m all_rows -> exists n, In n all_networks /\ nw_name n = hm_network m /\ In (hm_row m) (nw_prefixes_wif n).
Proof.
  unfold all_rows. intros H. apply in_flat_map in H. destruct H as [n [Hn H]].
  apply in_map_iff in H. destruct H as [r [E Hr]]. subst m. exists n. cbn. repeat split; assumption.
Qed.

Lemma all_rows_defined m : In m all_rows -> network_defined (hm_network m) = true.
Proof.
  intros H. destruct (all_rows_network m H) as [n [Hn [E _]]]. rewrite <- E. apply network_defined_in. exact Hn.
Qed.

Lemma search_sub p wt ms nw m : In m (lib_wif_prefix_search p wt ms nw) -> In m (prefix_rows p).
Proof.
  intros H. apply search_in in H. destruct H as [H1 H2]. unfold prefix_rows. apply search_in. split; [exact H1|].
  unfold hm_matches in *. apply andb_true_iff in H2. destruct H2 as [_ H2].
  unfold row_matches in *. apply andb_true_iff in H2. destruct H2 as [H2 _].
  apply andb_true_iff in H2. destruct H2 as [H2 _]. rewrite H2. reflexivity.
Qed.

Lemma search_hint p wt ms h m : In m (lib_wif_prefix_search p wt ms (Some h)) -> hm_network m = h.
Proof.
  intros H. apply search_in in H. destruct H as [_ H]. unfold hm_matches in H.
  apply andb_true_iff in H. destruct H as [H _]. apply String.eqb_eq in H. exact H.
Qed.

Lemma prefix_networks_defined p x : In x (prefix_networks p) -> network_defined x = true.
Proof.
  unfold prefix_networks, dedup_str. intros H. apply dedup_in_l in H. apply in_map_iff in H.
  destruct H as [m [E H]]. subst x. apply all_rows_defined. apply (prefix_rows_sound p m H).
Qed.

Lemma prefix_networks_in n r : In n all_networks -> In r (nw_prefixes_wif n) ->
  In (nw_name n) (prefix_networks (wr_prefix r)).
Proof.
  intros Hn Hr. unfold prefix_networks, dedup_str. apply dedup_str_in; [|reflexivity].
  apply in_map_iff. exists {| hm_network := nw_name n; hm_row := r |}. split; [reflexivity|].
  apply prefix_rows_in; assumption.
Qed.

Lemma prefix_witness_in n r : In n all_networks -> In r (nw_prefixes_wif n) ->
  In (wr_witness_type r) (prefix_witness (wr_prefix r)).
Proof.
  intros Hn Hr. unfold prefix_witness, dedup_str. apply dedup_str_in; [|reflexivity].
  apply in_map_iff. exists {| hm_network := nw_name n; hm_row := r |}. split; [reflexivity|].
  apply prefix_rows_in; assumption.
Qed.

Lemma prefix_multisig_in n r : In n all_networks -> In r (nw_prefixes_wif n) ->
  In (wr_multisig r) (prefix_multisig (wr_prefix r)).
Proof.
  intros Hn Hr. unfold prefix_multisig, dedup_bool. apply dedup_bool_in; [|reflexivity].
  apply in_map_iff. exists {| hm_network := nw_name n; hm_row := r |}. split; [reflexivity|].
  apply prefix_rows_in; assumption.
Qed.

(* ------------------------------------------------------------------ field extraction *)
Lemma xkey_fields_raw p d fp ch chain k0 kr ck :
  length p = 4%nat -> length d = 1%nat -> length fp = 4%nat -> length ch = 4%nat -> length chain = 32%nat ->
  length kr = 32%nat ->
  xkey_fields (p ++ d ++ fp ++ ch ++ chain ++ (k0 :: kr) ++ ck) =
  Some (negb (beq k0 x00), (if negb (beq k0 x00) then k0 :: kr else kr), of_be d, fp, of_be ch, chain).
Proof.
  intros Hp Hd Hfp Hch Hchain Hkr.
  set (L := p ++ d ++ fp ++ ch ++ chain ++ (k0 :: kr) ++ ck).
  assert (S1 : slice 4 5 L = d) by (subst L; apply slice_mid; [exact Hp | exact Hd]).
  assert (S2 : slice 5 9 L = fp).
  { replace L with ((p ++ d) ++ fp ++ (ch ++ chain ++ (k0 :: kr) ++ ck)) by (subst L; rewrite <- !app_assoc; reflexivity).
    apply slice_mid; [rewrite app_length; lia | exact Hfp]. }
  assert (S3 : slice 9 13 L = ch).
  { replace L with ((p ++ d ++ fp) ++ ch ++ (chain ++ (k0 :: kr) ++ ck)) by (subst L; rewrite <- !app_assoc; reflexivity).
    apply slice_mid; [rewrite !app_length; lia | exact Hch]. }
  assert (S4 : slice 13 45 L = chain).
  { replace L with ((p ++ d ++ fp ++ ch) ++ chain ++ ((k0 :: kr) ++ ck)) by (subst L; rewrite <- !app_assoc; reflexivity).
    apply slice_mid; [rewrite !app_length; lia | exact Hchain]. }
  assert (S5 : slice 45 46 L = [k0]).
  { replace L with ((p ++ d ++ fp ++ ch ++ chain) ++ [k0] ++ (kr ++ ck)) by (subst L; rewrite <- !app_assoc; reflexivity).
    apply slice_mid; [rewrite !app_length; lia | reflexivity]. }
  assert (S6 : slice 45 78 L = k0 :: kr).
  { replace L with ((p ++ d ++ fp ++ ch ++ chain) ++ (k0 :: kr) ++ ck) by (subst L; rewrite <- !app_assoc; reflexivity).
    apply slice_mid; [rewrite !app_length; lia | cbn [length]; lia]. }
  assert (S7 : slice 46 78 L = kr).
  { replace L with ((p ++ d ++ fp ++ ch ++ chain ++ [k0]) ++ kr ++ ck) by (subst L; rewrite <- !app_assoc; reflexivity).
    apply slice_mid; [rewrite !app_length; cbn [length]; lia | lia]. }
  unfold xkey_fields.
  assert (HL : Nat.leb (length L) 45 = false).
  { apply Nat.leb_gt. subst L. rewrite !app_length. cbn [length]. lia. }
  rewrite HL, S1, S2, S3, S4, S5, S6, S7. cbn [bytes_eqb]. rewrite andb_true_r. reflexivity.
Qed.

(* ------------------------------------------------------------------ Key.__init__ on the extracted key bytes *)
Lemma key_import_secret fold wc oc secret nw c :
  length secret = 32%nat -> 0 < of_be secret < secp256k1_n -> network_defined nw = true ->
  lib_key_import fold wc oc (KBytes secret) (Some nw) c (Some true) =
  Ok {| ko_private := true; ko_key := secret; ko_compressed := c; ko_network := nw; ko_format := FBin |}.
Proof.
  intros Hlen Hrange Hdef.
  assert (G : gkf_bytes secret = kf_plain FBin true) by (unfold gkf_bytes; rewrite Hlen; reflexivity).
  unfold lib_key_import. cbn [lib_get_key_format]. rewrite G, Hdef.
  cbn [kf_plain kf_private kf_format kf_networks]. unfold key_private_checked. cbn [key_private_part].
  rewrite (secret_range_true secret Hrange). reflexivity.
Qed.

Lemma pub_strict_compressed oc k0 kr : length kr = 32%nat -> k0 = x02 \/ k0 = x03 -> oc (k0 :: kr) = true ->
  pub_strict_ok oc (k0 :: kr) = true.
Proof.
  intros Hlen Hk Hoc. unfold pub_strict_ok. cbn [length]. rewrite Hlen, Hoc.
  destruct Hk as [-> | ->]; reflexivity.
Qed.

Lemma key_import_pubc fold wc oc k0 kr nw c :
  length kr = 32%nat -> k0 = x02 \/ k0 = x03 -> oc (k0 :: kr) = true -> network_defined nw = true ->
  lib_key_import fold wc oc (KBytes (k0 :: kr)) (Some nw) c (Some false) =
  Ok {| ko_private := false; ko_key := k0 :: kr; ko_compressed := true; ko_network := nw; ko_format := FBinCompressed |}.
Proof.
  intros Hlen Hk Hoc Hdef.
  assert (G : gkf_bytes (k0 :: kr) = kf_plain FBinCompressed false).
  { unfold gkf_bytes. cbn [length]. rewrite Hlen. destruct Hk as [-> | ->]; reflexivity. }
  unfold lib_key_import. cbn [lib_get_key_format]. rewrite G, Hdef.
  cbn [kf_plain kf_private kf_format kf_networks key_public_part]. unfold pub_checked.
  rewrite (pub_strict_compressed oc k0 kr Hlen Hk Hoc). cbn [length]. rewrite Hlen. reflexivity.
Qed.

(* ------------------------------------------------------------------ the text HDKey.wif() writes for a table row *)
Definition xkey_obj (priv : bool) (key : bytes) (c : bool) (nw : str) (chain : bytes) (depth : Z) (fp : bytes)
  (child : Z) (wt : str) (ms : bool) : hd_obj :=
  {| ho_key := {| ko_private := priv; ko_key := key; ko_compressed := if priv then c else true; ko_network := nw;
                  ko_format := if priv then FBin else FBinCompressed |};
     ho_chain := chain; ho_depth := depth; ho_fp := fp; ho_child := child; ho_witness := wt; ho_multisig := ms |}.

Section XkeyText.
Variable fold : bool.
Variable wc : bool.
Variable oc : bytes -> bool.
Variables (n : network) (r : wif_row).
Hypothesis Hn : In n all_networks.
Hypothesis Hr : In r (nw_prefixes_wif n).
Variables (depth child : Z) (fp chain : bytes).
Hypothesis Hdepth : 0 <= depth < 256.
Hypothesis Hchild : 0 <= child < 2 ^ 32.
Hypothesis Hfp : length fp = 4%nat.
Hypothesis Hchain : length chain = 32%nat.
(* key : the 32-byte secret for a private row, the 33-byte compressed point (02/03 first) for a public row *)
Variables (k0 : byte) (kr : bytes).
Hypothesis Hkr : length kr = 32%nat.
Hypothesis Hk0 : if wr_private r then k0 = x00 /\ 0 < of_be kr < secp256k1_n
                 else ((k0 = x02 \/ k0 = x03) /\ oc (k0 :: kr) = true).

Let prefix : bytes := wr_prefix r.
Let priv : bool := wr_private r.
Let key : bytes := if priv then kr else k0 :: kr.
Let raw : bytes := xkey_raw prefix depth fp child chain (k0 :: kr).
Let ck : bytes := firstn 4 (sha256d raw).
Let s : bytes := b58_enc (raw ++ ck).

Let me : hd_match := {| hm_network := nw_name n; hm_row := r |}.

Lemma xk_me_all : In me all_rows.
Proof. apply row_in_all_rows; assumption. Qed.

Lemma xk_prefix_len : length prefix = 4%nat.
Proof. apply (all_rows_shape me xk_me_all). Qed.

Lemma xk_ck_len : length ck = 4%nat.
Proof. unfold ck. rewrite firstn_length, sha256d_length. reflexivity. Qed.

Lemma xk_raw_eq : raw ++ ck = prefix ++ be_bytes 1 depth ++ fp ++ be_bytes 4 child ++ chain ++ (k0 :: kr) ++ ck.
Proof. unfold raw, xkey_raw. rewrite <- !app_assoc. reflexivity. Qed.

Lemma xk_raw_len : length (raw ++ ck) = 82%nat.
Proof.
  rewrite xk_raw_eq, !app_length, xk_prefix_len, !be_bytes_length, Hfp, Hchain, xk_ck_len. cbn [length]. lia.
Qed.

Lemma xk_bytes : b58_bytes fold s = Some (raw ++ ck).
Proof.
  unfold b58_bytes, s. apply b58_rt. intros E. pose proof xk_raw_len as H. rewrite E in H. discriminate H.
Qed.

Lemma xk_text_len : 66 < Z.of_nat (length s) < 128.
Proof.
  pose proof xk_raw_len as HL. pose proof xk_prefix_len as HP.
  destruct (all_rows_shape me xk_me_all) as [_ Hnz]. cbn [hm_row me] in Hnz.
  unfold s. rewrite xk_raw_eq in *.
  set (tail := be_bytes 1 depth ++ fp ++ be_bytes 4 child ++ chain ++ (k0 :: kr) ++ ck) in *.
  unfold prefix in *.
  destruct (wr_prefix r) as [|p0 pr]; [discriminate HP|]. cbn [first_byte] in Hnz.
  rewrite <- app_comm_cons in *.
  assert (HL' : length (pr ++ tail) = 81%nat) by (cbn [length] in HL; lia).
  split.
  - assert (110 < Z.of_nat (length (b58_enc (p0 :: pr ++ tail)))); [|lia].
    apply b58_len_ge; [exact Hnz|]. rewrite HL'. apply Z.leb_le. vm_compute. reflexivity.
  - assert (Z.of_nat (length (b58_enc (p0 :: pr ++ tail))) <= 112); [|lia].
    apply b58_len_le; [exact Hnz | lia |]. cbn [length]. rewrite HL'. apply Z.leb_le. vm_compute. reflexivity.
Qed.

Lemma xk_checked :
  Nat.eqb (length (raw ++ ck)) 82 && b58_checksum_ok (droplast 4 (raw ++ ck)) (lastn 4 (raw ++ ck)) = true.
Proof.
  rewrite xk_raw_len, (droplast_app_exact raw ck 4 xk_ck_len), (lastn_app_exact raw ck 4 xk_ck_len).
  unfold ck. rewrite sha256d_check4. reflexivity.
Qed.

Lemma xk_first4 : firstn 4 (raw ++ ck) = prefix.
Proof. rewrite xk_raw_eq. apply firstn_app_exact. apply xk_prefix_len. Qed.

Lemma xk_rows_private m : In m (prefix_rows prefix) -> wr_private (hm_row m) = priv.
Proof.
  intros H. destruct (prefix_rows_sound _ _ H) as [H1 H2].
  apply (all_rows_private m me H1 xk_me_all). exact H2.
Qed.

(* get_key_format: private exactly when the row is, whatever the caller claims *)
Lemma xkey_text_format ip :
  lib_get_key_format fold wc (KStr s) ip =
  KfOk {| kf_format := if priv then FHdPrivate else FHdPublic;
          kf_networks := Some (prefix_networks prefix); kf_private := priv;
          kf_scripts := prefix_scripts prefix; kf_witness := prefix_witness prefix;
          kf_multisig := prefix_multisig prefix |}.
Proof.
  cbn [lib_get_key_format].
  rewrite gkf_str_b58 by (right; apply xk_text_len) || (apply b58_enc_no_space).
  unfold gkf_b58. rewrite xk_bytes, xk_first4.
  pose proof (prefix_rows_in n r Hn Hr) as Hin. fold prefix me in Hin.
  fold (prefix_rows prefix).
  destruct (prefix_rows prefix) as [|m ms] eqn:E; [destruct Hin|].
  assert (Hall : forall x, In x (map (fun x => wr_private (hm_row x)) (m :: ms)) -> x = priv).
  { intros x Hx. apply in_map_iff in Hx. destruct Hx as [y [<- Hy]]. apply xk_rows_private. rewrite E. exact Hy. }
  assert (Hd : dedup_bool (map (fun x => wr_private (hm_row x)) (m :: ms)) = [priv])
    by (apply dedup_bool_all; [discriminate | exact Hall]).
  rewrite Hd. cbn [length Nat.ltb Nat.leb]. rewrite andb_false_r.
  assert (Hm : wr_private (hm_row m) = priv) by (apply xk_rows_private; rewrite E; left; reflexivity).
  rewrite Hm. unfold prefix_networks, prefix_scripts, prefix_witness, prefix_multisig. rewrite E. reflexivity.
Qed.

Lemma xk_fields :
  xkey_fields (raw ++ ck) = Some (negb priv, key, depth, fp, child, chain).
Proof.
  rewrite xk_raw_eq.
  rewrite (xkey_fields_raw prefix (be_bytes 1 depth) fp (be_bytes 4 child) chain k0 kr ck xk_prefix_len
             (be_bytes_length 1 depth) Hfp (be_bytes_length 4 child) Hchain Hkr).
  rewrite !of_be_be_bytes_small by (cbn; lia).
  unfold key, priv. destruct (wr_private r).
  - destruct Hk0 as [-> _]. reflexivity.
  - destruct Hk0 as [[-> | ->] _]; reflexivity.
Qed.

Lemma xk_inner nw c : network_defined nw = true ->
  lib_key_import fold wc oc (KBytes key) (Some nw) c (Some (negb (negb priv))) =
  Ok {| ko_private := priv; ko_key := key; ko_compressed := if priv then c else true; ko_network := nw;
        ko_format := if priv then FBin else FBinCompressed |}.
Proof.
  intros Hdef. unfold key, priv. destruct (wr_private r); cbn [negb].
  - destruct Hk0 as [_ Hrange]. apply key_import_secret; assumption.
  - destruct Hk0 as [Hk Hoc]. apply key_import_pubc; assumption.
Qed.

(* HDKey(text, network=hint, witness_type=wthint, multisig=mshint, compressed=c) *)
Theorem xkey_import_lemma hint wthint mshint c :
  lib_hdkey_import fold wc oc (KStr s) hint wthint mshint c =
  match lib_check_network hint (Some (prefix_networks prefix)) with
  | Err e => Err e
  | Ok nw =>
      Ok (xkey_obj priv key c nw chain depth fp child
            (match prefix_witness prefix, wthint with
             | [w], None => w
             | _, Some w => w
             | _, None => default_witness
             end)
            (match prefix_multisig prefix with [m] => m | _ => mshint end))
  end.
Proof.
  unfold lib_hdkey_import. rewrite xkey_text_format.
  cbn [kf_witness kf_multisig kf_networks kf_format].
  pose proof (prefix_networks_in n r Hn Hr) as Hin. fold prefix in Hin.
  destruct (lib_check_network hint (Some (prefix_networks prefix))) as [nw|e] eqn:EN; [|reflexivity].
  assert (Hdef : network_defined nw = true).
  { unfold lib_check_network in EN. destruct (prefix_networks prefix) as [|a l] eqn:EP; [destruct Hin|].
    destruct hint as [h|].
    - destruct (str_in h (a :: l)) eqn:ES; [|discriminate]. inversion EN; subst.
      apply (prefix_networks_defined prefix). rewrite EP. apply str_in_In. exact ES.
    - apply (prefix_networks_defined prefix). rewrite EP.
      apply resolve_networks_ok; [discriminate | exact EN]. }
  rewrite Hdef. cbn [negb].
  assert (EF : (if priv then FHdPrivate else FHdPublic) = FHdPrivate \/ (if priv then FHdPrivate else FHdPublic) = FHdPublic)
    by (destruct priv; auto).
  assert (Hbody :
    match b58_bytes fold s with
    | None => Err EOther
    | Some bkey =>
        if negb (Nat.eqb (length bkey) 82 && b58_checksum_ok (droplast 4 bkey) (lastn 4 bkey)) then Err EKey
        else
        match xkey_fields bkey with
        | None => Err EOther
        | Some (pub, key0, depth0, fp0, child0, chain0) =>
            match lib_key_import fold wc oc (KBytes key0) (Some nw) c (Some (negb pub)) with
            | Err e => Err e
            | Ok ko => Ok {| ho_key := ko; ho_chain := chain0; ho_depth := depth0; ho_fp := fp0; ho_child := child0;
                             ho_witness := match match prefix_witness prefix, wthint with [w], None => Some w | _, _ => wthint end with
                                           | Some w => w | None => default_witness end;
                             ho_multisig := match prefix_multisig prefix with [m] => m | _ => mshint end |}
            end
        end
    end =
    Ok (xkey_obj priv key c nw chain depth fp child
          (match prefix_witness prefix, wthint with [w], None => w | _, Some w => w | _, None => default_witness end)
          (match prefix_multisig prefix with [m] => m | _ => mshint end))).
  { rewrite xk_bytes, xk_checked, xk_fields, (xk_inner nw c Hdef). cbn [negb]. unfold xkey_obj. f_equal. f_equal.
    destruct (prefix_witness prefix) as [|w [|w' l]]; destruct wthint; reflexivity. }
  destruct EF as [-> | ->]; exact Hbody.
Qed.

(* HDKey.from_wif(text, network=hint, multisig=mshint, compressed=c) *)
Theorem xkey_from_wif_lemma hint mshint c :
  lib_hdkey_from_wif fold wc oc s hint mshint c =
  match lib_wif_prefix_search prefix None mshint hint with
  | [] => Err EKey
  | m :: _ =>
      Ok (xkey_obj priv key c (match hint with Some h => h | None => hm_network m end) chain depth fp child
            (wr_witness_type (hm_row m))
            (match mshint with Some true => true | _ => wr_multisig (hm_row m) end))
  end.
Proof.
  unfold lib_hdkey_from_wif. rewrite xk_bytes, xk_raw_len. cbn [Nat.eqb negb].
  pose proof xk_checked as Hck. rewrite xk_raw_len in Hck. cbn [Nat.eqb andb] in Hck. rewrite Hck. cbn [negb].
  rewrite xk_fields, xk_first4.
  destruct (lib_wif_prefix_search prefix None mshint hint) as [|m l] eqn:E; [reflexivity|].
  assert (Hm : In m (lib_wif_prefix_search prefix None mshint hint)) by (rewrite E; left; reflexivity).
  assert (Hdef : network_defined (match hint with Some h => h | None => hm_network m end) = true).
  { destruct hint as [h|].
    - rewrite <- (search_hint _ _ _ _ _ Hm). apply all_rows_defined.
      apply (prefix_rows_sound prefix m). eapply search_sub. exact Hm.
    - apply all_rows_defined. apply (prefix_rows_sound prefix m). eapply search_sub. exact Hm. }
  rewrite (xk_inner _ c Hdef). reflexivity.
Qed.

End XkeyText.

(* ------------------------------------------------------------------ Network.wif_prefix picks a row of the table
   whose witness-type / multisig columns are the ones asked for *)
Lemma wif_script_type_inj wt ms wt' ms' st :
  wif_script_type wt ms = Some st -> wif_script_type wt' ms' = Some st -> wt = wt' /\ ms = ms'.
Proof.
  unfold wif_script_type. intros H H'.
  destruct (String.eqb wt "legacy") eqn:A1; [apply String.eqb_eq in A1|
  destruct (String.eqb wt "segwit") eqn:A2; [apply String.eqb_eq in A2|
  destruct (String.eqb wt "p2sh-segwit") eqn:A3; [apply String.eqb_eq in A3|discriminate]]];
  (destruct (String.eqb wt' "legacy") eqn:B1; [apply String.eqb_eq in B1|
   destruct (String.eqb wt' "segwit") eqn:B2; [apply String.eqb_eq in B2|
   destruct (String.eqb wt' "p2sh-segwit") eqn:B3; [apply String.eqb_eq in B3|discriminate]]]);
  subst; destruct ms, ms'; inversion H; subst; try discriminate H'; split; reflexivity.
Qed.

Lemma network_wif_prefix_row n priv wt ms p : In n all_networks ->
  lib_network_wif_prefix n priv wt ms = Ok p ->
  exists r, In r (nw_prefixes_wif n) /\ wr_prefix r = p /\ wr_private r = priv /\
            wr_witness_type r = wt /\ wr_multisig r = ms.
Proof.
  intros Hn. unfold lib_network_wif_prefix.
  destruct (wif_script_type wt ms) as [st|] eqn:Est; [|discriminate].
  destruct (filter (fun r => Bool.eqb (wr_private r) priv && String.eqb (wr_script_type r) st) (nw_prefixes_wif n))
    as [|r l] eqn:F; [discriminate|].
  intros H. inversion H; subst p.
  assert (Hin : In r (filter (fun r => Bool.eqb (wr_private r) priv && String.eqb (wr_script_type r) st) (nw_prefixes_wif n)))
    by (rewrite F; left; reflexivity).
  apply filter_In in Hin. destruct Hin as [Hr Hc]. apply andb_true_iff in Hc. destruct Hc as [C1 C2].
  apply eqb_prop in C1. apply String.eqb_eq in C2.
  exists r. split; [exact Hr|]. split; [reflexivity|]. split; [exact C1|].
  pose proof table_script_types as T. rewrite forallb_forall in T.
  specialize (T _ (row_in_all_rows n r Hn Hr)). cbn [hm_row] in T.
  destruct (wif_script_type (wr_witness_type r) (wr_multisig r)) as [st'|] eqn:E'; [|discriminate].
  apply String.eqb_eq in T. subst st'. rewrite C2 in E'.
  destruct (wif_script_type_inj _ _ _ _ _ E' Est) as [-> ->]. split; reflexivity.
Qed.
