(* Proofs/AddrScriptParse.v — C05: outputs created from Address.parse(...) objects. *)
From Coq Require Import ZArith List Bool Lia String.
From Coq.Strings Require Import Byte.
From Verif Require Import Lib.Bytes Gen.GenNetworks Gen.GenConsts Model.Wire Model.AddrScript.
From Verif Require Import Proofs.ScriptCodec Proofs.AddrScriptSpec Proofs.AddrScriptTac.
Import ListNotations.
Open Scope Z_scope.

Section WithH.
Variable H160 : bytes -> bytes.

Lemma spec_address_hash net d : daddr_hash (spec_address net d) = d_payload d.
Proof. destruct d as [[] w p]; reflexivity. Qed.

Lemma spec_address_pfx fx net d : pfx_ok fx net -> forall v h, spec_address net d = DB58 v h -> tb fx v = v.
Proof.
  intros [H1 H2] v h E. destruct d as [[] w p]; cbn in E; try discriminate; injection E as <- _; apply tb_of; assumption.
Qed.

(* =========================== Address.parse(address, network=) object =========================== *)
Lemma lock_is_spec_parse fx net d :
  In net all_networks -> standard d = true ->
  (fx_witver fx = true \/ cls_witver_parse d = false) ->
  fx_tb fx (d_payload d) = d_payload d -> (forall n, In n all_networks -> pfx_ok fx n) ->
  match lib_address_parse H160 fx (spec_address net d) (Some (nw_name net)) with
  | Some ao =>
    ao_addr ao = spec_address net d /\
    out_is (lib_out_addr_obj H160 fx net ao)
           (spec_lock_script d) (stype_name (d_stype d)) (nw_name net) (OaIs (spec_address net d))
  | None => False
  end.
Proof.
  intros Hn Hstd Hg Htb Hp.
  rewrite address_parse_tb;
    [ | rewrite spec_address_hash; destruct (std_payload_cons d Hstd) as (pa & pr & ->); discriminate
      | rewrite spec_address_hash; exact Htb | exact Hp | apply (spec_address_pfx fx net d (Hp net Hn)) ].
  clear Htb Hp.
  destruct fx as [fw fn fp fa tb0]. cbn [fx_witver] in Hg.
  std_shapes d Hstd; (each_net Hn; (destruct fw, fn, fp;
    first [ guard_false Hg
          | vm_compute; split; [reflexivity|]; eexists; repeat split; reflexivity ])).
Qed.

(* without a network argument Address.parse picks the first network that has the prefix; with the
   repaired network check the output still lands on the transaction's network *)
Lemma lock_is_spec_parse_nonet fx net d :
  In net all_networks -> standard d = true ->
  fx_witver fx = true -> fx_netobj fx = true ->
  fx_tb fx (d_payload d) = d_payload d -> (forall n, In n all_networks -> pfx_ok fx n) ->
  match lib_address_parse H160 fx (spec_address net d) None with
  | Some ao =>
    ao_addr ao = spec_address net d /\
    out_is (lib_out_addr_obj H160 fx net ao)
           (spec_lock_script d) (stype_name (d_stype d)) (nw_name net) (OaIs (spec_address net d))
  | None => False
  end.
Proof.
  intros Hn Hstd Hw Ho Htb Hp.
  rewrite address_parse_tb;
    [ | rewrite spec_address_hash; destruct (std_payload_cons d Hstd) as (pa & pr & ->); discriminate
      | rewrite spec_address_hash; exact Htb | exact Hp | apply (spec_address_pfx fx net d (Hp net Hn)) ].
  clear Htb Hp.
  destruct fx as [fw fn fp fa tb0]. cbn [fx_witver fx_netobj] in Hw, Ho. subst fw fn.
  std_shapes d Hstd; (each_net Hn; (destruct fp;
    (vm_compute; split; [reflexivity|]; eexists; repeat split; reflexivity))).
Qed.

End WithH.
