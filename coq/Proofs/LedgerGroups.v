(* Proofs/LedgerGroups.v — C08: the balance clauses for every (network, account) group, also after the filtered
   updates balance(account_id, network) performs, and the class predicate of cross-account outputs. *)
From Coq Require Import ZArith List Bool Lia.
From Verif Require Import Lib.Bytes Model.Ledger Proofs.LedgerBalance Proofs.LedgerInv.
Import ListNotations.
Open Scope Z_scope.

(* ---------------------------------------------------------------- well-formed ledgers hold no cross-account output *)
Theorem has_cross_WF s : WF s -> has_cross s = false.
Proof.
  intros [_ W]. unfold has_cross.
  destruct (existsb _ (l_txs s)) eqn:E; [|reflexivity]. exfalso.
  apply existsb_exists in E. destruct E as [t [Ht E]]. apply existsb_exists in E. destruct E as [o [Ho E]].
  destruct (o_key o) as [k|] eqn:Ek; [|discriminate].
  apply andb_true_iff in E. destruct E as [_ E]. apply negb_true_iff in E.
  rewrite (W t o k Ht Ho Ek) in E. discriminate.
Qed.

Theorem no_cross_reachable_proof d b ops :
  ops_ok (init d b) ops = true -> has_cross (run (init d b) ops) = false.
Proof.
  intros G. apply has_cross_WF. exact (proj1 (inv_run_proof ops (init d b) (inv_init_proof d b) G)).
Qed.

(* ---------------------------------------------------------------- rows under a filter without key *)
Lemma out_counts_nokey f o : f_key f = None -> out_counts f o = out_counts f_all o.
Proof. unfold out_counts. intros ->. reflexivity. Qed.

Lemma tx_rows_match f t : f_key f = None -> grp_match f (t_grp t) = true -> tx_rows f t = tx_rows f_all t.
Proof.
  unfold tx_rows. intros Hk ->. change (grp_match f_all (t_grp t)) with true.
  destruct (0 <=? t_conf t); cbn [andb]; [|reflexivity].
  apply filter_ext. intros o. apply out_counts_nokey. exact Hk.
Qed.

Lemma tx_rows_nomatch f t : grp_match f (t_grp t) = false -> tx_rows f t = [].
Proof. unfold tx_rows. intros ->. reflexivity. Qed.

Lemma grp_sum_match f txs g :
  f_key f = None -> grp_match f g = true -> grp_sum f txs g = grp_sum f_all txs g.
Proof.
  intros Hk M. unfold grp_sum. f_equal. apply map_ext. intros t.
  destruct (grp_eqb (t_grp t) g) eqn:E; [|reflexivity]. apply grp_eqb_eq in E.
  rewrite tx_rows_match; [reflexivity | exact Hk | rewrite E; exact M].
Qed.

(* ---------------------------------------------------------------- the cache after a filtered update *)
Lemma cache_lookup_reset_match f c g :
  grp_match f g = true ->
  cache_lookup (cache_reset f c) g = match cache_lookup c g with Some _ => Some 0 | None => None end.
Proof.
  intros M. induction c as [|[h w] c IH]; [reflexivity|].
  cbn [cache_reset map fst]. destruct (grp_eqb h g) eqn:E.
  - pose proof E as E'. apply grp_eqb_eq in E'. subst h. rewrite M. cbn [cache_lookup]. rewrite E. reflexivity.
  - destruct (grp_match f h); cbn [cache_lookup]; rewrite E; exact IH.
Qed.

Lemma cache_lookup_reset_nomatch f c g :
  grp_match f g = false -> cache_lookup (cache_reset f c) g = cache_lookup c g.
Proof.
  intros M. induction c as [|[h w] c IH]; [reflexivity|].
  cbn [cache_reset map fst]. destruct (grp_eqb h g) eqn:E.
  - pose proof E as E'. apply grp_eqb_eq in E'. subst h. rewrite M. cbn [cache_lookup]. rewrite E. reflexivity.
  - destruct (grp_match f h); cbn [cache_lookup]; rewrite E; exact IH.
Qed.

Lemma groups_present_match f txs g :
  existsb (grp_eqb g) (groups_present f txs) = true -> grp_match f g = true.
Proof.
  unfold groups_present. rewrite existsb_dedup. intros H.
  apply existsb_exists in H. destruct H as [h [Hh E]]. apply grp_eqb_eq in E. subst h.
  apply in_map_iff in Hh. destruct Hh as [t [Et Ht]]. apply filter_In in Ht. destruct Ht as [_ Ht].
  destruct (grp_match f (t_grp t)) eqn:M; [rewrite <- Et; exact M|].
  rewrite (tx_rows_nomatch f t M) in Ht. discriminate.
Qed.

Theorem reported_after_update_f f s g :
  f_key f = None -> grp_match f g = true ->
  reported (balance_update true f s) g = grp_sum f (l_txs s) g.
Proof.
  intros Hk M. unfold reported, balance_update. cbn [l_cache]. rewrite Hk. cbn [is_some].
  rewrite (cache_lookup_merge (fun g => grp_sum f (l_txs s) g)).
  destruct (existsb (grp_eqb g) (groups_present f (l_txs s))) eqn:E; [reflexivity|].
  rewrite (cache_lookup_reset_match f _ g M). rewrite (grp_sum_absent _ _ _ E).
  destruct (cache_lookup (l_cache s) g); reflexivity.
Qed.

Theorem reported_unchanged f s g :
  f_key f = None -> grp_match f g = false -> reported (balance_update true f s) g = reported s g.
Proof.
  intros Hk M. unfold reported, balance_update. cbn [l_cache]. rewrite Hk. cbn [is_some].
  rewrite (cache_lookup_merge (fun g => grp_sum f (l_txs s) g)).
  destruct (existsb (grp_eqb g) (groups_present f (l_txs s))) eqn:E.
  - apply groups_present_match in E. congruence.
  - rewrite (cache_lookup_reset_nomatch f _ g M). reflexivity.
Qed.

(* ---------------------------------------------------------------- a key's rows lie in the key's group *)
Lemma NoDup_map_inj {A} (fn : A -> Z) (l : list A) a b :
  NoDup (map fn l) -> In a l -> In b l -> fn a = fn b -> a = b.
Proof.
  induction l as [|x l IH]; intros ND Ha Hb E; [destruct Ha|].
  cbn [map] in ND. inversion ND as [|y m Hn ND']; subst.
  destruct Ha as [<-|Ha]; destruct Hb as [<-|Hb]; [reflexivity| | |apply IH; assumption].
  - exfalso. apply Hn. rewrite E. apply in_map. exact Hb.
  - exfalso. apply Hn. rewrite <- E. apply in_map. exact Ha.
Qed.

Lemma key_in_grp_In ks k : In k ks -> key_in_grp ks (k_id k) (k_grp k) = true.
Proof.
  intros H. unfold key_in_grp. apply existsb_exists. exists k. split; [exact H|].
  rewrite Z.eqb_refl, grp_eqb_refl. reflexivity.
Qed.

Lemma key_in_grp_unique ks id g1 g2 :
  NoDup (map k_id ks) -> key_in_grp ks id g1 = true -> key_in_grp ks id g2 = true -> g1 = g2.
Proof.
  intros ND H1 H2. unfold key_in_grp in *.
  apply existsb_exists in H1. destruct H1 as [a [Ha A]]. apply andb_true_iff in A. destruct A as [A1 A2].
  apply existsb_exists in H2. destruct H2 as [b [Hb B]]. apply andb_true_iff in B. destruct B as [B1 B2].
  apply Z.eqb_eq in A1. apply Z.eqb_eq in B1. apply grp_eqb_eq in A2. apply grp_eqb_eq in B2.
  assert (a = b) by (apply (NoDup_map_inj k_id ks a b ND Ha Hb); congruence).
  subst. reflexivity.
Qed.

(* no row of key k in a transaction of another group *)
Lemma no_rows_elsewhere ks txs k g t o :
  NoDup (map k_id ks) -> keys_ok ks txs -> key_in_grp ks k g = true ->
  In t txs -> t_grp t <> g -> In o (tx_rows f_all t) -> opt_eqb (o_key o) k = false.
Proof.
  intros ND W Hk Ht Hg Ho.
  destruct (opt_eqb (o_key o) k) eqn:E; [|reflexivity]. exfalso. apply Hg.
  unfold opt_eqb in E. destruct (o_key o) as [x|] eqn:Ek; [|discriminate]. apply Z.eqb_eq in E. subst x.
  apply (key_in_grp_unique ks k (t_grp t) g ND); [|exact Hk].
  eapply W; eauto using rows_in_outs.
Qed.

Lemma filter_all_false {A} (p : A -> bool) l : (forall x, In x l -> p x = false) -> filter p l = [].
Proof.
  induction l as [|x l IH]; intros H; [reflexivity|].
  cbn [filter]. rewrite (H x (or_introl eq_refl)). apply IH. intros y Hy. apply H. right. exact Hy.
Qed.

Lemma existsb_all_false {A} (p : A -> bool) l : (forall x, In x l -> p x = false) -> existsb p l = false.
Proof.
  induction l as [|x l IH]; intros H; [reflexivity|].
  cbn [existsb]. rewrite (H x (or_introl eq_refl)). apply IH. intros y Hy. apply H. right. exact Hy.
Qed.

Lemma existsb_ext_in {A} (p q : A -> bool) l : (forall x, In x l -> p x = q x) -> existsb p l = existsb q l.
Proof.
  induction l as [|x l IH]; intros H; [reflexivity|].
  cbn [existsb]. rewrite (H x (or_introl eq_refl)). f_equal. apply IH. intros y Hy. apply H. right. exact Hy.
Qed.

(* rows of key k under a filter f whose groups contain the key's group: the same as without filter *)
Lemma key_rows_match ks txs f k g t :
  NoDup (map k_id ks) -> keys_ok ks txs -> key_in_grp ks k g = true ->
  f_key f = None -> grp_match f g = true -> In t txs ->
  filter (fun o => opt_eqb (o_key o) k) (tx_rows f t) = filter (fun o => opt_eqb (o_key o) k) (tx_rows f_all t).
Proof.
  intros ND W Hk Hf M Ht.
  destruct (grp_match f (t_grp t)) eqn:Mt; [rewrite (tx_rows_match f t Hf Mt); reflexivity|].
  rewrite (tx_rows_nomatch f t Mt). cbn [filter]. symmetry. apply filter_all_false. intros o Ho.
  apply (no_rows_elsewhere ks txs k g t o ND W Hk Ht); [|exact Ho]. intros E. rewrite E in Mt. congruence.
Qed.

Lemma key_sum_match ks txs f k g :
  NoDup (map k_id ks) -> keys_ok ks txs -> key_in_grp ks k g = true ->
  f_key f = None -> grp_match f g = true -> key_sum f txs k = key_sum f_all txs k.
Proof.
  intros ND W Hk Hf M. unfold key_sum. f_equal. apply map_ext_in. intros t Ht.
  rewrite (key_rows_match ks txs f k g t ND W Hk Hf M Ht). reflexivity.
Qed.

Lemma existsb_filter {A} (p : A -> bool) l : existsb p l = match filter p l with [] => false | _ => true end.
Proof.
  induction l as [|x l IH]; [reflexivity|]. cbn [existsb filter]. destruct (p x); [reflexivity|]. exact IH.
Qed.

Lemma key_has_rows_match ks txs f k g :
  NoDup (map k_id ks) -> keys_ok ks txs -> key_in_grp ks k g = true ->
  f_key f = None -> grp_match f g = true -> key_has_rows f txs k = key_has_rows f_all txs k.
Proof.
  intros ND W Hk Hf M. unfold key_has_rows. apply existsb_ext_in. intros t Ht.
  rewrite !existsb_filter. rewrite (key_rows_match ks txs f k g t ND W Hk Hf M Ht). reflexivity.
Qed.

Lemma key_has_rows_nomatch ks txs f k g :
  NoDup (map k_id ks) -> keys_ok ks txs -> key_in_grp ks k g = true ->
  f_key f = None -> grp_match f g = false -> key_has_rows f txs k = false.
Proof.
  intros ND W Hk Hf M. unfold key_has_rows. apply existsb_all_false. intros t Ht.
  destruct (grp_match f (t_grp t)) eqn:Mt; [|rewrite (tx_rows_nomatch f t Mt); reflexivity].
  rewrite (tx_rows_match f t Hf Mt). apply existsb_all_false. intros o Ho.
  apply (no_rows_elsewhere ks txs k g t o ND W Hk Ht); [|exact Ho]. intros E. rewrite E in Mt. congruence.
Qed.

(* ---------------------------------------------------------------- per-key consistency *)
Definition KB (s : ledger) : Prop :=
  forall k, In k (l_keys s) -> k_bal k = key_sum f_all (l_txs s) (k_id k).

Lemma KB_update_all r s : KB (balance_update r f_all s).
Proof.
  intros k' Hk'. unfold balance_update in *. cbn [l_keys l_txs] in *.
  apply in_map_iff in Hk'. destruct Hk' as [k [<- _]]. rewrite key_update_all. reflexivity.
Qed.

Lemma key_listed_nomatch b f k : grp_match f (k_grp k) = false -> key_listed b f k = false.
Proof.
  unfold key_listed, grp_match. intros ->. reflexivity.
Qed.

Lemma KB_update_f r f s : WF s -> KB s -> f_key f = None -> KB (balance_update r f s).
Proof.
  intros [ND W] K Hf k' Hk'. unfold balance_update in *. cbn [l_keys l_txs] in *.
  apply in_map_iff in Hk'. destruct Hk' as [k [<- Hk]].
  pose proof (key_in_grp_In _ _ Hk) as Hin.
  rewrite key_update_id. unfold key_update.
  destruct (grp_match f (k_grp k)) eqn:M.
  - rewrite (key_has_rows_match _ _ f _ _ ND W Hin Hf M).
    destruct (key_has_rows f_all (l_txs s) (k_id k)) eqn:E.
    + cbn [k_bal]. apply (key_sum_match _ _ f _ _ ND W Hin Hf M).
    + destruct (key_listed (l_bip32 s) f k); [|apply K; exact Hk].
      cbn [k_bal]. symmetry. apply key_sum_no_rows. exact E.
  - rewrite (key_has_rows_nomatch _ _ f _ _ ND W Hin Hf M).
    rewrite (key_listed_nomatch _ _ _ M). apply K. exact Hk.
Qed.

Lemma ksum_of_KB s g : WF s -> KB s -> ksum s g = usum s g.
Proof.
  intros [ND W] K. rewrite <- (grp_sum_is_usum s g W). rewrite <- (keys_sum_is_grp_sum (l_keys s) (l_txs s) g ND W).
  unfold ksum. revert K. unfold KB. generalize (l_txs s) as txs. generalize (l_keys s) as ks.
  induction ks as [|k ks IH]; intros txs K; [reflexivity|].
  cbn [filter map]. destruct (grp_eqb (k_grp k) g).
  - cbn [map]. rewrite !zsum_cons. rewrite (K k (or_introl eq_refl)). f_equal.
    apply IH. intros x Hx. apply K. right. exact Hx.
  - rewrite zsum_cons. rewrite Z.add_0_l. apply IH. intros x Hx. apply K. right. exact Hx.
Qed.

(* ---------------------------------------------------------------- full consistency and the calls that keep it *)
Definition Consistent (s : ledger) : Prop :=
  WF s /\ KB s /\ forall g, reported s g = usum s g.

Theorem consistent_gives s g : Consistent s -> reported s g = usum s g /\ ksum s g = usum s g.
Proof. intros [W [K R]]. split; [apply R | apply ksum_of_KB; assumption]. Qed.

Theorem consistent_after_balance s : WF s -> Consistent (balance_update true f_all s).
Proof.
  intros W. split; [apply WF_balance_update; exact W|]. split; [apply KB_update_all|].
  intros g. apply (balance_consistent s g W).
Qed.

Theorem consistent_update_f f s : Consistent s -> f_key f = None -> Consistent (balance_update true f s).
Proof.
  intros [W [K R]] Hf. split; [apply WF_balance_update; exact W|]. split; [apply KB_update_f; assumption|].
  intros g. rewrite usum_update. destruct (grp_match f g) eqn:M.
  - rewrite (reported_after_update_f f s g Hf M), (grp_sum_match f _ g Hf M). apply grp_sum_is_usum. exact (proj2 W).
  - rewrite (reported_unchanged f s g Hf M). apply R.
Qed.

(* the calls that only read (and refresh the caches) *)
Definition is_query (o : op) : bool :=
  match o with
  | Balance | Utxos | BalanceOf _ _ | UtxosOf _ _ | Select _ _ _ => true
  | _ => false
  end.

Lemma consistent_query s q : Consistent s -> is_query q = true -> Consistent (fst (step s q)).
Proof.
  intros C Q. destruct q; try discriminate Q; cbn [step step_gen fst]; try exact C.
  - apply consistent_update_f; [exact C | reflexivity].
  - apply consistent_update_f; [exact C | reflexivity].
Qed.

Lemma consistent_queries qs : forall s, Consistent s -> forallb is_query qs = true -> Consistent (run s qs).
Proof.
  induction qs as [|q qs IH]; intros s C Q; [exact C|].
  cbn [forallb] in Q. apply andb_true_iff in Q. destruct Q as [Q1 Q2].
  unfold run, run_gen. cbn [fold_left]. apply IH; [apply consistent_query; assumption | exact Q2].
Qed.

(* After any guarded history, a balance() call, and then ANY sequence of reading calls — balance(account_id,
   network), utxos(account_id, network, min_confirms), coin selection checks — for every (network, account) group
   the reported balance, the sum of its unspent outputs and the sum of the balances of its keys agree. *)
Theorem groups_consistent_after_queries_proof d b ops qs :
  ops_ok (init d b) ops = true -> forallb is_query qs = true ->
  let s' := run (fst (step (run (init d b) ops) Balance)) qs in
  forall g, reported s' g = usum s' g /\ ksum s' g = usum s' g.
Proof.
  intros G Q s' g. apply consistent_gives. unfold s'. apply consistent_queries; [|exact Q].
  cbn [step step_gen fst]. apply consistent_after_balance.
  exact (proj1 (inv_run_proof ops (init d b) (inv_init_proof d b) G)).
Qed.

(* what balance(account_id=fa, network=fn) returns: the sum of the unspent outputs of the group it names *)
Lemma lookup_grp_match s fa fn : grp_match (mkF fa fn None) (lookup_grp s fa fn) = true.
Proof.
  unfold grp_match, lookup_grp. cbn [f_nw f_acct fst snd].
  destruct fn as [n|]; destruct fa as [a|]; cbn [opt_match]; rewrite ?Z.eqb_refl; reflexivity.
Qed.

Theorem balance_of_value_proof s fa fn :
  WF s -> snd (step s (BalanceOf fa fn)) = OBal (usum s (lookup_grp s fa fn)).
Proof.
  intros W. cbn [step step_gen snd]. f_equal.
  set (f := mkF fa fn None).
  assert (L : lookup_grp (balance_update true f s) fa fn = lookup_grp s fa fn) by reflexivity.
  rewrite L. rewrite (reported_after_update_f f s _ eq_refl (lookup_grp_match s fa fn)).
  rewrite (grp_sum_match f _ _ eq_refl (lookup_grp_match s fa fn)).
  apply grp_sum_is_usum. exact (proj2 W).
Qed.
