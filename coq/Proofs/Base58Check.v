(* Proofs/Base58Check.v — acceptance of Base58Check address strings by the (repaired) library paths:
   accept-soundness for an arbitrary hash function, canonicity, payload length, known version. *)
From Coq Require Import ZArith List Bool Lia.
From Coq.Strings Require Import Byte.
From Verif Require Import Lib.Bytes Gen.GenConsts Gen.GenNetworks Model.Base58 Proofs.Base58.
Import ListNotations.
Open Scope Z_scope.

Section Check.
Variable H : bytes -> bytes.

(* what acceptance by addr_base58_to_pubkeyhash means, for either setting of the two switches *)
Lemma addr_b58_accept fold canon s pkh :
  lib_addr_b58_gen H fold canon s = AOk pkh ->
  exists a, lib_b58_dec fold s 25 = Some a /\ length a = 25%nat /\
            (canon = true -> b58_enc a = s) /\
            skipn 21 a = firstn 4 (H (firstn 21 a)) /\ pkh = skipn 1 (firstn 21 a).
Proof.
  unfold lib_addr_b58_gen. destruct (lib_b58_dec fold s 25) as [a|]; [|discriminate].
  destruct (Nat.eqb (length a) 25) eqn:L; cbn [negb]; [|discriminate].
  apply Nat.eqb_eq in L.
  destruct (canon && negb (bytes_eqb (b58_enc a) s)) eqn:C; [discriminate|].
  destruct (bytes_eqb (skipn 21 a) (firstn 4 (H (firstn 21 a)))) eqn:K; [|discriminate].
  intros E. inversion E; subst. exists a. repeat split; try assumption.
  - intros ->. cbn [andb] in C. apply negb_false_iff in C. apply bytes_eqb_true in C. exact C.
  - apply bytes_eqb_true. exact K.
Qed.

(* accepted => the last four bytes of the decoded body are the first four of H(rest) *)
Theorem addr_b58_accept_sound fold canon s pkh :
  lib_addr_b58_gen H fold canon s = AOk pkh ->
  exists body, lib_b58_dec fold s 25 = Some body /\
    skipn (length body - 4) body = firstn 4 (H (firstn (length body - 4) body)).
Proof.
  intros A. destruct (addr_b58_accept _ _ _ _ A) as (a & Hd & Hl & _ & Hc & _).
  exists a. split; [exact Hd|]. rewrite Hl. exact Hc.
Qed.

Lemma split_25 (a : bytes) : length a = 25%nat ->
  exists ver rest, firstn 21 a = ver :: rest /\ length rest = 20%nat.
Proof.
  intros L. destruct a as [|ver a']; [discriminate|].
  exists ver, (firstn 20 a'). split; [reflexivity|].
  rewrite firstn_length. cbn [length] in L. lia.
Qed.

(* the repaired path: the accepted string is the one canonical spelling of version ++ hash ++ checksum *)
Theorem addr_b58_canonical s pkh :
  lib_addr_b58 H s = AOk pkh ->
  length pkh = 20%nat /\
  exists ver, s = b58check_enc H (ver :: pkh) /\
              spec_b58_dec s = Some ((ver :: pkh) ++ firstn 4 (H (ver :: pkh))).
Proof.
  intros A. destruct (addr_b58_accept _ _ _ _ A) as (a & Hd & Hl & Hcan & Hc & Hp).
  specialize (Hcan eq_refl).
  destruct (split_25 a Hl) as (ver & rest & Hf & Hr).
  rewrite Hf in Hp, Hc. cbn [skipn] in Hp. subst pkh.
  split; [exact Hr|]. exists ver.
  assert (Ha : a = (ver :: rest) ++ firstn 4 (H (ver :: rest))).
  { rewrite <- Hc, <- Hf. symmetry. apply firstn_skipn. }
  split.
  - unfold b58check_enc. rewrite <- Ha. symmetry. exact Hcan.
  - rewrite <- Hcan, b58_dec_enc. f_equal. exact Ha.
Qed.

(* ------------------------------------------------------------------ deserialize_address, base58 branch *)
Lemma In_insert_prio x y l : In x (insert_prio y l) -> x = y \/ In x l.
Proof.
  induction l as [|z l IH]; cbn [insert_prio].
  - intros [E|[]]. left. congruence.
  - destruct (nw_priority z <=? nw_priority y).
    + intros [E|Hin]; [left; congruence | right; exact Hin].
    + intros [E|Hin]; [right; left; exact E|].
      destruct (IH Hin) as [E|Hl]; [left; exact E | right; right; exact Hl].
Qed.

Lemma In_sort_prio x l : In x (sort_prio l) -> In x l.
Proof.
  induction l as [|y l IH]; cbn [sort_prio fold_right]; [intros []|].
  intros Hin. apply In_insert_prio in Hin. destruct Hin as [E|Hin]; [left; congruence | right; apply IH; exact Hin].
Qed.

Lemma networks_by_sound b field v nw :
  In nw (networks_by b field v) ->
  In nw all_networks /\ (field nw = v \/ (b = true /\ field nw = map upper_byte v)).
Proof.
  unfold networks_by.
  destruct (filter (fun n => bytes_eqb (field n) v) all_networks) as [|y l] eqn:F.
  - destruct b; [|intros []].
    intros Hin. apply In_sort_prio in Hin. apply filter_In in Hin. destruct Hin as [H1 H2].
    apply bytes_eqb_true in H2. split; [exact H1 | right; split; [reflexivity | exact H2]].
  - intros Hin. apply In_sort_prio in Hin. rewrite <- F in Hin. apply filter_In in Hin.
    destruct Hin as [H1 H2]. apply bytes_eqb_true in H2. split; [exact H1 | left; exact H2].
Qed.

Theorem deser_b58_canonical enc_b58 s i :
  lib_deser_b58 H enc_b58 s = BrOk i ->
  ai_bech32 i = false /\ length (ai_prefix i) = 1%nat /\ length (ai_pkh i) = 20%nat /\
  s = b58check_enc H (ai_prefix i ++ ai_pkh i) /\
  ai_raw i = (ai_prefix i ++ ai_pkh i) ++ firstn 4 (H (ai_prefix i ++ ai_pkh i)) /\
  spec_b58_dec s = Some (ai_raw i) /\
  (forall nm, ai_network i = Some nm ->
     exists nw, In nw all_networks /\ nw_name nw = nm /\
                (nw_prefix_address nw = ai_prefix i \/ nw_prefix_address_p2sh nw = ai_prefix i)).
Proof.
  unfold lib_deser_b58, lib_deser_b58_gen.
  destruct (lib_b58_dec false s 25) as [a|]; [|discriminate].
  set (n := length a).
  set (key_hash := firstn (n - 4) a).
  set (ok := bytes_eqb (skipn (n - 4) a) (firstn 4 (H key_hash))).
  destruct (negb ok && enc_b58); [discriminate|].
  destruct ok eqn:Hok; cbn [negb andb orb]; [|discriminate].
  destruct (Nat.eqb n 25) eqn:L; cbn [andb]; [|discriminate].
  destruct (bytes_eqb (b58_enc a) s) eqn:C; [|discriminate].
  apply Nat.eqb_eq in L. apply bytes_eqb_true in C. apply bytes_eqb_true in Hok.
  assert (Hn4 : (n - 4 = 21)%nat) by lia.
  subst key_hash. rewrite Hn4 in *.
  destruct (split_25 a L) as (ver & rest & Hf & Hr).
  rewrite Hf in *.
  assert (Ha : a = (ver :: rest) ++ firstn 4 (H (ver :: rest))).
  { rewrite <- Hok, <- Hf. symmetry. apply firstn_skipn. }
  set (pfx := firstn 1 (ver :: rest)).
  set (np := networks_by false nw_prefix_address pfx).
  set (ns := networks_by false nw_prefix_address_p2sh pfx).
  set (sel := match np, ns with
              | _ :: _, [] => (SkP2pkh, WkLegacy, np)
              | _, _ :: _ => (SkP2sh, WkNone, ns)
              | _, _ => (SkNone, WkNone, [])
              end).
  assert (Hsel : forall x, In x (snd sel) -> In x np \/ In x ns).
  { subst sel. destruct np, ns; cbn [snd]; auto. }
  destruct sel as [[sk wk] nws]. cbn [snd] in Hsel.
  intros E. inversion E; subst i; clear E. cbn [ai_bech32 ai_prefix ai_pkh ai_raw ai_network].
  subst pfx. change (firstn 1 (ver :: rest) ++ rest) with (ver :: rest).
  split; [reflexivity|]. split; [reflexivity|]. split; [exact Hr|].
  split; [unfold b58check_enc; rewrite <- Ha; symmetry; exact C|].
  split; [exact Ha|].
  split; [rewrite <- C; apply b58_dec_enc|].
  intros nm Hnm. destruct nws as [|x nws']; [discriminate|]. inversion Hnm; subst nm.
  destruct (Hsel x (or_introl eq_refl)) as [Hin|Hin]; apply networks_by_sound in Hin;
    destruct Hin as [Hall [Hv|[Hb _]]]; try discriminate Hb; exists x; repeat split; auto.
Qed.

(* accept-soundness of the same branch for either setting of the switches (no length check needed) *)
Theorem deser_b58_accept_sound fold canon enc_b58 s i :
  lib_deser_b58_gen H fold canon enc_b58 s = BrOk i ->
  exists body, lib_b58_dec fold s 25 = Some body /\ ai_raw i = body /\
    skipn (length body - 4) body = firstn 4 (H (firstn (length body - 4) body)).
Proof.
  unfold lib_deser_b58_gen.
  destruct (lib_b58_dec fold s 25) as [a|]; [|discriminate].
  set (ok := bytes_eqb (skipn (length a - 4) a) (firstn 4 (H (firstn (length a - 4) a)))).
  destruct (negb ok && enc_b58); [discriminate|].
  destruct ok eqn:Hok; cbn [andb]; [|discriminate].
  destruct (negb canon || (Nat.eqb (length a) 25 && bytes_eqb (b58_enc a) s)); [|discriminate].
  set (sel := match networks_by false nw_prefix_address (firstn 1 (firstn (length a - 4) a)),
                    networks_by false nw_prefix_address_p2sh (firstn 1 (firstn (length a - 4) a)) with
              | _ :: _, [] => _ | _, _ :: _ => _ | _, _ => _ end).
  destruct sel as [[sk wk] nws].
  intros E. inversion E; subst i. cbn [ai_raw]. exists a. repeat split.
  apply bytes_eqb_true. exact Hok.
Qed.

End Check.
