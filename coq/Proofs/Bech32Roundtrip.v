(* Proofs/Bech32Roundtrip.v — the composed segwit address codec of Model/Bech32.v:
   decode (encode (hrp, witver, program)) = (witver, program) for every well-formed input within the
   90-character limit, and the string-level anatomy of the decoder used by the error-detection and
   canonicity proofs. *)
From Coq Require Import ZArith List Bool Lia.
From Coq.Strings Require Import Byte.
From Verif Require Import Lib.Bytes Lib.BitRegroup Gen.GenConsts Model.Base58 Model.Bech32
  Proofs.BitRegroupMore Proofs.Bech32 Proofs.Bech32Convert.
Import ListNotations.
Open Scope Z_scope.

(* ------------------------------------------------------------------ anatomy of the decoder *)
(* everything after the split into human-readable part and data values *)
Definition dec_core (hrp : bytes) (data : list Z) : option (Z * bytes) :=
  let check := polymod (hrp_expand hrp ++ data) in
  let witver := nth 0 data 0 in
  if negb ((check =? 1) || (check =? cfg_BECH32M_CONST)) then None
  else if (witver =? 0) && negb (check =? 1) then None
  else if negb (witver =? 0) && negb (check =? cfg_BECH32M_CONST) then None
  else
    let data' := firstn (length data - 6) data in
    match convertbits (tl data') 5 8 false with
    | CbOk dec =>
        let n := length dec in
        if (n <? 2)%nat || (40 <? n)%nat then None
        else if 16 <? nth 0 data' 0 then None
        else if (nth 0 data' 0 =? 0) && negb ((n =? 20)%nat || (n =? 32)%nat) then None
        else Some (nth 0 data' 0, map zb dec)
    | _ => None
    end.

Lemma lib_bech32_dec_eq s :
  lib_bech32_dec s =
  if negb (forallb printable s) || negb (case_ok s) then None
  else
    let b := map lower_byte s in
    match rfind x31 b with
    | None => None
    | Some pos =>
        if (pos <? 1)%nat || (length b <? pos + 7)%nat || (90 <? length b)%nat then None
        else
          match b32_indices (skipn (S pos) b) with
          | None => None
          | Some data => dec_core (firstn pos b) data
          end
    end.
Proof. reflexivity. Qed.

(* ------------------------------------------------------------------ characters *)
Lemma alphabet_bech32_length : length alphabet_bech32 = 32%nat.
Proof. reflexivity. Qed.

Lemma b32_char_in d : 0 <= d < 32 -> In (b32_char d) alphabet_bech32.
Proof. intros Hd. unfold b32_char. apply nth_In. rewrite alphabet_bech32_length. lia. Qed.

Lemma b32_char_props d : 0 <= d < 32 ->
  b32_char d <> x31 /\ lower_byte (b32_char d) = b32_char d /\ printable (b32_char d) = true.
Proof.
  intros Hd. pose proof b32_chars_table as T. rewrite forallb_forall in T.
  specialize (T _ (b32_char_in d Hd)).
  apply andb_true_iff in T. destruct T as [T T3]. apply andb_true_iff in T. destruct T as [T1 T2].
  apply negb_true_iff in T1. apply beq_false in T1. apply beq_true in T2. auto.
Qed.

(* well-formed human-readable part: printable, no upper-case letters *)
Definition hrp_wf (hrp : bytes) : Prop :=
  hrp <> [] /\ Forall (fun c => 33 <= bz c <= 126 /\ ~ (65 <= bz c <= 90)) hrp.

Lemma lower_byte_id c : ~ (65 <= bz c <= 90) -> lower_byte c = c.
Proof.
  intros H. unfold lower_byte.
  destruct (Z.leb_spec 65 (bz c)), (Z.leb_spec (bz c) 90); cbn [andb]; try reflexivity. lia.
Qed.

Lemma printable_iff c : printable c = true <-> 33 <= bz c <= 126.
Proof. unfold printable. rewrite andb_true_iff, !Z.leb_le. tauto. Qed.

Lemma map_id_on {A} (f : A -> A) l : Forall (fun x => f x = x) l -> map f l = l.
Proof. induction 1 as [|x l Hx _ IH]; [reflexivity|]. cbn [map]. rewrite Hx, IH. reflexivity. Qed.

(* the text  hrp ++ "1" ++ characters of the values *)
Definition bech32_text (hrp : bytes) (vals : list Z) : bytes := hrp ++ x31 :: map b32_char vals.

Lemma bech32_text_chars hrp vals : hrp_wf hrp -> Forall (fun v => 0 <= v < 32) vals ->
  Forall (fun c => printable c = true /\ lower_byte c = c) (bech32_text hrp vals).
Proof.
  intros [_ Hh] Hv. unfold bech32_text. apply Forall_app. split.
  - eapply Forall_impl; [|exact Hh]. cbn beta. intros c [H1 H2].
    split; [apply printable_iff; exact H1|apply lower_byte_id; exact H2].
  - constructor; [split; reflexivity|].
    apply Forall_forall. intros c Hc. apply in_map_iff in Hc. destruct Hc as (d & <- & Hd).
    rewrite Forall_forall in Hv. destruct (b32_char_props d (Hv d Hd)) as (_ & H2 & H3). auto.
Qed.

(* ------------------------------------------------------------------ the separator *)
Lemma rfind_none c s : ~ In c s -> rfind c s = None.
Proof.
  induction s as [|x r IH]; intros Hn; [reflexivity|].
  cbn [rfind]. rewrite IH by (intros H; apply Hn; right; exact H).
  assert (x <> c) by (intros ->; apply Hn; left; reflexivity).
  apply beq_false in H. rewrite H. reflexivity.
Qed.

Lemma rfind_app c a : forall l j, rfind c l = Some j -> rfind c (a ++ l) = Some (length a + j)%nat.
Proof.
  induction a as [|x a IH]; intros l j H; [exact H|].
  rewrite <- app_comm_cons. cbn [rfind length]. rewrite (IH l j H). reflexivity.
Qed.

Lemma rfind_sep c a d : ~ In c d -> rfind c (a ++ c :: d) = Some (length a).
Proof.
  intros Hn. rewrite (rfind_app c a (c :: d) O); [f_equal; lia|].
  cbn [rfind]. rewrite rfind_none by exact Hn. rewrite beq_refl. reflexivity.
Qed.

Lemma sep_not_in_data vals : Forall (fun v => 0 <= v < 32) vals -> ~ In x31 (map b32_char vals).
Proof.
  intros Hv Hin. apply in_map_iff in Hin. destruct Hin as (d & E & Hd).
  rewrite Forall_forall in Hv. destruct (b32_char_props d (Hv d Hd)) as (H1 & _). auto.
Qed.

(* ------------------------------------------------------------------ decoding a well-formed text *)
Theorem lib_bech32_dec_text hrp vals :
  hrp_wf hrp -> Forall (fun v => 0 <= v < 32) vals -> (6 <= length vals)%nat ->
  (length (bech32_text hrp vals) <= 90)%nat ->
  lib_bech32_dec (bech32_text hrp vals) = dec_core hrp vals.
Proof.
  intros Hh Hv H6 H90. rewrite lib_bech32_dec_eq.
  pose proof (bech32_text_chars hrp vals Hh Hv) as Hc.
  assert (Hp : forallb printable (bech32_text hrp vals) = true).
  { apply forallb_forall. rewrite Forall_forall in Hc. intros c Hin. apply (Hc c Hin). }
  assert (Hl : map lower_byte (bech32_text hrp vals) = bech32_text hrp vals).
  { apply map_id_on. eapply Forall_impl; [|exact Hc]. cbn beta. intros c [_ H]. exact H. }
  unfold case_ok. rewrite Hp, Hl, bytes_eqb_refl. cbn [negb orb]. cbv zeta.
  unfold bech32_text at 1. rewrite rfind_sep by (apply sep_not_in_data; exact Hv).
  destruct Hh as [Hne _].
  assert (Hlen : length (bech32_text hrp vals) = (length hrp + S (length vals))%nat).
  { unfold bech32_text. rewrite app_length. cbn [length]. rewrite map_length. reflexivity. }
  assert (B1 : (length hrp <? 1)%nat = false).
  { apply Nat.ltb_ge. destruct hrp; [congruence|cbn [length]; lia]. }
  assert (B2 : (length (bech32_text hrp vals) <? length hrp + 7)%nat = false)
    by (apply Nat.ltb_ge; lia).
  assert (B3 : (90 <? length (bech32_text hrp vals))%nat = false) by (apply Nat.ltb_ge; lia).
  rewrite B1, B2, B3. cbn [orb].
  unfold bech32_text.
  rewrite firstn_app_exact by reflexivity.
  replace (hrp ++ x31 :: map b32_char vals) with ((hrp ++ [x31]) ++ map b32_char vals)
    by (rewrite <- app_assoc; reflexivity).
  rewrite skipn_app_exact by (rewrite app_length; cbn [length]; lia).
  rewrite b32_indices_of_values by exact Hv. reflexivity.
Qed.

(* ------------------------------------------------------------------ dec_core on what the encoder produces *)
Lemma firstn_minus6 (data chk : list Z) : length chk = 6%nat ->
  firstn (length (data ++ chk) - 6) (data ++ chk) = data.
Proof. intros H. apply firstn_app_exact. rewrite app_length, H. lia. Qed.

Lemma checksum_values_length m : length (checksum_values m) = 6%nat.
Proof. reflexivity. Qed.

Lemma mk_checksum_length hrp data c : length (mk_checksum hrp data c) = 6%nat.
Proof. reflexivity. Qed.

Lemma mk_checksum_range hrp data c : Forall (fun v => 0 <= v < 32) (mk_checksum hrp data c).
Proof. apply checksum_values_range. Qed.

Lemma map_bz_range (p : bytes) : in_base 256 (map bz p).
Proof. apply Forall_forall. intros v Hv. apply in_map_iff in Hv. destruct Hv as (c & <- & _). apply bz_range. Qed.

Lemma map_zb_bz (p : bytes) : map zb (map bz p) = p.
Proof. induction p as [|c p IH]; [reflexivity|]. cbn [map]. rewrite zb_bz, IH. reflexivity. Qed.

Definition prog_len_ok (witver : Z) (n : nat) : Prop :=
  (2 <= n <= 40)%nat /\ (witver = 0 -> n = 20%nat \/ n = 32%nat).

Theorem dec_core_encoded hrp witver prog d5 :
  0 <= witver <= 16 -> prog_len_ok witver (length prog) ->
  convertbits (map bz prog) 8 5 true = CbOk d5 ->
  dec_core hrp ((witver :: d5) ++ mk_checksum hrp (witver :: d5) (bech32_const witver)) = Some (witver, prog).
Proof.
  intros Hw [Hn Hn0] E5.
  destruct (convertbits_8_5_8 (map bz prog) (map_bz_range prog)) as (d5' & E5' & Hd5 & _ & Eback).
  assert (d5' = d5) by congruence. subst d5'.
  assert (Hdata : Forall (fun v => 0 <= v < 32) (witver :: d5)) by (constructor; [lia|exact Hd5]).
  unfold dec_core.
  rewrite (mk_checksum_verifies hrp (witver :: d5) (bech32_const witver) Hdata (bech32_const_range witver)).
  rewrite firstn_minus6 by apply mk_checksum_length.
  rewrite <- app_comm_cons. cbn [nth tl]. cbv zeta.
  rewrite Eback. rewrite map_length.
  assert (C : (if negb ((bech32_const witver =? 1) || (bech32_const witver =? cfg_BECH32M_CONST)) then true
               else if (witver =? 0) && negb (bech32_const witver =? 1) then true
               else negb (witver =? 0) && negb (bech32_const witver =? cfg_BECH32M_CONST)) = false).
  { unfold bech32_const. destruct (witver =? 0); reflexivity. }
  destruct (negb ((bech32_const witver =? 1) || (bech32_const witver =? cfg_BECH32M_CONST))); [discriminate|].
  destruct ((witver =? 0) && negb (bech32_const witver =? 1)); [discriminate|].
  rewrite C.
  assert (L1 : (length prog <? 2)%nat = false) by (apply Nat.ltb_ge; lia).
  assert (L2 : (40 <? length prog)%nat = false) by (apply Nat.ltb_ge; lia).
  assert (L3 : (16 <? witver) = false) by (apply Z.ltb_ge; lia).
  rewrite L1, L2, L3. cbn [orb].
  assert (L4 : (witver =? 0) && negb ((length prog =? 20)%nat || (length prog =? 32)%nat) = false).
  { destruct (Z.eqb_spec witver 0) as [E0|_]; [|reflexivity]. cbn [andb].
    destruct (Hn0 E0) as [-> | ->]; reflexivity. }
  rewrite L4. rewrite map_zb_bz. reflexivity.
Qed.

(* ------------------------------------------------------------------ the encoders *)
Lemma spec_bech32_enc_text hrp witver prog d5 :
  convertbits (map bz prog) 8 5 true = CbOk d5 ->
  spec_bech32_enc hrp witver prog =
    Some (bech32_text hrp ((witver :: d5) ++ mk_checksum hrp (witver :: d5) (bech32_const witver))).
Proof.
  intros E. unfold spec_bech32_enc, bech32_text. rewrite E. cbv zeta.
  rewrite map_app. reflexivity.
Qed.

Lemma convertbits_prog_total (prog : bytes) :
  exists d5, convertbits (map bz prog) 8 5 true = CbOk d5 /\ in_base 32 d5 /\
             length d5 = ((8 * length prog + 4) / 5)%nat.
Proof.
  destruct (convertbits_8_5_8 (map bz prog) (map_bz_range prog)) as (d5 & E & H & L & _).
  rewrite map_length in L. exists d5. auto.
Qed.

(* spec encoder followed by the library decoder *)
Theorem spec_roundtrip hrp witver prog s :
  hrp_wf hrp -> 0 <= witver <= 16 -> prog_len_ok witver (length prog) ->
  spec_bech32_enc hrp witver prog = Some s -> (length s <= 90)%nat ->
  lib_bech32_dec s = Some (witver, prog).
Proof.
  intros Hh Hw Hn E H90.
  destruct (convertbits_prog_total prog) as (d5 & E5 & Hd5 & _).
  rewrite (spec_bech32_enc_text hrp witver prog d5 E5) in E.
  assert (s = bech32_text hrp ((witver :: d5) ++ mk_checksum hrp (witver :: d5) (bech32_const witver)))
    by congruence. subst s. clear E.
  rewrite lib_bech32_dec_text; try assumption.
  - apply dec_core_encoded; assumption.
  - apply Forall_app. split; [constructor; [lia|exact Hd5]|apply mk_checksum_range].
  - rewrite app_length, mk_checksum_length. lia.
Qed.

(* what pubkeyhash_to_addr_bech32 has to be given for a witness program: the bare program when it is 20, 32 or
   40 bytes long, otherwise [version opcode, length] + program (see the known finding about this convention) *)
Definition enc_input (witver : Z) (prog : bytes) : bytes :=
  let n := length prog in
  if (n =? 20)%nat || (n =? 32)%nat || (n =? 40)%nat then prog else lib_bech32_raw (witver, prog).

Theorem lib_enc_is_spec hrp witver prog cx :
  0 <= witver <= 16 -> (length prog <= 40)%nat -> ~ In (length prog) [18%nat; 30%nat; 38%nat] ->
  (witver = 0 -> cx = 1) ->
  lib_bech32_enc (enc_input witver prog) hrp witver cx = spec_bech32_enc hrp witver prog.
Proof.
  intros Hw Hl Hx Hcx.
  assert (Hsel : forall wv, wv = witver ->
     (if (cx =? cfg_BECH32M_CONST) && (wv =? 0) then (1, cx)
      else if 0 <? wv then (wv, cfg_BECH32M_CONST) else (wv, cx)) = (witver, bech32_const witver)).
  { intros wv ->. unfold bech32_const. destruct (Z.eqb_spec witver 0) as [E0|N0].
    - rewrite (Hcx E0), E0. reflexivity.
    - rewrite andb_false_r. destruct (Z.ltb_spec 0 witver); [reflexivity|lia]. }
  assert (Hfin : (if 16 <? witver then None
      else let '(wv, cx0) := (witver, bech32_const witver) in
        match convertbits (map bz prog) 8 5 true with
        | CbOk d5 => let data := wv :: d5 in
            if wv <? 0 then None
            else Some (hrp ++ [x31] ++ map b32_char data ++ map b32_char (mk_checksum hrp data cx0))
        | _ => None end) = spec_bech32_enc hrp witver prog).
  { assert (L3 : (16 <? witver) = false) by (apply Z.ltb_ge; lia).
    assert (L0 : (witver <? 0) = false) by (apply Z.ltb_ge; lia).
    rewrite L3. unfold spec_bech32_enc.
    destruct (convertbits (map bz prog) 8 5 true); try reflexivity. cbv zeta. rewrite L0. reflexivity. }
  unfold enc_input. cbv zeta.
  destruct ((length prog =? 20)%nat || (length prog =? 32)%nat || (length prog =? 40)%nat) eqn:En.
  - unfold lib_bech32_enc. cbv zeta. rewrite En. cbn [negb].
    rewrite (Hsel witver eq_refl). exact Hfin.
  - unfold lib_bech32_enc, lib_bech32_raw. cbv zeta. cbn [fst snd length].
    assert (En2 : ((S (S (length prog)) =? 20)%nat || (S (S (length prog)) =? 32)%nat
                   || (S (S (length prog)) =? 40)%nat) = false).
    { cbn [In] in Hx. repeat rewrite orb_false_iff. repeat split; apply Nat.eqb_neq; lia. }
    rewrite En2. cbn [negb].
    rewrite !bz_zb. rewrite (Z.mod_small (Z.of_nat (length prog))) by lia.
    rewrite Z.eqb_refl. cbn [negb].
    assert (Hwv : (if witver_op witver mod 256 =? 0 then witver else witver_op witver mod 256 - 80) = witver).
    { unfold witver_op. destruct (Z.eqb_spec witver 0) as [E0|N0]; [rewrite E0; reflexivity|].
      rewrite Z.mod_small by lia. destruct (Z.eqb_spec (witver + 80) 0); lia. }
    rewrite Hwv. rewrite (Hsel witver eq_refl). exact Hfin.
Qed.

(* the library encoder followed by the library decoder *)
Theorem lib_roundtrip hrp witver prog cx s :
  hrp_wf hrp -> 0 <= witver <= 16 -> prog_len_ok witver (length prog) ->
  ~ In (length prog) [18%nat; 30%nat; 38%nat] -> (witver = 0 -> cx = 1) ->
  lib_bech32_enc (enc_input witver prog) hrp witver cx = Some s -> (length s <= 90)%nat ->
  lib_bech32_dec s = Some (witver, prog).
Proof.
  intros Hh Hw Hn Hx Hcx E H90. rewrite lib_enc_is_spec in E; try assumption; [|destruct Hn; lia].
  eapply spec_roundtrip; eassumption.
Qed.

(* the encoder never fails on such input, and the length of its result is known *)
Theorem lib_enc_succeeds hrp witver prog cx :
  0 <= witver <= 16 -> (length prog <= 40)%nat -> ~ In (length prog) [18%nat; 30%nat; 38%nat] ->
  (witver = 0 -> cx = 1) ->
  exists s, lib_bech32_enc (enc_input witver prog) hrp witver cx = Some s /\
            length s = (length hrp + 8 + (8 * length prog + 4) / 5)%nat.
Proof.
  intros Hw Hl Hx Hcx. rewrite lib_enc_is_spec by assumption.
  destruct (convertbits_prog_total prog) as (d5 & E5 & _ & L5).
  rewrite (spec_bech32_enc_text hrp witver prog d5 E5). eexists. split; [reflexivity|].
  unfold bech32_text. rewrite app_length. cbn [length]. rewrite map_length, app_length, mk_checksum_length.
  cbn [length]. lia.
Qed.

(* non-vacuity of hrp_wf: "bc" *)
Lemma hrp_bc_wf : hrp_wf [x62; x63].
Proof. split; [discriminate|]. apply Forall_forall. intros c [<-|[<-|[]]]; cbn; lia. Qed.
