(* Proofs/EcdsaSession.v — sessions (C13): a process that signs many requests, a Signature object that is verified
   again and again.  The folds of Model/Ecdsa.v carry exactly the state the code keeps; here: that state never
   reaches an answer whose arguments are all given — the session is the map of the stateless functions. *)
From Coq Require Import ZArith List Bool Lia.
From Coq.Strings Require Import Byte.
From Verif Require Import Lib.Bytes Crypto.Sha256 Crypto.Secp256k1 Model.Der Model.Ecdsa Proofs.Ecdsa.
Import ListNotations.
Open Scope Z_scope.

(* ---------------------------------------------------------------- generic *)

Lemma run_session_eq {St Rq An : Type} (call : St -> Rq -> St * An) st q rest :
  run_session call st (q :: rest) = snd (call st q) :: run_session call (fst (call st q)) rest.
Proof. cbn [run_session]. destruct (call st q); reflexivity. Qed.

(* a process whose answers do not depend on the state it carries answers every request by the same function *)
Lemma run_session_stateless {St Rq An : Type} (call : St -> Rq -> St * An) (f : Rq -> An) :
  (forall st q, snd (call st q) = f q) -> forall reqs st, run_session call st reqs = map f reqs.
Proof.
  intros H reqs. induction reqs as [|q rest IH]; intros st; [reflexivity|].
  rewrite run_session_eq, H, IH. reflexivity.
Qed.

(* the same under an invariant of the state and a side condition on the requests *)
Lemma run_session_inv {St Rq An : Type} (call : St -> Rq -> St * An) (f : Rq -> An) (I : St -> Prop) (ok : Rq -> bool) :
  (forall st q, I st -> ok q = true -> snd (call st q) = f q /\ I (fst (call st q))) ->
  forall reqs st, I st -> forallb ok reqs = true -> run_session call st reqs = map f reqs.
Proof.
  intros H reqs. induction reqs as [|q rest IH]; intros st Hst Hok; [reflexivity|].
  cbn [forallb] in Hok. apply andb_true_iff in Hok. destruct Hok as [Hq Hrest].
  destruct (H st q Hst Hq) as [Ha Hi]. rewrite run_session_eq, Ha, (IH _ Hi Hrest). reflexivity.
Qed.

(* ---------------------------------------------------------------- signing *)

Lemma sign_session_is_map reqs : lib_sign_session reqs = map lib_sign_req reqs.
Proof. unfold lib_sign_session. apply run_session_stateless. reflexivity. Qed.

(* the answer to a request does not depend on what was signed before it or after it *)
Lemma sign_session_position pre q post :
  nth_error (lib_sign_session (pre ++ q :: post)) (length pre) = Some (lib_sign_req q).
Proof.
  rewrite sign_session_is_map, map_app. cbn [map].
  rewrite nth_error_app2 by (rewrite map_length; lia). rewrite map_length, Nat.sub_diag. reflexivity.
Qed.

(* asking twice gives the same answer twice, whatever happens in between *)
Lemma sign_session_repeat pre q mid post :
  nth_error (lib_sign_session (pre ++ q :: mid ++ q :: post)) (length pre) =
  nth_error (lib_sign_session (pre ++ q :: mid ++ q :: post)) (length pre + 1 + length mid).
Proof.
  rewrite sign_session_position.
  replace (pre ++ q :: mid ++ q :: post) with ((pre ++ q :: mid) ++ q :: post)
    by (rewrite <- app_assoc; reflexivity).
  replace (length pre + 1 + length mid)%nat with (length (pre ++ q :: mid))
    by (rewrite app_length; cbn [length]; lia).
  rewrite sign_session_position. reflexivity.
Qed.

(* every answer of a session has the properties of lib_sign: low S, range (the function-level theorems carry over) *)
Lemma sign_session_low_s reqs i r s enc :
  nth_error (lib_sign_session reqs) i = Some (Some (r, s, enc)) -> 1 <= r < secp_n /\ 1 <= s <= (secp_n - 1) / 2.
Proof.
  rewrite sign_session_is_map. intros H.
  destruct (nth_error reqs i) as [q|] eqn:E.
  - rewrite (map_nth_error lib_sign_req i reqs E) in H. injection H as H. exact (lib_sign_low_s _ _ _ _ _ _ _ H).
  - apply nth_error_None in E. assert (nth_error (map lib_sign_req reqs) i = None) as N
      by (apply nth_error_None; rewrite map_length; exact E). rewrite N in H. discriminate.
Qed.

(* ---------------------------------------------------------------- verifying on one object *)

Lemma lib_verify_is_rs dg sig Q : lib_verify dg sig Q =
  match lib_parse sig with
  | Some (r, s, _) => lib_verify_rs dg r s Q
  | None => None
  end.
Proof. reflexivity. Qed.

Lemma obj_with_txid_rs o dg : so_r (obj_with_txid o dg) = so_r o /\ so_s (obj_with_txid o dg) = so_s o.
Proof. destruct dg; split; reflexivity. Qed.

Lemma obj_set_key_rs o a : so_r (fst (obj_set_key o a)) = so_r o /\ so_s (fst (obj_set_key o a)) = so_s o.
Proof.
  unfold obj_set_key. destruct (lib_key_arg a) as [Q|]; [|split; reflexivity].
  destruct (lib_on_curve Q); split; reflexivity.
Qed.

(* no call changes the signature value the object holds *)
Lemma obj_verify_rs o st : so_r (fst (obj_verify o st)) = so_r o /\ so_s (fst (obj_verify o st)) = so_s o.
Proof.
  destruct st as [dg [a|]]; unfold obj_verify.
  - destruct (built_by_caller a && match lib_key_arg a with None => true | Some _ => false end); [split; reflexivity|].
    destruct (obj_set_key (obj_with_txid o dg) a) as [o2 ok] eqn:E. cbn [fst].
    pose proof (obj_set_key_rs (obj_with_txid o dg) a) as H. rewrite E in H. cbn [fst] in H.
    destruct (obj_with_txid_rs o dg) as [A B]. destruct H as [H1 H2]. split; congruence.
  - cbn [fst]. apply obj_with_txid_rs.
Qed.

(* THE step lemma: when both arguments are given, the answer is the stateless function of (r, s, digest, key) —
   whatever digest and key the object remembered from earlier calls *)
Lemma obj_verify_explicit o dg a :
  snd (obj_verify o (Some dg, Some a)) = lib_verify_step (so_r o) (so_s o) dg a.
Proof.
  unfold obj_verify, lib_verify_step, obj_set_key.
  destruct (lib_key_arg a) as [Q|] eqn:K.
  - rewrite andb_false_r. cbn [obj_with_txid so_r so_s so_txid so_xy so_haskey].
    destruct (lib_on_curve Q) eqn:C; cbn [snd].
    + unfold obj_verdict. cbn [so_r so_s so_txid so_xy so_haskey]. reflexivity.
    + unfold lib_verify_rs. rewrite C, andb_false_r. reflexivity.
  - rewrite andb_true_r. destruct (built_by_caller a); reflexivity.
Qed.

Lemma verify_session_explicit o steps : forallb explicit_step steps = true ->
  run_session obj_verify o steps = map (stateless_step (so_r o) (so_s o)) steps.
Proof.
  intros H.
  apply (run_session_inv obj_verify (stateless_step (so_r o) (so_s o))
           (fun o' => so_r o' = so_r o /\ so_s o' = so_s o) explicit_step); [|split; reflexivity|exact H].
  intros o' st [Hr Hs] Hst. destruct (obj_verify_rs o' st) as [A B]. split; [|split; congruence].
  destruct st as [[dg|] [a|]]; try discriminate. rewrite obj_verify_explicit, Hr, Hs. reflexivity.
Qed.

(* the values an object holds *)
Definition src_values (src : sig_src) : option (Z * Z) :=
  match lib_new_obj src with Some o => Some (so_r o, so_s o) | None => None end.

(* whatever the object was built from and whatever it remembered at construction: a session of explicit steps is
   the map of the stateless verifier over the steps *)
Lemma lib_verify_session_explicit src steps : forallb explicit_step steps = true ->
  lib_verify_session src steps =
  match src_values src with
  | Some (r, s) => Some (map (stateless_step r s) steps)
  | None => None
  end.
Proof.
  intros H. unfold lib_verify_session, src_values. destruct (lib_new_obj src) as [o|]; [|reflexivity].
  rewrite (verify_session_explicit o steps H). reflexivity.
Qed.

Lemma new_obj_values r s dg key o : new_obj r s dg key = Some o -> so_r o = r /\ so_s o = s /\ in_range r && in_range s = true.
Proof.
  unfold new_obj. destruct (in_range r && in_range s); [|discriminate].
  destruct key as [a|].
  - pose proof (obj_set_key_rs (mk_sig_obj r s dg None false) a) as H.
    destruct (obj_set_key (mk_sig_obj r s dg None false) a) as [o2 ok]. cbn [fst so_r so_s] in H.
    destruct ok; [|discriminate]. intros E. injection E as <-. tauto.
  - intros E. injection E as <-. cbn. tauto.
Qed.

(* an object parsed from bytes, explicit steps with the key in SEC form — a Key / HDKey object built from the
   bytes, the bytes themselves, or their hex text (fix C13-3): each verdict is keys.verify on the three byte
   strings — lib_verify_key *)
Definition sec_step (st : verify_step) : bool :=
  match st with
  | (Some _, Some (KObj _)) => true
  | (Some _, Some (KBytes _)) => true
  | (Some _, Some (KText _)) => true
  | _ => false
  end.

Definition sec_step_args (st : verify_step) : bytes * bytes :=
  match st with
  | (Some dg, Some (KObj pk)) => (dg, pk)
  | (Some dg, Some (KBytes pk)) => (dg, pk)
  | (Some dg, Some (KText pk)) => (dg, pk)
  | _ => ([], [])
  end.

Lemma sec_step_explicit steps : forallb sec_step steps = true -> forallb explicit_step steps = true.
Proof.
  induction steps as [|st rest IH]; [reflexivity|]. cbn [forallb]. intros H.
  apply andb_true_iff in H. destruct H as [A B]. rewrite (IH B), andb_true_r.
  destruct st as [[dg|] [[pk|pk|d|pk|Q]|]]; try discriminate; reflexivity.
Qed.

Lemma parsed_session_is_lib_verify_key sig key o steps :
  lib_new_obj (SrcBytes sig key) = Some o -> forallb sec_step steps = true ->
  lib_verify_session (SrcBytes sig key) steps =
  Some (map (fun st => lib_verify_key (fst (sec_step_args st)) sig (snd (sec_step_args st))) steps).
Proof.
  intros Ho Hs. rewrite (lib_verify_session_explicit _ _ (sec_step_explicit _ Hs)).
  unfold src_values. rewrite Ho. f_equal.
  cbn [lib_new_obj] in Ho. destruct (lib_parse sig) as [[[r s] ht]|] eqn:P; [|discriminate].
  destruct (new_obj_values _ _ _ _ _ Ho) as (-> & -> & _).
  apply map_ext_in. intros st Hin.
  assert (sec_step st = true) as S by (rewrite forallb_forall in Hs; exact (Hs st Hin)).
  destruct st as [[dg|] [[pk|pk|d|pk|Q]|]]; try discriminate;
    cbn [stateless_step sec_step_args fst snd]; unfold lib_verify_step, lib_verify_key, lib_key_arg;
    (destruct (lib_pub_point pk) as [Q|]; [|reflexivity]); rewrite lib_verify_is_rs, P; reflexivity.
Qed.

(* ... and therefore standard ECDSA at EVERY step: the verifier on a reused object is exact *)
Lemma parsed_session_exact sig key o steps :
  lib_new_obj (SrcBytes sig key) = Some o -> der64 sig = false -> lax_der sig = false ->
  forallb sec_step steps = true -> forallb (fun st => negb (length (fst (sec_step_args st)) =? 0)%nat) steps = true ->
  lib_verify_session (SrcBytes sig key) steps =
  Some (map (fun st => spec_verify_key (lib_z (fst (sec_step_args st))) sig (snd (sec_step_args st))) steps).
Proof.
  intros Ho H64 Hlax Hs Hd. rewrite (parsed_session_is_lib_verify_key _ _ _ _ Ho Hs). f_equal.
  apply map_ext_in. intros st Hin. rewrite forallb_forall in Hd. specialize (Hd st Hin).
  apply lib_verify_key_exact; [|assumption|assumption].
  intros E. rewrite E in Hd. discriminate.
Qed.

(* an object made by sign(): explicit steps are the stateless verifier on the values lib_sign returned *)
Lemma signed_session_explicit q r s enc steps : lib_sign_req q = Some (r, s, enc) ->
  forallb explicit_step steps = true ->
  lib_verify_session (SrcSign q) steps = Some (map (stateless_step r s) steps).
Proof.
  intros Hq H. rewrite (lib_verify_session_explicit _ _ H). unfold src_values. cbn [lib_new_obj]. rewrite Hq. reflexivity.
Qed.

(* omitted arguments: the object answers from what it remembered — after a call that returned a verdict, the call
   without arguments returns the same verdict and changes nothing *)
Lemma obj_verify_replay o dg a o' b :
  obj_verify o (Some dg, Some a) = (o', Some b) -> obj_verify o' (None, None) = (o', Some b).
Proof.
  unfold obj_verify.
  destruct (built_by_caller a && match lib_key_arg a with None => true | Some _ => false end); [discriminate|].
  destruct (obj_set_key (obj_with_txid o (Some dg)) a) as [o2 ok]. destruct ok; [|discriminate].
  intros E. injection E as <- E. cbn [obj_with_txid]. rewrite E. reflexivity.
Qed.

(* an omitted key after a call whose key was accepted: the verdict is the stateless one for the remembered key and
   the new digest *)
Lemma obj_verify_keeps_key o dg a o' b dg' :
  obj_verify o (Some dg, Some a) = (o', Some b) ->
  snd (obj_verify o' (Some dg', None)) = lib_verify_step (so_r o) (so_s o) dg' a.
Proof.
  unfold obj_verify, obj_set_key, lib_verify_step.
  destruct (lib_key_arg a) as [Q|].
  - rewrite andb_false_r. cbn [obj_with_txid so_r so_s so_txid so_xy so_haskey].
    destruct (lib_on_curve Q); [|discriminate]. intros E. injection E as <- _.
    cbn [snd obj_with_txid so_r so_s so_txid so_xy so_haskey]. unfold obj_verdict.
    cbn [so_r so_s so_txid so_xy so_haskey]. reflexivity.
  - rewrite andb_true_r. destruct (built_by_caller a); discriminate.
Qed.

(* ---------------------------------------------------------------- witnesses (vm_compute, once per build) *)
From Verif Require Import Proofs.EcdsaWitness.

(* W8: ONE object parsed from the W3 signature, verified four times: own key, the negated key (same x, other y),
   own key again, no arguments.  Scalars are tiny (u1 = 5, u2 = 1), keys are uncompressed (no square root). *)
Definition w8_pk : bytes := ser_point_uncompressed (Some w3_Q).
Definition w8_pk_neg : bytes := ser_point_uncompressed (Some (fst w3_Q, secp_p - snd w3_Q)).
Definition w8_steps : list verify_step :=
  [(Some w3_dg, Some (KBytes w8_pk)); (Some w3_dg, Some (KObj w8_pk_neg)); (Some w3_dg, Some (KText w8_pk))].

Lemma w8_session :
  lib_verify_session (SrcBytes w3_strict None) (w8_steps ++ [(None, None)]) =
    Some [Some true; Some false; Some true; Some true] /\
  lib_verify_session (SrcBytes w3_strict (Some (KBytes w8_pk_neg))) w8_steps = Some [Some true; Some false; Some true] /\
  forallb sec_step w8_steps = true /\
  forallb (fun st => negb (length (fst (sec_step_args st)) =? 0)%nat) w8_steps = true /\
  map (fun st => spec_verify_key (lib_z (fst (sec_step_args st))) w3_strict (snd (sec_step_args st))) w8_steps =
    [Some true; Some false; Some true].
Proof. conj_vm. Qed.

(* W9: fixed finding text_key_rejected — before fix C13-3 the public key handed over as hex text was refused
   (None = exception) although the triple is valid; the repaired code judges it like the same key as bytes *)
Lemma w9_text_key :
  lib_verify_step_prefix w3_r w3_r w3_dg (KText w8_pk) = None /\
  lib_verify_step w3_r w3_r w3_dg (KText w8_pk) = Some true /\
  lib_verify_step w3_r w3_r w3_dg (KBytes w8_pk) = Some true /\
  spec_verify_key (lib_z w3_dg) w3_strict w8_pk = Some true.
Proof. conj_vm. Qed.

(* a key given as text is read exactly as the same key given as bytes, by every entry point *)
Lemma text_key_is_bytes_key r s dg pk : lib_verify_step r s dg (KText pk) = lib_verify_step r s dg (KBytes pk).
Proof. reflexivity. Qed.

(* W10: a signing session with explicit nonces: q, another key with the same digest, q again *)
Definition w10_q : sign_req := mk_sign_req w1_d w1_msg (Some w1_k) 1.
Definition w10_q' : sign_req := mk_sign_req (w1_d + (2 ^ 61 - 1)) w1_msg (Some w1_k) 1.
Lemma w10_sign_session :
  exists a a', a <> a' /\ a <> None /\ lib_sign_session [w10_q; w10_q'; w10_q] = [a; a'; a].
Proof.
  eexists. eexists. split; [|split]; [| |vm_compute; reflexivity]; vm_compute; discriminate.
Qed.
