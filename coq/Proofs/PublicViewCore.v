(* Proofs/PublicViewCore.v — generic facts about the little language of Model/PublicView.v:
   the three static checks (flows_ok, closed, keeps_clean) are sound for exec. *)
From Coq Require Import List String Bool.
From Verif Require Import Model.PublicView.
Import ListNotations.
Open Scope string_scope.

Lemma upd_same f a v : upd f a v a = v.
Proof. unfold upd. rewrite String.eqb_refl. reflexivity. Qed.

Lemma upd_other f a v b : a <> b -> upd f a v b = f b.
Proof. intro H. unfold upd. destruct (String.eqb a b) eqn:E; [apply String.eqb_eq in E; contradiction | reflexivity]. Qed.

Lemma upd_cases f a v b : (a = b /\ upd f a v b = v) \/ (a <> b /\ upd f a v b = f b).
Proof.
  destruct (String.eqb a b) eqn:E.
  - apply String.eqb_eq in E. subst. left. split; [reflexivity | apply upd_same].
  - right. assert (a <> b) by (intro; subst; rewrite String.eqb_refl in E; discriminate).
    split; [assumption | apply upd_other; assumption].
Qed.

Lemma mem_In a l : mem a l = true <-> In a l.
Proof.
  induction l as [|b r IH]; simpl.
  - split; [discriminate | tauto].
  - rewrite orb_true_iff, IH, String.eqb_eq. tauto.
Qed.

Lemma forallb_In {A} (P : A -> bool) l x : forallb P l = true -> In x l -> P x = true.
Proof. intros H Hin. rewrite forallb_forall in H. apply H. assumption. Qed.

(* ---------------------------------------------------------------- tables built by [map (fun a => (a, f a))] *)
Lemma assoc_map {A} (f : string -> A) l a :
  assoc (map (fun x => (x, f x)) l) a = if mem a l then Some (f a) else None.
Proof.
  induction l as [|b r IH]; simpl; [reflexivity|].
  destruct (String.eqb b a) eqn:E; simpl.
  - apply String.eqb_eq in E. subst. reflexivity.
  - exact IH.
Qed.

(* ---------------------------------------------------------------- states built by upds *)
Lemma upds_sec f l a : upds f l a = VSec -> f a = VSec \/ In (a, VSec) l.
Proof.
  revert f. induction l as [|[b v] r IH]; simpl; intros f H; [left; exact H|].
  apply IH in H. destruct H as [H|H]; [|right; right; exact H].
  destruct (upd_cases f b v a) as [[E1 E2]|[E1 E2]]; rewrite E2 in H.
  - subst. right. left. reflexivity.
  - left. exact H.
Qed.

Lemma upds_blank f l a :
  (forall v, In (a, v) l -> blank v = true) -> blank (f a) = true -> blank (upds f l a) = true.
Proof.
  revert f. induction l as [|[b v] r IH]; simpl; intros f Hl Hf; [exact Hf|].
  apply IH.
  - intros w Hw. apply Hl. right. exact Hw.
  - destruct (upd_cases f b v a) as [[E1 E2]|[E1 E2]]; rewrite E2; [|exact Hf].
    subst. apply Hl. left. reflexivity.
Qed.

(* ---------------------------------------------------------------- expressions *)
Section Tbl.
Variable tbl : list (string * fclass).

Lemma any_sec_false_public k srcs :
  Sound tbl k -> forallb (is_public tbl) srcs = true -> any_sec k srcs = false.
Proof.
  intros HS HP. unfold any_sec. apply not_true_is_false. intro H.
  apply existsb_exists in H. destruct H as [a [Hin Ha]].
  assert (kf k a = VSec) by (destruct (kf k a); simpl in Ha; try discriminate; reflexivity).
  apply HS in H. rewrite (forallb_In _ _ _ HP Hin) in H. discriminate.
Qed.

Lemma eval_public k e : Sound tbl k -> expr_public tbl e = true -> eval e k <> VSec.
Proof.
  intros HS HE. destruct e; simpl in *; try discriminate.
  rewrite (any_sec_false_public k srcs HS HE). discriminate.
Qed.

Lemma any_sec_false_closed k srcs :
  TClean tbl k -> forallb (fun a => negb (is_handle tbl a)) srcs = true -> any_sec k srcs = false.
Proof.
  intros HT HP. unfold any_sec. apply not_true_is_false. intro H.
  apply existsb_exists in H. destruct H as [a [Hin Ha]].
  assert (E : kf k a = VSec) by (destruct (kf k a); simpl in Ha; try discriminate; reflexivity).
  pose proof (forallb_In _ _ _ HP Hin) as Hh. simpl in Hh. apply negb_true_iff in Hh.
  exact (HT a Hh E).
Qed.

Lemma eval_closed k e : TClean tbl k -> expr_closed tbl e = true -> eval e k <> VSec.
Proof.
  intros HT HE. destruct e; simpl in *; try discriminate.
  rewrite (any_sec_false_closed k srcs HT HE). discriminate.
Qed.

(* ---------------------------------------------------------------- single assignments *)
Lemma sound_setf k t v :
  Sound tbl k -> (v = VSec -> is_public tbl t = false) -> Sound tbl (setf k t v).
Proof.
  intros HS Hv a Ha. simpl in Ha.
  destruct (upd_cases (kf k) t v a) as [[E1 E2]|[E1 E2]]; rewrite E2 in Ha.
  - subst. apply Hv. reflexivity.
  - apply HS. exact Ha.
Qed.

Lemma tclean_setf k t v : TClean tbl k -> v <> VSec -> TClean tbl (setf k t v).
Proof.
  intros HT Hv a Ha. simpl.
  destruct (upd_cases (kf k) t v a) as [[E1 E2]|[E1 E2]]; rewrite E2; [exact Hv | apply HT; exact Ha].
Qed.

Lemma clean_setf k t v :
  Clean tbl k -> (is_private tbl t = true -> blank v = true) -> Clean tbl (setf k t v).
Proof.
  intros HC Hv a Ha. simpl.
  destruct (upd_cases (kf k) t v a) as [[E1 E2]|[E1 E2]]; rewrite E2.
  - subst. apply Hv. exact Ha.
  - apply HC. exact Ha.
Qed.

(* ---------------------------------------------------------------- programs *)
Lemma exec_sound p : forall k, flows_ok tbl p = true -> Sound tbl k -> Sound tbl (fst (exec p k)).
Proof.
  induction p as [| |t e r IH|b r IH|b r IH|c th IHt el IHe r IHr]; intros k HF HS; simpl in *.
  - exact HS.
  - exact HS.
  - apply andb_true_iff in HF. destruct HF as [H1 H2]. apply IH; [exact H2|].
    apply sound_setf; [exact HS|]. intro Hv.
    apply orb_true_iff in H1. destruct H1 as [H1|H1].
    + exfalso. exact (eval_public k e HS H1 Hv).
    + apply negb_true_iff in H1. exact H1.
  - apply IH; [exact HF|]. intros a Ha. simpl in Ha. apply (sound_setf k "compressed" VPub HS); [discriminate|exact Ha].
  - apply IH; [exact HF|]. intros a Ha. simpl in Ha. apply (sound_setf k "is_private" VPub HS); [discriminate|exact Ha].
  - apply andb_true_iff in HF. destruct HF as [HF H3]. apply andb_true_iff in HF. destruct HF as [H1 H2].
    assert (HB : Sound tbl (fst (exec (if evalc c k then th else el) k))).
    { destruct (evalc c k); [apply IHt | apply IHe]; assumption. }
    destruct (exec (if evalc c k then th else el) k) as [k' ok]. simpl in HB.
    destruct ok; [apply IHr; assumption | exact HB].
Qed.

Lemma exec_tclean p : forall k, closed tbl p = true -> TClean tbl k -> TClean tbl (fst (exec p k)).
Proof.
  induction p as [| |t e r IH|b r IH|b r IH|c th IHt el IHe r IHr]; intros k HF HS; simpl in *.
  - exact HS.
  - exact HS.
  - apply andb_true_iff in HF. destruct HF as [H1 H2]. apply IH; [exact H2|].
    apply tclean_setf; [exact HS|]. apply eval_closed; assumption.
  - apply IH; [exact HF|]. intros a Ha. apply (tclean_setf k "compressed" VPub HS); [discriminate|exact Ha].
  - apply IH; [exact HF|]. intros a Ha. apply (tclean_setf k "is_private" VPub HS); [discriminate|exact Ha].
  - apply andb_true_iff in HF. destruct HF as [HF H3]. apply andb_true_iff in HF. destruct HF as [H1 H2].
    assert (HB : TClean tbl (fst (exec (if evalc c k then th else el) k))).
    { destruct (evalc c k); [apply IHt | apply IHe]; assumption. }
    destruct (exec (if evalc c k then th else el) k) as [k' ok]. simpl in HB.
    destruct ok; [apply IHr; assumption | exact HB].
Qed.

Lemma exec_clean p : forall k, keeps_clean tbl p = true -> Clean tbl k -> Clean tbl (fst (exec p k)).
Proof.
  induction p as [| |t e r IH|b r IH|b r IH|c th IHt el IHe r IHr]; intros k HF HS; simpl in *.
  - exact HS.
  - exact HS.
  - apply andb_true_iff in HF. destruct HF as [H1 H2]. apply IH; [exact H2|].
    apply clean_setf; [exact HS|]. intro Hp. rewrite Hp in H1. simpl in H1.
    destruct e; simpl in H1; try discriminate. reflexivity.
  - apply andb_true_iff in HF. destruct HF as [H1 H2]. apply IH; [exact H2|].
    intros a Ha. apply (clean_setf k "compressed" VPub HS); [|exact Ha].
    intro Hp. rewrite Hp in H1. discriminate.
  - apply andb_true_iff in HF. destruct HF as [H1 H2]. apply IH; [exact H2|].
    intros a Ha. apply (clean_setf k "is_private" VPub HS); [|exact Ha].
    intro Hp. rewrite Hp in H1. discriminate.
  - apply andb_true_iff in HF. destruct HF as [HF H3]. apply andb_true_iff in HF. destruct HF as [H1 H2].
    assert (HB : Clean tbl (fst (exec (if evalc c k then th else el) k))).
    { destruct (evalc c k) eqn:EC.
      - apply orb_true_iff in H1. destruct H1 as [H1|H1]; [|apply IHt; assumption].
        exfalso. destruct c; try discriminate. simpl in EC.
        pose proof (HS a H1) as Hb. unfold blank in Hb. rewrite EC in Hb. discriminate.
      - apply orb_true_iff in H2. destruct H2 as [H2|H2]; [|apply IHe; assumption].
        exfalso. destruct c; try discriminate. simpl in EC.
        pose proof (HS a H2) as Hb. rewrite EC in Hb. discriminate. }
    destruct (exec (if evalc c k then th else el) k) as [k' ok]. simpl in HB.
    destruct ok; [apply IHr; assumption | exact HB].
Qed.

(* in a state without secrets an export computed from attributes carries none *)
Lemma exports_closed k (l : list (string * expr)) lab v :
  TClean tbl k -> forallb (fun le => expr_closed tbl (snd le)) l = true ->
  In (lab, v) (map (fun le => (fst le, eval (snd le) k)) l) -> v <> VSec.
Proof.
  intros HT HF Hin. apply in_map_iff in Hin. destruct Hin as [[l0 e] [E Hin]]. simpl in E.
  inversion E; subst. apply eval_closed; [exact HT|]. exact (forallb_In _ _ _ HF Hin).
Qed.

Lemma exports_public k (l : list (string * expr)) lab v :
  Sound tbl k -> forallb (fun le => expr_public tbl (snd le)) l = true ->
  In (lab, v) (map (fun le => (fst le, eval (snd le) k)) l) -> v <> VSec.
Proof.
  intros HT HF Hin. apply in_map_iff in Hin. destruct Hin as [[l0 e] [E Hin]]. simpl in E.
  inversion E; subst. apply eval_public; [exact HT|]. exact (forallb_In _ _ _ HF Hin).
Qed.

End Tbl.
