(* Proofs/EvalStd.v — the standard spend templates as instances of the whole-program theorems:
   P2PKH and P2PK (straight-line, Proofs/EvalRun.v) and a hash-time-locked contract with
   OP_IF / OP_ELSE / OP_CHECKLOCKTIMEVERIFY (structured, Proofs/EvalIf.v).  Signatures, keys, hashes, the
   preimage and the witness items are arbitrary good items; hash functions and the signature check are the
   shared oracles. *)
From Coq Require Import ZArith List Bool Lia.
From Coq.Strings Require Import Byte.
From Verif Require Import Lib.Bytes Gen.GenConsts Model.Wire Model.EvalLib Model.EvalCore
  Proofs.ScriptNum Proofs.EvalNum Proofs.EvalOps Proofs.EvalRun Proofs.EvalIf.
Import ListNotations.
Open Scope Z_scope.

(* scriptSig ++ scriptPubKey, as Script.evaluate receives the commands *)
Definition p2pkh_spend (sig pk h : bytes) : list scmd :=
  [CPush sig; CPush pk; COp 118; COp 169; CPush h; COp 136; COp 172].   (* DUP HASH160 <h> EQUALVERIFY CHECKSIG *)

Definition p2pk_spend (sig pk : bytes) : list scmd := [CPush sig; CPush pk; COp 172].

(* IF SHA256 <h> EQUALVERIFY <pkA> ELSE <lock> CHECKLOCKTIMEVERIFY DROP <pkB> ENDIF CHECKSIG *)
Definition htlc_true_branch (h pkA : bytes) : list scmd := [COp 168; CPush h; COp 136; CPush pkA].
Definition htlc_false_branch (lock pkB : bytes) : list scmd := [CPush lock; COp 177; COp 117; CPush pkB].
Definition htlc_script (h pkA lock pkB : bytes) : list scmd :=
  COp 99 :: htlc_true_branch h pkA ++ COp 103 :: htlc_false_branch lock pkB ++ COp 104 :: [COp 172].

(* any witness (bottom item first, the branch selector last) followed by the contract *)
Definition htlc_spend (wit : list bytes) (h pkA lock pkB : bytes) : list scmd :=
  map CPush wit ++ htlc_script h pkA lock pkB.

(* a sufficient shape for [goodb]: more than 5 bytes, first byte not zero (DER signatures start with 30,
   public keys with 02 / 03 / 04) *)
Lemma nonzero_head_good b r : bz b <> 0 -> (5 <= length r)%nat -> goodb (b :: r) = true.
Proof.
  intros Hb Hl. unfold goodb. apply orb_true_iff. right. apply andb_true_iff. split.
  - apply Nat.ltb_lt. cbn [length]. lia.
  - rewrite cast_cons by (destruct r; [cbn in Hl; lia|discriminate]).
    apply Z.eqb_neq in Hb. rewrite Hb. reflexivity.
Qed.

Lemma ok_118 : ok_op 118 = true. Proof. vm_compute. reflexivity. Qed.
Lemma ok_169 : ok_op 169 = true. Proof. vm_compute. reflexivity. Qed.
Lemma ok_136 : ok_op 136 = true. Proof. vm_compute. reflexivity. Qed.
Lemma ok_172 : ok_op 172 = true. Proof. vm_compute. reflexivity. Qed.
Lemma ok_168 : ok_op 168 = true. Proof. vm_compute. reflexivity. Qed.
Lemma ok_177 : ok_op 177 = true. Proof. vm_compute. reflexivity. Qed.
Lemma ok_117 : ok_op 117 = true. Proof. vm_compute. reflexivity. Qed.

Lemma p2pkh_straight sig pk h : goodb sig = true -> goodb pk = true -> goodb h = true ->
  straight (p2pkh_spend sig pk h) = true.
Proof.
  intros H1 H2 H3. unfold p2pkh_spend, straight. cbn [forallb straight_cmd].
  rewrite H1, H2, H3, ok_118, ok_169, ok_136, ok_172. reflexivity.
Qed.

Lemma p2pk_straight sig pk : goodb sig = true -> goodb pk = true -> straight (p2pk_spend sig pk) = true.
Proof.
  intros H1 H2. unfold p2pk_spend, straight. cbn [forallb straight_cmd]. rewrite H1, H2, ok_172. reflexivity.
Qed.

Lemma htlc_true_straight h pkA : goodb h = true -> goodb pkA = true ->
  straight (htlc_true_branch h pkA) = true.
Proof.
  intros H1 H2. unfold htlc_true_branch, straight. cbn [forallb straight_cmd].
  rewrite H1, H2, ok_168, ok_136. reflexivity.
Qed.

Lemma htlc_false_straight lock pkB : goodb lock = true -> goodb pkB = true ->
  straight (htlc_false_branch lock pkB) = true.
Proof.
  intros H1 H2. unfold htlc_false_branch, straight. cbn [forallb straight_cmd].
  rewrite H1, H2, ok_177, ok_117. reflexivity.
Qed.

Lemma pushes_structured wit : forallb goodb wit = true -> structured (map CPush wit).
Proof.
  induction wit as [|w wit IH]; intros H; [apply st_nil|].
  cbn [forallb] in H. apply andb_true_iff in H. destruct H as [Hw H].
  cbn [map]. apply st_cmd; [exact Hw|apply IH; exact H].
Qed.

Lemma htlc_script_structured h pkA lock pkB :
  goodb h = true -> goodb pkA = true -> goodb lock = true -> goodb pkB = true ->
  structured (htlc_script h pkA lock pkB).
Proof.
  intros H1 H2 H3 H4. unfold htlc_script. apply st_ifelse.
  - reflexivity.
  - apply straight_structured, htlc_true_straight; assumption.
  - apply straight_structured, htlc_false_straight; assumption.
  - apply st_cmd; [exact ok_172|apply st_nil].
Qed.

Lemma htlc_structured wit h pkA lock pkB :
  forallb goodb wit = true -> goodb h = true -> goodb pkA = true -> goodb lock = true -> goodb pkB = true ->
  structured (htlc_spend wit h pkA lock pkB).
Proof.
  intros. unfold htlc_spend. apply structured_app; [apply pushes_structured|apply htlc_script_structured]; assumption.
Qed.

Section Std.
  Variable h_ripemd160 h_sha1 h_sha256 : bytes -> bytes.
  Variable sigcheck : bytes -> bytes -> sigres.
  Variable e : env.
  Variable fl : flags.
  Hypothesis h_ripemd160_good : forall x, good (h_ripemd160 x).
  Hypothesis h_sha1_good : forall x, good (h_sha1 x).
  Hypothesis h_sha256_good : forall x, good (h_sha256 x).

  Notation lrn := (lib_run h_ripemd160 h_sha1 h_sha256 sigcheck e).
  Notation crn := (core_run h_ripemd160 h_sha1 h_sha256 sigcheck e fl).
  Notation lev := (lib_eval h_ripemd160 h_sha1 h_sha256 sigcheck e).
  Notation cev := (core_eval h_ripemd160 h_sha1 h_sha256 sigcheck e fl).

  Lemma p2pkh_agrees sig pk h : goodb sig = true -> goodb pk = true -> goodb h = true ->
    agree (lev (p2pkh_spend sig pk h)) (cev (p2pkh_spend sig pk h)).
  Proof. intros. apply agree_straightline_eval; auto. apply p2pkh_straight; assumption. Qed.

  Lemma p2pk_agrees sig pk : goodb sig = true -> goodb pk = true ->
    agree (lev (p2pk_spend sig pk)) (cev (p2pk_spend sig pk)).
  Proof. intros. apply agree_straightline_eval; auto. apply p2pk_straight; assumption. Qed.

  (* a straight-line run ends Valid or Invalid *)
  Lemma straight_no_crash cmds fu s : (length cmds < fu)%nat -> straight cmds = true -> Forall good s ->
    r_verdict (lrn fu cmds s) <> CrashIndex.
  Proof.
    intros Hfu Hs G C.
    pose proof (agree_straightline_gen h_ripemd160 h_sha1 h_sha256 sigcheck e fl
                  h_ripemd160_good h_sha1_good h_sha256_good cmds fu s Hfu Hs G) as A.
    unfold agree in A. rewrite C in A. exact A.
  Qed.

  Lemma lib_run_pushes wit : forall fu rest s,
    lrn (length wit + fu) (map CPush wit ++ rest) s = lrn fu rest (rev wit ++ s).
  Proof.
    induction wit as [|w wit IH]; intros fu rest s; [reflexivity|].
    cbn [length map Nat.add]. rewrite <- app_comm_cons, lib_run_push, IH.
    cbn [rev]. rewrite <- app_assoc. reflexivity.
  Qed.

  (* with a non-empty witness the OP_IF of the contract finds its condition item *)
  Lemma htlc_no_crash wit h pkA lock pkB :
    wit <> [] -> forallb goodb wit = true ->
    goodb h = true -> goodb pkA = true -> goodb lock = true -> goodb pkB = true ->
    r_verdict (lev (htlc_spend wit h pkA lock pkB)) <> CrashIndex.
  Proof.
    intros Hne Hw H1 H2 H3 H4. unfold lib_eval, htlc_spend.
    rewrite app_length, map_length.
    replace (S (length wit + length (htlc_script h pkA lock pkB)))
      with (length wit + S (length (htlc_script h pkA lock pkB)))%nat by lia.
    rewrite lib_run_pushes. rewrite app_nil_r.
    assert (G : Forall good (rev wit)).
    { apply Forall_rev. apply Forall_forall. intros x I. apply goodb_good.
      rewrite forallb_forall in Hw. apply Hw. exact I. }
    destruct (rev wit) as [|x r] eqn:E.
    { exfalso. apply Hne. apply (f_equal (@rev _)) in E. rewrite rev_involutive in E. exact E. }
    unfold htlc_script.
    rewrite lib_if_else; [|reflexivity|apply straight_structured, htlc_true_straight; assumption
                           |apply straight_structured, htlc_false_straight; assumption].
    inversion G; subst.
    apply straight_no_crash; [|
      |assumption].
    - rewrite app_length. destruct (takes_true 99 x); cbn; lia.
    - unfold straight. rewrite forallb_app. apply andb_true_iff. split.
      + destruct (takes_true 99 x); [apply htlc_true_straight|apply htlc_false_straight]; assumption.
      + cbn [forallb straight_cmd]. rewrite ok_172. reflexivity.
  Qed.

  Lemma htlc_agrees wit h pkA lock pkB :
    wit <> [] -> forallb goodb wit = true ->
    goodb h = true -> goodb pkA = true -> goodb lock = true -> goodb pkB = true ->
    agree (lev (htlc_spend wit h pkA lock pkB)) (cev (htlc_spend wit h pkA lock pkB)).
  Proof.
    intros. apply agree_if_eval; auto.
    - apply htlc_structured; assumption.
    - apply htlc_no_crash; assumption.
  Qed.

  Lemma standard_spends_agree_all :
    (forall sig pk h, goodb sig = true -> goodb pk = true -> goodb h = true ->
       agree (lev (p2pkh_spend sig pk h)) (cev (p2pkh_spend sig pk h))) /\
    (forall sig pk, goodb sig = true -> goodb pk = true ->
       agree (lev (p2pk_spend sig pk)) (cev (p2pk_spend sig pk))) /\
    (forall wit h pkA lock pkB,
       wit <> [] -> forallb goodb wit = true ->
       goodb h = true -> goodb pkA = true -> goodb lock = true -> goodb pkB = true ->
       agree (lev (htlc_spend wit h pkA lock pkB)) (cev (htlc_spend wit h pkA lock pkB))).
  Proof. split; [exact p2pkh_agrees|split; [exact p2pk_agrees|exact htlc_agrees]]. Qed.

End Std.

(* oracle instances satisfying the hypotheses of the agreement theorems (every hash output good), with a
   signature check that accepts: used by the non-vacuity witnesses *)
Definition consth (_ : bytes) : bytes := [x01; x02; x03; x04; x05; x06].
Definition yessig (_ _ : bytes) : sigres := SigValid.
Lemma consth_good : forall x, good (consth x).
Proof. intros x. apply goodb_good. vm_compute. reflexivity. Qed.
Definition env1 : env := mkEnv (Some [x51]) (Some 4294967294) (Some 100) (Some 2).
Definition lib_eval1 := lib_eval consth consth consth yessig env1.
Definition core_eval1 := core_eval consth consth consth yessig env1 consensus_flags.
