(* Proofs/KeyPointWitness.v — concrete witnesses (evaluated once by vm_compute) used by Properties/C04.v. *)
From Coq Require Import ZArith List Bool.
From Coq.Strings Require Import Byte.
From Verif Require Import Lib.Bytes Crypto.Secp256k1 Gen.GenConsts Gen.GenKeyConsts Gen.GenNetworks
  Model.AddrEnc Model.KeyPoint Proofs.KeyPoint.
Import ListNotations.
Open Scope Z_scope.

Lemma generator_on_curve_w : on_curve secp_G = true.
Proof. vm_compute. reflexivity. Qed.

Lemma decompress_generator_w : lib_decompress_y (Z.odd secp_Gy) secp_Gx = secp_Gy.
Proof. vm_compute. reflexivity. Qed.

Lemma import_range_unfixed_w :
  exists k, lib_key_import_unfixed (KHexStr (repeat x00 32)) true true = ImpOk k /\ k_private k = true /\ k_secret k = 0.
Proof. eexists. split; [vm_compute; reflexivity | split; reflexivity]. Qed.

Lemma offcurve_unfixed_w :
  (exists k, lib_key_import_unfixed (KHexStr (x02 :: be_bytes 32 5)) true true = ImpOk k) /\
  lib_key_import (KHexStr (x02 :: be_bytes 32 5)) true true = ImpReject.
Proof. split; [eexists; vm_compute; reflexivity | vm_compute; reflexivity]. Qed.

Lemma nonstrict_w : exists k, lib_key_import (KHexStr (x02 :: be_bytes 32 5)) true false = ImpOk k.
Proof. eexists. vm_compute. reflexivity. Qed.

Lemma wide_w :
  exists k, lib_key_import (KHexStr (repeat xff 64)) true true = ImpOk k /\ k_private k = true /\
            secp256k1_n <= k_secret k.
Proof.
  destruct (wide_accepted_pf (repeat xff 64) true) as [k [H1 [H2 H3]]];
    [reflexivity | vm_compute; discriminate |].
  exists k. split; [exact H1 | split; [exact H2 |]]. rewrite H3. vm_compute. discriminate.
Qed.

Lemma hash_hexlike_w :
  lib_address nw_bitcoin (Some StP2pkh) (Some EncBase58) 0 [] (repeat x61 20)
  <> Some (spec_b58check (nw_prefix_address nw_bitcoin ++ repeat x61 20)).
Proof. vm_compute. discriminate. Qed.

(* Key(1).address(script_type='p2tr', encoding='bech32'): bech32m of SHA256(public key), not of the BIP341 output key *)
Definition G_compressed : bytes := ser_point_compressed secp_G.
Lemma p2tr_of_key_w :
  exists a, spec_address nw_bitcoin StP2tr EncBech32 G_compressed = Some a /\
            lib_address nw_bitcoin (Some StP2tr) (Some EncBech32) 0 G_compressed [] <> Some a.
Proof. eexists. split; [vm_compute; reflexivity | vm_compute; discriminate]. Qed.

(* before fixes/C04-4: Key(uncompressed G).address(compressed=True) hashes the 65-byte encoding *)
Definition key_G_uncompressed : key :=
  {| k_private := false; k_secret := 0; k_compressed := false; k_pubc := ser_point_compressed secp_G;
     k_pubu := Some (ser_point_uncompressed secp_G); k_xb := be_bytes 32 secp_Gx; k_yb := Some (be_bytes 32 secp_Gy) |}.
Lemma compressed_arg_unfixed_w :
  lib_key_address_args_gen false key_G_uncompressed (Some true) (Some StP2pkh) (Some EncBase58)
    = Some (Some StP2pkh, EncBase58, ser_point_uncompressed secp_G) /\
  lib_key_address_args_gen true key_G_uncompressed (Some true) (Some StP2pkh) (Some EncBase58)
    = Some (Some StP2pkh, EncBase58, ser_point_compressed secp_G).
Proof. split; vm_compute; reflexivity. Qed.
