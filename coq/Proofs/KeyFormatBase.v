(* Proofs/KeyFormatBase.v — groundwork for C12: list slicing, what is needed of Base58 (from Proofs/Base58.v),
   and the finite facts about the regenerated prefix tables (each closed by vm_compute, so a table edit that
   invalidates one of them stops this file from compiling). *)
From Coq Require Import ZArith List Bool Lia.
From Coq Require String.
From Coq.Strings Require Import Byte.
From Verif Require Import Lib.Bytes Gen.GenConsts Gen.GenNetworks Crypto.Sha256 Model.Base58 Model.KeyFormat
  Proofs.Base58.
Import ListNotations.
Open Scope Z_scope.

(* ------------------------------------------------------------------ lists *)
Lemma firstn_app_exact {A} (a r : list A) n : length a = n -> firstn n (a ++ r) = a.
Proof. intros <-. rewrite firstn_app, Nat.sub_diag, firstn_all. cbn [firstn]. apply app_nil_r. Qed.

Lemma skipn_app_exact {A} (a r : list A) n : length a = n -> skipn n (a ++ r) = r.
Proof. intros <-. rewrite skipn_app, Nat.sub_diag, skipn_all. reflexivity. Qed.

Lemma slice_mid (pre x post : bytes) a b :
  length pre = a -> length x = (b - a)%nat -> slice a b (pre ++ x ++ post) = x.
Proof.
  intros Ha Hx. unfold slice. rewrite (skipn_app_exact pre _ a Ha). apply firstn_app_exact. exact Hx.
Qed.

Lemma lastn_app_exact (a r : bytes) k : length r = k -> lastn k (a ++ r) = r.
Proof.
  intros Hk. unfold lastn. rewrite app_length, Hk.
  replace (length a + k - k)%nat with (length a) by lia. apply skipn_app_exact. reflexivity.
Qed.

Lemma droplast_app_exact (a r : bytes) k : length r = k -> droplast k (a ++ r) = a.
Proof.
  intros Hk. unfold droplast. rewrite app_length, Hk.
  replace (length a + k - k)%nat with (length a) by lia. apply firstn_app_exact. reflexivity.
Qed.

Lemma bytes_eqb_false a b : a <> b -> bytes_eqb a b = false.
Proof.
  intros H. destruct (bytes_eqb a b) eqn:E; [|reflexivity]. apply bytes_eqb_true in E. contradiction.
Qed.

Lemma sha256d_check4 (p : bytes) : b58_checksum_ok p (firstn 4 (sha256d p)) = true.
Proof. unfold b58_checksum_ok. apply bytes_eqb_refl. Qed.

(* ------------------------------------------------------------------ Base58: round trip for both settings of [fold] *)
Lemma b58_rt fold bs : bs <> [] -> lib_b58_dec fold (b58_enc bs) 0 = Some bs.
Proof.
  intros Hne.
  assert (Hf : lib_b58_dec false (b58_enc bs) 0 = Some bs).
  { rewrite lib_b58_dec_spec, b58_dec_enc. unfold pad_left. cbn [Nat.sub repeat app].
    destruct bs; [contradiction | reflexivity]. }
  destruct fold; [|exact Hf].
  unfold lib_b58_dec in *.
  destruct (lib_scan false (b58_enc bs) true 0 0) as [[n z]|] eqn:E; [|discriminate].
  rewrite (lib_scan_fold_mono _ _ _ _ _ E). exact Hf.
Qed.

(* ------------------------------------------------------------------ Base58: length of the text *)
Lemma value_le_bound base ds : 2 <= base -> Forall (fun d => 0 <= d < base) ds ->
  0 <= value_le base ds < base ^ Z.of_nat (length ds).
Proof.
  intros Hb H. induction H as [|d r Hd _ IH]; cbn [value_le length].
  - change (base ^ Z.of_nat 0) with 1. lia.
  - rewrite Nat2Z.inj_succ, Z.pow_succ_r by lia. nia.
Qed.

Lemma digits_be_upper n : 0 <= n -> n < 58 ^ Z.of_nat (length (digits_be 58 n)).
Proof.
  intros Hn. pose proof (digits_be_value 58 n ltac:(lia) Hn) as Hv.
  pose proof (digits_be_range 58 n ltac:(lia) Hn) as Hr.
  apply Forall_rev in Hr. pose proof (value_le_bound 58 _ ltac:(lia) Hr) as Hb.
  rewrite rev_length in Hb. lia.
Qed.

Lemma digits_be_lower n : 0 < n -> 58 ^ (Z.of_nat (length (digits_be 58 n)) - 1) <= n.
Proof.
  intros Hn. pose proof (digits_be_value 58 n ltac:(lia) ltac:(lia)) as Hv.
  pose proof (digits_be_range 58 n ltac:(lia) ltac:(lia)) as Hr.
  pose proof (digits_be_head 58 n ltac:(lia) ltac:(lia)) as Hh.
  destruct (digits_be 58 n) as [|d r].
  - cbn [rev value_le] in Hv. lia.
  - cbn [rev] in Hv. rewrite value_le_app in Hv by lia. cbn [value_le] in Hv.
    inversion Hr as [|? ? Hd Hr']; subst.
    apply Forall_rev in Hr'. pose proof (value_le_bound 58 _ ltac:(lia) Hr') as Hb.
    rewrite rev_length in *. cbn [length]. rewrite Nat2Z.inj_succ.
    replace (Z.succ (Z.of_nat (length r)) - 1) with (Z.of_nat (length r)) by lia.
    assert (0 < 58 ^ Z.of_nat (length r)) by (apply Z.pow_pos_nonneg; lia). nia.
Qed.

Lemma b58_enc_nz b r : b <> x00 -> b58_enc (b :: r) = map b58_char (digits_be 58 (of_be (b :: r))).
Proof.
  intros Hb. unfold b58_enc. cbn [lead_count]. unfold is_zero_byte.
  apply beq_false in Hb. rewrite Hb. reflexivity.
Qed.

Lemma of_be_lower b r : b <> x00 -> 256 ^ Z.of_nat (length r) <= of_be (b :: r).
Proof.
  intros Hb. rewrite of_be_cons. pose proof (bz_pos_of_nonzero b Hb). pose proof (of_be_range r).
  assert (0 < 256 ^ Z.of_nat (length r)) by (apply Z.pow_pos_nonneg; lia). nia.
Qed.

(* with a non-zero first byte the text has L characters where 58^(L-1) <= value < 58^L *)
Lemma b58_enc_len b r : b <> x00 ->
  let L := Z.of_nat (length (b58_enc (b :: r))) in
  58 ^ (L - 1) <= of_be (b :: r) < 58 ^ L.
Proof.
  intros Hb L. subst L. rewrite b58_enc_nz by exact Hb. rewrite map_length.
  pose proof (of_be_lower b r Hb).
  assert (0 < 256 ^ Z.of_nat (length r)) by (apply Z.pow_pos_nonneg; lia).
  split; [apply digits_be_lower; lia | apply digits_be_upper; lia].
Qed.

Lemma pow58_lt a b : 0 <= b -> 58 ^ a < 58 ^ b -> a < b.
Proof. intros Hb H. apply (Z.pow_lt_mono_r_iff 58); [lia | exact Hb | exact H]. Qed.

(* version byte / HD prefix non-zero, n bytes in all: at most / at least so many characters *)
Lemma b58_len_le b r hi : b <> x00 -> 0 <= hi -> 256 ^ Z.of_nat (length (b :: r)) <= 58 ^ hi ->
  Z.of_nat (length (b58_enc (b :: r))) <= hi.
Proof.
  intros Hb Hhi H. pose proof (b58_enc_len b r Hb) as [Hlo _]. cbv zeta in Hlo.
  pose proof (of_be_range (b :: r)) as [_ Hr].
  assert (58 ^ (Z.of_nat (length (b58_enc (b :: r))) - 1) < 58 ^ hi) by lia.
  apply pow58_lt in H0; lia.
Qed.

Lemma b58_len_ge b r lo : b <> x00 -> 58 ^ lo <= 256 ^ Z.of_nat (length r) ->
  lo < Z.of_nat (length (b58_enc (b :: r))).
Proof.
  intros Hb H. pose proof (b58_enc_len b r Hb) as [_ Hhi]. cbv zeta in Hhi.
  pose proof (of_be_lower b r Hb).
  apply pow58_lt; [lia|lia].
Qed.

(* ------------------------------------------------------------------ Base58: characters *)
Lemma alphabet_no_space : forallb (fun c => negb (beq c_space c)) alphabet_base58 = true.
Proof. vm_compute. reflexivity. Qed.

Lemma b58_char_in d : 0 <= d < 58 -> In (b58_char d) alphabet_base58.
Proof.
  intros Hd. unfold b58_char. apply nth_In. rewrite alphabet58_length. lia.
Qed.

Lemma b58_enc_alphabet bs : Forall (fun c => In c alphabet_base58) (b58_enc bs).
Proof.
  unfold b58_enc. apply Forall_app. split.
  - apply Forall_forall. intros c Hc. apply repeat_spec in Hc. subst c.
    rewrite <- b58_char_zero. apply b58_char_in. lia.
  - apply Forall_forall. intros c Hc. apply in_map_iff in Hc. destruct Hc as [d [<- Hd]].
    apply b58_char_in.
    pose proof (digits_be_range 58 (of_be (skipn (lead_count is_zero_byte bs) bs)) ltac:(lia)
                  ltac:(apply of_be_range)) as Hr.
    rewrite Forall_forall in Hr. apply Hr. exact Hd.
Qed.

Lemma b58_enc_no_space bs : existsb (beq c_space) (b58_enc bs) = false.
Proof.
  pose proof (b58_enc_alphabet bs) as H. pose proof alphabet_no_space as T.
  rewrite forallb_forall in T. induction H as [|c r Hc _ IH]; [reflexivity|].
  cbn [existsb]. rewrite IH. specialize (T c Hc). apply negb_true_iff in T. rewrite T. reflexivity.
Qed.

(* ------------------------------------------------------------------ the table, flattened *)
Definition all_rows : list hd_match :=
  flat_map (fun n => map (fun r => {| hm_network := nw_name n; hm_row := r |}) (nw_prefixes_wif n)) all_networks.

Definition hm_matches (p : bytes) (wt : option str) (ms : option bool) (nw : option str) (m : hd_match) : bool :=
  (match nw with None => true | Some x => String.eqb (hm_network m) x end) && row_matches p wt ms (hm_row m).

Lemma search_is_filter p wt ms nw :
  lib_wif_prefix_search p wt ms nw = filter (hm_matches p wt ms nw) all_rows.
Proof.
  unfold lib_wif_prefix_search, all_rows.
  induction all_networks as [|n l IH]; [reflexivity|].
  cbn [flat_map]. rewrite filter_app, <- IH. f_equal.
  unfold hm_matches.
  destruct (match nw with None => true | Some x => String.eqb (nw_name n) x end) eqn:E.
  - induction (nw_prefixes_wif n) as [|r rs IHr]; [reflexivity|].
    cbn [filter map hm_network hm_row]. rewrite E. cbn [andb].
    destruct (row_matches p wt ms r); cbn [map]; rewrite IHr; reflexivity.
  - induction (nw_prefixes_wif n) as [|r rs IHr]; [reflexivity|].
    cbn [filter map hm_network hm_row]. rewrite E. cbn [andb]. exact IHr.
Qed.

Lemma search_in p wt ms nw m :
  In m (lib_wif_prefix_search p wt ms nw) <-> In m all_rows /\ hm_matches p wt ms nw m = true.
Proof. rewrite search_is_filter. apply filter_In. Qed.

Lemma row_in_all_rows n r : In n all_networks -> In r (nw_prefixes_wif n) ->
  In {| hm_network := nw_name n; hm_row := r |} all_rows.
Proof.
  intros Hn Hr. unfold all_rows. apply in_flat_map. exists n. split; [exact Hn|].
  apply in_map_iff. exists r. split; [reflexivity | exact Hr].
Qed.

(* ------------------------------------------------------------------ finite facts about the regenerated table *)
Definition first_byte (b : bytes) : byte := match b with x :: _ => x | [] => x00 end.

(* T1: every HD prefix has four bytes, the first one non-zero *)
Lemma table_prefix_shape :
  forallb (fun m => Nat.eqb (length (wr_prefix (hm_row m))) 4 && negb (beq (first_byte (wr_prefix (hm_row m))) x00))
          all_rows = true.
Proof. vm_compute. reflexivity. Qed.

(* T2: a prefix never stands for both private and public keys *)
Lemma table_prefix_private :
  forallb (fun m => forallb (fun m' =>
      implb (bytes_eqb (wr_prefix (hm_row m)) (wr_prefix (hm_row m')))
            (Bool.eqb (wr_private (hm_row m)) (wr_private (hm_row m')))) all_rows) all_rows = true.
Proof. vm_compute. reflexivity. Qed.

(* T3: every WIF version is one non-zero byte that is not the first byte of any HD prefix
   (get_key_format tests the first four bytes of a decoded WIF against the HD prefixes first) *)
Lemma table_wif_versions :
  forallb (fun n => match nw_prefix_wif n with
                    | [v] => negb (beq v x00) &&
                             forallb (fun m => negb (beq (first_byte (wr_prefix (hm_row m))) v)) all_rows
                    | _ => false
                    end) all_networks = true.
Proof. vm_compute. reflexivity. Qed.

(* T4: the script-type column by which Network.wif_prefix selects agrees with the witness-type and multisig
   columns by which wif_prefix_search reports *)
Lemma table_script_types :
  forallb (fun m => match wif_script_type (wr_witness_type (hm_row m)) (wr_multisig (hm_row m)) with
                    | Some st => String.eqb st (wr_script_type (hm_row m))
                    | None => false
                    end) all_rows = true.
Proof. vm_compute. reflexivity. Qed.

(* T5: network names are distinct (find_network finds the record it is asked for) *)
Lemma table_names_distinct :
  forallb (fun n => match find_network (nw_name n) with
                    | Some n' => String.eqb (nw_name n') (nw_name n) && bytes_eqb (nw_prefix_wif n') (nw_prefix_wif n)
                                 && Nat.eqb (length (nw_prefixes_wif n')) (length (nw_prefixes_wif n))
                    | None => false
                    end) all_networks = true.
Proof. vm_compute. reflexivity. Qed.

Lemma all_rows_shape m : In m all_rows ->
  length (wr_prefix (hm_row m)) = 4%nat /\ first_byte (wr_prefix (hm_row m)) <> x00.
Proof.
  intros H. pose proof table_prefix_shape as T. rewrite forallb_forall in T. specialize (T m H).
  apply andb_true_iff in T. destruct T as [T1 T2]. apply Nat.eqb_eq in T1.
  apply negb_true_iff in T2. apply beq_false in T2. split; assumption.
Qed.

Lemma all_rows_private m m' : In m all_rows -> In m' all_rows ->
  wr_prefix (hm_row m) = wr_prefix (hm_row m') -> wr_private (hm_row m) = wr_private (hm_row m').
Proof.
  intros H H' E. pose proof table_prefix_private as T. rewrite forallb_forall in T. specialize (T m H).
  rewrite forallb_forall in T. specialize (T m' H'). rewrite E, bytes_eqb_refl in T. cbn [implb] in T.
  apply eqb_prop in T. exact T.
Qed.

Lemma wif_version_shape n : In n all_networks ->
  exists v, nw_prefix_wif n = [v] /\ v <> x00 /\
            forall m, In m all_rows -> first_byte (wr_prefix (hm_row m)) <> v.
Proof.
  intros H. pose proof table_wif_versions as T. rewrite forallb_forall in T. specialize (T n H).
  destruct (nw_prefix_wif n) as [|v [|? ?]]; try discriminate. exists v. split; [reflexivity|].
  apply andb_true_iff in T. destruct T as [T1 T2]. apply negb_true_iff in T1. apply beq_false in T1.
  split; [exact T1|]. intros m Hm. rewrite forallb_forall in T2. specialize (T2 m Hm).
  apply negb_true_iff in T2. apply beq_false in T2. exact T2.
Qed.

Lemma find_network_name n : In n all_networks ->
  exists n', find_network (nw_name n) = Some n' /\ nw_name n' = nw_name n /\ nw_prefix_wif n' = nw_prefix_wif n.
Proof.
  intros H. pose proof table_names_distinct as T. rewrite forallb_forall in T. specialize (T n H).
  destruct (find_network (nw_name n)) as [n'|]; [|discriminate]. exists n'. split; [reflexivity|].
  apply andb_true_iff in T. destruct T as [T _]. apply andb_true_iff in T. destruct T as [T1 T2].
  apply String.eqb_eq in T1. apply bytes_eqb_true in T2. split; assumption.
Qed.

Lemma network_defined_in n : In n all_networks -> network_defined (nw_name n) = true.
Proof.
  intros H. unfold network_defined. destruct (find_network_name n H) as [n' [E _]]. rewrite E. reflexivity.
Qed.

