(* Proofs/PublicView.v — C16 theorems about the Key / HDKey / WalletKey machines and the database model. *)
From Coq Require Import List String Bool.
From Verif Require Import Model.PublicView Proofs.PublicViewCore.
Import ListNotations.
Open Scope string_scope.

(* ---------------------------------------------------------------- classification tables *)
Lemma key_cls a :
  cls_of key_class a = if mem a hd_fields then (if mem a key_private_fields then CPrivate else CPublic) else CPublic.
Proof. unfold cls_of, key_class. rewrite assoc_map. destruct (mem a hd_fields); reflexivity. Qed.

Lemma key_private_inv a : is_private key_class a = true -> In a key_private_fields.
Proof.
  unfold is_private. rewrite key_cls. destruct (mem a hd_fields); [|discriminate].
  destruct (mem a key_private_fields) eqn:E; [|discriminate]. intros _. apply mem_In. exact E.
Qed.

Lemma key_no_handle a : is_handle key_class a = false.
Proof. unfold is_handle. rewrite key_cls. destruct (mem a hd_fields); [destruct (mem a key_private_fields)|]; reflexivity. Qed.

Lemma key_public_or_private a : is_public key_class a = false -> is_private key_class a = true.
Proof.
  unfold is_public, is_private. rewrite key_cls.
  destruct (mem a hd_fields); [destruct (mem a key_private_fields)|]; intro H; try discriminate; reflexivity.
Qed.

(* ---------------------------------------------------------------- initial states *)
Definition init_list (hd : bool) (kd : kkind) : list (string * fval) :=
  all_none key_init_none ++ all_pub key_init_meta ++ kind_fields kd
  ++ (if hd then all_pub ["script_type"; "encoding"; "witness_type"; "multisig"; "chain"; "depth";
                          "parent_fingerprint"; "child_index"; "key_type"] else []).

Definition secs (l : list (string * fval)) : list string :=
  map fst (filter (fun av => is_sec (snd av)) l).

Lemma In_secs a l : In (a, VSec) l -> In a (secs l).
Proof.
  intro H. unfold secs. apply in_map_iff. exists (a, VSec). split; [reflexivity|].
  apply filter_In. split; [exact H | reflexivity].
Qed.

Lemma sound_upds_empty tbl l c p h w :
  forallb (fun a => negb (is_public tbl a)) (secs l) = true ->
  Sound tbl {| kf := upds empty l; kcomp := c; kpriv := p; khd := h; kwc := w |}.
Proof.
  intros HF a Ha. simpl in Ha. apply upds_sec in Ha. destruct Ha as [Ha|Ha]; [discriminate|].
  apply In_secs in Ha. pose proof (forallb_In _ _ _ HF Ha) as H. simpl in H. apply negb_true_iff in H. exact H.
Qed.

Lemma init_sound hd kd : Sound key_class (init hd kd).
Proof.
  unfold init. apply sound_upds_empty.
  destruct hd, kd as [[]|[]| |]; vm_compute; reflexivity.
Qed.

Definition public_kind (kd : kkind) : bool := negb (kind_priv kd).

Lemma init_public_clean hd kd : public_kind kd = true -> Clean key_class (init hd kd).
Proof.
  intros Hk a Ha. apply key_private_inv in Ha. unfold init. simpl kf.
  simpl in Ha.
  destruct kd as [c|c| |]; try discriminate Hk;
  destruct hd; try destruct c;
  repeat (destruct Ha as [Ha|Ha]; [subst a; vm_compute; reflexivity|]); contradiction.
Qed.

(* ---------------------------------------------------------------- every method passes the static checks *)
Lemma op_flows o : flows_ok key_class (op_prog o) = true.
Proof. destruct o; try destruct incl; vm_compute; reflexivity. Qed.

Lemma op_keeps_clean o : keeps_clean key_class (op_prog o) = true.
Proof. destruct o; try destruct incl; vm_compute; reflexivity. Qed.

Lemma public_flows : flows_ok key_class p_public = true.
Proof. vm_compute. reflexivity. Qed.

Lemma public_keeps_clean : keeps_clean key_class p_public = true.
Proof. vm_compute. reflexivity. Qed.

(* public() empties every CPrivate attribute, whatever the state it is applied to *)
Lemma public_makes_clean k : Clean key_class (fst (exec p_public k)).
Proof.
  intros a Ha. apply key_private_inv in Ha. destruct k as [f c p h wc]. simpl in Ha.
  destruct h;
  repeat (destruct Ha as [Ha|Ha]; [subst a; cbv; reflexivity|]); contradiction.
Qed.

(* ---------------------------------------------------------------- steps and histories *)
Lemma step_sound o k : Sound key_class k -> Sound key_class (fst (step o k)).
Proof.
  intro HS.
  destruct o; try (apply exec_sound; [apply op_flows | exact HS]); unfold step.
  - destruct (khd k && kpriv k && truthy (kf k "secret")); [apply init_sound | exact HS].
  - destruct (khd k); [apply init_sound | exact HS].
  - destruct (khd k); [|exact HS].
    destruct (kpriv k && truthy (kf k "secret")); apply exec_sound; try apply public_flows; apply init_sound.
Qed.

Lemma run_sound h : forall k, Sound key_class k -> Sound key_class (run h k).
Proof. induction h as [|o r IH]; intros k HS; simpl; [exact HS | apply IH, step_sound, HS]. Qed.

Lemma step_clean o k : Clean key_class k -> Clean key_class (fst (step o k)).
Proof.
  intro HC.
  destruct o; try (apply exec_clean; [apply op_keeps_clean | exact HC]); unfold step.
  - assert (E : truthy (kf k "secret") = false).
    { pose proof (HC "secret" eq_refl) as Hb. unfold blank in Hb. apply negb_true_iff in Hb. exact Hb. }
    rewrite E, andb_false_r. exact HC.
  - destruct (khd k); [apply init_public_clean; reflexivity | exact HC].
  - destruct (khd k); [|exact HC].
    destruct (kpriv k && truthy (kf k "secret")); apply public_makes_clean.
Qed.

Lemma run_clean h : forall k, Clean key_class k -> Clean key_class (run h k).
Proof. induction h as [|o r IH]; intros k HS; simpl; [exact HS | apply IH, step_clean, HS]. Qed.

Lemma sound_clean_tclean k : Sound key_class k -> Clean key_class k -> TClean key_class k.
Proof.
  intros HS HC a _ Ha. pose proof (HS a Ha) as Hp. apply key_public_or_private in Hp.
  pose proof (HC a Hp) as Hb. rewrite Ha in Hb. discriminate.
Qed.

(* ---------------------------------------------------------------- the theorems *)
(* the public view: state reached by public() after ANY history, followed by ANY later history on the view
   (deep copies, pickling, exports, derivations ...) *)
Definition public_view (hd : bool) (kd : kkind) (h1 h2 : list op) : kobj :=
  run h2 (fst (step OPublic (run h1 (init hd kd)))).

Lemma public_view_is_clean hd kd h1 h2 : Clean key_class (public_view hd kd h1 h2).
Proof. unfold public_view. apply run_clean. simpl. apply public_makes_clean. Qed.

Lemma public_view_is_sound hd kd h1 h2 : Sound key_class (public_view hd kd h1 h2).
Proof. unfold public_view. apply run_sound, step_sound, run_sound, init_sound. Qed.

Theorem public_view_clean_thm : forall hd kd h1 h2 a,
  is_private key_class a = true -> blank (kf (public_view hd kd h1 h2) a) = true.
Proof. intros. apply public_view_is_clean. assumption. Qed.

Theorem public_view_no_secret_thm : forall hd kd h1 h2 a, kf (public_view hd kd h1 h2) a <> VSec.
Proof.
  intros. apply (sound_clean_tclean _ (public_view_is_sound hd kd h1 h2) (public_view_is_clean hd kd h1 h2)).
  apply key_no_handle.
Qed.

Theorem classification_sound_thm : forall hd kd h a,
  kf (run h (init hd kd)) a = VSec -> In a key_private_fields.
Proof.
  intros hd kd h a Ha. apply key_private_inv, key_public_or_private.
  exact (run_sound h _ (init_sound hd kd) a Ha).
Qed.

(* exports *)
Lemma export_exprs_closed o k : forallb (fun le => expr_closed key_class (snd le)) (export_exprs o k) = true.
Proof.
  destruct k as [f c p h wc].
  destruct o; try destruct incl; try destruct priv; unfold export_exprs, info_exprs, hd_wif_expr; simpl khd; simpl kpriv; simpl kf;
  destruct h; try destruct p; try destruct (truthy (f "secret")); vm_compute; reflexivity.
Qed.

Lemma default_exprs_public o k :
  default_export o = true -> forallb (fun le => expr_public key_class (snd le)) (export_exprs o k) = true.
Proof.
  destruct k as [f c p h wc].
  destruct o; try destruct incl; simpl; try discriminate; intros _; destruct h; vm_compute; reflexivity.
Qed.

Theorem default_exports_clean_thm : forall hd kd h o lab v,
  default_export o = true -> In (lab, v) (exports o (run h (init hd kd))) -> v <> VSec.
Proof.
  intros hd kd h o lab v Hd Hin. unfold exports in Hin.
  pose proof (step_sound o _ (run_sound h _ (init_sound hd kd))) as HS.
  destruct (step o (run h (init hd kd))) as [k' ok]. simpl in HS.
  destruct ok; [|contradiction].
  exact (exports_public key_class k' _ lab v HS (default_exprs_public o k' Hd) Hin).
Qed.

Theorem public_view_exports_clean_thm : forall hd kd h1 h2 o lab v,
  In (lab, v) (exports o (public_view hd kd h1 h2)) -> v <> VSec.
Proof.
  intros hd kd h1 h2 o lab v Hin. unfold exports in Hin.
  pose proof (step_sound o _ (public_view_is_sound hd kd h1 h2)) as HS.
  pose proof (step_clean o _ (public_view_is_clean hd kd h1 h2)) as HC.
  destruct (step o (public_view hd kd h1 h2)) as [k' ok]. simpl in HS, HC.
  destruct ok; [|contradiction].
  exact (exports_closed key_class k' _ lab v (sound_clean_tclean k' HS HC) (export_exprs_closed o k') Hin).
Qed.

(* ---------------------------------------------------------------- WalletKey *)
Lemma wk_cls a :
  cls_of wk_class a =
  if mem a wk_fields then
    (if mem a ["key_private"] then CPrivate else if mem a ["wif"; "_hdkey_object"] then CMixed
     else if mem a ["_dbkey"; "session"; "wallet"] then CHandle else CPublic)
  else CPublic.
Proof. unfold cls_of, wk_class. rewrite assoc_map. destruct (mem a wk_fields); reflexivity. Qed.

Lemma wk_private_inv a : is_private wk_class a = true -> a = "key_private".
Proof.
  unfold is_private. rewrite wk_cls. destruct (mem a wk_fields); [|discriminate].
  destruct (mem a ["key_private"]) eqn:E.
  - intros _. apply mem_In in E. simpl in E. destruct E as [E|[]]. symmetry. exact E.
  - destruct (mem a ["wif"; "_hdkey_object"]); [discriminate|].
    destruct (mem a ["_dbkey"; "session"; "wallet"]); discriminate.
Qed.

Lemma wk_nonpublic_inv a : is_public wk_class a = false -> is_handle wk_class a = false ->
  a = "key_private" \/ a = "wif" \/ a = "_hdkey_object".
Proof.
  unfold is_public, is_handle. rewrite wk_cls. destruct (mem a wk_fields); [|discriminate].
  destruct (mem a ["key_private"]) eqn:E1.
  - intros _ _. apply mem_In in E1. simpl in E1. destruct E1 as [E|[]]. left. symmetry. exact E.
  - destruct (mem a ["wif"; "_hdkey_object"]) eqn:E2.
    + intros _ _. apply mem_In in E2. simpl in E2. destruct E2 as [E|[E|[]]]; [right; left | right; right]; symmetry; exact E.
    + destruct (mem a ["_dbkey"; "session"; "wallet"]); discriminate.
Qed.

Definition wk_init_list (w : wkind) : list (string * fval) :=
  all_pub wk_meta ++ [("cosigner_id", VNone)] ++
  match w with
  | WkPrivate h => [("key_public", VPub); ("key_private", VSec); ("wif", VSec); ("_dbkey", VSec);
                    ("_hdkey_object", if h then VSec else VNone)]
  | WkPublic h => [("key_public", VPub); ("key_private", VNone); ("wif", VPub); ("_dbkey", VPub);
                   ("_hdkey_object", if h then VPub else VNone)]
  | WkAddressOnly => [("key_public", VNone); ("key_private", VNone); ("wif", VNone); ("_dbkey", VPub);
                      ("_hdkey_object", VPub); ("address_index", VNone); ("depth", VNone)]
  end.

Lemma wk_init_sound w : Sound wk_class (wk_init w).
Proof.
  unfold wk_init. apply sound_upds_empty. destruct w as [[]|[]|]; vm_compute; reflexivity.
Qed.

Lemma wop_flows o : flows_ok wk_class (wop_prog o) = true.
Proof. destruct o; try destruct incl; vm_compute; reflexivity. Qed.
Lemma wop_closed o : closed wk_class (wop_prog o) = true.
Proof. destruct o; try destruct incl; vm_compute; reflexivity. Qed.
Lemma wop_keeps_clean o : keeps_clean wk_class (wop_prog o) = true.
Proof. destruct o; try destruct incl; vm_compute; reflexivity. Qed.

Lemma wstep_sound o k : Sound wk_class k -> Sound wk_class (fst (wstep o k)).
Proof. intro HS. apply exec_sound; [apply wop_flows | exact HS]. Qed.
Lemma wrun_sound h : forall k, Sound wk_class k -> Sound wk_class (wrun h k).
Proof. induction h as [|o r IH]; intros k HS; simpl; [exact HS | apply IH, wstep_sound, HS]. Qed.
Lemma wrun_tclean h : forall k, TClean wk_class k -> TClean wk_class (wrun h k).
Proof.
  induction h as [|o r IH]; intros k HS; simpl; [exact HS | apply IH].
  apply exec_tclean; [apply wop_closed | exact HS].
Qed.
Lemma wrun_clean h : forall k, Clean wk_class k -> Clean wk_class (wrun h k).
Proof.
  induction h as [|o r IH]; intros k HS; simpl; [exact HS | apply IH].
  apply exec_clean; [apply wop_keeps_clean | exact HS].
Qed.

(* WalletKey.public() applied to any state in which the classification is sound *)
Lemma wpublic_three k :
  let k' := fst (wstep WPublic k) in
  blank (kf k' "key_private") = true /\ kf k' "wif" <> VSec /\ kf k' "_hdkey_object" <> VSec.
Proof.
  destruct k as [f c p h wc]. cbv.
  destruct (f "wif") eqn:E; cbv; do 3 (rewrite ?E; cbv); repeat split; try reflexivity; discriminate.
Qed.

Lemma wpublic_tclean k : Sound wk_class k -> TClean wk_class (fst (wstep WPublic k)).
Proof.
  intros HS a Hh Ha.
  pose proof (wstep_sound WPublic k HS a Ha) as Hp.
  destruct (wk_nonpublic_inv a Hp Hh) as [E|[E|E]]; subst a;
  destruct (wpublic_three k) as [H1 [H2 H3]]; simpl in H1, H2, H3.
  - rewrite Ha in H1. discriminate.
  - exact (H2 Ha).
  - exact (H3 Ha).
Qed.

Lemma wpublic_clean k : Clean wk_class (fst (wstep WPublic k)).
Proof.
  intros a Ha. apply wk_private_inv in Ha. subst a. exact (proj1 (wpublic_three k)).
Qed.

Definition wk_public_view (w : wkind) (h1 h2 : list wop) : kobj :=
  wrun h2 (fst (wstep WPublic (wrun h1 (wk_init w)))).

Theorem walletkey_public_view_clean_thm : forall w h1 h2 a,
  (is_private wk_class a = true -> blank (kf (wk_public_view w h1 h2) a) = true) /\
  (is_handle wk_class a = false -> kf (wk_public_view w h1 h2) a <> VSec).
Proof.
  intros w h1 h2 a. split.
  - apply (wrun_clean h2). apply wpublic_clean.
  - apply (wrun_tclean h2). apply wpublic_tclean. apply wrun_sound, wk_init_sound.
Qed.

Lemma wdefault_exprs_public o :
  wdefault_export o = true -> forallb (fun le => expr_public wk_class (snd le)) (wexport_exprs o) = true.
Proof. destruct o; try destruct incl; simpl; try discriminate; intros _; vm_compute; reflexivity. Qed.

Theorem walletkey_default_exports_clean_thm : forall w h o lab v,
  wdefault_export o = true -> In (lab, v) (wexports o (wrun h (wk_init w))) -> v <> VSec.
Proof.
  intros w h o lab v Hd Hin. unfold wexports in Hin.
  pose proof (wstep_sound o _ (wrun_sound h _ (wk_init_sound w))) as HS.
  destruct (wstep o (wrun h (wk_init w))) as [k' ok]. simpl in HS.
  destruct ok; [|contradiction].
  exact (exports_public wk_class k' _ lab v HS (wdefault_exprs_public o Hd) Hin).
Qed.

(* ---------------------------------------------------------------- database and wallet-level tables *)
Theorem private_columns_encrypted_thm : forall c, In c private_write_columns -> In c dbkey_encrypted_columns.
Proof.
  intros c H. apply mem_In.
  assert (HF : forallb (fun c => mem c dbkey_encrypted_columns) private_write_columns = true) by (vm_compute; reflexivity).
  exact (forallb_In _ _ _ HF H).
Qed.

Theorem private_cell_is_ciphertext_thm : forall c v,
  In c private_write_columns -> truthy v = true -> stored true c v = Cipher.
Proof.
  intros c v H Hv. apply private_columns_encrypted_thm, mem_In in H. unfold stored. rewrite H.
  destruct v; try discriminate; reflexivity.
Qed.

Theorem row_dicts_drop_private_columns_thm : forall c cols,
  In c private_write_columns -> ~ In c (row_dict_columns false cols).
Proof.
  intros c cols H Hin. unfold row_dict_columns in Hin. apply filter_In in Hin. destruct Hin as [_ Hf].
  change (negb (mem c wallet_keys_private_fields) = true) in Hf. apply negb_true_iff in Hf.
  assert (HF : forallb (fun c => mem c wallet_keys_private_fields) private_write_columns = true) by (vm_compute; reflexivity).
  rewrite (forallb_In _ _ _ HF H) in Hf. discriminate.
Qed.

Theorem wallet_repr_public_thm :
  forallb (fun s => negb (mem s ["self.wif"; "self.main_key.wif"; "self.main_key"])) (wallet_repr_args ++ wallet_str_args) = true.
Proof. vm_compute. reflexivity. Qed.
