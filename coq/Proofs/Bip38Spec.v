(* Proofs/Bip38Spec.v — C15: (1) the passphrase ARGUMENT -> scrypt-input step, (2) Key(enc, password=pw) agrees with the
   DECRYPTION procedure of the BIP38 text (plain and EC-multiplied mode), so a ciphertext built by any conforming
   implementation opens with the right passphrase and a key comes out only if the BIP's own procedure yields it. *)
From Coq Require Import ZArith List Bool Lia.
From Coq.Strings Require Import Byte.
From Verif Require Import Lib.Bytes Model.Bip38 Proofs.Bip38Xor Proofs.Bip38 Proofs.Bip38Ec.
Import ListNotations.
Open Scope Z_scope.

(* ================================================================ the passphrase argument *)
Section Arg.
Variable T : Type.
Variable utf8 : T -> bytes.
Variable nfc : T -> T.

Lemma stable_arg a : nfc_stable utf8 nfc a -> arg_bytes utf8 (arg_nfc nfc a) = arg_bytes utf8 a.
Proof. destruct a as [t|b]; intros Hs; [exact Hs | reflexivity]. Qed.

(* what the library hands to scrypt is what the BIP prescribes *)
Lemma arg_is_spec a : nfc_stable utf8 nfc a -> arg_bytes utf8 a = spec_pw_bytes utf8 nfc a.
Proof. intros Hs. unfold spec_pw_bytes. symmetry. apply stable_arg. exact Hs. Qed.

(* arguments the BIP regards as the same passphrase reach scrypt as the same bytes *)
Lemma same_passphrase_same_bytes a b :
  nfc_stable utf8 nfc a -> nfc_stable utf8 nfc b -> same_passphrase utf8 nfc a b -> arg_bytes utf8 a = arg_bytes utf8 b.
Proof. intros Ha Hb E. rewrite (arg_is_spec a Ha), (arg_is_spec b Hb). exact E. Qed.

(* a str and the bytes object holding its UTF-8 encoding are one passphrase; a bytes object is taken as it is *)
Lemma arg_str_bytes t : arg_bytes utf8 (PStr t) = arg_bytes utf8 (PBytes (utf8 t)).
Proof. reflexivity. Qed.

Lemma arg_bytes_id b : arg_bytes utf8 (PBytes b : pyarg T) = b.
Proof. reflexivity. Qed.

(* no conflation before scrypt: two texts reach scrypt as the same bytes only if UTF-8 itself maps them together *)
Lemma arg_no_conflation a b : arg_bytes utf8 (PStr a) = arg_bytes utf8 (PStr b) -> utf8 a = utf8 b.
Proof. intros E. exact E. Qed.

Lemma arg_injective : (forall a b, utf8 a = utf8 b -> a = b) ->
  forall a b : T, arg_bytes utf8 (PStr a) = arg_bytes utf8 (PStr b) -> a = b.
Proof. intros Hinj a b E. apply Hinj. exact E. Qed.
End Arg.

(* ================================================================ the library reads the passphrase only through utf8 *)
Section Ext.
Variable P : Type.
Variable utf8 : P -> bytes.
Variable scrypt : bytes -> bytes -> Z -> Z -> Z -> nat -> bytes.
Variable aes_enc aes_dec : bytes -> bytes -> bytes.
Variable H H160 : bytes -> bytes.
Variable b58e : bytes -> bytes.
Variable b58d : bytes -> option bytes.
Variable pubser : bool -> Z -> option bytes.

Lemma encrypt_ext pfx c k a b : utf8 a = utf8 b ->
  lib_key_encrypt P utf8 scrypt aes_enc H H160 b58e pubser pfx c k a =
  lib_key_encrypt P utf8 scrypt aes_enc H H160 b58e pubser pfx c k b.
Proof. intros E. unfold lib_key_encrypt. rewrite E. reflexivity. Qed.

Lemma decrypt_ext pfx s a b : utf8 a = utf8 b ->
  lib_key_decrypt P utf8 scrypt aes_dec H H160 b58e b58d pubser pfx s a =
  lib_key_decrypt P utf8 scrypt aes_dec H H160 b58e b58d pubser pfx s b.
Proof.
  intros E. unfold lib_key_decrypt, lib_bip38_decrypt, lib_decrypt_ec, lib_decrypt_noec. rewrite E. reflexivity.
Qed.
End Ext.

(* the str / bytes argument forms of Key.encrypt and Key(enc, password=) *)
Section ArgEntry.
Variable T : Type.
Variable utf8 : T -> bytes.
Variable nfc : T -> T.
Variable scrypt : bytes -> bytes -> Z -> Z -> Z -> nat -> bytes.
Variable aes_enc aes_dec : bytes -> bytes -> bytes.
Variable H H160 : bytes -> bytes.
Variable b58e : bytes -> bytes.
Variable b58d : bytes -> option bytes.
Variable pubser : bool -> Z -> option bytes.

Notation a_encrypt := (lib_key_encrypt (pyarg T) (arg_bytes utf8) scrypt aes_enc H H160 b58e pubser).
Notation a_decrypt := (lib_key_decrypt (pyarg T) (arg_bytes utf8) scrypt aes_dec H H160 b58e b58d pubser).

Theorem same_passphrase_same_result a b :
  nfc_stable utf8 nfc a -> nfc_stable utf8 nfc b -> same_passphrase utf8 nfc a b ->
  (forall pfx c k, a_encrypt pfx c k a = a_encrypt pfx c k b) /\
  (forall pfx s, a_decrypt pfx s a = a_decrypt pfx s b).
Proof.
  intros Ha Hb E. pose proof (same_passphrase_same_bytes T utf8 nfc a b Ha Hb E) as Eb.
  split; intros; [apply encrypt_ext | apply decrypt_ext]; exact Eb.
Qed.

(* a str and the bytes object holding its UTF-8 encoding are interchangeable *)
Theorem str_or_bytes t :
  (forall pfx c k, a_encrypt pfx c k (PStr t) = a_encrypt pfx c k (PBytes (utf8 t))) /\
  (forall pfx s, a_decrypt pfx s (PStr t) = a_decrypt pfx s (PBytes (utf8 t))).
Proof. split; intros; [apply encrypt_ext | apply decrypt_ext]; reflexivity. Qed.

(* Key.encrypt with a str or bytes argument is the BIP's encryption of the passphrase it denotes *)
Theorem encrypt_is_spec_arg :
  (forall pw salt n r p dk, length (scrypt pw salt n r p dk) = dk) ->
  forall pfx c k a, nfc_stable utf8 nfc a ->
  a_encrypt pfx c k a =
  spec_encrypt (pyarg T) (arg_bytes utf8) (arg_nfc nfc) scrypt aes_enc H H160 b58e pubser pfx c k a.
Proof.
  intros Hl pfx c k a Hs. apply encrypt_is_spec; [exact Hl|]. apply stable_arg. exact Hs.
Qed.
End ArgEntry.

(* ================================================================ slicing a 43-byte string *)
Lemma split43 (d : bytes) : length d = 43%nat ->
  exists i f ah oe e1a eh2 cs,
    length i = 2%nat /\ length ah = 4%nat /\ length oe = 8%nat /\ length e1a = 8%nat /\ length eh2 = 16%nat /\
    length cs = 4%nat /\ d = i ++ [f] ++ ah ++ oe ++ e1a ++ eh2 ++ cs.
Proof.
  intros L.
  do 43 (destruct d as [|? d]; [cbn [length] in L; discriminate L|]).
  destruct d; [|cbn [length] in L; discriminate L].
  eexists [_; _], _, [_; _; _; _], [_; _; _; _; _; _; _; _], [_; _; _; _; _; _; _; _],
          [_; _; _; _; _; _; _; _; _; _; _; _; _; _; _; _], [_; _; _; _].
  repeat split.
Qed.

Lemma noec_body_slices flag ah eh1 eh2 :
  length ah = 4%nat -> length eh1 = 16%nat -> length eh2 = 16%nat ->
  let b := pfx_noec ++ [flag] ++ ah ++ eh1 ++ eh2 in
  length b = 39%nat /\ sl 0 2 b = pfx_noec /\ sl 2 3 b = [flag] /\ sl 3 7 b = ah /\ sl 7 23 b = eh1 /\ sl 23 39 b = eh2.
Proof.
  intros Hah H1 H2 b.
  assert (Hb : b = x01 :: x42 :: flag :: ah ++ eh1 ++ eh2) by reflexivity.
  assert (Hs3 : skipn 3 b = ah ++ eh1 ++ eh2) by (rewrite Hb; reflexivity).
  assert (Hs7 : skipn 7 b = eh1 ++ eh2).
  { change 7%nat with (3 + 4)%nat. rewrite <- skipn_add, Hs3. apply skipn_exact. exact Hah. }
  assert (Hs23 : skipn 23 b = eh2).
  { change 23%nat with (7 + 16)%nat. rewrite <- skipn_add, Hs7. apply skipn_exact. exact H1. }
  refine (conj _ (conj _ (conj _ (conj _ (conj _ _))))).
  - rewrite Hb. cbn [length]. rewrite !app_length. lia.
  - rewrite Hb. reflexivity.
  - rewrite Hb. reflexivity.
  - unfold sl. rewrite Hs3. change (7 - 3)%nat with 4%nat. apply firstn_exact. exact Hah.
  - unfold sl. rewrite Hs7. change (23 - 7)%nat with 16%nat. apply firstn_exact. exact H1.
  - unfold sl. rewrite Hs23. change (39 - 23)%nat with 16%nat. apply firstn_whole. exact H2.
Qed.

Lemma ec_body_slices flag ah oe e1a eh2 :
  length ah = 4%nat -> length oe = 8%nat -> length e1a = 8%nat -> length eh2 = 16%nat ->
  let b := pfx_ec ++ [flag] ++ ah ++ oe ++ e1a ++ eh2 in
  length b = 39%nat /\ sl 0 2 b = pfx_ec /\ sl 2 3 b = [flag] /\ sl 3 7 b = ah /\ sl 7 15 b = oe /\
  sl 15 23 b = e1a /\ sl 23 39 b = eh2.
Proof.
  intros Hah Hoe H1 H2 b.
  assert (Hb : b = x01 :: x43 :: flag :: ah ++ oe ++ e1a ++ eh2) by reflexivity.
  assert (Hs3 : skipn 3 b = ah ++ oe ++ e1a ++ eh2) by (rewrite Hb; reflexivity).
  assert (Hs7 : skipn 7 b = oe ++ e1a ++ eh2).
  { change 7%nat with (3 + 4)%nat. rewrite <- skipn_add, Hs3. apply skipn_exact. exact Hah. }
  assert (Hs15 : skipn 15 b = e1a ++ eh2).
  { change 15%nat with (7 + 8)%nat. rewrite <- skipn_add, Hs7. apply skipn_exact. exact Hoe. }
  assert (Hs23 : skipn 23 b = eh2).
  { change 23%nat with (15 + 8)%nat. rewrite <- skipn_add, Hs15. apply skipn_exact. exact H1. }
  refine (conj _ (conj _ (conj _ (conj _ (conj _ (conj _ _)))))).
  - rewrite Hb. cbn [length]. rewrite !app_length. lia.
  - rewrite Hb. reflexivity.
  - rewrite Hb. reflexivity.
  - unfold sl. rewrite Hs3. change (7 - 3)%nat with 4%nat. apply firstn_exact. exact Hah.
  - unfold sl. rewrite Hs7. change (15 - 7)%nat with 8%nat. apply firstn_exact. exact Hoe.
  - unfold sl. rewrite Hs15. change (23 - 15)%nat with 8%nat. apply firstn_exact. exact H1.
  - unfold sl. rewrite Hs23. change (39 - 23)%nat with 16%nat. apply firstn_whole. exact H2.
Qed.

(* the flag bytes the BIP defines: the library's membership lists and the BIP's bit tests say the same *)
Lemma noec_flag_agree f : mem_byte [f] [xc0; xe0] = true ->
  mem_byte [f] [xc0; xe0; x20] = true /\ negb (mem_byte [f] [xc0]) = flag_bit 32 [f].
Proof. destruct f; intros Hm; try discriminate Hm; split; reflexivity. Qed.

Lemma ec_flag_agree f : mem_byte [f] [x00; x04; x20; x24] = true ->
  mem_byte [f] lib_lot_flags = flag_bit 4 [f] /\ mem_byte [f] lib_compressed_flags = flag_bit 32 [f].
Proof. destruct f; intros Hm; try discriminate Hm; split; reflexivity. Qed.

Lemma sl_16_32 (l : bytes) : sl 16 32 l = skipn 16 (firstn 32 l).
Proof. unfold sl. rewrite skipn_firstn_comm. reflexivity. Qed.

Lemma sl_32_64 (l : bytes) : length l = 64%nat -> sl 32 64 l = skipn 32 l.
Proof. intros Hl. unfold sl. change (64 - 32)%nat with 32%nat. apply firstn_whole. rewrite skipn_length. lia. Qed.

Lemma eqb_len_body (d : bytes) :
  Nat.eqb (length (firstn (length d - 4) d)) 39 = Nat.eqb (length d) 43.
Proof.
  rewrite firstn_length.
  destruct (Nat.eqb_spec (length d) 43) as [E|E].
  - rewrite E. reflexivity.
  - apply Nat.eqb_neq. lia.
Qed.

(* ================================================================ agreement of the decryption with the BIP text *)
Section DecSpec.
Variable P : Type.
Variable utf8 : P -> bytes.
Variable nfc : P -> P.
Variable scrypt : bytes -> bytes -> Z -> Z -> Z -> nat -> bytes.
Variable aes_dec : bytes -> bytes -> bytes.
Variable H H160 : bytes -> bytes.
Variable b58e : bytes -> bytes.
Variable b58d : bytes -> option bytes.
Variable pubser : bool -> Z -> option bytes.

Hypothesis aes_dec_len : forall k b, length b = 16%nat -> length (aes_dec k b) = 16%nat.
Hypothesis scrypt_len : forall pw salt n r p dk, length (scrypt pw salt n r p dk) = dk.

Notation address := (lib_address H H160 b58e pubser).
Notation key_decrypt := (lib_key_decrypt P utf8 scrypt aes_dec H H160 b58e b58d pubser).
Notation s_decrypt := (spec_decrypt P utf8 nfc scrypt aes_dec H H160 b58e b58d pubser).
Notation check_address := (lib_check_address H H160 b58e pubser).

(* what Key._bip38_decrypt makes of the low-level result *)
Definition finish (pfx : bytes) (r : res dec_info) : key_res :=
  match r with
  | Err e => KErr e
  | Ok i => match check_address pfx i with Err e => KErr e | Ok (k, c) => KOk k c end
  end.

(* ---------------------------------------------------------------- plain mode *)
Lemma noec_agree pfx f ah eh1 eh2 cs pw k c :
  utf8 (nfc pw) = utf8 pw ->
  length ah = 4%nat -> length eh1 = 16%nat -> length eh2 = 16%nat -> length cs = 4%nat ->
  mem_byte [f] [xc0; xe0] = true ->
  finish pfx (lib_decrypt_noec P utf8 scrypt aes_dec (pfx_noec ++ [f] ++ ah ++ eh1 ++ eh2 ++ cs) pw) = KOk k c <->
  spec_decrypt_noec P utf8 nfc scrypt aes_dec H H160 b58e pubser pfx (pfx_noec ++ [f] ++ ah ++ eh1 ++ eh2) pw = Some (k, c).
Proof.
  intros Hn Hah H1 H2 Hcs Hf.
  destruct (noec_flag_agree f Hf) as (F1 & F2).
  destruct (noec_slices f ah eh1 eh2 cs Hah H1 H2 Hcs) as (_ & _ & S2 & _ & S4 & S5).
  destruct (halves_of_app eh1 eh2 H1 H2) as (E1 & E2).
  destruct (noec_body_slices f ah eh1 eh2 Hah H1 H2) as (_ & _ & B2 & B3 & B4 & B5).
  unfold lib_decrypt_noec, spec_decrypt_noec. cbv zeta.
  rewrite S2, S4, S5, F1, E1, E2, B2, B3, B4, B5, Hf, Hn, F2. cbn [negb].
  set (key := scrypt (utf8 pw) ah 16384 8 8 64%nat).
  assert (Hkey : length key = 64%nat) by apply scrypt_len.
  rewrite (sl_32_64 key Hkey).
  change (sl 0 32 key) with (firstn 32 key).
  set (dh1 := firstn 32 key). set (dh2 := skipn 32 key).
  assert (Ld : length dh1 = 32%nat) by (apply firstn_len_le; lia).
  set (dec1 := aes_dec dh2 eh1). set (dec2 := aes_dec dh2 eh2).
  assert (L1 : length dec1 = 16%nat) by (apply aes_dec_len; exact H1).
  assert (L2 : length dec2 = 16%nat) by (apply aes_dec_len; exact H2).
  assert (L3 : length (firstn 16 dh1) = 16%nat) by (apply firstn_len_le; lia).
  assert (L4 : length (skipn 16 dh1) = 16%nat) by (rewrite skipn_length; lia).
  pose proof (xor_be_app 16 16 dec1 dec2 (firstn 16 dh1) (skipn 16 dh1) L1 L3 L2 L4) as EX.
  rewrite (firstn_skipn 16 dh1) in EX. change (16 + 16)%nat with 32%nat in EX.
  unfold finish, lib_check_address. cbn [di_priv di_compressed di_hash].
  rewrite EX.
  set (secret := of_be (xor_be 16 dec1 (firstn 16 dh1) ++ xor_be 16 dec2 (skipn 16 dh1))).
  destruct (address pfx (flag_bit 32 [f]) secret) as [a|]; [|split; discriminate].
  destruct (bytes_eqb (firstn 4 (H a)) ah); cbn [negb]; split; intros E; try discriminate E;
    inversion E; reflexivity.
Qed.

(* ---------------------------------------------------------------- EC-multiplied mode (address version 00:
   the library checks the address hash against the bitcoin address only — class ec_foreign_network) *)
Ltac fail_leaf := split; intros E; cbv beta iota delta [finish] in E; discriminate E.

(* ---------------------------------------------------------------- EC-multiplied mode (address version 00:
   the library checks the address hash against the bitcoin address only — class ec_foreign_network) *)
Lemma ec_agree f ah oe e1a eh2 cs pw k c :
  utf8 (nfc pw) = utf8 pw ->
  length ah = 4%nat -> length oe = 8%nat -> length e1a = 8%nat -> length eh2 = 16%nat -> length cs = 4%nat ->
  mem_byte [f] [x00; x04; x20; x24] = true ->
  finish [x00] (lib_decrypt_ec P utf8 scrypt aes_dec H H160 b58e pubser
                  (pfx_ec ++ [f] ++ ah ++ oe ++ e1a ++ eh2 ++ cs) pw) = KOk k c <->
  spec_decrypt_ec P utf8 nfc scrypt aes_dec H H160 b58e pubser [x00] (pfx_ec ++ [f] ++ ah ++ oe ++ e1a ++ eh2) pw
    = Some (k, c).
Proof.
  intros Hn Hah Hoe H1 H2 Hcs Hf.
  destruct (ec_flag_agree f Hf) as (F1 & F2).
  destruct (ec_slices f ah oe e1a eh2 cs Hah Hoe H1 H2 Hcs) as (_ & _ & S2 & S3 & S4 & S5 & S6).
  destruct (ec_body_slices f ah oe e1a eh2 Hah Hoe H1 H2) as (_ & _ & B2 & B3 & B4 & B5 & B6).
  unfold lib_decrypt_ec, spec_decrypt_ec. cbv zeta.
  rewrite S2, S3, S4, S5, S6, B2, B3, B4, B5, B6, Hf, Hn, F1, F2. cbn [negb].
  set (cmp := flag_bit 32 [f]).
  change (sl 0 4 oe) with (firstn 4 oe).
  (* with / without lot and sequence: the conditionals on the flag bit disappear on both sides *)
  destruct (flag_bit 4 [f]); cbv iota;
    [ rewrite !skipn_length, Hoe; change (negb (Nat.eqb (8 - 4) 0)) with true
    | change (negb (Nat.eqb (@length byte []) 0)) with false ]; cbv iota.
  all: match goal with |- context [pubser true ?z] => set (pfz := z) end.
  all: destruct ((pfz =? 0) || (secp_order <=? pfz)); [fail_leaf|].
  all: destruct (pubser true pfz) as [pp|]; [|fail_leaf].
  all: match goal with |- context [scrypt ?q ?sa 1024 1 1 64%nat] => set (esb := scrypt q sa 1024 1 1 64%nat) end.
  all: rewrite (sl_16_32 esb).
  all: change (sl 0 16 esb) with (firstn 16 esb).
  all: rewrite (firstn_firstn esb 16 32); change (Nat.min 16 32) with 16%nat.
  all: set (key := skipn 32 esb).
  all: match goal with |- context [skipn 8 ?x] => set (t := x) end.
  all: change (sl 0 8 t) with (firstn 8 t).
  all: match goal with |- context [of_be (H ?x) =? 0] => set (fbz := of_be (H x)) end.
  all: destruct ((fbz =? 0) || (secp_order <=? fbz)); [fail_leaf|].
  all: match goal with |- context [address [x00] ?cm ?z] => set (secret := z) end.
  all: assert (Rs : 0 <= secret < 256 ^ 32) by
    (pose proof (Z.mod_pos_bound (pfz * fbz) secp_order ltac:(unfold secp_order; lia));
     pose proof secp_order_lt; unfold secret; lia).
  all: unfold finish.
  all: destruct (address [x00] cmp secret) as [a|] eqn:Ea; [|split; discriminate].
  all: destruct (bytes_eqb (firstn 4 (H a)) ah) eqn:Eb; cbn [negb]; [|split; discriminate].
  all: unfold lib_check_address; cbn [di_priv di_compressed di_hash].
  all: rewrite of_be_be_bytes_small by exact Rs.
  all: rewrite Ea, Eb; cbn [negb].
  all: split; intros E; inversion E; reflexivity.
Qed.

(* ---------------------------------------------------------------- Key(s, password=pw, network) vs the BIP *)
Theorem decrypt_is_spec pfx s pw k c :
  utf8 (nfc pw) = utf8 pw ->
  lib_is_protected s = true ->
  (forall d, b58d s = Some d -> bip38_flag_defined d = true /\ (is_ec_key d = true -> pfx = [x00])) ->
  key_decrypt pfx s pw = KOk k c <-> s_decrypt pfx s pw = Some (k, c).
Proof.
  intros Hn Hp G.
  unfold lib_key_decrypt, spec_decrypt, spec_b58check_dec, lib_bip38_decrypt. rewrite Hp. cbn [negb].
  destruct (b58d s) as [d|] eqn:Ed; [|split; discriminate].
  destruct (G d eq_refl) as [Gf Gp]. clear G.
  set (ck := bytes_eqb (last_n 4 d) (firstn 4 (H (firstn (length d - 4) d)))).
  destruct (Nat.eqb (length d) 43) eqn:EL.
  2:{ cbn [negb orb]. destruct ck; [|split; discriminate].
      rewrite eqb_len_body, EL. cbn [negb]. split; discriminate. }
  cbn [negb orb].
  destruct ck eqn:Eck; cbn [negb]; [|split; discriminate].
  rewrite eqb_len_body, EL. cbn [negb].
  apply Nat.eqb_eq in EL.
  destruct (split43 d EL) as (i & f & ah & oe & e1a & eh2 & cs & Li & Lah & Loe & L1 & L2 & Lcs & Ed').
  subst d. clear Eck.
  assert (Lbody : length (i ++ [f] ++ ah ++ oe ++ e1a ++ eh2) = 39%nat).
  { rewrite !app_length, Li, Lah, Loe, L1, L2. reflexivity. }
  assert (Ebody : firstn (length (i ++ [f] ++ ah ++ oe ++ e1a ++ eh2 ++ cs) - 4) (i ++ [f] ++ ah ++ oe ++ e1a ++ eh2 ++ cs)
                  = i ++ [f] ++ ah ++ oe ++ e1a ++ eh2).
  { rewrite EL. change (43 - 4)%nat with 39%nat.
    replace (i ++ [f] ++ ah ++ oe ++ e1a ++ eh2 ++ cs) with ((i ++ [f] ++ ah ++ oe ++ e1a ++ eh2) ++ cs)
      by (rewrite <- !app_assoc; reflexivity).
    apply firstn_exact. exact Lbody. }
  rewrite Ebody.
  assert (Sd : sl 0 2 (i ++ [f] ++ ah ++ oe ++ e1a ++ eh2 ++ cs) = i).
  { unfold sl. change (skipn 0 ?x) with x. change (2 - 0)%nat with 2%nat. apply firstn_exact. exact Li. }
  assert (Sb : sl 0 2 (i ++ [f] ++ ah ++ oe ++ e1a ++ eh2) = i).
  { unfold sl. change (skipn 0 ?x) with x. change (2 - 0)%nat with 2%nat. apply firstn_exact. exact Li. }
  assert (S23 : sl 2 3 (i ++ [f] ++ ah ++ oe ++ e1a ++ eh2 ++ cs) = [f]).
  { unfold sl. rewrite (skipn_exact i _ 2 Li). reflexivity. }
  unfold bip38_flag_defined, is_ec_key in Gf, Gp. rewrite Sd, S23 in Gf. rewrite Sd in Gp.
  rewrite Sd, Sb. clear Sd Sb S23 Ebody Lbody EL.
  destruct (bytes_eqb i pfx_ec) eqn:Eec.
  - (* EC-multiplied *)
    apply bytes_eqb_true in Eec. subst i.
    change (bytes_eqb pfx_ec pfx_noec) with false. cbv iota.
    rewrite (Gp eq_refl).
    apply (ec_agree f ah oe e1a eh2 cs pw k c Hn Lah Loe L1 L2 Lcs Gf).
  - destruct (bytes_eqb i pfx_noec) eqn:Eno; [|split; discriminate].
    apply bytes_eqb_true in Eno. subst i.
    assert (L16 : length (oe ++ e1a) = 16%nat) by (rewrite app_length, Loe, L1; reflexivity).
    pose proof (noec_agree pfx f ah (oe ++ e1a) eh2 cs pw k c Hn Lah L16 L2 Lcs Gf) as A.
    rewrite <- !app_assoc in A. exact A.
Qed.

End DecSpec.

(* the toy oracles of Model/Bip38.v satisfy the premises (used by the witnesses in Properties/C15.v) *)
Lemma toy_aes_len : aes_block_length toy_aes.
Proof. intros k b Hb. exact Hb. Qed.

Lemma toy_scrypt_len : scrypt_length toy_scrypt.
Proof.
  intros pw salt n r p dk. unfold toy_scrypt. rewrite firstn_length, !app_length, repeat_length. lia.
Qed.
