(* Proofs/PublicViewPaths.v - C16: a public PATH request never returns a private key object; what database rows print. *)
From Coq Require Import List String Bool Arith Lia.
From Verif Require Import Model.PublicViewPaths.
Import ListNotations.
Open Scope string_scope.

Lemma sfp_levels_public : forall n fp, snd (sfp_levels n (fp, false)) = false.
Proof.
  induction n as [|n IH]; intros fp; simpl; [reflexivity|].
  destruct fp; simpl; apply IH.
Qed.

Lemma sfp_levels_first_public : forall n priv, snd (sfp_levels (S n) (true, priv)) = false.
Proof. intros n priv. simpl. apply sfp_levels_public. Qed.

(* a path that starts with 'M': no private part in the result, whatever the key and however many levels (none too) *)
Lemma sfp_public_path_clean : forall priv levels, sfp priv StartPublic levels = false.
Proof.
  intros priv [|n]; unfold sfp; simpl sfp_first_public.
  - unfold sfp_start. simpl. destruct priv; reflexivity.
  - unfold sfp_start. replace (Nat.eqb (S n) 0) with false by reflexivity.
    rewrite andb_false_r. simpl andb. apply sfp_levels_first_public.
Qed.

(* every path asked of a key without private part *)
Lemma sfp_public_key_clean : forall s levels, sfp false s levels = false.
Proof.
  intros s levels. unfold sfp, sfp_start. rewrite !andb_false_r. apply sfp_levels_public.
Qed.

(* non-vacuity: the private path of a private key does return the private part *)
Lemma sfp_levels_private : forall n, snd (sfp_levels n (false, true)) = true.
Proof. induction n as [|n IH]; simpl; [reflexivity|exact IH]. Qed.
Lemma sfp_private_path_private : forall levels, sfp true StartPrivate levels = true /\ sfp true StartRelative levels = true.
Proof.
  intros levels; split; unfold sfp, sfp_start; simpl sfp_first_public; simpl andb; apply sfp_levels_private.
Qed.

(* database rows: the only class whose text shows a private-bearing column is DbKey (the recorded finding
   dbkey_repr_private_wif); no class prints a related row, so loading a relationship adds no key text to an export;
   the classes that define a presentation method are exactly the ones read here *)
Lemma rows_printing_private_is_dbkey : rows_printing_private = ["DbKey"].
Proof. vm_compute. reflexivity. Qed.
Lemma no_row_prints_rows : rows_printing_rows = [].
Proof. vm_compute. reflexivity. Qed.
Lemma presenting_classes_read : presenting_classes db_presentation_methods = map fst row_prints.
Proof. vm_compute. reflexivity. Qed.
