(* Proofs/WalletKeysPaths.v — C09: every key keys_for_path / new_keys hand out lies at the documented path of the
   REQUESTED witness type, network, account, change flag and index (bulk creation included).

   Needs a relational invariant of the book that holds in every reachable state: ids are unique, and the parent_id of
   every row below the main key points to the row one level above it on the same path (the bulk part of keys_for_path
   finds the parent of the first key through that column).  [ListInvariant] lifts any invariant that survives
   WalletKey.from_key with a fresh id and the `used` update through every operation. *)
From Coq Require Import ZArith Bool String List Lia.
From Verif Require Import Lib.Bytes Gen.GenNetworks Gen.GenWalletCfg Model.WalletKeys Proofs.WalletKeys
  Proofs.WalletKeysBook Proofs.WalletKeysIssue Proofs.WalletKeysReach.
Import ListNotations.
Open Scope Z_scope.

Section PathProofs.
Variable X : Type.
Variable derive : X -> pelem -> option X.

Notation keyrec := (keyrec X).
Notation wstate := (wstate X).

(* ------------------------------------------------------------------ structural facts, no invariant needed *)
Lemma next_id_above : forall (ks : list keyrec) k, In k ks -> k_id k < next_id X ks.
Proof.
  intros ks k H. unfold next_id.
  pose proof (fold_max_ge_elem (map k_id ks) 0 (k_id k) (in_map k_id ks k H)). lia.
Qed.

Lemma from_key_struct : forall (ks : list keyrec) id parent e x cl,
  In (snd (from_key X ks id parent e x cl)) (fst (from_key X ks id parent e x cl)) /\
  (forall k, In k ks -> In k (fst (from_key X ks id parent e x cl))) /\
  k_path (snd (from_key X ks id parent e x cl)) = k_path parent ++ [e] /\
  (forall k, In k (fst (from_key X ks id parent e x cl)) -> In k ks \/ k_id k = id).
Proof.
  intros ks id parent e x cl. unfold from_key.
  destruct (find_path X (k_path parent ++ [e]) ks) as [k0|] eqn:E; simpl.
  - apply find_path_some in E. destruct E as [Hin Hp]. repeat split; auto.
  - repeat split.
    + apply in_or_app. right. left. reflexivity.
    + intros k Hk. apply in_or_app. left. exact Hk.
    + intros k Hk. apply in_app_or in Hk. destruct Hk as [Hk|[Hk|[]]]; [left; exact Hk | right; subst k; reflexivity].
Qed.

Lemma create_chain_path : forall levels (ks : list keyrec) top cl ks' k,
  create_chain X derive ks top levels cl = (ks', Some k) -> k_path k = k_path top ++ levels.
Proof.
  induction levels as [|e rest IH]; intros ks top cl ks' k H; simpl in H.
  - inversion H; subst. rewrite app_nil_r. reflexivity.
  - destruct (derive (k_x top) e) as [x|]; [|discriminate].
    apply IH in H. destruct (from_key_struct ks (next_id X ks) top e x cl) as [_ [_ [P _]]].
    rewrite H, P, <- app_assoc. reflexivity.
Qed.

Lemma create_chain_in : forall levels (ks : list keyrec) top cl ks' r,
  In top ks -> create_chain X derive ks top levels cl = (ks', r) ->
  (forall k, In k ks -> In k ks') /\ (forall k, r = Some k -> In k ks').
Proof.
  induction levels as [|e rest IH]; intros ks top cl ks' r Ht H; simpl in H.
  - inversion H; subst. split; [auto|]. intros k E. inversion E; subst. exact Ht.
  - destruct (derive (k_x top) e) as [x|].
    + destruct (from_key_struct ks (next_id X ks) top e x cl) as [A [B _]].
      destruct (IH _ _ _ _ _ A H) as [C D]. split; [auto | exact D].
    + inversion H; subst. split; [auto|]. intros; discriminate.
Qed.

Lemma create_bulk_paths : forall count (ks : list keyrec) parent hard idx id cl ks' r,
  create_bulk X derive ks parent hard idx id count cl = (ks', Some r) ->
  forall j k, nth_error r j = Some k -> k_path k = k_path parent ++ [(idx + Z.of_nat j, hard)].
Proof.
  induction count as [|c IH]; intros ks parent hard idx id cl ks' r H j k Hj; simpl in H.
  - inversion H; subst. destruct j; discriminate.
  - destruct (derive (k_x parent) (idx, hard)) as [x|]; [|discriminate].
    destruct (create_bulk X derive (fst (from_key X ks id parent (idx, hard) x cl)) parent hard (idx + 1) (id + 1) c cl)
      as [ks2 [r2|]] eqn:B; [|discriminate].
    inversion H; subst. destruct j as [|j'].
    + simpl in Hj. inversion Hj; subst.
      destruct (from_key_struct ks id parent (idx, hard) x cl) as [_ [_ [P _]]]. rewrite P.
      replace (idx + Z.of_nat 0) with idx by lia. reflexivity.
    + simpl in Hj. rewrite (IH _ _ _ _ _ _ _ _ B j' k Hj).
      replace (idx + 1 + Z.of_nat j') with (idx + Z.of_nat (S j')) by lia. reflexivity.
Qed.

Lemma closest_prefix : forall n (ks : list keyrec) p k, closest X ks p n = Some k -> exists m, k_path k = firstn m p.
Proof.
  induction n as [|n IH]; intros ks p k H; simpl in H.
  - destruct (find_path X _ ks) eqn:E; [|discriminate]. inversion H; subst.
    apply find_path_some in E. exists O. tauto.
  - destruct (find_path X _ ks) eqn:E.
    + inversion H; subst. apply find_path_some in E. exists (S n). tauto.
    + eapply IH; eauto.
Qed.

(* ------------------------------------------------------------------ invariants of the whole list, lifted through every operation *)
Section ListInvariant.
Variable I : list keyrec -> Prop.
Hypothesis I_from_key : forall ks id parent e x cl,
  I ks -> In parent ks -> (forall k, In k ks -> k_id k < id) -> I (fst (from_key X ks id parent e x cl)).
Hypothesis I_used : forall ks id, I ks -> I (map (set_used X id) ks).

Lemma create_chain_linv : forall levels ks top cl ks' r,
  I ks -> In top ks -> create_chain X derive ks top levels cl = (ks', r) -> I ks'.
Proof.
  induction levels as [|e rest IH]; intros ks top cl ks' r HI Ht H; simpl in H.
  - inversion H; subst. exact HI.
  - destruct (derive (k_x top) e) as [x|].
    + destruct (from_key_struct ks (next_id X ks) top e x cl) as [A _].
      eapply IH; [|exact A|exact H]. apply I_from_key; auto. apply next_id_above.
    + inversion H; subst. exact HI.
Qed.

Lemma create_bulk_linv : forall count ks parent hard idx id cl ks' r,
  I ks -> In parent ks -> (forall k, In k ks -> k_id k < id) ->
  create_bulk X derive ks parent hard idx id count cl = (ks', r) -> I ks'.
Proof.
  induction count as [|c IH]; intros ks parent hard idx id cl ks' r HI Hp Hid H; simpl in H.
  - inversion H; subst. exact HI.
  - destruct (derive (k_x parent) (idx, hard)) as [x|].
    + destruct (create_bulk X derive (fst (from_key X ks id parent (idx, hard) x cl)) parent hard (idx + 1) (id + 1) c cl)
        as [ks2 r2] eqn:B.
      destruct (from_key_struct ks id parent (idx, hard) x cl) as [_ [S1 [_ S2]]].
      assert (I ks2).
      { eapply IH; [| |  |exact B].
        - apply I_from_key; auto.
        - apply S1. exact Hp.
        - intros k Hk. destruct (S2 k Hk) as [Hk'|E]; [specialize (Hid k Hk'); lia | lia]. }
      destruct r2; inversion H; subst; assumption.
    + inversion H; subst. exact HI.
Qed.

Lemma kfp_linv : forall w upath full lo acct ai chg wt net n,
  I (ws_keys w) -> I (ws_keys (fst (lib_keys_for_path X derive w upath full lo acct ai chg wt net n))).
Proof.
  intros w upath full lo acct ai chg wt net n HI.
  destruct (kfp_cases X derive w upath full lo acct ai chg wt net n) as [_ Hk].
  destruct Hk as [E | [top [lv [cl [ks1 [r1 [Ht [Hcc Hk]]]]]]]].
  - rewrite E. exact HI.
  - pose proof (create_chain_linv lv _ top cl ks1 r1 HI Ht Hcc) as HI1.
    destruct Hk as [E | [parent [hard [idx [id [cnt [ks2 [r2 [Hp [Hb [E Eid]]]]]]]]]]].
    + rewrite E. exact HI1.
    + rewrite E. eapply create_bulk_linv; [exact HI1 | exact Hp | | exact Hb].
      intros k Hk. pose proof (next_id_above ks1 k Hk). lia.
Qed.

Lemma new_keys_linv : forall w a ch wt net n,
  I (ws_keys w) -> I (ws_keys (fst (lib_new_keys X derive w a ch wt net n))).
Proof.
  intros w a ch wt net n HI. unfold lib_new_keys.
  repeat match goal with
         | |- context [match ?x with _ => _ end] => destruct x eqn:?
         end; simpl; auto. apply kfp_linv. exact HI.
Qed.

Lemma get_keys_linv : forall w a ch wt net n,
  I (ws_keys w) -> I (ws_keys (fst (lib_get_keys X derive w a ch wt net n))).
Proof.
  intros w a ch wt net n HI. unfold lib_get_keys.
  match goal with |- context [if ?c then _ else _] => destruct c end; simpl; auto.
  match goal with |- context [lib_new_keys X derive ?w ?a ?c ?t ?nn ?m] =>
    pose proof (new_keys_linv w a c t nn m HI) as Hn;
    destruct (lib_new_keys X derive w a c t nn m) as [w1 r1] end.
  simpl in Hn. destruct r1; simpl; exact Hn.
Qed.

Opaque lib_keys_for_path.
Lemma new_account_linv : forall w a wt net,
  I (ws_keys w) -> I (ws_keys (fst (lib_new_account X derive w a wt net))).
Proof.
  intros w a wt net HI. unfold lib_new_account.
  repeat match goal with
         | |- context [if ?c then _ else _] => destruct c; [exact HI | ]
         end.
  match goal with |- context [lib_keys_for_path X derive w ?p ?f ?lo ?ac ?ai ?cg ?t ?nn ?m] =>
    pose proof (kfp_linv w p f lo ac ai cg t nn m HI) as H1;
    destruct (lib_keys_for_path X derive w p f lo ac ai cg t nn m) as [w1 r1] end.
  simpl in H1. destruct r1; simpl; auto.
  match goal with |- context [lib_keys_for_path X derive w1 ?p ?f ?lo ?ac ?ai ?cg ?t ?nn ?m] =>
    pose proof (kfp_linv w1 p f lo ac ai cg t nn m H1) as H2;
    destruct (lib_keys_for_path X derive w1 p f lo ac ai cg t nn m) as [w2 r2] end.
  simpl in H2. destruct r2; simpl; auto.
  match goal with |- context [lib_keys_for_path X derive w2 ?p ?f ?lo ?ac ?ai ?cg ?t ?nn ?m] =>
    pose proof (kfp_linv w2 p f lo ac ai cg t nn m H2) as H3;
    destruct (lib_keys_for_path X derive w2 p f lo ac ai cg t nn m) as [w3 r3] end.
  simpl in H3. destruct r3; simpl; auto.
Qed.
Transparent lib_keys_for_path.

Lemma mark_used_linv : forall w j, I (ws_keys w) -> I (ws_keys (fst (lib_mark_used X w j))).
Proof.
  intros w j HI. unfold lib_mark_used.
  destruct (nth_error _ _) as [k|]; simpl; [|exact HI]. apply I_used. exact HI.
Qed.

Lemma scan_steps_linv : forall todo w acct net gap,
  I (ws_keys w) -> I (ws_keys (fst (scan_steps X derive w acct net gap todo))).
Proof.
  induction todo as [|[chg wt] r IH]; intros w acct net gap HI; simpl; [exact HI|].
  pose proof (get_keys_linv w (Some acct) chg (Some wt) (Some net) gap HI) as Hg.
  destruct (lib_get_keys X derive w (Some acct) chg (Some wt) (Some net) gap) as [w1 r1].
  simpl in Hg. destruct r1; simpl; [|exact Hg]. apply IH. exact Hg.
Qed.

Lemma step_linv : forall w o, I (ws_keys w) -> I (ws_keys (fst (step X derive w o))).
Proof.
  intros w o HI. destruct o; simpl.
  - apply new_keys_linv; exact HI.
  - apply get_keys_linv; exact HI.
  - apply new_account_linv; exact HI.
  - unfold lib_public_master. apply kfp_linv; exact HI.
  - apply kfp_linv; exact HI.
  - apply mark_used_linv; exact HI.
  - exact HI.
  - unfold lib_scan. apply scan_steps_linv; exact HI.
  - unfold lib_account.
    repeat match goal with
           | |- context [match ?x with _ => _ end] => destruct x eqn:?
           end; simpl; exact HI.
Qed.

Lemma run_linv : forall ops w, I (ws_keys w) -> I (ws_keys (run X derive w ops)).
Proof.
  induction ops as [|o ops IH]; intros w HI; simpl; [exact HI|].
  apply IH. apply step_linv. exact HI.
Qed.

Lemma wallet_create_linv : forall net wt acct root rd rp ri w,
  (forall mk : keyrec, k_path mk = [] -> I [mk]) ->
  lib_wallet_create X derive net wt acct root rd rp ri = Some w -> I (ws_keys w).
Proof.
  intros net wt acct root rd rp ri w Hroot H. unfold lib_wallet_create in H.
  repeat match type of H with
         | (if ?c then _ else _) = _ => destruct c; try discriminate
         | match ?x with _ => _ end = _ => destruct x eqn:?; try discriminate
         end;
  match goal with
  | Hk : lib_keys_for_path X derive ?w0 ?p ?f ?lo ?ac ?ai ?cg ?t ?nn ?m = (_, _) |- _ =>
      assert (HI0 : I (ws_keys w0)) by (apply Hroot; reflexivity);
      pose proof (kfp_linv w0 p f lo ac ai cg t nn m HI0) as Hr; rewrite Hk in Hr; simpl in Hr;
      inversion H; subst; exact Hr
  end.
Qed.

End ListInvariant.

(* ------------------------------------------------------------------ the parent invariant *)
Definition PInv (ks : list keyrec) : Prop :=
  NoDup (map k_id ks) /\
  forall k, In k ks -> k_path k <> [] ->
            exists p e, In p ks /\ k_id p = k_parent k /\ k_path k = k_path p ++ [e].

Lemma PInv_from_key : forall ks id parent e x cl,
  PInv ks -> In parent ks -> (forall k, In k ks -> k_id k < id) -> PInv (fst (from_key X ks id parent e x cl)).
Proof.
  intros ks id parent e x cl [Hn Hp] Hin Hid. unfold from_key.
  destruct (find_path X (k_path parent ++ [e]) ks); simpl; [split; assumption|].
  split.
  - rewrite map_app. simpl. apply NoDup_snoc; [exact Hn|].
    intros F. apply in_map_iff in F. destruct F as [k [E Hk]]. specialize (Hid k Hk). lia.
  - intros k Hk Hne. apply in_app_or in Hk. destruct Hk as [Hk|[Hk|[]]].
    + destruct (Hp k Hk Hne) as [p [e' [A [B C]]]]. exists p, e'. split; [apply in_or_app; left; exact A | auto].
    + subst k. simpl. exists parent, e. split; [apply in_or_app; left; exact Hin | auto].
Qed.

Lemma set_used_cols : forall id (k : keyrec),
  k_id (set_used X id k) = k_id k /\ k_parent (set_used X id k) = k_parent k /\ k_path (set_used X id k) = k_path k.
Proof. intros id k. unfold set_used. destruct (k_id k =? id); auto. Qed.

Lemma PInv_used : forall ks id, PInv ks -> PInv (map (set_used X id) ks).
Proof.
  intros ks id [Hn Hp]. split.
  - rewrite map_map. replace (map (fun x => k_id (set_used X id x)) ks) with (map k_id ks); [exact Hn|].
    apply map_ext. intros a. symmetry. apply set_used_cols.
  - intros k Hk Hne. apply in_map_iff in Hk. destruct Hk as [k0 [E Hk0]]. subst k.
    destruct (set_used_cols id k0) as [A [B C]]. rewrite C in Hne.
    destruct (Hp k0 Hk0 Hne) as [p [e [P1 [P2 P3]]]].
    exists (set_used X id p), e. destruct (set_used_cols id p) as [A' [B' C']].
    split; [apply in_map; exact P1|]. rewrite A', B, C, C'. auto.
Qed.

Lemma PInv_root : forall mk : keyrec, k_path mk = [] -> PInv [mk].
Proof.
  intros mk E. split; [simpl; constructor; [intros []|constructor]|].
  intros k [Hk|[]] Hne. subst k. contradiction.
Qed.

Theorem reachable_PInv : forall net wt acct root rd rp ri w g p ops,
  lib_wallet_create X derive net wt acct root rd rp ri = Some w ->
  PInv (ws_keys (run X derive (set_lib_fixes X w g p) ops)).
Proof.
  intros. apply (run_linv PInv PInv_from_key PInv_used). simpl.
  eapply (wallet_create_linv PInv PInv_from_key); eauto. apply PInv_root.
Qed.

(* the row found through the parent_id column lies one level above on the same path *)
Lemma parent_row : forall ks (k parent : keyrec),
  PInv ks -> In k ks -> k_path k <> [] -> find_id X (k_parent k) ks = Some parent ->
  exists e, k_path k = k_path parent ++ [e].
Proof.
  intros ks k parent [Hn Hp] Hk Hne Hf.
  destruct (Hp k Hk Hne) as [p [e [A [B C]]]].
  unfold find_id in Hf. apply find_some in Hf. destruct Hf as [Hin He]. apply Z.eqb_eq in He.
  assert (parent = p) by (eapply nodup_map_inj; eauto; congruence). subst p. exists e. exact C.
Qed.

(* ------------------------------------------------------------------ the documented path of a request *)
(* the two kinds of single-signature BIP32 wallet Wallet.create makes: main key = master (depth 0, key path
   m/purpose'/coin_type'/account'/change/address_index) or = account key (depth 3, key path M/change/address_index) *)
Definition wallet_shape (c : wcfg) : Prop :=
  exists tpl enc, lib_key_structure (w_wt c) false = Some (tpl, w_purpose c, enc) /\
    ((w_root_depth c = 0 /\ w_tpl c = tpl) \/ (w_root_depth c = 3 /\ w_tpl c = "M"%string :: skipn 4 tpl)).

(* BIP44 / 49 / 84: m/purpose'/coin'/account'/change/index; below an account-level main key the last two levels *)
Definition doc_path (c : wcfg) (wt : wtype) (coin acct chg idx : Z) : list pelem :=
  if w_root_depth c =? 0 then spec_path wt false coin acct chg idx 0 else spec_path_rel chg idx.

Lemma expand_doc : forall c wt' purpose' coin acct chg idx,
  wallet_shape c ->
  (if wtype_eqb wt' (w_wt c) then Some (w_purpose c)
   else match lib_key_structure wt' false with Some r => Some (snd (fst r)) | None => None end) = Some purpose' ->
  lib_path_expand [] false (w_tpl c) None
    {| pv_purpose := purpose'; pv_coin := coin; pv_account := acct; pv_script := script_type_id wt';
       pv_cosigner := 0; pv_change := chg; pv_index := idx |} = Some (doc_path c wt' coin acct chg idx).
Proof.
  intros c wt' purpose' coin acct chg idx [tpl [enc [Hs Hsh]]] Hp.
  destruct c as [net wt purpose ctpl depth priv cacct g p]. unfold doc_path. simpl in *.
  destruct wt, wt'; vm_compute in Hs; inversion Hs; subst; vm_compute in Hp; inversion Hp; subst;
    destruct Hsh as [[D T]|[D T]]; subst; reflexivity.
Qed.

Lemma doc_path_last : forall c wt coin acct chg (idx : Z),
  exists pre, (forall i, doc_path c wt coin acct chg i = pre ++ [(i, false)]).
Proof.
  intros c wt coin acct chg idx. unfold doc_path. destruct (w_root_depth c =? 0).
  - exists [(spec_purpose wt false, true); (coin, true); (acct, true); (chg, false)]. intros i. reflexivity.
  - exists [(chg, false)]. intros i. reflexivity.
Qed.

Lemma firstn_skipn_len : forall (A : Type) m (l : list A), firstn m l ++ skipn (length (firstn m l)) l = l.
Proof.
  intros A m l. rewrite firstn_length. destruct (Nat.le_ge_cases m (length l)) as [L|L].
  - rewrite Nat.min_l by exact L. apply firstn_skipn.
  - rewrite Nat.min_r by exact L. rewrite firstn_all2 by lia. rewrite skipn_all. apply app_nil_r.
Qed.

Lemma app_inj_last : forall (A : Type) (a b : list A) x y, a ++ [x] = b ++ [y] -> a = b /\ x = y.
Proof. intros A a b x y H. apply app_inj_tail in H. exact H. Qed.

Theorem kfp_documented_paths : forall (w : wstate) acct ai chg wt' net' coin n w' ks,
  PInv (ws_keys w) -> wallet_shape (ws_cfg w) -> coin_of net' = Some coin ->
  lib_keys_for_path X derive w [] false None (Some acct) ai chg (Some wt') (Some net') n = (w', Some ks) ->
  forall j k, nth_error ks j = Some k ->
    k_path k = doc_path (ws_cfg w) wt' coin acct chg (ai + Z.of_nat j).
Proof.
  intros w acct ai chg wt' net' coin n w' ks HP Hsh Hcoin H j k Hj.
  unfold lib_keys_for_path in H.
  destruct n as [|extra]; [inversion H; subst; destruct j; discriminate|].
  assert (E1 : fst (acct_defaults X w (Some net') (Some acct)) = net') by reflexivity.
  assert (E2 : snd (acct_defaults X w (Some net') (Some acct)) = acct) by reflexivity.
  rewrite E1, E2 in H. clear E1 E2. simpl opt_default in H. rewrite Hcoin in H. cbv zeta in H.
  destruct (kfp_witness_guard _ _ _ _ _); [discriminate|].
  match type of H with (if ?c then _ else _) = _ => destruct c; [discriminate|] end.
  match type of H with match ?o with Some _ => _ | None => _ end = _ => destruct o as [purpose|] eqn:Hpur; [|discriminate] end.
  rewrite (expand_doc _ _ _ coin acct chg ai Hsh Hpur) in H.
  set (fullpath := doc_path (ws_cfg w) wt' coin acct chg ai) in *.
  destruct (closest X (ws_keys w) fullpath (length fullpath)) as [top|] eqn:Hcl; [|discriminate].
  pose proof (closest_in X _ _ _ _ Hcl) as Htop.
  destruct (closest_prefix _ _ _ _ Hcl) as [m Hm].
  match type of H with (if ?c then _ else _) = _ => destruct c; [discriminate|] end.
  destruct (doc_path_last (ws_cfg w) wt' coin acct chg ai) as [pre Hpre].
  assert (Hne : fullpath <> []).
  { unfold fullpath. rewrite Hpre. intros F. destruct pre; discriminate. }
  (* the first key: found, or the end of the created chain *)
  assert (Hfirst : forall ks1 first cl,
            create_chain X derive (ws_keys w) top (skipn (length (k_path top)) fullpath) cl = (ks1, Some first) ->
            k_path first = fullpath).
  { intros ks1 first cl Hc. rewrite (create_chain_path _ _ _ _ _ _ Hc), Hm. apply firstn_skipn_len. }
  assert (Hbulk : forall ks1 first cl parent lastel rest ks2 r,
            create_chain X derive (ws_keys w) top (skipn (length (k_path top)) fullpath) cl = (ks1, Some first) ->
            find_id X (k_parent first) ks1 = Some parent -> rev fullpath = lastel :: rest ->
            create_bulk X derive ks1 parent (snd lastel) (fst lastel + 1) (next_id X ks1 + 1) extra cl = (ks2, Some r) ->
            forall j' k', nth_error r j' = Some k' ->
              k_path k' = doc_path (ws_cfg w) wt' coin acct chg (ai + Z.of_nat (S j'))).
  { intros ks1 first cl parent lastel rest ks2 r Hc Hf Hr Hb j' k' Hj'.
    pose proof (Hfirst _ _ _ Hc) as Pf.
    pose proof (create_chain_linv PInv PInv_from_key _ _ _ _ _ _ HP Htop Hc) as HP1.
    destruct (create_chain_in _ _ _ _ _ _ Htop Hc) as [_ Hin1]. specialize (Hin1 first eq_refl).
    assert (Pne : k_path first <> []) by (rewrite Pf; exact Hne).
    destruct (parent_row ks1 first parent HP1 Hin1 Pne Hf) as [e Pe].
    rewrite Pf in Pe. unfold fullpath in Pe. rewrite Hpre in Pe. apply app_inj_last in Pe. destruct Pe as [Ppre Pel].
    assert (Hl : lastel = (ai, false)).
    { unfold fullpath in Hr. rewrite Hpre, rev_app_distr in Hr. simpl in Hr. inversion Hr. reflexivity. }
    rewrite (create_bulk_paths _ _ _ _ _ _ _ _ _ Hb j' k' Hj'), <- Ppre, Hl. simpl. rewrite Hpre.
    do 2 f_equal. f_equal. lia. }
  (* case analysis on number_of_keys and found *)
  assert (Hone : forall first, k_path first = fullpath -> ks = [first] ->
            k_path k = doc_path (ws_cfg w) wt' coin acct chg (ai + Z.of_nat j)).
  { intros first Pf E. subst ks. destruct j as [|j']; [|destruct j'; discriminate].
    simpl in Hj. inversion Hj; subst. rewrite Pf. unfold fullpath. do 2 f_equal. simpl. lia. }
  destruct extra as [|extra'].
  - destruct (path_eqb (k_path top) fullpath) eqn:Hfound.
    + inversion H; subst. apply (Hone top); [apply path_eqb_eq; exact Hfound | reflexivity].
    + match type of H with (let (_, _) := ?cc in _) = _ => destruct cc as [ks1 [first|]] eqn:Hc end;
        [|discriminate].
      inversion H; subst. apply (Hone first); [eapply Hfirst; eauto | reflexivity].
  - destruct (path_eqb (k_path top) fullpath);
      (match type of H with (let (_, _) := ?cc in _) = _ => destruct cc as [ks1 [first|]] eqn:Hc end; [|discriminate];
       destruct (find_id X (k_parent first) ks1) as [parent|] eqn:Hf; [|discriminate];
       destruct (rev fullpath) as [|lastel rest] eqn:Hr; [discriminate|];
       match type of H with (let (_, _) := ?cb in _) = _ => destruct cb as [ks2 [r|]] eqn:Hb end; [|discriminate];
       inversion H; subst; destruct j as [|j'];
       [ simpl in Hj; inversion Hj; subst; rewrite (Hfirst _ _ _ Hc); unfold fullpath; do 2 f_equal; simpl; lia
       | simpl in Hj; eapply Hbulk; eauto ]).
Qed.

(* new_key(s): the same, from the next index of the chain on *)
Theorem new_keys_documented_paths : forall (w : wstate) acct chg wt net n coin w' ks,
  PInv (ws_keys w) -> wallet_shape (ws_cfg w) -> coin_of (req_net X w net acct) = Some coin ->
  lib_new_keys X derive w acct chg wt net n = (w', Some ks) ->
  exists purpose,
    op_purpose (ws_cfg w) (req_wt X w wt) = Some purpose /\
    forall j k, nth_error ks j = Some k ->
      k_path k = doc_path (ws_cfg w) (req_wt X w wt) coin (req_acct X w net acct) chg
                          (next_index X w purpose (req_net X w net acct) (req_acct X w net acct) (req_wt X w wt) chg
                           + Z.of_nat j).
Proof.
  intros w acct chg wt net n coin w' ks HP Hsh Hcoin H. unfold lib_new_keys in H.
  fold (req_net X w net acct) in H. fold (req_acct X w net acct) in H. fold (req_wt X w wt) in H.
  destruct (_ && _)%bool; [discriminate|].
  destruct (op_purpose (ws_cfg w) (req_wt X w wt)) as [purpose|] eqn:Hp; [|discriminate].
  exists purpose. split; [reflexivity|]. intros j k Hj.
  eapply kfp_documented_paths; eauto.
Qed.

(* ------------------------------------------------------------------ wallets made by Wallet.create have one of the two shapes *)
Lemma kfp_cfg : forall (w : wstate) upath full lo acct ai chg wt net n,
  ws_cfg (fst (lib_keys_for_path X derive w upath full lo acct ai chg wt net n)) = ws_cfg w.
Proof. intros. destruct (kfp_cases X derive w upath full lo acct ai chg wt net n) as [A _]. exact A. Qed.

Lemma wallet_create_cfg : forall net wt acct root rd rp ri w,
  0 <= rd -> lib_wallet_create X derive net wt acct root rd rp ri = Some w ->
  wallet_shape (ws_cfg w) /\ w_root_depth (ws_cfg w) = rd /\ w_root_private (ws_cfg w) = rp /\
  w_wt (ws_cfg w) = wt /\ w_net (ws_cfg w) = net /\ w_account (ws_cfg w) = acct /\ (rd = 0 \/ rd = 3).
Proof.
  intros net wt acct root rd rp ri w Hrd H. unfold lib_wallet_create in H.
  destruct (dogecoin_like net && negb (wtype_eqb wt Legacy))%bool; [discriminate|].
  destruct (lib_key_structure wt false) as [[[tpl purpose] enc]|] eqn:Hs; [|discriminate].
  assert (Hlh : last_hardened tpl = 3%nat) by (destruct wt; vm_compute in Hs; inversion Hs; subst; reflexivity).
  destruct (0 <? rd) eqn:Hpos.
  - rewrite Hlh in H. destruct (3 =? Z.to_nat rd)%nat eqn:E3; [|discriminate].
    apply Nat.eqb_eq in E3. assert (rd = 3) by lia. subst rd.
    match type of H with match ?kk with _ => _ end = _ => destruct kk as [w1 [r1|]] eqn:Hk; [|discriminate] end.
    inversion H; subst w1.
    match type of Hk with lib_keys_for_path X derive ?w0 _ _ _ _ _ _ _ _ _ = _ =>
      pose proof (kfp_cfg w0 [] false None (Some acct) 0 0 None None 1%nat) as C end.
    rewrite Hk in C. simpl in C.
    rewrite C. simpl. repeat split; auto. exists tpl, enc. split; [exact Hs|]. right. split; reflexivity.
  - assert (rd = 0) by (apply Z.ltb_ge in Hpos; lia). subst rd.
    match type of H with match ?kk with _ => _ end = _ => destruct kk as [w1 [r1|]] eqn:Hk; [|discriminate] end.
    inversion H; subst w1.
    match type of Hk with lib_keys_for_path X derive ?w0 _ _ _ _ _ _ _ _ _ = _ =>
      pose proof (kfp_cfg w0 [] false None (Some acct) 0 0 None None 1%nat) as C end.
    rewrite Hk in C. simpl in C.
    rewrite C. simpl. repeat split; auto. exists tpl, enc. split; [exact Hs|]. left. split; reflexivity.
Qed.

Lemma shape_account_level : forall c, wallet_shape c -> w_root_depth c = 3 -> account_level c /\ w_root_master c = false.
Proof.
  intros c [tpl [enc [Hs Hsh]]] Hd. destruct Hsh as [[D _]|[_ T]]; [lia|].
  unfold account_level, w_root_master. rewrite Hd, T. split; [|apply andb_false_r].
  split; [lia|]. destruct (w_wt c); vm_compute in Hs; inversion Hs; subst; reflexivity.
Qed.

(* every state a created wallet can reach (whichever library it mirrors), every request for address keys:
   the keys handed out lie at the documented path of the REQUESTED witness type, network, account, change flag and
   consecutive indices; and an account-level wallet answers only requests within its reach *)
Theorem reachable_handed_out_documented : forall net wt acct root rd rp ri w0 g p ops acct' ai chg wt' net' coin n w' ks j k,
  0 <= rd -> lib_wallet_create X derive net wt acct root rd rp ri = Some w0 ->
  coin_of net' = Some coin ->
  lib_keys_for_path X derive (run X derive (set_lib_fixes X w0 g p) ops) [] false None (Some acct') ai chg (Some wt')
                    (Some net') n = (w', Some ks) ->
  nth_error ks j = Some k ->
  k_path k = (if rd =? 0 then spec_path wt' false coin acct' chg (ai + Z.of_nat j) 0
              else spec_path_rel chg (ai + Z.of_nat j)) /\
  (rd <> 0 -> wt' = wt /\ (g = true -> net' = net /\ acct' = acct)).
Proof.
  intros net wt acct root rd rp ri w0 g p ops acct' ai chg wt' net' coin n w' ks j k Hrd Hw Hcoin H Hj.
  destruct (wallet_create_cfg _ _ _ _ _ _ _ _ Hrd Hw) as [Hsh [Hd [Hp [Hwt [Hnet [Hacct Hrd']]]]]].
  set (w := run X derive (set_lib_fixes X w0 g p) ops) in *.
  assert (Hcfg : ws_cfg w = ws_cfg (set_lib_fixes X w0 g p)).
  { unfold w. apply (run_inv X derive root ops (set_lib_fixes X w0 g p)). simpl.
    eapply wallet_create_inv; eauto. }
  assert (Hsh' : wallet_shape (ws_cfg w)) by (rewrite Hcfg; exact Hsh).
  assert (HP : PInv (ws_keys w)) by (eapply reachable_PInv; eauto).
  split.
  - rewrite (kfp_documented_paths w acct' ai chg wt' net' coin n w' ks HP Hsh' Hcoin H j k Hj).
    unfold doc_path. rewrite Hcfg. simpl. rewrite Hd. reflexivity.
  - intros Hnz. assert (Hrd3 : rd = 3) by (destruct Hrd'; [contradiction | assumption]).
    assert (Hd' : w_root_depth (ws_cfg w) = 3) by (rewrite Hcfg; simpl; rewrite Hd; exact Hrd3).
    destruct (shape_account_level _ Hsh' Hd') as [Hal Hnm].
    assert (Hn : n <> O).
    { intros E. subst n. unfold lib_keys_for_path in H. inversion H; subst. destruct j; discriminate. }
    assert (Hwt' : w_wt (ws_cfg w) = wt) by (rewrite Hcfg; exact Hwt).
    assert (Hnet' : w_net (ws_cfg w) = net) by (rewrite Hcfg; exact Hnet).
    assert (Hacct' : w_account (ws_cfg w) = acct) by (rewrite Hcfg; exact Hacct).
    assert (Hg : w_guard_reach (ws_cfg w) = g) by (rewrite Hcfg; reflexivity).
    split.
    + destruct (wtype_eqb wt' wt) eqn:E; [apply wtype_eqb_eq in E; exact E|].
      rewrite (kfp_refuses_foreign_witness_type X derive w [] false None (Some acct') ai chg (Some wt') (Some net') n Hnm)
        in H; [discriminate| |exact Hn].
      unfold req_wt. simpl. rewrite Hwt'. intros F. subst wt'.
      assert (T : wtype_eqb wt wt = true) by (apply wtype_eqb_eq; reflexivity). congruence.
    + intros Eg. rewrite Eg in Hg.
      destruct (String.eqb net' net) eqn:En; destruct (acct' =? acct) eqn:Ea;
        try (apply String.eqb_eq in En; apply Z.eqb_eq in Ea; auto; fail);
        exfalso;
        rewrite (kfp_refuses_foreign_network_or_account X derive w [] false None (Some acct') ai chg (Some wt')
                   (Some net') n Hg Hal Hn) in H; try discriminate.
      * right. unfold req_acct. simpl. rewrite Hacct'. apply Z.eqb_neq. exact Ea.
      * left. unfold req_net. simpl. rewrite Hnet'. apply String.eqb_neq. exact En.
      * left. unfold req_net. simpl. rewrite Hnet'. apply String.eqb_neq. exact En.
Qed.

End PathProofs.

(* ------------------------------------------------------------------ fixed-width serialisation (ser256 / ser32) *)
From Coq.Strings Require Import Byte.
(* The HMAC input of a hardened child is 0x00 || ser256(k) || ser32(i): 37 bytes whatever k is, and the 32 key bytes
   read back as k - a key that starts with zero bytes keeps them (BIP32 test vector 3). *)
Lemma hardened_data_fixed_width_lemma : forall k i,
  0 <= k < 2 ^ 256 ->
  length (x00 :: be_bytes 32 k ++ be_bytes 4 i) = 37%nat /\
  length (be_bytes 32 k) = 32%nat /\ of_be (be_bytes 32 k) = k.
Proof.
  intros k i Hk. split; [|split].
  - cbn [length]. rewrite app_length, !be_bytes_length. reflexivity.
  - apply be_bytes_length.
  - apply of_be_be_bytes_small. change (256 ^ Z.of_nat 32) with (2 ^ 256). exact Hk.
Qed.

(* two keys are serialised alike only when they are equal: stripping leading zero bytes would confuse k with
   another parent key (k * 256^j) *)
Lemma ser256_injective_lemma : forall a b,
  0 <= a < 2 ^ 256 -> 0 <= b < 2 ^ 256 -> be_bytes 32 a = be_bytes 32 b -> a = b.
Proof.
  intros a b Ha Hb H. apply (f_equal of_be) in H.
  rewrite !of_be_be_bytes_small in H by (change (256 ^ Z.of_nat 32) with (2 ^ 256); assumption). exact H.
Qed.
