(* Proofs/LedgerWitness.v — C08: concrete operations used by the witnesses in Properties/C08.v. *)
From Coq Require Import ZArith List Bool.
From Verif Require Import Lib.Bytes Model.Ledger.
Import ListNotations.
Open Scope Z_scope.

Definition G0 : grp := (0, 0).
Definition recv : op := UtxosUpdate true G0 None [mkP 6 101 0 100000000 10; mkP 6 102 0 100000000 10].
(* sweep of both outputs to an external address, broadcast *)
Definition sweep_tx : txdata :=
  mkD 900 G0 0 [mkIn 0 101 0 100000000 (Some 6); mkIn 1 102 0 100000000 (Some 6)]
      [(mkOut 0 199994464 None false, true)] [].
(* two payments created from the same output, both broadcast *)
Definition pay_a : txdata := mkD 901 G0 0 [mkIn 0 101 0 100000000 (Some 6)]
      [(mkOut 0 60000000 None false, true); (mkOut 1 39995301 (Some 8) false, true)] [].
Definition pay_b : txdata := mkD 902 G0 0 [mkIn 0 101 0 100000000 (Some 6)]
      [(mkOut 0 80000000 None false, true); (mkOut 1 19995301 (Some 8) false, true)] [].
(* a payment that spends the change of pay_a *)
Definition pay_c : txdata := mkD 903 G0 0 [mkIn 0 901 1 39995301 (Some 8)]
      [(mkOut 0 39990000 None false, true)] [].


(* two accounts whose key ids interleave: keys 6 and 9 belong to account 0, key 8 to account 1 *)
Definition G1 : grp := (0, 1).
Definition recv_a0 : op := UtxosUpdate false G0 None [mkP 6 201 0 100000 5; mkP 9 203 1 400000 5].
Definition recv_a1 : op := UtxosUpdate false G1 None [mkP 8 202 0 20000 5].
(* a payment of account 1 to an external address, change to key 8 of account 1 *)
Definition pay_a1 : txdata := mkD 904 G1 0 [mkIn 0 202 0 20000 (Some 8)]
      [(mkOut 0 12000 None false, true); (mkOut 1 7000 (Some 8) false, true)] [].
(* utxo_add on an address of account 1: the transaction row is filed under account 0 *)
Definition recv_cross : op := UtxosUpdate false G0 None [mkP 8 204 0 5000 3].

(* a funding transaction (301) with TWO outputs of the wallet, keys 6 and 8, spent by two different transactions *)
Definition recv2 : op := UtxosUpdate false G0 None [mkP 6 301 0 70000 3; mkP 8 301 1 50000 3].
Definition pay_x : txdata := mkD 911 G0 0 [mkIn 0 301 0 70000 (Some 6)] [(mkOut 0 60000 None false, true)] [].
Definition pay_y : txdata := mkD 912 G0 0 [mkIn 0 301 1 50000 (Some 8)] [(mkOut 0 40000 None false, true)] [].

(* two wallets in one database file: wallet 1 holds keys 6 and 8, wallet 2 holds keys 16 and 18 (the same addresses
   restored under a second name get their own key rows); both register the outpoints 101:0 and 102:0 *)
Definition recv_w2 : op := UtxosUpdate true G0 None [mkP 16 101 0 100000000 10; mkP 16 102 0 100000000 10].
(* wallet 2 spends 101:0 *)
Definition pay_w2 : txdata := mkD 921 G0 0 [mkIn 0 101 0 100000000 (Some 16)]
      [(mkOut 0 60000000 None false, true); (mkOut 1 39995301 (Some 18) false, true)] [].
Definition file_history : list dbop :=
  [DCreate 1 G0 true; DOp 1 (NewKey 6 G0 5); DOp 1 (NewKey 8 G0 5); DOp 1 recv;
   DCreate 2 G0 true; DOp 2 (NewKey 16 G0 5); DOp 2 (NewKey 18 G0 5); DOp 2 recv_w2;
   DOp 2 (Select G0 1 [(101, 0)]); DOp 2 (Store true pay_w2); DOp 2 Balance].
(* the variant of the code in which delete() does not end in a commit *)
Definition nocommit_variant : variant := mkVar true true false true false.
