(* Proofs/EvalIf.v — conditionals: whole-program comparison on WELL-NESTED programs over the straight-line
   fragment plus OP_IF / OP_NOTIF / OP_ELSE / OP_ENDIF, at most one OP_ELSE per OP_IF, nested to any depth.

   The library (Stack.op_if) splits the remaining commands into the two branches and continues with
   branch ++ rest; Core keeps a condition stack vfExec.  The two are related through
     - split_if_block_else / split_if_block      what the library's scan returns on a structured block,
     - core_run_app / core_skip / core_frame      Core's run is compositional, a structured block under a false
                                                  condition is a no-op, and under all-true conditions does not
                                                  look at the enclosing conditions,
     - core_if_else / core_if_noelse              hence Core on  IF t ELSE f ENDIF p  =  Core on  (t or f) ++ p,
   and the condition test itself is EvalNum.if_truth_is_cast. *)
From Coq Require Import ZArith List Bool Lia.
From Coq.Strings Require Import Byte.
From Verif Require Import Lib.Bytes Gen.GenConsts Model.Wire Model.EvalLib Model.EvalCore
  Proofs.ScriptNum Proofs.EvalNum Proofs.EvalOps Proofs.EvalRun.
Import ListNotations.
Open Scope Z_scope.

(* ---------- the class of programs ---------- *)

Definition is_if (n : Z) : bool := (n =? 99) || (n =? 100).      (* OP_IF, OP_NOTIF *)

(* 103 = OP_ELSE, 104 = OP_ENDIF.  Leaves are commands of the straight-line fragment (EvalRun.straight_cmd):
   good pushes, constants, and opcodes of S_ok — in executed AND in non-executed branches. *)
Inductive structured : list scmd -> Prop :=
| st_nil : structured []
| st_cmd c p : straight_cmd c = true -> structured p -> structured (c :: p)
| st_if n t p : is_if n = true -> structured t -> structured p ->
    structured (COp n :: t ++ COp 104 :: p)
| st_ifelse n t f p : is_if n = true -> structured t -> structured f -> structured p ->
    structured (COp n :: t ++ COp 103 :: f ++ COp 104 :: p).

Lemma blk_if_app n t p rest : (COp n :: t ++ COp 104 :: p) ++ rest = COp n :: t ++ COp 104 :: p ++ rest.
Proof. rewrite <- app_comm_cons, <- app_assoc, <- app_comm_cons. reflexivity. Qed.

Lemma blk_ifelse_app n t f p rest :
  (COp n :: t ++ COp 103 :: f ++ COp 104 :: p) ++ rest = COp n :: t ++ COp 103 :: f ++ COp 104 :: p ++ rest.
Proof.
  rewrite <- app_comm_cons, <- app_assoc, <- app_comm_cons, <- app_assoc, <- app_comm_cons. reflexivity.
Qed.

Lemma structured_app a b : structured a -> structured b -> structured (a ++ b).
Proof.
  intros Ha Hb. induction Ha as [|c p Hc Hp IHp|n t p Hn Ht IHt Hp IHp|n t f p Hn Ht IHt Hf IHf Hp IHp].
  - exact Hb.
  - rewrite <- app_comm_cons. apply st_cmd; assumption.
  - rewrite blk_if_app. apply st_if; assumption.
  - rewrite blk_ifelse_app. apply st_ifelse; assumption.
Qed.

Lemma straight_structured p : straight p = true -> structured p.
Proof.
  induction p as [|c p IH]; intros H; [apply st_nil|].
  cbn [straight forallb] in H. apply andb_true_iff in H. destruct H as [Hc Hp].
  apply st_cmd; [exact Hc|apply IH; exact Hp].
Qed.

(* a boolean recogniser: [parse_seq] consumes a maximal structured prefix and returns what is left (which is
   empty or starts with OP_ELSE / OP_ENDIF) *)
Fixpoint parse_seq (fuel : nat) (cmds : list scmd) : option (list scmd) :=
  match fuel with
  | O => None
  | S fu =>
      match cmds with
      | [] => Some []
      | CPush d :: r => if goodb d then parse_seq fu r else None
      | COp n :: r =>
          if is_if n then
            match parse_seq fu r with
            | Some (COp m :: r2) =>
                if m =? 104 then parse_seq fu r2
                else if m =? 103 then
                  match parse_seq fu r2 with
                  | Some (COp m' :: r3) => if m' =? 104 then parse_seq fu r3 else None
                  | _ => None
                  end
                else None
            | _ => None
            end
          else if (n =? 103) || (n =? 104) then Some cmds
          else if ok_op n then parse_seq fu r else None
      end
  end.

Definition structuredb (cmds : list scmd) : bool :=
  match parse_seq (S (length cmds)) cmds with Some [] => true | _ => false end.

Lemma parse_seq_sound fuel : forall cmds rem, parse_seq fuel cmds = Some rem ->
  exists pre, cmds = pre ++ rem /\ structured pre.
Proof.
  induction fuel as [|fu IH]; intros cmds rem H; [discriminate|].
  cbn [parse_seq] in H. destruct cmds as [|[n|d] r].
  - assert (rem = []) by congruence. subst. exists []. split; [reflexivity|apply st_nil].
  - destruct (is_if n) eqn:I.
    + destruct (parse_seq fu r) as [[|[m|?] r2]|] eqn:P1; try discriminate.
      destruct (IH _ _ P1) as (t & -> & St).
      destruct (m =? 104) eqn:E4.
      * apply Z.eqb_eq in E4. subst m. destruct (IH _ _ H) as (p & -> & Sp).
        exists (COp n :: t ++ COp 104 :: p). split; [rewrite blk_if_app; reflexivity|apply st_if; assumption].
      * destruct (m =? 103) eqn:E3; [|discriminate]. apply Z.eqb_eq in E3. subst m.
        destruct (parse_seq fu r2) as [[|[m'|?] r3]|] eqn:P2; try discriminate.
        destruct (IH _ _ P2) as (f & -> & Sf).
        destruct (m' =? 104) eqn:E4'; [|discriminate]. apply Z.eqb_eq in E4'. subst m'.
        destruct (IH _ _ H) as (p & -> & Sp).
        exists (COp n :: t ++ COp 103 :: f ++ COp 104 :: p).
        split; [rewrite blk_ifelse_app; reflexivity|apply st_ifelse; assumption].
    + destruct ((n =? 103) || (n =? 104)).
      * assert (rem = COp n :: r) by congruence. subst. exists []. split; [reflexivity|apply st_nil].
      * destruct (ok_op n) eqn:O; [|discriminate]. destruct (IH _ _ H) as (p & -> & Sp).
        exists (COp n :: p). split; [reflexivity|apply st_cmd; [exact O|exact Sp]].
  - destruct (goodb d) eqn:G; [|discriminate]. destruct (IH _ _ H) as (p & -> & Sp).
    exists (CPush d :: p). split; [reflexivity|apply st_cmd; [exact G|exact Sp]].
Qed.

Lemma structuredb_sound cmds : structuredb cmds = true -> structured cmds.
Proof.
  unfold structuredb. intros H.
  destruct (parse_seq (S (length cmds)) cmds) as [[|? ?]|] eqn:P; try discriminate.
  destruct (parse_seq_sound _ _ _ P) as (pre & E & S). rewrite app_nil_r in E. subst. exact S.
Qed.

(* ---------- facts about the opcode numbers of the fragment ---------- *)

Lemma op_if_99 : op_if = 99. Proof. vm_compute. reflexivity. Qed.
Lemma op_notif_100 : op_notif = 100. Proof. vm_compute. reflexivity. Qed.

Lemma ok_op_parts n : ok_op n = true ->
  core_disabled n = false /\ core_flow n = false /\ lib_flow n = false /\
  ((exists v, lib_const n = Some v /\ core_const n = Some v) \/
   (exists k, lib_const n = None /\ core_const n = None /\ lib_dispatch n = DKind k /\
              zassoc n core_kinds = Some k /\ In k S_ok)).
Proof.
  unfold ok_op. intros H.
  apply andb_true_iff in H. destruct H as [H H4].
  apply andb_true_iff in H. destruct H as [H H3].
  apply andb_true_iff in H. destruct H as [H1 H2].
  apply negb_true_iff in H1, H2, H3.
  split; [exact H1|]. split; [exact H2|]. split; [exact H3|].
  destruct (lib_const n) as [a|], (core_const n) as [b|]; try discriminate.
  - left. apply bytes_eqb_true in H4. subst b. exists a. split; reflexivity.
  - right. destruct (lib_dispatch n) as [| | |k]; try discriminate.
    destruct (zassoc n core_kinds) as [k'|]; try discriminate.
    apply andb_true_iff in H4. destruct H4 as [E1 E2]. apply opk_eqb_true in E1. subst k'.
    exists k. repeat split; try reflexivity.
    apply existsb_exists in E2. destruct E2 as (k2 & I2 & E2). apply opk_eqb_true in E2. subst. exact I2.
Qed.

Lemma noflow_eqb n : core_flow n = false ->
  (n =? 99) = false /\ (n =? 100) = false /\ (n =? 103) = false /\ (n =? 104) = false.
Proof.
  unfold core_flow. intros H.
  repeat split; apply Z.eqb_neq; intros E; subst n; vm_compute in H; discriminate H.
Qed.

Lemma is_if_cases n : is_if n = true -> n = 99 \/ n = 100.
Proof.
  unfold is_if. intros H. apply orb_true_iff in H. destruct H as [H|H]; apply Z.eqb_eq in H; auto.
Qed.

(* ---------- the library's branch scan on structured code ---------- *)

Lemma rev_append_app {A} (a b acc : list A) : rev_append (a ++ b) acc = rev_append b (rev_append a acc).
Proof. revert acc. induction a as [|x a IH]; intros acc; [reflexivity|]. cbn. apply IH. Qed.

Lemma rev_rev_append_nil {A} (l : list A) : rev (rev_append l []) = l.
Proof. rewrite rev_append_rev, app_nil_r. apply rev_involutive. Qed.

Definition acc_t (inf : bool) (t ta : list scmd) := if inf then ta else rev_append t ta.
Definition acc_f (inf : bool) (t fa : list scmd) := if inf then rev_append t fa else fa.

Lemma split_if_cmd c rest d inf ta fa : straight_cmd c = true ->
  split_if (c :: rest) d inf ta fa = split_if rest d inf (acc_t inf [c] ta) (acc_f inf [c] fa).
Proof.
  intros H. destruct c as [n|dd].
  - cbn [straight_cmd] in H. destruct (ok_op_parts n H) as (_ & F & _).
    destruct (noflow_eqb n F) as (E1 & E2 & E3 & E4).
    cbn [split_if]. rewrite E1, E2, E3, E4. cbn [orb andb]. destruct inf; reflexivity.
  - cbn [split_if]. destruct inf; reflexivity.
Qed.

Lemma split_if_open n rest d inf ta fa : is_if n = true ->
  split_if (COp n :: rest) d inf ta fa = split_if rest (S d) inf (acc_t inf [COp n] ta) (acc_f inf [COp n] fa).
Proof.
  intros H. cbn [split_if]. unfold is_if in H. rewrite H. destruct inf; reflexivity.
Qed.

Lemma split_if_else_deep rest d inf ta fa :
  split_if (COp 103 :: rest) (S d) inf ta fa =
  split_if rest (S d) inf (acc_t inf [COp 103] ta) (acc_f inf [COp 103] fa).
Proof. cbn [split_if]. destruct inf; reflexivity. Qed.

Lemma split_if_endif_deep rest d inf ta fa :
  split_if (COp 104 :: rest) (S d) inf ta fa =
  split_if rest d inf (acc_t inf [COp 104] ta) (acc_f inf [COp 104] fa).
Proof. cbn [split_if]. destruct inf; reflexivity. Qed.

Lemma acc_t_app inf a b ta : acc_t inf (a ++ b) ta = acc_t inf b (acc_t inf a ta).
Proof. unfold acc_t. destruct inf; [reflexivity|apply rev_append_app]. Qed.
Lemma acc_f_app inf a b fa : acc_f inf (a ++ b) fa = acc_f inf b (acc_f inf a fa).
Proof. unfold acc_f. destruct inf; [apply rev_append_app|reflexivity]. Qed.

(* the scan walks over a structured piece without changing depth or branch, collecting it *)
Lemma split_if_structured t : structured t -> forall rest d inf ta fa,
  split_if (t ++ rest) d inf ta fa = split_if rest d inf (acc_t inf t ta) (acc_f inf t fa).
Proof.
  induction 1 as [|c p Hc Hp IHp|n t p Hn Ht IHt Hp IHp|n t f p Hn Ht IHt Hf IHf Hp IHp];
    intros rest d inf ta fa.
  - destruct inf; reflexivity.
  - rewrite <- app_comm_cons, split_if_cmd by exact Hc. rewrite IHp.
    change (c :: p) with ([c] ++ p). rewrite acc_t_app, acc_f_app. reflexivity.
  - rewrite blk_if_app, split_if_open by exact Hn. rewrite IHt, split_if_endif_deep, IHp.
    change (COp n :: t ++ COp 104 :: p) with ([COp n] ++ t ++ [COp 104] ++ p).
    rewrite !acc_t_app, !acc_f_app. reflexivity.
  - rewrite blk_ifelse_app, split_if_open by exact Hn.
    rewrite IHt, split_if_else_deep, IHf, split_if_endif_deep, IHp.
    change (COp n :: t ++ COp 103 :: f ++ COp 104 :: p) with ([COp n] ++ t ++ [COp 103] ++ f ++ [COp 104] ++ p).
    rewrite !acc_t_app, !acc_f_app. reflexivity.
Qed.

Lemma split_if_block_else t f p : structured t -> structured f ->
  split_if (t ++ COp 103 :: f ++ COp 104 :: p) 0 false [] [] = Some (t, f, p).
Proof.
  intros Ht Hf. rewrite (split_if_structured t Ht). cbn [acc_t acc_f].
  assert (E : forall rest ta fa, split_if (COp 103 :: rest) 0 false ta fa = split_if rest 0 true ta fa)
    by reflexivity.
  rewrite E. rewrite (split_if_structured f Hf). cbn [acc_t acc_f split_if].
  cbn. rewrite !rev_rev_append_nil. reflexivity.
Qed.

Lemma split_if_block t p : structured t ->
  split_if (t ++ COp 104 :: p) 0 false [] [] = Some (t, [], p).
Proof.
  intros Ht. rewrite (split_if_structured t Ht). cbn [acc_t acc_f]. cbn. rewrite rev_rev_append_nil. reflexivity.
Qed.

(* ---------- Core's run ---------- *)

Definition alltrue (vf : list bool) : bool := forallb (fun b => b) vf.

Definition cbind (r : crun) (k : stack -> list bool -> crun) : crun :=
  match r with CDone s vf => k s vf | CFail => CFail | COut => COut end.

Definition relift (vf : list bool) (r : crun) : crun :=
  match r with CDone s _ => CDone s vf | CFail => CFail | COut => COut end.

(* which branch an OP_IF (99) / OP_NOTIF (100) takes on condition item x *)
Definition takes_true (n : Z) (x : bytes) : bool := if n =? 100 then negb (cast_to_bool x) else cast_to_bool x.

Section If.
  Variable h_ripemd160 h_sha1 h_sha256 : bytes -> bytes.
  Variable sigcheck : bytes -> bytes -> sigres.
  Variable e : env.
  Variable fl : flags.
  Hypothesis h_ripemd160_good : forall x, good (h_ripemd160 x).
  Hypothesis h_sha1_good : forall x, good (h_sha1 x).
  Hypothesis h_sha256_good : forall x, good (h_sha256 x).

  Notation lop := (lib_op h_ripemd160 h_sha1 h_sha256 sigcheck e).
  Notation cop := (core_op h_ripemd160 h_sha1 h_sha256 sigcheck e fl).
  Notation lrn := (lib_run h_ripemd160 h_sha1 h_sha256 sigcheck e).
  Notation crn := (core_run h_ripemd160 h_sha1 h_sha256 sigcheck e fl).

  (* --- Core is compositional --- *)
  Lemma core_run_app a : forall b s vf,
    crn (a ++ b) s vf = cbind (crn a s vf) (fun s' vf' => crn b s' vf').
  Proof.
    induction a as [|c a IH]; intros b s vf; [reflexivity|].
    rewrite <- app_comm_cons. cbn [core_run]. destruct c as [n|d].
    - destruct (core_disabled n); [reflexivity|].
      destruct ((99 <=? n) && (n <=? 104)).
      + destruct ((n =? 99) || (n =? 100)).
        * destruct (forallb (fun b0 => b0) vf); [destruct s; [reflexivity|apply IH]|apply IH].
        * destruct (n =? 103); [destruct vf; [reflexivity|apply IH]|].
          destruct (n =? 104); [destruct vf; [reflexivity|apply IH]|reflexivity].
      + destruct (forallb (fun b0 => b0) vf); [|apply IH].
        destruct (n =? 0); [apply IH|]. destruct (n =? 79); [apply IH|].
        destruct ((81 <=? n) && (n <=? 96)); [apply IH|].
        destruct (zassoc n core_kinds); [|reflexivity].
        destruct (cop o s); [apply IH|reflexivity].
    - destruct (forallb (fun b0 => b0) vf); apply IH.
  Qed.

  (* --- single commands --- *)
  Definition cstep (c : scmd) (s : stack) : option stack :=
    match c with
    | CPush d => Some (d :: s)
    | COp n =>
        match core_const n with
        | Some v => Some (v :: s)
        | None => match zassoc n core_kinds with Some k => cop k s | None => None end
        end
    end.

  Definition lstep (c : scmd) (s : stack) : opres :=
    match c with
    | CPush d => ROk (d :: s)
    | COp n =>
        match lib_const n with
        | Some v => ROk (v :: s)
        | None => match lib_dispatch n with DKind k => lop k s | _ => RExc s end
        end
    end.

  Lemma core_run_straight c p s vf : straight_cmd c = true -> alltrue vf = true ->
    crn (c :: p) s vf = match cstep c s with Some s' => crn p s' vf | None => CFail end.
  Proof.
    unfold alltrue. intros H A. destruct c as [n|d].
    - cbn [straight_cmd] in H. destruct (ok_op_parts n H) as (D & F & _ & [(v & _ & CC)|(k & _ & CC & _ & CK & _)]).
      + cbn [core_run cstep]. rewrite CC. unfold core_flow in F. rewrite D, F, A. unfold core_const in CC.
        destruct (n =? 0); [injection CC as <-; reflexivity|].
        destruct (n =? 79); [injection CC as <-; reflexivity|].
        destruct ((81 <=? n) && (n <=? 96)); [injection CC as <-; reflexivity|discriminate].
      + cbn [core_run cstep]. rewrite CC, CK. unfold core_flow in F. rewrite D, F, A. unfold core_const in CC.
        destruct (n =? 0); [discriminate|]. destruct (n =? 79); [discriminate|].
        destruct ((81 <=? n) && (n <=? 96)); [discriminate|]. reflexivity.
    - cbn [core_run cstep]. rewrite A. reflexivity.
  Qed.

  Lemma core_skip_straight c p s vf : straight_cmd c = true -> alltrue vf = false ->
    crn (c :: p) s vf = crn p s vf.
  Proof.
    unfold alltrue. intros H A. destruct c as [n|d].
    - cbn [straight_cmd] in H. destruct (ok_op_parts n H) as (D & F & _).
      cbn [core_run]. unfold core_flow in F. rewrite D, F, A. reflexivity.
    - cbn [core_run]. rewrite A. reflexivity.
  Qed.

  Lemma lib_run_straight fu c p s : straight_cmd c = true ->
    lrn (S fu) (c :: p) s =
    match lstep c s with
    | ROk s' => lrn fu p s'
    | RFalse s' => fin Invalid s'
    | RExc s' => fin Invalid s'
    end.
  Proof.
    intros H. destruct c as [n|d]; [|reflexivity].
    cbn [straight_cmd] in H. destruct (ok_op_parts n H) as (_ & _ & LF & [(v & LC & _)|(k & LC & _ & LD & _ & _)]).
    - rewrite (lib_run_const _ _ _ _ _ fu n v) by exact LC. cbn [lstep]. rewrite LC. reflexivity.
    - rewrite (lib_run_kind _ _ _ _ _ fu n k) by assumption. cbn [lstep]. rewrite LC, LD. reflexivity.
  Qed.

  Lemma step_agree c s : straight_cmd c = true -> Forall good s -> op_agree_good (lstep c s) (cstep c s).
  Proof.
    intros H G. destruct c as [n|d].
    - cbn [straight_cmd] in H.
      destruct (ok_op_parts n H) as (_ & _ & _ & [(v & LC & CC)|(k & LC & CC & LD & CK & IN)]).
      + cbn [lstep cstep]. rewrite LC, CC. cbn. split; [reflexivity|]. apply Forall_cons; [|exact G].
        unfold lib_const in LC.
        destruct (n =? op_0); [injection LC as <-; apply good_enc|].
        destruct (n =? op_1negate); [injection LC as <-; apply good_enc|].
        destruct ((op_1 <=? n) && (n <=? op_16)); [injection LC as <-; apply good_enc|discriminate].
      + cbn [lstep cstep]. rewrite LC, CC, LD, CK.
        apply (S_ok_agree h_ripemd160 h_sha1 h_sha256 sigcheck e fl); assumption.
    - cbn [straight_cmd] in H. cbn. split; [reflexivity|].
      apply Forall_cons; [apply goodb_good; exact H|exact G].
  Qed.

  (* --- flow opcodes in Core --- *)
  Lemma core_run_if n rest s vf : is_if n = true ->
    crn (COp n :: rest) s vf =
    if alltrue vf then
      match s with
      | [] => CFail
      | x :: r => crn rest r (takes_true n x :: vf)
      end
    else crn rest s (false :: vf).
  Proof. intros H. destruct (is_if_cases n H) as [-> | ->]; reflexivity. Qed.

  Lemma core_run_else rest s vf :
    crn (COp 103 :: rest) s vf = match vf with [] => CFail | b :: vf' => crn rest s (negb b :: vf') end.
  Proof. reflexivity. Qed.

  Lemma core_run_endif rest s vf :
    crn (COp 104 :: rest) s vf = match vf with [] => CFail | _ :: vf' => crn rest s vf' end.
  Proof. reflexivity. Qed.

  (* --- a structured piece under a false condition does nothing --- *)
  Lemma core_skip t : structured t -> forall s vf, alltrue vf = false -> crn t s vf = CDone s vf.
  Proof.
    induction 1 as [|c p Hc Hp IHp|n t p Hn Ht IHt Hp IHp|n t f p Hn Ht IHt Hf IHf Hp IHp]; intros s vf A.
    - reflexivity.
    - rewrite core_skip_straight by assumption. apply IHp. exact A.
    - rewrite core_run_if by exact Hn. rewrite A. rewrite core_run_app.
      rewrite (IHt s (false :: vf)) by reflexivity. cbn [cbind]. rewrite core_run_endif. apply IHp. exact A.
    - rewrite core_run_if by exact Hn. rewrite A. rewrite core_run_app.
      rewrite (IHt s (false :: vf)) by reflexivity. cbn [cbind]. rewrite core_run_else. cbn [negb].
      rewrite core_run_app. rewrite (IHf s (true :: vf)) by exact A. cbn [cbind]. rewrite core_run_endif.
      apply IHp. exact A.
  Qed.

  (* --- under all-true conditions a structured piece does not look at the enclosing conditions --- *)
  Lemma core_frame t : structured t -> forall s vf, alltrue vf = true -> crn t s vf = relift vf (crn t s []).
  Proof.
    induction 1 as [|c p Hc Hp IHp|n t p Hn Ht IHt Hp IHp|n t f p Hn Ht IHt Hf IHf Hp IHp]; intros s vf A.
    - reflexivity.
    - rewrite !core_run_straight by (assumption || reflexivity).
      destruct (cstep c s) as [s'|]; [apply IHp; exact A|reflexivity].
    - rewrite !core_run_if by exact Hn. rewrite A. change (alltrue []) with true. cbv iota.
      destruct s as [|x r]; [reflexivity|]. rewrite !core_run_app.
      destruct (takes_true n x).
      + rewrite (IHt r (true :: vf)) by exact A. rewrite (IHt r [true]) by reflexivity.
        destruct (crn t r []) as [| |s' vf']; [reflexivity|reflexivity|]. cbn [relift cbind].
        rewrite !core_run_endif. apply IHp. exact A.
      + rewrite !(core_skip t Ht) by reflexivity. cbn [cbind]. rewrite !core_run_endif. apply IHp. exact A.
    - rewrite !core_run_if by exact Hn. rewrite A. change (alltrue []) with true. cbv iota.
      destruct s as [|x r]; [reflexivity|]. rewrite !core_run_app.
      destruct (takes_true n x).
      + rewrite (IHt r (true :: vf)) by exact A. rewrite (IHt r [true]) by reflexivity.
        destruct (crn t r []) as [| |s' vf']; [reflexivity|reflexivity|]. cbn [relift cbind].
        rewrite !core_run_else. cbn [negb]. rewrite !core_run_app.
        rewrite !(core_skip f Hf) by reflexivity. cbn [cbind]. rewrite !core_run_endif. apply IHp. exact A.
      + rewrite !(core_skip t Ht) by reflexivity. cbn [cbind]. rewrite !core_run_else. cbn [negb].
        rewrite !core_run_app.
        rewrite (IHf r (true :: vf)) by exact A. rewrite (IHf r [true]) by reflexivity.
        destruct (crn f r []) as [| |s' vf']; [reflexivity|reflexivity|]. cbn [relift cbind].
        rewrite !core_run_endif. apply IHp. exact A.
  Qed.

  (* a structured piece started with an empty condition stack ends with an empty condition stack *)
  Lemma core_balanced t s s' vf' : structured t -> crn t s [] = CDone s' vf' -> vf' = [].
  Proof.
    intros Ht E. pose proof (core_frame t Ht s [] eq_refl) as F. rewrite E in F. cbn [relift] in F. congruence.
  Qed.

  (* --- Core on a conditional block = Core on the chosen branch followed by the rest --- *)
  Lemma core_if_else n t f p x r : is_if n = true -> structured t -> structured f ->
    crn (COp n :: t ++ COp 103 :: f ++ COp 104 :: p) (x :: r) [] =
    crn ((if takes_true n x then t else f) ++ p) r [].
  Proof.
    intros Hn Ht Hf. rewrite core_run_if by exact Hn. change (alltrue []) with true. cbv iota.
    rewrite !core_run_app. destruct (takes_true n x).
    - rewrite (core_frame t Ht r [true]) by reflexivity.
      destruct (crn t r []) as [| |s' vf'] eqn:E; [reflexivity|reflexivity|].
      apply core_balanced in E; [|exact Ht]. subst vf'. cbn [relift cbind].
      rewrite core_run_else. cbn [negb]. rewrite core_run_app. rewrite (core_skip f Hf) by reflexivity.
      cbn [cbind]. rewrite core_run_endif. reflexivity.
    - rewrite (core_skip t Ht) by reflexivity. cbn [cbind]. rewrite core_run_else. cbn [negb].
      rewrite core_run_app. rewrite (core_frame f Hf r [true]) by reflexivity.
      destruct (crn f r []) as [| |s' vf'] eqn:E; [reflexivity|reflexivity|].
      apply core_balanced in E; [|exact Hf]. subst vf'. cbn [relift cbind].
      rewrite core_run_endif. reflexivity.
  Qed.

  Lemma core_if_noelse n t p x r : is_if n = true -> structured t ->
    crn (COp n :: t ++ COp 104 :: p) (x :: r) [] =
    crn ((if takes_true n x then t else []) ++ p) r [].
  Proof.
    intros Hn Ht. rewrite core_run_if by exact Hn. change (alltrue []) with true. cbv iota.
    rewrite core_run_app. destruct (takes_true n x).
    - rewrite core_run_app. rewrite (core_frame t Ht r [true]) by reflexivity.
      destruct (crn t r []) as [| |s' vf'] eqn:E; [reflexivity|reflexivity|].
      apply core_balanced in E; [|exact Ht]. subst vf'. cbn [relift cbind].
      rewrite core_run_endif. reflexivity.
    - rewrite (core_skip t Ht) by reflexivity. cbn [cbind]. rewrite core_run_endif. reflexivity.
  Qed.

  Lemma core_if_empty n rest : is_if n = true -> crn (COp n :: rest) [] [] = CFail.
  Proof. intros Hn. rewrite core_run_if by exact Hn. reflexivity. Qed.

  (* --- the library on a conditional block --- *)
  Lemma lib_flow_tests n : is_if n = true ->
    (n =? op_0) = false /\ (n =? op_1negate) = false /\ ((op_1 <=? n) && (n <=? op_16)) = false /\
    ((n =? op_if) || (n =? op_notif)) = true /\ (n =? op_notif) = (n =? 100).
  Proof. intros H. destruct (is_if_cases n H) as [-> | ->]; vm_compute; repeat split. Qed.

  (* the item OP_NOTIF puts back before op_if pops it selects the other branch *)
  Lemma notif_flip x : (dec (if dec x =? 0 then [x01] else [x00]) =? 0) = negb (dec x =? 0).
  Proof. destruct (dec x =? 0); vm_compute; reflexivity. Qed.

  Lemma lib_run_if_gen fu n rest s t f p : is_if n = true ->
    split_if rest 0 false [] [] = Some (t, f, p) ->
    lrn (S fu) (COp n :: rest) s =
    match s with
    | [] => fin CrashIndex []
    | x :: r => lrn fu ((if takes_true n x then t else f) ++ p) r
    end.
  Proof.
    intros Hn Sp. destruct (lib_flow_tests n Hn) as (E1 & E2 & E3 & E4 & E5).
    cbn [lib_run]. rewrite E1, E2, E3, E4, E5, Sp. unfold takes_true.
    destruct s as [|x r].
    - destruct (n =? 100); reflexivity.
    - destruct (n =? 100).
      + rewrite notif_flip. unfold dec. rewrite if_truth_is_cast, negb_involutive.
        destruct (cast_to_bool x); reflexivity.
      + unfold dec. rewrite if_truth_is_cast. destruct (cast_to_bool x); reflexivity.
  Qed.

  Lemma lib_if_else fu n t f p s : is_if n = true -> structured t -> structured f ->
    lrn (S fu) (COp n :: t ++ COp 103 :: f ++ COp 104 :: p) s =
    match s with
    | [] => fin CrashIndex []
    | x :: r => lrn fu ((if takes_true n x then t else f) ++ p) r
    end.
  Proof. intros Hn Ht Hf. apply lib_run_if_gen; [exact Hn|apply split_if_block_else; assumption]. Qed.

  Lemma lib_if_noelse fu n t p s : is_if n = true -> structured t ->
    lrn (S fu) (COp n :: t ++ COp 104 :: p) s =
    match s with
    | [] => fin CrashIndex []
    | x :: r => lrn fu ((if takes_true n x then t else []) ++ p) r
    end.
  Proof. intros Hn Ht. apply lib_run_if_gen; [exact Hn|apply split_if_block; assumption]. Qed.

  (* ---------- the whole-program theorem ---------- *)

  (* either the two agree, or the library raised IndexError out of op_if / op_notif (condition item
     missing) where Core fails the script *)
  Definition agree_or_ifcrash (l : lres) (c : verdict * stack) : Prop :=
    agree l c \/ (r_verdict l = CrashIndex /\ fst c = Invalid).

  Lemma agree_if_measure m : forall cmds fu s,
    (length cmds <= m)%nat -> (length cmds < fu)%nat -> structured cmds -> Forall good s ->
    agree_or_ifcrash (lrn fu cmds s) (core_finish (crn cmds s [])).
  Proof.
    induction m as [|m IH]; intros cmds fu s Hm Hfu Hs G.
    - destruct cmds; [|cbn in Hm; lia].
      left. apply (agree_straightline_gen h_ripemd160 h_sha1 h_sha256 sigcheck e fl); auto.
    - destruct fu as [|fu]; [lia|].
      destruct Hs as [|c p Hc Hp|n t p Hn Ht Hp|n t f p Hn Ht Hf Hp].
      + left. apply (agree_straightline_gen h_ripemd160 h_sha1 h_sha256 sigcheck e fl); auto.
      + cbn [length] in Hm, Hfu.
        rewrite lib_run_straight by exact Hc. rewrite core_run_straight by (exact Hc || reflexivity).
        pose proof (step_agree c s Hc G) as A. unfold op_agree_good in A.
        destruct (lstep c s) as [s1|s1|s1], (cstep c s) as [s2|]; try contradiction;
          try (left; cbn; exact I).
        destruct A as [<- G1]. apply IH; [lia|lia|exact Hp|exact G1].
      + rewrite lib_if_noelse by assumption.
        destruct s as [|x r].
        * right. rewrite core_if_empty by exact Hn. split; reflexivity.
        * rewrite core_if_noelse by assumption.
          cbn [length] in Hm, Hfu. rewrite app_length in Hm, Hfu. cbn [length] in Hm, Hfu.
          inversion G; subst.
          apply IH; [| |apply structured_app; [destruct (takes_true n x); [exact Ht|apply st_nil]|exact Hp]|assumption];
            rewrite app_length; destruct (takes_true n x); cbn [length]; lia.
      + rewrite lib_if_else by assumption.
        destruct s as [|x r].
        * right. rewrite core_if_empty by exact Hn. split; reflexivity.
        * rewrite core_if_else by assumption.
          cbn [length] in Hm, Hfu. rewrite app_length in Hm, Hfu. cbn [length] in Hm, Hfu.
          rewrite app_length in Hm, Hfu. cbn [length] in Hm, Hfu.
          inversion G; subst.
          apply IH; [| |apply structured_app; [destruct (takes_true n x); assumption|exact Hp]|assumption];
            rewrite app_length; destruct (takes_true n x); lia.
  Qed.

  Lemma agree_if_or_crash_gen cmds fu s :
    (length cmds < fu)%nat -> structured cmds -> Forall good s ->
    agree_or_ifcrash (lrn fu cmds s) (core_finish (crn cmds s [])).
  Proof. intros. apply (agree_if_measure (length cmds)); auto. Qed.

  (* under the guard "op_if / op_notif never finds the stack empty" (the library did not raise IndexError) *)
  Lemma agree_if_gen cmds fu s :
    (length cmds < fu)%nat -> structured cmds -> Forall good s ->
    r_verdict (lrn fu cmds s) <> CrashIndex ->
    agree (lrn fu cmds s) (core_finish (crn cmds s [])).
  Proof.
    intros Hfu Hs G NC. destruct (agree_if_or_crash_gen cmds fu s Hfu Hs G) as [A|[C _]]; [exact A|contradiction].
  Qed.

  Lemma agree_if_or_crash_eval cmds : structured cmds ->
    agree_or_ifcrash (lib_eval h_ripemd160 h_sha1 h_sha256 sigcheck e cmds)
                     (core_eval h_ripemd160 h_sha1 h_sha256 sigcheck e fl cmds).
  Proof. intros H. unfold lib_eval, core_eval. apply agree_if_or_crash_gen; [lia|exact H|constructor]. Qed.

  Lemma agree_if_eval cmds : structured cmds ->
    r_verdict (lib_eval h_ripemd160 h_sha1 h_sha256 sigcheck e cmds) <> CrashIndex ->
    agree (lib_eval h_ripemd160 h_sha1 h_sha256 sigcheck e cmds)
          (core_eval h_ripemd160 h_sha1 h_sha256 sigcheck e fl cmds).
  Proof. intros H NC. unfold lib_eval, core_eval in *. apply agree_if_gen; [lia|exact H|constructor|exact NC]. Qed.

  (* the safety half needs no guard on the condition items: a crash is not a Valid verdict *)
  Lemma never_valid_structured cmds : structured cmds ->
    r_verdict (lib_eval h_ripemd160 h_sha1 h_sha256 sigcheck e cmds) = Valid ->
    fst (core_eval h_ripemd160 h_sha1 h_sha256 sigcheck e fl cmds) = Valid.
  Proof.
    intros S V. destruct (agree_if_or_crash_eval cmds S) as [A|[C _]]; [|congruence].
    unfold agree in A. rewrite V in A.
    destruct (fst (core_eval h_ripemd160 h_sha1 h_sha256 sigcheck e fl cmds)); try contradiction. reflexivity.
  Qed.

  (* the crash itself: on structured programs IndexError escapes only where Core fails the script *)
  Lemma if_crash_core_invalid cmds : structured cmds ->
    r_verdict (lib_eval h_ripemd160 h_sha1 h_sha256 sigcheck e cmds) = CrashIndex ->
    fst (core_eval h_ripemd160 h_sha1 h_sha256 sigcheck e fl cmds) = Invalid.
  Proof.
    intros S V. destruct (agree_if_or_crash_eval cmds S) as [A|[_ C]]; [|exact C].
    unfold agree in A. rewrite V in A. contradiction.
  Qed.

End If.
