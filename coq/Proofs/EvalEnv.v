(* Proofs/EvalEnv.v — OP_CHECKSEQUENCEVERIFY / OP_CHECKLOCKTIMEVERIFY against BIP112 / BIP65 for EVERY stack
   (minimal or not, any length of the operand, empty stack) and EVERY environment (nSequence, nLockTime,
   version, present or absent), consensus flags (MINIMALDATA off); the bit structure of BIP68 made explicit:
   only bit 31, bit 22 and the low 16 bits of nSequence (and of the operand) take part in the comparison. *)
From Coq Require Import ZArith List Bool Lia.
From Coq.Strings Require Import Byte.
From Verif Require Import Lib.Bytes Gen.GenConsts Model.Wire Model.EvalLib Model.EvalCore Proofs.ScriptNum
  Proofs.EvalNum Proofs.EvalOps.
Import ListNotations.
Open Scope Z_scope.

(* the three BIP68 fields of a 32-bit sequence value (or of a CSV operand) *)
Definition seq_disable (x : Z) : bool := Z.testbit x 31.
Definition seq_type (x : Z) : bool := Z.testbit x 22.
Definition seq_value (x : Z) : Z := x mod 65536.

(* BIP112, from the text of the BIP: the operand n (already read as a number of at most 5 bytes) against the
   input's nSequence and the transaction version.  true = the script continues *)
Definition bip112_ok (n sq ver : Z) : bool :=
  if n <? 0 then false
  else if seq_disable n then true
  else if ver <? 2 then false
  else if seq_disable sq then false
  else if negb (Bool.eqb (seq_type n) (seq_type sq)) then false
  else seq_value n <=? seq_value sq.

(* BIP65 *)
Definition bip65_ok (n txl sq : Z) : bool :=
  if n <? 0 then false
  else if negb (Bool.eqb (n <? 500000000) (txl <? 500000000)) then false
  else if txl <? n then false
  else negb (sq =? 4294967295).

(* Core's uint32_t cast of the version (Model/EvalCore.v: core_u32, env_u32_version) is the identity on the
   unsigned reading the library's own Transaction.version_int hands over *)
Lemma u32_id z : 0 <= z < 4294967296 -> core_u32 z = z.
Proof. intros H. unfold core_u32. apply Z.mod_small. exact H. Qed.

Lemma env_u32_version_id e :
  match e_version e with Some v => 0 <= v < 4294967296 | None => True end -> env_u32_version e = e.
Proof.
  intros H. destruct e as [r s l [v|]]; unfold env_u32_version; cbn [e_redeem e_sequence e_locktime e_version option_map] in *.
  - rewrite u32_id by exact H. reflexivity.
  - reflexivity.
Qed.

(* ---------- bit facts ---------- *)

Lemma land_pow2 x k : 0 <= k -> Z.land x (2 ^ k) = if Z.testbit x k then 2 ^ k else 0.
Proof.
  intros Hk. apply Z.bits_inj'. intros i Hi. rewrite Z.land_spec, Z.pow2_bits_eqb by exact Hk.
  destruct (Z.eqb_spec k i) as [->|Hne].
  - rewrite andb_true_r. destruct (Z.testbit x i) eqn:E.
    + rewrite Z.pow2_bits_true by exact Hi. reflexivity.
    + rewrite Z.bits_0. reflexivity.
  - rewrite andb_false_r. destruct (Z.testbit x k).
    + rewrite Z.pow2_bits_false by exact Hne. reflexivity.
    + rewrite Z.bits_0. reflexivity.
Qed.

Lemma land_disable x : (Z.land x 2147483648 =? 0) = negb (seq_disable x).
Proof.
  change 2147483648 with (2 ^ 31). rewrite land_pow2 by lia. unfold seq_disable.
  destruct (Z.testbit x 31); reflexivity.
Qed.

Lemma mask_is : Z.lor 4194304 65535 = 4194304 + 65535.
Proof. reflexivity. Qed.

(* x & (TYPE_FLAG | 0xffff) = (type ? 2^22 : 0) + low 16 bits *)
Lemma land_mask x : Z.land x (Z.lor 4194304 65535) = (if seq_type x then 4194304 else 0) + seq_value x.
Proof.
  rewrite Z.land_lor_distr_r.
  change 4194304 with (2 ^ 22) at 1. rewrite land_pow2 by lia.
  change 65535 with (Z.ones 16). rewrite Z.land_ones by lia. change (2 ^ 16) with 65536.
  fold (seq_type x). fold (seq_value x).
  assert (Hv : 0 <= seq_value x < 65536) by (unfold seq_value; apply Z.mod_pos_bound; lia).
  destruct (seq_type x).
  - assert (Dj : Z.land (2 ^ 22) (seq_value x) = 0).
    { apply Z.bits_inj'. intros i Hi. rewrite Z.land_spec, Z.bits_0, Z.pow2_bits_eqb by lia.
      destruct (Z.eqb_spec 22 i) as [<-|Hne]; [|reflexivity].
      cbn [andb]. unfold seq_value. change 65536 with (2 ^ 16). apply Z.mod_pow2_bits_high. lia. }
    rewrite <- Z.lxor_lor by exact Dj. rewrite <- Z.add_nocarry_lxor by exact Dj. reflexivity.
  - rewrite Z.lor_0_l. reflexivity.
Qed.

(* ---------- the library's comparison is BIP112's, field by field ---------- *)

Lemma lib_csv_compare_is_bip112 n sq :
  (if negb (Bool.eqb (Z.land n (Z.lor 4194304 65535) <? 4194304) (Z.land sq (Z.lor 4194304 65535) <? 4194304))
   then false else Z.land n (Z.lor 4194304 65535) <=? Z.land sq (Z.lor 4194304 65535)) =
  (if negb (Bool.eqb (seq_type n) (seq_type sq)) then false else seq_value n <=? seq_value sq).
Proof.
  rewrite !land_mask.
  assert (Hn : 0 <= seq_value n < 65536) by (unfold seq_value; apply Z.mod_pos_bound; lia).
  assert (Hs : 0 <= seq_value sq < 65536) by (unfold seq_value; apply Z.mod_pos_bound; lia).
  destruct (seq_type n), (seq_type sq); cbn [Bool.eqb negb];
    repeat match goal with
           | |- context [Z.ltb ?a ?b] => destruct (Z.ltb_spec a b)
           | |- context [Z.leb ?a ?b] => destruct (Z.leb_spec a b)
           end; cbn; try reflexivity; lia.
Qed.

Section Env.
  Variable h_ripemd160 h_sha1 h_sha256 : bytes -> bytes.
  Variable sigcheck : bytes -> bytes -> sigres.
  Variable fl : flags.
  Hypothesis no_minimaldata : f_minimaldata fl = false.

  Notation lop e := (lib_op h_ripemd160 h_sha1 h_sha256 sigcheck e).
  Notation cop e := (core_op h_ripemd160 h_sha1 h_sha256 sigcheck e fl).

  (* without MINIMALDATA every operand of at most 5 bytes is read, by both sides, as the same number *)
  Lemma core_num5_any x :
    core_num fl 5 x = if (5 <? length x)%nat then None else Some (lib_decode_num x).
  Proof.
    unfold core_num. rewrite no_minimaldata. cbn [andb].
    destruct (5 <? length x)%nat; [reflexivity|]. rewrite core_dec_is_lib. reflexivity.
  Qed.

  Local Opaque core_num lib_decode_num Z.land Z.lor.

  Ltac bool_cases :=
    repeat match goal with
           | |- context [Z.ltb ?a ?b] => destruct (Z.ltb_spec a b)
           | |- context [Z.leb ?a ?b] => destruct (Z.leb_spec a b)
           | |- context [Z.eqb ?a ?b] => destruct (Z.eqb_spec a b)
           end.

  (* OP_CHECKSEQUENCEVERIFY: all stacks, all environments *)
  Lemma csv_agrees_all_env e s : op_agree (lop e K_CSV s) (cop e K_CSV s).
  Proof.
    cbn. unfold lib_csv, core_csv.
    destruct s as [|top r].
    - destruct (e_sequence e), (e_version e); cbn; auto.
    - rewrite core_num5_any.
      destruct (e_sequence e) as [sq|]; [|destruct (5 <? length top)%nat, (e_version e); cbn; auto].
      destruct (e_version e) as [ver|]; [|destruct (5 <? length top)%nat; cbn; auto].
      destruct (5 <? length top)%nat; [cbn; auto|].
      unfold dec, cfg_SEQUENCE_LOCKTIME_DISABLE_FLAG, cfg_SEQUENCE_LOCKTIME_TYPE_FLAG, cfg_SEQUENCE_LOCKTIME_MASK,
        SEQUENCE_DISABLE_FLAG, SEQUENCE_TYPE_FLAG, SEQUENCE_MASK.
      set (n := lib_decode_num top). cbv zeta.
      set (mask := Z.lor 4194304 65535).
      set (nd := Z.land n 2147483648). set (sd := Z.land sq 2147483648).
      set (nm := Z.land n mask). set (sm := Z.land sq mask).
      rewrite ?Z.geb_leb, ?Z.gtb_ltb.
      bool_cases; cbn; auto; try lia.
  Qed.

  (* OP_CHECKLOCKTIMEVERIFY: all stacks, all environments *)
  Lemma cltv_agrees_all_env e s : op_agree (lop e K_CLTV s) (cop e K_CLTV s).
  Proof.
    cbn. unfold lib_cltv, core_cltv.
    destruct s as [|top r].
    - destruct (e_sequence e), (e_locktime e); cbn; auto. destruct (z =? 4294967295); cbn; auto.
    - rewrite core_num5_any.
      destruct (e_sequence e) as [sq|]; [|destruct (5 <? length top)%nat, (e_locktime e); cbn; auto].
      destruct (e_locktime e) as [tl|]; [|destruct (5 <? length top)%nat; cbn; auto].
      unfold dec, lib_cltv_threshold, LOCKTIME_THRESHOLD, SEQUENCE_FINAL.
      set (n := lib_decode_num top).
      destruct (5 <? length top)%nat; [destruct (sq =? 4294967295); cbn; auto|].
      rewrite ?Z.geb_leb, ?Z.gtb_ltb.
      bool_cases; cbn; auto; try lia.
  Qed.

  (* the library's OP_CHECKSEQUENCEVERIFY in closed form: BIP112 on the three fields, nothing else *)
  Lemma lib_csv_is_bip112 e (top : bytes) (r : stack) sq ver :
    e_sequence e = Some sq -> e_version e = Some ver -> (length top <= 5)%nat ->
    lop e K_CSV (top :: r) =
    if bip112_ok (lib_decode_num top) sq ver then ROk (top :: r) else RFalse (top :: r).
  Proof.
    intros Hs Hv Hl. cbn. unfold lib_csv. rewrite Hs, Hv.
    assert (E : (5 <? length top)%nat = false) by (apply Nat.ltb_ge; exact Hl). rewrite E.
    unfold dec, cfg_SEQUENCE_LOCKTIME_DISABLE_FLAG, cfg_SEQUENCE_LOCKTIME_TYPE_FLAG, cfg_SEQUENCE_LOCKTIME_MASK.
    cbv zeta. unfold bip112_ok. set (n := lib_decode_num top).
    rewrite !land_disable, !negb_involutive.
    destruct (n <? 0); [reflexivity|].
    destruct (seq_disable n); [reflexivity|].
    destruct (ver <? 2); [reflexivity|]. cbn [orb].
    destruct (seq_disable sq); [reflexivity|].
    pose proof (lib_csv_compare_is_bip112 n sq) as C.
    destruct (negb (Bool.eqb (Z.land n (Z.lor 4194304 65535) <? 4194304)
                             (Z.land sq (Z.lor 4194304 65535) <? 4194304))).
    - rewrite <- C. reflexivity.
    - rewrite <- C. destruct (Z.land n (Z.lor 4194304 65535) <=? Z.land sq (Z.lor 4194304 65535)); reflexivity.
  Qed.

  Lemma lib_cltv_is_bip65 e (top : bytes) (r : stack) sq tl :
    e_sequence e = Some sq -> e_locktime e = Some tl -> (length top <= 5)%nat ->
    lop e K_CLTV (top :: r) =
    if bip65_ok (lib_decode_num top) tl sq then ROk (top :: r) else RFalse (top :: r).
  Proof.
    intros Hs Hl L. cbn. unfold lib_cltv. rewrite Hs, Hl.
    assert (E : (5 <? length top)%nat = false) by (apply Nat.ltb_ge; exact L). rewrite E.
    unfold dec, lib_cltv_threshold, bip65_ok. set (n := lib_decode_num top).
    destruct (sq =? 4294967295) eqn:Q; cbn [negb].
    - destruct (n <? 0); [reflexivity|].
      destruct (negb (Bool.eqb (n <? 500000000) (tl <? 500000000))); [reflexivity|].
      destruct (tl <? n); reflexivity.
    - destruct (n <? 0); [reflexivity|].
      destruct (negb (Bool.eqb (n <? 500000000) (tl <? 500000000))); [reflexivity|].
      destruct (tl <? n); reflexivity.
  Qed.
End Env.

(* ---------- bits of nSequence (and of the operand) without BIP68 meaning never matter ---------- *)

Definition with_sequence (e : env) (sq : Z) : env := mkEnv (e_redeem e) (Some sq) (e_locktime e) (e_version e).

(* [stray] has no bit in common with DISABLE_FLAG | TYPE_FLAG | 0xffff: bits 16-21, 23-30 (and above 31) *)
Definition stray_bits (x : Z) : Prop := Z.land x (Z.lor 2147483648 (Z.lor 4194304 65535)) = 0.

Lemma stray_fields x y : stray_bits y ->
  seq_disable (Z.lor x y) = seq_disable x /\ seq_type (Z.lor x y) = seq_type x /\
  seq_value (Z.lor x y) = seq_value x.
Proof.
  intros H. unfold stray_bits in H.
  assert (B : forall i, 0 <= i -> Z.testbit (Z.lor 2147483648 (Z.lor 4194304 65535)) i = true ->
                        Z.testbit y i = false).
  { intros i Hi Hm. assert (T : Z.testbit (Z.land y (Z.lor 2147483648 (Z.lor 4194304 65535))) i = false)
      by (rewrite H; apply Z.bits_0).
    rewrite Z.land_spec, Hm, andb_true_r in T. exact T. }
  unfold seq_disable, seq_type, seq_value. repeat split.
  - rewrite Z.lor_spec, (B 31) by (try lia; reflexivity). apply orb_false_r.
  - rewrite Z.lor_spec, (B 22) by (try lia; reflexivity). apply orb_false_r.
  - change 65536 with (2 ^ 16). rewrite <- !Z.land_ones by lia.
    apply Z.bits_inj'. intros i Hi. rewrite !Z.land_spec, Z.lor_spec.
    destruct (Z.ltb_spec i 16) as [Lt|Ge].
    + rewrite (B i Hi); [rewrite orb_false_r; reflexivity|].
      rewrite !Z.lor_spec. change 65535 with (Z.ones 16). rewrite (Z.ones_spec_low 16 i) by lia.
      rewrite !orb_true_r. reflexivity.
    + rewrite (Z.ones_spec_high 16 i) by lia. rewrite !andb_false_r. reflexivity.
Qed.

Lemma bip112_ignores_stray_sequence_bits n sq ver stray :
  stray_bits stray -> bip112_ok n (Z.lor sq stray) ver = bip112_ok n sq ver.
Proof.
  intros H. destruct (stray_fields sq stray H) as (D & T & V). unfold bip112_ok. rewrite D, T, V. reflexivity.
Qed.

Lemma bip112_ignores_stray_operand_bits n sq ver stray :
  0 <= n -> 0 <= stray -> stray_bits stray -> bip112_ok (Z.lor n stray) sq ver = bip112_ok n sq ver.
Proof.
  intros Hn Hs H. destruct (stray_fields n stray H) as (D & T & V). unfold bip112_ok. rewrite D, T, V.
  assert (0 <= Z.lor n stray) by (apply Z.lor_nonneg; split; assumption).
  destruct (Z.ltb_spec (Z.lor n stray) 0); [lia|]. destruct (Z.ltb_spec n 0); [lia|]. reflexivity.
Qed.

(* the operation itself, in any environment: or-ing stray bits into nSequence changes nothing *)
Lemma csv_ignores_stray_sequence_bits h1 h2 h3 sc e (s : stack) sq stray :
  stray_bits stray ->
  lib_op h1 h2 h3 sc (with_sequence e (Z.lor sq stray)) K_CSV s = lib_op h1 h2 h3 sc (with_sequence e sq) K_CSV s.
Proof.
  intros H. destruct s as [|top r]; [cbn; unfold lib_csv; cbn; destruct (e_version e); reflexivity|].
  destruct (e_version e) as [ver|] eqn:V; [|cbn; unfold lib_csv; cbn; rewrite V; reflexivity].
  destruct (Nat.leb_spec (length top) 5) as [L|L].
  - rewrite (lib_csv_is_bip112 h1 h2 h3 sc (with_sequence e (Z.lor sq stray)) top r (Z.lor sq stray) ver)
      by (try reflexivity; assumption).
    rewrite (lib_csv_is_bip112 h1 h2 h3 sc (with_sequence e sq) top r sq ver) by (try reflexivity; assumption).
    rewrite bip112_ignores_stray_sequence_bits by exact H. reflexivity.
  - assert (E : (5 <? length top)%nat = true) by (apply Nat.ltb_lt; lia).
    unfold lib_op, lib_csv, with_sequence, e_sequence, e_version. fold (e_version e). rewrite V, E. reflexivity.
Qed.

Lemma core_csv_ignores_stray_sequence_bits h1 h2 h3 sc fl e (s : stack) sq stray :
  f_minimaldata fl = false -> stray_bits stray ->
  core_op h1 h2 h3 sc (with_sequence e (Z.lor sq stray)) fl K_CSV s =
  core_op h1 h2 h3 sc (with_sequence e sq) fl K_CSV s.
Proof.
  intros M H.
  pose proof (csv_agrees_all_env h1 h2 h3 sc fl M (with_sequence e (Z.lor sq stray)) s) as A1.
  pose proof (csv_agrees_all_env h1 h2 h3 sc fl M (with_sequence e sq) s) as A2.
  rewrite (csv_ignores_stray_sequence_bits h1 h2 h3 sc e s sq stray H) in A1.
  (* both Core results are determined by the same library result, except for the stack carried by a failure *)
  destruct (lib_op h1 h2 h3 sc (with_sequence e sq) K_CSV s) as [s1|s1|s1];
    destruct (core_op h1 h2 h3 sc (with_sequence e (Z.lor sq stray)) fl K_CSV s),
             (core_op h1 h2 h3 sc (with_sequence e sq) fl K_CSV s); cbn in A1, A2; try contradiction;
    congruence.
Qed.

(* witnesses: the seeded class (operand 10, nSequence 0x00010005, version 2: BIP112 rejects) and its clean twin *)
Example bip112_stray_bit_witness :
  bip112_ok 10 65541 2 = false /\ bip112_ok 10 5 2 = false /\ bip112_ok 10 65546 2 = true /\
  stray_bits 65536 /\ stray_bits 2143223808.
Proof. vm_compute. repeat split. Qed.
