(* Proofs/ChangeBase.v — what encoding.change_base computes on the conversions Mnemonic uses:
   minimal digits = the stripped digit list; zero re-padding; the prepend loop. *)
From Coq Require Import ZArith List Bool Lia.
From Coq.Strings Require Import Byte.
From Verif Require Import Lib.Bytes Lib.BitRegroup Model.ChangeBase.
Import ListNotations.
Open Scope Z_scope.

Lemma strip_app a b : strip (a ++ b) = match strip a with [] => strip b | _ => strip a ++ b end.
Proof.
  induction a as [|d r IH]; [reflexivity|].
  rewrite <- app_comm_cons. cbn [strip]. destruct (d =? 0); [exact IH | reflexivity].
Qed.

Lemma digits_fuel_spec f : forall B ds acc, 1 < B -> in_base B ds -> val B ds < B ^ Z.of_nat f ->
  digits_fuel f B (val B ds) acc = strip ds ++ acc.
Proof.
  induction f as [|f IH]; intros B ds acc HB Hd Hv.
  - pose proof (val_range B ds ltac:(lia) Hd) as Hr. change (B ^ Z.of_nat 0) with 1 in Hv.
    rewrite (val_zero_strip B ds ltac:(lia) Hd ltac:(lia)). reflexivity.
  - cbn [digits_fuel]. destruct (val B ds =? 0) eqn:E.
    + apply Z.eqb_eq in E. rewrite (val_zero_strip B ds ltac:(lia) Hd E). reflexivity.
    + apply Z.eqb_neq in E. induction ds as [|x a _] using rev_ind; [simpl in E; lia|].
      apply in_base_app in Hd. destruct Hd as [Ha Hx]. apply in_base_cons in Hx. destruct Hx as [Hx _].
      pose proof (val_range B a ltac:(lia) Ha) as Hra.
      rewrite val_snoc in *.
      rewrite Nat2Z.inj_succ, Z.pow_succ_r in Hv by lia.
      assert (Hq : (val B a * B + x) / B = val B a) by (Z.div_mod_to_equations; nia).
      assert (Hm : (val B a * B + x) mod B = x) by (Z.div_mod_to_equations; nia).
      rewrite Hq, Hm, IH by (try assumption; nia).
      rewrite strip_app. destruct (strip a) as [|s0 sr] eqn:Es.
      * assert (val B a = 0) by (rewrite <- (val_strip B a), Es; reflexivity).
        assert (x <> 0) by lia. rewrite strip_nonzero_head by assumption. reflexivity.
      * rewrite <- app_assoc. reflexivity.
Qed.

Lemma digits_val B ds : 1 < B -> in_base B ds -> digits B (val B ds) = strip ds.
Proof.
  intros HB Hd. unfold digits. rewrite digits_fuel_spec; [apply app_nil_r | exact HB | exact Hd |].
  pose proof (val_range B ds ltac:(lia) Hd) as [Hlo _].
  set (v := val B ds) in *.
  pose proof (Z.log2_nonneg v) as Hl.
  rewrite Nat2Z.inj_succ, Z2Nat.id by lia.
  assert (v < 2 ^ Z.succ (Z.log2 v)).
  { destruct (Z.eq_dec v 0) as [->|Hne]; [simpl; lia|]. apply Z.log2_spec. lia. }
  assert (2 ^ Z.succ (Z.log2 v) <= B ^ Z.succ (Z.log2 v)) by (apply Z.pow_le_mono_l; lia).
  lia.
Qed.

(* ---- padding ---- *)
Lemma pad_left_length m ds : length (pad_left m ds) = Nat.max m (length ds).
Proof. unfold pad_left. rewrite app_length, repeat_length. lia. Qed.

Lemma pad_left_strip m ds : strip (pad_left m ds) = strip ds.
Proof. unfold pad_left. apply strip_repeat0. Qed.

Lemma pad_left_in_base B m ds : 0 < B -> in_base B ds -> in_base B (pad_left m ds).
Proof. intros HB Hd. unfold pad_left. apply in_base_app. split; [apply in_base_repeat0, HB | exact Hd]. Qed.

Lemma val_pad_left B m ds : val B (pad_left m ds) = val B ds.
Proof. unfold pad_left. apply val_repeat0. Qed.

Lemma pad_left_exact ds z : (z <= clz ds)%nat -> pad_left (length ds) (repeat 0 z ++ strip ds) = ds.
Proof.
  intros Hz. apply pad_unique.
  - rewrite pad_left_strip, strip_repeat0, strip_idem. reflexivity.
  - rewrite pad_left_length, app_length, repeat_length. pose proof (clz_length ds). lia.
Qed.

(* ---- the prepend loop ---- *)
Lemma repeat0_snoc n (l : list Z) : repeat 0 n ++ 0 :: l = repeat 0 (S n) ++ l.
Proof. change (0 :: l) with ([0] ++ l). rewrite app_assoc, <- repeat_cons. reflexivity. Qed.

Lemma prepend_loop_no_hit z : forall out, prepend_loop z no_hit out = repeat 0 z ++ out.
Proof.
  induction z as [|z IH]; intros out; [reflexivity|].
  cbn [prepend_loop]. unfold no_hit at 2. rewrite IH. apply repeat0_snoc.
Qed.

Lemma prepend_loop_spec z hit : forall out, exists j, (j <= z)%nat /\
  prepend_loop z hit out = repeat 0 j ++ out /\
  (j = z \/ hit (length out + j)%nat = true) /\
  (forall i, (i < j)%nat -> hit (length out + i)%nat = false).
Proof.
  induction z as [|z IH]; intros out.
  - exists O. repeat split; auto. intros i Hi. lia.
  - cbn [prepend_loop]. destruct (hit (length out)) eqn:Eh.
    + destruct (IH out) as [j [Hj [Hr [Hs Hn]]]].
      assert (j = O).
      { destruct j; [reflexivity|]. specialize (Hn O ltac:(lia)). rewrite Nat.add_0_r in Hn. congruence. }
      subst j. exists O. repeat split; [lia | exact Hr | right; rewrite Nat.add_0_r; exact Eh | intros i Hi; lia].
    + destruct (IH (0 :: out)) as [j [Hj [Hr [Hs Hn]]]].
      exists (S j). cbn [length] in *. repeat split.
      * lia.
      * rewrite Hr. apply repeat0_snoc.
      * destruct Hs as [Hs|Hs]; [left; lia | right]. rewrite <- Hs. f_equal. lia.
      * intros i Hi. destruct i; [rewrite Nat.add_0_r; exact Eh|].
        rewrite <- (Hn i) by lia. f_equal. lia.
Qed.

(* the loop restores a zero-padded list of known length when enough zeros are allowed *)
Lemma prepend_loop_restore z hit G :
  (forall n, hit n = true <-> n = length G) -> (clz G <= z)%nat ->
  prepend_loop z hit (strip G) = G.
Proof.
  intros Hh Hz. destruct (prepend_loop_spec z hit (strip G)) as [j [Hj [Hr [Hs Hn]]]].
  rewrite Hr. pose proof (clz_length G) as Hl.
  assert (j = clz G).
  { destruct (Nat.lt_ge_cases (clz G) j) as [Hlt|Hge].
    - specialize (Hn (clz G) Hlt). assert (hit (length (strip G) + clz G)%nat = true) by (apply Hh; lia). congruence.
    - destruct Hs as [Hs|Hs]; [lia|]. apply Hh in Hs. lia. }
  subst j. symmetry. apply strip_spec.
Qed.

(* ---- lib_zeros ---- *)
Lemma lib_zeros_1_8 a : 0 <= a -> lib_zeros 1 8 a = if a =? 1 then 1%nat else Z.to_nat (8 * a).
Proof. intros Ha. unfold lib_zeros. destruct (a =? 1); [reflexivity|]. rewrite Z.div_1_r. f_equal. lia. Qed.

Lemma lib_zeros_div w a : 0 < w -> 0 <= a -> lib_zeros w 1 a = if a =? 1 then 1%nat else Z.to_nat (a / w).
Proof. intros Hw Ha. unfold lib_zeros. rewrite Z.mul_1_r. reflexivity. Qed.

(* ---- the conversions ---- *)
Lemma lib_cb_10_2_spec bs : in_base 2 bs -> bs <> [] -> lib_cb_10_2 (val 2 bs) (length bs) = Some bs.
Proof.
  intros Hb Hne. unfold lib_cb_10_2. destruct (length bs) eqn:El; [destruct bs; [congruence | discriminate]|].
  rewrite <- El. rewrite digits_val by (lia || assumption).
  f_equal. apply (pad_left_exact bs O). lia.
Qed.

Lemma lib_cb_256_2_full ds : in_base 256 ds -> lib_cb_256_2 ds (8 * length ds) = unpack 8 ds.
Proof.
  intros Hd. unfold lib_cb_256_2.
  change 256 with (2 ^ Z.of_nat 8) in Hd |- *.
  rewrite <- val_unpack by exact Hd.
  rewrite digits_val by (lia || apply unpack_in_base).
  rewrite prepend_loop_no_hit. rewrite <- (unpack_length 8 ds).
  apply pad_left_exact.
  unfold addzeros_seq. rewrite lib_zeros_1_8 by lia.
  pose proof (clz_unpack 8 ds). destruct (Z.of_nat (clz ds) =? 1) eqn:E; [apply Z.eqb_eq in E|]; lia.
Qed.

Lemma lib_cb_2_2048_spec m bits : in_base 2 bits -> length bits = (m * 11)%nat ->
  lib_cb_2_2048 bits = groups 11 m bits.
Proof.
  intros Hb Hl. unfold lib_cb_2_2048.
  rewrite <- (val_groups 11 m bits Hl). change (2 ^ Z.of_nat 11) with 2048.
  pose proof (groups_in_base 11 m bits Hb) as HG. change (2 ^ Z.of_nat 11) with 2048 in HG.
  rewrite digits_val by (lia || assumption).
  apply prepend_loop_restore.
  - intros n. rewrite groups_length, Z.eqb_eq. lia.
  - unfold addzeros_seq. rewrite lib_zeros_div by lia.
    pose proof (clz_unpack 11 (groups 11 m bits)) as Hc.
    rewrite unpack_groups in Hc by assumption.
    destruct (Z.of_nat (clz bits) =? 1) eqn:E; [apply Z.eqb_eq in E; lia|].
    apply Nat2Z.inj_le. rewrite Z2Nat.id by (apply Z.div_pos; lia).
    apply Z.div_le_lower_bound; lia.
Qed.

(* big-endian bytes as a base-256 digit list *)
Lemma of_be_val l : of_be l = val 256 (map bz l).
Proof.
  unfold of_be. induction l as [|b r IH]; [reflexivity|].
  cbn [rev map]. rewrite of_le_app, val_cons, map_length, <- IH, rev_length. cbn [of_le]. lia.
Qed.

Lemma map_bz_in_base l : in_base 256 (map bz l).
Proof. induction l as [|b r IH]; [constructor|]. cbn [map]. constructor; [apply bz_range | exact IH]. Qed.

Lemma map_zb_bz l : map zb (map bz l) = l.
Proof. induction l as [|b r IH]; [reflexivity|]. cbn [map]. rewrite zb_bz, IH. reflexivity. Qed.

Lemma map_bz_zb ds : in_base 256 ds -> map bz (map zb ds) = ds.
Proof.
  induction ds as [|d r IH]; intros H; [reflexivity|]. apply in_base_cons in H. destruct H as [Hd Hr].
  cbn [map]. rewrite bz_zb, Z.mod_small, IH by assumption. reflexivity.
Qed.
