(* Proofs/EvalFootprint.v — the state footprint of the interpreter as regenerated from the source on every run
   (Gen/GenC19.v, translator/gen_c19.py) equals the frozen footprint under which Model/EvalSession.v was written:
   Script.evaluate writes self.message / self.env_data / self.stack and nothing else, reads these and self.commands;
   no Stack method, no number codec, no part of the signature check writes an attribute of anything but the local
   Signature object, and none of them uses module-level or class-level mutable state or a memoising decorator. *)
From Coq Require Import List.
From Coq.Strings Require String.
Import Coq.Strings.String.StringSyntax.
Delimit Scope string_scope with string.
From Verif Require Import Gen.GenC19.
Import ListNotations.

Definition frozen_attr_writes : list (String.string * String.string) :=
  [("Script.evaluate"%string, "self.env_data"%string); ("Script.evaluate"%string, "self.message"%string);
   ("Script.evaluate"%string, "self.stack"%string);
   ("Signature.verify"%string, "self.public_key"%string); ("Signature.verify"%string, "self.txid"%string)].

Definition frozen_self_reads : list (String.string * String.string) :=
  [("Script.evaluate"%string, "commands"%string); ("Script.evaluate"%string, "env_data"%string);
   ("Script.evaluate"%string, "message"%string); ("Script.evaluate"%string, "stack"%string)].

Lemma footprint_no_module_state : c19_module_state_refs = [] /\ c19_class_state = [] /\ c19_decorators = [].
Proof. repeat split; reflexivity. Qed.

Lemma footprint_attr_writes : c19_attr_writes = frozen_attr_writes.
Proof. reflexivity. Qed.

Lemma footprint_self_reads : c19_self_reads = frozen_self_reads.
Proof. reflexivity. Qed.
