(* Proofs/EcdsaWitness.v — concrete witnesses for C13, evaluated inside Coq (vm_compute) once per build.
   The signatures are chosen so that the verifier's scalars are tiny (s = r, z = 5 r, hence u1 = 5, u2 = 1):
   (r, r) is a valid signature of z = 5 r under Q whenever r = x(5 G + Q) mod n. *)
From Coq Require Import ZArith List Bool.
From Coq.Strings Require Import Byte.
From Verif Require Import Lib.Bytes Crypto.Secp256k1 Model.Wire Model.Der Model.Ecdsa Proofs.Ecdsa.
Import ListNotations.
Open Scope Z_scope.

(* split conjunctions only (never an equation: [split] on [a = b] would try eq_refl by lazy conversion) *)
Ltac conj_vm := repeat match goal with |- _ /\ _ => split end; vm_compute; reflexivity.

(* ---- W1: the low-S step before fix C13-1 (float n / 2 = 2^255).  s0 = n/2 + 5, solved digest, explicit nonce *)
Definition w1_d : Z := 19088743.        (* 0x1234567 *)
Definition w1_k : Z := 11259375.        (* 0xabcdef *)
Definition w1_msg : bytes := be_bytes 32 9224465752051596436833332294617603929493999362058578935772784220300135614721.
Definition w1_r : Z := 8584546547439194144767466770313806210515315127328165539072185327841223593332.
Definition w1_s_high : Z := 57896044618658097711785492504343953926418782139537452191302581570759080747173.

Lemma w1_prefix_high_s :
  lib_sign_prefix w1_d w1_msg (Some w1_k) 1 = Some (w1_r, w1_s_high, der_enc w1_r w1_s_high ++ [x01]) /\
  (secp_n - 1) / 2 < w1_s_high.
Proof. conj_vm. Qed.

Lemma w1_fixed_low_s :
  lib_sign w1_d w1_msg (Some w1_k) 1 =
    Some (w1_r, secp_n - w1_s_high, der_enc w1_r (secp_n - w1_s_high) ++ [x01]) /\
  secp_n - w1_s_high <= (secp_n - 1) / 2.
Proof. split; [vm_compute; reflexivity|]. vm_compute. discriminate. Qed.

(* ---- W2: a VALID, BIP66-strict signature of 49 bytes (r = s = x(G/2), 21 bytes each): refused by the dispatch
        before fix C13-2, read and verified after it *)
Definition w2_Q : Z * Z :=
  (46399714550823657646711952010527975805134803763457644396793103212103067379801,
   6125845666773179963892531182437442069328062343348846759804357885092162958588).
Definition w2_r : Z := 86918276961810349294276103416548851884759982251107.
Definition w2_dg : bytes := be_bytes 32 (5 * w2_r).
Definition w2_sig : bytes := der_enc w2_r w2_r ++ [x01].

Lemma w2_short_der :
  length w2_sig = 49%nat /\ is_strict_der w2_sig = true /\
  lib_parse_prefix w2_sig = None /\ lib_parse w2_sig = Some (w2_r, w2_r, 1) /\
  der64 w2_sig = false /\ lax_der w2_sig = false /\ coords_reduced w2_Q = true /\
  lib_verify w2_dg w2_sig w2_Q = Some true /\ spec_verify (lib_z w2_dg) w2_sig w2_Q = Some true.
Proof. conj_vm. Qed.

(* ---- W6: a BIP66-strict signature of exactly 64 bytes (29-byte r, 28-byte s) is read as raw r||s *)
Definition w6_sig : bytes := der_enc (2 ^ 223) (2 ^ 222) ++ [x01].

Lemma w6_der64_read_as_raw :
  length w6_sig = 64%nat /\ der64 w6_sig = true /\ lax_der w6_sig = false /\
  Proofs.Ecdsa.filt (spec_parse w6_sig) = Some (2 ^ 223, 2 ^ 222, 1) /\
  Proofs.Ecdsa.filt (lib_parse w6_sig) = Some (of_be (firstn 32 w6_sig), of_be (skipn 32 w6_sig), 1) /\
  of_be (firstn 32 w6_sig) <> 2 ^ 223.
Proof. repeat match goal with |- _ /\ _ => split end; vm_compute; try reflexivity. discriminate. Qed.

(* ---- W3: Q = 3 G, r = s = x(8 G); strict encoding (agreement, non-vacuity) and one spelled with a junk byte
        inside the SEQUENCE after s (accepted by the library, refused by BIP66) *)
Definition w3_Q : Z * Z :=
  (112711660439710606056748659173929673102114977341539408544630613555209775888121,
   25583027980570883691656905877401976406448868254816295069919888960541586679410).
Definition w3_r : Z := 21262057306151627953595685090280431278183829487175876377991189246716355947009.
Definition w3_dg : bytes := be_bytes 32 ((5 * w3_r) mod secp_n).
Definition w3_strict : bytes := der_enc w3_r w3_r ++ [x01].
Definition w3_lax : bytes := x30 :: x45 :: skipn 2 (der_enc w3_r w3_r) ++ [x00; x01].

Lemma w3_strict_agrees :
  der64 w3_strict = false /\ lax_der w3_strict = false /\ coords_reduced w3_Q = true /\
  lib_verify w3_dg w3_strict w3_Q = Some true /\ spec_verify (lib_z w3_dg) w3_strict w3_Q = Some true.
Proof. conj_vm. Qed.

Lemma w3_lax_der_accepted :
  der64 w3_lax = false /\ lax_der w3_lax = true /\ is_strict_der w3_lax = false /\
  lib_verify w3_dg w3_lax w3_Q = Some true /\ spec_verify (lib_z w3_dg) w3_lax w3_Q = None.
Proof. conj_vm. Qed.

(* ---- W4: the curve point (1, y) spelled with x + p (fits in 32 bytes): not a public key for standard ECDSA,
        accepted by the library (C04 finding 14 seen from verify) *)
Definition w4_y : Z := 29896722852569046015560700294576055776214335159245303116488692907525646231534.
Definition w4_Q : Z * Z := (secp_p + 1, w4_y).
Definition w4_r : Z := 53696489192368497952448023471306112942358083977759472056957928949855065183776.
Definition w4_dg : bytes := be_bytes 32 ((5 * w4_r) mod secp_n).
Definition w4_sig : bytes := der_enc w4_r w4_r ++ [x01].

Lemma w4_unreduced_key_accepted :
  der64 w4_sig = false /\ lax_der w4_sig = false /\ coords_reduced w4_Q = false /\
  lib_verify w4_dg w4_sig w4_Q = Some true /\ spec_verify (lib_z w4_dg) w4_sig w4_Q = None /\
  spec_verify (lib_z w4_dg) w4_sig (1, w4_y) = Some true.
Proof. conj_vm. Qed.

(* the same key given as bytes 02 || (p + 1): refused by Key() since C04 fix 75f674d (strict, the default), as
   SEC 1 demands; only the tolerant reading Key(.., strict=False) still yields the unreduced point w4_Q *)
Definition w4_pk : bytes := x02 :: be_bytes 32 (secp_p + 1).
Lemma w4_key_bytes_refused :
  lib_pub_point w4_pk = None /\ parse_point w4_pk = None /\ lib_pub_point_lax w4_pk = Some w4_Q /\
  lib_verify_key w4_dg w4_sig w4_pk = None /\ spec_verify_key (lib_z w4_dg) w4_sig w4_pk = None /\
  lib_verify_key w4_dg w4_sig (x02 :: be_bytes 32 1) = Some true /\
  spec_verify_key (lib_z w4_dg) w4_sig (x02 :: be_bytes 32 1) = Some true.
Proof. conj_vm. Qed.

(* ---- the nonce source evaluated: key 1, digest 00..01 (no curve arithmetic involved) *)
Lemma w5_nonce :
  lib_nonce 1 (be_bytes 32 1) = rfc6979_nonce 1 (Crypto.Sha256.sha256 (hex_ascii (be_bytes 32 1))) /\
  1 <= lib_nonce 1 (be_bytes 32 1) < secp_n.
Proof. split; [reflexivity|]. vm_compute. split; discriminate || reflexivity. Qed.

(* ---- W7: the nonce depends on the SPELLING of the digest: lower-case and upper-case hex text of the same digest
        (..00ab / ..00AB) give different RFC 6979 nonces, hence different signatures of the same (key, digest) *)
Definition w7_dg : bytes := be_bytes 32 171.
Lemma w7_hex_case : lib_nonce 1 w7_dg <> lib_nonce_upper 1 w7_dg.
Proof. vm_compute. discriminate. Qed.
