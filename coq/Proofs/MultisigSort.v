(* Proofs/MultisigSort.v — C10: the byte-string order is a total order equal to lexicographic order (BIP67),
   the stable insertion sort of the model returns THE sorted permutation, hence the redeem script, the address
   and the assigned positions do not depend on the order in which the cosigner keys were supplied. *)
From Coq Require Import ZArith List Bool Lia Sorted Permutation.
From Coq.Strings Require Import Byte.
From Verif Require Import Lib.Bytes Model.Wire Proofs.CompactSize Proofs.ScriptCodec Model.Multisig.
Import ListNotations.
Open Scope Z_scope.

(* ---------- the order ---------- *)
Lemma bytes_leb_cons x a y b : bytes_leb (x :: a) (y :: b) =
  if bz x <? bz y then true else if bz y <? bz x then false else bytes_leb a b.
Proof. reflexivity. Qed.

Lemma bytes_leb_refl a : bytes_leb a a = true.
Proof.
  induction a as [|x a IH]; [reflexivity|].
  rewrite bytes_leb_cons. rewrite Z.ltb_irrefl. exact IH.
Qed.

Lemma bytes_leb_total a : forall b, bytes_leb a b = true \/ bytes_leb b a = true.
Proof.
  induction a as [|x a IH]; intros [|y b]; try (left; reflexivity); try (right; reflexivity).
  rewrite !bytes_leb_cons.
  destruct (bz x <? bz y) eqn:E1; [left; reflexivity|].
  destruct (bz y <? bz x) eqn:E2; [right; reflexivity|].
  apply IH.
Qed.

Lemma bytes_leb_antisym a : forall b, bytes_leb a b = true -> bytes_leb b a = true -> a = b.
Proof.
  induction a as [|x a IH]; intros [|y b] H1 H2; try reflexivity; try discriminate.
  rewrite bytes_leb_cons in H1, H2.
  destruct (bz x <? bz y) eqn:E1.
  - apply Z.ltb_lt in E1. destruct (bz y <? bz x) eqn:E2; [apply Z.ltb_lt in E2; lia|discriminate].
  - destruct (bz y <? bz x) eqn:E2; [discriminate|].
    apply Z.ltb_ge in E1. apply Z.ltb_ge in E2.
    assert (bz x = bz y) by lia. f_equal; [apply bz_inj; assumption | apply IH; assumption].
Qed.

Lemma bytes_leb_trans a : forall b c, bytes_leb a b = true -> bytes_leb b c = true -> bytes_leb a c = true.
Proof.
  induction a as [|x a IH]; intros [|y b] [|z c] H1 H2; try reflexivity; try discriminate.
  rewrite bytes_leb_cons in *.
  destruct (bz x <? bz y) eqn:E1.
  - apply Z.ltb_lt in E1.
    destruct (bz y <? bz z) eqn:E2.
    + apply Z.ltb_lt in E2. assert (E : bz x <? bz z = true) by (apply Z.ltb_lt; lia). rewrite E. reflexivity.
    + destruct (bz z <? bz y) eqn:E3; [discriminate|].
      apply Z.ltb_ge in E2. apply Z.ltb_ge in E3.
      assert (E : bz x <? bz z = true) by (apply Z.ltb_lt; lia). rewrite E. reflexivity.
  - destruct (bz y <? bz x) eqn:E1'; [discriminate|].
    apply Z.ltb_ge in E1. apply Z.ltb_ge in E1'.
    destruct (bz y <? bz z) eqn:E2.
    + apply Z.ltb_lt in E2. assert (E : bz x <? bz z = true) by (apply Z.ltb_lt; lia). rewrite E. reflexivity.
    + destruct (bz z <? bz y) eqn:E3; [discriminate|].
      apply Z.ltb_ge in E2. apply Z.ltb_ge in E3.
      assert (E : bz x <? bz z = false) by (apply Z.ltb_ge; lia). rewrite E.
      assert (E' : bz z <? bz x = false) by (apply Z.ltb_ge; lia). rewrite E'.
      eapply IH; eassumption.
Qed.

(* the order of the code is the lexicographic order of BIP67 *)
Lemma bytes_leb_lex a : forall b, bytes_leb a b = true <-> lex_le a b.
Proof.
  induction a as [|x a IH]; intros [|y b].
  - split; [left; reflexivity | reflexivity].
  - split; [right; constructor | reflexivity].
  - split; [discriminate|]. intros [H|H]; [discriminate | inversion H].
  - rewrite bytes_leb_cons. split.
    + destruct (bz x <? bz y) eqn:E1.
      * intros _. right. apply lex_head. apply Z.ltb_lt. exact E1.
      * destruct (bz y <? bz x) eqn:E2; [discriminate|].
        apply Z.ltb_ge in E1. apply Z.ltb_ge in E2. assert (Hxy : x = y) by (apply bz_inj; lia). subst y.
        intros H. apply IH in H. destruct H as [H|H]; [left; congruence | right; apply lex_tail; exact H].
    + intros [H|H].
      * inversion H; subst. rewrite Z.ltb_irrefl. apply IH. left. reflexivity.
      * inversion H; subst.
        -- assert (E : bz x <? bz y = true) by (apply Z.ltb_lt; assumption). rewrite E. reflexivity.
        -- rewrite Z.ltb_irrefl. apply IH. right. assumption.
Qed.

(* ---------- the sort ---------- *)
Section SortFacts.
  Context {A : Type}.
  Variable key : A -> bytes.
  Definition kle (x y : A) : Prop := bytes_leb (key x) (key y) = true.

  Lemma ms_insert_perm x l : Permutation (ms_insert key x l) (x :: l).
  Proof.
    induction l as [|y r IH]; [apply Permutation_refl|].
    cbn [ms_insert]. destruct (bytes_leb (key x) (key y)); [apply Permutation_refl|].
    eapply Permutation_trans; [apply perm_skip; exact IH | apply perm_swap].
  Qed.

  Lemma ms_sort_perm l : Permutation (ms_sort key l) l.
  Proof.
    induction l as [|x r IH]; [apply Permutation_refl|].
    cbn [ms_sort]. eapply Permutation_trans; [apply ms_insert_perm | apply perm_skip; exact IH].
  Qed.

  Lemma ms_insert_sorted x l : StronglySorted kle l -> StronglySorted kle (ms_insert key x l).
  Proof.
    induction l as [|y r IH]; intros Hs.
    - cbn. constructor; [constructor | constructor].
    - cbn [ms_insert]. destruct (bytes_leb (key x) (key y)) eqn:E.
      + constructor; [exact Hs|]. constructor; [exact E|].
        inversion Hs as [|? ? Hr Hall]; subst.
        eapply Forall_impl; [|exact Hall]. intros z Hz. unfold kle in *. eapply bytes_leb_trans; eassumption.
      + inversion Hs as [|? ? Hr Hall]; subst. constructor; [apply IH; exact Hr|].
        assert (Hyx : kle y x).
        { unfold kle. destruct (bytes_leb_total (key x) (key y)) as [H|H]; [congruence | exact H]. }
        eapply Permutation_Forall; [apply Permutation_sym; apply ms_insert_perm|].
        constructor; assumption.
  Qed.

  Lemma ms_sort_sorted l : StronglySorted kle (ms_sort key l).
  Proof.
    induction l as [|x r IH]; [constructor|]. cbn [ms_sort]. apply ms_insert_sorted. exact IH.
  Qed.

  Lemma ms_sort_length l : length (ms_sort key l) = length l.
  Proof. apply Permutation_length. apply ms_sort_perm. Qed.
End SortFacts.

(* sorting commutes with projecting to the key *)
Lemma ms_insert_map {A : Type} (key : A -> bytes) x l :
  map key (ms_insert key x l) = ms_insert (fun k => k) (key x) (map key l).
Proof.
  induction l as [|y r IH]; [reflexivity|].
  cbn [ms_insert map]. destruct (bytes_leb (key x) (key y)); [reflexivity|]. cbn [map]. rewrite IH. reflexivity.
Qed.

Lemma ms_sort_map {A : Type} (key : A -> bytes) l :
  map key (ms_sort key l) = ms_sort (fun k => k) (map key l).
Proof.
  induction l as [|x r IH]; [reflexivity|]. cbn [ms_sort map]. rewrite ms_insert_map, IH. reflexivity.
Qed.

(* a sorted list is determined by its elements (total ANTISYMMETRIC order) *)
Definition ble (a b : bytes) : Prop := bytes_leb a b = true.

Lemma sorted_perm_unique (l : list bytes) : forall l',
  StronglySorted ble l -> StronglySorted ble l' -> Permutation l l' -> l = l'.
Proof.
  induction l as [|x r IH]; intros l' Hs Hs' Hp.
  - apply Permutation_nil in Hp. congruence.
  - destruct l' as [|y r']; [apply Permutation_sym, Permutation_nil in Hp; discriminate|].
    inversion Hs as [|? ? Hr Hall]; subst. inversion Hs' as [|? ? Hr' Hall']; subst.
    assert (Hxy : x = y).
    { assert (Hin : In x (y :: r')) by (eapply Permutation_in; [exact Hp | left; reflexivity]).
      assert (Hin' : In y (x :: r)) by (eapply Permutation_in; [apply Permutation_sym; exact Hp | left; reflexivity]).
      destruct Hin as [H|H]; [congruence|]. destruct Hin' as [H'|H']; [congruence|].
      rewrite Forall_forall in Hall, Hall'.
      apply bytes_leb_antisym; [apply Hall; exact H' | apply Hall'; exact H]. }
    subst y. f_equal. apply IH; try assumption. eapply Permutation_cons_inv. exact Hp.
Qed.

Lemma ms_sort_id_sorted l : StronglySorted ble (ms_sort (fun k => k) l).
Proof. exact (ms_sort_sorted (fun k : bytes => k) l). Qed.

Lemma ms_sort_perm_eq l l' : Permutation l l' -> ms_sort (fun k => k) l = ms_sort (fun k => k) l'.
Proof.
  intros Hp. apply sorted_perm_unique; try apply ms_sort_id_sorted.
  eapply Permutation_trans; [apply ms_sort_perm|].
  eapply Permutation_trans; [exact Hp|]. apply Permutation_sym. apply ms_sort_perm.
Qed.

Lemma sorted_ble_lex l : StronglySorted ble l <-> StronglySorted lex_le l.
Proof.
  split; intros H; induction H as [|a r Hr IH Hall]; constructor; try exact IH;
    (eapply Forall_impl; [|exact Hall]); intros b Hb; apply bytes_leb_lex; exact Hb.
Qed.

Lemma ms_sort_bip67 l : bip67_sorted (ms_sort (fun k => k) l).
Proof. unfold bip67_sorted. apply sorted_ble_lex. apply ms_sort_id_sorted. Qed.

(* any BIP67-sorted arrangement of the same keys is the one the library computes *)
Lemma bip67_sorted_is_ms_sort keys l :
  Permutation keys l -> bip67_sorted l -> l = ms_sort (fun k => k) keys.
Proof.
  intros Hp Hs. apply sorted_perm_unique.
  - apply sorted_ble_lex. exact Hs.
  - apply ms_sort_id_sorted.
  - eapply Permutation_trans; [apply Permutation_sym; exact Hp|]. apply Permutation_sym. apply ms_sort_perm.
Qed.

(* ---------- the script ---------- *)
Lemma serialize_keys_tail ks : forall tl tlb,
  Forall (fun k => Z.of_nat (length k) <= 65535) ks ->
  lib_serialize tl = Some tlb ->
  lib_serialize (map Data ks ++ tl) = Some (concat (map core_push ks) ++ tlb).
Proof.
  induction ks as [|k r IH]; intros tl tlb Hall Htl; [exact Htl|].
  inversion Hall as [|? ? Hk Hr]; subst.
  cbn [map]. rewrite <- app_comm_cons. rewrite lib_serialize_cons.
  rewrite (push_is_core k Hk). rewrite (IH tl tlb Hr Htl).
  cbn [concat map]. rewrite app_assoc. reflexivity.
Qed.

Lemma lib_multisig_script_spec m ks :
  Forall (fun k => Z.of_nat (length k) <= 65535) ks ->
  lib_multisig_script m ks = Some (spec_multisig_script m ks).
Proof.
  intros Hall. unfold lib_multisig_script, spec_multisig_script.
  assert (E : lib_serialize (map Data ks ++ [Op (op_n (Z.of_nat (length ks))); Op x_checkmultisig]) =
              Some (concat (map core_push ks) ++ [op_n (Z.of_nat (length ks)); x_checkmultisig])).
  { apply serialize_keys_tail; [exact Hall | reflexivity]. }
  rewrite lib_serialize_cons. unfold bytes in *. rewrite E. reflexivity.
Qed.

Lemma pubkey_pushable k : is_pubkey k -> Z.of_nat (length k) <= 65535.
Proof. intros [H|H]; rewrite H; lia. Qed.

Lemma redeem_perm_invariant_lemma keys keys' m :
  Permutation keys keys' -> lib_redeemscript keys' m true = lib_redeemscript keys m true.
Proof. intros Hp. unfold lib_redeemscript. rewrite (ms_sort_perm_eq keys keys' Hp). reflexivity. Qed.

Lemma redeem_is_spec_lemma keys m :
  Forall is_pubkey keys ->
  lib_redeemscript keys m true = Some (spec_multisig_script m (ms_sort (fun k => k) keys)) /\
  Permutation keys (ms_sort (fun k => k) keys) /\ bip67_sorted (ms_sort (fun k => k) keys).
Proof.
  intros Hk. split; [|split].
  - unfold lib_redeemscript. apply lib_multisig_script_spec.
    eapply Permutation_Forall; [apply Permutation_sym; apply ms_sort_perm|].
    eapply Forall_impl; [|exact Hk]. intros k. apply pubkey_pushable.
  - apply Permutation_sym. apply ms_sort_perm.
  - apply ms_sort_bip67.
Qed.

(* the whole wallet computation: order of the supplied keys, then order of the derived keys *)
Lemma wallet_child_keys keys :
  map snd (lib_wallet_child_order keys true) = ms_sort (fun k => k) (map snd keys).
Proof.
  unfold lib_wallet_child_order. rewrite ms_sort_map.
  apply ms_sort_perm_eq. apply Permutation_map. apply ms_sort_perm.
Qed.

Lemma wallet_redeem_is_redeem keys m :
  lib_wallet_redeemscript keys m true = lib_redeemscript (map snd keys) m true.
Proof. unfold lib_wallet_redeemscript, lib_redeemscript. rewrite wallet_child_keys. reflexivity. Qed.

(* two wallets: any supplied order, any supplied form of the cosigner keys (master private / account public),
   any private holder — same derived child keys => same redeem script *)
Lemma wallets_agree_lemma (w1 w2 : list (cosigner * bytes)) m :
  Permutation (map snd w1) (map snd w2) ->
  lib_wallet_redeemscript w1 m true = lib_wallet_redeemscript w2 m true.
Proof.
  intros Hp. rewrite !wallet_redeem_is_redeem. apply redeem_perm_invariant_lemma. apply Permutation_sym. exact Hp.
Qed.

Lemma same_address_lemma (H160 H256 : bytes -> bytes) k (w1 w2 : list (cosigner * bytes)) m :
  Permutation (map snd w1) (map snd w2) ->
  lib_wallet_address_hash H160 H256 k w1 m true = lib_wallet_address_hash H160 H256 k w2 m true.
Proof. intros Hp. unfold lib_wallet_address_hash. rewrite (wallets_agree_lemma w1 w2 m Hp). reflexivity. Qed.

(* ---------- positions (cosigner_index of purpose 45) ---------- *)
(* wallets that were given the same set of public byte strings (same depth for every cosigner) order the
   cosigners identically, whatever the supplied order and whoever holds which private key *)
Lemma cosigner_order_agree_lemma (w1 w2 : list cosigner) :
  Permutation (map co_master w1) (map co_master w2) ->
  map co_master (lib_cosigner_order w1 true) = map co_master (lib_cosigner_order w2 true).
Proof. intros Hp. unfold lib_cosigner_order. rewrite !ms_sort_map. apply ms_sort_perm_eq. exact Hp. Qed.
