(* Proofs/EvalP2sh.v - C19: the commitment step of a parsed P2SH spend.
   Script.parse hands evaluate() the flattened commands  <pushes of the scriptSig> <commands of the pushed redeem
   script> OP_HASH160 <h> OP_EQUAL  with env_data['redeemscript'] = the bytes the scriptSig pushed; after its
   OP_CHECKMULTISIG the library pushes env_data['redeemscript'] (Model/EvalLib.v, K_CHECKMULTISIG).  What the tail
   OP_HASH160 <h> OP_EQUAL then decides depends on those BYTES only: valid iff their HASH160 is the committed hash.
   (BIP16: the hash is taken over the serialized script exactly as pushed - two encodings of one command list are two
   different outputs.) *)
From Coq Require Import ZArith List Bool Lia.
From Coq.Strings Require Import Byte.
From Verif Require Import Lib.Bytes Gen.GenConsts Model.Wire Model.EvalLib.
Import ListNotations.
Open Scope Z_scope.

Definition p2sh_tail (h : bytes) : list scmd := [COp 169; CPush h; COp 135].   (* OP_HASH160 <h> OP_EQUAL *)

Section Tail.
  Variable h_ripemd160 h_sha1 h_sha256 : bytes -> bytes.
  Variable sigcheck : bytes -> bytes -> sigres.
  Variable e : env.

  Definition hash160 (x : bytes) : bytes := h_ripemd160 (h_sha256 x).

  Lemma dispatch_169 : lib_dispatch 169 = DKind K_HASH160. Proof. vm_compute. reflexivity. Qed.
  Lemma dispatch_135 : lib_dispatch 135 = DKind K_EQUAL. Proof. vm_compute. reflexivity. Qed.

  Lemma p2sh_tail_run : forall (pushed h : bytes) (below : stack) (fuel : nat),
    r_verdict (lib_run h_ripemd160 h_sha1 h_sha256 sigcheck e (4 + fuel) (p2sh_tail h) (pushed :: below)) =
      match below with
      | [] => if bytes_eqb h (hash160 pushed) then Valid else Invalid
      | _ :: _ => r_verdict (lib_run h_ripemd160 h_sha1 h_sha256 sigcheck e (1 + fuel) []
                                     (of_bool (bytes_eqb h (hash160 pushed)) :: below))
      end.
  Proof.
    intros pushed h below fuel. unfold p2sh_tail.
    replace (4 + fuel)%nat with (S (S (S (S fuel)))) by lia.
    cbn [lib_run].
    change (169 =? op_0) with false. change (169 =? op_1negate) with false.
    change ((op_1 <=? 169) && (169 <=? op_16)) with false.
    change ((169 =? op_if) || (169 =? op_notif)) with false.
    cbv iota. rewrite dispatch_169.
    change (lib_op h_ripemd160 h_sha1 h_sha256 sigcheck e K_HASH160 (pushed :: below))
      with (ROk (hash160 pushed :: below)).
    cbv iota.
    change (135 =? op_0) with false. change (135 =? op_1negate) with false.
    change ((op_1 <=? 135) && (135 <=? op_16)) with false.
    change ((135 =? op_if) || (135 =? op_notif)) with false.
    cbv iota. rewrite dispatch_135.
    change (lib_op h_ripemd160 h_sha1 h_sha256 sigcheck e K_EQUAL (h :: hash160 pushed :: below))
      with (ROk (of_bool (bytes_eqb h (hash160 pushed)) :: below)).
    cbv iota.
    destruct below as [|b r].
    - destruct (bytes_eqb h (hash160 pushed)); reflexivity.
    - reflexivity.
  Qed.

  (* the verdict of the commitment step on the stack a successful OP_CHECKMULTISIG leaves (nothing below the pushed
     redeem script bytes): valid exactly when the output commits to the hash of the bytes as pushed *)
  Lemma p2sh_commits_to_pushed_bytes : forall (pushed h : bytes) (fuel : nat),
    r_verdict (lib_run h_ripemd160 h_sha1 h_sha256 sigcheck e (4 + fuel) (p2sh_tail h) [pushed]) = Valid
    <-> h = hash160 pushed.
  Proof.
    intros pushed h fuel. rewrite p2sh_tail_run.
    destruct (bytes_eqb h (hash160 pushed)) eqn:E.
    - split; [intros _; apply bytes_eqb_true; exact E | reflexivity].
    - split; [discriminate|]. intros H. apply bytes_eqb_true in H. rewrite H in E. discriminate.
  Qed.

  (* two different encodings of one command list (a canonical re-serialisation and the bytes as pushed) cannot both
     satisfy one output unless their hashes collide *)
  Lemma p2sh_reserialised_copy_rejected : forall (pushed canon : bytes) (fuel : nat),
    hash160 canon <> hash160 pushed ->
    r_verdict (lib_run h_ripemd160 h_sha1 h_sha256 sigcheck e (4 + fuel) (p2sh_tail (hash160 canon)) [pushed]) = Invalid.
  Proof.
    intros pushed canon fuel Hne. rewrite p2sh_tail_run.
    destruct (bytes_eqb (hash160 canon) (hash160 pushed)) eqn:E; [|reflexivity].
    apply bytes_eqb_true in E. contradiction.
  Qed.
End Tail.
