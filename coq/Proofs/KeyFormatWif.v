(* Proofs/KeyFormatWif.v — C12: format detection on Base58 text, WIF export/import round trip, raw forms. *)
From Coq Require Import ZArith List Bool Lia.
From Coq Require String.
From Coq.Strings Require Import Byte.
From Verif Require Import Lib.Bytes Gen.GenConsts Gen.GenNetworks Crypto.Sha256 Crypto.HashLemmas
  Model.Base58 Model.KeyFormat Proofs.Base58 Proofs.Base58Check Proofs.KeyFormatBase.
Import ListNotations.
Import Coq.Strings.String.StringSyntax.
Open Scope Z_scope.

(* ------------------------------------------------------------------ the chain of tests in front of the Base58 branch *)
Definition gkf_tail (s : bytes) (nets : option (list str)) : kf_res :=
  if all_digits s && (70 <? Z.of_nat (length s)) && (Z.of_nat (length s) <? 78)
  then KfOk {| kf_format := FDecimal; kf_networks := nets; kf_private := true; kf_scripts := [];
               kf_witness := [default_witness]; kf_multisig := [false] |}
  else KfNoKey.

Lemma gkf_str_b58 fold wc s ip :
  (0 < Z.of_nat (length s) < 58 \/ 66 < Z.of_nat (length s) < 128) ->
  existsb (beq c_space) s = false ->
  gkf_str fold wc s ip = match gkf_b58 fold wc s ip with inl r => r | inr nets => gkf_tail s nets end.
Proof.
  intros HL Hsp. unfold gkf_str, len_is, gkf_tail.
  set (L := Z.of_nat (length s)) in *.
  replace (L =? 0) with false by (symmetry; apply Z.eqb_neq; lia).
  replace (L =? 130) with false by (symmetry; apply Z.eqb_neq; lia).
  replace (L =? 128) with false by (symmetry; apply Z.eqb_neq; lia).
  replace (L =? 66) with false by (symmetry; apply Z.eqb_neq; lia).
  replace (L =? 64) with false by (symmetry; apply Z.eqb_neq; lia).
  replace (L =? 58) with false by (symmetry; apply Z.eqb_neq; lia).
  cbn [andb]. rewrite Hsp. reflexivity.
Qed.

(* ------------------------------------------------------------------ prefix search: no row starts with this byte *)
Lemma filter_nil {A} (f : A -> bool) l : (forall x, In x l -> f x = false) -> filter f l = [].
Proof.
  induction l as [|x l IH]; intros H; [reflexivity|]. cbn [filter]. rewrite (H x (or_introl eq_refl)).
  apply IH. intros y Hy. apply H. right. exact Hy.
Qed.

Lemma search_nil_first p wt ms nw :
  (forall m, In m all_rows -> first_byte (wr_prefix (hm_row m)) <> first_byte p) ->
  lib_wif_prefix_search p wt ms nw = [].
Proof.
  intros H. rewrite search_is_filter. apply filter_nil. intros m Hm.
  unfold hm_matches, row_matches.
  destruct (bytes_eqb (wr_prefix (hm_row m)) p) eqn:E.
  - apply bytes_eqb_true in E. exfalso. apply (H m Hm). rewrite E. reflexivity.
  - cbn [andb]. apply andb_false_r.
Qed.

(* ------------------------------------------------------------------ network_by_value('prefix_wif', .) *)
Lemma insert_prio_in x y l : x = y \/ In x l -> In x (insert_prio y l).
Proof.
  induction l as [|z l IH]; cbn [insert_prio].
  - intros [E|[]]. left. congruence.
  - destruct (nw_priority z <=? nw_priority y).
    + intros [E|H]; [left; congruence | right; exact H].
    + intros [E|[E|H]]; [right; apply IH; left; exact E | left; exact E | right; apply IH; right; exact H].
Qed.

Lemma sort_prio_in x l : In x l -> In x (sort_prio l).
Proof.
  induction l as [|y l IH]; cbn [sort_prio fold_right]; [intros []|].
  intros [E|H]; apply insert_prio_in; [left; congruence | right; apply IH; exact H].
Qed.

Lemma networks_by_wif_in n : In n all_networks -> In (nw_name n) (lib_networks_by_wif (nw_prefix_wif n)).
Proof.
  intros H. unfold lib_networks_by_wif. apply in_map. apply sort_prio_in. apply filter_In.
  split; [exact H | apply bytes_eqb_refl].
Qed.

Lemma networks_by_wif_sound x v : In x (lib_networks_by_wif v) ->
  exists n, In n all_networks /\ nw_name n = x /\ nw_prefix_wif n = v.
Proof.
  unfold lib_networks_by_wif. intros H. apply in_map_iff in H. destruct H as [n [E H]].
  apply In_sort_prio in H. apply filter_In in H. destruct H as [H1 H2]. apply bytes_eqb_true in H2.
  exists n. repeat split; assumption.
Qed.

(* ------------------------------------------------------------------ check_network_and_key *)
Lemma str_in_In x l : str_in x l = true -> In x l.
Proof.
  unfold str_in. intros H. apply existsb_exists in H. destruct H as [y [Hy E]].
  apply String.eqb_eq in E. subst y. exact Hy.
Qed.

Lemma resolve_networks_ok l x : l <> [] -> resolve_networks l = Ok x -> In x l.
Proof.
  intros Hne. unfold resolve_networks. destruct l as [|a [|b r]]; [contradiction| |].
  - intros H. inversion H. left. reflexivity.
  - destruct (str_in default_network (a :: b :: r)) eqn:E1.
    + intros H. inversion H; subst. apply str_in_In. exact E1.
    + destruct (str_in testnet_name (a :: b :: r)) eqn:E2; [|discriminate].
      intros H. inversion H; subst. apply str_in_In. exact E2.
Qed.

Lemma resolve_networks_err l e : resolve_networks l = Err e ->
  e = EAmbiguous /\ (1 < length l)%nat /\ str_in default_network l = false /\ str_in testnet_name l = false.
Proof.
  unfold resolve_networks. destruct l as [|a [|b r]]; try discriminate.
  destruct (str_in default_network (a :: b :: r)) eqn:E1; [discriminate|].
  destruct (str_in testnet_name (a :: b :: r)) eqn:E2; [discriminate|].
  intros H. inversion H. cbn [length]. repeat split; lia.
Qed.

(* ------------------------------------------------------------------ what a WIF text looks like *)
Section WifText.
Variable fold : bool.
Variable wc : bool.
Variables (v : byte) (secret flag : bytes).
Hypothesis Hv : v <> x00.
Hypothesis Hlen : length secret = 32%nat.
Hypothesis Hflag : flag = [] \/ flag = [x01].

Let payload : bytes := v :: secret ++ flag.
Let check : bytes := firstn 4 (sha256d payload).
Let w : bytes := b58_enc (payload ++ check).

Lemma wif_check_len : length check = 4%nat.
Proof. unfold check. rewrite firstn_length, sha256d_length. reflexivity. Qed.

Lemma wif_text_len : 0 < Z.of_nat (length w) < 58.
Proof.
  unfold w, payload. cbn [app].
  split.
  - apply b58_len_ge; [exact Hv|]. change (58 ^ 0) with 1.
    assert (0 < 256 ^ Z.of_nat (length ((secret ++ flag) ++ check))) by (apply Z.pow_pos_nonneg; lia). lia.
  - assert (Z.of_nat (length (b58_enc (v :: (secret ++ flag) ++ check))) <= 52); [|lia].
    apply b58_len_le; [exact Hv | lia |].
    cbn [length]. rewrite !app_length, Hlen, wif_check_len.
    destruct Hflag as [-> | ->]; cbn [length]; apply Z.leb_le; vm_compute; reflexivity.
Qed.

Lemma wif_text_bytes : b58_bytes fold w = Some (payload ++ check).
Proof. unfold b58_bytes, w. apply b58_rt. unfold payload. discriminate. Qed.

Lemma wif_payload_flag :
  wif_payload_compressed wc payload = match flag with [] => (if wc then false else bytes_eqb (lastn 1 (v :: secret)) [x01]) | _ => true end.
Proof.
  unfold wif_payload_compressed, payload.
  destruct Hflag as [-> | ->].
  - rewrite app_nil_r. cbn [length]. rewrite Hlen. destruct wc; reflexivity.
  - change (v :: secret ++ [x01]) with ((v :: secret) ++ [x01]).
    rewrite lastn_app_exact by reflexivity. rewrite app_length. cbn [length]. rewrite Hlen.
    destruct wc; reflexivity.
Qed.

(* get_key_format on the text, for a version byte of network n *)
Lemma wif_text_format n ip : In n all_networks -> nw_prefix_wif n = [v] ->
  lib_get_key_format fold wc (KStr w) ip =
  KfOk {| kf_format := if wif_payload_compressed wc payload then FWifCompressed else FWif;
          kf_networks := Some (lib_networks_by_wif [v]); kf_private := true; kf_scripts := [];
          kf_witness := [default_witness]; kf_multisig := [false] |}.
Proof.
  intros Hn Hver. cbn [lib_get_key_format].
  rewrite gkf_str_b58 by (left; apply wif_text_len) || (apply b58_enc_no_space).
  unfold gkf_b58. rewrite wif_text_bytes.
  assert (Hs : lib_wif_prefix_search (firstn 4 (payload ++ check)) None None None = []).
  { apply search_nil_first. intros m Hm.
    destruct (wif_version_shape n Hn) as [v' [E [_ Hno]]]. rewrite Hver in E. inversion E; subst v'.
    unfold payload. cbn [app firstn first_byte]. apply Hno. exact Hm. }
  rewrite Hs.
  assert (H1 : firstn 1 (payload ++ check) = [v]) by reflexivity.
  rewrite H1.
  pose proof (networks_by_wif_in n Hn) as Hin. rewrite Hver in Hin.
  destruct (lib_networks_by_wif [v]) as [|x l] eqn:E; [destruct Hin|].
  rewrite droplast_app_exact by apply wif_check_len.
  assert (H5 : Nat.leb 5 (length (payload ++ check)) = true).
  { rewrite app_length, wif_check_len. unfold payload. cbn [length]. apply Nat.leb_le. lia. }
  rewrite H5, andb_true_r. reflexivity.
Qed.

(* the private-key part Key.__init__ extracts from the text *)
Lemma wif_text_private_part n f c : In n all_networks -> nw_prefix_wif n = [v] -> f = FWif \/ f = FWifCompressed ->
  key_private_part fold wc (KStr w) f c =
  let '(kb, c') := if wif_payload_compressed wc payload then (skipn 1 (droplast 1 payload), true)
                   else (skipn 1 payload, false) in
  if Nat.eqb (length kb) 32 then Ok (kb, c') else Err EKey.
Proof.
  intros Hn Hver Hf.
  assert (E : key_private_part fold wc (KStr w) f c =
              match b58_bytes fold w with
              | None => Err EOther
              | Some raw =>
                  let check := lastn 4 raw in
                  let key := droplast 4 raw in
                  if negb (b58_checksum_ok key check) then Err EKey
                  else match lib_networks_by_wif (firstn 1 key) with
                       | [] => Err EKey
                       | _ => let '(kb, c') := if wif_payload_compressed wc key
                                               then (skipn 1 (droplast 1 key), true)
                                               else (skipn 1 key, false) in
                              if Nat.eqb (length kb) 32 then Ok (kb, c') else Err EKey
                       end
              end) by (destruct Hf as [-> | ->]; reflexivity).
  rewrite E, wif_text_bytes. cbv zeta.
  rewrite lastn_app_exact by apply wif_check_len.
  rewrite droplast_app_exact by apply wif_check_len.
  unfold check at 1. rewrite sha256d_check4. cbn [negb].
  assert (H1 : firstn 1 payload = [v]) by reflexivity. rewrite H1.
  pose proof (networks_by_wif_in n Hn) as Hin. rewrite Hver in Hin.
  destruct (lib_networks_by_wif [v]) as [|x l]; [destruct Hin | reflexivity].
Qed.

End WifText.

(* ------------------------------------------------------------------ Key.wif() then Key(...) *)
Definition wif_key_obj (secret : bytes) (compressed : bool) (nw : str) : key_obj :=
  {| ko_private := true; ko_key := secret; ko_compressed := compressed; ko_network := nw;
     ko_format := if compressed then FWifCompressed else FWif |}.

Lemma pow256_32 : 256 ^ Z.of_nat 32 = 2 ^ 256.
Proof. vm_compute. reflexivity. Qed.

Lemma secret_range_true kb : 0 < of_be kb < secp256k1_n -> secret_in_range kb = true.
Proof.
  intros [H1 H2]. unfold secret_in_range. apply andb_true_iff. split; apply Z.ltb_lt; assumption.
Qed.

Lemma n_lt_2_256 : secp256k1_n < 2 ^ 256.
Proof. apply Z.ltb_lt. vm_compute. reflexivity. Qed.

Theorem wif_roundtrip_lemma : forall fold oc n km,
  In n all_networks ->
  km_private km = true -> length (km_secret km) = 32%nat -> 0 < of_be (km_secret km) < secp256k1_n ->
  km_network km = nw_name n ->
  exists w,
    lib_wif oc km = Ok w /\
    In (nw_name n) (lib_networks_by_wif (nw_prefix_wif n)) /\
    (forall ip, lib_get_key_format fold true (KStr w) ip =
       KfOk {| kf_format := if km_compressed km then FWifCompressed else FWif;
               kf_networks := Some (lib_networks_by_wif (nw_prefix_wif n)); kf_private := true; kf_scripts := [];
               kf_witness := [default_witness]; kf_multisig := [false] |}) /\
    (forall h c ip, network_defined h = true ->
       lib_key_import fold true oc (KStr w) (Some h) c ip = Ok (wif_key_obj (km_secret km) (km_compressed km) h)) /\
    (forall c ip,
       lib_key_import fold true oc (KStr w) None c ip =
       match resolve_networks (lib_networks_by_wif (nw_prefix_wif n)) with
       | Ok nw => Ok (wif_key_obj (km_secret km) (km_compressed km) nw)
       | Err e => Err e
       end).
Proof.
  intros fold oc n km Hn Hpriv Hlen Hrange Hnet.
  assert (Hnz : of_be (km_secret km) <> 0) by lia.
  destruct (wif_version_shape n Hn) as [v [Hver [Hv _]]].
  destruct (find_network_name n Hn) as [n' [Hfind [_ Hsame]]].
  set (secret := km_secret km) in *.
  set (flag := if km_compressed km then [x01] else []).
  assert (Hflag : flag = [] \/ flag = [x01]) by (subst flag; destruct (km_compressed km); auto).
  exists (b58_enc ((v :: secret ++ flag) ++ firstn 4 (sha256d (v :: secret ++ flag)))).
  assert (Hpc : wif_payload_compressed true (v :: secret ++ flag) = km_compressed km).
  { rewrite (wif_payload_flag true v secret flag Hlen Hflag). subst flag. destruct (km_compressed km); reflexivity. }
  assert (Hfmt : forall ip, lib_get_key_format fold true
              (KStr (b58_enc ((v :: secret ++ flag) ++ firstn 4 (sha256d (v :: secret ++ flag))))) ip =
       KfOk {| kf_format := if km_compressed km then FWifCompressed else FWif;
               kf_networks := Some (lib_networks_by_wif (nw_prefix_wif n)); kf_private := true; kf_scripts := [];
               kf_witness := [default_witness]; kf_multisig := [false] |}).
  { intros ip. rewrite (wif_text_format fold true v secret flag Hv Hlen Hflag n ip Hn Hver), Hpc, Hver. reflexivity. }
  assert (Hpart : forall c, key_private_checked fold true
              (KStr (b58_enc ((v :: secret ++ flag) ++ firstn 4 (sha256d (v :: secret ++ flag)))))
              (if km_compressed km then FWifCompressed else FWif) c = Ok (secret, km_compressed km)).
  { intros c. unfold key_private_checked.
    assert (Hin_range : secret_in_range secret = true) by (apply secret_range_true; exact Hrange). rewrite (wif_text_private_part fold true v secret flag n _ c Hn Hver)
      by (destruct (km_compressed km); auto).
    rewrite Hpc. subst flag. destruct (km_compressed km).
    - change (v :: secret ++ [x01]) with ((v :: secret) ++ [x01]).
      rewrite droplast_app_exact by reflexivity. cbn [skipn]. rewrite Hlen. cbn [Nat.eqb]. rewrite Hin_range. reflexivity.
    - rewrite app_nil_r. cbn [skipn]. rewrite Hlen. cbn [Nat.eqb]. rewrite Hin_range. reflexivity. }
  pose proof (networks_by_wif_in n Hn) as Hin.
  split; [|split; [exact Hin | split; [exact Hfmt | split]]].
  - unfold lib_wif, km_constructible. rewrite Hpriv. fold secret.
    rewrite (secret_range_true secret Hrange). cbn [negb].
    replace (of_be secret =? 0) with false by (symmetry; apply Z.eqb_neq; exact Hnz).
    pose proof (of_be_range secret) as Hr. rewrite Hlen, pow256_32 in Hr.
    replace (2 ^ 256 <=? of_be secret) with false by (symmetry; apply Z.leb_gt; lia).
    rewrite Hnet, Hfind, Hsame, Hver.
    rewrite <- Hlen, be_bytes_of_be.
    unfold b58check_enc. reflexivity.
  - intros h c ip Hdef. unfold lib_key_import. rewrite Hfmt.
    cbn [kf_private kf_format kf_networks]. rewrite Hdef.
    replace (match ip with Some true => true | _ => true end) with true by (destruct ip as [[|]|]; reflexivity).
    rewrite Hpart. unfold wif_key_obj. reflexivity.
  - intros c ip. unfold lib_key_import. rewrite Hfmt.
    cbn [kf_private kf_format kf_networks].
    replace (match ip with Some true => true | _ => true end) with true by (destruct ip as [[|]|]; reflexivity).
    destruct (lib_networks_by_wif (nw_prefix_wif n)) as [|x l] eqn:E; [destruct Hin|].
    destruct (resolve_networks (x :: l)) as [nw|e]; [|reflexivity].
    rewrite Hpart. unfold wif_key_obj. reflexivity.
Qed.

(* the code before fixes/C12-1: the uncompressed WIF of a secret ending in 01 is taken for a compressed WIF, the
   last secret byte for the marker; the 31 bytes left are then refused (before the C11 repair "Key() refuses a WIF
   whose private key part is not 32 bytes" they were silently returned as another key) *)
Definition wif_bug_secret : bytes := repeat x11 31 ++ [x01].
Definition wif_bug_km : keymeta :=
  {| km_private := true; km_secret := wif_bug_secret; km_pubc := []; km_pubu := []; km_compressed := false;
     km_chain := []; km_depth := 0; km_fp := []; km_child := 0; km_network := "bitcoin"%string;
     km_witness := "legacy"%string; km_multisig := false |}.

Lemma wif_roundtrip_old_code_refuted :
  match lib_wif (fun _ => true) wif_bug_km with
  | Ok w => lib_key_import false false (fun _ => true) (KStr w) None true None = Err EKey /\
            (exists i, lib_get_key_format false false (KStr w) None = KfOk i /\ kf_format i = FWifCompressed)
  | Err _ => False
  end.
Proof. vm_compute. split; [reflexivity | eexists; split; reflexivity]. Qed.

(* ------------------------------------------------------------------ raw forms *)
Lemma hexval_hexchar d : 0 <= d < 16 -> hexval (hexchar d) = Some d.
Proof.
  intros H. assert (C : d = 0 \/ d = 1 \/ d = 2 \/ d = 3 \/ d = 4 \/ d = 5 \/ d = 6 \/ d = 7 \/ d = 8 \/ d = 9 \/
                        d = 10 \/ d = 11 \/ d = 12 \/ d = 13 \/ d = 14 \/ d = 15) by lia.
  repeat (destruct C as [-> | C]; [reflexivity|]). subst d. reflexivity.
Qed.

Lemma hex_decode_encode b : hex_decode (hex_encode b) = Some b.
Proof.
  induction b as [|x r IH]; [reflexivity|].
  cbn [hex_encode hex_decode]. pose proof (bz_range x) as Hx.
  rewrite !hexval_hexchar by (Z.div_mod_to_equations; lia). rewrite IH.
  replace (16 * (bz x / 16) + bz x mod 16) with (bz x) by (Z.div_mod_to_equations; lia).
  rewrite zb_bz. reflexivity.
Qed.

Lemma hex_encode_length b : length (hex_encode b) = (2 * length b)%nat.
Proof. induction b as [|x r IH]; [reflexivity|]. cbn [hex_encode length]. rewrite IH. lia. Qed.

Definition raw_key_obj (priv : bool) (key : bytes) (compressed : bool) (nw : str) (f : kformat) : key_obj :=
  {| ko_private := priv; ko_key := key; ko_compressed := compressed; ko_network := nw; ko_format := f |}.

Definition hint_network (h : option str) : str := match h with Some x => x | None => default_network end.
Definition hint_ok (h : option str) : Prop := match h with Some x => network_defined x = true | None => True end.

Lemma key_import_net h : hint_ok h ->
  (match h with
   | Some x => if network_defined x then Ok x else Err ENetwork
   | None => Ok default_network
   end) = @Ok str (hint_network h).
Proof. destruct h as [x|]; cbn [hint_ok hint_network]; [intros ->|]; reflexivity. Qed.

Ltac ip_private ip Hip :=
  replace (match ip with Some true => true | _ => true end) with true by (destruct ip as [[|]|]; reflexivity).

(* private_byte, private_hex, secret: the 32-byte secret comes back (leading zero bytes included),
   compressed is whatever the caller says, the network is the hint or the default *)
Theorem raw_private_roundtrip : forall fold wc oc secret h c ip,
  length secret = 32%nat -> 0 < of_be secret < secp256k1_n -> hint_ok h ->
  lib_key_import fold wc oc (KBytes secret) h c ip = Ok (raw_key_obj true secret c (hint_network h) FBin) /\
  lib_key_import fold wc oc (KStr (hex_encode secret)) h c ip = Ok (raw_key_obj true secret c (hint_network h) FHex) /\
  lib_key_import fold wc oc (KInt (of_be secret)) h c ip = Ok (raw_key_obj true secret c (hint_network h) FDecimal).
Proof.
  intros fold wc oc secret h c ip Hlen Hrange Hh.
  assert (Hnz : of_be secret <> 0) by lia.
  pose proof (secret_range_true secret Hrange) as Hsr.
  pose proof (of_be_range secret) as Hr. rewrite Hlen, pow256_32 in Hr.
  assert (Hnet : (match h with
                  | Some x => if network_defined x then Ok x else Err ENetwork
                  | None => Ok default_network
                  end) = @Ok str (hint_network h)) by (apply key_import_net; exact Hh).
  repeat split.
  - assert (G : gkf_bytes secret = kf_plain FBin true) by (unfold gkf_bytes; rewrite Hlen; reflexivity).
    unfold lib_key_import. cbn [lib_get_key_format]. rewrite G.
    cbn [kf_plain kf_private kf_networks kf_format]. rewrite Hnet.
    replace (match ip with Some true => true | _ => true end) with true by (destruct ip as [[|]|]; reflexivity).
    unfold key_private_checked. cbn [key_private_part]. rewrite Hsr. reflexivity.
  - assert (G : gkf_str fold wc (hex_encode secret) None = kf_plain FHex true).
    { unfold gkf_str, len_is. rewrite hex_encode_length, Hlen. reflexivity. }
    unfold lib_key_import. cbn [lib_get_key_format]. rewrite G.
    cbn [kf_plain kf_private kf_networks kf_format]. rewrite Hnet.
    replace (match ip with Some true => true | _ => true end) with true by (destruct ip as [[|]|]; reflexivity).
    unfold key_private_checked. cbn [key_private_part]. rewrite hex_decode_encode, Hlen. cbn [Nat.eqb].
    rewrite Hsr. reflexivity.
  - unfold lib_key_import. cbn [lib_get_key_format].
    replace (of_be secret =? 0) with false by (symmetry; apply Z.eqb_neq; exact Hnz).
    replace (of_be secret <? 0) with false by (symmetry; apply Z.ltb_ge; lia).
    cbn [kf_plain kf_private kf_networks kf_format]. rewrite Hnet.
    replace (match ip with Some true => true | _ => true end) with true by (destruct ip as [[|]|]; reflexivity).
    unfold key_private_checked. cbn [key_private_part].
    replace (2 ^ 256 <=? of_be secret) with false by (symmetry; apply Z.leb_gt; lia).
    rewrite <- Hlen, be_bytes_of_be. rewrite Hsr. reflexivity.
Qed.
