(* Proofs/EvalIfOpen.v — conditionals that are never closed (missing OP_ENDIF): a structured prefix followed
   by an OP_IF / OP_NOTIF whose OP_ENDIF does not come.  The library's scan (Stack.op_if) finds no OP_ENDIF and
   evaluate returns False; Core runs on and ends with a non-empty condition stack
   (SCRIPT_ERR_UNBALANCED_CONDITIONAL) or fails earlier.  Both: Invalid. *)
From Coq Require Import ZArith List Bool Lia.
From Coq.Strings Require Import Byte.
From Verif Require Import Lib.Bytes Gen.GenConsts Model.Wire Model.EvalLib Model.EvalCore
  Proofs.ScriptNum Proofs.EvalNum Proofs.EvalOps Proofs.EvalRun Proofs.EvalIf.
Import ListNotations.
Open Scope Z_scope.

(* what can follow an OP_IF that is never closed: structured code, at most one OP_ELSE at this level, and
   possibly further conditionals that are never closed either *)
Inductive unclosed : list scmd -> Prop :=
| un_end t : structured t -> unclosed t
| un_else t f : structured t -> structured f -> unclosed (t ++ COp 103 :: f)
| un_if t n u : structured t -> is_if n = true -> unclosed u -> unclosed (t ++ COp n :: u)
| un_else_if t f n u : structured t -> structured f -> is_if n = true -> unclosed u ->
    unclosed (t ++ COp 103 :: f ++ COp n :: u).

(* a structured prefix, then the conditional that stays open *)
Definition open_program (cmds : list scmd) : Prop :=
  exists pre n u, cmds = pre ++ COp n :: u /\ structured pre /\ is_if n = true /\ unclosed u.

(* ---------- the library's scan finds no OP_ENDIF ---------- *)

Lemma split_if_else_any rest d inf ta fa :
  exists inf' ta' fa', split_if (COp 103 :: rest) d inf ta fa = split_if rest d inf' ta' fa'.
Proof.
  destruct d as [|d].
  - exists true, ta, fa. reflexivity.
  - rewrite split_if_else_deep. eauto.
Qed.

Lemma split_if_unclosed u : unclosed u -> forall d inf ta fa, split_if u d inf ta fa = None.
Proof.
  induction 1 as [t Ht|t f Ht Hf|t n u Ht Hn Hu IH|t f n u Ht Hf Hn Hu IH]; intros d inf ta fa.
  - rewrite <- (app_nil_r t). rewrite (split_if_structured t Ht). reflexivity.
  - rewrite (split_if_structured t Ht).
    destruct (split_if_else_any f d inf (acc_t inf t ta) (acc_f inf t fa)) as (i & a & b & ->).
    rewrite <- (app_nil_r f). rewrite (split_if_structured f Hf). reflexivity.
  - rewrite (split_if_structured t Ht). rewrite split_if_open by exact Hn. apply IH.
  - rewrite (split_if_structured t Ht).
    destruct (split_if_else_any (f ++ COp n :: u) d inf (acc_t inf t ta) (acc_f inf t fa)) as (i & a & b & ->).
    rewrite (split_if_structured f Hf). rewrite split_if_open by exact Hn. apply IH.
Qed.

Section Open.
  Variable h_ripemd160 h_sha1 h_sha256 : bytes -> bytes.
  Variable sigcheck : bytes -> bytes -> sigres.
  Variable e : env.
  Variable fl : flags.
  Hypothesis h_ripemd160_good : forall x, good (h_ripemd160 x).
  Hypothesis h_sha1_good : forall x, good (h_sha1 x).
  Hypothesis h_sha256_good : forall x, good (h_sha256 x).

  Notation lrn := (lib_run h_ripemd160 h_sha1 h_sha256 sigcheck e).
  Notation crn := (core_run h_ripemd160 h_sha1 h_sha256 sigcheck e fl).
  Notation cstep := (cstep h_ripemd160 h_sha1 h_sha256 sigcheck e fl).
  Notation lstep := (lstep h_ripemd160 h_sha1 h_sha256 sigcheck e).

  (* --- Core: a structured piece fails or gives back the condition stack it was started with --- *)
  Definition keeps (vf : list bool) (r : crun) : Prop :=
    match r with CFail => True | COut => False | CDone _ vf' => vf' = vf end.

  Lemma core_no_out t : structured t -> forall s, crn t s [] <> COut.
  Proof.
    induction 1 as [|c p Hc Hp IHp|n t p Hn Ht IHt Hp IHp|n t f p Hn Ht IHt Hf IHf Hp IHp]; intros s'.
    - discriminate.
    - rewrite (core_run_straight h_ripemd160 h_sha1 h_sha256 sigcheck e fl) by (exact Hc || reflexivity).
      destruct (cstep c s'); [apply IHp|discriminate].
    - destruct s' as [|x r].
      + rewrite core_if_empty by exact Hn. discriminate.
      + rewrite core_if_noelse by assumption. rewrite core_run_app.
        destruct (takes_true n x).
        * pose proof (IHt r) as Nt. destruct (crn t r []) as [| |s2 vf2] eqn:E; [discriminate|congruence|].
          apply core_balanced in E; [|exact Ht]. subst vf2. cbn [cbind]. apply IHp.
        * cbn [core_run cbind]. apply IHp.
    - destruct s' as [|x r].
      + rewrite core_if_empty by exact Hn. discriminate.
      + rewrite core_if_else by assumption. rewrite core_run_app.
        destruct (takes_true n x).
        * pose proof (IHt r) as Nt. destruct (crn t r []) as [| |s2 vf2] eqn:E; [discriminate|congruence|].
          apply core_balanced in E; [|exact Ht]. subst vf2. cbn [cbind]. apply IHp.
        * pose proof (IHf r) as Nf. destruct (crn f r []) as [| |s2 vf2] eqn:E; [discriminate|congruence|].
          apply core_balanced in E; [|exact Hf]. subst vf2. cbn [cbind]. apply IHp.
  Qed.

  Lemma core_keeps t : structured t -> forall s vf, keeps vf (crn t s vf).
  Proof.
    intros Ht s vf. destruct (alltrue vf) eqn:A.
    - rewrite (core_frame h_ripemd160 h_sha1 h_sha256 sigcheck e fl t Ht s vf A).
      pose proof (core_no_out t Ht s) as N.
      destruct (crn t s []) as [| |s2 vf2]; cbn; [exact I|congruence|reflexivity].
    - rewrite (core_skip h_ripemd160 h_sha1 h_sha256 sigcheck e fl t Ht s vf A). reflexivity.
  Qed.

  (* --- Core: once a conditional is open and never closed, the run fails or ends unbalanced --- *)
  Definition unbalanced (r : crun) : Prop :=
    match r with CFail => True | COut => False | CDone _ vf' => vf' <> [] end.

  Lemma unbalanced_invalid r : unbalanced r -> fst (core_finish r) = Invalid.
  Proof. destruct r as [| |s vf]; cbn; [reflexivity|contradiction|]. destruct vf; [congruence|reflexivity]. Qed.

  Lemma core_struct_then t rest s vf (P : crun -> Prop) : structured t -> P CFail ->
    (forall s', P (crn rest s' vf)) -> P (crn (t ++ rest) s vf).
  Proof.
    intros Ht PF PK. rewrite core_run_app. pose proof (core_keeps t Ht s vf) as K.
    destruct (crn t s vf) as [| |s' vf']; cbn in K; [exact PF|contradiction|]. subst vf'. cbn [cbind]. apply PK.
  Qed.

  Lemma core_open_if n u s vf : is_if n = true ->
    (forall s' vf', vf' <> [] -> unbalanced (crn u s' vf')) -> unbalanced (crn (COp n :: u) s vf).
  Proof.
    intros Hn IH. rewrite core_run_if by exact Hn.
    destruct (alltrue vf); [destruct s; [exact I|]|]; apply IH; discriminate.
  Qed.

  Lemma core_unclosed u : unclosed u -> forall s vf, vf <> [] -> unbalanced (crn u s vf).
  Proof.
    induction 1 as [t Ht|t f Ht Hf|t n u Ht Hn Hu IH|t f n u Ht Hf Hn Hu IH]; intros s vf NE.
    - pose proof (core_keeps t Ht s vf) as K.
      destruct (crn t s vf) as [| |s' vf']; cbn in K |- *; [exact I|contradiction|subst; exact NE].
    - apply core_struct_then; [exact Ht|exact I|]. intros s'. rewrite core_run_else.
      destruct vf as [|b vf']; [exact I|].
      pose proof (core_keeps f Hf s' (negb b :: vf')) as K.
      destruct (crn f s' (negb b :: vf')) as [| |s2 vf2]; cbn in K |- *; [exact I|contradiction|subst; discriminate].
    - apply core_struct_then; [exact Ht|exact I|]. intros s'. apply core_open_if; [exact Hn|exact IH].
    - apply core_struct_then; [exact Ht|exact I|]. intros s'. rewrite core_run_else.
      destruct vf as [|b vf']; [exact I|].
      apply core_struct_then; [exact Hf|exact I|]. intros s2. apply core_open_if; [exact Hn|exact IH].
  Qed.

  (* --- the library at the conditional that stays open --- *)
  Lemma lib_run_if_unclosed fu n rest s : is_if n = true -> split_if rest 0 false [] [] = None ->
    r_verdict (lrn (S fu) (COp n :: rest) s) = Invalid \/
    (s = [] /\ r_verdict (lrn (S fu) (COp n :: rest) s) = CrashIndex).
  Proof.
    intros Hn Sp. destruct (lib_flow_tests n Hn) as (E1 & E2 & E3 & E4 & E5).
    cbn [lib_run]. rewrite E1, E2, E3, E4, E5, Sp.
    destruct (n =? 100); [|left; reflexivity].
    destruct s as [|x r]; [right; split; reflexivity|left; reflexivity].
  Qed.

  (* --- whole programs: structured prefix ++ tail, tail empty or an open conditional --- *)
  Definition tail_ok (tail : list scmd) : Prop :=
    tail = [] \/ exists n u, tail = COp n :: u /\ is_if n = true /\ unclosed u.

  Lemma agree_open_measure m : forall pre tail fu s,
    (length pre <= m)%nat -> (length (pre ++ tail) < fu)%nat -> structured pre -> tail_ok tail -> Forall good s ->
    agree_or_ifcrash (lrn fu (pre ++ tail) s) (core_finish (crn (pre ++ tail) s [])).
  Proof.
    assert (Base : forall tail fu s, (length tail < fu)%nat -> tail_ok tail -> Forall good s ->
              agree_or_ifcrash (lrn fu tail s) (core_finish (crn tail s []))).
    { intros tail fu s Hfu [->|(n & u & -> & Hn & Hu)] G.
      - left. apply (agree_straightline_gen h_ripemd160 h_sha1 h_sha256 sigcheck e fl); auto.
      - destruct fu as [|fu]; [lia|].
        assert (CI : fst (core_finish (crn (COp n :: u) s [])) = Invalid).
        { apply unbalanced_invalid. rewrite core_run_if by exact Hn. change (alltrue []) with true. cbv iota.
          destruct s as [|x r]; [exact I|]. apply core_unclosed; [exact Hu|discriminate]. }
        destruct (lib_run_if_unclosed fu n u s Hn (split_if_unclosed u Hu 0%nat false [] [])) as [LI|[_ LC]].
        + left. unfold agree. rewrite LI, CI. exact I.
        + right. split; assumption. }
    induction m as [|m IH]; intros pre tail fu s Hm Hfu Hs Ht G.
    - destruct pre; [|cbn in Hm; lia]. apply Base; assumption.
    - destruct fu as [|fu]; [lia|].
      destruct Hs as [|c p Hc Hp|n t p Hn Hbt Hp|n t f p Hn Hbt Hbf Hp].
      + apply Base; assumption.
      + rewrite <- app_comm_cons in *. cbn [length] in Hm, Hfu.
        rewrite (lib_run_straight h_ripemd160 h_sha1 h_sha256 sigcheck e) by exact Hc.
        rewrite (core_run_straight h_ripemd160 h_sha1 h_sha256 sigcheck e fl) by (exact Hc || reflexivity).
        pose proof (step_agree h_ripemd160 h_sha1 h_sha256 sigcheck e fl
                      h_ripemd160_good h_sha1_good h_sha256_good c s Hc G) as A.
        unfold op_agree_good in A.
        destruct (lstep c s) as [s1|s1|s1], (cstep c s) as [s2|]; try contradiction;
          try (left; cbn; exact I).
        destruct A as [<- G1]. apply IH; [lia|lia|exact Hp|exact Ht|exact G1].
      + rewrite blk_if_app in *.
        rewrite (lib_if_noelse h_ripemd160 h_sha1 h_sha256 sigcheck e) by assumption.
        destruct s as [|x r].
        * right. rewrite core_if_empty by exact Hn. split; reflexivity.
        * rewrite core_if_noelse by assumption. rewrite app_assoc.
          cbn [length] in Hm, Hfu. rewrite !app_length in Hm, Hfu. cbn [length] in Hm, Hfu.
          rewrite !app_length in Hfu.
          inversion G; subst.
          apply IH; [| |apply structured_app; [destruct (takes_true n x); [exact Hbt|apply st_nil]|exact Hp]
                     |exact Ht|assumption];
            rewrite !app_length; destruct (takes_true n x); cbn [length]; lia.
      + rewrite blk_ifelse_app in *.
        rewrite (lib_if_else h_ripemd160 h_sha1 h_sha256 sigcheck e) by assumption.
        destruct s as [|x r].
        * right. rewrite core_if_empty by exact Hn. split; reflexivity.
        * rewrite core_if_else by assumption. rewrite app_assoc.
          cbn [length] in Hm, Hfu. rewrite !app_length in Hm, Hfu. cbn [length] in Hm, Hfu.
          rewrite !app_length in Hm, Hfu. cbn [length] in Hm, Hfu. rewrite !app_length in Hfu.
          inversion G; subst.
          apply IH; [| |apply structured_app; [destruct (takes_true n x); assumption|exact Hp]|exact Ht|assumption];
            rewrite !app_length; destruct (takes_true n x); lia.
  Qed.

  (* a program with a conditional that is never closed: both sides Invalid (or the IndexError case) *)
  Lemma agree_open_gen cmds fu s :
    (length cmds < fu)%nat -> open_program cmds -> Forall good s ->
    agree_or_ifcrash (lrn fu cmds s) (core_finish (crn cmds s [])).
  Proof.
    intros Hfu (pre & n & u & -> & Hp & Hn & Hu) G.
    apply (agree_open_measure (length pre)); auto. right. exists n, u. auto.
  Qed.

  Lemma open_never_valid cmds fu s :
    (length cmds < fu)%nat -> open_program cmds -> Forall good s ->
    r_verdict (lrn fu cmds s) <> Valid /\ fst (core_finish (crn cmds s [])) = Invalid.
  Proof.
    intros Hfu (pre & n & u & -> & Hp & Hn & Hu) G.
    assert (CI : fst (core_finish (crn (pre ++ COp n :: u) s [])) = Invalid).
    { apply unbalanced_invalid. rewrite core_run_app.
      pose proof (core_keeps pre Hp s []) as K.
      destruct (crn pre s []) as [| |s' vf']; cbn [keeps cbind unbalanced] in K |- *; [exact I|contradiction|].
      subst vf'. rewrite core_run_if by exact Hn. change (alltrue []) with true. cbv iota.
      destruct s' as [|x r]; [exact I|]. apply core_unclosed; [exact Hu|discriminate]. }
    split; [|exact CI].
    destruct (agree_open_gen (pre ++ COp n :: u) fu s Hfu) as [A|[C _]]; auto.
    - exists pre, n, u. auto.
    - unfold agree in A. rewrite CI in A. intros V. rewrite V in A. exact A.
    - congruence.
  Qed.

End Open.

Lemma open_program_intro pre n u :
  structuredb pre = true -> is_if n = true -> unclosed u -> open_program (pre ++ COp n :: u).
Proof. intros Hp Hn Hu. exists pre, n, u. repeat split; try assumption. apply structuredb_sound. exact Hp. Qed.
