(* Proofs/Bip38Xor.v — algebra of (int ^ int).to_bytes(n, 'big') and list slicing used by the BIP38 proofs. *)
From Coq Require Import ZArith List Bool Lia.
From Coq.Strings Require Import Byte.
From Verif Require Import Lib.Bytes Model.Bip38.
Import ListNotations.
Open Scope Z_scope.

(* ---------------------------------------------------------------- lists *)
Lemma firstn_exact {A} (a b : list A) n : length a = n -> firstn n (a ++ b) = a.
Proof.
  intros <-. induction a as [|x a IH]; simpl; [destruct b; reflexivity | rewrite IH; reflexivity].
Qed.

Lemma skipn_exact {A} (a b : list A) n : length a = n -> skipn n (a ++ b) = b.
Proof. intros <-. induction a as [|x a IH]; simpl; [reflexivity | exact IH]. Qed.

Lemma firstn_whole {A} (a : list A) n : length a = n -> firstn n a = a.
Proof. intros <-. apply firstn_all. Qed.

Lemma skipn_whole {A} (a : list A) n : length a = n -> skipn n a = [].
Proof. intros <-. apply skipn_all. Qed.

Lemma firstn_len_le {A} (a : list A) n : (n <= length a)%nat -> length (firstn n a) = n.
Proof. intros. rewrite firstn_length. lia. Qed.

(* ---------------------------------------------------------------- bits *)
Lemma pow256 n : 256 ^ Z.of_nat n = 2 ^ (8 * Z.of_nat n).
Proof. change 256 with (2 ^ 8). rewrite <- Z.pow_mul_r by lia. reflexivity. Qed.

Lemma lxor_bound k a b : 0 <= k -> 0 <= a < 2 ^ k -> 0 <= b < 2 ^ k -> 0 <= Z.lxor a b < 2 ^ k.
Proof.
  intros Hk Ha Hb.
  assert (Hn : 0 <= Z.lxor a b) by (apply Z.lxor_nonneg; lia).
  split; [exact Hn|].
  destruct (Z.eq_dec (Z.lxor a b) 0) as [E|E]; [rewrite E; apply Z.pow_pos_nonneg; lia|].
  apply Z.log2_lt_pow2; [lia|].
  pose proof (Z.log2_lxor a b ltac:(lia) ltac:(lia)) as Hl.
  assert (La : a = 0 \/ Z.log2 a < k).
  { destruct (Z.eq_dec a 0); [left; assumption | right; apply Z.log2_lt_pow2; lia]. }
  assert (Lb : b = 0 \/ Z.log2 b < k).
  { destruct (Z.eq_dec b 0); [left; assumption | right; apply Z.log2_lt_pow2; lia]. }
  assert (k <> 0).
  { intros ->. change (2 ^ 0) with 1 in *. assert (a = 0) by lia. assert (b = 0) by lia. subst. apply E. reflexivity. }
  destruct La as [->|La], Lb as [->|Lb]; change (Z.log2 0) with 0 in *; lia.
Qed.

Lemma testbit_split k a b n : 0 <= k -> 0 <= b < 2 ^ k -> 0 <= n ->
  Z.testbit (a * 2 ^ k + b) n = if n <? k then Z.testbit b n else Z.testbit a (n - k).
Proof.
  intros Hk Hb Hn.
  assert (Hp : 0 < 2 ^ k) by (apply Z.pow_pos_nonneg; lia).
  set (x := a * 2 ^ k + b).
  assert (Hm : x mod 2 ^ k = b).
  { unfold x. rewrite Z.add_comm, Z.mod_add by lia. apply Z.mod_small. exact Hb. }
  assert (Hd : x / 2 ^ k = a).
  { unfold x. rewrite Z.add_comm, Z.div_add by lia. rewrite Z.div_small by exact Hb. reflexivity. }
  destruct (n <? k) eqn:E.
  - apply Z.ltb_lt in E. rewrite <- Hm. apply eq_sym, Z.mod_pow2_bits_low. lia.
  - apply Z.ltb_ge in E. rewrite <- Hd. rewrite Z.div_pow2_bits by lia.
    f_equal. lia.
Qed.

Lemma lxor_split k a b c d : 0 <= k -> 0 <= b < 2 ^ k -> 0 <= d < 2 ^ k ->
  Z.lxor (a * 2 ^ k + b) (c * 2 ^ k + d) = Z.lxor a c * 2 ^ k + Z.lxor b d.
Proof.
  intros Hk Hb Hd. apply Z.bits_inj'. intros n Hn.
  rewrite Z.lxor_spec.
  rewrite !testbit_split by (try apply lxor_bound; assumption).
  destruct (n <? k); rewrite Z.lxor_spec; reflexivity.
Qed.

(* ---------------------------------------------------------------- big-endian concatenation *)
Lemma of_be_app a b : of_be (a ++ b) = of_be a * 256 ^ Z.of_nat (length b) + of_be b.
Proof.
  unfold of_be. rewrite rev_app_distr, of_le_app, rev_length. ring.
Qed.

Lemma le_bytes_app m : forall n x y, 0 <= y < 256 ^ Z.of_nat m ->
  le_bytes (m + n) (x * 256 ^ Z.of_nat m + y) = le_bytes m y ++ le_bytes n x.
Proof.
  induction m as [|m IH]; intros n x y Hy.
  - change (256 ^ Z.of_nat 0) with 1 in *. assert (y = 0) by lia. subst.
    simpl. f_equal. lia.
  - rewrite Nat2Z.inj_succ, Z.pow_succ_r in * by lia.
    cbn [plus le_bytes app].
    assert (Hp : 0 < 256 ^ Z.of_nat m) by (apply Z.pow_pos_nonneg; lia).
    replace (x * (256 * 256 ^ Z.of_nat m) + y) with ((x * 256 ^ Z.of_nat m + y / 256) * 256 + y mod 256)
      by (pose proof (Z.div_mod y 256 ltac:(lia)); lia).
    assert (Hr : 0 <= y mod 256 < 256) by (apply Z.mod_pos_bound; lia).
    f_equal.
    + unfold zb. rewrite Z.add_comm, Z.mod_add by lia. rewrite !Z.mod_mod by lia. reflexivity.
    + rewrite Z.add_comm, Z.div_add by lia. rewrite (Z.div_small (y mod 256)) by lia.
      rewrite Z.add_0_l. apply IH.
      split; [apply Z.div_pos; lia | apply Z.div_lt_upper_bound; lia].
Qed.

Lemma be_bytes_app n m x y : 0 <= y < 256 ^ Z.of_nat m ->
  be_bytes (n + m) (x * 256 ^ Z.of_nat m + y) = be_bytes n x ++ be_bytes m y.
Proof.
  intros Hy. unfold be_bytes. rewrite Nat.add_comm, le_bytes_app by exact Hy.
  apply rev_app_distr.
Qed.

(* ---------------------------------------------------------------- xor_be *)
Lemma xor_be_length n a b : length (xor_be n a b) = n.
Proof. apply be_bytes_length. Qed.

Lemma of_be_bound l n : length l = n -> 0 <= of_be l < 2 ^ (8 * Z.of_nat n).
Proof. intros <-. rewrite <- pow256. apply of_be_range. Qed.

Lemma xor_be_invol n a b : length a = n -> length b = n -> xor_be n (xor_be n a b) b = a.
Proof.
  intros Ha Hb. unfold xor_be.
  pose proof (of_be_bound a n Ha) as Ra. pose proof (of_be_bound b n Hb) as Rb.
  rewrite of_be_be_bytes_small by (rewrite pow256; apply lxor_bound; lia).
  rewrite Z.lxor_assoc, Z.lxor_nilpotent, Z.lxor_0_r.
  rewrite <- Ha. apply be_bytes_of_be.
Qed.

Lemma xor_be_app n m a1 a2 b1 b2 :
  length a1 = n -> length b1 = n -> length a2 = m -> length b2 = m ->
  xor_be (n + m) (a1 ++ a2) (b1 ++ b2) = xor_be n a1 b1 ++ xor_be m a2 b2.
Proof.
  intros Ha1 Hb1 Ha2 Hb2. unfold xor_be.
  rewrite !of_be_app, Ha2, Hb2.
  pose proof (of_be_bound a2 m Ha2) as R2. pose proof (of_be_bound b2 m Hb2) as S2.
  rewrite pow256.
  rewrite lxor_split by lia.
  rewrite <- pow256.
  apply be_bytes_app. rewrite pow256. apply lxor_bound; lia.
Qed.

(* a 32-byte string is its two halves *)
Lemma halves32 (l : bytes) : length l = 32%nat -> l = sl 0 16 l ++ sl 16 32 l.
Proof.
  intros Hl. unfold sl. change (16 - 0)%nat with 16%nat. change (32 - 16)%nat with 16%nat.
  change (skipn 0 l) with l.
  rewrite (firstn_whole (skipn 16 l)) by (rewrite skipn_length; lia).
  symmetry. apply firstn_skipn.
Qed.

Lemma sl_len a b (l : bytes) : (b <= length l)%nat -> (a <= b)%nat -> length (sl a b l) = (b - a)%nat.
Proof. intros. unfold sl. rewrite firstn_length, skipn_length. lia. Qed.
