(* Proofs/ServiceCache.v — the cache returns what was stored (Model/CacheModel.v). *)
From Coq Require Import ZArith List Bool Lia.
From Verif Require Import Gen.GenService Model.CacheModel.
Import ListNotations.
Open Scope Z_scope.
Arguments assoc_set : simpl never.

Lemma assoc_get_del_same {A} k (l : list (Z * A)) : assoc_get k (assoc_del k l) = None.
Proof.
  induction l as [|[k' v] tl IH]; simpl; [reflexivity |].
  destruct (k' =? k) eqn:E; [exact IH | simpl; rewrite E; exact IH].
Qed.

Lemma assoc_get_del_other {A} k k' (l : list (Z * A)) : k <> k' -> assoc_get k' (assoc_del k l) = assoc_get k' l.
Proof.
  intros Hne. induction l as [|[k0 v] tl IH]; simpl; [reflexivity |].
  destruct (k0 =? k) eqn:E.
  - apply Z.eqb_eq in E; subst k0. destruct (k =? k') eqn:E2; [apply Z.eqb_eq in E2; contradiction | exact IH].
  - simpl. destruct (k0 =? k'); [reflexivity | exact IH].
Qed.

Lemma assoc_get_set_same {A} k (v : A) l : assoc_get k (assoc_set k v l) = Some v.
Proof. unfold assoc_set; simpl; rewrite Z.eqb_refl; reflexivity. Qed.

Lemma assoc_get_set_other {A} k k' (v : A) l : k <> k' -> assoc_get k' (assoc_set k v l) = assoc_get k' l.
Proof.
  intros Hne. unfold assoc_set; simpl. destruct (k =? k') eqn:E; [apply Z.eqb_eq in E; contradiction |].
  apply assoc_get_del_other; exact Hne.
Qed.

Lemma assoc_del_idem {A} k (l : list (Z * A)) : assoc_del k (assoc_del k l) = assoc_del k l.
Proof.
  induction l as [|[k' v] tl IH]; simpl; [reflexivity |].
  destruct (k' =? k) eqn:E; [exact IH | simpl; rewrite E, IH; reflexivity].
Qed.

Lemma assoc_set_idem {A} k (v : A) l : assoc_set k v (assoc_set k v l) = assoc_set k v l.
Proof. unfold assoc_set; simpl. rewrite Z.eqb_refl, assoc_del_idem. reflexivity. Qed.

(* ---- transactions ---- *)
Lemma find_tx_id : forall l txid t, find_tx txid l = Some t -> t_txid t = txid.
Proof.
  induction l as [|t0 tl IH]; simpl; intros txid t H; [discriminate |].
  destruct (t_txid t0 =? txid) eqn:E; [inversion H; subst; apply Z.eqb_eq; exact E | apply IH; exact H].
Qed.

Theorem tx_found_has_id c txid t : cache_gettx c txid = Some t -> t_txid t = txid.
Proof. unfold cache_gettx; destruct (c_on c); [apply find_tx_id | discriminate]. Qed.

Theorem tx_get_after_store c t :
  c_on c = true -> t_confirmed t = true ->
  cache_gettx (cache_store_tx c t) (t_txid t) =
  Some (match cache_gettx c (t_txid t) with Some t0 => t0 | None => t end).
Proof.
  intros Hon Hc. unfold cache_store_tx, cache_gettx. rewrite ?Hon, ?Hc; simpl.
  destruct (find_tx (t_txid t) (c_txs c)) eqn:E; simpl; rewrite ?Hon; simpl; rewrite ?E, ?Z.eqb_refl; reflexivity.
Qed.

Theorem tx_store_first_write_wins c t txid t0 :
  cache_gettx c txid = Some t0 -> cache_gettx (cache_store_tx c t) txid = Some t0.
Proof.
  unfold cache_store_tx, cache_gettx. destruct (c_on c) eqn:Hon; [| discriminate]. simpl.
  destruct (t_confirmed t); simpl; [| rewrite ?Hon; auto].
  destruct (find_tx (t_txid t) (c_txs c)) eqn:E; simpl; rewrite ?Hon; auto.
  intros H. simpl. destruct (t_txid t =? txid) eqn:E2; [| exact H].
  apply Z.eqb_eq in E2. rewrite E2 in E. rewrite E in H. discriminate.
Qed.

Theorem tx_store_other c t txid :
  txid <> t_txid t -> cache_gettx (cache_store_tx c t) txid = cache_gettx c txid.
Proof.
  intros Hne. unfold cache_store_tx, cache_gettx. destruct (c_on c) eqn:Hon; simpl; [| rewrite ?Hon; reflexivity].
  destruct (t_confirmed t); simpl; [| rewrite ?Hon; reflexivity].
  destruct (find_tx (t_txid t) (c_txs c)); simpl; rewrite ?Hon; [reflexivity |].
  simpl. destruct (t_txid t =? txid) eqn:E; [apply Z.eqb_eq in E; congruence | reflexivity].
Qed.

Theorem tx_store_idempotent c t : cache_store_tx (cache_store_tx c t) t = cache_store_tx c t.
Proof.
  unfold cache_store_tx. destruct (c_on c) eqn:Hon; simpl; [| rewrite ?Hon; reflexivity].
  destruct (t_confirmed t) eqn:Hc; simpl; [| rewrite ?Hon, ?Hc; reflexivity].
  destruct (find_tx (t_txid t) (c_txs c)) eqn:E; simpl.
  - rewrite ?Hon, ?Hc, ?E; reflexivity.
  - rewrite ?Hon, ?Hc. simpl. rewrite Z.eqb_refl. reflexivity.
Qed.

Theorem tx_store_keeps_switch c t : c_on (cache_store_tx c t) = c_on c.
Proof.
  unfold cache_store_tx. destruct (c_on c) eqn:Hon; simpl; [| exact Hon].
  destruct (t_confirmed t); simpl; [| exact Hon]. destruct (find_tx _ _); simpl; try exact Hon; reflexivity.
Qed.

(* ---- variables ---- *)
Theorem var_get_after_set c name v exp now :
  c_on c = true -> cache_var_get (cache_var_set c name v exp) now name = if now <? exp then Some v else None.
Proof.
  intros Hon. unfold cache_var_get, cache_var_set. rewrite ?Hon; simpl. rewrite ?Hon, ?assoc_get_set_same, ?Z.eqb_refl. reflexivity.
Qed.

Ltac proj_simpl := cbn [negb c_on c_vars c_txs c_addrs].

Theorem var_get_other c name name' v exp now :
  name <> name' -> cache_var_get (cache_var_set c name v exp) now name' = cache_var_get c now name'.
Proof.
  intros Hne. unfold cache_var_get, cache_var_set. destruct (c_on c) eqn:Hon; proj_simpl; rewrite ?Hon; [| reflexivity].
  rewrite assoc_get_set_other by exact Hne. reflexivity.
Qed.

Theorem var_set_idempotent c name v exp :
  cache_var_set (cache_var_set c name v exp) name v exp = cache_var_set c name v exp.
Proof.
  unfold cache_var_set. destruct (c_on c) eqn:Hon; proj_simpl; rewrite ?Hon; proj_simpl; [| reflexivity].
  rewrite assoc_set_idem. reflexivity.
Qed.

(* an entry that is still valid later was valid earlier: expiry is monotone in the clock *)
Theorem var_expiry_monotone c now now' name v :
  now <= now' -> cache_var_get c now' name = Some v -> cache_var_get c now name = Some v.
Proof.
  intros Hle. unfold cache_var_get. destruct (c_on c); [| discriminate].
  destruct (assoc_get name (c_vars c)) as [[v0 exp] |]; [| discriminate].
  destruct (now' <? exp) eqn:E; [| discriminate]. apply Z.ltb_lt in E.
  assert (E2 : (now <? exp) = true) by (apply Z.ltb_lt; lia). rewrite E2. auto.
Qed.

Theorem var_expired_is_gone c name v exp now :
  exp <= now -> cache_var_get (cache_var_set c name v exp) now name = None.
Proof.
  intros Hle. unfold cache_var_get, cache_var_set. destruct (c_on c) eqn:Hon; proj_simpl; rewrite ?Hon; [| reflexivity].
  rewrite assoc_get_set_same. assert (E : (now <? exp) = false) by (apply Z.ltb_ge; lia). rewrite E. reflexivity.
Qed.

Theorem fee_get_after_store c now blocks fee now' :
  c_on c = true -> now' < now + svc_fee_ttl -> cache_estimatefee (cache_store_fee c now blocks fee) now' blocks = Some fee.
Proof.
  intros Hon Hlt. unfold cache_estimatefee, cache_store_fee. rewrite var_get_after_set by exact Hon.
  assert (E : (now' <? now + svc_fee_ttl) = true) by (apply Z.ltb_lt; lia). rewrite E. reflexivity.
Qed.

Theorem blockcount_get_after_store c now n now' :
  c_on c = true -> now' < now + svc_blockcount_ttl -> cache_blockcount (cache_store_blockcount c now n) now' = Some n.
Proof.
  intros Hon Hlt. unfold cache_blockcount, cache_store_blockcount. rewrite var_get_after_set by exact Hon.
  assert (E : (now' <? now + svc_blockcount_ttl) = true) by (apply Z.ltb_lt; lia). rewrite E. reflexivity.
Qed.

(* ---- addresses ---- *)
Theorem addr_get_after_store c a lb b nu :
  c_on c = true ->
  exists r, cache_getaddr (cache_store_address c a lb (Some b) nu) a = Some r /\ a_balance r = Some b.
Proof.
  intros Hon. unfold cache_getaddr, cache_store_address. rewrite Hon; proj_simpl. rewrite ?Hon, assoc_get_set_same.
  eexists; split; [reflexivity | reflexivity].
Qed.

Theorem addr_store_other c a a' lb b nu :
  a <> a' -> cache_getaddr (cache_store_address c a lb b nu) a' = cache_getaddr c a'.
Proof.
  intros Hne. unfold cache_getaddr, cache_store_address. destruct (c_on c) eqn:Hon; proj_simpl; rewrite ?Hon; [| reflexivity].
  apply assoc_get_set_other; exact Hne.
Qed.

(* ---- a disabled cache (cache_uri = '') never answers and never changes ---- *)
Theorem disabled_cache c :
  c_on c = false ->
  (forall txid, cache_gettx c txid = None) /\ (forall a, cache_getaddr c a = None) /\
  (forall now n, cache_var_get c now n = None) /\ (forall t, cache_store_tx c t = c) /\
  (forall a lb b nu, cache_store_address c a lb b nu = c) /\ (forall n v e, cache_var_set c n v e = c).
Proof.
  intros Hoff. unfold cache_gettx, cache_getaddr, cache_var_get, cache_store_tx, cache_store_address, cache_var_set.
  rewrite Hoff; simpl. repeat split; reflexivity.
Qed.
