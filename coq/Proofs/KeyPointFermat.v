(* Proofs/KeyPointFermat.v — number theory needed by the decompression theorems of C04, standard library only:
   square-and-multiply computes Z.pow, Fermat's little theorem for a prime modulus (multiplication by a unit
   permutes the residues 1..p-1), and the square root formula a^((p+1)/4) for p = 3 mod 4.
   Primality is always a hypothesis here; it is never proved for the 256-bit constants. *)
From Coq Require Import ZArith List Lia Znumtheory Zpow_facts Permutation.
From Verif Require Import Crypto.Secp256k1.
Import ListNotations.
Open Scope Z_scope.

(* ---------------------------------------------------------------- powmod = Z.pow mod m *)

Lemma powmod_pos_spec b m : 0 < m -> forall e, powmod_pos b e m = b ^ Zpos e mod m.
Proof.
  intros Hm. induction e as [e IH|e IH|]; cbn [powmod_pos].
  - rewrite IH. set (B := b ^ Zpos e). rewrite Z.mul_mod_idemp_l by lia.
    rewrite (Zmult_mod (B mod m * (B mod m)) b). rewrite <- (Zmult_mod B B). rewrite <- Zmult_mod. subst B.
    rewrite Pos2Z.inj_xI. replace (2 * Zpos e + 1) with (Zpos e + Zpos e + 1) by lia.
    rewrite !Z.pow_add_r, Z.pow_1_r by lia. reflexivity.
  - rewrite IH. rewrite <- Zmult_mod.
    rewrite Pos2Z.inj_xO. replace (2 * Zpos e) with (Zpos e + Zpos e) by lia.
    rewrite Z.pow_add_r by lia. reflexivity.
  - rewrite Z.pow_1_r. reflexivity.
Qed.

Lemma powmod_spec b e m : 0 < m -> 0 <= e -> powmod b e m = b ^ e mod m.
Proof.
  intros Hm He. unfold powmod. destruct e as [|e|e]; [reflexivity| |lia].
  rewrite powmod_pos_spec by exact Hm. symmetry. apply Zpower_mod. exact Hm.
Qed.

Lemma powmod_mod_base b e m : 0 < m -> powmod (b mod m) e m = powmod b e m.
Proof.
  intros Hm. unfold powmod. destruct e; try reflexivity. rewrite Z.mod_mod by lia. reflexivity.
Qed.

Lemma pow_mod_congr a b e m : 0 < m -> a mod m = b mod m -> a ^ e mod m = b ^ e mod m.
Proof. intros Hm H. rewrite (Zpower_mod a) by exact Hm. rewrite (Zpower_mod b) by exact Hm. rewrite H. reflexivity. Qed.

(* ---------------------------------------------------------------- Fermat's little theorem *)

Section Fermat.
Variable p : Z.
Hypothesis Hp : prime p.

Lemma prime_gt_1 : 1 < p.
Proof. pose proof (prime_ge_2 p Hp). lia. Qed.

Definition residues : list Z := map Z.of_nat (seq 1 (Z.to_nat (p - 1))).

Lemma in_residues x : In x residues <-> 1 <= x < p.
Proof.
  pose proof prime_gt_1 as H1. unfold residues. rewrite in_map_iff. split.
  - intros [n [<- Hn]]. apply in_seq in Hn. lia.
  - intros Hx. exists (Z.to_nat x). split; [lia | apply in_seq; lia].
Qed.

Lemma nodup_residues : NoDup residues.
Proof.
  unfold residues. apply FinFun.Injective_map_NoDup; [intros a b; apply Nat2Z.inj | apply seq_NoDup].
Qed.

Lemma not_div_small x : 1 <= x < p -> ~ (p | x).
Proof.
  intros Hx [k Hk]. assert (Hk' : k <= 0 \/ 1 <= k) by lia. destruct Hk' as [Hk'|Hk']; nia.
Qed.

Lemma div_small_diff d : - p < d < p -> (p | d) -> d = 0.
Proof.
  intros Hd [k Hk]. assert (Hk' : k <= -1 \/ k = 0 \/ 1 <= k) by lia.
  destruct Hk' as [Hk'|[Hk'|Hk']]; [nia | subst; lia | nia].
Qed.

Variable a : Z.
Hypothesis Ha : ~ (p | a).

Definition mulmap (x : Z) : Z := (a * x) mod p.

Lemma mulmap_in x : 1 <= x < p -> 1 <= mulmap x < p.
Proof.
  intros Hx. pose proof prime_gt_1 as H1. unfold mulmap.
  pose proof (Z.mod_pos_bound (a * x) p ltac:(lia)) as Hb.
  assert (Hn : (a * x) mod p <> 0).
  { intros E. apply Z.mod_divide in E; [|lia]. apply prime_mult in E; [|exact Hp].
    destruct E as [E|E]; [contradiction | exact (not_div_small x Hx E)]. }
  lia.
Qed.

Lemma mulmap_inj x y : 1 <= x < p -> 1 <= y < p -> mulmap x = mulmap y -> x = y.
Proof.
  intros Hx Hy E. pose proof prime_gt_1 as H1. unfold mulmap in E.
  assert (H : (a * (x - y)) mod p = 0).
  { rewrite Z.mul_sub_distr_l, Zminus_mod, E, Z.sub_diag. apply Z.mod_0_l. lia. }
  apply Z.mod_divide in H; [|lia]. apply prime_mult in H; [|exact Hp].
  destruct H as [H|H]; [contradiction|].
  apply div_small_diff in H; lia.
Qed.

Lemma NoDup_map_on {A B} (g : A -> B) l :
  (forall x y, In x l -> In y l -> g x = g y -> x = y) -> NoDup l -> NoDup (map g l).
Proof.
  induction l as [|h t IH]; intros Hinj Hnd; cbn [map]; [constructor|].
  inversion Hnd as [|? ? Hnin Hnd']; subst. constructor.
  - intros Hin. apply in_map_iff in Hin. destruct Hin as [y [Hy Hin]].
    apply Hinj in Hy; [subst; contradiction | right; exact Hin | left; reflexivity].
  - apply IH; [|exact Hnd']. intros x y Hx Hy. apply Hinj; right; assumption.
Qed.

Lemma perm_residues : Permutation (map mulmap residues) residues.
Proof.
  apply NoDup_Permutation_bis.
  - apply NoDup_map_on; [|apply nodup_residues].
    intros x y Hx Hy. apply in_residues in Hx. apply in_residues in Hy. apply mulmap_inj; assumption.
  - rewrite map_length. lia.
  - intros y Hy. apply in_map_iff in Hy. destruct Hy as [x [<- Hx]].
    apply in_residues. apply mulmap_in. apply in_residues. exact Hx.
Qed.

Definition prodl (l : list Z) : Z := fold_right Z.mul 1 l.

Lemma prodl_perm l l' : Permutation l l' -> prodl l = prodl l'.
Proof.
  induction 1 as [|x l l' _ IH|x y l|l l' l'' _ IH1 _ IH2]; unfold prodl in *; cbn [fold_right] in *.
  - reflexivity.
  - rewrite IH. reflexivity.
  - ring.
  - congruence.
Qed.

Lemma prodl_mulmap l : prodl (map mulmap l) mod p = (a ^ Z.of_nat (length l) * prodl l) mod p.
Proof.
  pose proof prime_gt_1 as H1.
  induction l as [|h t IH].
  - cbn [map prodl fold_right length]. change (Z.of_nat 0) with 0. rewrite Z.pow_0_r. reflexivity.
  - cbn [map prodl fold_right length]. fold (prodl (map mulmap t)). fold (prodl t).
    rewrite Nat2Z.inj_succ, Z.pow_succ_r by lia.
    unfold mulmap at 1. rewrite Z.mul_mod_idemp_l by lia.
    rewrite <- Z.mul_mod_idemp_r by lia. rewrite IH. rewrite Z.mul_mod_idemp_r by lia.
    f_equal. ring.
Qed.

Lemma prodl_coprime l : (forall x, In x l -> 1 <= x < p) -> ~ (p | prodl l).
Proof.
  pose proof prime_gt_1 as H1.
  induction l as [|h t IH]; intros H; cbn [prodl fold_right].
  - intros [k Hk]. assert (Hk' : k <= 0 \/ 1 <= k) by lia. destruct Hk'; nia.
  - fold (prodl t). intros Hd. apply prime_mult in Hd; [|exact Hp]. destruct Hd as [Hd|Hd].
    + apply (not_div_small h); [apply H; left; reflexivity | exact Hd].
    + apply IH; [|exact Hd]. intros x Hx. apply H. right. exact Hx.
Qed.

Theorem fermat_little : a ^ (p - 1) mod p = 1.
Proof.
  pose proof prime_gt_1 as H1.
  pose proof (prodl_perm _ _ perm_residues) as HP.
  pose proof (prodl_mulmap residues) as H. rewrite HP in H.
  assert (Hl : length residues = Z.to_nat (p - 1)).
  { unfold residues. rewrite map_length, seq_length. reflexivity. }
  rewrite Hl, Z2Nat.id in H by lia.
  set (P := prodl residues) in *.
  assert (Hd : (p | (a ^ (p - 1) - 1) * P)).
  { apply Z.mod_divide; [lia|].
    rewrite Z.mul_sub_distr_r, Z.mul_1_l, Zminus_mod, <- H, Z.sub_diag. apply Z.mod_0_l. lia. }
  apply prime_mult in Hd; [|exact Hp]. destruct Hd as [Hd|Hd].
  - apply Z.mod_divide in Hd; [|lia].
    replace (a ^ (p - 1)) with ((a ^ (p - 1) - 1) + 1) by ring.
    rewrite Zplus_mod, Hd. cbn [Z.add]. rewrite Z.mod_mod by lia. apply Z.mod_small. lia.
  - exfalso. apply (prodl_coprime residues); [|exact Hd].
    intros x Hx. apply in_residues. exact Hx.
Qed.

End Fermat.

(* ---------------------------------------------------------------- square roots for p = 3 mod 4 *)

Section Sqrt.
Variable p e : Z.
Hypothesis Hp : prime p.
Hypothesis He : 4 * e = p + 1.

(* the candidate a^e is a square root of a whenever a is a square: +-y *)
Lemma sqrt_candidate a y :
  0 <= y < p -> a mod p = (y * y) mod p ->
  a ^ e mod p = y \/ a ^ e mod p = p - y.
Proof.
  intros Hy Ha. pose proof (prime_gt_1 p Hp) as H1.
  assert (He0 : 0 <= e) by lia.
  rewrite (pow_mod_congr a (y * y) e p) by (lia || exact Ha).
  destruct (Z.eq_dec y 0) as [->|Hy0].
  - left. rewrite Z.mul_0_l. rewrite Z.pow_0_l by lia. apply Z.mod_0_l. lia.
  - assert (Hnd : ~ (p | y)) by (apply not_div_small; lia).
    set (r := (y * y) ^ e mod p).
    assert (Hr : 0 <= r < p) by (apply Z.mod_pos_bound; lia).
    (* r^2 = y^(p+1) = y^(p-1) * y^2 = y^2 (mod p) *)
    assert (Hsq : (r * r) mod p = (y * y) mod p).
    { unfold r. rewrite <- Zmult_mod. rewrite <- Z.pow_add_r by lia.
      replace (y * y) with (y ^ 2) by ring. rewrite <- Z.pow_mul_r by lia.
      replace (2 * (e + e)) with ((p - 1) + 2) by lia.
      rewrite Z.pow_add_r by lia. rewrite Zmult_mod. rewrite (fermat_little p Hp y Hnd).
      rewrite Z.mul_1_l. apply Z.mod_mod. lia. }
    assert (Hd : (p | (r - y) * (r + y))).
    { apply Z.mod_divide; [lia|].
      replace ((r - y) * (r + y)) with (r * r - y * y) by ring.
      rewrite Zminus_mod, Hsq, Z.sub_diag. apply Z.mod_0_l. lia. }
    apply prime_mult in Hd; [|exact Hp]. destruct Hd as [Hd|Hd].
    + left. apply (div_small_diff p) in Hd; lia.
    + right. destruct Hd as [k Hk]. assert (k = 1) by nia. lia.
Qed.

End Sqrt.

(* x^3 = c has no solution modulo a prime p = 1 mod 3 when c^((p-1)/3) <> 1 *)
Lemma not_a_cube p m c x :
  prime p -> 3 * m = p - 1 -> c mod p <> 0 -> c ^ m mod p <> 1 -> (x * x * x) mod p <> c mod p.
Proof.
  intros Hp Hm Hc Hne E. pose proof (prime_gt_1 p Hp) as H1.
  assert (Hnd : ~ (p | x)).
  { intros Hd. apply Hc. rewrite <- E. apply Z.mod_divide; [lia|].
    apply Z.divide_mul_r. exact Hd. }
  pose proof (fermat_little p Hp x Hnd) as HF.
  apply Hne. rewrite <- HF.
  rewrite <- (pow_mod_congr (x * x * x) c m p) by (lia || exact E).
  replace (x * x * x) with (x ^ 3) by ring. rewrite <- Z.pow_mul_r by lia.
  rewrite Hm. reflexivity.
Qed.
