(* Proofs/AddrScriptStr.v — C05: address strings, hashes, foreign networks, table side conditions. *)
From Coq Require Import ZArith List Bool Lia String.
From Coq.Strings Require Import Byte.
From Verif Require Import Lib.Bytes Gen.GenNetworks Gen.GenConsts Model.Wire Model.AddrScript.
From Verif Require Import Proofs.ScriptCodec Proofs.AddrScriptSpec Proofs.AddrScriptTac.
Import ListNotations.
Open Scope Z_scope.

Section WithH.
Variable H160 : bytes -> bytes.

(* =========================== address string -> locking script =========================== *)
Lemma lock_is_spec_str fx net d :
  In net all_networks -> standard d = true ->
  (fx_witver fx = true \/ cls_witver_str d = false) ->
  out_is (lib_out_addr_str H160 fx net (spec_address net d))
         (spec_lock_script d) (stype_name (d_stype d)) (nw_name net) OaGiven.
Proof.
  intros Hn Hstd Hg. destruct fx as [fw fn fp fa tb0]. cbn [fx_witver] in Hg.
  std_shapes d Hstd; (each_net Hn; (destruct fw; first [ out_ok | guard_false Hg ])).
Qed.

(* =========================== public_hash= + script_type= =========================== *)
Lemma lock_is_spec_hash fx net d :
  In net all_networks -> standard d = true ->
  (fx_witver fx = true \/ cls_witver_obj d = false) ->
  fx_tb fx (d_payload d) = d_payload d -> pfx_ok fx net ->
  out_is (lib_out_hash H160 fx net (d_payload d) (Some (stype_name (d_stype d))) (d_witver d) None)
         (spec_lock_script d) (stype_name (d_stype d)) (nw_name net) (OaIs (spec_address net d)).
Proof.
  intros Hn Hstd Hg Htb Hp. unfold lib_out_hash.
  rewrite lib_output_eq;
    [ | apply tb_of; exact Htb | reflexivity | reflexivity | exact I
      | cbn [a_addr a_hash a_pubkey a_lock]; destruct (std_payload_cons d Hstd) as (pa & pr & ->); reflexivity ].
  cbn [a_lock].
  destruct fx as [fw fn fp fa tb0]. cbn [fx_witver] in Hg. cbn [fx_tb] in Htb.
  std_shapes d Hstd; cbn [d_payload] in Htb;
    (each_net Hn; (destruct fw; first [ guard_false Hg | out_k Htb Hp ])).
Qed.

(* =========================== foreign networks =========================== *)
Lemma foreign_refused_str fx A B d :
  In A all_networks -> In B all_networks ->
  addr_on_network B (spec_address A d) = false ->
  lib_out_addr_str H160 fx B (spec_address A d) = RErr.
Proof.
  intros HA HB Hf. destruct d as [st w p].
  destruct st; (each_net HA; (each_net HB; first [ discriminate Hf | vm_compute; reflexivity ])).
Qed.

(* the repaired object check, as a fact about the tables: an address of A that carries none of B's
   prefixes does not pass for B, whatever the object's other fields are *)
Lemma obj_network_refused fx o A B d :
  In A all_networks -> In B all_networks ->
  ao_addr o = spec_address A d ->
  String.eqb (nw_name (ao_net o)) (nw_name B) = false ->
  addr_on_network B (spec_address A d) = false ->
  lib_obj_network_ok fx o B = false.
Proof.
  intros HA HB Ha Hne Hf. unfold lib_obj_network_ok. rewrite Hne, Ha. cbn [orb].
  destruct d as [st w p]. destruct (ao_enc o);
  (destruct st; (each_net HA; (each_net HB; first [ discriminate Hf | vm_compute; reflexivity ]))).
Qed.

Lemma foreign_refused_obj fx o B :
  fx_netobj fx = true -> lib_obj_network_ok fx o B = false ->
  lib_out_addr_obj H160 fx B o = RErr.
Proof.
  intros Hfx Hok. unfold lib_out_addr_obj, lib_output, lib_args_in.
  cbn [a_addr a_hash a_pubkey a_lock a_stype a_witver a_enc a_net tb].
  unfold lib_output_k, lib_output_core. cbn [a_addr a_hash a_pubkey a_lock a_stype a_witver a_enc a_net].
  rewrite Hfx, Hok. reflexivity.
Qed.

Lemma foreign_refused_hd fx o pub w ms B :
  fx_netobj fx = true -> lib_obj_network_ok fx o B = false ->
  lib_out_hd H160 fx B o pub w ms = RErr.
Proof.
  intros Hfx Hok. unfold lib_out_hd, lib_output, lib_args_in.
  cbn [a_addr a_hash a_pubkey a_lock a_stype a_witver a_enc a_net tb].
  unfold lib_output_k, lib_output_core. cbn [a_addr a_hash a_pubkey a_lock a_stype a_witver a_enc a_net].
  rewrite Hfx, Hok. destruct pub; reflexivity.
Qed.

End WithH.

(* =========================== side conditions over the regenerated tables =========================== *)
(* no version byte is a P2PKH prefix of one network and a P2SH prefix of another (or the same) one:
   type inference of a Base58 address never depends on which network is asked *)
Definition p2pkh_p2sh_disjoint : bool :=
  forallb (fun a => forallb (fun b => negb (bytes_eqb (nw_prefix_address a) (nw_prefix_address_p2sh b)))
                            all_networks) all_networks.
Lemma prefix_kinds_disjoint : p2pkh_p2sh_disjoint = true.
Proof. vm_compute. reflexivity. Qed.

(* every prefix is one byte (Base58) / non-empty lower-case text (Bech32) and network names are unique *)
Definition prefixes_wellformed : bool :=
  forallb (fun n => (List.length (nw_prefix_address n) =? 1)%nat && (List.length (nw_prefix_address_p2sh n) =? 1)%nat
                    && negb ((List.length (nw_prefix_bech32 n) =? 0)%nat)
                    && bytes_eqb (map upper_byte (map (fun b => if (65 <=? bz b) && (bz b <=? 90) then zb (bz b + 32) else b)
                                                      (nw_prefix_bech32 n)))
                                 (map upper_byte (nw_prefix_bech32 n))
                    && forallb (fun b => negb ((65 <=? bz b) && (bz b <=? 90))) (nw_prefix_bech32 n))
          all_networks.
Lemma prefixes_ok : prefixes_wellformed = true.
Proof. vm_compute. reflexivity. Qed.

Fixpoint names_unique (l : list network) : bool :=
  match l with
  | [] => true
  | n :: r => negb (existsb (fun m => String.eqb (nw_name m) (nw_name n)) r) && names_unique r
  end.
Lemma network_names_unique : names_unique all_networks = true.
Proof. vm_compute. reflexivity. Qed.

(* which networks share all three address prefixes (an address of one is an address of the other):
   exactly the pairs inside {testnet, testnet4, signet} and {litecoin, litecoin_legacy} minus P2SH ... *)
Definition share_all (a b : network) : bool :=
  bytes_eqb (nw_prefix_address a) (nw_prefix_address b) && bytes_eqb (nw_prefix_address_p2sh a) (nw_prefix_address_p2sh b)
  && bytes_eqb (nw_prefix_bech32 a) (nw_prefix_bech32 b).
Definition sharing_pairs : list (string * string) :=
  flat_map (fun a => flat_map (fun b => if share_all a b && negb (String.eqb (nw_name a) (nw_name b))
                                        then [(nw_name a, nw_name b)] else []) all_networks) all_networks.
Lemma sharing_pairs_are :
  sharing_pairs = [("testnet", "testnet4"); ("testnet", "signet"); ("testnet4", "testnet"); ("testnet4", "signet");
                   ("signet", "testnet"); ("signet", "testnet4")]%string.
Proof. vm_compute. reflexivity. Qed.

(* the locking templates the five standard types use are exactly these (SCRIPT_TYPES as regenerated) *)
Lemma templates_are :
  map (fun st => option_map row_tpl (st_lookup st)) [s_p2pkh; s_p2sh; s_p2wpkh; s_p2wsh; s_p2tr] =
  [Some [inl 118; inl 169; inr s_data; inl 136; inl 172]; Some [inl 169; inr s_data; inl 135];
   Some [inl 0; inr s_data]; Some [inl 0; inr s_data]; Some [inr s_op_n; inr s_data]].
Proof. vm_compute. reflexivity. Qed.
