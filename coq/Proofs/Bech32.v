(* Proofs/Bech32.v — the Bech32 checksum: GF(2)-linearity of the polymod step and validity of the
   checksum the encoder appends, for every human-readable part, every data sequence and every constant. *)
From Coq Require Import ZArith List Bool Lia Btauto.
From Coq.Strings Require Import Byte.
From Verif Require Import Lib.Bytes Gen.GenConsts Model.Base58 Model.Bech32.
Import ListNotations.
Open Scope Z_scope.

Lemma testbit_sel b g n : Z.testbit (sel b g) n = b && Z.testbit g n.
Proof. destruct b; cbn [sel andb]; [reflexivity | apply Z.bits_0]. Qed.

Ltac bits :=
  apply Z.bits_inj'; intros n Hn;
  repeat (rewrite ?Z.lxor_spec, ?Z.land_spec, ?testbit_sel, ?Z.bits_0);
  repeat (rewrite Z.shiftl_spec by lia);
  repeat (rewrite ?Z.lxor_spec, ?Z.land_spec, ?testbit_sel, ?Z.bits_0);
  repeat (rewrite Z.shiftr_spec by lia);
  repeat (rewrite ?Z.lxor_spec, ?Z.land_spec, ?testbit_sel, ?Z.bits_0);
  btauto.

(* the linear part of one step *)
Definition Lstep (chk : Z) : Z := polymod_step chk 0.

Lemma step_L chk v : polymod_step chk v = Z.lxor (Lstep chk) v.
Proof. unfold Lstep, polymod_step. bits. Qed.

Lemma Lstep_xor a b : Lstep (Z.lxor a b) = Z.lxor (Lstep a) (Lstep b).
Proof. unfold Lstep, polymod_step. bits. Qed.

Lemma step_xor a b v w :
  polymod_step (Z.lxor a b) (Z.lxor v w) = Z.lxor (polymod_step a v) (polymod_step b w).
Proof. rewrite !step_L, Lstep_xor. bits. Qed.

(* superposition: the state splits into (state, zero input) xor (zero state, input) *)
Lemma fold_shift ws : forall a b,
  fold_left polymod_step ws (Z.lxor a b) =
  Z.lxor (fold_left polymod_step (map (fun _ => 0) ws) a) (fold_left polymod_step ws b).
Proof.
  induction ws as [|w ws IH]; intros a b; [reflexivity|].
  cbn [map fold_left]. rewrite <- IH. f_equal.
  rewrite <- step_xor. rewrite Z.lxor_0_l. reflexivity.
Qed.

(* ------------------------------------------------------------------ ranges *)
Lemma lxor_range n a b : 0 <= n -> 0 <= a < 2 ^ n -> 0 <= b < 2 ^ n -> 0 <= Z.lxor a b < 2 ^ n.
Proof.
  intros Hn Ha Hb. assert (H0 : 0 <= Z.lxor a b) by (apply Z.lxor_nonneg; lia).
  split; [exact H0|].
  destruct (Z.eq_dec (Z.lxor a b) 0) as [E|E]; [rewrite E; apply Z.pow_pos_nonneg; lia|].
  assert (Hn0 : 0 < n).
  { destruct (Z.eq_dec n 0) as [->|]; [|lia]. exfalso. apply E.
    change (2 ^ 0) with 1 in *. assert (a = 0) by lia. assert (b = 0) by lia. subst. reflexivity. }
  apply Z.log2_lt_pow2; [lia|].
  eapply Z.le_lt_trans; [apply Z.log2_lxor; lia|].
  apply Z.max_lub_lt.
  - destruct (Z.eq_dec a 0) as [->|Ea]; [cbn; lia|]. apply Z.log2_lt_pow2; lia.
  - destruct (Z.eq_dec b 0) as [->|Eb]; [cbn; lia|]. apply Z.log2_lt_pow2; lia.
Qed.

Lemma sel_range b g : 0 <= g < 2 ^ 30 -> 0 <= sel b g < 2 ^ 30.
Proof. destruct b; cbn [sel]; lia. Qed.

Lemma step_range chk v : 0 <= v < 2 ^ 30 -> 0 <= polymod_step chk v < 2 ^ 30.
Proof.
  intros Hv. unfold polymod_step.
  assert (Hs : 0 <= Z.shiftl (Z.land chk 33554431) 5 < 2 ^ 30).
  { change 33554431 with (Z.ones 25). rewrite Z.land_ones by lia. rewrite Z.shiftl_mul_pow2 by lia.
    pose proof (Z.mod_pos_bound chk (2 ^ 25) ltac:(lia)). lia. }
  repeat apply lxor_range; try lia; try (apply sel_range; unfold g0, g1, g2, g3, g4; lia).
Qed.

Lemma fold_range vs : forall c, 0 <= c < 2 ^ 30 -> Forall (fun v => 0 <= v < 2 ^ 30) vs ->
  0 <= fold_left polymod_step vs c < 2 ^ 30.
Proof.
  induction vs as [|v vs IH]; intros c Hc Hvs; [exact Hc|].
  cbn [fold_left]. inversion Hvs; subst. apply IH; [apply step_range|]; assumption.
Qed.

(* ------------------------------------------------------------------ feeding the six 5-bit groups of m *)
Lemma step_small s c : 0 <= s < 2 ^ 25 -> polymod_step s c = Z.lxor (Z.shiftl s 5) c.
Proof.
  intros Hs. unfold polymod_step.
  assert (Ht : Z.shiftr s 25 = 0) by (rewrite Z.shiftr_div_pow2 by lia; apply Z.div_small; lia).
  rewrite Ht. rewrite !Z.bits_0. cbn [sel]. rewrite !Z.lxor_0_r.
  change 33554431 with (Z.ones 25). rewrite Z.land_ones by lia. rewrite Z.mod_small by lia. reflexivity.
Qed.

Lemma chunk5 x : Z.lxor (Z.shiftl (Z.shiftr x 5) 5) (Z.land x 31) = x.
Proof.
  apply Z.bits_inj'. intros n Hn. rewrite Z.lxor_spec, Z.land_spec.
  change 31 with (Z.ones 5).
  destruct (Z.lt_ge_cases n 5) as [Hlt|Hge].
  - rewrite Z.shiftl_spec_low by lia. rewrite Z.ones_spec_low by lia. btauto.
  - rewrite Z.shiftl_spec by lia. rewrite Z.shiftr_spec by lia.
    rewrite Z.ones_spec_high by lia. replace (n - 5 + 5) with n by lia. btauto.
Qed.

Lemma step_chunk m k k' : 0 <= m < 2 ^ 30 -> 0 <= k -> k' = k + 5 ->
  polymod_step (Z.shiftr m k') (Z.land (Z.shiftr m k) 31) = Z.shiftr m k.
Proof.
  intros Hm Hk ->.
  assert (Hs : 0 <= Z.shiftr m (k + 5) < 2 ^ 25).
  { split; [apply Z.shiftr_nonneg; lia|]. rewrite Z.shiftr_div_pow2 by lia.
    apply Z.div_lt_upper_bound; [apply Z.pow_pos_nonneg; lia|].
    rewrite Z.pow_add_r by lia. assert (0 < 2 ^ k) by (apply Z.pow_pos_nonneg; lia). nia. }
  rewrite step_small by exact Hs.
  rewrite <- Z.shiftr_shiftr by lia. apply chunk5.
Qed.

Lemma fold_checksum m : 0 <= m < 2 ^ 30 -> fold_left polymod_step (checksum_values m) 0 = m.
Proof.
  intros Hm. unfold checksum_values. cbn [map fold_left].
  change (5 * (5 - 0)) with 25. change (5 * (5 - 1)) with 20. change (5 * (5 - 2)) with 15.
  change (5 * (5 - 3)) with 10. change (5 * (5 - 4)) with 5. change (5 * (5 - 5)) with 0.
  assert (E30 : Z.shiftr m 30 = 0) by (rewrite Z.shiftr_div_pow2 by lia; apply Z.div_small; lia).
  rewrite <- E30 at 1.
  rewrite (step_chunk m 25 30) by lia.
  rewrite (step_chunk m 20 25) by lia.
  rewrite (step_chunk m 15 20) by lia.
  rewrite (step_chunk m 10 15) by lia.
  rewrite (step_chunk m 5 10) by lia.
  rewrite (step_chunk m 0 5) by lia.
  apply Z.shiftr_0_r.
Qed.

(* ------------------------------------------------------------------ the appended checksum verifies *)
Theorem checksum_valid pre const :
  Forall (fun v => 0 <= v < 2 ^ 30) pre -> 0 <= const < 2 ^ 30 ->
  polymod (pre ++ checksum_values (Z.lxor (polymod (pre ++ [0; 0; 0; 0; 0; 0])) const)) = const.
Proof.
  intros Hpre Hc. unfold polymod. rewrite !fold_left_app.
  set (P := fold_left polymod_step pre 1).
  assert (HP : 0 <= P < 2 ^ 30) by (apply fold_range; [lia | exact Hpre]).
  set (Q := fold_left polymod_step [0; 0; 0; 0; 0; 0] P).
  assert (HQ : 0 <= Q < 2 ^ 30).
  { apply fold_range; [exact HP|]. repeat constructor; lia. }
  set (m := Z.lxor Q const).
  assert (Hm : 0 <= m < 2 ^ 30) by (apply lxor_range; lia).
  replace (fold_left polymod_step (checksum_values m) P)
    with (fold_left polymod_step (checksum_values m) (Z.lxor P 0)) by (rewrite Z.lxor_0_r; reflexivity).
  rewrite fold_shift.
  rewrite (fold_checksum m Hm).
  change (fold_left polymod_step (map (fun _ : Z => 0) (checksum_values m)) P) with Q.
  subst m. rewrite <- Z.lxor_assoc, Z.lxor_nilpotent, Z.lxor_0_l. reflexivity.
Qed.

Lemma hrp_expand_range hrp : Forall (fun v => 0 <= v < 2 ^ 30) (hrp_expand hrp).
Proof.
  unfold hrp_expand. apply Forall_app. split; [|apply Forall_app; split].
  - apply Forall_forall. intros v Hv. apply in_map_iff in Hv. destruct Hv as (c & <- & _).
    pose proof (bz_range c). rewrite Z.shiftr_div_pow2 by lia.
    split; [apply Z.div_pos; lia|]. apply Z.div_lt_upper_bound; lia.
  - repeat constructor; lia.
  - apply Forall_forall. intros v Hv. apply in_map_iff in Hv. destruct Hv as (c & <- & _).
    change 31 with (Z.ones 5). rewrite Z.land_ones by lia.
    pose proof (Z.mod_pos_bound (bz c) (2 ^ 5) ltac:(lia)). lia.
Qed.

(* what the decoder computes over hrp, data and the encoder's checksum is exactly the constant used *)
Theorem mk_checksum_verifies hrp data const :
  Forall (fun v => 0 <= v < 32) data -> 0 <= const < 2 ^ 30 ->
  polymod (hrp_expand hrp ++ data ++ mk_checksum hrp data const) = const.
Proof.
  intros Hd Hc. unfold mk_checksum. rewrite !app_assoc.
  apply checksum_valid; [|exact Hc].
  apply Forall_app. split; [apply hrp_expand_range|].
  eapply Forall_impl; [|exact Hd]. cbn beta. intros v Hv. lia.
Qed.

Lemma bech32_const_range witver : 0 <= bech32_const witver < 2 ^ 30.
Proof. unfold bech32_const. destruct (witver =? 0); unfold cfg_BECH32M_CONST; lia. Qed.

(* constant selection: version 0 <-> Bech32 (1), versions 1.. <-> Bech32m; the two never coincide *)
Lemma bech32_const_distinct : cfg_BECH32M_CONST <> 1.
Proof. unfold cfg_BECH32M_CONST. lia. Qed.

Lemma bech32_const_spec witver :
  0 <= bech32_const witver < 2 ^ 30 /\ (bech32_const witver = 1 <-> witver = 0).
Proof.
  split; [apply bech32_const_range|]. unfold bech32_const.
  destruct (Z.eqb_spec witver 0) as [E|N].
  - split; intros _; [exact E | reflexivity].
  - split; [intros E; exfalso; apply bech32_const_distinct; exact E | intros E; contradiction].
Qed.

(* a different constant is detected: the same data with the checksum of the other variant fails *)
Theorem wrong_constant_detected hrp data c1 c2 :
  Forall (fun v => 0 <= v < 32) data -> 0 <= c1 < 2 ^ 30 -> c1 <> c2 ->
  polymod (hrp_expand hrp ++ data ++ mk_checksum hrp data c1) <> c2.
Proof. intros Hd Hc Hne. rewrite mk_checksum_verifies by assumption. exact Hne. Qed.

(* ------------------------------------------------------------------ character set *)
Lemma b32_pos_char_table :
  forallb (fun i => match b32_pos (b32_char (Z.of_nat i)) with Some p => p =? Z.of_nat i | None => false end)
          (seq 0 32) = true.
Proof. vm_compute. reflexivity. Qed.

Lemma b32_pos_char d : 0 <= d < 32 -> b32_pos (b32_char d) = Some d.
Proof.
  intros Hd. pose proof b32_pos_char_table as T. rewrite forallb_forall in T.
  specialize (T (Z.to_nat d)). rewrite Z2Nat.id in T by lia.
  assert (Hin : In (Z.to_nat d) (seq 0 32)) by (apply in_seq; lia).
  specialize (T Hin). destruct (b32_pos (b32_char d)) as [p|]; [|discriminate].
  apply Z.eqb_eq in T. congruence.
Qed.

Lemma b32_indices_of_values ds :
  Forall (fun d => 0 <= d < 32) ds -> b32_indices (map b32_char ds) = Some ds.
Proof.
  induction 1 as [|d ds Hd _ IH]; [reflexivity|].
  cbn [map b32_indices]. rewrite (b32_pos_char d Hd), IH. reflexivity.
Qed.

(* the separator never occurs in the data part, and data characters are lower case *)
Lemma b32_chars_table :
  forallb (fun c => negb (beq c x31) && beq (lower_byte c) c && printable c) alphabet_bech32 = true.
Proof. vm_compute. reflexivity. Qed.

Lemma checksum_values_range m : Forall (fun v => 0 <= v < 32) (checksum_values m).
Proof.
  unfold checksum_values. apply Forall_forall. intros v Hv. apply in_map_iff in Hv.
  destruct Hv as (i & <- & _). change 31 with (Z.ones 5). rewrite Z.land_ones by lia.
  pose proof (Z.mod_pos_bound (Z.shiftr m (5 * (5 - i))) (2 ^ 5) ltac:(lia)). lia.
Qed.
