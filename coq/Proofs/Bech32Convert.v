(* Proofs/Bech32Convert.v — convertbits (the accumulator loop of Model/Bech32.v, itself proved equal to the
   function re-translated from encoding.py in Glue/Bech32Glue.v) as an operation on the bit stream:
   it emits the full tobits-wide groups of the concatenated frombits-wide symbols, and finishes with
   zero padding (pad = True) or with the padding test (pad = False).  Consequences: the 8 -> 5 -> 8 round
   trip for every byte string, the exact rejection condition of pad = False, and the 5 -> 8 -> 5 direction. *)
From Coq Require Import ZArith List Bool Lia.
From Verif Require Import Lib.BitRegroup Proofs.BitRegroupMore Model.Bech32.
Import ListNotations.
Open Scope Z_scope.

(* ------------------------------------------------------------------ the loop on bit lists *)
(* what is done with the bits left in the accumulator after the last symbol *)
Definition bl_final (fbn tbn : nat) (pad : bool) (rest : list Z) : cb_res :=
  if pad then
    match rest with
    | [] => CbOk []
    | _ => CbOk [val 2 rest * 2 ^ Z.of_nat (tbn - length rest)]
    end
  else if (fbn <=? length rest)%nat || negb (val 2 rest =? 0) then CbErr else CbOk [].

Definition cb_then (out : list Z) (r : cb_res) : cb_res :=
  match r with CbOk l => CbOk (out ++ l) | e => e end.

Fixpoint bl_loop (fbn tbn : nat) (pad : bool) (data : list Z) (p : list Z) : cb_res :=
  match data with
  | [] => bl_final fbn tbn pad p
  | v :: r =>
      let '(out, p') := chop (S (length p + fbn)) tbn (p ++ to_bits fbn v) in
      cb_then out (bl_loop fbn tbn pad r p')
  end.

(* ------------------------------------------------------------------ cb_emit = chop *)
Lemma cb_emit_chop tbn : (0 < tbn)%nat -> forall fuel acc p,
  in_base 2 p -> acc mod 2 ^ Z.of_nat (length p) = val 2 p ->
  cb_emit fuel acc (Z.of_nat (length p)) (Z.of_nat tbn) =
    (fst (chop fuel tbn p), Z.of_nat (length (snd (chop fuel tbn p)))) /\
  acc mod 2 ^ Z.of_nat (length (snd (chop fuel tbn p))) = val 2 (snd (chop fuel tbn p)).
Proof.
  intros Ht. induction fuel as [|fuel IH]; intros acc p Hp Hacc.
  - cbn [cb_emit chop fst snd]. split; [reflexivity|exact Hacc].
  - cbn [cb_emit chop]. rewrite leb_of_nat.
    destruct (tbn <=? length p)%nat eqn:El; [|cbn [fst snd]; split; [reflexivity|exact Hacc]].
    apply Nat.leb_le in El.
    assert (Hsl : Z.of_nat (length p) - Z.of_nat tbn = Z.of_nat (length (skipn tbn p)))
      by (rewrite skipn_length; lia).
    rewrite Hsl.
    assert (Hfl : length (firstn tbn p) = tbn) by (rewrite firstn_length; lia).
    pose proof (val_range 2 (skipn tbn p) ltac:(lia) (in_base_skipn 2 tbn p Hp)) as HL.
    assert (Hv : val 2 p = val 2 (firstn tbn p) * 2 ^ Z.of_nat (length (skipn tbn p)) + val 2 (skipn tbn p)).
    { rewrite <- (firstn_skipn tbn p) at 1. apply val_app. }
    assert (Hlen : Z.of_nat (length p) = Z.of_nat (length (skipn tbn p)) + Z.of_nat tbn) by (rewrite skipn_length; lia).
    rewrite Hlen, Hv in Hacc.
    destruct (field_of_mod acc (Z.of_nat (length (skipn tbn p))) (Z.of_nat tbn) _ _ ltac:(lia) ltac:(lia) HL Hacc) as [E1 E2].
    destruct (IH acc (skipn tbn p) (in_base_skipn 2 tbn p Hp) E1) as [I1 I2].
    rewrite I1, E2.
    destruct (chop fuel tbn (skipn tbn p)) as [l r]. cbn [fst snd] in *.
    split; [reflexivity|exact I2].
Qed.

(* ------------------------------------------------------------------ cb_loop = bl_loop *)
Lemma cb_final_eq fbn tbn pad acc p :
  (length p < tbn)%nat -> acc mod 2 ^ Z.of_nat (length p) = val 2 p ->
  cb_loop (Z.of_nat fbn) (Z.of_nat tbn) pad [] acc (Z.of_nat (length p)) = bl_final fbn tbn pad p.
Proof.
  intros Hl Hacc. cbn [cb_loop]. unfold bl_final.
  set (k := Z.of_nat (length p)) in *. set (tb := Z.of_nat tbn).
  assert (Hk : 0 <= k < tb) by (subst k tb; lia).
  assert (Hpad : Z.land (Z.shiftl acc (tb - k)) (Z.ones tb) = val 2 p * 2 ^ Z.of_nat (tbn - length p)).
  { rewrite Z.land_ones by lia. rewrite Z.shiftl_mul_pow2 by lia.
    replace (2 ^ tb) with (2 ^ k * 2 ^ (tb - k)) by (rewrite <- Z.pow_add_r by lia; f_equal; lia).
    rewrite Z.mul_mod_distr_r by (apply Z.pow_nonzero; lia). rewrite Hacc.
    f_equal. f_equal. subst k tb. lia. }
  rewrite Hpad. clear Hpad Hk. subst k tb. rewrite leb_of_nat.
  destruct pad.
  - destruct p as [|b p']; [reflexivity|]. cbn [length].
    destruct (Z.eqb_spec (Z.of_nat (S (length p'))) 0) as [E|_]; [lia|reflexivity].
  - assert (Hz : (val 2 p * 2 ^ Z.of_nat (tbn - length p) =? 0) = (val 2 p =? 0)).
    { pose proof (pow2_pos (Z.of_nat (tbn - length p)) ltac:(lia)).
      destruct (Z.eqb_spec (val 2 p) 0) as [E|N].
      - rewrite E. reflexivity.
      - apply Z.eqb_neq. nia. }
    rewrite Hz. reflexivity.
Qed.

Lemma cb_loop_bl fbn tbn pad : (0 < fbn)%nat -> (0 < tbn)%nat -> forall data acc p,
  in_base (2 ^ Z.of_nat fbn) data -> in_base 2 p -> (length p < tbn)%nat ->
  acc mod 2 ^ Z.of_nat (length p) = val 2 p ->
  cb_loop (Z.of_nat fbn) (Z.of_nat tbn) pad data acc (Z.of_nat (length p)) = bl_loop fbn tbn pad data p.
Proof.
  intros Hf Ht. induction data as [|v r IH]; intros acc p Hd Hp Hl Hacc.
  - apply cb_final_eq; assumption.
  - apply in_base_cons in Hd. destruct Hd as [Hv Hr].
    cbn [cb_loop bl_loop].
    assert (Hneg : (v <? 0) = false) by (apply Z.ltb_ge; lia).
    assert (Hhi : (Z.shiftr v (Z.of_nat fbn) =? 0) = true).
    { apply Z.eqb_eq. rewrite Z.shiftr_div_pow2 by lia. apply Z.div_small. exact Hv. }
    rewrite Hneg, Hhi. cbn [orb negb].
    set (acc' := Z.land (Z.lor (Z.shiftl acc (Z.of_nat fbn)) v) (Z.ones (Z.of_nat fbn + Z.of_nat tbn - 1))).
    set (q := p ++ to_bits fbn v).
    assert (Hql : length q = (length p + fbn)%nat) by (subst q; rewrite app_length, to_bits_length; reflexivity).
    assert (Hbits : Z.of_nat (length p) + Z.of_nat fbn = Z.of_nat (length q)) by (rewrite Hql; lia).
    rewrite Hbits. rewrite Nat2Z.id. rewrite <- Hql.
    assert (Hq : in_base 2 q) by (subst q; apply in_base_app; split; [exact Hp|apply to_bits_in_base]).
    assert (Hacc' : acc' mod 2 ^ Z.of_nat (length q) = val 2 q).
    { subst acc' q. rewrite Z.land_ones by lia. rewrite mod_pow2_le by lia.
      rewrite lor_shiftl_add by lia.
      rewrite Hql, Nat2Z.inj_add. rewrite mod_shift_add by lia. rewrite Hacc.
      rewrite val_app, to_bits_length, val_to_bits. rewrite Z.mod_small by exact Hv. reflexivity. }
    destruct (cb_emit_chop tbn Ht (S (length q)) acc' q Hq Hacc') as [E1 E2].
    rewrite E1.
    destruct (chop (S (length q)) tbn q) as [out p'] eqn:Ec. cbn [fst snd] in *.
    destruct (chop_spec (S (length q)) tbn q out p' Ht (Nat.lt_succ_diag_r _) Hq Ec) as (_ & C2 & _ & C4).
    rewrite (IH acc' p' Hr C4 C2 E2). unfold cb_then. destruct (bl_loop fbn tbn pad r p'); reflexivity.
Qed.

Lemma convertbits_bl fbn tbn pad data : (0 < fbn)%nat -> (0 < tbn)%nat ->
  in_base (2 ^ Z.of_nat fbn) data ->
  convertbits data (Z.of_nat fbn) (Z.of_nat tbn) pad = bl_loop fbn tbn pad data [].
Proof.
  intros Hf Ht Hd. unfold convertbits.
  apply (cb_loop_bl fbn tbn pad Hf Ht data 0 [] Hd); [constructor|cbn; lia|reflexivity].
Qed.

(* a symbol outside 0 .. 2^frombits - 1 makes the function return None *)
Lemma cb_loop_bad_symbol fb tb pad : forall data acc bits,
  Exists (fun v => v < 0 \/ 2 ^ fb <= v) data -> 0 <= fb ->
  cb_loop fb tb pad data acc bits = CbNone.
Proof.
  induction data as [|v r IH]; intros acc bits He Hfb; [inversion He|].
  cbn [cb_loop].
  destruct ((v <? 0) || negb (Z.shiftr v fb =? 0)) eqn:Eb; [reflexivity|].
  apply orb_false_iff in Eb. destruct Eb as [E1 E2].
  apply Z.ltb_ge in E1. apply negb_false_iff in E2. apply Z.eqb_eq in E2.
  rewrite Z.shiftr_div_pow2 in E2 by lia.
  assert (Hv : 0 <= v < 2 ^ fb).
  { pose proof (pow2_pos fb Hfb). apply Z.div_small_iff in E2; lia. }
  inversion He as [? ? Hbad|? ? Hr]; subst; [lia|].
  destruct (cb_emit _ _ _ _) as [out b''].
  rewrite (IH (Z.land (Z.lor (Z.shiftl acc fb) v) (Z.ones (fb + tb - 1))) b'' Hr Hfb). reflexivity.
Qed.

(* ------------------------------------------------------------------ the loop as a stream operation *)
Lemma bl_loop_stream fbn tbn pad : (0 < tbn)%nat -> forall data p,
  in_base 2 p -> (length p < tbn)%nat ->
  exists out rest,
    bl_loop fbn tbn pad data p = cb_then out (bl_final fbn tbn pad rest) /\
    unpack tbn out ++ rest = p ++ unpack fbn data /\
    (length rest < tbn)%nat /\ in_base (2 ^ Z.of_nat tbn) out /\ in_base 2 rest.
Proof.
  intros Ht. induction data as [|v r IH]; intros p Hp Hl.
  - exists [], p. cbn [bl_loop]. split; [unfold cb_then; destruct (bl_final fbn tbn pad p); reflexivity|].
    split; [rewrite app_nil_r; reflexivity|]. split; [exact Hl|]. split; [constructor|exact Hp].
  - cbn [bl_loop]. set (q := p ++ to_bits fbn v).
    assert (Hql : length q = (length p + fbn)%nat) by (subst q; rewrite app_length, to_bits_length; reflexivity).
    assert (Hq : in_base 2 q) by (subst q; apply in_base_app; split; [exact Hp|apply to_bits_in_base]).
    rewrite <- Hql.
    destruct (chop (S (length q)) tbn q) as [o1 p'] eqn:Ec.
    destruct (chop_spec (S (length q)) tbn q o1 p' Ht (Nat.lt_succ_diag_r _) Hq Ec) as (C1 & C2 & C3 & C4).
    destruct (IH p' C4 C2) as (o2 & rest & I1 & I2 & I3 & I4 & I5).
    exists (o1 ++ o2), rest. split; [|split; [|split; [exact I3|split; [|exact I5]]]].
    + rewrite I1. unfold cb_then. destruct (bl_final fbn tbn pad rest); try reflexivity.
      rewrite app_assoc. reflexivity.
    + rewrite unpack_app, <- app_assoc, I2, app_assoc, C1. subst q.
      rewrite unpack_cons, <- app_assoc. reflexivity.
    + apply in_base_app. split; assumption.
Qed.

(* ------------------------------------------------------------------ pad = True: the stream plus zero padding *)
Lemma pad_group_bits tbn rest : in_base 2 rest -> (length rest <= tbn)%nat ->
  to_bits tbn (val 2 rest * 2 ^ Z.of_nat (tbn - length rest)) = rest ++ repeat 0 (tbn - length rest).
Proof.
  intros Hr Hl. replace tbn with (length rest + (tbn - length rest))%nat at 1 by lia.
  rewrite to_bits_shl, to_bits_val by exact Hr. reflexivity.
Qed.

Theorem convertbits_pad_stream fbn tbn data : (0 < fbn)%nat -> (0 < tbn)%nat ->
  in_base (2 ^ Z.of_nat fbn) data ->
  exists out k,
    convertbits data (Z.of_nat fbn) (Z.of_nat tbn) true = CbOk out /\
    in_base (2 ^ Z.of_nat tbn) out /\ (k < tbn)%nat /\
    unpack tbn out = unpack fbn data ++ repeat 0 k.
Proof.
  intros Hf Ht Hd. rewrite convertbits_bl by assumption.
  destruct (bl_loop_stream fbn tbn true Ht data [] ltac:(constructor) ltac:(cbn; lia))
    as (out & rest & E & S1 & S2 & S3 & S4).
  rewrite E. cbn [app] in S1. unfold bl_final, cb_then.
  destruct rest as [|b rest'].
  - exists (out ++ []), O. rewrite !app_nil_r in *. repeat split; [exact S3|exact Ht|exact S1].
  - set (rest := b :: rest') in *.
    exists (out ++ [val 2 rest * 2 ^ Z.of_nat (tbn - length rest)]), (tbn - length rest)%nat.
    split; [reflexivity|]. split; [|split].
    + apply in_base_app. split; [exact S3|]. constructor; [|constructor].
      pose proof (val_range 2 rest ltac:(lia) S4) as Hv.
      pose proof (pow2_pos (Z.of_nat (tbn - length rest)) ltac:(lia)) as Hp.
      replace (Z.of_nat tbn) with (Z.of_nat (length rest) + Z.of_nat (tbn - length rest)) by lia.
      rewrite Z.pow_add_r by lia. nia.
    + subst rest. cbn [length]. lia.
    + rewrite unpack_app, unpack_cons. cbn [unpack flat_map]. rewrite app_nil_r.
      rewrite pad_group_bits by (try exact S4; lia). rewrite app_assoc, S1. reflexivity.
Qed.

(* ------------------------------------------------------------------ pad = False: exact acceptance condition *)
(* data is in range; r bits are left over after the last full group *)
Theorem convertbits_nopad_spec fbn tbn data : (0 < fbn)%nat -> (0 < tbn)%nat ->
  in_base (2 ^ Z.of_nat fbn) data ->
  exists out rest,
    unpack tbn out ++ rest = unpack fbn data /\ (length rest < tbn)%nat /\
    in_base (2 ^ Z.of_nat tbn) out /\ in_base 2 rest /\
    convertbits data (Z.of_nat fbn) (Z.of_nat tbn) false =
      if (fbn <=? length rest)%nat || negb (val 2 rest =? 0) then CbErr else CbOk out.
Proof.
  intros Hf Ht Hd. rewrite convertbits_bl by assumption.
  destruct (bl_loop_stream fbn tbn false Ht data [] ltac:(constructor) ltac:(cbn; lia))
    as (out & rest & E & S1 & S2 & S3 & S4).
  exists out, rest. cbn [app] in S1. repeat split; try assumption.
  rewrite E. unfold bl_final, cb_then.
  destruct ((fbn <=? length rest)%nat || negb (val 2 rest =? 0)); [reflexivity|].
  rewrite app_nil_r. reflexivity.
Qed.

(* the same in numbers: with N the big-endian value of the symbols and r = (frombits * len) mod tobits,
   pad = False raises exactly when r >= frombits or the r low bits of N are not all zero; otherwise the
   result is the tobits-wide digits of N / 2^r *)
Lemma stream_split tbn out rest s : (0 < tbn)%nat ->
  unpack tbn out ++ rest = s -> (length rest < tbn)%nat -> in_base (2 ^ Z.of_nat tbn) out -> in_base 2 rest ->
  length rest = (length s mod tbn)%nat /\ length out = (length s / tbn)%nat /\
  val 2 rest = val 2 s mod 2 ^ Z.of_nat (length rest) /\
  val (2 ^ Z.of_nat tbn) out = val 2 s / 2 ^ Z.of_nat (length rest).
Proof.
  intros Ht E Hl Ho Hr.
  assert (Hlen : length s = (length out * tbn + length rest)%nat).
  { rewrite <- E, app_length, unpack_length. lia. }
  assert (Hm : length rest = (length s mod tbn)%nat).
  { rewrite Hlen. rewrite Nat.add_comm, Nat.mod_add by lia. symmetry. apply Nat.mod_small. exact Hl. }
  assert (Hq : length out = (length s / tbn)%nat).
  { rewrite Hlen. rewrite Nat.div_add_l by lia. rewrite Nat.div_small by exact Hl. lia. }
  split; [exact Hm|]. split; [exact Hq|].
  pose proof (val_range 2 rest ltac:(lia) Hr) as Hv.
  pose proof (pow2_pos (Z.of_nat (length rest)) ltac:(lia)) as Hp.
  assert (Hs : val 2 s = val (2 ^ Z.of_nat tbn) out * 2 ^ Z.of_nat (length rest) + val 2 rest).
  { rewrite <- E, val_app, val_unpack by exact Ho. reflexivity. }
  rewrite Hs. split.
  - rewrite Z.add_comm, Z.mod_add by lia. symmetry. apply Z.mod_small. exact Hv.
  - rewrite Z.div_add_l by lia. rewrite Z.div_small by exact Hv. lia.
Qed.

Theorem convertbits_nopad_numeric fbn tbn data : (0 < fbn)%nat -> (0 < tbn)%nat ->
  in_base (2 ^ Z.of_nat fbn) data ->
  let r := ((fbn * length data) mod tbn)%nat in
  let N := val (2 ^ Z.of_nat fbn) data in
  if (fbn <=? r)%nat || negb (N mod 2 ^ Z.of_nat r =? 0)
  then convertbits data (Z.of_nat fbn) (Z.of_nat tbn) false = CbErr
  else exists out, convertbits data (Z.of_nat fbn) (Z.of_nat tbn) false = CbOk out /\
                   length out = ((fbn * length data) / tbn)%nat /\
                   in_base (2 ^ Z.of_nat tbn) out /\
                   val (2 ^ Z.of_nat tbn) out = N / 2 ^ Z.of_nat r.
Proof.
  intros Hf Ht Hd r N.
  destruct (convertbits_nopad_spec fbn tbn data Hf Ht Hd) as (out & rest & S1 & S2 & S3 & S4 & E).
  destruct (stream_split tbn out rest _ Ht S1 S2 S3 S4) as (L1 & L2 & V1 & V2).
  rewrite unpack_length in L1, L2. rewrite val_unpack in V1, V2 by exact Hd.
  fold r in L1. fold N in V1, V2. rewrite L1 in *. rewrite <- V1.
  rewrite E. destruct ((fbn <=? r)%nat || negb (val 2 rest =? 0)); [reflexivity|].
  exists out. repeat split; assumption.
Qed.

(* ------------------------------------------------------------------ 8 -> 5 -> 8 *)
Theorem convertbits_8_5_8 bs : in_base 256 bs ->
  exists d5, convertbits bs 8 5 true = CbOk d5 /\ in_base 32 d5 /\
             length d5 = ((8 * length bs + 4) / 5)%nat /\
             convertbits d5 5 8 false = CbOk bs.
Proof.
  intros Hb.
  destruct (convertbits_pad_stream 8 5 bs ltac:(lia) ltac:(lia) Hb) as (d5 & k & E & Hd & Hk & S).
  change (Z.of_nat 8) with 8 in *. change (Z.of_nat 5) with 5 in *.
  change (2 ^ 5) with 32 in *. change (2 ^ 8) with 256 in *.
  exists d5. split; [exact E|]. split; [exact Hd|].
  assert (Hlen : (5 * length d5 = 8 * length bs + k)%nat).
  { pose proof (f_equal (@length Z) S) as El.
    rewrite app_length, !unpack_length, repeat_length in El. exact El. }
  split.
  { assert (H5 : (8 * length bs + 4 = length d5 * 5 + (4 - k))%nat) by lia.
    rewrite H5, Nat.div_add_l by lia. rewrite Nat.div_small by lia. lia. }
  destruct (convertbits_nopad_spec 5 8 d5 ltac:(lia) ltac:(lia) Hd) as (out & rest & S1 & S2 & S3 & S4 & E2).
  change (Z.of_nat 8) with 8 in *. change (Z.of_nat 5) with 5 in *. change (2 ^ 8) with 256 in *.
  rewrite E2. rewrite S in S1.
  assert (Hl2 : (8 * length out + length rest = 8 * length bs + k)%nat).
  { pose proof (f_equal (@length Z) S1) as El.
    rewrite !app_length, !unpack_length, repeat_length in El. exact El. }
  assert (Hlo : length out = length bs) by lia.
  assert (Hlr : length rest = k) by lia.
  assert (Hu : unpack 8 out = unpack 8 bs /\ rest = repeat 0 k).
  { apply app_eq_len; [|exact S1]. rewrite !unpack_length. lia. }
  destruct Hu as [Hu Hr].
  assert (out = bs) by (apply (unpack_inj 8); [lia|exact S3|exact Hb|exact Hu]). subst out.
  rewrite Hr, val_zeros, repeat_length.
  destruct (Nat.leb_spec 5 k) as [Hle|_]; [lia|]. reflexivity.
Qed.

(* ------------------------------------------------------------------ 5 -> 8 -> 5 (used for canonicity) *)
Lemma zero_bits rest : in_base 2 rest -> val 2 rest = 0 -> rest = repeat 0 (length rest).
Proof.
  intros Hr Hv. pose proof (val_zero_strip 2 rest ltac:(lia) Hr Hv) as Hs.
  pose proof (strip_spec rest) as E. pose proof (clz_length rest) as L.
  rewrite Hs in E, L. rewrite app_nil_r in E. cbn [length] in L.
  rewrite E at 1. f_equal. lia.
Qed.

Theorem convertbits_5_8_5 d5 bs : in_base 32 d5 ->
  convertbits d5 5 8 false = CbOk bs ->
  in_base 256 bs /\ convertbits bs 8 5 true = CbOk d5.
Proof.
  intros Hd E.
  destruct (convertbits_nopad_spec 5 8 d5 ltac:(lia) ltac:(lia) Hd) as (out & rest & S1 & S2 & S3 & S4 & E2).
  change (Z.of_nat 8) with 8 in *. change (Z.of_nat 5) with 5 in *.
  change (2 ^ 5) with 32 in *. change (2 ^ 8) with 256 in *.
  rewrite E in E2.
  destruct ((5 <=? length rest)%nat || negb (val 2 rest =? 0)) eqn:Eb; [discriminate|].
  assert (bs = out) by congruence. subst out.
  apply orb_false_iff in Eb. destruct Eb as [B1 B2].
  apply Nat.leb_gt in B1. apply negb_false_iff in B2. apply Z.eqb_eq in B2.
  split; [exact S3|].
  destruct (convertbits_pad_stream 8 5 bs ltac:(lia) ltac:(lia) S3) as (o5 & k & E5 & H5 & Hk & S5).
  change (Z.of_nat 8) with 8 in *. change (Z.of_nat 5) with 5 in *. change (2 ^ 5) with 32 in *.
  rewrite E5. f_equal.
  rewrite (zero_bits rest S4 B2) in S1.
  assert (L1 : (8 * length bs + length rest = 5 * length d5)%nat).
  { pose proof (f_equal (@length Z) S1) as El.
    rewrite app_length, !unpack_length, repeat_length in El. exact El. }
  assert (L2 : (5 * length o5 = 8 * length bs + k)%nat).
  { pose proof (f_equal (@length Z) S5) as El.
    rewrite app_length, !unpack_length, repeat_length in El. exact El. }
  assert (k = length rest) by lia. subst k.
  apply (unpack_inj 5); [lia|exact H5|exact Hd|]. rewrite S5, <- S1. reflexivity.
Qed.

(* ------------------------------------------------------------------ statements used in Properties/C11.v *)
Corollary convertbits_roundtrip_fn bs d5 : in_base 256 bs ->
  convertbits bs 8 5 true = CbOk d5 -> convertbits d5 5 8 false = CbOk bs.
Proof.
  intros Hb E. destruct (convertbits_8_5_8 bs Hb) as (d5' & E' & _ & _ & Eback).
  assert (d5' = d5) by congruence. subst d5'. exact Eback.
Qed.

(* pad = False raises when frombits or more bits are left over, or when the left-over bits are not all zero
   (r = number of left-over bits, N = big-endian value of all symbols) *)
Corollary convertbits_nopad_rejects fbn tbn data : (0 < fbn)%nat -> (0 < tbn)%nat ->
  in_base (2 ^ Z.of_nat fbn) data ->
  let r := ((fbn * length data) mod tbn)%nat in
  (fbn <= r)%nat \/ val (2 ^ Z.of_nat fbn) data mod 2 ^ Z.of_nat r <> 0 ->
  convertbits data (Z.of_nat fbn) (Z.of_nat tbn) false = CbErr.
Proof.
  intros Hf Ht Hd r Hbad. pose proof (convertbits_nopad_numeric fbn tbn data Hf Ht Hd) as H.
  cbv zeta in H. fold r in H.
  destruct ((fbn <=? r)%nat || negb (val (2 ^ Z.of_nat fbn) data mod 2 ^ Z.of_nat r =? 0)) eqn:E; [exact H|].
  exfalso. apply orb_false_iff in E. destruct E as [E1 E2].
  apply Nat.leb_gt in E1. apply negb_false_iff in E2. apply Z.eqb_eq in E2.
  destruct Hbad as [Hb|Hb]; [lia|exact (Hb E2)].
Qed.

(* ... and only then *)
Corollary convertbits_nopad_accepts fbn tbn data : (0 < fbn)%nat -> (0 < tbn)%nat ->
  in_base (2 ^ Z.of_nat fbn) data ->
  let r := ((fbn * length data) mod tbn)%nat in
  (r < fbn)%nat -> val (2 ^ Z.of_nat fbn) data mod 2 ^ Z.of_nat r = 0 ->
  exists out, convertbits data (Z.of_nat fbn) (Z.of_nat tbn) false = CbOk out /\
              length out = ((fbn * length data) / tbn)%nat /\
              in_base (2 ^ Z.of_nat tbn) out /\
              val (2 ^ Z.of_nat tbn) out = val (2 ^ Z.of_nat fbn) data / 2 ^ Z.of_nat r.
Proof.
  intros Hf Ht Hd r Hr Hz. pose proof (convertbits_nopad_numeric fbn tbn data Hf Ht Hd) as H.
  cbv zeta in H. fold r in H.
  assert (E : (fbn <=? r)%nat || negb (val (2 ^ Z.of_nat fbn) data mod 2 ^ Z.of_nat r =? 0) = false).
  { apply orb_false_iff. split; [apply Nat.leb_gt; exact Hr|].
    apply negb_false_iff. apply Z.eqb_eq. exact Hz. }
  rewrite E in H. exact H.
Qed.

(* a symbol out of range never yields a list *)
Corollary convertbits_bad_symbol data fb tb pad : 0 <= fb ->
  Exists (fun v => v < 0 \/ 2 ^ fb <= v) data ->
  convertbits data fb tb pad = CbNone.
Proof. intros Hfb He. unfold convertbits. apply cb_loop_bad_symbol; assumption. Qed.
