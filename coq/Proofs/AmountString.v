(* Proofs/AmountString.v — the decimal numerals printed by Float/DecRound.v are read back by the parser of
   Float/B64.v; tokenisation (str.split) of "<numeral> <unit>". *)
From Coq Require Import ZArith Lia Bool List.
From Verif Require Import Float.DecRound Float.B64 Model.Amount.
Import ListNotations.
Open Scope Z_scope.

Definition digitc (c : Z) : Prop := 48 <= c <= 57.

Lemma is_digit_true : forall c, digitc c -> is_digit c = true.
Proof. intros c [H1 H2]. unfold is_digit. apply andb_true_intro. split; apply Z.leb_le; assumption. Qed.

Lemma digit_of_mod : forall v, digitc (48 + v mod 10).
Proof. intros v. pose proof (Z.mod_pos_bound v 10). unfold digitc. lia. Qed.

Lemma digits_acc_S : forall w v acc, digits_acc (S w) v acc = digits_acc w (v / 10) ((48 + v mod 10) :: acc).
Proof. reflexivity. Qed.

Lemma take_digits_cons : forall c r acc cnt,
  take_digits (c :: r) acc cnt = if is_digit c then take_digits r (acc * 10 + (c - 48)) (cnt + 1) else (acc, cnt, c :: r).
Proof. reflexivity. Qed.

Lemma take_digits_nil : forall acc cnt, take_digits [] acc cnt = (acc, cnt, []).
Proof. reflexivity. Qed.

Lemma digits_acc_app : forall w v acc, digits_acc w v acc = digits_acc w v [] ++ acc.
Proof.
induction w as [|w IH]; intros v acc. reflexivity.
rewrite !digits_acc_S. rewrite (IH (v / 10) ((48 + v mod 10) :: acc)), (IH (v / 10) [48 + v mod 10]).
rewrite <- app_assoc. reflexivity.
Qed.

Lemma digits_w_S : forall w v, digits_w (S w) v = digits_w w (v / 10) ++ [48 + v mod 10].
Proof. intros w v. unfold digits_w. rewrite digits_acc_S. apply digits_acc_app. Qed.

Lemma digits_w_all : forall w v, Forall digitc (digits_w w v).
Proof.
induction w as [|w IH]; intros v. constructor.
rewrite digits_w_S. apply Forall_app. split. apply IH. constructor. apply digit_of_mod. constructor.
Qed.

Lemma digits_w_length : forall w v, length (digits_w w v) = w.
Proof.
induction w as [|w IH]; intros v. reflexivity.
rewrite digits_w_S, app_length, IH. simpl. lia.
Qed.

Lemma take_digits_nondigit : forall c r acc cnt, is_digit c = false -> take_digits (c :: r) acc cnt = (acc, cnt, c :: r).
Proof. intros c r acc cnt H. rewrite take_digits_cons, H. reflexivity. Qed.

Lemma take_digits_w : forall w v rest acc cnt, 0 <= v < 10 ^ Z.of_nat w ->
  take_digits (digits_w w v ++ rest) acc cnt = take_digits rest (acc * 10 ^ Z.of_nat w + v) (cnt + Z.of_nat w).
Proof.
induction w as [|w IH]; intros v rest acc cnt Hv.
- change (10 ^ Z.of_nat 0) with 1 in *. assert (v = 0) by lia. subst. unfold digits_w. simpl digits_acc. simpl app.
  f_equal; simpl Z.of_nat; lia.
- rewrite digits_w_S. rewrite <- app_assoc. rewrite <- app_comm_cons. rewrite app_nil_l.
  assert (Hp : 10 ^ Z.of_nat (S w) = 10 * 10 ^ Z.of_nat w).
  { rewrite Nat2Z.inj_succ. rewrite Z.pow_succ_r by lia. reflexivity. }
  rewrite Hp in Hv.
  assert (Hd : v = 10 * (v / 10) + v mod 10) by (apply Z.div_mod; lia).
  pose proof (Z.mod_pos_bound v 10 ltac:(lia)) as Hm.
  rewrite IH by (split; [apply Z.div_pos; lia | apply Z.div_lt_upper_bound; lia]).
  rewrite take_digits_cons. rewrite (is_digit_true _ (digit_of_mod v)).
  f_equal.
  + rewrite Hp. replace (48 + v mod 10 - 48) with (v mod 10) by lia.
    set (q := v / 10) in *. set (m := v mod 10) in *. rewrite Hd. ring.
  + rewrite Nat2Z.inj_succ. lia.
Qed.

(* ---- numerals without leading zeros ---- *)
Lemma ndig_pos : forall f v, exists k, ndig f v = S k.
Proof. intros [|f] v; simpl. eexists; reflexivity. destruct (v <? 10); eexists; reflexivity. Qed.

Lemma ndig_bound : forall f v, 0 <= v < 2 ^ Z.of_nat (S f) -> v < 10 ^ Z.of_nat (ndig f v).
Proof.
induction f as [|f IH]; intros v Hv.
- simpl in *. lia.
- simpl ndig. destruct (v <? 10) eqn:E.
  + apply Z.ltb_lt in E. simpl. lia.
  + apply Z.ltb_ge in E.
    assert (Hp : 2 ^ Z.of_nat (S (S f)) = 2 * 2 ^ Z.of_nat (S f)).
    { rewrite (Nat2Z.inj_succ (S f)). rewrite Z.pow_succ_r by lia. reflexivity. }
    rewrite Hp in Hv.
    assert (Hq : 0 <= v / 10 < 2 ^ Z.of_nat (S f)).
    { split. apply Z.div_pos; lia. apply Z.div_lt_upper_bound; lia. }
    specialize (IH _ Hq).
    rewrite Nat2Z.inj_succ, Z.pow_succ_r by lia.
    assert (Hd : v = 10 * (v / 10) + v mod 10) by (apply Z.div_mod; lia).
    pose proof (Z.mod_pos_bound v 10 ltac:(lia)). lia.
Qed.

Lemma dec_digits_spec : forall v, 0 <= v ->
  exists k, dec_digits v = digits_w (S k) v /\ v < 10 ^ Z.of_nat (S k).
Proof.
intros v Hv. unfold dec_digits.
set (f := Z.to_nat (Z.log2 v)).
destruct (ndig_pos f v) as [k Hk]. exists k. rewrite <- Hk. split. reflexivity.
apply ndig_bound. split. exact Hv.
destruct (Z.eq_dec v 0) as [->|Hn]. apply Z.pow_pos_nonneg; lia.
unfold f. rewrite Nat2Z.inj_succ, Z2Nat.id by apply Z.log2_nonneg.
apply Z.log2_spec. lia.
Qed.

(* ---- the parser on printed numerals ---- *)
Lemma take_sign_digit : forall c r, digitc c -> take_sign (c :: r) = (false, c :: r).
Proof.
intros c r [H1 H2]. unfold take_sign.
replace (c =? 43) with false by (symmetry; apply Z.eqb_neq; lia).
replace (c =? 45) with false by (symmetry; apply Z.eqb_neq; lia). reflexivity.
Qed.

Lemma digits_w_head : forall k v, exists c l, digits_w (S k) v = c :: l /\ digitc c.
Proof.
intros k v. pose proof (digits_w_all (S k) v) as Ha. pose proof (digits_w_length (S k) v) as Hl.
destruct (digits_w (S k) v) as [|c l]. discriminate. exists c, l. split. reflexivity. inversion Ha; assumption.
Qed.

(* "<a>.<b with w digits>" parses to mantissa a*10^w + b, exponent -w *)
Lemma parse_fixed : forall a b w, 0 <= a -> 0 <= b < 10 ^ Z.of_nat (S w) ->
  parse_decimal (dec_digits a ++ 46 :: digits_w (S w) b) = Some (false, a * 10 ^ Z.of_nat (S w) + b, - Z.of_nat (S w)).
Proof.
intros a b w Ha Hb.
destruct (dec_digits_spec a Ha) as [k [Hk Hak]]. rewrite Hk.
destruct (digits_w_head k a) as [c [l [Hcl Hc]]].
unfold parse_decimal.
rewrite Hcl at 1. simpl app. rewrite take_sign_digit by exact Hc.
change (c :: l ++ 46 :: digits_w (S w) b) with ((c :: l) ++ 46 :: digits_w (S w) b). rewrite <- Hcl.
rewrite take_digits_w by lia.
rewrite take_digits_nondigit by reflexivity.
rewrite <- (app_nil_r (digits_w (S w) b)).
rewrite take_digits_w by exact Hb.
rewrite take_digits_nil.
replace (0 + Z.of_nat (S k) + (0 + Z.of_nat (S w)) =? 0) with false by (symmetry; apply Z.eqb_neq; lia).
rewrite ?Z.mul_0_l, ?Z.add_0_l. reflexivity.
Qed.

(* "<a>" parses to mantissa a, exponent 0 *)
Lemma parse_int : forall a, 0 <= a -> parse_decimal (dec_digits a) = Some (false, a, 0).
Proof.
intros a Ha.
destruct (dec_digits_spec a Ha) as [k [Hk Hak]]. rewrite Hk.
destruct (digits_w_head k a) as [c [l [Hcl Hc]]].
unfold parse_decimal.
rewrite Hcl at 1. rewrite take_sign_digit by exact Hc. rewrite <- Hcl.
rewrite <- (app_nil_r (digits_w (S k) a)).
rewrite take_digits_w by lia.
rewrite take_digits_nil.
replace (0 + Z.of_nat (S k) + 0 =? 0) with false by (symmetry; apply Z.eqb_neq; lia).
rewrite ?Z.mul_0_l, ?Z.add_0_l. reflexivity.
Qed.

(* ---- str.split() ---- *)
Definition nospace (l : str) : Prop := Forall (fun c => is_space c = false) l.

Lemma split_aux_nospace : forall a l cur, nospace a ->
  split_ws_aux (a ++ l) cur = split_ws_aux l (rev a ++ cur).
Proof.
induction a as [|c a IH]; intros l cur H. reflexivity.
inversion H as [|? ? Hc Ha]; subst. simpl. rewrite Hc. rewrite IH by exact Ha.
rewrite <- app_assoc. reflexivity.
Qed.

Lemma split_one : forall b, b <> [] -> nospace b -> split_ws_aux b [] = [b].
Proof.
intros b Hb Nb.
assert (E : split_ws_aux (b ++ []) [] = [b]).
{ rewrite split_aux_nospace by exact Nb. rewrite app_nil_r. simpl.
  destruct (rev b) eqn:E2.
  - exfalso. apply Hb. rewrite <- (rev_involutive b), E2. reflexivity.
  - rewrite <- E2, rev_involutive. reflexivity. }
rewrite app_nil_r in E. exact E.
Qed.

Lemma split_two : forall a b, a <> [] -> b <> [] -> nospace a -> nospace b ->
  split_ws (a ++ 32 :: b) = [a; b].
Proof.
intros a b Ha Hb Na Nb. unfold split_ws.
rewrite split_aux_nospace by exact Na. rewrite app_nil_r.
simpl. destruct (rev a) eqn:E.
- exfalso. apply Ha. rewrite <- (rev_involutive a), E. reflexivity.
- rewrite <- E, rev_involutive. f_equal. apply split_one; assumption.
Qed.

Lemma nospace_numeric : forall l, Forall (fun c => 46 <= c <= 57) l -> nospace l.
Proof.
intros l H. unfold nospace. eapply Forall_impl; [|exact H].
intros c Hc. simpl in Hc. unfold is_space.
repeat match goal with
| |- context [?a <=? ?b] => destruct (Z.leb_spec a b); try lia
| |- context [?a =? ?b] => destruct (Z.eqb_spec a b); try lia
end; reflexivity.
Qed.

Lemma digits_numeric : forall w v, Forall (fun c => 46 <= c <= 57) (digits_w w v).
Proof. intros w v. eapply Forall_impl; [|apply digits_w_all]. unfold digitc. intros; lia. Qed.

Lemma dec_digits_numeric : forall a, 0 <= a -> Forall (fun c => 46 <= c <= 57) (dec_digits a) /\ dec_digits a <> [].
Proof.
intros a Ha. destruct (dec_digits_spec a Ha) as [k [Hk _]]. rewrite Hk. split. apply digits_numeric.
destruct (digits_w_head k a) as [c [l [Hcl _]]]. rewrite Hcl. discriminate.
Qed.
