(* Proofs/Bip32Glue.v — the guards and flag handling read from bitcoinlib/keys.py on this run
   (Gen/GenBip32.v, translator/gen_bip32.py) are the ones Model/Bip32.v uses (C03). *)
From Coq Require Import ZArith List Bool Lia.
From Coq.Strings Require Import Byte.
From Verif Require Import Lib.Bytes Crypto.Secp256k1 Model.Bip32 Gen.GenBip32.
Import ListNotations.
Open Scope Z_scope.

Lemma geb_leb a b : (a >=? b) = (b <=? a).
Proof. apply Z.geb_leb. Qed.

(* from_seed: HMAC key "Bitcoin seed"; refuses exactly key_int = 0 and key_int >= n *)
Lemma gen_seed_key_eq : gen_seed_key = bitcoin_seed.
Proof. reflexivity. Qed.
Lemma gen_from_seed_guard_eq k : gen_from_seed_guard k = ((k =? 0) || (secp_n <=? k)).
Proof. unfold gen_from_seed_guard. rewrite geb_leb. reflexivity. Qed.

(* child_private: the hardened branch is taken iff hardened or index >= 2^31; the bit is 2^31 *)
Lemma gen_child_private_hard_eq h i : gen_child_private_hard h i = (h || (two31 <=? i)).
Proof. unfold gen_child_private_hard. rewrite geb_leb. reflexivity. Qed.
Lemma gen_child_private_bit_eq : gen_child_private_bit = two31.
Proof. reflexivity. Qed.
Lemma gen_priv_index_eq h i :
  (if gen_child_private_hard h i then Z.lor i gen_child_private_bit else i) = lib_priv_index i h.
Proof. rewrite gen_child_private_hard_eq, gen_child_private_bit_eq. reflexivity. Qed.

(* child_public: refuses exactly index >= 2^31 *)
Lemma gen_child_public_guard_eq i : gen_child_public_guard i = (two31 <=? i).
Proof. unfold gen_child_public_guard. rewrite geb_leb. reflexivity. Qed.

(* subkey_for_path: the marker set; a marked element raises on the public branch; a marked index
   >= 2^31 raises; a negative index raises; a bare "M" returns public() *)
Lemma gen_markers_eq b : existsb (beq b) gen_markers = is_marker b.
Proof. unfold gen_markers, is_marker. cbn [existsb]. rewrite orb_false_r, !orb_assoc. reflexivity. Qed.
Lemma gen_public_refuses_marker_eq : gen_public_refuses_marker = true.
Proof. reflexivity. Qed.
Lemma gen_marked_guard_eq h i : gen_marked_guard h i = (h && (two31 <=? i)).
Proof. unfold gen_marked_guard. rewrite geb_leb. reflexivity. Qed.
Lemma gen_negative_guard_eq i : gen_negative_guard i = (i <? 0).
Proof. reflexivity. Qed.
Lemma gen_bare_M_public_eq : gen_bare_M_public = true.
Proof. reflexivity. Qed.

(* the step of the loop, written with the generated guards, is the model's step *)
Lemma gen_step_eq fp key i h :
  (if fp || negb (lib_is_private key)
   then if gen_public_refuses_marker && h then None
        else if gen_child_public_guard i then None else lib_child_public key i
   else lib_child_private key i h) = lib_step fp key (i, h).
Proof.
  unfold lib_step. rewrite gen_public_refuses_marker_eq, gen_child_public_guard_eq. cbn [andb].
  destruct (fp || negb (lib_is_private key)); [|reflexivity].
  destruct h; [reflexivity|].
  destruct (two31 <=? i) eqn:E; [|reflexivity].
  unfold lib_child_public. rewrite E. reflexivity.
Qed.
