(* Proofs/Bip32Glue.v — the guards and flag handling read from bitcoinlib/keys.py on this run
   (Gen/GenBip32.v, translator/gen_bip32.py) are the ones Model/Bip32.v uses (C03). *)
From Coq Require Import String.
From Coq Require Import ZArith List Bool Lia.
From Coq.Strings Require Import Byte.
From Verif Require Import Lib.Bytes Crypto.Secp256k1 Model.Bip32 Gen.GenBip32.
Import ListNotations.
Open Scope Z_scope.

Lemma geb_leb a b : (a >=? b) = (b <=? a).
Proof. apply Z.geb_leb. Qed.

(* from_seed: HMAC key "Bitcoin seed"; refuses exactly key_int = 0 and key_int >= n *)
Lemma gen_seed_key_eq : gen_seed_key = bitcoin_seed.
Proof. reflexivity. Qed.
Lemma gen_from_seed_guard_eq k : gen_from_seed_guard k = ((k =? 0) || (secp_n <=? k)).
Proof. unfold gen_from_seed_guard. rewrite geb_leb. reflexivity. Qed.

(* child_private: the hardened branch is taken iff hardened or index >= 2^31; the bit is 2^31 *)
Lemma gen_child_private_hard_eq h i : gen_child_private_hard h i = (h || (two31 <=? i)).
Proof. unfold gen_child_private_hard. rewrite geb_leb. reflexivity. Qed.
Lemma gen_child_private_bit_eq : gen_child_private_bit = two31.
Proof. reflexivity. Qed.
Lemma gen_priv_index_eq h i :
  (if gen_child_private_hard h i then Z.lor i gen_child_private_bit else i) = lib_priv_index i h.
Proof. rewrite gen_child_private_hard_eq, gen_child_private_bit_eq. reflexivity. Qed.

(* child_public: refuses exactly index >= 2^31 *)
Lemma gen_child_public_guard_eq i : gen_child_public_guard i = (two31 <=? i).
Proof. unfold gen_child_public_guard. rewrite geb_leb. reflexivity. Qed.

(* subkey_for_path: the marker set; a marked element raises on the public branch; a marked index
   >= 2^31 raises; a negative index raises; a bare "M" returns public() *)
Lemma gen_markers_eq b : existsb (beq b) gen_markers = is_marker b.
Proof. unfold gen_markers, is_marker. cbn [existsb]. rewrite orb_false_r, !orb_assoc. reflexivity. Qed.
Lemma gen_public_refuses_marker_eq : gen_public_refuses_marker = true.
Proof. reflexivity. Qed.
Lemma gen_marked_guard_eq h i : gen_marked_guard h i = (h && (two31 <=? i)).
Proof. unfold gen_marked_guard. rewrite geb_leb. reflexivity. Qed.
Lemma gen_negative_guard_eq i : gen_negative_guard i = (i <? 0).
Proof. reflexivity. Qed.
Lemma gen_bare_M_public_eq : gen_bare_M_public = true.
Proof. reflexivity. Qed.

(* the step of the loop, written with the generated guards, is the model's step *)
Lemma gen_step_eq fp key i h :
  (if fp || negb (lib_is_private key)
   then if gen_public_refuses_marker && h then None
        else if gen_child_public_guard i then None else lib_child_public key i
   else lib_child_private key i h) = lib_step fp key (i, h).
Proof.
  unfold lib_step. rewrite gen_public_refuses_marker_eq, gen_child_public_guard_eq. cbn [andb].
  destruct (fp || negb (lib_is_private key)); [|reflexivity].
  destruct h; [reflexivity|].
  destruct (two31 <=? i) eqn:E; [|reflexivity].
  unfold lib_child_public. rewrite E. reflexivity.
Qed.

(* ---------------------------------------------------------------- state
   What the derivation code writes outside its local variables, read from the source on this run: from_seed,
   _key_derivation, fingerprint, subkey_for_path, child_private and child_public write NOTHING (no attribute or
   subscript store on any object, no mutating call on self or a global, no global statement, no decorator, no mutable
   default) — they keep no state, which is why Model/Bip32.v models them as functions and a session as a fold of
   functions; the lazily memoised renderings of the immutable public key they read (Key.x, Key.y, Key.hash160) are the
   four attributes below; HDKey.__init__ sets exactly the attributes below (key material and wallet settings, no
   cache); public() works on a deepcopy and clears exactly the private fields; public_master writes the two wallet
   settings multisig and witness_type on self, network_change the network (Model: cfg_after). *)
Lemma gen_state_eq :
  gen_derivation_writes = [] /\
  gen_key_lazy_writes = ["x: self._x"%string; "y: self._y"%string; "y: self._public_uncompressed_hex"%string;
                         "hash160: self._hash160"%string] /\
  gen_hdkey_init_writes = ["self.script_type"%string; "self.encoding"%string; "self.witness_type"%string;
                           "self.multisig"%string; "self.chain"%string; "self.depth"%string;
                           "self.parent_fingerprint"%string; "self.child_index"%string; "self.key_type"%string] /\
  gen_public_copy = "hdkey = deepcopy(self)"%string /\
  gen_public_writes = ["hdkey.is_private"%string; "hdkey.secret"%string; "hdkey.private_hex"%string;
                       "hdkey.private_byte"%string; "hdkey._wif"%string; "hdkey._wif_prefix"%string;
                       "hdkey.key_hex"%string] /\
  gen_public_master_writes = ["self.multisig"%string; "self.witness_type"%string] /\
  gen_public_master_multisig_writes = [] /\
  gen_network_change_writes = ["self.network"%string].
Proof. repeat split; reflexivity. Qed.
