(* Proofs/WalletKeysBook.v — C09: invariants of the key book over arbitrary operation histories.
   Everything here holds for any key material type and any one-level derivation function. *)
From Coq Require Import ZArith Bool String List Lia.
From Verif Require Import Lib.Bytes Gen.GenNetworks Gen.GenWalletCfg Model.WalletKeys.
Import ListNotations.
Open Scope Z_scope.

Section BookProofs.
Variable X : Type.
Variable derive : X -> pelem -> option X.

Notation keyrec := (keyrec X).
Notation wstate := (wstate X).

(* derivation along a path with the wallet's one-level function *)
Fixpoint dpath (x : X) (p : list pelem) : option X :=
  match p with
  | [] => Some x
  | e :: r => match derive x e with Some y => dpath y r | None => None end
  end.

Lemma dpath_snoc : forall p x e,
  dpath x (p ++ [e]) = match dpath x p with Some y => derive y e | None => None end.
Proof.
  induction p as [|a r IH]; intros x e; simpl.
  - destruct (derive x e); reflexivity.
  - destruct (derive x a); [apply IH | reflexivity].
Qed.

(* ------------------------------------------------------------------ small list facts *)
Lemma pelem_eqb_eq : forall a b, pelem_eqb a b = true <-> a = b.
Proof.
  intros [i h] [j g]. unfold pelem_eqb. simpl. rewrite andb_true_iff, Z.eqb_eq, eqb_true_iff.
  split; [intros [? ?]; subst; reflexivity | intros E; inversion E; auto].
Qed.

Lemma path_eqb_eq : forall a b, path_eqb a b = true <-> a = b.
Proof.
  induction a as [|x a IH]; destruct b as [|y b]; simpl; try (split; [discriminate | discriminate]);
    try (split; reflexivity).
  rewrite andb_true_iff, pelem_eqb_eq, IH. split; [intros [? ?]; subst; reflexivity | intros E; inversion E; auto].
Qed.

Lemma find_path_some : forall p (ks : list keyrec) k, find_path X p ks = Some k -> In k ks /\ k_path k = p.
Proof.
  intros p ks k H. unfold find_path in H. apply find_some in H. destruct H as [Hin He].
  apply path_eqb_eq in He. auto.
Qed.

Lemma find_path_none : forall p (ks : list keyrec), find_path X p ks = None -> ~ In p (map k_path ks).
Proof.
  intros p ks H Hin. apply in_map_iff in Hin. destruct Hin as [k [Hp Hk]].
  unfold find_path in H. pose proof (find_none _ _ H k Hk) as F. simpl in F.
  rewrite <- Hp in F. assert (T : path_eqb (k_path k) (k_path k) = true) by (apply path_eqb_eq; reflexivity).
  congruence.
Qed.

Lemma NoDup_snoc : forall (A : Type) (l : list A) x, NoDup l -> ~ In x l -> NoDup (l ++ [x]).
Proof.
  induction l as [|a l IH]; intros x Hn Hx; simpl.
  - constructor; [intros []|constructor].
  - inversion Hn as [|? ? Ha Hl]; subst. constructor.
    + intros Hin. apply in_app_or in Hin. destruct Hin as [Hin|[E|[]]]; [contradiction|].
      subst. apply Hx. left. reflexivity.
    + apply IH; [exact Hl|]. intros Hin. apply Hx. right. exact Hin.
Qed.

Lemma closest_in : forall n (ks : list keyrec) p k, closest X ks p n = Some k -> In k ks.
Proof.
  induction n as [|n IH]; intros ks p k H; simpl in H.
  - destruct (find_path X _ ks) eqn:E; [|discriminate].
    inversion H; subst. apply find_path_some in E. tauto.
  - destruct (find_path X _ ks) eqn:E.
    + inversion H; subst. apply find_path_some in E. tauto.
    + eapply IH; eauto.
Qed.

Lemma find_id_in : forall id (ks : list keyrec) k, find_id X id ks = Some k -> In k ks.
Proof. intros id ks k H. unfold find_id in H. apply find_some in H. tauto. Qed.

(* ------------------------------------------------------------------ the invariant *)
(* every stored key is the derivation of the main key along its stored path, and no two rows share a path *)
Definition Inv (root : X) (ks : list keyrec) : Prop :=
  (forall k, In k ks -> dpath root (k_path k) = Some (k_x k)) /\ NoDup (map k_path ks).

Lemma from_key_inv : forall root ks id parent e x cl,
  Inv root ks -> In parent ks -> derive (k_x parent) e = Some x ->
  Inv root (fst (from_key X ks id parent e x cl)) /\
  In (snd (from_key X ks id parent e x cl)) (fst (from_key X ks id parent e x cl)) /\
  (forall k, In k ks -> In k (fst (from_key X ks id parent e x cl))).
Proof.
  intros root ks id parent e x cl [Hm Hn] Hp Hd. unfold from_key.
  destruct (find_path X (k_path parent ++ [e]) ks) as [k|] eqn:E; simpl.
  - apply find_path_some in E. repeat split; auto; tauto.
  - apply find_path_none in E. repeat split.
    + intros k Hk. apply in_app_or in Hk. destruct Hk as [Hk|[Hk|[]]]; [auto|]. subst k. simpl.
      rewrite dpath_snoc, (Hm _ Hp). exact Hd.
    + rewrite map_app. simpl. apply NoDup_snoc; assumption.
    + apply in_or_app. right. left. reflexivity.
    + intros k Hk. apply in_or_app. left. exact Hk.
Qed.

Lemma create_chain_inv : forall root levels ks top cl ks' r,
  Inv root ks -> In top ks -> create_chain X derive ks top levels cl = (ks', r) ->
  Inv root ks' /\ (forall k, In k ks -> In k ks') /\ (forall k, r = Some k -> In k ks').
Proof.
  induction levels as [|e rest IH]; intros ks top cl ks' r HI Ht H; simpl in H.
  - inversion H; subst. split; [exact HI|]. split; [auto|]. intros k E. inversion E; subst. exact Ht.
  - destruct (derive (k_x top) e) as [x|] eqn:D.
    + destruct (from_key_inv root ks (next_id X ks) top e x cl HI Ht D) as [HI' [Hin' Hsub]].
      destruct (IH _ _ _ _ _ HI' Hin' H) as [A [B C]].
      split; [exact A|]. split; [auto|exact C].
    + inversion H; subst. split; [exact HI|]. split; [auto|]. intros k E. discriminate.
Qed.

Lemma create_bulk_inv : forall root count ks parent hard idx id cl ks' r,
  Inv root ks -> In parent ks -> create_bulk X derive ks parent hard idx id count cl = (ks', r) ->
  Inv root ks' /\ (forall k, In k ks -> In k ks').
Proof.
  induction count as [|c IH]; intros ks parent hard idx id cl ks' r HI Hp H; simpl in H.
  - inversion H; subst. auto.
  - destruct (derive (k_x parent) (idx, hard)) as [x|] eqn:D.
    + destruct (from_key_inv root ks id parent (idx, hard) x cl HI Hp D) as [HI' [Hin' Hsub]].
      destruct (create_bulk X derive (fst (from_key X ks id parent (idx, hard) x cl)) parent hard (idx + 1) (id + 1) c cl)
        as [ks2 r2] eqn:B.
      destruct (IH _ _ _ _ _ _ _ _ HI' (Hsub _ Hp) B) as [A S].
      destruct r2; inversion H; subst; auto.
    + inversion H; subst. auto.
Qed.

(* ------------------------------------------------------------------ what keys_for_path can do to the book *)
Ltac des :=
  match goal with
  | |- context [match ?x with _ => _ end] => destruct x eqn:?
  end.

Lemma kfp_cases : forall w upath full lo acct ai chg wt net n,
  let w' := fst (lib_keys_for_path X derive w upath full lo acct ai chg wt net n) in
  ws_cfg w' = ws_cfg w /\
  (ws_keys w' = ws_keys w \/
   exists top lv cl ks1 r1,
     In top (ws_keys w) /\ create_chain X derive (ws_keys w) top lv cl = (ks1, r1) /\
     (ws_keys w' = ks1 \/
      exists parent hard idx id cnt ks2 r2,
        In parent ks1 /\ create_bulk X derive ks1 parent hard idx id cnt cl = (ks2, r2) /\ ws_keys w' = ks2 /\
        id = next_id X ks1 + 1)).
Proof.
  intros w upath full lo acct ai chg wt net n. cbv zeta. unfold lib_keys_for_path.
  repeat des; simpl; split; auto;
    try (right;
         match goal with
         | Hc : closest _ _ _ _ = Some ?top, Hcc : create_chain _ _ _ ?top ?lv ?cl = (?ks1, ?r1) |- _ =>
             exists top, lv, cl, ks1, r1; split; [eapply closest_in; eauto|]; split; [exact Hcc|]
         end;
         first [ left; reflexivity
               | right;
                 match goal with
                 | Hf : find_id _ _ _ = Some ?parent, Hb : create_bulk _ _ _ ?parent ?hard ?idx ?id ?cnt _ = (?ks2, ?r2) |- _ =>
                     exists parent, hard, idx, id, cnt, ks2, r2; split; [eapply find_id_in; eauto|]; split;
                     [exact Hb | split; reflexivity]
                 end ]).
Qed.

Lemma kfp_inv : forall root w upath full lo acct ai chg wt net n,
  Inv root (ws_keys w) ->
  Inv root (ws_keys (fst (lib_keys_for_path X derive w upath full lo acct ai chg wt net n))) /\
  ws_cfg (fst (lib_keys_for_path X derive w upath full lo acct ai chg wt net n)) = ws_cfg w.
Proof.
  intros root w upath full lo acct ai chg wt net n HI.
  destruct (kfp_cases w upath full lo acct ai chg wt net n) as [Hc Hk]. split; [|exact Hc].
  destruct Hk as [E | [top [lv [cl [ks1 [r1 [Ht [Hcc Hk]]]]]]]].
  - rewrite E. exact HI.
  - destruct (create_chain_inv root lv _ top cl ks1 r1 HI Ht Hcc) as [HI1 _].
    destruct Hk as [E | [parent [hard [idx [id [cnt [ks2 [r2 [Hp [Hb [E _]]]]]]]]]]].
    + rewrite E. exact HI1.
    + rewrite E. eapply create_bulk_inv; eauto.
Qed.

(* ------------------------------------------------------------------ every operation preserves the invariant *)
Lemma new_keys_inv : forall root w a ch wt net n,
  Inv root (ws_keys w) ->
  Inv root (ws_keys (fst (lib_new_keys X derive w a ch wt net n))) /\
  ws_cfg (fst (lib_new_keys X derive w a ch wt net n)) = ws_cfg w.
Proof.
  intros root w a ch wt net n HI. unfold lib_new_keys.
  repeat des; simpl; auto. apply kfp_inv. exact HI.
Qed.

Lemma get_keys_inv : forall root w a ch wt net n,
  Inv root (ws_keys w) ->
  Inv root (ws_keys (fst (lib_get_keys X derive w a ch wt net n))) /\
  ws_cfg (fst (lib_get_keys X derive w a ch wt net n)) = ws_cfg w.
Proof.
  intros root w a ch wt net n HI. unfold lib_get_keys.
  des; simpl; auto.
  match goal with |- context [lib_new_keys X derive ?w ?a ?c ?t ?nn ?m] =>
    pose proof (new_keys_inv root w a c t nn m HI) as Hn;
    destruct (lib_new_keys X derive w a c t nn m) as [w1 r1] end.
  simpl in Hn. destruct r1; simpl; exact Hn.
Qed.

Opaque lib_keys_for_path.
Lemma new_account_inv : forall root w a wt net,
  Inv root (ws_keys w) ->
  Inv root (ws_keys (fst (lib_new_account X derive w a wt net))) /\
  ws_cfg (fst (lib_new_account X derive w a wt net)) = ws_cfg w.
Proof.
  intros root w a wt net HI. unfold lib_new_account.
  repeat match goal with
         | |- context [if ?c then _ else _] => destruct c; [split; [exact HI | reflexivity] | ]
         end.
  match goal with |- context [lib_keys_for_path X derive w ?p ?f ?lo ?ac ?ai ?cg ?t ?nn ?m] =>
    pose proof (kfp_inv root w p f lo ac ai cg t nn m HI) as H1;
    destruct (lib_keys_for_path X derive w p f lo ac ai cg t nn m) as [w1 r1] end.
  simpl in H1. destruct H1 as [HI1 C1]. destruct r1; simpl; auto.
  match goal with |- context [lib_keys_for_path X derive w1 ?p ?f ?lo ?ac ?ai ?cg ?t ?nn ?m] =>
    pose proof (kfp_inv root w1 p f lo ac ai cg t nn m HI1) as H2;
    destruct (lib_keys_for_path X derive w1 p f lo ac ai cg t nn m) as [w2 r2] end.
  simpl in H2. destruct H2 as [HI2 C2]. destruct r2; simpl; [|split; [auto|congruence]].
  match goal with |- context [lib_keys_for_path X derive w2 ?p ?f ?lo ?ac ?ai ?cg ?t ?nn ?m] =>
    pose proof (kfp_inv root w2 p f lo ac ai cg t nn m HI2) as H3;
    destruct (lib_keys_for_path X derive w2 p f lo ac ai cg t nn m) as [w3 r3] end.
  simpl in H3. destruct H3 as [HI3 C3]. destruct r3; simpl; split; auto; congruence.
Qed.

Transparent lib_keys_for_path.

Lemma set_used_path : forall id (k : keyrec), k_path (set_used X id k) = k_path k /\ k_x (set_used X id k) = k_x k.
Proof. intros id k. unfold set_used. destruct (k_id k =? id); auto. Qed.

Lemma mark_used_inv : forall root w j,
  Inv root (ws_keys w) ->
  Inv root (ws_keys (fst (lib_mark_used X w j))) /\ ws_cfg (fst (lib_mark_used X w j)) = ws_cfg w.
Proof.
  intros root w j [Hm Hn]. unfold lib_mark_used.
  destruct (nth_error _ _) as [k|]; simpl; [|split; [split|]; auto].
  split; [|reflexivity]. split.
  - intros k' Hk'. apply in_map_iff in Hk'. destruct Hk' as [k0 [E Hk0]]. subst k'.
    destruct (set_used_path (k_id k) k0) as [P Q]. rewrite P, Q. auto.
  - rewrite map_map.
    replace (map (fun x => k_path (set_used X (k_id k) x)) (ws_keys w)) with (map k_path (ws_keys w)); [exact Hn|].
    apply map_ext. intros a. symmetry. apply set_used_path.
Qed.

Lemma scan_steps_inv : forall root todo w acct net gap,
  Inv root (ws_keys w) ->
  Inv root (ws_keys (fst (scan_steps X derive w acct net gap todo))) /\
  ws_cfg (fst (scan_steps X derive w acct net gap todo)) = ws_cfg w.
Proof.
  induction todo as [|[chg wt] r IH]; intros w acct net gap HI; simpl; [auto|].
  pose proof (get_keys_inv root w (Some acct) chg (Some wt) (Some net) gap HI) as Hg.
  destruct (lib_get_keys X derive w (Some acct) chg (Some wt) (Some net) gap) as [w1 r1].
  simpl in Hg. destruct Hg as [HI1 C1]. destruct r1; simpl; [|auto].
  destruct (IH w1 acct net gap HI1) as [A B]. split; [exact A | congruence].
Qed.

Lemma step_inv : forall root w o,
  Inv root (ws_keys w) ->
  Inv root (ws_keys (fst (step X derive w o))) /\ ws_cfg (fst (step X derive w o)) = ws_cfg w.
Proof.
  intros root w o HI. destruct o; simpl.
  - apply new_keys_inv; exact HI.
  - apply get_keys_inv; exact HI.
  - apply new_account_inv; exact HI.
  - unfold lib_public_master. apply kfp_inv; exact HI.
  - apply kfp_inv; exact HI.
  - apply mark_used_inv; exact HI.
  - auto.
  - unfold lib_scan. apply scan_steps_inv; exact HI.
  - unfold lib_account. repeat des; simpl; auto.
Qed.

Lemma run_inv : forall root ops w,
  Inv root (ws_keys w) ->
  Inv root (ws_keys (run X derive w ops)) /\ ws_cfg (run X derive w ops) = ws_cfg w.
Proof.
  induction ops as [|o ops IH]; intros w HI; simpl; [auto|].
  destruct (step_inv root w o HI) as [HI' C].
  destruct (IH _ HI') as [A B]. split; [exact A | congruence].
Qed.

Lemma wallet_create_inv : forall net wt acct root rd rm ri w,
  lib_wallet_create X derive net wt acct root rd rm ri = Some w -> Inv root (ws_keys w).
Proof.
  intros net wt acct root rd rm ri w H. unfold lib_wallet_create in H.
  repeat match type of H with
         | (if ?c then _ else _) = _ => destruct c; try discriminate
         | match ?x with _ => _ end = _ => destruct x eqn:?; try discriminate
         end;
  match goal with
  | Hk : lib_keys_for_path X derive ?w0 ?p ?f ?lo ?ac ?ai ?cg ?t ?nn ?m = (_, _) |- _ =>
      assert (HI0 : Inv root (ws_keys w0))
        by (split; [intros k [E|[]]; subst k; reflexivity | simpl; constructor; [intros []|constructor]]);
      pose proof (kfp_inv root w0 p f lo ac ai cg t nn m HI0) as Hr; rewrite Hk in Hr; simpl in Hr;
      inversion H; subst; tauto
  end.
Qed.

(* ------------------------------------------------------------------ the statements used by Properties/C09.v *)

(* all states reachable from a created wallet *)
Theorem reachable_inv : forall net wt acct root rd rm ri w ops,
  lib_wallet_create X derive net wt acct root rd rm ri = Some w ->
  Inv root (ws_keys (run X derive w ops)).
Proof.
  intros. eapply run_inv. eapply wallet_create_inv; eauto.
Qed.

(* two rows at the same position are the same row *)
Lemma nodup_map_inj : forall (A B : Type) (f : A -> B) (l : list A) a b,
  NoDup (map f l) -> In a l -> In b l -> f a = f b -> a = b.
Proof.
  induction l as [|x l IH]; intros a b Hn Ha Hb E; [destruct Ha|].
  simpl in Hn. inversion Hn as [|? ? Hx Hl]; subst.
  destruct Ha as [Ha|Ha], Hb as [Hb|Hb]; subst; auto.
  - exfalso. apply Hx. rewrite E. apply in_map. exact Hb.
  - exfalso. apply Hx. rewrite <- E. apply in_map. exact Ha.
Qed.

(* Reopen changes nothing, at any point of a history *)
Lemma run_app : forall ops1 ops2 w, run X derive w (ops1 ++ ops2) = run X derive (run X derive w ops1) ops2.
Proof. intros. unfold run. apply fold_left_app. Qed.

Theorem reopen_is_identity : forall w ops1 ops2,
  run X derive w (ops1 ++ OReopen :: ops2) = run X derive w (ops1 ++ ops2).
Proof. intros. rewrite !run_app. reflexivity. Qed.

(* new_keys asks keys_for_path for exactly the next index of the chain *)
Theorem new_keys_uses_next_index : forall w a ch wt net n,
  let c := ws_cfg w in
  let net' := fst (acct_defaults X w net a) in
  let acct' := snd (acct_defaults X w net a) in
  let wt' := opt_default (w_wt c) wt in
  forall purpose,
  (negb (String.eqb net' (w_net c)) && negb (is_some (index_of "coin_type'" (w_tpl c))))%bool = false ->
  op_purpose c wt' = Some purpose ->
  lib_new_keys X derive w a ch wt net n =
  lib_keys_for_path X derive w [] false None (Some acct') (next_index X w purpose net' acct' wt' ch) ch
                    (Some wt') (Some net') n.
Proof.
  intros w a ch wt net n c net' acct' wt' purpose Hn Hp. unfold lib_new_keys.
  fold c net' acct' wt'. rewrite Hn, Hp. reflexivity.
Qed.

End BookProofs.

(* ------------------------------------------------------------------ the concrete wallet (BIP32 key material) *)
Lemma dpath_is_derive_with : forall p x, dpath xkey lib_subkey x p = derive_with lib_subkey x p.
Proof. induction p as [|e r IH]; intros x; simpl; [reflexivity|]. destruct (lib_subkey x e); auto. Qed.

Lemma wallet_keys_from_master : forall net wt acct seed m w ops k,
  spec_master seed = Some m ->
  wallet_from_seed net wt acct seed = Some w ->
  In k (ws_keys (wallet_run w ops)) ->
  derive_with lib_subkey m (k_path k) = Some (k_x k).
Proof.
  intros net wt acct seed m w ops k Hm Hw Hk. unfold wallet_from_seed in Hw. rewrite Hm in Hw.
  destruct (reachable_inv xkey lib_subkey _ _ _ _ _ _ _ _ ops Hw) as [A _].
  rewrite <- dpath_is_derive_with. apply A. exact Hk.
Qed.

Lemma wallet_no_repeats : forall net wt acct seed w ops,
  wallet_from_seed net wt acct seed = Some w ->
  NoDup (map k_path (ws_keys (wallet_run w ops))).
Proof.
  intros net wt acct seed w ops Hw. unfold wallet_from_seed in Hw.
  destruct (spec_master seed) as [m|]; [|discriminate].
  destruct (reachable_inv xkey lib_subkey _ _ _ _ _ _ _ _ ops Hw) as [_ B]. exact B.
Qed.

Lemma wallet_rows_unique : forall net wt acct seed w ops k1 k2,
  wallet_from_seed net wt acct seed = Some w ->
  In k1 (ws_keys (wallet_run w ops)) -> In k2 (ws_keys (wallet_run w ops)) ->
  k_path k1 = k_path k2 -> k1 = k2.
Proof.
  intros net wt acct seed w ops k1 k2 Hw H1 H2 E.
  eapply nodup_map_inj; eauto. eapply wallet_no_repeats; eauto.
Qed.

(* two wallets made from the same seed — whatever their histories — agree on the key at every position *)
Lemma restore_same_material : forall seed net1 wt1 acct1 w1 ops1 net2 wt2 acct2 w2 ops2 k1 k2,
  wallet_from_seed net1 wt1 acct1 seed = Some w1 ->
  wallet_from_seed net2 wt2 acct2 seed = Some w2 ->
  In k1 (ws_keys (wallet_run w1 ops1)) -> In k2 (ws_keys (wallet_run w2 ops2)) ->
  k_path k1 = k_path k2 -> k_x k1 = k_x k2.
Proof.
  intros seed net1 wt1 acct1 w1 ops1 net2 wt2 acct2 w2 ops2 k1 k2 H1 H2 I1 I2 E.
  destruct (spec_master seed) as [m|] eqn:Hm.
  - pose proof (wallet_keys_from_master _ _ _ _ _ _ _ _ Hm H1 I1) as A.
    pose proof (wallet_keys_from_master _ _ _ _ _ _ _ _ Hm H2 I2) as B.
    rewrite E in A. congruence.
  - unfold wallet_from_seed in H1. rewrite Hm in H1. discriminate.
Qed.

Lemma restore_same_address : forall seed net1 wt1 acct1 w1 ops1 net2 wt2 acct2 w2 ops2 k1 k2,
  wallet_from_seed net1 wt1 acct1 seed = Some w1 ->
  wallet_from_seed net2 wt2 acct2 seed = Some w2 ->
  In k1 (ws_keys (wallet_run w1 ops1)) -> In k2 (ws_keys (wallet_run w2 ops2)) ->
  k_path k1 = k_path k2 -> k_net k1 = k_net k2 -> k_wt k1 = k_wt k2 ->
  key_address k1 = key_address k2 /\ key_wif k1 = key_wif k2.
Proof.
  intros seed net1 wt1 acct1 w1 ops1 net2 wt2 acct2 w2 ops2 k1 k2 H1 H2 I1 I2 E En Ew.
  pose proof (restore_same_material _ _ _ _ _ _ _ _ _ _ _ _ _ H1 H2 I1 I2 E) as Ex.
  unfold key_address, key_wif. rewrite En, Ew, Ex. auto.
Qed.

(* the account-level wallet (watch-only or private): every key is the library derivation of the supplied
   account key along its stored relative path, and rows are unique *)
Lemma account_wallet_keys : forall net wt acct seed private m coin a w ops k,
  spec_master seed = Some m -> coin_of net = Some coin ->
  spec_derive m (account_path wt coin acct) = Some a ->
  wallet_from_account_key net wt acct seed private = Some w ->
  In k (ws_keys (wallet_run w ops)) ->
  derive_with lib_subkey (if private then a else spec_neuter a) (k_path k) = Some (k_x k) /\
  NoDup (map k_path (ws_keys (wallet_run w ops))).
Proof.
  intros net wt acct seed private m coin a w ops k Hm Hc Ha Hw Hk.
  unfold wallet_from_account_key in Hw. rewrite Hm, Hc, Ha in Hw.
  destruct (reachable_inv xkey lib_subkey _ _ _ _ _ _ _ _ ops Hw) as [A B].
  split; [|exact B]. rewrite <- dpath_is_derive_with. apply A. exact Hk.
Qed.
