(* Proofs/WalletKeysTables.v — C09: the tables regenerated from /repo agree with a frozen copy of what the
   protocol documents say, on everything the property depends on.

   Gen/GenNetworks.v and Gen/GenWalletCfg.v are rewritten from the working tree on every run; the model reads coin
   types, address prefixes, the Bech32 HRP and the extended-key version bytes from them.  The copy below is frozen
   here (Bitcoin Core chainparams: P2PKH / P2SH version bytes and HRPs; SLIP-44 coin types; BIP32 / SLIP-132
   extended key versions xpub/xprv, ypub/yprv, zpub/zprv, tpub/tprv, upub/uprv, vpub/vprv; Litecoin Ltub/Ltpv,
   Mtub/Mtpv; the library's own test network).  An edited row in networks.json or config.py breaks a proof here. *)
From Coq Require Import ZArith Bool String List.
From Coq.Strings Require Import Byte.
From Verif Require Import Lib.Bytes Gen.GenNetworks Gen.GenWalletCfg Model.WalletKeys.
Import ListNotations.
Open Scope Z_scope.

(* name, BIP44 coin type, P2PKH version, P2SH version, Bech32 HRP,
   [legacy; p2sh-segwit; segwit] -> (public, private) version bytes of single-signature extended keys *)
Definition net_row := (string * Z * bytes * bytes * bytes * list (option (bytes * bytes)))%type.

Definition spec_network_rows : list net_row := [
  ("bitcoinlib_test"%string, 9999999, [x90], [x95], [x62; x6c; x74],
   [Some ([x2f; xff; xac; xcc], [x2f; xff; xad; xdd]);
    Some ([x2f; xff; xae; xee], [x2f; xff; xb3; x00]);
    Some ([x2f; xff; xb6; x66], [x2f; xff; xb9; x00])]);
  ("bitcoin"%string, 0, [x00], [x05], [x62; x63],
   [Some ([x04; x88; xb2; x1e], [x04; x88; xad; xe4]);
    Some ([x04; x9d; x7c; xb2], [x04; x9d; x78; x78]);
    Some ([x04; xb2; x47; x46], [x04; xb2; x43; x0c])]);
  ("testnet"%string, 1, [x6f], [xc4], [x74; x62],
   [Some ([x04; x35; x87; xcf], [x04; x35; x83; x94]);
    Some ([x04; x4a; x52; x62], [x04; x4a; x4e; x28]);
    Some ([x04; x5f; x1c; xf6], [x04; x5f; x18; xbc])]);
  ("testnet4"%string, 1, [x6f], [xc4], [x74; x62],
   [Some ([x04; x35; x87; xcf], [x04; x35; x83; x94]);
    Some ([x04; x4a; x52; x62], [x04; x4a; x4e; x28]);
    Some ([x04; x5f; x1c; xf6], [x04; x5f; x18; xbc])]);
  ("signet"%string, 1, [x6f], [xc4], [x74; x62],
   [Some ([x04; x35; x87; xcf], [x04; x35; x83; x94]);
    Some ([x04; x4a; x52; x62], [x04; x4a; x4e; x28]);
    Some ([x04; x5f; x1c; xf6], [x04; x5f; x18; xbc])]);
  ("regtest"%string, 0, [x00], [x05], [x62; x63; x72; x74],
   [Some ([x04; x88; xb2; x1e], [x04; x88; xad; xe4]);
    Some ([x04; x9d; x7c; xb2], [x04; x9d; x78; x78]);
    Some ([x04; xb2; x47; x46], [x04; xb2; x43; x0c])]);
  ("litecoin"%string, 2, [x30], [x32], [x6c; x74; x63],
   [Some ([x01; x9d; xa4; x62], [x01; x9d; x9c; xfe]);
    Some ([x01; xb2; x6e; xf6], [x01; xb2; x67; x92]);
    Some ([x01; xb2; x6e; xf6], [x01; xb2; x67; x92])]);
  ("litecoin_legacy"%string, 2, [x30], [x05], [x6c; x74; x63],
   [Some ([x01; x9d; xa4; x62], [x01; x9d; x9c; xfe]);
    Some ([x01; xb2; x6e; xf6], [x01; xb2; x67; x92]);
    Some ([x01; xb2; x6e; xf6], [x01; xb2; x67; x92])]);
  ("litecoin_testnet"%string, 1, [x6f], [x3a], [x74; x6c; x74; x63],
   [Some ([x04; x36; xf6; xe1], [x04; x36; xef; x7d]);
    Some ([x04; x36; xf6; xe1], [x04; x36; xef; x7d]);
    Some ([x04; x36; xf6; xe1], [x04; x36; xef; x7d])]);
  ("dogecoin"%string, 3, [x1e], [x16], [x64; x6f; x67; x65],
   [Some ([x04; x88; xb2; x1e], [x04; x88; xad; xe4]);
    None;
    None]);
  ("dogecoin_testnet"%string, 1, [x71], [xc4], [x74; x64; x6f; x67; x65],
   [Some ([x04; x35; x87; xcf], [x04; x35; x83; x94]);
    None;
    None])
].

(* what the model reads from a regenerated network record *)
Definition wif_pair (nw : network) (wt : wtype) : option (bytes * bytes) :=
  match lib_wif_prefix nw wt false, lib_wif_prefix nw wt true with
  | Some pub, Some prv => Some (pub, prv)
  | _, _ => None
  end.

Definition network_view (nw : network) : net_row :=
  (nw_name nw, nw_bip44_cointype nw, nw_prefix_address nw, nw_prefix_address_p2sh nw, nw_prefix_bech32 nw,
   [wif_pair nw Legacy; wif_pair nw P2shSegwit; wif_pair nw Segwit]).

Lemma network_tables_match_frozen : map network_view all_networks = spec_network_rows.
Proof. vm_compute. reflexivity. Qed.

(* every lookup the wallet model makes in the regenerated table gives the frozen value *)
Fixpoint find_row (name : string) (l : list net_row) : option net_row :=
  match l with
  | [] => None
  | r :: rest => match r with (n, _, _, _, _, _) => if String.eqb n name then Some r else find_row name rest end
  end.

Lemma find_network_in_view : forall l name,
  option_map network_view (find_network_in l name) = find_row name (map network_view l).
Proof.
  induction l as [|n r IH]; intros name; simpl; [reflexivity|].
  destruct (String.eqb (nw_name n) name); [reflexivity | apply IH].
Qed.

Lemma find_network_is_frozen : forall name,
  option_map network_view (find_network name) = find_row name spec_network_rows.
Proof.
  intros name. unfold find_network. rewrite find_network_in_view, network_tables_match_frozen. reflexivity.
Qed.

Definition row_coin (r : net_row) : Z := match r with (_, c, _, _, _, _) => c end.

Lemma coin_of_is_frozen : forall name,
  coin_of name = option_map row_coin (find_row name spec_network_rows).
Proof.
  intros name. rewrite <- find_network_is_frozen. unfold coin_of.
  destruct (find_network name); reflexivity.
Qed.

(* the structure table: purposes, encodings and path templates of the six wallet structures, as BIP44/49/84/45/48 and
   the library's documentation give them *)
Definition spec_structures : list (wtype * bool * (list string * Z * string)) := [
  (Legacy, false, (["m"; "purpose'"; "coin_type'"; "account'"; "change"; "address_index"], 44, "base58"));
  (P2shSegwit, false, (["m"; "purpose'"; "coin_type'"; "account'"; "change"; "address_index"], 49, "base58"));
  (Segwit, false, (["m"; "purpose'"; "coin_type'"; "account'"; "change"; "address_index"], 84, "bech32"));
  (Legacy, true, (["m"; "purpose'"; "cosigner_index"; "change"; "address_index"], 45, "base58"));
  (P2shSegwit, true,
   (["m"; "purpose'"; "coin_type'"; "account'"; "script_type'"; "change"; "address_index"], 48, "base58"));
  (Segwit, true,
   (["m"; "purpose'"; "coin_type'"; "account'"; "script_type'"; "change"; "address_index"], 48, "bech32"))
]%string.

Lemma structure_table_matches_frozen :
  map (fun r => match r with (wt, ms, _) => lib_key_structure wt ms end) spec_structures
  = map (fun r => match r with (_, _, v) => Some v end) spec_structures.
Proof. vm_compute. reflexivity. Qed.

Lemma key_structure_is_frozen : forall wt ms,
  exists v, In (wt, ms, v) spec_structures /\ lib_key_structure wt ms = Some v.
Proof.
  intros wt ms. pose proof structure_table_matches_frozen as H.
  destruct wt, ms; vm_compute in H |- *;
    [ exists (["m"; "purpose'"; "cosigner_index"; "change"; "address_index"]%string, 45, "base58"%string)
    | exists (["m"; "purpose'"; "coin_type'"; "account'"; "change"; "address_index"]%string, 44, "base58"%string)
    | exists (["m"; "purpose'"; "coin_type'"; "account'"; "script_type'"; "change"; "address_index"]%string, 48,
              "base58"%string)
    | exists (["m"; "purpose'"; "coin_type'"; "account'"; "change"; "address_index"]%string, 49, "base58"%string)
    | exists (["m"; "purpose'"; "coin_type'"; "account'"; "script_type'"; "change"; "address_index"]%string, 48,
              "bech32"%string)
    | exists (["m"; "purpose'"; "coin_type'"; "account'"; "change"; "address_index"]%string, 84, "bech32"%string) ];
    (split; [tauto | reflexivity]).
Qed.

(* ------------------------------------------------------------------ the guards of keys_for_path / new_account *)
(* frozen: a wallet may serve another witness type (another purpose branch) only from a PRIVATE main key of DEPTH 0;
   new accounts (hardened children two levels below the purpose key) need the same *)
Definition spec_kfp_witness_guard (has_main is_private depth0 wt_differs multisig : bool) : bool :=
  (negb has_main || negb is_private || negb depth0) && wt_differs && negb multisig.
Definition spec_new_account_guard (has_main is_private depth0 : bool) : bool :=
  has_main && (negb depth0 || negb is_private).

Lemma kfp_witness_guard_frozen : forall a b c d e, kfp_witness_guard a b c d e = spec_kfp_witness_guard a b c d e.
Proof. intros [] [] [] [] []; reflexivity. Qed.

Lemma new_account_guard_frozen : forall a b c d e, new_account_guard a b c d e = spec_new_account_guard a b c.
Proof. intros [] [] [] [] []; reflexivity. Qed.
