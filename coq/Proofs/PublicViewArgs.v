(* Proofs/PublicViewArgs.v — C16, view entry points called with ARBITRARY arguments: HDKey.public_master,
   HDKey.public_master_multisig (the forwarding table interpreted), HDKey.wif_public / HDKey.wif, and
   Wallet.public_master.  Whatever the other arguments are, a call that does not ask for private output returns a
   key without private material, after any history (with argument-carrying operations) before and after it. *)
From Coq Require Import List String Bool ZArith.
From Verif Require Import Model.PublicView Proofs.PublicViewCore Proofs.PublicView Proofs.PublicViewWallet.
Import ListNotations.
Open Scope string_scope.

(* ---------------------------------------------------------------- environments *)
Lemma assoc_map_pairs {A} (f : string -> string -> A) (l : list (string * string)) n :
  assoc (map (fun pd => (fst pd, f (fst pd) (snd pd))) l) n =
  match assoc l n with Some d => Some (f n d) | None => None end.
Proof.
  induction l as [|[b d] r IH]; simpl; [reflexivity|].
  destruct (String.eqb b n) eqn:E; [apply String.eqb_eq in E; subst; reflexivity | exact IH].
Qed.

Lemma call_env_assoc tbl m a n :
  assoc (call_env tbl m a) n = match assoc (params_of tbl m) n with Some d => Some (bind a n d) | None => None end.
Proof. unfold call_env. apply assoc_map_pairs. Qed.

(* a call that does not ask for private output binds every asks-for-private parameter whose default is false to a
   value that is definitely false *)
Lemma bind_false a n d :
  no_private_request a = true -> In n asks_private_params -> a_truth (default_val d) = TF -> a_truth (bind a n d) = TF.
Proof.
  intros H Hin Hd. unfold bind. destruct (assoc a n) as [v|] eqn:E; [|exact Hd].
  unfold no_private_request in H. pose proof (forallb_In _ _ _ H Hin) as Hn. simpl in Hn. rewrite E in Hn.
  destruct (a_truth v); try discriminate. reflexivity.
Qed.

(* ---------------------------------------------------------------- HDKey.public_master *)
Lemma hd_child_sound k : Sound key_class (hd_child k).
Proof. unfold hd_child. destruct (kpriv k && truthy (kf k "secret")); apply init_sound. Qed.

Lemma hd_child_clean k : Clean key_class k -> Clean key_class (hd_child k).
Proof.
  intro HC. unfold hd_child.
  assert (E : truthy (kf k "secret") = false).
  { pose proof (HC "secret" eq_refl) as Hb. unfold blank in Hb. apply negb_true_iff in Hb. exact Hb. }
  rewrite E, andb_false_r. apply init_public_clean. reflexivity.
Qed.

Lemma hpm_one_cases env k p r :
  In r (hpm_one env k p) -> r = exec p_public (hd_child k) \/ r = (hd_child k, true).
Proof.
  unfold hpm_one. destruct (env_may_hold env (fst p)); [|intros []].
  destruct (hpm_body_sem (snd p)); intros [E|[]]; subst; auto.
Qed.

Lemma hpm_results_cases tbl env k r :
  In r (hpm_results tbl env k) -> r = exec p_public (hd_child k) \/ r = (hd_child k, true).
Proof. unfold hpm_results. intro H. apply in_flat_map in H. destruct H as [p [_ H]]. exact (hpm_one_cases env k p r H). Qed.

Lemma hpmm_results_cases ptbl fw mpt pmt env k r :
  In r (hpmm_results ptbl fw mpt pmt env k) -> r = exec p_public (hd_child k) \/ r = (hd_child k, true).
Proof.
  unfold hpmm_results. intro H. apply in_flat_map in H. destruct H as [p [_ H]]. unfold hpmm_one in H.
  destruct (env_may_hold env (fst p)); [|destruct H].
  destruct (strs_eqb (snd p) pmm_body).
  - exact (hpm_results_cases _ _ _ _ H).
  - destruct H as [E|[]]. right. symmetry. exact E.
Qed.

Lemma result_sound k r :
  r = exec p_public (hd_child k) \/ r = (hd_child k, true) -> Sound key_class (fst r).
Proof.
  intros [E|E]; subst r.
  - apply exec_sound; [apply public_flows | apply hd_child_sound].
  - apply hd_child_sound.
Qed.

Lemma result_clean k r :
  Clean key_class k -> r = exec p_public (hd_child k) \/ r = (hd_child k, true) -> Clean key_class (fst r).
Proof.
  intros HC [E|E]; subst r.
  - apply public_makes_clean.
  - apply hd_child_clean, HC.
Qed.

Lemma first_result_cases l k : In (first_result l k) l \/ first_result l k = (k, false).
Proof. destruct l as [|r q]; [right; reflexivity | left; left; reflexivity]. Qed.

(* the regenerated return paths of HDKey.public_master, evaluated for an environment in which as_private is false:
   exactly the stripped key *)
Lemma hpm_results_public env k :
  env_guard env "as_private" = TF ->
  hpm_results hdkey_public_master_paths env k = [exec p_public (hd_child k)].
Proof.
  intro H.
  change (hpm_results hdkey_public_master_paths env k)
    with (hpm_one env k ([("as_private", true)], hpm_body_private) ++
          hpm_one env k ([("as_private", false)], hpm_body_public) ++ [])%list.
  unfold hpm_one, env_may_hold, fst, snd, forallb. rewrite H.
  replace (hpm_body_sem hpm_body_public) with HpmPublic by (vm_compute; reflexivity).
  reflexivity.
Qed.

Lemma hpm_env_guard a :
  no_private_request a = true -> env_guard (call_env entry_params "HDKey.public_master" a) "as_private" = TF.
Proof.
  intro H. unfold env_guard. rewrite call_env_assoc.
  replace (assoc (params_of entry_params "HDKey.public_master") "as_private") with (Some "False") by (vm_compute; reflexivity).
  apply bind_false; [exact H | left; reflexivity | vm_compute; reflexivity].
Qed.

Lemma hd_public_master_model a k :
  no_private_request a = true -> hd_public_master a k = [exec p_public (hd_child k)].
Proof. intro H. unfold hd_public_master. apply hpm_results_public, hpm_env_guard, H. Qed.

(* ---------------------------------------------------------------- HDKey.public_master_multisig *)
Lemma forward_env_assoc ptbl fw caller ct callee env prs n :
  find_forward fw caller ct = Some prs ->
  assoc (forward_env ptbl fw caller ct callee env) n =
  match assoc (params_of ptbl callee) n with Some d => Some (fbind prs env n d) | None => None end.
Proof. intro H. unfold forward_env. rewrite H. apply assoc_map_pairs. Qed.

Lemma pmm_forward_guard a :
  no_private_request a = true ->
  env_guard (forward_env entry_params call_forwards "HDKey.public_master_multisig" "self.public_master" "HDKey.public_master"
                         (call_env entry_params "HDKey.public_master_multisig" a)) "as_private" = TF.
Proof.
  intro H. unfold env_guard.
  rewrite (forward_env_assoc _ _ _ _ _ _ (snd (snd fw_pmm))) by (vm_compute; reflexivity).
  replace (assoc (params_of entry_params "HDKey.public_master") "as_private") with (Some "False") by (vm_compute; reflexivity).
  unfold fbind.
  replace (assoc (snd (snd fw_pmm)) "as_private") with (Some "as_private") by (vm_compute; reflexivity).
  unfold eval_arg.
  replace (const_val "as_private") with (@None aval) by (vm_compute; reflexivity).
  rewrite call_env_assoc.
  replace (assoc (params_of entry_params "HDKey.public_master_multisig") "as_private") with (Some "False")
    by (vm_compute; reflexivity).
  apply bind_false; [exact H | left; reflexivity | vm_compute; reflexivity].
Qed.

Lemma hd_public_master_multisig_model a k :
  no_private_request a = true -> hd_public_master_multisig a k = [exec p_public (hd_child k)].
Proof.
  intro H. unfold hd_public_master_multisig.
  change (hpmm_results entry_params call_forwards hdkey_public_master_multisig_paths hdkey_public_master_paths
                       (call_env entry_params "HDKey.public_master_multisig" a) k)
    with (hpmm_one entry_params call_forwards hdkey_public_master_paths
                   (call_env entry_params "HDKey.public_master_multisig" a) k ([], pmm_body) ++ [])%list.
  rewrite app_nil_r. unfold hpmm_one, env_may_hold, fst, snd, forallb.
  replace (strs_eqb pmm_body pmm_body) with true by (vm_compute; reflexivity).
  apply hpm_results_public, pmm_forward_guard, H.
Qed.

(* ---------------------------------------------------------------- histories with argument-carrying operations *)
Lemma xstep_sound o k : Sound key_class k -> Sound key_class (fst (xstep o k)).
Proof.
  intro HS. destruct o as [o|a|a|a|a]; simpl; try exact HS.
  - apply step_sound, HS.
  - destruct (hd_can_derive k); [|exact HS].
    destruct (first_result_cases (hd_public_master a k) k) as [H|H]; [|rewrite H; exact HS].
    apply (result_sound k). exact (hpm_results_cases _ _ _ _ H).
  - destruct (hd_can_derive k); [|exact HS].
    destruct (first_result_cases (hd_public_master_multisig a k) k) as [H|H]; [|rewrite H; exact HS].
    apply (result_sound k). exact (hpmm_results_cases _ _ _ _ _ _ _ H).
Qed.

Lemma xstep_clean o k : Clean key_class k -> Clean key_class (fst (xstep o k)).
Proof.
  intro HC. destruct o as [o|a|a|a|a]; simpl; try exact HC.
  - apply step_clean, HC.
  - destruct (hd_can_derive k); [|exact HC].
    destruct (first_result_cases (hd_public_master a k) k) as [H|H]; [|rewrite H; exact HC].
    apply (result_clean k _ HC). exact (hpm_results_cases _ _ _ _ H).
  - destruct (hd_can_derive k); [|exact HC].
    destruct (first_result_cases (hd_public_master_multisig a k) k) as [H|H]; [|rewrite H; exact HC].
    apply (result_clean k _ HC). exact (hpmm_results_cases _ _ _ _ _ _ _ H).
Qed.

Lemma xrun_sound h : forall k, Sound key_class k -> Sound key_class (xrun h k).
Proof. induction h as [|o r IH]; intros k HS; simpl; [exact HS | apply IH, xstep_sound, HS]. Qed.
Lemma xrun_clean h : forall k, Clean key_class k -> Clean key_class (xrun h k).
Proof. induction h as [|o r IH]; intros k HS; simpl; [exact HS | apply IH, xstep_clean, HS]. Qed.

Lemma xrun_XOp h k : xrun (map XOp h) k = run h k.
Proof. revert k. induction h as [|o r IH]; intro k; simpl; [reflexivity | apply IH]. Qed.

(* a view operation that returns leaves a clean key, whatever state it is applied to *)
Lemma xview_makes_clean o k : xview o = true -> snd (xstep o k) = true -> Clean key_class (fst (xstep o k)).
Proof.
  destruct o as [o|a|a|a|a]; simpl; try discriminate.
  - destruct o; try discriminate; intros _.
    + intros _. apply public_makes_clean.
    + unfold step. destruct (khd k).
      * intros _. destruct (kpriv k && truthy (kf k "secret")); apply public_makes_clean.
      * discriminate.
  - intro H. destruct (hd_can_derive k).
    + intros _. rewrite (hd_public_master_model a k H). apply public_makes_clean.
    + discriminate.
  - intro H. destruct (hd_can_derive k).
    + intros _. rewrite (hd_public_master_multisig_model a k H). apply public_makes_clean.
    + discriminate.
Qed.

(* ---------------------------------------------------------------- the theorems *)
(* the view taken by ANY view operation (public(), public_master / public_master_multisig with any arguments that
   do not ask for private output) after any history, followed by any later history on the view *)
Definition xpublic_view (hd : bool) (kd : kkind) (h1 : list xop) (o : xop) (h2 : list xop) : kobj :=
  xrun h2 (fst (xstep o (xrun h1 (init hd kd)))).

Lemma xpublic_view_is_sound hd kd h1 o h2 : Sound key_class (xpublic_view hd kd h1 o h2).
Proof. unfold xpublic_view. apply xrun_sound, xstep_sound, xrun_sound, init_sound. Qed.

Lemma xpublic_view_is_clean hd kd h1 o h2 :
  xview o = true -> snd (xstep o (xrun h1 (init hd kd))) = true -> Clean key_class (xpublic_view hd kd h1 o h2).
Proof. intros Hv Hok. unfold xpublic_view. apply xrun_clean, xview_makes_clean; assumption. Qed.

Theorem xpublic_view_clean_thm : forall hd kd h1 o h2 x,
  xview o = true -> snd (xstep o (xrun h1 (init hd kd))) = true ->
  is_private key_class x = true -> blank (kf (xpublic_view hd kd h1 o h2) x) = true.
Proof. intros. apply xpublic_view_is_clean; assumption. Qed.

Theorem xpublic_view_no_secret_thm : forall hd kd h1 o h2 x,
  xview o = true -> snd (xstep o (xrun h1 (init hd kd))) = true ->
  kf (xpublic_view hd kd h1 o h2) x <> VSec.
Proof.
  intros hd kd h1 o h2 x Hv Hok.
  apply (sound_clean_tclean _ (xpublic_view_is_sound hd kd h1 o h2) (xpublic_view_is_clean hd kd h1 o h2 Hv Hok)).
  apply key_no_handle.
Qed.

Lemma stripped_child_no_secret k h2 x : Sound key_class k -> kf (xrun h2 (fst (exec p_public (hd_child k)))) x <> VSec.
Proof.
  intro HS.
  apply (sound_clean_tclean (xrun h2 (fst (exec p_public (hd_child k))))).
  - apply xrun_sound, exec_sound; [apply public_flows | apply hd_child_sound].
  - apply xrun_clean, public_makes_clean.
  - apply key_no_handle.
Qed.

(* HDKey.public_master(account_id, purpose, multisig, witness_type, as_private) for ALL argument values that do not
   ask for private output: every possible result carries no secret, and neither does anything a later history makes
   of it *)
Theorem public_master_args_clean_thm : forall hd kd h a r h2 x,
  no_private_request a = true ->
  In r (hd_public_master a (xrun h (init hd kd))) -> kf (xrun h2 (fst r)) x <> VSec.
Proof.
  intros hd kd h a r h2 x Ha Hin. rewrite (hd_public_master_model a _ Ha) in Hin. destruct Hin as [E|[]]. subst r.
  apply stripped_child_no_secret, xrun_sound, init_sound.
Qed.

(* the same for HDKey.public_master_multisig(account_id, purpose, witness_type, as_private): its arguments reach
   public_master through the regenerated forwarding table *)
Theorem public_master_multisig_clean_thm : forall hd kd h a r h2 x,
  no_private_request a = true ->
  In r (hd_public_master_multisig a (xrun h (init hd kd))) -> kf (xrun h2 (fst r)) x <> VSec.
Proof.
  intros hd kd h a r h2 x Ha Hin. rewrite (hd_public_master_multisig_model a _ Ha) in Hin. destruct Hin as [E|[]]. subst r.
  apply stripped_child_no_secret, xrun_sound, init_sound.
Qed.

(* ---------------------------------------------------------------- exports *)
Lemma hd_wif_env_public k env lab v :
  Sound key_class k -> env_guard env "is_private" = TF ->
  In (lab, v) (map (fun le => (fst le, eval (snd le) k)) (hd_wif_env_exprs k env)) -> v <> VSec.
Proof.
  intros HS Hg Hin. unfold hd_wif_env_exprs in Hin. rewrite Hg in Hin.
  apply (exports_public key_class k _ lab v HS) in Hin; [exact Hin | vm_compute; reflexivity].
Qed.

Lemma wif_public_forward_guard a :
  env_guard (forward_env entry_params call_forwards "HDKey.wif_public" "self.wif" "HDKey.wif"
                         (call_env entry_params "HDKey.wif_public" a)) "is_private" = TF.
Proof.
  unfold env_guard.
  rewrite (forward_env_assoc _ _ _ _ _ _ (snd (snd fw_wif_public))) by (vm_compute; reflexivity).
  vm_compute. reflexivity.
Qed.

(* HDKey.wif_public(prefix, witness_type, multisig) of ANY key (private ones included) for ALL argument values *)
Theorem wif_public_args_clean_thm : forall hd kd h a lab v,
  In (lab, v) (xexports (XWifPublic a) (xrun h (init hd kd))) -> v <> VSec.
Proof.
  intros hd kd h a lab v Hin. unfold xexports in Hin.
  destruct (khd (xrun h (init hd kd))); [|destruct Hin].
  change (wif_public_exprs entry_params call_forwards hdkey_wif_public_paths a (xrun h (init hd kd)))
    with (hd_wif_env_exprs (xrun h (init hd kd))
            (forward_env entry_params call_forwards "HDKey.wif_public" "self.wif" "HDKey.wif"
                         (call_env entry_params "HDKey.wif_public" a)) ++ [])%list in Hin.
  rewrite app_nil_r in Hin.
  exact (hd_wif_env_public _ _ lab v (xrun_sound h _ (init_sound hd kd)) (wif_public_forward_guard a) Hin).
Qed.

(* HDKey.wif(is_private, child_index, prefix, witness_type, multisig) of ANY key for all argument values that do
   not ask for private output (the default is_private=None included) *)
Theorem hd_wif_args_clean_thm : forall hd kd h a lab v,
  no_private_request a = true -> In (lab, v) (xexports (XHdWif a) (xrun h (init hd kd))) -> v <> VSec.
Proof.
  intros hd kd h a lab v Ha Hin. unfold xexports in Hin.
  destruct (khd (xrun h (init hd kd))); [|destruct Hin].
  apply (hd_wif_env_public _ _ lab v (xrun_sound h _ (init_sound hd kd))) in Hin; [exact Hin|].
  unfold env_guard. rewrite call_env_assoc.
  replace (assoc (params_of entry_params "HDKey.wif") "is_private") with (Some "None") by (vm_compute; reflexivity).
  apply bind_false; [exact Ha | right; right; left; reflexivity | vm_compute; reflexivity].
Qed.

(* on a view EVERY export is clean, the argument-carrying ones with ANY arguments (wif(is_private=True) too) *)
Theorem xpublic_view_exports_clean_thm : forall hd kd h1 o h2 o2 lab v,
  xview o = true -> snd (xstep o (xrun h1 (init hd kd))) = true ->
  In (lab, v) (xexports o2 (xpublic_view hd kd h1 o h2)) -> v <> VSec.
Proof.
  intros hd kd h1 o h2 o2 lab v Hv Hok Hin.
  pose proof (xpublic_view_is_sound hd kd h1 o h2) as HS.
  pose proof (xpublic_view_is_clean hd kd h1 o h2 Hv Hok) as HC.
  set (k := xpublic_view hd kd h1 o h2) in *.
  destruct o2 as [o2|a|a|a|a]; unfold xexports in Hin; try destruct Hin.
  - unfold exports in Hin.
    pose proof (step_sound o2 k HS) as HS2. pose proof (step_clean o2 k HC) as HC2.
    destruct (step o2 k) as [k' ok]. simpl in HS2, HC2. destruct ok; [|contradiction].
    exact (exports_closed key_class k' _ lab v (sound_clean_tclean k' HS2 HC2) (export_exprs_closed o2 k') Hin).
  - destruct (khd k); [|destruct Hin].
    apply (exports_closed key_class k _ lab v (sound_clean_tclean k HS HC)) in Hin; [exact Hin|].
    unfold wif_public_exprs, hdkey_wif_public_paths, flat_map, snd.
    destruct (strs_eqb wif_public_body wif_public_body); rewrite app_nil_r; unfold hd_wif_env_exprs, hd_wif_expr;
      repeat match goal with |- context [match ?t with _ => _ end] => destruct t end; vm_compute; reflexivity.
  - destruct (khd k); [|destruct Hin].
    apply (exports_closed key_class k _ lab v (sound_clean_tclean k HS HC)) in Hin; [exact Hin|].
    unfold hd_wif_env_exprs, hd_wif_expr;
      repeat match goal with |- context [match ?t with _ => _ end] => destruct t end; vm_compute; reflexivity.
Qed.

(* default exports of ANY key after any history with argument-carrying operations *)
Theorem xdefault_exports_clean_thm : forall hd kd h o lab v,
  default_export o = true -> In (lab, v) (exports o (xrun h (init hd kd))) -> v <> VSec.
Proof.
  intros hd kd h o lab v Hd Hin. unfold exports in Hin.
  pose proof (step_sound o _ (xrun_sound h _ (init_sound hd kd))) as HS.
  destruct (step o (xrun h (init hd kd))) as [k' ok]. simpl in HS.
  destruct ok; [|contradiction].
  exact (exports_public key_class k' _ lab v HS (default_exprs_public o k' Hd) Hin).
Qed.

(* ---------------------------------------------------------------- Wallet.public_master with arguments *)
Theorem wallet_public_master_args_clean_thm : forall cfg h a v h2 x,
  no_private_request a = true ->
  In v (wallet_public_master_args (wal_run h (wal_init cfg)) a) ->
  (is_private wk_class x = true -> blank (kf (wrun h2 v) x) = true) /\
  (is_handle wk_class x = false -> kf (wrun h2 v) x <> VSec).
Proof.
  intros cfg h a v h2 x Ha Hin. unfold wallet_public_master_args in Hin.
  assert (E : env_guard (call_env entry_params "Wallet.public_master" a) "as_private" = TF).
  { unfold env_guard. rewrite call_env_assoc.
    replace (assoc (params_of entry_params "Wallet.public_master") "as_private") with (Some "False") by (vm_compute; reflexivity).
    apply bind_false; [exact Ha | left; reflexivity | vm_compute; reflexivity]. }
  rewrite E in Hin. exact (wallet_public_view_clean_thm cfg h v h2 x Hin).
Qed.
