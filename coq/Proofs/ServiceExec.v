(* Proofs/ServiceExec.v — what Service._provider_execute (Model/Service.v: exec_loop) returns, for every provider
   list, every outcome assignment and every setting. *)
From Coq Require Import ZArith List Bool Lia Permutation Sorted.
From Verif Require Import Gen.GenService Model.CacheModel Model.Service.
Import ListNotations.
Open Scope Z_scope.

(* ------------------------------------------------------------------ vocabulary of the statements *)
Definition is_ok (o : outcome) : bool := match o with Ok _ => true | _ => false end.
Definition is_exc (o : outcome) : bool := match o with Raise _ | RaiseAttr => true | _ => false end.
Definition is_skip (o : outcome) : bool := match o with Skip => true | _ => false end.
(* outcomes that leave an entry in .errors *)
Definition counts (o : outcome) : Z := match o with Raise _ | Empty => 1 | _ => 0 end.

Fixpoint errcount (ps : list provider) : Z :=
  match ps with [] => 0 | (_, o) :: tl => counts o + errcount tl end.

(* the answers, in order *)
Fixpoint oks (ps : list provider) : results :=
  match ps with
  | [] => []
  | (n, Ok v) :: tl => (n, v) :: oks tl
  | _ :: tl => oks tl
  end.

(* what .errors records, in order *)
Fixpoint recorded (ps : list provider) : errors :=
  match ps with
  | [] => []
  | (n, Raise e) :: tl => (n, EExc e) :: recorded tl
  | (n, Empty) :: tl => (n, EEmpty) :: recorded tl
  | _ :: tl => recorded tl
  end.

Definition provider_answer (ps : list provider) (v : value) : Prop := exists n, In (n, Ok v) ps.

Definition no_ok (l : list provider) : Prop := forall m o, In (m, o) l -> is_ok o = false.

(* the error limit is tested — and reached — at provider outcome [o] which comes after the providers [pre];
   [e] errors were recorded before [pre] *)
Definition hit (maxe e : Z) (pre : list provider) (o : outcome) : Prop :=
  is_exc o = true /\ maxe <= e + errcount pre + counts o.

Definition no_hit (maxe e : Z) (l : list provider) : Prop :=
  forall pre n o post, l = pre ++ (n, o) :: post -> ~ hit maxe e pre o.

(* the three ways a call can end *)
Definition answers_first (maxe e : Z) (ps : list provider) (v : value) : Prop :=
  exists pre n post, ps = pre ++ (n, Ok v) :: post /\ no_ok pre /\ no_hit maxe e pre.
Definition limit_first (maxe e : Z) (ps : list provider) : Prop :=
  exists pre n o post, ps = pre ++ (n, o) :: post /\ no_ok pre /\ hit maxe e pre o.
Definition nobody_answers (maxe e : Z) (ps : list provider) : Prop := no_ok ps /\ no_hit maxe e ps.

(* ------------------------------------------------------------------ list plumbing *)
Lemma cons_decomp {A} (a x : A) tl pre post :
  a :: tl = pre ++ x :: post ->
  (pre = [] /\ a = x /\ tl = post) \/ (exists pre', pre = a :: pre' /\ tl = pre' ++ x :: post).
Proof.
  destruct pre as [|b pre']; simpl; intros H; inversion H; subst.
  - left; auto.
  - right; exists pre'; auto.
Qed.

Lemma no_ok_nil : no_ok [].
Proof. intros m o []. Qed.

Lemma no_ok_cons n o l : no_ok ((n, o) :: l) <-> is_ok o = false /\ no_ok l.
Proof.
  unfold no_ok; split.
  - intros H; split; [apply (H n); left; reflexivity | intros m o' Hin; apply (H m); right; exact Hin].
  - intros [H1 H2] m o' [E | Hin]; [inversion E; subst; exact H1 | apply (H2 m); exact Hin].
Qed.

Lemma hit_shift maxe e n o pre o' : hit maxe e ((n, o) :: pre) o' <-> hit maxe (e + counts o) pre o'.
Proof. unfold hit; simpl; split; intros [H1 H2]; split; auto; lia. Qed.

Lemma no_hit_nil maxe e : no_hit maxe e [].
Proof. intros pre n o post H; destruct pre; discriminate. Qed.

Lemma no_hit_cons maxe e n o l :
  no_hit maxe e ((n, o) :: l) <-> ~ hit maxe e [] o /\ no_hit maxe (e + counts o) l.
Proof.
  unfold no_hit; split.
  - intros H; split.
    + apply (H [] n o l); reflexivity.
    + intros pre n' o' post E Hh. apply (H ((n, o) :: pre) n' o' post).
      * simpl; rewrite E; reflexivity.
      * apply hit_shift; exact Hh.
  - intros [H1 H2] pre n' o' post E.
    apply cons_decomp in E. destruct E as [[Ep [Ea Et]] | [pre' [Ep Et]]].
    + subst; inversion Ea; subst; exact H1.
    + subst pre. intros Hh. apply hit_shift in Hh. exact (H2 pre' n' o' post Et Hh).
Qed.

(* unfolding of the three end states along the list *)
Lemma answers_first_nil maxe e v : ~ answers_first maxe e [] v.
Proof. intros [pre [n [post [E _]]]]; destruct pre; discriminate. Qed.

Lemma answers_first_cons maxe e n o tl v :
  answers_first maxe e ((n, o) :: tl) v <->
  o = Ok v \/ (is_ok o = false /\ ~ hit maxe e [] o /\ answers_first maxe (e + counts o) tl v).
Proof.
  split.
  - intros [pre [m [post [E [Hno Hnh]]]]].
    apply cons_decomp in E. destruct E as [[Ep [Ea Et]] | [pre' [Ep Et]]].
    + inversion Ea; subst; left; reflexivity.
    + subst pre. apply no_ok_cons in Hno. apply no_hit_cons in Hnh.
      right; repeat split; try tauto. exists pre', m, post; tauto.
  - intros [E | [H1 [H2 [pre [m [post [E [Hno Hnh]]]]]]]].
    + subst o. exists [], n, tl; repeat split; [apply no_ok_nil | apply no_hit_nil].
    + exists ((n, o) :: pre), m, post; repeat split.
      * simpl; rewrite E; reflexivity.
      * apply no_ok_cons; tauto.
      * apply no_hit_cons; tauto.
Qed.

Lemma limit_first_nil maxe e : ~ limit_first maxe e [].
Proof. intros [pre [n [o [post [E _]]]]]; destruct pre; discriminate. Qed.

Lemma limit_first_cons maxe e n o tl :
  limit_first maxe e ((n, o) :: tl) <-> hit maxe e [] o \/ (is_ok o = false /\ limit_first maxe (e + counts o) tl).
Proof.
  split.
  - intros [pre [m [o' [post [E [Hno Hh]]]]]].
    apply cons_decomp in E. destruct E as [[Ep [Ea Et]] | [pre' [Ep Et]]].
    + inversion Ea; subst; left; exact Hh.
    + subst pre. apply no_ok_cons in Hno. apply hit_shift in Hh.
      right; split; [tauto|]. exists pre', m, o', post; tauto.
  - intros [Hh | [H1 [pre [m [o' [post [E [Hno Hh]]]]]]]].
    + exists [], n, o, tl; repeat split; [apply no_ok_nil | apply Hh | apply Hh].
    + exists ((n, o) :: pre), m, o', post; repeat split.
      * simpl; rewrite E; reflexivity.
      * apply no_ok_cons; tauto.
      * apply (proj2 (hit_shift maxe e n o pre o') Hh).
      * apply (proj2 (hit_shift maxe e n o pre o') Hh).
Qed.

Lemma nobody_answers_nil maxe e : nobody_answers maxe e [].
Proof. split; [apply no_ok_nil | apply no_hit_nil]. Qed.

Lemma nobody_answers_cons maxe e n o tl :
  nobody_answers maxe e ((n, o) :: tl) <-> is_ok o = false /\ ~ hit maxe e [] o /\ nobody_answers maxe (e + counts o) tl.
Proof.
  unfold nobody_answers. rewrite no_ok_cons, no_hit_cons. tauto.
Qed.

Lemma hit_nil maxe e o : hit maxe e [] o <-> is_exc o = true /\ maxe <= e + counts o.
Proof. unfold hit; simpl; split; intros [H1 H2]; split; auto; lia. Qed.

(* ------------------------------------------------------------------ a results-free reference of the loop *)
Fixpoint scan (maxe e : Z) (ps : list provider) : exec_result :=
  match ps with
  | [] => ServiceErr
  | (_, o) :: tl =>
    match o with
    | Ok v => Value v
    | Skip => scan maxe e tl
    | Empty => scan maxe (e + 1) tl
    | Raise _ => if maxe <=? e + 1 then RetFalse else scan maxe (e + 1) tl
    | RaiseAttr => if maxe <=? e then RetFalse else scan maxe e tl
    end
  end.

(* close [~ hit maxe e [] o] / [hit maxe e [] o] goals once the arithmetic facts are in the context *)
Ltac leb_facts :=
  repeat match goal with
  | H : (_ <=? _) = true |- _ => apply Z.leb_le in H
  | H : (_ <=? _) = false |- _ => apply Z.leb_gt in H
  end.
Ltac not_hit := let X := fresh "X" in intros X; unfold hit in X; simpl in X; destruct X as [? ?]; leb_facts;
                                     try discriminate; try lia.
Ltac is_hit := unfold hit; simpl; leb_facts; split; [reflexivity | lia].

Lemma scan_value maxe : forall ps e v, scan maxe e ps = Value v <-> answers_first maxe e ps v.
Proof.
  induction ps as [|[n o] tl IH]; intros e v; simpl.
  - split; [discriminate | intros H; destruct (answers_first_nil _ _ _ H)].
  - rewrite answers_first_cons. destruct o as [w | x | | | ]; simpl.
    + split; [intros H; inversion H; left; reflexivity |].
      intros [H | [H _]]; [inversion H; reflexivity | discriminate].
    + destruct (maxe <=? e + 1) eqn:E.
      * split; [discriminate |]. intros [H | [_ [H _]]]; [discriminate |]. exfalso; apply H; is_hit.
      * rewrite IH. split; [intros H; right; split; [reflexivity | split; [not_hit | exact H]] |].
        intros [H | [_ [_ H]]]; [discriminate | exact H].
    + destruct (maxe <=? e) eqn:E.
      * split; [discriminate |]. intros [H | [_ [H _]]]; [discriminate |]. exfalso; apply H; is_hit.
      * rewrite IH. replace (e + 0) with e by lia.
        split; [intros H; right; split; [reflexivity | split; [not_hit | exact H]] |].
        intros [H | [_ [_ H]]]; [discriminate | exact H].
    + rewrite IH. split; [intros H; right; split; [reflexivity | split; [not_hit | exact H]] |].
      intros [H | [_ [_ H]]]; [discriminate | exact H].
    + rewrite IH. replace (e + 0) with e by lia.
      split; [intros H; right; split; [reflexivity | split; [not_hit | exact H]] |].
      intros [H | [_ [_ H]]]; [discriminate | exact H].
Qed.

Lemma scan_false maxe : forall ps e, scan maxe e ps = RetFalse <-> limit_first maxe e ps.
Proof.
  induction ps as [|[n o] tl IH]; intros e; simpl.
  - split; [discriminate | intros H; destruct (limit_first_nil _ _ H)].
  - rewrite limit_first_cons. destruct o as [w | x | | | ]; simpl.
    + split; [discriminate |]. intros [H | [H _]]; [exfalso; revert H; not_hit | discriminate].
    + destruct (maxe <=? e + 1) eqn:E.
      * split; [intros _; left; is_hit | reflexivity].
      * rewrite IH. split; [intros H; right; split; [reflexivity | exact H] |].
        intros [H | [_ H]]; [exfalso; revert H; not_hit | exact H].
    + destruct (maxe <=? e) eqn:E.
      * split; [intros _; left; is_hit | reflexivity].
      * rewrite IH. replace (e + 0) with e by lia. split; [intros H; right; split; [reflexivity | exact H] |].
        intros [H | [_ H]]; [exfalso; revert H; not_hit | exact H].
    + rewrite IH. split; [intros H; right; split; [reflexivity | exact H] |].
      intros [H | [_ H]]; [exfalso; revert H; not_hit | exact H].
    + rewrite IH. replace (e + 0) with e by lia. split; [intros H; right; split; [reflexivity | exact H] |].
      intros [H | [_ H]]; [exfalso; revert H; not_hit | exact H].
Qed.

Lemma scan_err maxe : forall ps e, scan maxe e ps = ServiceErr <-> nobody_answers maxe e ps.
Proof.
  induction ps as [|[n o] tl IH]; intros e; simpl.
  - split; [intros _; apply nobody_answers_nil | reflexivity].
  - rewrite nobody_answers_cons. destruct o as [w | x | | | ]; simpl.
    + split; [discriminate | intros [H _]; discriminate].
    + destruct (maxe <=? e + 1) eqn:E.
      * split; [discriminate |]. intros [_ [H _]]. exfalso; apply H; is_hit.
      * rewrite IH. split; [intros H; split; [reflexivity | split; [not_hit | exact H]] | tauto].
    + destruct (maxe <=? e) eqn:E.
      * split; [discriminate |]. intros [_ [H _]]. exfalso; apply H; is_hit.
      * rewrite IH. replace (e + 0) with e by lia.
        split; [intros H; split; [reflexivity | split; [not_hit | exact H]] | tauto].
    + rewrite IH. split; [intros H; split; [reflexivity | split; [not_hit | exact H]] | tauto].
    + rewrite IH. replace (e + 0) with e by lia.
      split; [intros H; split; [reflexivity | split; [not_hit | exact H]] | tauto].
Qed.

(* ------------------------------------------------------------------ the real loop against the reference *)
Lemma exec_loop_stop maxp maxe ps res errs :
  (maxp <=? Z.of_nat (length res)) = true -> exec_loop maxp maxe ps res errs = (finish res, res, errs).
Proof. intros H; destruct ps as [|[n o] tl]; simpl; [reflexivity | rewrite H; reflexivity]. Qed.

Lemma exec_loop_has_result maxp maxe : forall ps n v res errs,
  fst (fst (exec_loop maxp maxe ps ((n, v) :: res) errs)) = Value v.
Proof.
  induction ps as [|[m o] tl IH]; intros n v res errs; simpl; [reflexivity |].
  destruct (maxp <=? Z.pos (Pos.of_succ_nat (length res))); [reflexivity |].
  destruct o; simpl; try apply IH.
  - destruct (maxe <=? Z.of_nat (length (errs ++ [(m, EExc e)]))); [reflexivity | apply IH].
  - destruct (maxe <=? Z.of_nat (length errs)); [reflexivity | apply IH].
Qed.

Lemma exec_loop_scan maxp maxe : 0 < maxp -> forall ps errs,
  fst (fst (exec_loop maxp maxe ps [] errs)) = scan maxe (Z.of_nat (length errs)) ps.
Proof.
  intros Hp. induction ps as [|[n o] tl IH]; intros errs; simpl; [reflexivity |].
  destruct (maxp <=? 0) eqn:E; [apply Z.leb_le in E; lia |].
  destruct o as [w | x | | | ]; simpl.
  - apply exec_loop_has_result.
  - rewrite app_length; simpl. rewrite Nat2Z.inj_add; simpl.
    destruct (maxe <=? Z.of_nat (length errs) + 1); [reflexivity |].
    rewrite IH, app_length, Nat2Z.inj_add; reflexivity.
  - destruct (maxe <=? Z.of_nat (length errs)); [reflexivity | apply IH].
  - rewrite IH, app_length, Nat2Z.inj_add; reflexivity.
  - apply IH.
Qed.

Lemma exec_loop_no_providers_allowed maxp maxe ps errs :
  maxp <= 0 -> exec_loop maxp maxe ps [] errs = (ServiceErr, [], errs).
Proof.
  intros H. apply (exec_loop_stop maxp maxe ps [] errs). apply Z.leb_le; simpl; lia.
Qed.

(* ------------------------------------------------------------------ .results and .errors *)
Lemma exec_loop_bookkeeping maxp maxe : forall ps res errs r res' errs',
  exec_loop maxp maxe ps res errs = (r, res', errs') ->
  (exists k, res' = res ++ firstn k (oks ps)) /\ (exists j, errs' = errs ++ firstn j (recorded ps)) /\
  (r = finish res' \/ r = at_limit res').
Proof.
  induction ps as [|[n o] tl IH]; intros res errs r res' errs'; simpl.
  - intros H; inversion H; subst. repeat split.
    + exists 0%nat; simpl; rewrite app_nil_r; reflexivity.
    + exists 0%nat; simpl; rewrite app_nil_r; reflexivity.
    + left; reflexivity.
  - destruct (maxp <=? Z.of_nat (length res)).
    { intros H; inversion H; subst. repeat split.
      + exists 0%nat; simpl; rewrite app_nil_r; reflexivity.
      + exists 0%nat; simpl; rewrite app_nil_r; reflexivity.
      + left; reflexivity. }
    destruct o as [w | x | | | ].
    + intros H. apply IH in H. destruct H as [[k Hk] [[j Hj] Hr]]. repeat split; auto.
      * exists (S k). rewrite Hk, <- app_assoc. reflexivity.
      * exists j; exact Hj.
    + destruct (maxe <=? Z.of_nat (length (errs ++ [(n, EExc x)]))).
      * intros H; inversion H; subst. repeat split.
        -- exists 0%nat; simpl; rewrite app_nil_r; reflexivity.
        -- exists 1%nat; reflexivity.
        -- right; reflexivity.
      * intros H. apply IH in H. destruct H as [[k Hk] [[j Hj] Hr]]. repeat split; auto.
        -- exists k; exact Hk.
        -- exists (S j). rewrite Hj, <- app_assoc. reflexivity.
    + destruct (maxe <=? Z.of_nat (length errs)).
      * intros H; inversion H; subst. repeat split.
        -- exists 0%nat; simpl; rewrite app_nil_r; reflexivity.
        -- exists 0%nat; simpl; rewrite app_nil_r; reflexivity.
        -- right; reflexivity.
      * intros H. apply IH in H. exact H.
    + intros H. apply IH in H. destruct H as [[k Hk] [[j Hj] Hr]]. repeat split; auto.
      * exists k; exact Hk.
      * exists (S j). rewrite Hj, <- app_assoc. reflexivity.
    + intros H. apply IH in H. exact H.
Qed.

Lemma exec_loop_maxp maxp maxe : forall ps res errs r res' errs',
  exec_loop maxp maxe ps res errs = (r, res', errs') ->
  Z.of_nat (length res') <= Z.max maxp (Z.of_nat (length res)).
Proof.
  induction ps as [|[n o] tl IH]; intros res errs r res' errs'; simpl.
  - intros H; inversion H; subst; lia.
  - destruct (maxp <=? Z.of_nat (length res)) eqn:E.
    { intros H; inversion H; subst; lia. }
    apply Z.leb_gt in E.
    destruct o as [w | x | | | ].
    + intros H. apply IH in H. rewrite app_length in H; simpl in H. lia.
    + destruct (maxe <=? _); [intros H; inversion H; subst; lia | intros H; apply IH in H; exact H].
    + destruct (maxe <=? _); [intros H; inversion H; subst; lia | intros H; apply IH in H; exact H].
    + intros H; apply IH in H; exact H.
    + intros H; apply IH in H; exact H.
Qed.

Lemma oks_In : forall ps n v, In (n, v) (oks ps) -> In (n, Ok v) ps.
Proof.
  induction ps as [|[m o] tl IH]; simpl; intros n v H; [exact H |].
  destruct o; try (right; apply IH; exact H).
  destruct H as [E | H]; [inversion E; subst; left; reflexivity | right; apply IH; exact H].
Qed.

Lemma recorded_In : forall ps n t, In (n, t) (recorded ps) ->
  exists o, In (n, o) ps /\ match t with EExc e => o = Raise e | EEmpty => o = Empty end.
Proof.
  induction ps as [|[m o] tl IH]; simpl; intros n t H; [destruct H |].
  destruct o;
    try (destruct (IH _ _ H) as [o' [H1 H2]]; exists o'; split; [right; exact H1 | exact H2]).
  - destruct H as [E | H].
    + inversion E; subst. exists (Raise e); split; [left; reflexivity | reflexivity].
    + destruct (IH _ _ H) as [o' [H1 H2]]; exists o'; split; [right; exact H1 | exact H2].
  - destruct H as [E | H].
    + inversion E; subst. exists Empty; split; [left; reflexivity | reflexivity].
    + destruct (IH _ _ H) as [o' [H1 H2]]; exists o'; split; [right; exact H1 | exact H2].
Qed.

Lemma firstn_In {A} (l : list A) k x : In x (firstn k l) -> In x l.
Proof.
  revert k; induction l as [|a l IH]; intros [|k]; simpl; try tauto.
  intros [E | H]; [left; exact E | right; apply (IH k); exact H].
Qed.

(* ------------------------------------------------------------------ the theorems about lib_provider_execute *)
Theorem exec_value_iff st ps v :
  fst (fst (lib_provider_execute st ps)) = Value v <-> 0 < eff_maxp st /\ answers_first (st_maxe st) 0 ps v.
Proof.
  unfold lib_provider_execute. destruct (Z_lt_le_dec 0 (eff_maxp st)) as [Hp | Hp].
  - rewrite (exec_loop_scan _ _ Hp). simpl. rewrite scan_value. tauto.
  - rewrite exec_loop_no_providers_allowed by exact Hp. simpl. split; [discriminate | lia].
Qed.

Theorem exec_false_iff st ps :
  fst (fst (lib_provider_execute st ps)) = RetFalse <-> 0 < eff_maxp st /\ limit_first (st_maxe st) 0 ps.
Proof.
  unfold lib_provider_execute. destruct (Z_lt_le_dec 0 (eff_maxp st)) as [Hp | Hp].
  - rewrite (exec_loop_scan _ _ Hp). simpl. rewrite scan_false. tauto.
  - rewrite exec_loop_no_providers_allowed by exact Hp. simpl. split; [discriminate | lia].
Qed.

Theorem exec_err_iff st ps :
  fst (fst (lib_provider_execute st ps)) = ServiceErr <-> eff_maxp st <= 0 \/ nobody_answers (st_maxe st) 0 ps.
Proof.
  unfold lib_provider_execute. destruct (Z_lt_le_dec 0 (eff_maxp st)) as [Hp | Hp].
  - rewrite (exec_loop_scan _ _ Hp). simpl. rewrite scan_err. split; [tauto | intros [H | H]; [lia | exact H]].
  - rewrite exec_loop_no_providers_allowed by exact Hp. simpl. split; [left; exact Hp | reflexivity].
Qed.

Lemma answers_first_is_answer maxe e ps v : answers_first maxe e ps v -> provider_answer ps v.
Proof.
  intros [pre [n [post [E _]]]]. exists n. subst ps. apply in_or_app; right; left; reflexivity.
Qed.

Theorem exec_result_is_first_answer st ps v res errs :
  lib_provider_execute st ps = (Value v, res, errs) ->
  (exists pre n post, ps = pre ++ (n, Ok v) :: post /\ no_ok pre) /\
  (exists k, res = firstn k (oks ps)) /\
  (forall n w, In (n, w) res -> In (n, Ok w) ps) /\
  (exists n rest, res = (n, v) :: rest) /\
  Z.of_nat (length res) <= Z.max (eff_maxp st) 0.
Proof.
  intros H.
  assert (Hv : fst (fst (lib_provider_execute st ps)) = Value v) by (rewrite H; reflexivity).
  apply exec_value_iff in Hv. destruct Hv as [_ [pre [n [post [E [Hno _]]]]]].
  unfold lib_provider_execute in H.
  pose proof (exec_loop_bookkeeping _ _ _ _ _ _ _ _ H) as [[k Hk] [_ Hr]]. simpl in Hk.
  pose proof (exec_loop_maxp _ _ _ _ _ _ _ _ H) as Hm. simpl in Hm.
  repeat split.
  - exists pre, n, post; auto.
  - exists k; exact Hk.
  - intros m w Hin. apply oks_In. rewrite Hk in Hin. apply firstn_In in Hin. exact Hin.
  - destruct res as [|[m w] rest]; [destruct Hr as [Hr | Hr]; discriminate |].
    destruct Hr as [Hr | Hr]; simpl in Hr; inversion Hr; subst; exists m, rest; reflexivity.
  - exact Hm.
Qed.

Theorem exec_bookkeeping st ps r res errs :
  lib_provider_execute st ps = (r, res, errs) ->
  (forall n w, In (n, w) res -> In (n, Ok w) ps) /\
  (forall n t, In (n, t) errs -> exists o, In (n, o) ps /\ match t with EExc e => o = Raise e | EEmpty => o = Empty end).
Proof.
  unfold lib_provider_execute; intros H.
  pose proof (exec_loop_bookkeeping _ _ _ _ _ _ _ _ H) as [[k Hk] [[j Hj] _]]. simpl in Hk, Hj. split.
  - intros n w Hin. apply oks_In. rewrite Hk in Hin. apply firstn_In in Hin. exact Hin.
  - intros n t Hin. apply recorded_In. rewrite Hj in Hin. apply firstn_In in Hin. exact Hin.
Qed.

(* skipped providers are transparent *)
Lemma exec_loop_skip maxp maxe : forall ps res errs,
  exec_loop maxp maxe (filter (fun p => negb (is_skip (snd p))) ps) res errs = exec_loop maxp maxe ps res errs.
Proof.
  induction ps as [|[n o] tl IH]; intros res errs; [reflexivity |].
  destruct o as [w | x | | | ]; simpl.
  - destruct (maxp <=? Z.of_nat (length res)); [reflexivity | apply IH].
  - destruct (maxp <=? Z.of_nat (length res)); [reflexivity |].
    destruct (maxe <=? Z.of_nat (length (errs ++ [(n, EExc x)]))); [reflexivity | apply IH].
  - destruct (maxp <=? Z.of_nat (length res)); [reflexivity |].
    destruct (maxe <=? Z.of_nat (length errs)); [reflexivity | apply IH].
  - destruct (maxp <=? Z.of_nat (length res)); [reflexivity | apply IH].
  - destruct (maxp <=? Z.of_nat (length res)) eqn:E; [apply exec_loop_stop; exact E | apply IH].
Qed.

Theorem skips_transparent st ps :
  lib_provider_execute st (filter (fun p => negb (is_skip (snd p))) ps) = lib_provider_execute st ps.
Proof. apply exec_loop_skip. Qed.

(* ------------------------------------------------------------------ provider order *)
Definition key_ge (a b : pspec) : Prop := p_prio b < p_prio a \/ (p_prio a = p_prio b /\ p_tb b <= p_tb a).

Lemma key_lt_false a b : key_lt a b = false -> key_ge a b.
Proof.
  unfold key_lt, key_ge; intros H. apply orb_false_iff in H. destruct H as [H1 H2].
  apply Z.ltb_ge in H1. apply andb_false_iff in H2. destruct H2 as [H2 | H2].
  - apply Z.eqb_neq in H2. left; lia.
  - apply Z.ltb_ge in H2. destruct (Z.eq_dec (p_prio a) (p_prio b)); [right; lia | left; lia].
Qed.

Lemma key_lt_true a b : key_lt a b = true -> key_ge b a.
Proof.
  unfold key_lt, key_ge; intros H. apply orb_true_iff in H. destruct H as [H | H].
  - apply Z.ltb_lt in H; left; lia.
  - apply andb_true_iff in H. destruct H as [H1 H2]. apply Z.eqb_eq in H1. apply Z.ltb_lt in H2. right; lia.
Qed.

Lemma key_ge_trans a b c : key_ge a b -> key_ge b c -> key_ge a c.
Proof. unfold key_ge; intros; lia. Qed.

Lemma insert_desc_perm x : forall l, Permutation (insert_desc x l) (x :: l).
Proof.
  induction l as [|y tl IH]; simpl; [apply Permutation_refl |].
  destruct (key_lt x y); [| apply Permutation_refl].
  eapply Permutation_trans; [apply perm_skip; exact IH | apply perm_swap].
Qed.

Theorem lib_order_perm : forall l, Permutation (lib_order l) l.
Proof.
  induction l as [|x tl IH]; simpl; [apply Permutation_refl |].
  eapply Permutation_trans; [apply insert_desc_perm | apply perm_skip; exact IH].
Qed.

Lemma insert_desc_sorted x : forall l, StronglySorted key_ge l -> StronglySorted key_ge (insert_desc x l).
Proof.
  induction l as [|y tl IH]; simpl; intros Hs.
  - constructor; [constructor | constructor].
  - inversion Hs as [|? ? Hs' Hall]; subst. destruct (key_lt x y) eqn:E.
    + constructor; [apply IH; exact Hs' |].
      apply key_lt_true in E.
      rewrite Forall_forall in *. intros z Hz.
      apply (Permutation_in _ (insert_desc_perm x tl)) in Hz. destruct Hz as [Hz | Hz]; [subst; exact E | apply Hall; exact Hz].
    + apply key_lt_false in E. constructor; [exact Hs |].
      constructor; [exact E |]. rewrite Forall_forall in *. intros z Hz. eapply key_ge_trans; [exact E | apply Hall; exact Hz].
Qed.

Theorem lib_order_sorted : forall l, StronglySorted key_ge (lib_order l).
Proof.
  induction l as [|x tl IH]; simpl; [constructor | apply insert_desc_sorted; exact IH].
Qed.
