(* Proofs/KeyFormatSpecTable.v — C12 against the FROZEN network specification (Model/SpecNetworks.v, written from the
   reference clients' chain parameters and SLIP-0132; never regenerated).

   1. the prefixes_wif rows, the WIF version bytes, the names and the priorities of the table regenerated from /repo ARE
      the frozen ones (closed by the glue lemmas of Proofs/SpecNetworksGlue.v, each a vm_compute over both tables): an
      edited row of networks.json breaks these obligations, whatever the round trips do;
   2. facts of the FROZEN table that the round trips need — on the SLIP-0132 networks a version-bytes prefix stands for
      one witness type, and outside the legacy rows for one multisig flag — proved on the frozen table and carried over
      to the regenerated one through 1;
   3. hence the exact form of the extended-key round trip on those networks: witness type and multisig flag come back
      from the prefix alone. *)
From Coq Require Import ZArith List Bool Lia.
From Coq Require String.
From Coq.Strings Require Import Byte.
From Verif Require Import Lib.Bytes Gen.GenConsts Gen.GenNetworks Crypto.Sha256 Model.Base58 Model.KeyFormat
  Model.SpecNetworks Proofs.SpecNetworksGlue
  Proofs.KeyFormatBase Proofs.KeyFormatWif Proofs.KeyFormatXkey Proofs.KeyFormatFinal.
Import ListNotations.
Import Coq.Strings.String.StringSyntax.
Open Scope Z_scope.

(* ------------------------------------------------------------------ 1. regenerated = frozen *)
Definition c12_prefixes_wif_frozen :
  map (fun n => (nw_name n, map proj_wif_row (nw_prefixes_wif n))) all_networks =
  map (fun s => (sn_name s, sn_prefixes_wif s)) spec_networks := gen_prefixes_wif_are_spec.

Definition c12_wif_versions_frozen :
  map (fun n => (nw_name n, nw_prefix_wif n)) all_networks = map (fun s => (sn_name s, sn_prefix_wif s)) spec_networks :=
  gen_prefix_wif_is_spec.

(* network_by_value sorts by priority (stable): the order of the candidates of a shared prefix is part of the answer *)
Definition c12_priorities_frozen :
  map (fun n => (nw_name n, nw_priority n, nw_currency_code n)) all_networks =
  map (fun s => (sn_name s, sn_priority s, sn_currency_code s)) spec_networks := gen_priority_currency_are_spec.

Definition c12_names_frozen : map nw_name all_networks = map sn_name spec_networks := gen_names_are_spec.

(* the flattened tables *)
Definition spec_rows : list (str * spec_wif_row) :=
  flat_map (fun s => map (pair (sn_name s)) (sn_prefixes_wif s)) spec_networks.

Definition proj_match (m : hd_match) : str * spec_wif_row := (hm_network m, proj_wif_row (hm_row m)).

Definition pair_rows (p : str * list spec_wif_row) : list (str * spec_wif_row) := map (pair (fst p)) (snd p).

Lemma flat_map_map {A B C} (g : A -> B) (h : B -> list C) (l : list A) :
  flat_map h (map g l) = flat_map (fun x => h (g x)) l.
Proof. induction l as [|x l IH]; [reflexivity|]. cbn [map flat_map]. rewrite IH. reflexivity. Qed.

Lemma flat_rows_proj (l : list network) :
  map proj_match (flat_map (fun n => map (fun r => {| hm_network := nw_name n; hm_row := r |}) (nw_prefixes_wif n)) l) =
  flat_map pair_rows (map (fun n => (nw_name n, map proj_wif_row (nw_prefixes_wif n))) l).
Proof.
  induction l as [|n l IH]; [reflexivity|]. cbn [flat_map map]. rewrite map_app, IH. f_equal.
  unfold pair_rows. cbn [fst snd]. rewrite !map_map. reflexivity.
Qed.

Lemma all_rows_are_spec_rows : map proj_match all_rows = spec_rows.
Proof.
  unfold all_rows. rewrite flat_rows_proj, c12_prefixes_wif_frozen, flat_map_map. reflexivity.
Qed.

Lemma in_all_rows_spec m : In m all_rows -> In (proj_match m) spec_rows.
Proof. intros H. rewrite <- all_rows_are_spec_rows. apply in_map. exact H. Qed.

(* ------------------------------------------------------------------ 2. facts of the frozen table *)
(* the networks whose rows follow SLIP-0132 in full (x/y/Y/z/Z, t/u/U/v/V) and the library's own test network; the
   Litecoin rows reuse Mtub/Mtpv/ttub/ttpv for several witness types, the Dogecoin rows are legacy only *)
Definition slip132_network (n : str) : bool :=
  str_in n ["bitcoin"; "testnet"; "testnet4"; "signet"; "regtest"; "bitcoinlib_test"]%string.

Definition is_legacy (w : str) : bool := String.eqb w "legacy".

Definition spec_pair_exact (a b : str * spec_wif_row) : bool :=
  implb (bytes_eqb (sw_prefix (snd a)) (sw_prefix (snd b)) && slip132_network (fst a))
        (String.eqb (sw_witness_type (snd b)) (sw_witness_type (snd a)) &&
         (is_legacy (sw_witness_type (snd a)) || Bool.eqb (sw_multisig (snd b)) (sw_multisig (snd a)))).

(* SLIP-0132: a version-bytes prefix of a full-table network stands for ONE witness type in the whole table, and —
   the legacy rows aside, where xpub/tpub serve single-signature and multisig keys alike — for ONE multisig flag *)
Lemma spec_slip132_exact : forallb (fun a => forallb (spec_pair_exact a) spec_rows) spec_rows = true.
Proof. vm_compute. reflexivity. Qed.

(* every (network, private?, witness type, multisig?) combination has at most one row in a network of the frozen table,
   and the script-type column is the one main.script_type_default derives from the other two *)
Definition spec_row_key_eqb (a b : spec_wif_row) : bool :=
  Bool.eqb (sw_private a) (sw_private b) && String.eqb (sw_witness_type a) (sw_witness_type b) &&
  Bool.eqb (sw_multisig a) (sw_multisig b).

Lemma spec_rows_functional :
  forallb (fun s => forallb (fun a => forallb (fun b => implb (spec_row_key_eqb a b) (bytes_eqb (sw_prefix a) (sw_prefix b)))
                                               (sn_prefixes_wif s)) (sn_prefixes_wif s)) spec_networks = true.
Proof. vm_compute. reflexivity. Qed.

Lemma spec_script_types :
  forallb (fun a => match wif_script_type (sw_witness_type (snd a)) (sw_multisig (snd a)) with
                    | Some st => String.eqb st (sw_script_type (snd a))
                    | None => false
                    end) spec_rows = true.
Proof. vm_compute. reflexivity. Qed.

(* carried over to the regenerated table *)
Lemma slip132_prefix_exact m m' : In m all_rows -> In m' all_rows ->
  wr_prefix (hm_row m) = wr_prefix (hm_row m') -> slip132_network (hm_network m) = true ->
  wr_witness_type (hm_row m') = wr_witness_type (hm_row m) /\
  (is_legacy (wr_witness_type (hm_row m)) = false -> wr_multisig (hm_row m') = wr_multisig (hm_row m)).
Proof.
  intros H H' E S. pose proof spec_slip132_exact as T. rewrite forallb_forall in T.
  specialize (T _ (in_all_rows_spec m H)). rewrite forallb_forall in T. specialize (T _ (in_all_rows_spec m' H')).
  unfold spec_pair_exact, proj_match in T. cbn [fst snd proj_wif_row sw_prefix sw_witness_type sw_multisig] in T.
  rewrite E, bytes_eqb_refl, S in T. cbn [andb implb] in T.
  apply andb_true_iff in T. destruct T as [T1 T2]. apply String.eqb_eq in T1. split; [exact T1|].
  intros L. rewrite L in T2. cbn [orb] in T2. apply eqb_prop in T2. exact T2.
Qed.

(* ------------------------------------------------------------------ dedup of a constant list *)
Lemma dedup_str_const b : forall l, (forall x, In x l -> x = b) -> dedup String.eqb [b] l = [].
Proof.
  induction l as [|y r IH]; intros H; [reflexivity|]. cbn [dedup existsb].
  rewrite (H y (or_introl eq_refl)), String.eqb_refl. cbn [orb]. apply IH. intros x Hx. apply H. right. exact Hx.
Qed.

Lemma dedup_str_all b l : l <> [] -> (forall x, In x l -> x = b) -> dedup_str l = [b].
Proof.
  intros Hne H. destruct l as [|y r]; [contradiction|]. unfold dedup_str. cbn [dedup existsb].
  rewrite (H y (or_introl eq_refl)). f_equal. apply dedup_str_const. intros x Hx. apply H. right. exact Hx.
Qed.

(* ------------------------------------------------------------------ 3. what the prefix of a SLIP-0132 row stands for *)
Lemma slip132_prefix_witness n r : In n all_networks -> In r (nw_prefixes_wif n) -> slip132_network (nw_name n) = true ->
  prefix_witness (wr_prefix r) = [wr_witness_type r].
Proof.
  intros Hn Hr S. unfold prefix_witness. apply dedup_str_all.
  - pose proof (prefix_rows_in n r Hn Hr) as Hin. intros E. apply map_eq_nil in E. rewrite E in Hin. destruct Hin.
  - intros x Hx. apply in_map_iff in Hx. destruct Hx as [m' [Ex Hm']]. subst x.
    destruct (prefix_rows_sound _ _ Hm') as [Hall Hp].
    apply (slip132_prefix_exact {| hm_network := nw_name n; hm_row := r |} m'
             (row_in_all_rows n r Hn Hr) Hall); [cbn [hm_row]; symmetry; exact Hp | exact S].
Qed.

Lemma slip132_prefix_multisig n r : In n all_networks -> In r (nw_prefixes_wif n) -> slip132_network (nw_name n) = true ->
  is_legacy (wr_witness_type r) = false -> prefix_multisig (wr_prefix r) = [wr_multisig r].
Proof.
  intros Hn Hr S L. unfold prefix_multisig. apply dedup_bool_all.
  - pose proof (prefix_rows_in n r Hn Hr) as Hin. intros E. apply map_eq_nil in E. rewrite E in Hin. destruct Hin.
  - intros x Hx. apply in_map_iff in Hx. destruct Hx as [m' [Ex Hm']]. subst x.
    destruct (prefix_rows_sound _ _ Hm') as [Hall Hp].
    apply (slip132_prefix_exact {| hm_network := nw_name n; hm_row := r |} m'
             (row_in_all_rows n r Hn Hr) Hall); [cbn [hm_row]; symmetry; exact Hp | exact S | exact L].
Qed.

(* HDKey(text, network=<exporting network>) on a SLIP-0132 row outside the legacy rows: every field, the witness type and
   the multisig flag come back without any further hint *)
Lemma xkey_import_exact fold wc oc n r depth child fp chain k0 kr mshint c :
  In n all_networks -> In r (nw_prefixes_wif n) -> slip132_network (nw_name n) = true ->
  is_legacy (wr_witness_type r) = false ->
  0 <= depth < 256 -> 0 <= child < 2 ^ 32 -> length fp = 4%nat -> length chain = 32%nat -> row_key_ok oc r k0 kr ->
  lib_hdkey_import fold wc oc (KStr (xkey_text r depth fp child chain (k0 :: kr))) (Some (nw_name n)) None mshint c =
  Ok (xkey_obj (wr_private r) (row_key r k0 kr) c (nw_name n) chain depth fp child (wr_witness_type r) (wr_multisig r)).
Proof.
  intros Hn Hr S L Hd Hc Hfp Hch Hk.
  rewrite (xkey_import_closed fold wc oc n r depth child fp chain k0 kr (Some (nw_name n)) None mshint c
             Hn Hr Hd Hc Hfp Hch Hk).
  rewrite (check_network_hint n r Hn Hr). unfold import_witness, import_multisig.
  rewrite (slip132_prefix_witness n r Hn Hr S), (slip132_prefix_multisig n r Hn Hr S L). reflexivity.
Qed.

(* the legacy rows: the witness type still comes back; the multisig flag is the caller's *)
Lemma xkey_import_exact_legacy fold wc oc n r depth child fp chain k0 kr mshint c :
  In n all_networks -> In r (nw_prefixes_wif n) -> slip132_network (nw_name n) = true ->
  0 <= depth < 256 -> 0 <= child < 2 ^ 32 -> length fp = 4%nat -> length chain = 32%nat -> row_key_ok oc r k0 kr ->
  exists ms,
  lib_hdkey_import fold wc oc (KStr (xkey_text r depth fp child chain (k0 :: kr))) (Some (nw_name n)) None mshint c =
  Ok (xkey_obj (wr_private r) (row_key r k0 kr) c (nw_name n) chain depth fp child (wr_witness_type r) ms).
Proof.
  intros Hn Hr S Hd Hc Hfp Hch Hk.
  rewrite (xkey_import_closed fold wc oc n r depth child fp chain k0 kr (Some (nw_name n)) None mshint c
             Hn Hr Hd Hc Hfp Hch Hk).
  rewrite (check_network_hint n r Hn Hr). unfold import_witness.
  rewrite (slip132_prefix_witness n r Hn Hr S). eexists. reflexivity.
Qed.

(* HDKey.from_wif(text, network=<exporting network>) *)
Lemma xkey_from_wif_exact fold wc oc n r depth child fp chain k0 kr c :
  In n all_networks -> In r (nw_prefixes_wif n) -> slip132_network (nw_name n) = true ->
  is_legacy (wr_witness_type r) = false ->
  0 <= depth < 256 -> 0 <= child < 2 ^ 32 -> length fp = 4%nat -> length chain = 32%nat -> row_key_ok oc r k0 kr ->
  lib_hdkey_from_wif fold wc oc (xkey_text r depth fp child chain (k0 :: kr)) (Some (nw_name n)) None c =
  Ok (xkey_obj (wr_private r) (row_key r k0 kr) c (nw_name n) chain depth fp child (wr_witness_type r) (wr_multisig r)).
Proof.
  intros Hn Hr S L Hd Hc Hfp Hch Hk.
  rewrite (xkey_from_wif_closed fold wc oc n r depth child fp chain k0 kr (Some (nw_name n)) None c
             Hn Hr Hd Hc Hfp Hch Hk).
  pose proof (from_wif_hint_nonempty n r None Hn Hr (or_introl eq_refl)) as Hne.
  destruct (lib_wif_prefix_search (wr_prefix r) None None (Some (nw_name n))) as [|m l] eqn:E; [contradiction|].
  assert (Hm : In m (lib_wif_prefix_search (wr_prefix r) None None (Some (nw_name n)))) by (rewrite E; left; reflexivity).
  pose proof (search_sub _ _ _ _ _ Hm) as Hs. destruct (prefix_rows_sound _ _ Hs) as [Hall Hp].
  destruct (slip132_prefix_exact {| hm_network := nw_name n; hm_row := r |} m (row_in_all_rows n r Hn Hr) Hall
              (eq_sym Hp) S) as [W M].
  cbn [hm_row] in W, M. rewrite W, (M L). reflexivity.
Qed.

(* non-vacuity on the frozen values themselves: signet / segwit / multisig / private is Vprv 02575048 and stands for
   nothing else; Uprv 024285B5 is p2sh-segwit multisig *)
Lemma slip132_signet_rows :
  prefix_witness [x02; x57; x50; x48] = ["segwit"]%string /\ prefix_multisig [x02; x57; x50; x48] = [true] /\
  prefix_networks [x02; x57; x50; x48] = ["testnet"; "testnet4"; "signet"]%string /\
  prefix_witness [x02; x42; x85; xb5] = ["p2sh-segwit"]%string /\ prefix_multisig [x02; x42; x85; xb5] = [true] /\
  (match find_network "signet"%string with
   | Some n => lib_network_wif_prefix n true "segwit"%string true
   | None => Err ENetwork
   end) = Ok [x02; x57; x50; x48].
Proof. vm_compute. repeat split; reflexivity. Qed.
