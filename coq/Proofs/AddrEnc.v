(* Proofs/AddrEnc.v — Address.__init__ + encoders produce the standard encodings (C04). *)
From Coq Require Import ZArith List Bool Lia.
From Coq.Strings Require Import Byte.
From Verif Require Import Lib.Bytes Crypto.Sha256 Crypto.Ripemd160 Crypto.HashLemmas Crypto.Secp256k1
  Gen.GenConsts Gen.GenNetworks Model.Wire Model.Base58 Model.Bech32 Model.AddrEnc.
Import ListNotations.
Open Scope Z_scope.

(* ---------------------------------------------------------------- to_bytes *)

Lemma lib_to_bytes_id b : hexlike b = false -> lib_to_bytes b = b.
Proof.
  unfold hexlike, lib_to_bytes. destruct b as [|c r]; [reflexivity|].
  destruct (py_fromhex (c :: r)); [discriminate|reflexivity].
Qed.

Lemma py_fromhex_cons_eq c r :
  py_fromhex (c :: r) =
  if py_isspace c then py_fromhex r
  else match r with
       | d :: r' =>
           match hex_val c, hex_val d with
           | Some a, Some b => match py_fromhex r' with Some t => Some (zb (16 * a + b) :: t) | None => None end
           | _, _ => None
           end
       | [] => None
       end.
Proof. reflexivity. Qed.

(* a byte string that starts with a byte which is neither white space nor a hexadecimal digit is kept as it is;
   in particular every public key encoding (first byte 02, 03 or 04) *)
Lemma hexlike_first c r : py_isspace c = false -> hex_val c = None -> hexlike (c :: r) = false.
Proof.
  intros Hs Hh. unfold hexlike. rewrite py_fromhex_cons_eq, Hs.
  destruct r as [|d r']; [reflexivity|]. rewrite Hh. reflexivity.
Qed.

Definition key_prefix (c : byte) : bool := (bz c =? 2) || (bz c =? 3) || (bz c =? 4).

Lemma key_bytes_not_hexlike c r : key_prefix c = true -> hexlike (c :: r) = false.
Proof.
  intros H. apply hexlike_first; unfold key_prefix, py_isspace, hex_val in *;
    repeat (apply orb_true_iff in H; destruct H as [H|H]); apply Z.eqb_eq in H; rewrite H; reflexivity.
Qed.

(* ---------------------------------------------------------------- the regenerated network table *)

Definition prefixes_plain (nw : network) : bool :=
  bytes_eqb (lib_to_bytes (nw_prefix_address nw)) (nw_prefix_address nw)
  && bytes_eqb (lib_to_bytes (nw_prefix_address_p2sh nw)) (nw_prefix_address_p2sh nw).

Lemma table_prefixes_plain : forallb prefixes_plain all_networks = true.
Proof. vm_compute. reflexivity. Qed.

Lemma prefix_plain nw : In nw all_networks ->
  lib_to_bytes (nw_prefix_address nw) = nw_prefix_address nw /\
  lib_to_bytes (nw_prefix_address_p2sh nw) = nw_prefix_address_p2sh nw.
Proof.
  intros Hin. pose proof table_prefixes_plain as H. rewrite forallb_forall in H. specialize (H nw Hin).
  unfold prefixes_plain in H. apply andb_true_iff in H. destruct H as [H1 H2].
  apply bytes_eqb_true in H1. apply bytes_eqb_true in H2. split; assumption.
Qed.

(* ---------------------------------------------------------------- pieces *)

Lemma varstr_20 h : length h = 20%nat -> lib_varstr h = Some (x14 :: h).
Proof.
  intros Hl. unfold lib_varstr. rewrite Hl.
  destruct h as [|a [|b r]]; [discriminate|discriminate|].
  destruct a; reflexivity.
Qed.

Lemma varstr_32 h : length h = 32%nat -> lib_varstr h = Some (x20 :: h).
Proof.
  intros Hl. unfold lib_varstr. rewrite Hl.
  destruct h as [|a [|b r]]; [discriminate|discriminate|].
  destruct a; reflexivity.
Qed.

Lemma bech32m_const_not_1 : (1 =? cfg_BECH32M_CONST) = false.
Proof. reflexivity. Qed.

Lemma lib_bech32_v0 hrp h : (length h = 20 \/ length h = 32)%nat ->
  lib_bech32_enc h hrp 0 1 = spec_bech32_enc hrp 0 h.
Proof.
  intros Hl. unfold lib_bech32_enc, spec_bech32_enc.
  assert (E : negb ((length h =? 20)%nat || (length h =? 32)%nat || (length h =? 40)%nat) = false).
  { destruct Hl as [Hl|Hl]; rewrite Hl; reflexivity. }
  rewrite E. cbv beta iota.
  change (16 <? 0) with false. cbv beta iota.
  rewrite bech32m_const_not_1. cbv beta iota. change ((1 =? cfg_BECH32M_CONST) && (0 =? 0)) with false.
  change (0 <? 0) with false. cbv beta iota.
  destruct (convertbits (map bz h) 8 5 true); reflexivity.
Qed.

Lemma lib_bech32_v1 hrp h : (length h = 32)%nat ->
  lib_bech32_enc h hrp 1 1 = spec_bech32_enc hrp 1 h.
Proof.
  intros Hl. unfold lib_bech32_enc, spec_bech32_enc. rewrite Hl. cbv beta iota.
  change (negb ((32 =? 20)%nat || (32 =? 32)%nat || (32 =? 40)%nat)) with false. cbv beta iota.
  change (16 <? 1) with false. cbv beta iota.
  change ((1 =? cfg_BECH32M_CONST) && (1 =? 0)) with false. cbv beta iota.
  change (0 <? 1) with true. cbv beta iota.
  destruct (convertbits (map bz h) 8 5 true); reflexivity.
Qed.

Lemma b58_of_parts h pfx : lib_to_bytes pfx = pfx -> hexlike h = false ->
  lib_pkh_to_addr_base58 h pfx = spec_b58check (pfx ++ h).
Proof.
  intros Hp Hh. unfold lib_pkh_to_addr_base58, spec_b58check. rewrite Hp, (lib_to_bytes_id h Hh). reflexivity.
Qed.

(* the hash_bytes that pubkeyhash_to_addr receives *)
Definition lib_final_hash (nw : network) (st : option script_type) (enc : option encoding) (witver : Z)
           (data hashed : bytes) : bytes :=
  match lib_address_parts nw st enc witver data hashed with
  | Some (_, h, _, _) => h
  | None => []
  end.

Lemma parts_nonempty nw st enc wv c r :
  lib_address_parts nw st enc wv (c :: r) [] =
  let '(wt, wv') := lib_witness_type st enc wv in
  let e := lib_encoding st enc wt in
  let h := lib_hash_bytes st e (c :: r) [] in
  match e with
  | EncBase58 =>
      let st' := match st with Some s => s | None => StP2pkh end in
      let p2sh := st_in (Some st') [StP2sh; StP2shP2wpkh; StP2shP2wsh; StP2shMultisig] || wt_is wt WtP2shSegwit in
      let pfx := if p2sh then nw_prefix_address_p2sh nw else nw_prefix_address nw in
      if wt_is wt WtP2shSegwit then
        match lib_varstr h with
        | Some vs => Some (EncBase58, hash160 (x00 :: vs), pfx, wv')
        | None => None
        end
      else Some (EncBase58, h, pfx, wv')
  | EncBech32 => Some (EncBech32, h, nw_prefix_bech32 nw, wv')
  end.
Proof. reflexivity. Qed.

Lemma hash_bytes_data st e d : hexlike d = false -> d <> [] ->
  lib_hash_bytes st e d [] =
  if (match e with EncBech32 => st_in st [StP2sh; StP2shMultisig; StP2tr] | EncBase58 => false end)
     || st_in st [StP2wsh; StP2shP2wsh]
  then sha256 d else hash160 d.
Proof.
  intros Hd _. unfold lib_hash_bytes. change (lib_to_bytes []) with (@nil byte). cbv iota.
  rewrite (lib_to_bytes_id d Hd). reflexivity.
Qed.

(* ---------------------------------------------------------------- main theorem *)

(* For every network of the regenerated table, every script type / encoding that has a standard form
   (P2PKH, P2SH, P2SH-P2WPKH, P2SH-P2WSH in base58; P2WPKH, P2WSH in bech32) and every data string that is not itself
   a hexadecimal text (all public key encodings are not), the address computed by Address.__init__ is the standard
   one — provided the 20/32-byte hash that is finally encoded does not read as hexadecimal text
   (to_bytes would unhexlify it; see address_hash_hexlike_refuted).  P2TR from a key is not standard
   (address_p2tr_of_key_refuted); P2TR from an output key is (address_p2tr_of_output_key). *)
Theorem address_is_standard_pf : forall nw st e data addr,
  In nw all_networks ->
  data <> [] -> hexlike data = false ->
  hexlike (lib_final_hash nw (Some st) (Some e) 0 data []) = false ->
  st <> StP2tr ->
  spec_address nw st e data = Some addr ->
  lib_address nw (Some st) (Some e) 0 data [] = Some addr.
Proof.
  intros nw st e data addr Hin Hne Hd Hh Htr Hs.
  destruct (prefix_plain nw Hin) as [Hp1 Hp2].
  destruct data as [|c r]; [congruence|].
  unfold lib_final_hash in Hh. unfold lib_address.
  rewrite parts_nonempty in *.
  destruct st, e; try discriminate Hs; try congruence; cbn [spec_address] in Hs.
  - (* p2pkh base58 *)
    cbv beta iota zeta delta [lib_witness_type lib_encoding st_in existsb st_eqb enc_is wt_is orb] in *.
    rewrite hash_bytes_data in * by (assumption || discriminate). cbn [st_in existsb st_eqb orb] in *.
    rewrite b58_of_parts by assumption. unfold spec_p2pkh in Hs. exact Hs.
  - (* p2sh base58 *)
    cbv beta iota zeta delta [lib_witness_type lib_encoding st_in existsb st_eqb enc_is wt_is orb] in *.
    rewrite hash_bytes_data in * by (assumption || discriminate). cbn [st_in existsb st_eqb orb] in *.
    rewrite b58_of_parts by assumption. unfold spec_p2sh in Hs. exact Hs.
  - (* p2sh_p2wpkh base58 *)
    cbv beta iota zeta delta [lib_witness_type lib_encoding st_in existsb st_eqb enc_is wt_is orb] in *.
    rewrite hash_bytes_data in * by (assumption || discriminate). cbn [st_in existsb st_eqb orb] in *.
    rewrite varstr_20 in * by apply hash160_length.
    rewrite b58_of_parts by assumption. unfold spec_p2sh_p2wpkh, spec_p2sh, spec_redeem_p2wpkh in Hs. exact Hs.
  - (* p2sh_p2wsh base58 *)
    cbv beta iota zeta delta [lib_witness_type lib_encoding st_in existsb st_eqb enc_is wt_is orb] in *.
    rewrite hash_bytes_data in * by (assumption || discriminate). cbn [st_in existsb st_eqb orb] in *.
    rewrite varstr_32 in * by apply sha256_length.
    rewrite b58_of_parts by assumption. unfold spec_p2sh_p2wsh, spec_p2sh, spec_redeem_p2wsh in Hs. exact Hs.
  - (* p2wpkh bech32 *)
    cbv beta iota zeta delta [lib_witness_type lib_encoding st_in existsb st_eqb enc_is wt_is orb] in *.
    rewrite hash_bytes_data in * by (assumption || discriminate). cbn [st_in existsb st_eqb orb] in *.
    unfold lib_pkh_to_addr_bech32. rewrite (lib_to_bytes_id _ Hh).
    rewrite lib_bech32_v0 by (left; apply hash160_length). exact Hs.
  - (* p2wsh bech32 *)
    cbv beta iota zeta delta [lib_witness_type lib_encoding st_in existsb st_eqb enc_is wt_is orb] in *.
    rewrite hash_bytes_data in * by (assumption || discriminate). cbn [st_in existsb st_eqb orb] in *.
    unfold lib_pkh_to_addr_bech32. rewrite (lib_to_bytes_id _ Hh).
    rewrite lib_bech32_v0 by (right; apply sha256_length). exact Hs.
Qed.

(* the defaults of Address.__init__: no script type means p2pkh (base58) / p2wpkh (bech32) *)
Theorem address_default_script_type_pf : forall nw wv data hashed,
  lib_address nw None (Some EncBase58) wv data hashed = lib_address nw (Some StP2pkh) (Some EncBase58) wv data hashed /\
  lib_address nw None (Some EncBech32) wv data hashed = lib_address nw (Some StP2wpkh) (Some EncBech32) wv data hashed.
Proof.
  intros. unfold lib_address, lib_address_parts. destruct data, hashed; split; reflexivity.
Qed.

(* P2TR from a 32-byte output key (Address(hashed_data=..., script_type='p2tr', encoding='bech32')) is BIP341/BIP350 *)
Theorem address_p2tr_of_output_key_pf : forall nw q wv,
  length q = 32%nat -> hexlike q = false -> (wv = 0 \/ wv = 1) ->
  lib_address nw (Some StP2tr) (Some EncBech32) wv [] q = spec_p2tr nw q.
Proof.
  intros nw q wv Hl Hh Hw.
  assert (Hq : lib_to_bytes q = q) by (apply lib_to_bytes_id; exact Hh).
  destruct q as [|c r]; [discriminate|].
  unfold lib_address, lib_address_parts.
  assert (Hwt : lib_witness_type (Some StP2tr) (Some EncBech32) wv = (WtTaproot, 1)).
  { destruct Hw; subst; reflexivity. }
  rewrite Hwt. cbv beta iota delta [lib_encoding].
  unfold lib_hash_bytes. rewrite Hq. unfold lib_pkh_to_addr_bech32. rewrite Hq.
  rewrite lib_bech32_v1 by exact Hl. reflexivity.
Qed.
