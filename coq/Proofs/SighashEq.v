(* Proofs/SighashEq.v — C01: lib preimage = consensus preimage (BIP143 all hash types; legacy ALL-like), digests. *)
From Coq Require Import ZArith List Bool Lia Arith.
From Coq.Strings Require Import Byte.
From Verif Require Import Lib.Bytes Model.Wire Proofs.CompactSize Model.TxCodec Gen.GenConsts
  Model.Sighash Proofs.Sighash.
Import ListNotations.
Open Scope Z_scope.

Section WithHashes.
Context (H : bytes -> bytes) (H160 : bytes -> bytes).

Lemma wf_sin_keys x : wf_sin x -> wf_keys (si_keys x) (si_m x).
Proof. intros (_ & _ & _ & _ & Hne & Hk & Hn & Hm). repeat split; try assumption; lia. Qed.

Lemma lib_outpoint_ok x : wf_sin x -> lib_outpoint (si_in x) = Some (ser_outpoint (si_in x)).
Proof.
  intros (_ & Hv & _). unfold lib_outpoint, ser_outpoint. rewrite sh_le4 by exact Hv. reflexivity.
Qed.

Lemma lib_ser_out_ok o : wf_sout o -> lib_ser_out o = Some (ser_out o).
Proof.
  intros (Hv & Hl & Hz). unfold lib_ser_out, ser_out.
  rewrite sh_le8 by exact Hv. cbn [sh_bind]. rewrite varstr_spec by assumption. reflexivity.
Qed.

Lemma lib_flags ht :
  lib_acp ht = ht_acp ht /\ lib_not_single_none ht = negb (ht_single ht) && negb (ht_none ht) /\
  (lib_base ht =? cfg_SIGHASH_SINGLE) = ht_single ht.
Proof. repeat split; reflexivity. Qed.

(* the script code of a well-formed input is short: op + <= 16 pushes of <= 66 bytes + 2, or 25 / 67 bytes.
   Only "< 2^64 and not the single zero byte" is needed. *)
Lemma concat_push_len keys :
  Forall wf_key keys -> (length (concat (map core_push keys)) <= 66 * length keys)%nat.
Proof.
  induction 1 as [|k r Hk _ IH]; [cbn; lia|].
  cbn [map concat length]. rewrite app_length.
  destruct (wf_key_len k Hk) as [Hl _]. rewrite core_push_small by exact Hl. cbn [length].
  destruct Hk as [Hk|Hk]; rewrite Hk; lia.
Qed.

Lemma multisig_len m keys :
  Forall wf_key keys -> (length (spec_multisig m keys) <= 3 + 66 * length keys)%nat.
Proof.
  intros Hk. unfold spec_multisig. cbn [length]. rewrite app_length. cbn [length].
  pose proof (concat_push_len keys Hk). lia.
Qed.

Hypothesis H160_len : forall b, length (H160 b) = 20%nat.

Lemma si_code_small x : wf_sin x -> (2 <= length (si_code H160 x) <= 1100)%nat.
Proof.
  intros Hw. pose proof (wf_sin_keys x Hw) as (Hne & Hk & Hn & Hm).
  unfold si_code.
  assert (Hms : (2 <= length (spec_multisig (si_m x) (si_keys x)) <= 1100)%nat).
  { split.
    - destruct (spec_multisig_shape (si_m x) (si_keys x)) as (a & b & r & E). rewrite E. cbn [length]. lia.
    - pose proof (multisig_len (si_m x) (si_keys x) Hk). lia. }
  assert (Hph : forall k, length ([x76; xa9; x14] ++ H160 k ++ [x88; xac]) = 25%nat).
  { intros k. rewrite !app_length, H160_len. reflexivity. }
  destruct (si_kind x); unfold spec_script_code, spec_p2pkh_script; try exact Hms; try (rewrite Hph; lia).
  (* p2pk *)
  destruct (si_keys x) as [|k0 kr]; [congruence|]. cbn [key0].
  assert (Hk0 : wf_key k0) by (inversion Hk; assumption).
  destruct (wf_key_len k0 Hk0) as [Hl _]. rewrite core_push_small by exact Hl.
  rewrite app_length. cbn [length]. destruct Hk0 as [E|E]; rewrite E; lia.
Qed.

Lemma si_code_varstr x : wf_sin x -> lib_varstr (si_code H160 x) = Some (ser_varbytes (si_code H160 x)).
Proof.
  intros Hw. pose proof (si_code_small x Hw) as [Hlo Hhi].
  apply varstr_spec.
  - assert (Z.of_nat 1100 < 2 ^ 64) by (vm_compute; reflexivity). lia.
  - intros E. rewrite E in Hlo. cbn [length] in Hlo. lia.
Qed.

(* ---------- BIP143 ---------- *)

Lemma hash_outputs_ok t i ht :
  Forall wf_sout (st_outs t) ->
  lib_hash_outputs H true t i ht = Some (spec_hash_outputs H t i ht).
Proof.
  intros Ho. unfold lib_hash_outputs, spec_hash_outputs.
  destruct (lib_flags ht) as (_ & -> & ->).
  destruct (negb (ht_single ht) && negb (ht_none ht)).
  - rewrite (sh_oconcat_some lib_ser_out ser_out).
    + reflexivity.
    + intros o Hin. apply lib_ser_out_ok. rewrite Forall_forall in Ho. apply Ho. exact Hin.
  - destruct (ht_single ht); [|reflexivity]. cbn [andb].
    destruct (i <? length (st_outs t))%nat eqn:E.
    + apply Nat.ltb_lt in E. destruct (nth_error (st_outs t) i) as [o|] eqn:En.
      * rewrite lib_ser_out_ok by (eapply Forall_nth_error; eassumption). reflexivity.
      * apply nth_error_None in En. lia.
    + apply Nat.ltb_ge in E. apply nth_error_None in E. rewrite E. reflexivity.
Qed.

Theorem bip143_preimage_ok t i ht x :
  wf_stx t -> st_segwit t = true -> nth_error (st_ins t) i = Some x -> 0 <= ht < 2 ^ 32 ->
  lib_bip143_preimage H H160 t i ht = spec_bip143_preimage H H160 t i ht.
Proof.
  intros (Hver & Hlock & _ & _ & Hins & Houts) Hsw Hx Hht.
  unfold lib_bip143_preimage, lib_bip143_preimage_at, spec_bip143_preimage.
  rewrite Hsw. cbn [negb].
  assert (HxW : wf_sin x) by (eapply Forall_nth_error; eassumption).
  rewrite (sh_oconcat_some _ (fun y => ser_outpoint (si_in y))).
  2:{ intros y Hin. apply lib_outpoint_ok. rewrite Forall_forall in Hins. apply Hins. exact Hin. }
  cbn [sh_bind].
  rewrite (sh_oconcat_some _ (fun y => le_bytes 4 (ti_seq (si_in y)))).
  2:{ intros y Hin. rewrite Forall_forall in Hins. destruct (Hins y Hin) as (_ & _ & Hq & _). apply sh_le4. exact Hq. }
  cbn [sh_bind]. cbv zeta.
  rewrite hash_outputs_ok by exact Houts. cbn [sh_bind].
  rewrite Hx.
  pose proof HxW as (Hp & Hv & Hq & Hval & Hrest).
  destruct (si_value x =? 0) eqn:E0; [apply Z.eqb_eq in E0; lia|].
  rewrite segwit_script_ok by (apply wf_sin_keys; exact HxW). cbn [sh_bind].
  rewrite sh_le4 by exact Hver. cbn [sh_bind].
  rewrite lib_outpoint_ok by exact HxW. cbn [sh_bind].
  rewrite si_code_varstr by exact HxW. cbn [sh_bind].
  rewrite sh_le8 by lia. cbn [sh_bind].
  rewrite sh_le4 by exact Hq. cbn [sh_bind].
  rewrite sh_le4 by exact Hlock. cbn [sh_bind].
  rewrite sh_le4 by exact Hht. cbn [sh_bind].
  unfold spec_hash_prevouts, spec_hash_sequence.
  destruct (lib_flags ht) as (-> & -> & _).
  rewrite andb_assoc. reflexivity.
Qed.

(* ---------- legacy ---------- *)

Lemma all_like_flags ht : legacy_all_like ht = true -> ht_acp ht = false /\ ht_single ht = false /\ ht_none ht = false.
Proof.
  unfold legacy_all_like, ht_acp, ht_single, ht_none, ht_base. intros Hl.
  apply andb_true_iff in Hl. destruct Hl as [Hl H3]. apply andb_true_iff in Hl. destruct Hl as [H1 H2].
  rewrite H1. apply negb_true_iff in H2. apply negb_true_iff in H3. rewrite H2, H3. repeat split; reflexivity.
Qed.

Lemma ser_varbytes_nil : ser_varbytes [] = [x00].
Proof. reflexivity. Qed.

Lemma legacy_ins_ok bypos i ht l : forall j,
  ht_single ht = false -> ht_none ht = false ->
  Forall wf_sin l ->
  (bypos = false -> forall k y, nth_error l k = Some y -> si_index y = Z.of_nat (j + k)) ->
  (forall k y, nth_error l k = Some y -> (j + k)%nat = i -> lib_legacy_script H160 y = Some (si_code H160 y)) ->
  sh_oconcat (fun o => o) (map_idx (lib_legacy_in_at H160 bypos (Z.of_nat i)) j l) =
  Some (concat (map ser_in (map_idx (legacy_in H160 i ht) j l))).
Proof.
  induction l as [|y l IH]; intros j Hs Hn Hw Hidx Hscr; [reflexivity|].
  inversion Hw as [|? ? Hy Hl]; subst.
  cbn [sh_oconcat map_idx map concat].
  rewrite (IH (S j) Hs Hn Hl).
  2:{ intros Hb k z Hk. rewrite (Hidx Hb (S k) z Hk). f_equal. lia. }
  2:{ intros k z Hk E. apply (Hscr (S k) z Hk). lia. }
  assert (Hi : (if bypos then Z.of_nat j else si_index y) = Z.of_nat j).
  { destruct bypos; [reflexivity|]. rewrite (Hidx eq_refl O y eq_refl). f_equal. lia. }
  unfold lib_legacy_in_at, legacy_in, ser_in. cbn [ti_prev ti_vout ti_script ti_seq].
  rewrite lib_outpoint_ok by exact Hy. cbn [sh_bind]. rewrite Hi.
  pose proof Hy as (Hp & Hv & Hq & Hrest).
  rewrite Hs, Hn. cbn [orb negb]. rewrite orb_true_r.
  rewrite sh_le4 by exact Hq.
  destruct (Nat.eqb_spec j i) as [E|E].
  - subst j. rewrite Z.eqb_refl.
    rewrite (Hscr O y eq_refl) by lia. cbn [sh_bind].
    rewrite si_code_varstr by exact Hy. cbn [sh_bind].
    unfold ser_outpoint. rewrite <- !app_assoc. reflexivity.
  - destruct (Z.of_nat i =? Z.of_nat j) eqn:EZ; [apply Z.eqb_eq in EZ; lia|].
    cbn [sh_bind]. rewrite ser_varbytes_nil.
    unfold ser_outpoint. rewrite <- !app_assoc. reflexivity.
Qed.

Lemma legacy_outs_ok outs : Forall wf_sout outs -> sh_oconcat lib_legacy_out outs = Some (concat (map ser_out outs)).
Proof.
  intros Ho. apply sh_oconcat_some. intros o Hin. rewrite Forall_forall in Ho. specialize (Ho o Hin).
  unfold lib_legacy_out. pose proof Ho as (Hv & Hrest).
  destruct (to_value o <? 0) eqn:E0; [apply Z.ltb_lt in E0; lia|].
  apply lib_ser_out_ok. exact Ho.
Qed.

Theorem legacy_preimage_at_ok bypos t i ht x :
  wf_stx t -> (bypos = false -> index_ok t) -> nth_error (st_ins t) i = Some x -> si_kind x <> K_p2sh_p2wsh ->
  legacy_all_like ht = true -> 0 <= ht < 2 ^ 32 ->
  lib_legacy_preimage_at H160 bypos t (Z.of_nat i) ht = spec_legacy_preimage H160 t i ht.
Proof.
  intros (Hver & Hlock & Hni & Hno & Hins & Houts) Hidx Hx Hkind Hall Hht.
  destruct (all_like_flags ht Hall) as (Ha & Hs & Hn).
  unfold lib_legacy_preimage_at, spec_legacy_preimage. rewrite Hx, Hs. cbn [andb].
  unfold legacy_ins, legacy_outs. rewrite Ha, Hn, Hs.
  rewrite sh_le4 by exact Hver. cbn [sh_bind].
  rewrite cs_enc_len by exact Hni. cbn [sh_bind].
  rewrite (legacy_ins_ok bypos i ht (st_ins t) O Hs Hn Hins).
  2:{ intros Hb k y Hk. apply (Hidx Hb). exact Hk. }
  2:{ intros k y Hk E. cbn in E. subst k. rewrite Hx in Hk. assert (y = x) by congruence. subst y.
      apply legacy_script_ok; [apply wf_sin_keys; eapply Forall_nth_error; eassumption|exact Hkind]. }
  cbn [sh_bind].
  rewrite cs_enc_len by exact Hno. cbn [sh_bind].
  rewrite legacy_outs_ok by exact Houts. cbn [sh_bind].
  rewrite sh_le4 by exact Hlock. cbn [sh_bind].
  rewrite sh_le4 by exact Hht. cbn [sh_bind].
  unfold spec_ser, ser_list. cbn [tx_version tx_segwit tx_ins tx_outs tx_locktime].
  rewrite map_idx_length. rewrite !app_nil_l. rewrite <- !app_assoc. reflexivity.
Qed.

(* the repaired code: no hypothesis on Input.index_n *)
Theorem legacy_preimage_ok t i ht x :
  wf_stx t -> nth_error (st_ins t) i = Some x -> si_kind x <> K_p2sh_p2wsh ->
  legacy_all_like ht = true -> 0 <= ht < 2 ^ 32 ->
  lib_legacy_preimage H160 t (Z.of_nat i) ht = spec_legacy_preimage H160 t i ht.
Proof. intros Hw. apply (legacy_preimage_at_ok true t i ht x Hw). discriminate. Qed.

(* the code before fixes/C01-2: correct exactly under index_n = position *)
Theorem legacy_preimage_unrepaired_ok t i ht x :
  wf_stx t -> index_ok t -> nth_error (st_ins t) i = Some x -> si_kind x <> K_p2sh_p2wsh ->
  legacy_all_like ht = true -> 0 <= ht < 2 ^ 32 ->
  lib_legacy_preimage_at H160 false t (Z.of_nat i) ht = spec_legacy_preimage H160 t i ht.
Proof. intros Hw Hi. apply (legacy_preimage_at_ok false t i ht x Hw). intros _. exact Hi. Qed.

(* ---------- digests: what sign() and verify() hash ---------- *)

Definition hash_type_supported (x : sin) (ht : Z) : Prop :=
  0 <= ht < 2 ^ 32 /\ (k_segwit (si_kind x) = false -> legacy_all_like ht = true).

Theorem digest_at_ok bypos t i ht x :
  wf_stx t -> (bypos = false -> index_ok t) -> nth_error (st_ins t) i = Some x ->
  (k_segwit (si_kind x) = true -> st_segwit t = true) ->
  hash_type_supported x ht ->
  lib_digest_at H H160 bypos t i ht = spec_digest H H160 t i ht /\ spec_digest H H160 t i ht <> None.
Proof.
  intros Hw Hidx Hx Hsw (Hht & Hleg).
  unfold lib_digest_at, spec_digest, spec_preimage, lib_signature_hash_at, lib_signature_at. rewrite Hx.
  destruct (k_segwit (si_kind x)) eqn:EK.
  - assert (Hwt : k_wtype (si_kind x) <> WT_legacy).
    { unfold k_segwit in EK. destruct (k_wtype (si_kind x)); congruence. }
    assert (Hsig : (match k_wtype (si_kind x) with
                    | WT_legacy => lib_legacy_preimage_at H160 bypos t (Z.of_nat i) ht
                    | _ => if Z.of_nat i <? 0 then None else lib_bip143_preimage H H160 t (Z.to_nat (Z.of_nat i)) ht
                    end) = spec_bip143_preimage H H160 t i ht).
    { destruct (Z.of_nat i <? 0) eqn:E; [apply Z.ltb_lt in E; lia|]. rewrite Nat2Z.id.
      rewrite (bip143_preimage_ok t i ht x Hw (Hsw eq_refl) Hx Hht).
      destruct (k_wtype (si_kind x)); [congruence|reflexivity|reflexivity]. }
    rewrite Hsig. unfold spec_bip143_preimage. rewrite Hx. split; [reflexivity|discriminate].
  - assert (Hwt : k_wtype (si_kind x) = WT_legacy).
    { unfold k_segwit in EK. destruct (k_wtype (si_kind x)); congruence. }
    rewrite Hwt.
    rewrite (legacy_preimage_at_ok bypos t i ht x Hw Hidx Hx) by
      (try exact Hht; try (apply Hleg; reflexivity); intros E; rewrite E in EK; discriminate EK).
    destruct (all_like_flags ht (Hleg eq_refl)) as (_ & Hs & _).
    unfold spec_legacy_preimage. rewrite Hx, Hs. cbn [andb]. split; [reflexivity|discriminate].
Qed.

Theorem digest_ok t i ht x :
  wf_stx t -> nth_error (st_ins t) i = Some x ->
  (k_segwit (si_kind x) = true -> st_segwit t = true) ->
  hash_type_supported x ht ->
  lib_digest H H160 t i ht = spec_digest H H160 t i ht /\ spec_digest H H160 t i ht <> None.
Proof. intros Hw. apply (digest_at_ok true t i ht x Hw). discriminate. Qed.

(* verify() hashes what sign() hashed: always for the repaired code, under index_n = position before *)
Theorem verify_digest_is_sign_digest bypos t i ht :
  (bypos = false -> index_ok t) -> lib_verify_digest_at H H160 bypos t i ht = lib_digest_at H H160 bypos t i ht.
Proof.
  intros Hidx. unfold lib_verify_digest_at, lib_digest_at.
  destruct (nth_error (st_ins t) i) as [x|] eqn:Hx; [|reflexivity].
  destruct bypos; [reflexivity|]. rewrite (Hidx eq_refl i x Hx). reflexivity.
Qed.

End WithHashes.

(* ---------- the example transaction of Properties/C01.v is in the domain ---------- *)

Ltac conj := repeat match goal with |- _ /\ _ => split end.
Ltac num :=
  match goal with
  | |- _ <= _ => vm_compute; discriminate
  | |- _ < _ => vm_compute; reflexivity
  | |- (_ <= _)%nat => vm_compute; repeat constructor
  | |- _ = _ => vm_compute; reflexivity
  | |- _ <> _ => vm_compute; discriminate
  end.

Lemma ex_tx_wf_proof : wf_stx ex_tx /\ index_ok ex_tx.
Proof.
  split.
  - unfold wf_stx, ex_tx. cbn [st_version st_locktime st_ins st_outs]. conj; try num.
    + repeat apply Forall_cons; try apply Forall_nil; unfold wf_sin; conj; try num.
      all: repeat apply Forall_cons; try apply Forall_nil; left; reflexivity.
    + repeat apply Forall_cons; try apply Forall_nil; unfold wf_sout; conj; num.
  - intros j x. destruct j as [|[|j]]; cbn [ex_tx st_ins nth_error].
    + intros E. inversion E. reflexivity.
    + intros E. inversion E. reflexivity.
    + destruct j; discriminate.
Qed.
