(* Proofs/EvalRun.v — whole-program comparison on the straight-line fragment. *)
From Coq Require Import ZArith List Bool Lia.
From Coq.Strings Require Import Byte.
From Verif Require Import Lib.Bytes Gen.GenConsts Model.Wire Model.EvalLib Model.EvalCore
  Proofs.ScriptNum Proofs.EvalNum Proofs.EvalOps.
Import ListNotations.
Open Scope Z_scope.

(* the Stack methods whose step agrees with Core's on every stack of good items (Proofs/EvalOps.v);
   everything not listed has an op_X_refuted witness in Properties/C19.v *)
Definition S_ok : list opk := [
  K_NOP; K_VERIFY; K_RETURN; K_2DROP; K_2DUP; K_3DUP; K_2OVER; K_2ROT; K_IFDUP; K_DEPTH; K_DROP; K_DUP; K_NIP;
  K_OVER; K_ROT; K_SWAP; K_SIZE; K_EQUAL; K_EQUALVERIFY; K_1ADD; K_1SUB; K_NEGATE; K_ABS; K_NOT; K_0NOTEQUAL;
  K_ADD; K_BOOLAND; K_BOOLOR; K_NUMEQUAL; K_NUMNOTEQUAL; K_MIN; K_MAX; K_RIPEMD160; K_SHA1; K_SHA256;
  K_HASH160; K_HASH256; K_CHECKSIG; K_CHECKSIGVERIFY; K_CLTV; K_CSV].

Definition goodb (x : bytes) : bool := core_minimal x || ((5 <? length x)%nat && cast_to_bool x).

Lemma goodb_good x : goodb x = true -> good x.
Proof.
  unfold goodb, good. intros H. apply orb_true_iff in H. destruct H as [H|H]; [left; exact H|right].
  apply andb_true_iff in H. destruct H as [H1 H2]. apply Nat.ltb_lt in H1. split; assumption.
Qed.

Lemma opk_eqb_true a b : opk_eqb a b = true -> a = b.
Proof. destruct a, b; intros H; try reflexivity; discriminate H. Qed.

(* constants as each interpreter pushes them *)
Definition lib_const (n : Z) : option bytes :=
  if n =? op_0 then Some (enc 0)
  else if n =? op_1negate then Some (enc (-1))
  else if (op_1 <=? n) && (n <=? op_16) then Some (enc (n - 80))
  else None.
Definition lib_flow (n : Z) : bool := (n =? op_if) || (n =? op_notif).
Definition core_const (n : Z) : option bytes :=
  if n =? 0 then Some []
  else if n =? 79 then Some (ser (-1))
  else if (81 <=? n) && (n <=? 96) then Some (ser (n - 80))
  else None.
Definition core_flow (n : Z) : bool := (99 <=? n) && (n <=? 104).

(* an opcode number of the straight-line fragment: a constant both sides push identically, or an opcode the
   library dispatches (through the regenerated name tables) to a method of S_ok which is also what Core
   does for that number.  Computable: the fragment is computed, not guessed. *)
Definition ok_op (n : Z) : bool :=
  negb (core_disabled n) && negb (core_flow n) && negb (lib_flow n) &&
  match lib_const n, core_const n with
  | Some a, Some b => bytes_eqb a b
  | None, None =>
      match lib_dispatch n, zassoc n core_kinds with
      | DKind k, Some k' => opk_eqb k k' && existsb (opk_eqb k) S_ok
      | _, _ => false
      end
  | _, _ => false
  end.

Definition straight_cmd (c : scmd) : bool :=
  match c with
  | CPush d => goodb d
  | COp n => ok_op n
  end.
Definition straight (cmds : list scmd) : bool := forallb straight_cmd cmds.

(* same verdict, and on success the same final stack (the library has popped the top by then) *)
Definition agree (l : lres) (c : verdict * stack) : Prop :=
  match r_verdict l, fst c with
  | Valid, Valid => match r_popped l with Some t => snd c = t :: r_stack l | None => False end
  | Invalid, Invalid => True
  | _, _ => False
  end.

Section Run.
  Variable h_ripemd160 h_sha1 h_sha256 : bytes -> bytes.
  Variable sigcheck : bytes -> bytes -> sigres.
  Variable e : env.
  Variable fl : flags.
  Hypothesis h_ripemd160_good : forall x, good (h_ripemd160 x).
  Hypothesis h_sha1_good : forall x, good (h_sha1 x).
  Hypothesis h_sha256_good : forall x, good (h_sha256 x).

  Notation lop := (lib_op h_ripemd160 h_sha1 h_sha256 sigcheck e).
  Notation cop := (core_op h_ripemd160 h_sha1 h_sha256 sigcheck e fl).
  Notation lrun := (lib_run h_ripemd160 h_sha1 h_sha256 sigcheck e).
  Notation crun := (core_run h_ripemd160 h_sha1 h_sha256 sigcheck e fl).

  Lemma S_ok_agree k s : In k S_ok -> Forall good s -> op_agree_good (lop k s) (cop k s).
  Proof.
    intros H G. cbn in H.
    repeat (destruct H as [<-|H];
      [first [ apply op_nop_agrees | apply op_verify_agrees | apply op_return_agrees | apply op_2drop_agrees
             | apply op_2dup_agrees | apply op_3dup_agrees | apply op_2over_agrees | apply op_2rot_agrees
             | apply op_ifdup_agrees | apply op_depth_agrees | apply op_drop_agrees | apply op_dup_agrees
             | apply op_nip_agrees | apply op_over_agrees | apply op_rot_agrees | apply op_swap_agrees
             | apply op_size_agrees | apply op_equal_agrees | apply op_equalverify_agrees | apply op_1add_agrees
             | apply op_1sub_agrees | apply op_negate_agrees | apply op_abs_agrees | apply op_not_agrees
             | apply op_0notequal_agrees | apply op_add_agrees | apply op_booland_agrees | apply op_boolor_agrees
             | apply op_numequal_agrees | apply op_numnotequal_agrees | apply op_min_agrees | apply op_max_agrees
             | apply op_ripemd160_agrees | apply op_sha1_agrees | apply op_sha256_agrees | apply op_hash160_agrees
             | apply op_hash256_agrees | apply op_checksig_agrees | apply op_checksigverify_agrees
             | apply op_cltv_agrees | apply op_csv_agrees ]; assumption|]).
    contradiction.
  Qed.

  Lemma lib_run_push fu d rest s : lrun (S fu) (CPush d :: rest) s = lrun fu rest (d :: s).
  Proof. reflexivity. Qed.

  Lemma lib_run_const fu n v rest s :
    lib_const n = Some v -> lrun (S fu) (COp n :: rest) s = lrun fu rest (v :: s).
  Proof.
    unfold lib_const. intros H. cbn [lib_run].
    destruct (n =? op_0); [injection H as <-; reflexivity|].
    destruct (n =? op_1negate); [injection H as <-; reflexivity|].
    destruct ((op_1 <=? n) && (n <=? op_16)); [injection H as <-; reflexivity|discriminate].
  Qed.

  Lemma lib_run_kind fu n k rest s :
    lib_const n = None -> lib_flow n = false -> lib_dispatch n = DKind k ->
    lrun (S fu) (COp n :: rest) s =
    match lop k s with
    | ROk s' => lrun fu rest s'
    | RFalse s' => fin Invalid s'
    | RExc s' => fin Invalid s'
    end.
  Proof.
    unfold lib_const, lib_flow. intros H F D. cbn [lib_run].
    destruct (n =? op_0); [discriminate|].
    destruct (n =? op_1negate); [discriminate|].
    destruct ((op_1 <=? n) && (n <=? op_16)); [discriminate|].
    rewrite F, D. reflexivity.
  Qed.

  Lemma core_run_push d rest s : crun (CPush d :: rest) s [] = crun rest (d :: s) [].
  Proof. reflexivity. Qed.

  Lemma core_run_const n v rest s :
    core_disabled n = false -> core_flow n = false -> core_const n = Some v ->
    crun (COp n :: rest) s [] = crun rest (v :: s) [].
  Proof.
    unfold core_flow, core_const. intros D F H. cbn [core_run forallb]. rewrite D, F.
    destruct (n =? 0); [injection H as <-; reflexivity|].
    destruct (n =? 79); [injection H as <-; reflexivity|].
    destruct ((81 <=? n) && (n <=? 96)); [injection H as <-; reflexivity|discriminate].
  Qed.

  Lemma core_run_kind n k rest s :
    core_disabled n = false -> core_flow n = false -> core_const n = None -> zassoc n core_kinds = Some k ->
    crun (COp n :: rest) s [] =
    match cop k s with
    | None => CFail
    | Some s' => crun rest s' []
    end.
  Proof.
    unfold core_flow, core_const. intros D F H K. cbn [core_run forallb]. rewrite D, F.
    destruct (n =? 0); [discriminate|].
    destruct (n =? 79); [discriminate|].
    destruct ((81 <=? n) && (n <=? 96)); [discriminate|].
    rewrite K. reflexivity.
  Qed.

  Lemma agree_straightline_gen cmds : forall fu s,
    (length cmds < fu)%nat -> straight cmds = true -> Forall good s ->
    agree (lrun fu cmds s) (core_finish (crun cmds s [])).
  Proof.
    induction cmds as [|c rest IH]; intros fu s Hfu Hs G.
    - destruct fu as [|fu]; [cbn in Hfu; lia|]. cbn [lib_run core_run core_finish].
      destruct s as [|top r]; [cbn; exact I|].
      assert (Gt : good top) by (inversion G; assumption).
      rewrite (good_truth top Gt). unfold agree. destruct (is_empty top); cbn; auto.
    - destruct fu as [|fu]; [cbn in Hfu; lia|]. cbn [length] in Hfu.
      cbn [straight forallb] in Hs. apply andb_true_iff in Hs. destruct Hs as [Hc Hs].
      destruct c as [n|d].
      + cbn [straight_cmd] in Hc. unfold ok_op in Hc.
        repeat (apply andb_true_iff in Hc; destruct Hc as [Hc ?]).
        apply negb_true_iff in Hc. repeat match goal with H : negb _ = true |- _ => apply negb_true_iff in H end.
        destruct (lib_const n) as [a|] eqn:LC, (core_const n) as [b|] eqn:CC; try discriminate.
        * match goal with H : bytes_eqb a b = true |- _ => apply bytes_eqb_true in H; subst b end.
          rewrite (lib_run_const fu n a) by assumption. rewrite (core_run_const n a) by assumption.
          apply IH; [lia|assumption|].
          apply Forall_cons; [|assumption].
          unfold lib_const in LC.
          destruct (n =? op_0); [injection LC as <-; apply good_enc|].
          destruct (n =? op_1negate); [injection LC as <-; apply good_enc|].
          destruct ((op_1 <=? n) && (n <=? op_16)); [injection LC as <-; apply good_enc|discriminate].
        * destruct (lib_dispatch n) as [| | |k] eqn:LD; try discriminate.
          destruct (zassoc n core_kinds) as [k'|] eqn:CK; try discriminate.
          match goal with H : _ && _ = true |- _ => apply andb_true_iff in H; destruct H as [E1 E2] end.
          apply opk_eqb_true in E1. subst k'.
          assert (Hin : In k S_ok).
          { apply existsb_exists in E2. destruct E2 as (k2 & I2 & E2). apply opk_eqb_true in E2. subst. exact I2. }
          rewrite (lib_run_kind fu n k) by assumption. rewrite (core_run_kind n k) by assumption.
          pose proof (S_ok_agree k s Hin G) as A. unfold op_agree_good in A.
          destruct (lop k s) as [s1|s1|s1], (cop k s) as [s2|]; try contradiction; try (cbn; exact I).
          destruct A as [<- G1]. apply IH; [lia|assumption|assumption].
      + cbn [straight_cmd] in Hc. rewrite lib_run_push, core_run_push.
        apply IH; [lia|assumption|]. apply Forall_cons; [apply goodb_good; exact Hc|assumption].
  Qed.

  (* Script(cmds).evaluate() against EvalScript + final truth test, both from the empty stack *)
  Lemma agree_straightline_eval cmds :
    straight cmds = true ->
    agree (lib_eval h_ripemd160 h_sha1 h_sha256 sigcheck e cmds)
          (core_eval h_ripemd160 h_sha1 h_sha256 sigcheck e fl cmds).
  Proof.
    intros H. unfold lib_eval, core_eval. apply agree_straightline_gen; [lia|exact H|constructor].
  Qed.
End Run.
