(* Proofs/AmountTheorems.v — the string-level statements: parse the printed numeral, convert, get n back. *)
From Coq Require Import ZArith Reals Lia Bool List.
From Coq Require Import Floats.PrimFloat Floats.SpecFloat Floats.FloatOps Floats.FloatAxioms Lra.
From Flocq Require Import Core.Core IEEE754.BinarySingleNaN.
From Verif Require Import Float.DecRound Float.B64 Model.Amount Proofs.AmountDecRound Proofs.AmountFloat
  Proofs.Amount Proofs.AmountString.
Import ListNotations.
Open Scope Z_scope.

Lemma default_net : exists nw, find_by_name default_network_name = Some nw /\ In nw nets.
Proof.
destruct (find_by_name default_network_name) as [nw|] eqn:E.
- exists nw. split. reflexivity. apply (find_some _ _ E).
- vm_compute in E. discriminate.
Qed.

Lemma code_net : forall code, find_by_code code <> None -> exists nw, find_by_code code = Some nw /\ In nw nets.
Proof.
intros code H. destruct (find_by_code code) as [nw|] eqn:E.
- exists nw. split. reflexivity. apply (find_some _ _ E).
- congruence.
Qed.

Definition BTC_s : str := [66; 84; 67].

Lemma fixed8_eq : forall n,
  fmt_fixed false n 8 = dec_digits (n / 10 ^ 8) ++ 46 :: digits_w 8 (n mod 10 ^ 8).
Proof. intros n. reflexivity. Qed.

Lemma fixed8_token : forall n, 0 <= n -> fmt_fixed false n 8 <> [] /\ nospace (fmt_fixed false n 8).
Proof.
intros n Hn. rewrite fixed8_eq.
assert (Ha : 0 <= n / 10 ^ 8) by (apply Z.div_pos; lia).
destruct (dec_digits_numeric _ Ha) as [H1 H2].
split.
- destruct (dec_digits (n / 10 ^ 8)); [congruence | discriminate].
- apply nospace_numeric. apply Forall_app. split. exact H1. constructor. lia. apply digits_numeric.
Qed.

Lemma py_float_fixed8 : forall n, 0 <= n -> py_float (fmt_fixed false n 8) = Some (b64_of_dec false n (-8)).
Proof.
intros n Hn. rewrite fixed8_eq. unfold py_float.
change 8%nat with (S 7).
rewrite parse_fixed.
- replace (n / 10 ^ 8 * 10 ^ Z.of_nat 8 + n mod 10 ^ 8) with n.
  reflexivity.
  change (Z.of_nat 8) with 8. rewrite Z.mul_comm. apply Z.div_mod. lia.
- apply Z.div_pos; lia.
- change (Z.of_nat 8) with 8. apply Z.mod_pos_bound. lia.
Qed.

(* value_to_satoshi("<n / 10^8 with eight decimals> BTC") = n *)
Lemma btc_string : forall n, 0 <= n <= TOP ->
  lib_value_to_satoshi (fmt_fixed false n 8 ++ 32 :: BTC_s) None = Ok n.
Proof.
intros n Hn.
destruct default_net as [nw [Hnw Hin]].
destruct (code_net BTC_s) as [nw2 [Hc2 Hin2]]. { vm_compute. discriminate. }
destruct (fixed8_token n) as [Hne Hns]. lia.
unfold lib_value_to_satoshi. rewrite Hnw.
unfold lib_value_init_str.
rewrite split_two; try assumption.
- cbv beta iota zeta. rewrite Hc2. cbv beta iota.
  rewrite py_float_fixed8 by lia. cbv beta iota.
  apply value_sat_btc. exact Hin2. exact Hn.
- discriminate.
- unfold nospace, BTC_s. repeat constructor.
Qed.

(* value_to_satoshi("<n> sat") = n *)
Definition sat_tok : str := [115; 97; 116].

Lemma D0_is_den : is_den D0.
Proof. vm_compute. reflexivity. Qed.

Lemma py_float_int : forall n, 0 <= n -> py_float (dec_digits n) = Some (b64_of_dec false n 0).
Proof. intros n Hn. unfold py_float. rewrite parse_int by exact Hn. reflexivity. Qed.

Lemma sat_string : forall n, 0 <= n <= TOP ->
  lib_value_to_satoshi (dec_digits n ++ 32 :: sat_tok) None = Ok n.
Proof.
intros n Hn.
destruct default_net as [nw [Hnw Hin]].
destruct (dec_digits_numeric n) as [Hnum Hne]. lia.
assert (Hscan : scan_dens dens sat_tok nw = Ok (nw, D0)) by (vm_compute; reflexivity).
assert (Hcode : find_by_code sat_tok = None) by (vm_compute; reflexivity).
unfold lib_value_to_satoshi. rewrite Hnw.
unfold lib_value_init_str.
rewrite split_two; try assumption.
- cbv beta iota zeta. rewrite Hcode, Hscan. cbv beta iota.
  rewrite py_float_int by lia. cbv beta iota.
  apply value_sat_of. exact Hin.
  rewrite (den_is_D0 _ (nets_den nw Hin)).
  apply core_sat. exact D0_is_den. exact Hn.
- discriminate.
- apply nospace_numeric. exact Hnum.
- unfold nospace, sat_tok. repeat constructor.
Qed.

(* ---- format then parse, default denominator (smallest unit) ---- *)
Lemma round_pos_shape : forall q n, b64_round q = Some n -> 1 <= n ->
  exists m e, Prim2SF q = S754_finite false m e /\ sf_scaled_rne (Prim2SF q) 0 = Some (false, n).
Proof.
intros q n H Hn. unfold b64_round in H.
destruct (Prim2SF q) as [s|s| |s m e]; try discriminate H.
- simpl in H. injection H as H. lia.
- pose proof (sf_to_Z_rne_finite s m e) as Hs0. rewrite H in Hs0.
  assert (Hs : n = ZnearestE (SF2R radix2 (S754_finite s m e))) by congruence. clear Hs0.
  destruct s.
  + exfalso.
    assert (Hneg : (SF2R radix2 (S754_finite true m e) <= 0)%R).
    { unfold SF2R. left. apply F2R_lt_0. simpl. lia. }
    pose proof (Znearest_le_ceil (fun x => negb (Z.even x)) (SF2R radix2 (S754_finite true m e))) as Hc.
    pose proof (Zceil_le _ _ Hneg) as Hc0. rewrite (Zceil_IZR 0) in Hc0.
    lia.
  + exists m, e. split. reflexivity.
    unfold sf_scaled_rne. unfold sf_to_Z_rne in H.
    rewrite Z.pow_0_r, !Z.mul_1_r.
    assert (Hv : (if 0 <=? e then Z.pos m * 2 ^ e else rne_div (Z.pos m) (2 ^ (- e))) = n) by congruence.
    rewrite Hv. reflexivity.
Qed.

Lemma b64_of_Z_pos : forall n, 0 < n < 2 ^ 53 -> b64_of_Z n = Some (b64_of_dec false n 0).
Proof.
intros n Hn.
destruct (b64_of_dec_int n Hn) as [_ Hfin].
unfold b64_of_Z, b64_of_dec in *.
replace (n <? 0) with false by (symmetry; apply Z.ltb_ge; lia).
rewrite Z.abs_eq by lia.
assert (Hdec : dec_to_sf false n 0 = ratio_to_sf false n 1).
{ unfold dec_to_sf.
  replace (n <=? 0) with false by (symmetry; apply Z.leb_gt; lia).
  replace (310 <? 0) with false by reflexivity.
  replace (0 + (Z.log2 n + 1) <? -330) with false
    by (symmetry; apply Z.ltb_ge; pose proof (Z.log2_nonneg n); lia).
  simpl (0 <=? 0). cbv iota. rewrite Z.pow_0_r, Z.mul_1_r. reflexivity. }
rewrite Hdec in *.
destruct (ratio_to_sf_correct false n 1) as [Hv _]; try lia.
rewrite Ffin_SF in Hfin. rewrite Prim2SF_SF2Prim in Hfin by exact Hv.
destruct (ratio_to_sf false n 1); try discriminate Hfin; reflexivity.
Qed.

Lemma roundtrip_default : forall n nw, 0 <= n <= TOP -> find_by_name default_network_name = Some nw ->
  exists v s, lib_from_satoshi n DNone nw = Ok v /\ lib_str v DNone None = Ok s /\
              s = dec_digits n ++ 32 :: sat_tok /\ lib_value_to_satoshi s None = Ok n.
Proof.
intros n nw Hn Hnw.
assert (Hin : In nw nets) by (apply (find_some _ _ Hnw)).
vm_compute in Hnw. injection Hnw as Hnw.
destruct (Z.eq_dec n 0) as [->|Hn0].
- subst nw. eexists. eexists. split. vm_compute. reflexivity. split. vm_compute. reflexivity.
  split. vm_compute. reflexivity. vm_compute. reflexivity.
- assert (Hn53 : 0 < n < 2 ^ 53) by (unfold TOP in Hn; change (2 ^ 53) with 9007199254740992; lia).
  set (fn := b64_of_dec false n 0).
  assert (HD : n_den nw = D0) by (apply den_is_D0, nets_den, Hin).
  assert (Hq : b64_round ((fn * D0) / D0)%float = Some n) by (apply core_sat; [exact D0_is_den | exact Hn]).
  destruct (round_pos_shape _ _ Hq ltac:(lia)) as [m [e [Hsh Hsc]]].
  assert (Hfn : b64_round fn = Some n).
  { destruct (b64_of_dec_int n Hn53) as [H1 H2]. unfold fn. rewrite b64_round_finite by exact H2.
    rewrite H1. f_equal. apply Znearest_imp. rewrite Rminus_diag_eq by reflexivity.
    rewrite Rabs_R0. lra. }
  destruct (round_pos_shape _ _ Hfn ltac:(lia)) as [m' [e' [Hsh' Hsc']]].
  exists {| v_value := (fn * D0)%float; v_den := D0; v_net := nw |}.
  exists (dec_digits n ++ 32 :: sat_tok).
  split; [|split; [|split]].
  + unfold lib_from_satoshi. rewrite b64_of_Z_pos by exact Hn53. fold fn.
    unfold lib_value_init_num. rewrite HD.
    replace (den_or_one D0) with D0 by (vm_compute; reflexivity). reflexivity.
  + unfold lib_str. cbv beta iota zeta. simpl v_den. simpl v_net. simpl v_value. rewrite HD.
    replace (den_symbol D0) with (Some sat_tok) by (vm_compute; reflexivity).
    replace (log10_trunc (D0 / D0)%float) with (Some 0) by (vm_compute; reflexivity).
    cbv beta iota.
    change (Z.max (Z.min (- 0) 8) 0) with 0.
    assert (Hbal : b64_round_nd (fn * D0 / D0)%float 0 = fn).
    { unfold b64_round_nd. replace (323 <? 0) with false by reflexivity. rewrite Hsc. reflexivity. }
    rewrite Hbal.
    assert (Hfmt : b64_fmt fn 0 = dec_digits n).
    { unfold b64_fmt. rewrite Hsh'. rewrite <- Hsh', Hsc'.
      unfold fmt_fixed. rewrite Z.pow_0_r, Z.div_1_r. simpl (0 <=? 0). cbv iota. rewrite app_nil_r. reflexivity. }
    rewrite Hfmt.
    replace (contains sat_s sat_tok && str_eqb (n_name nw) bitcoin_s) with true
      by (rewrite <- Hnw; vm_compute; reflexivity).
    cbv iota. rewrite app_nil_r. reflexivity.
  + reflexivity.
  + apply sat_string. exact Hn.
Qed.
