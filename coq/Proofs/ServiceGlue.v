(* Proofs/ServiceGlue.v — (a) the facts regenerated from services.py (Gen/GenService.v) that Model/Service.v builds in;
   a source edit that changes one of them stops this file from checking.  (b) the combined statements used by
   Properties/C20.v. *)
From Coq Require Import ZArith List Bool Lia.
From Verif Require Import Gen.GenService Gen.GenConsts Gen.GenNetworks Model.CacheModel Model.Service
  Proofs.ServiceExec Proofs.ServiceCache Proofs.ServiceWrappers.
Import ListNotations.
Open Scope Z_scope.

(* _provider_execute: `return False` when max_errors is reached without a result (Model: at_limit) *)
Lemma glue_limit_returns_false : svc_limit_returns_false = true.
Proof. reflexivity. Qed.
(* getutxos: `if utxos is False: raise ServiceError` *)
Lemma glue_getutxos_raises : svc_getutxos_raises_on_false = true.
Proof. reflexivity. Qed.
Lemma glue_constants :
  svc_SERVICE_MAX_ERRORS = cfg_SERVICE_MAX_ERRORS /\ svc_blockcount_ttl = 60 /\ svc_fee_ttl = 600 /\
  svc_BLOCK_COUNT_CACHE_TIME = 3 /\ svc_fee_high_max_blocks = 1 /\ svc_fee_medium_max_blocks = 5.
Proof. repeat split; reflexivity. Qed.

(* the cache read paths as Model/CacheModel.v and Model/Service.v build them in:
   Cache.gettransactions  block_height >= after_tx.block_height, block_height <= db_addr.last_block, ORDER BY
     block_height, index (both queries), `len(txs) >= limit`, append before the `d.txid == after_txid` reset;
   Cache.getutxos  outputs only, ORDER BY block_height, index, `spent is False` / `spent is None`, `txid == after_txid`;
   Cache.getblocktransactions  block_height == height, n_from <= index < n_to (ORDER BY: followed by the model);
   Service.gettransactions  `len(txs_cache) == limit`, `last_block >= self.blockcount()`, `len(txs) == limit`,
     `txs is False`, `t.confirmations != 0`;  Service.getutxos `len(utxos) >= limit`;  Service.getblock
     `page*limit > block.tx_count` *)
Lemma glue_cache_reads :
  svc_cgt_after_block_op = 5 /\ svc_cgt_last_block_op = 3 /\ svc_cgt_limit_op = 5 /\ svc_cgt_reset_op = 0 /\
  svc_cgt_append_before_reset = 1 /\ svc_cgt_order_after = [1; 2] /\ svc_cgt_order_all = [1; 2] /\
  svc_cgu_unspent_op = 6 /\ svc_cgu_unknown_op = 6 /\ svc_cgu_reset_op = 0 /\ svc_cgu_output_filter_op = 0 /\
  svc_cgu_order = [1; 2] /\
  svc_cbt_from_op = 5 /\ svc_cbt_to_op = 2 /\ svc_cbt_height_op = 0 /\
  svc_sgt_page_full_op = 0 /\ svc_sgt_uptodate_op = 5 /\ svc_sgt_incomplete_op = 0 /\ svc_sgt_provider_false_op = 6 /\
  svc_sgt_unconfirmed_op = 1 /\ svc_sgu_incomplete_op = 5 /\ svc_sgb_last_page_op = 4.
Proof. repeat split; reflexivity. Qed.

Lemma exec_trichotomy st ps :
  (forall v, fst (fst (lib_provider_execute st ps)) = Value v <-> 0 < eff_maxp st /\ answers_first (st_maxe st) 0 ps v) /\
  (fst (fst (lib_provider_execute st ps)) = RetFalse <-> 0 < eff_maxp st /\ limit_first (st_maxe st) 0 ps) /\
  (fst (fst (lib_provider_execute st ps)) = ServiceErr <-> eff_maxp st <= 0 \/ nobody_answers (st_maxe st) 0 ps).
Proof.
  split; [intros v; apply exec_value_iff | split; [apply exec_false_iff | apply exec_err_iff]].
Qed.

Lemma skips_combined st ps :
  lib_provider_execute st (filter (fun p => negb (is_skip (snd p))) ps) = lib_provider_execute st ps /\
  (forall r res errs, lib_provider_execute st ps = (r, res, errs) ->
     (forall n w, In (n, w) res -> In (n, Ok w) ps) /\
     (forall n t, In (n, t) errs ->
        exists o, In (n, o) ps /\ match t with EExc e => o = Raise e | EEmpty => o = Empty end)).
Proof.
  split; [apply skips_transparent | intros r res errs H; eapply exec_bookkeeping; exact H].
Qed.

(* answers have the expected shape: what the guard of wrappers_do_not_fabricate asks of the providers *)
Definition int_answers (ps : list provider) : Prop := forall n b, In (n, Ok b) ps -> exists z, b = VInt z.
Definition fee_answers (nw : network) (ps : list provider) : Prop :=
  forall n b, In (n, Ok b) ps -> exists f, b = VInt f /\ nw_fee_min nw <= f <= nw_fee_max nw /\ f <> 0.
Definition tx_answers (txid : Z) (ps : list provider) : Prop := forall n t, In (n, Ok (VTx t)) ps -> t_txid t = txid.

Lemma wrappers_guarded st ps c s v c' s' :
  ~ limit_reached st ps ->
  (passthrough st ps c s = (WRet v, c', s') -> provider_answer ps v) /\
  (forall txid, lib_getrawtransaction st ps txid c s = (WRet v, c', s') ->
     (exists t, cache_gettx c txid = Some t /\ v = VRaw (t_content t)) \/ provider_answer ps v) /\
  (forall txid, tx_answers txid ps -> lib_gettransaction st ps txid c s = (WRet v, c', s') ->
     (exists t, cache_gettx c txid = Some t /\ v = VTx t) \/ provider_answer ps v) /\
  (forall addr, lib_getutxos st ps addr c s = (WRet v, c', s') -> provider_answer ps v) /\
  (forall rf now bc_ps ps0 addr, never_synced c addr -> int_answers ps ->
     lib_getbalance_gen rf st now bc_ps ps ps0 addr c s = (WRet v, c', s') -> provider_answer ps v) /\
  (forall now blocks, fee_answers (st_net st) ps -> lib_estimatefee st now ps blocks c s = (WRet v, c', s') ->
     (exists f, cache_estimatefee c now blocks = Some f /\ v = VInt f) \/ provider_answer ps v) /\
  (forall txid, lib_isspent st ps txid c s = (WRet v, c', s') ->
     (exists t b, cache_gettx c txid = Some t /\ t_spent t = Some b /\ v = VBool b) \/
     (exists a, provider_answer ps a /\ v = VBool (truthy a))).
Proof.
  intros Hl. repeat split.
  - intros H. apply passthrough_origin in H. destruct H as [_ [H | [_ H]]]; [exact H | contradiction].
  - intros txid H. apply getrawtransaction_origin in H.
    destruct H as [_ [H | [H | [_ H]]]]; [left; exact H | right; exact H | contradiction].
  - intros txid Hid H. eapply gettransaction_exact; eauto.
  - intros addr H. apply getutxos_origin in H. destruct H as [H _]; exact H.
  - intros rf now bc_ps ps0 addr Hns Hint H. apply getbalance_origin in H; [| exact Hns].
    destruct H as [[b [[n Hb] [[z [H1 [H2 _]]] | [H1 _]]]] | [_ [H _]]].
    + subst. exists n; exact Hb.
    + destruct (Hint n b Hb) as [z Hz]. destruct (H1 z Hz).
    + contradiction.
  - intros now blocks Hf H. eapply estimatefee_exact; eauto.
  - intros txid H. apply isspent_origin in H.
    destruct H as [_ [H | [H | [_ H]]]]; [left; exact H | right; exact H | contradiction].
Qed.

Lemma cache_combined :
  (forall c t, c_on c = true -> t_confirmed t = true ->
     cache_gettx (cache_store_tx c t) (t_txid t) = Some (match cache_gettx c (t_txid t) with Some t0 => t0 | None => t end)) /\
  (forall c t, cache_store_tx (cache_store_tx c t) t = cache_store_tx c t) /\
  (forall c t txid, txid <> t_txid t -> cache_gettx (cache_store_tx c t) txid = cache_gettx c txid) /\
  (forall c t txid t0, cache_gettx c txid = Some t0 -> cache_gettx (cache_store_tx c t) txid = Some t0) /\
  (forall c name v exp now, c_on c = true ->
     cache_var_get (cache_var_set c name v exp) now name = if now <? exp then Some v else None) /\
  (forall c name v exp, cache_var_set (cache_var_set c name v exp) name v exp = cache_var_set c name v exp) /\
  (forall c now now' name v, now <= now' -> cache_var_get c now' name = Some v -> cache_var_get c now name = Some v) /\
  (forall c a lb b nu, c_on c = true ->
     exists r, cache_getaddr (cache_store_address c a lb (Some b) nu) a = Some r /\ a_balance r = Some b).
Proof.
  repeat split.
  - apply tx_get_after_store.
  - apply tx_store_idempotent.
  - apply tx_store_other.
  - apply tx_store_first_write_wins.
  - apply var_get_after_set.
  - apply var_set_idempotent.
  - apply var_expiry_monotone.
  - apply addr_get_after_store.
Qed.

(* small constants used by the Examples of Properties/C20.v *)
Definition st1 (maxe : Z) (nw : network) : settings := {| st_minp := 1; st_maxp := 1; st_maxe := maxe; st_net := nw |}.
Definition tx_a : txrec := {| t_txid := 0; t_content := 0; t_confirmed := true; t_spent := None |}.
Definition tx_b : txrec := {| t_txid := 1; t_content := 1; t_confirmed := true; t_spent := None |}.

