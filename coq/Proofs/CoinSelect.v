(* Proofs/CoinSelect.v — what Wallet.select_inputs returns. *)
From Coq Require Import ZArith List Bool Lia Permutation.
From Verif Require Import Model.CoinSelect.
Import ListNotations.
Open Scope Z_scope.

(* [sub s l]: every element of s is in l, and s has distinct ids when l has *)
Definition sub (s l : list utxo) : Prop :=
  (forall u, In u s -> In u l) /\ (NoDup (map u_id l) -> NoDup (map u_id s)).

Lemma sub_refl l : sub l l.
Proof. split; auto. Qed.

Lemma sub_trans a b c : sub a b -> sub b c -> sub a c.
Proof. intros [H1 H2] [H3 H4]. split; auto. Qed.

Lemma sub_perm a b : Permutation a b -> sub a b.
Proof.
  intros P. split.
  - intros u. apply Permutation_in. exact P.
  - intros N. apply Permutation_NoDup with (l := map u_id b); [|exact N].
    apply Permutation_map. apply Permutation_sym. exact P.
Qed.

Lemma in_map_id (u : utxo) l : In u l -> In (u_id u) (map u_id l).
Proof. apply in_map. Qed.

Lemma sub_cons_skip x s l : sub s l -> sub s (x :: l).
Proof.
  intros [H1 H2]. split.
  - intros u Hu. right. auto.
  - intros N. inversion N; subst. auto.
Qed.

Lemma sub_cons_keep x s l : sub s l -> sub (x :: s) (x :: l).
Proof.
  intros [H1 H2]. split.
  - intros u [E|Hu]; [left; exact E | right; auto].
  - intros N. simpl in *. inversion N as [|a m Hn Hm]; subst. constructor; [|auto].
    intro Hin. apply Hn. apply in_map_iff in Hin. destruct Hin as [y [Ey Hy]].
    rewrite <- Ey. apply in_map. auto.
Qed.

Lemma sub_nil l : sub [] l.
Proof. split; [intros u []| intros _; constructor]. Qed.

Lemma sub_filter p l : sub (filter p l) l.
Proof.
  induction l as [|x l IH]; simpl; [apply sub_nil|].
  destruct (p x); [apply sub_cons_keep | apply sub_cons_skip]; exact IH.
Qed.

Lemma sub_firstn n l : sub (firstn n l) l.
Proof.
  revert l. induction n as [|n IH]; intros l; simpl; [apply sub_nil|].
  destruct l as [|x l]; [apply sub_nil|]. apply sub_cons_keep. apply IH.
Qed.

Lemma sub_py_take m l : sub (py_take m l) l.
Proof.
  unfold py_take. destruct m as [k|]; [|apply sub_refl].
  destruct (0 <=? k); apply sub_firstn.
Qed.

Lemma insert_by_perm lt x l : Permutation (insert_by lt x l) (x :: l).
Proof.
  induction l as [|y r IH]; simpl; [apply Permutation_refl|].
  destruct (lt y x).
  - eapply Permutation_trans; [apply perm_skip; exact IH | apply perm_swap].
  - apply Permutation_refl.
Qed.

Lemma sort_by_perm lt l : Permutation (sort_by lt l) l.
Proof.
  induction l as [|x l IH]; simpl; [constructor|].
  unfold sort_by in *. simpl.
  eapply Permutation_trans; [apply insert_by_perm | apply perm_skip; exact IH].
Qed.

Lemma sub_sort lt l : sub (sort_by lt l) l.
Proof. apply sub_perm. apply sort_by_perm. Qed.

Lemma sub_find p l u : find p l = Some u -> sub [u] l /\ p u = true.
Proof.
  intros H. pose proof (find_some _ _ H) as [Hin Hp]. split; [|exact Hp].
  split.
  - intros v [E|[]]. subst. exact Hin.
  - intros _. simpl. constructor; [intros []|constructor].
Qed.

(* the accumulation loop *)
Lemma greedy_spec amount : forall l total s t,
  greedy amount total l = (s, t) ->
  t = total + sum_values s /\ sub s l /\ (s <> [] -> amount <= t \/ t <? amount = true).
Proof.
  induction l as [|u r IH]; intros total s t H; simpl in H.
  - inversion H; subst. simpl. split; [lia|]. split; [apply sub_nil|]. intros C. contradiction.
  - destruct (total <? amount) eqn:E.
    + destruct (greedy amount (total + u_value u) r) as [s' t'] eqn:G.
      inversion H; subst. destruct (IH _ _ _ G) as [A [B C]].
      split; [simpl; lia|]. split; [apply sub_cons_keep; exact B|].
      intros _. destruct (t <? amount) eqn:F; [right; reflexivity | left; apply Z.ltb_ge in F; lia].
    + destruct (IH _ _ _ H) as [A [B C]]. split; [exact A|]. split; [apply sub_cons_skip; exact B| exact C].
Qed.

Lemma candidate_spec minc dust u :
  candidate minc dust u = true -> u_spent u = false /\ minc <= u_conf u /\ dust <= u_value u.
Proof.
  unfold candidate. intros H. apply andb_prop in H. destruct H as [H H3].
  apply andb_prop in H. destruct H as [H1 H2].
  apply negb_true_iff in H1. apply Z.leb_le in H2. apply Z.leb_le in H3. auto.
Qed.

Lemma sub_candidates minc dust view : sub (candidates minc dust view) view.
Proof. apply sub_filter. Qed.

Lemma in_candidates minc dust view u :
  In u (candidates minc dust view) -> u_spent u = false /\ minc <= u_conf u /\ dust <= u_value u.
Proof. unfold candidates. intros H. apply filter_In in H. destruct H as [_ H]. apply candidate_spec. exact H. Qed.

Lemma sum_single u : sum_values [u] = u_value u.
Proof. simpl. lia. Qed.

(* main lemma: a non-empty selection covers the amount and is a duplicate-free part of the candidates *)
Lemma select_spec view amount variance minc dust maxu l :
  lib_select_inputs view amount variance minc dust maxu = SelOk l -> l <> [] ->
  amount <= sum_values l /\ sub l (candidates minc dust view).
Proof.
  unfold lib_select_inputs. set (cs := candidates minc dust view).
  destruct cs as [|c0 cr] eqn:Ecs; [discriminate|]. rewrite <- Ecs. clear Ecs.
  intros H Hne.
  destruct (find _ (sort_by lt_conf cs)) as [u|] eqn:F1.
  { inversion H; subst. apply sub_find in F1. destruct F1 as [S P].
    apply andb_prop in P. destruct P as [P _]. apply Z.leb_le in P.
    rewrite sum_single. split; [exact P|]. eapply sub_trans; [exact S | apply sub_sort]. }
  destruct (find _ (sort_by lt_conf_val_asc cs)) as [u|] eqn:F2.
  { inversion H; subst. apply sub_find in F2. destruct F2 as [S P]. apply Z.leb_le in P.
    rewrite sum_single. split; [exact P|]. eapply sub_trans; [exact S | apply sub_sort]. }
  destruct (truthy_max maxu && _).
  { inversion H; subst. contradiction. }
  destruct (greedy amount 0 _) as [sel total] eqn:G.
  destruct (total <? amount) eqn:T.
  { inversion H; subst. contradiction. }
  inversion H; subst. apply greedy_spec in G. destruct G as [A [B _]].
  apply Z.ltb_ge in T. split; [lia|].
  eapply sub_trans; [exact B|]. eapply sub_trans; [apply sub_py_take|].
  eapply sub_trans; [apply sub_filter | apply sub_sort].
Qed.

Theorem select_sufficient_lemma view amount variance minc dust maxu l :
  lib_select_inputs view amount variance minc dust maxu = SelOk l -> l <> [] ->
  amount <= sum_values l /\
  (forall u, In u l -> In u view /\ u_spent u = false /\ minc <= u_conf u /\ dust <= u_value u) /\
  (NoDup (map u_id view) -> NoDup (map u_id l)).
Proof.
  intros H Hne. destruct (select_spec _ _ _ _ _ _ _ H Hne) as [A [B C]].
  split; [exact A|]. split.
  - intros u Hu. pose proof (B u Hu) as Hc. split.
    + apply (proj1 (sub_candidates minc dust view)). exact Hc.
    + apply in_candidates with (view := view). exact Hc.
  - intros N. apply C. apply (proj2 (sub_candidates minc dust view)). exact N.
Qed.

(* nothing is selected from an empty candidate set, and "no utxos" is reported exactly then *)
Lemma select_noutxos view amount variance minc dust maxu :
  lib_select_inputs view amount variance minc dust maxu = SelNoUtxos <-> candidates minc dust view = [].
Proof.
  unfold lib_select_inputs. destruct (candidates minc dust view) as [|c0 cr] eqn:E.
  - split; reflexivity.
  - split; [|discriminate]. intros H.
    destruct (find _ (sort_by lt_conf _)); [discriminate|].
    destruct (find _ (sort_by lt_conf_val_asc _)); [discriminate|].
    destruct (truthy_max maxu && _); [discriminate|].
    destruct (greedy _ _ _) as [s t]. destruct (t <? amount); discriminate.
Qed.

(* sum of a duplicate-free part is bounded by the whole when values are non-negative *)
Lemma sum_values_perm a b : Permutation a b -> sum_values a = sum_values b.
Proof. induction 1; simpl; lia. Qed.

Lemma sum_values_nonneg l : (forall u, In u l -> 0 <= u_value u) -> 0 <= sum_values l.
Proof.
  induction l as [|x l IH]; simpl; intros H; [lia|].
  pose proof (H x (or_introl eq_refl)). assert (0 <= sum_values l) by (apply IH; intros; apply H; right; auto). lia.
Qed.

(* ---- multiset inclusion, for bounding the sum of a selection by the sum of the candidates *)
Definition msub (s l : list utxo) : Prop := exists r, Permutation (s ++ r) l.

Lemma msub_refl l : msub l l.
Proof. exists []. rewrite app_nil_r. apply Permutation_refl. Qed.

Lemma msub_trans a b c : msub a b -> msub b c -> msub a c.
Proof.
  intros [r1 P1] [r2 P2]. exists (r1 ++ r2). rewrite app_assoc.
  eapply Permutation_trans; [apply Permutation_app_tail; exact P1 | exact P2].
Qed.

Lemma msub_perm a b : Permutation a b -> msub a b.
Proof. intros P. exists []. rewrite app_nil_r. exact P. Qed.

Lemma msub_nil l : msub [] l.
Proof. exists l. apply Permutation_refl. Qed.

Lemma msub_cons_keep x s l : msub s l -> msub (x :: s) (x :: l).
Proof. intros [r P]. exists r. simpl. apply perm_skip. exact P. Qed.

Lemma msub_cons_skip x s l : msub s l -> msub s (x :: l).
Proof.
  intros [r P]. exists (x :: r). eapply Permutation_trans; [apply Permutation_sym; apply Permutation_middle|].
  apply perm_skip. exact P.
Qed.

Lemma msub_filter p l : msub (filter p l) l.
Proof.
  induction l as [|x l IH]; simpl; [apply msub_nil|].
  destruct (p x); [apply msub_cons_keep | apply msub_cons_skip]; exact IH.
Qed.

Lemma msub_firstn n l : msub (firstn n l) l.
Proof. exists (skipn n l). rewrite firstn_skipn. apply Permutation_refl. Qed.

Lemma msub_py_take m l : msub (py_take m l) l.
Proof.
  unfold py_take. destruct m as [k|]; [|apply msub_refl].
  destruct (0 <=? k); apply msub_firstn.
Qed.

Lemma msub_find p l u : find p l = Some u -> msub [u] l.
Proof.
  intros H. apply find_some in H. destruct H as [Hin _].
  apply in_split in Hin. destruct Hin as [l1 [l2 E]]. subst.
  exists (l1 ++ l2). simpl. apply Permutation_middle.
Qed.

Lemma greedy_msub amount : forall l total s t, greedy amount total l = (s, t) -> msub s l.
Proof.
  induction l as [|u r IH]; intros total s t H; simpl in H.
  - inversion H; subst. apply msub_nil.
  - destruct (total <? amount).
    + destruct (greedy amount (total + u_value u) r) as [s' t'] eqn:G. inversion H; subst.
      apply msub_cons_keep. eapply IH. exact G.
    + apply msub_cons_skip. eapply IH. exact H.
Qed.

Lemma sum_values_app a b : sum_values (a ++ b) = sum_values a + sum_values b.
Proof. induction a; simpl; lia. Qed.

Lemma msub_sum s l : msub s l -> (forall u, In u l -> 0 <= u_value u) -> sum_values s <= sum_values l.
Proof.
  intros [r P] H. rewrite <- (sum_values_perm _ _ P), sum_values_app.
  assert (0 <= sum_values r).
  { apply sum_values_nonneg. intros u Hu. apply H. eapply Permutation_in; [exact P|]. apply in_or_app. right. exact Hu. }
  lia.
Qed.

Lemma select_msub view amount variance minc dust maxu l :
  lib_select_inputs view amount variance minc dust maxu = SelOk l ->
  msub l (candidates minc dust view).
Proof.
  unfold lib_select_inputs. set (cs := candidates minc dust view).
  destruct cs as [|c0 cr] eqn:Ecs; [discriminate|]. rewrite <- Ecs. clear Ecs.
  intros H.
  destruct (find _ (sort_by lt_conf cs)) as [u|] eqn:F1.
  { inversion H; subst. eapply msub_trans; [eapply msub_find; exact F1 | apply msub_perm, sort_by_perm]. }
  destruct (find _ (sort_by lt_conf_val_asc cs)) as [u|] eqn:F2.
  { inversion H; subst. eapply msub_trans; [eapply msub_find; exact F2 | apply msub_perm, sort_by_perm]. }
  destruct (truthy_max maxu && _).
  { inversion H; subst. apply msub_nil. }
  destruct (greedy amount 0 _) as [sel total] eqn:G.
  destruct (total <? amount).
  { inversion H; subst. apply msub_nil. }
  inversion H; subst. apply greedy_msub in G.
  eapply msub_trans; [exact G|]. eapply msub_trans; [apply msub_py_take|].
  eapply msub_trans; [apply msub_filter | apply msub_perm, sort_by_perm].
Qed.

(* a selection never exceeds what is available *)
Lemma select_le_available view amount variance minc dust maxu l :
  0 <= dust ->
  lib_select_inputs view amount variance minc dust maxu = SelOk l ->
  sum_values l <= sum_values (candidates minc dust view).
Proof.
  intros Hd H. apply msub_sum; [eapply select_msub; exact H|].
  intros u Hu. apply in_candidates in Hu. lia.
Qed.
