(* Proofs/SighashCommit.v — C01: the consensus preimages are injective in the fields they commit to.
   No collision-freeness is assumed anywhere: for BIP143 the conclusion stops at the equality of the three inner
   hashes, and a second theorem continues constructively ("the inner lists are equal, or here is a collision"). *)
From Coq Require Import ZArith List Bool Lia Arith.
From Coq.Strings Require Import Byte.
From Verif Require Import Lib.Bytes Model.Wire Proofs.CompactSize Model.TxCodec Gen.GenConsts
  Model.Sighash Proofs.Sighash Proofs.SighashEq.
Import ListNotations.
Open Scope Z_scope.

(* ---------- splitting concatenations ---------- *)

Lemma app_inv_len {A} (a a' b b' : list A) :
  length a = length a' -> a ++ b = a' ++ b' -> a = a' /\ b = b'.
Proof.
  revert a'. induction a as [|x a IH]; intros [|y a'] Hl E; try discriminate Hl.
  - split; [reflexivity|exact E].
  - cbn [app] in E. injection E as -> E. cbn [length] in Hl.
    destruct (IH a' ltac:(lia) E) as [-> ->]. split; reflexivity.
Qed.

Lemma le_split k a a' (b b' : bytes) :
  0 <= a < 256 ^ Z.of_nat k -> 0 <= a' < 256 ^ Z.of_nat k ->
  le_bytes k a ++ b = le_bytes k a' ++ b' -> a = a' /\ b = b'.
Proof.
  intros Ha Ha' E. apply app_inv_len in E; [|rewrite !le_bytes_length; reflexivity].
  destruct E as [E ->]. split; [|reflexivity]. eapply le_bytes_inj; eassumption.
Qed.

Lemma le4_split a a' (b b' : bytes) :
  0 <= a < 2 ^ 32 -> 0 <= a' < 2 ^ 32 -> le_bytes 4 a ++ b = le_bytes 4 a' ++ b' -> a = a' /\ b = b'.
Proof. apply (le_split 4). Qed.

Lemma le8_split a a' (b b' : bytes) :
  0 <= a < 2 ^ 64 -> 0 <= a' < 2 ^ 64 -> le_bytes 8 a ++ b = le_bytes 8 a' ++ b' -> a = a' /\ b = b'.
Proof. apply (le_split 8). Qed.

Lemma varbytes_split (c c' r r' : bytes) :
  Z.of_nat (length c) < 2 ^ 64 -> Z.of_nat (length c') < 2 ^ 64 ->
  ser_varbytes c ++ r = ser_varbytes c' ++ r' -> c = c' /\ r = r'.
Proof.
  intros Hc Hc' E. unfold ser_varbytes in E. rewrite <- !app_assoc in E.
  destruct (cs_prefix_free _ _ _ _ _ _ (cs_enc_len c Hc) (cs_enc_len c' Hc') E) as [Hn E'].
  apply Nat2Z.inj in Hn. apply app_inv_len in E'; [exact E'|exact Hn].
Qed.

Lemma concat_map_inj0 {A} (f : A -> bytes) (P : A -> Prop) :
  (forall a b r r', P a -> P b -> f a ++ r = f b ++ r' -> a = b /\ r = r') ->
  (forall a, P a -> f a <> []) ->
  forall l l', Forall P l -> Forall P l' -> concat (map f l) = concat (map f l') -> l = l'.
Proof.
  intros Hinj Hne. induction l as [|a l IH]; intros [|b l'] Hl Hl' E.
  - reflexivity.
  - exfalso. inversion Hl'; subst. cbn [map concat] in E. symmetry in E. apply app_eq_nil in E.
    destruct E as [E _]. eapply Hne; eassumption.
  - exfalso. inversion Hl; subst. cbn [map concat] in E. apply app_eq_nil in E.
    destruct E as [E _]. eapply Hne; eassumption.
  - inversion Hl; subst. inversion Hl'; subst. cbn [map concat] in E.
    destruct (Hinj a b _ _ ltac:(assumption) ltac:(assumption) E) as [-> E'].
    f_equal. apply IH; assumption.
Qed.

Lemma concat_map_inj {A} (f : A -> bytes) (P : A -> Prop) :
  (forall a b r r', P a -> P b -> f a ++ r = f b ++ r' -> a = b /\ r = r') ->
  forall l l' r r', length l = length l' -> Forall P l -> Forall P l' ->
  concat (map f l) ++ r = concat (map f l') ++ r' -> l = l' /\ r = r'.
Proof.
  intros Hinj. induction l as [|a l IH]; intros [|b l'] r r' Hlen Hl Hl' E; try discriminate Hlen.
  - split; [reflexivity|exact E].
  - inversion Hl; subst. inversion Hl'; subst. cbn [map concat] in E. rewrite <- !app_assoc in E.
    destruct (Hinj a b _ _ ltac:(assumption) ltac:(assumption) E) as [-> E'].
    cbn [length] in Hlen.
    destruct (IH l' r r' ltac:(lia) ltac:(assumption) ltac:(assumption) E') as [-> ->]. split; reflexivity.
Qed.

Lemma ser_list_inj {A} (f : A -> bytes) (P : A -> Prop) :
  (forall a b r r', P a -> P b -> f a ++ r = f b ++ r' -> a = b /\ r = r') ->
  forall l l' r r', Z.of_nat (length l) < 2 ^ 64 -> Z.of_nat (length l') < 2 ^ 64 -> Forall P l -> Forall P l' ->
  ser_list f l ++ r = ser_list f l' ++ r' -> l = l' /\ r = r'.
Proof.
  intros Hinj l l' r r' Hn Hn' Hl Hl' E. unfold ser_list in E. rewrite <- !app_assoc in E.
  destruct (cs_prefix_free _ _ _ _ _ _ (cs_enc_len l Hn) (cs_enc_len l' Hn') E) as [Hlen E'].
  apply Nat2Z.inj in Hlen. eapply concat_map_inj; eassumption.
Qed.

(* ---------- element serializers are prefix-injective on their domains ---------- *)

Definition wf_outpoint (o : bytes * Z) : Prop := length (fst o) = 32%nat /\ 0 <= snd o < 2 ^ 32.
Definition ser_op (o : bytes * Z) : bytes := fst o ++ le_bytes 4 (snd o).

Lemma ser_op_inj a b r r' : wf_outpoint a -> wf_outpoint b -> ser_op a ++ r = ser_op b ++ r' -> a = b /\ r = r'.
Proof.
  destruct a as [p v], b as [p' v']. unfold wf_outpoint, ser_op. cbn [fst snd].
  intros [Hp Hv] [Hp' Hv'] E. rewrite <- !app_assoc in E.
  apply app_inv_len in E; [|congruence]. destruct E as [-> E].
  apply le4_split in E; try assumption. destruct E as [-> ->]. split; reflexivity.
Qed.

Lemma ser_op_ne a : wf_outpoint a -> ser_op a <> [].
Proof.
  destruct a as [p v]. unfold wf_outpoint, ser_op. cbn [fst snd]. intros [Hp _] E.
  apply app_eq_nil in E. destruct E as [E _]. rewrite E in Hp. discriminate.
Qed.

Definition wf_seq (q : Z) : Prop := 0 <= q < 2 ^ 32.

Lemma ser_seq_inj a b (r r' : bytes) : wf_seq a -> wf_seq b -> le_bytes 4 a ++ r = le_bytes 4 b ++ r' -> a = b /\ r = r'.
Proof. intros Ha Hb E. apply le4_split; assumption. Qed.

Definition wf_txout (o : txout) : Prop := 0 <= to_value o < 2 ^ 64 /\ Z.of_nat (length (to_script o)) < 2 ^ 64.

Lemma ser_out_inj a b r r' : wf_txout a -> wf_txout b -> ser_out a ++ r = ser_out b ++ r' -> a = b /\ r = r'.
Proof.
  destruct a as [v s], b as [v' s']. unfold wf_txout, ser_out. cbn [to_value to_script].
  intros [Hv Hs] [Hv' Hs'] E. rewrite <- !app_assoc in E.
  apply le8_split in E; try assumption. destruct E as [-> E].
  apply varbytes_split in E; try assumption. destruct E as [-> ->]. split; reflexivity.
Qed.

Lemma ser_out_ne a : ser_out a <> [].
Proof. unfold ser_out. cbn [le_bytes]. discriminate. Qed.

Definition wf_txin0 (i : txin) : Prop :=
  length (ti_prev i) = 32%nat /\ 0 <= ti_vout i < 2 ^ 32 /\ 0 <= ti_seq i < 2 ^ 32 /\
  Z.of_nat (length (ti_script i)) < 2 ^ 64 /\ ti_wit i = [].

Lemma ser_in_inj a b r r' : wf_txin0 a -> wf_txin0 b -> ser_in a ++ r = ser_in b ++ r' -> a = b /\ r = r'.
Proof.
  destruct a as [p v s q w], b as [p' v' s' q' w']. unfold wf_txin0, ser_in.
  cbn [ti_prev ti_vout ti_script ti_seq ti_wit].
  intros (Hp & Hv & Hq & Hs & Hw) (Hp' & Hv' & Hq' & Hs' & Hw') E. subst w w'.
  rewrite <- !app_assoc in E.
  apply app_inv_len in E; [|congruence]. destruct E as [-> E].
  apply le4_split in E; try assumption. destruct E as [-> E].
  apply varbytes_split in E; try assumption. destruct E as [-> E].
  apply le4_split in E; try assumption. destruct E as [-> ->]. split; reflexivity.
Qed.

Lemma wf_sout_txout o : wf_sout o -> wf_txout o.
Proof. intros (Hv & Hl & _). split; assumption. Qed.

Lemma Forall_wf_txout outs : Forall wf_sout outs -> Forall wf_txout outs.
Proof. intros Hf. eapply Forall_impl; [|exact Hf]. exact wf_sout_txout. Qed.

Section WithHashes.
Context (H : bytes -> bytes) (H160 : bytes -> bytes).
Hypothesis H_len : forall b, length (H b) = 32%nat.
Hypothesis H160_len : forall b, length (H160 b) = 20%nat.

Lemma zero32_len : length zero32 = 32%nat.
Proof. reflexivity. Qed.

Lemma hp_len t ht : length (spec_hash_prevouts H t ht) = 32%nat.
Proof. unfold spec_hash_prevouts. destruct (ht_acp ht); [reflexivity|apply H_len]. Qed.

Lemma hs_len t ht : length (spec_hash_sequence H t ht) = 32%nat.
Proof. unfold spec_hash_sequence. destruct (_ && _); [apply H_len|reflexivity]. Qed.

Lemma ho_len t i ht : length (spec_hash_outputs H t i ht) = 32%nat.
Proof.
  unfold spec_hash_outputs. destruct (_ && _); [apply H_len|].
  destruct (ht_single ht); [|reflexivity]. destruct (nth_error _ _); [apply H_len|reflexivity].
Qed.

Lemma code_len64 x : wf_sin x -> Z.of_nat (length (si_code H160 x)) < 2 ^ 64.
Proof.
  intros Hw. pose proof (si_code_small H160 H160_len x Hw) as [_ Hhi].
  assert (Z.of_nat 1100 < 2 ^ 64) by (vm_compute; reflexivity). lia.
Qed.

(* BIP143: equal preimages commit to equal version, outpoint, script code, amount, sequence, locktime,
   hash type and to equal inner hashes.  t, t' and the positions i, i' are arbitrary. *)
Theorem bip143_commits t t' i i' ht ht' x x' p :
  wf_stx t -> wf_stx t' ->
  nth_error (st_ins t) i = Some x -> nth_error (st_ins t') i' = Some x' ->
  0 <= ht < 2 ^ 32 -> 0 <= ht' < 2 ^ 32 ->
  spec_bip143_preimage H H160 t i ht = Some p -> spec_bip143_preimage H H160 t' i' ht' = Some p ->
  st_version t = st_version t' /\
  ti_prev (si_in x) = ti_prev (si_in x') /\ ti_vout (si_in x) = ti_vout (si_in x') /\
  si_code H160 x = si_code H160 x' /\
  si_value x = si_value x' /\
  ti_seq (si_in x) = ti_seq (si_in x') /\
  st_locktime t = st_locktime t' /\
  ht = ht' /\
  spec_hash_prevouts H t ht = spec_hash_prevouts H t' ht' /\
  spec_hash_sequence H t ht = spec_hash_sequence H t' ht' /\
  spec_hash_outputs H t i ht = spec_hash_outputs H t' i' ht'.
Proof.
  intros (Hver & Hlock & _ & _ & Hins & _) (Hver' & Hlock' & _ & _ & Hins' & _) Hx Hx' Hht Hht' E E'.
  unfold spec_bip143_preimage in E, E'. rewrite Hx in E. rewrite Hx' in E'.
  assert (EE : forall a b : bytes, Some a = Some p -> Some b = Some p -> a = b) by (intros; congruence).
  pose proof (EE _ _ E E') as Q. clear E E' EE.
  pose proof (Forall_nth_error _ _ _ _ Hins Hx) as Hw.
  pose proof (Forall_nth_error _ _ _ _ Hins' Hx') as Hw'.
  pose proof Hw as (Hp & Hv & Hq & Hval & _). pose proof Hw' as (Hp' & Hv' & Hq' & Hval' & _).
  apply le4_split in Q; try assumption. destruct Q as [Ever Q].
  apply app_inv_len in Q; [|rewrite !hp_len; reflexivity]. destruct Q as [Ehp Q].
  apply app_inv_len in Q; [|rewrite !hs_len; reflexivity]. destruct Q as [Ehs Q].
  unfold ser_outpoint in Q. rewrite <- !app_assoc in Q.
  apply app_inv_len in Q; [|congruence]. destruct Q as [Eprev Q].
  apply le4_split in Q; try assumption. destruct Q as [Evout Q].
  apply varbytes_split in Q; try (apply code_len64; assumption). destruct Q as [Ecode Q].
  apply le8_split in Q; try lia. destruct Q as [Eval Q].
  apply le4_split in Q; try assumption. destruct Q as [Eseq Q].
  apply app_inv_len in Q; [|rewrite !ho_len; reflexivity]. destruct Q as [Eho Q].
  apply le4_split in Q; try assumption. destruct Q as [Elock Q].
  assert (Eht : ht = ht').
  { rewrite <- (app_nil_r (le_bytes 4 ht)), <- (app_nil_r (le_bytes 4 ht')) in Q.
    apply le4_split in Q; try assumption. apply Q. }
  repeat split; assumption.
Qed.

(* one step further, without assuming anything about H: either the hashed lists are equal, or the
   proof exhibits a collision of H *)
Definition collision : Prop := exists a b : bytes, a <> b /\ H a = H b.

Definition outpoints (t : stx) : list (bytes * Z) := map (fun x => (ti_prev (si_in x), ti_vout (si_in x))) (st_ins t).
Definition sequences (t : stx) : list Z := map (fun x => ti_seq (si_in x)) (st_ins t).

Lemma eq_or_collision (a b : bytes) : H a = H b -> a = b \/ collision.
Proof.
  intros E. destruct (bytes_eqb a b) eqn:Eb.
  - left. apply bytes_eqb_true. exact Eb.
  - right. exists a, b. split; [|exact E]. intros ->. rewrite bytes_eqb_refl in Eb. discriminate.
Qed.

Lemma outpoints_ser t : concat (map (fun x => ser_outpoint (si_in x)) (st_ins t)) = concat (map ser_op (outpoints t)).
Proof. unfold outpoints. rewrite map_map. reflexivity. Qed.

Lemma sequences_ser t :
  concat (map (fun x => le_bytes 4 (ti_seq (si_in x))) (st_ins t)) = concat (map (le_bytes 4) (sequences t)).
Proof. unfold sequences. rewrite map_map. reflexivity. Qed.

Lemma wf_outpoints t : wf_stx t -> Forall wf_outpoint (outpoints t).
Proof.
  intros (_ & _ & _ & _ & Hins & _). unfold outpoints. apply Forall_map.
  eapply Forall_impl; [|exact Hins]. intros x (Hp & Hv & _). split; assumption.
Qed.

Lemma wf_sequences t : wf_stx t -> Forall wf_seq (sequences t).
Proof.
  intros (_ & _ & _ & _ & Hins & _). unfold sequences. apply Forall_map.
  eapply Forall_impl; [|exact Hins]. intros x (_ & _ & Hq & _). exact Hq.
Qed.

Lemma le4_ne q : le_bytes 4 q <> [].
Proof. cbn [le_bytes]. discriminate. Qed.

(* SIGHASH_ALL-like hash types: everything the transaction consists of, except scriptSigs, witnesses and the
   amounts / script codes of the other inputs, is committed — or H collides *)
Theorem bip143_commits_all t t' i i' ht ht' x x' p :
  wf_stx t -> wf_stx t' ->
  nth_error (st_ins t) i = Some x -> nth_error (st_ins t') i' = Some x' ->
  0 <= ht < 2 ^ 32 -> 0 <= ht' < 2 ^ 32 -> legacy_all_like ht = true ->
  spec_bip143_preimage H H160 t i ht = Some p -> spec_bip143_preimage H H160 t' i' ht' = Some p ->
  (outpoints t = outpoints t' /\ sequences t = sequences t' /\ st_outs t = st_outs t') \/ collision.
Proof.
  intros Hw Hw' Hx Hx' Hht Hht' Hall E E'.
  destruct (bip143_commits t t' i i' ht ht' x x' p Hw Hw' Hx Hx' Hht Hht' E E')
    as (_ & _ & _ & _ & _ & _ & _ & Eht & Ehp & Ehs & Eho).
  subst ht'. destruct (all_like_flags ht Hall) as (Ha & Hs & Hn).
  unfold spec_hash_prevouts in Ehp. unfold spec_hash_sequence in Ehs. unfold spec_hash_outputs in Eho.
  rewrite Ha in Ehp. rewrite Ha, Hs, Hn in Ehs. rewrite Hs, Hn in Eho. cbn [negb andb] in Ehs, Eho.
  destruct (eq_or_collision _ _ Ehp) as [E1|C]; [|right; exact C].
  destruct (eq_or_collision _ _ Ehs) as [E2|C]; [|right; exact C].
  destruct (eq_or_collision _ _ Eho) as [E3|C]; [|right; exact C].
  left. repeat split.
  - rewrite !outpoints_ser in E1.
    eapply (concat_map_inj0 ser_op wf_outpoint); try eassumption.
    + exact ser_op_inj.
    + exact ser_op_ne.
    + apply wf_outpoints; assumption.
    + apply wf_outpoints; assumption.
  - rewrite !sequences_ser in E2.
    eapply (concat_map_inj0 (le_bytes 4) wf_seq); try eassumption.
    + exact ser_seq_inj.
    + intros q _. apply le4_ne.
    + apply wf_sequences; assumption.
    + apply wf_sequences; assumption.
  - destruct Hw as (_ & _ & _ & _ & _ & Ho). destruct Hw' as (_ & _ & _ & _ & _ & Ho').
    eapply (concat_map_inj0 ser_out wf_txout); try eassumption.
    + exact ser_out_inj.
    + intros o _. apply ser_out_ne.
    + apply Forall_wf_txout; assumption.
    + apply Forall_wf_txout; assumption.
Qed.

(* ---------- legacy SignatureHash, SIGHASH_ALL-like hash types ---------- *)

Lemma map_idx_nth {A B} (f : nat -> A -> B) l : forall j k,
  nth_error (map_idx f j l) k = option_map (f (j + k)%nat) (nth_error l k).
Proof.
  induction l as [|a l IH]; intros j k.
  - destruct k; reflexivity.
  - destruct k as [|k]; cbn [map_idx nth_error option_map].
    + rewrite Nat.add_0_r. reflexivity.
    + rewrite IH. replace (S j + k)%nat with (j + S k)%nat by lia. reflexivity.
Qed.

Lemma Forall_map_idx {A B} (P : A -> Prop) (Q : B -> Prop) (f : nat -> A -> B) l :
  (forall j a, P a -> Q (f j a)) -> Forall P l -> forall j, Forall Q (map_idx f j l).
Proof.
  intros Hf. induction 1 as [|a l Ha _ IH]; intros j; cbn [map_idx]; constructor; auto.
Qed.

Lemma legacy_in_wf i ht j y : wf_sin y -> wf_txin0 (legacy_in H160 i ht j y).
Proof.
  intros Hw. pose proof Hw as (Hp & Hv & Hq & _). unfold wf_txin0, legacy_in.
  cbn [ti_prev ti_vout ti_script ti_seq ti_wit]. repeat split; try assumption; try lia.
  - destruct (_ || _); lia.
  - destruct (_ || _); [apply Hq|lia].
  - destruct (Nat.eqb j i); [apply code_len64; exact Hw|cbn; lia].
Qed.

Lemma legacy_ins_outpoints i ht l : forall j,
  map (fun a => (ti_prev a, ti_vout a)) (map_idx (legacy_in H160 i ht) j l) =
  map (fun x => (ti_prev (si_in x), ti_vout (si_in x))) l.
Proof. induction l as [|a l IH]; intros j; [reflexivity|]. cbn [map_idx map]. rewrite IH. reflexivity. Qed.

Lemma legacy_ins_sequences i ht l : ht_single ht = false -> ht_none ht = false -> forall j,
  map ti_seq (map_idx (legacy_in H160 i ht) j l) = map (fun x => ti_seq (si_in x)) l.
Proof.
  intros Hs Hn. induction l as [|a l IH]; intros j; [reflexivity|]. cbn [map_idx map]. rewrite IH.
  unfold legacy_in at 1. cbn [ti_seq]. rewrite Hs, Hn. cbn [orb negb]. rewrite orb_true_r. reflexivity.
Qed.

(* equal legacy preimages (hash types treated like ALL): every field the serialization contains is equal —
   version, all outpoints, all sequences, all outputs, locktime, hash type, the position of the signed input
   and its script code.  No hash is involved, so nothing is left to a collision argument.  (The amount of the
   spent output is NOT committed by the legacy algorithm.) *)
Theorem legacy_commits t t' i i' ht ht' x x' p :
  wf_stx t -> wf_stx t' ->
  nth_error (st_ins t) i = Some x -> nth_error (st_ins t') i' = Some x' ->
  0 <= ht < 2 ^ 32 -> 0 <= ht' < 2 ^ 32 -> legacy_all_like ht = true -> legacy_all_like ht' = true ->
  spec_legacy_preimage H160 t i ht = Some p -> spec_legacy_preimage H160 t' i' ht' = Some p ->
  st_version t = st_version t' /\ st_locktime t = st_locktime t' /\ ht = ht' /\
  outpoints t = outpoints t' /\ sequences t = sequences t' /\ st_outs t = st_outs t' /\
  i = i' /\ si_code H160 x = si_code H160 x'.
Proof.
  intros Hw Hw' Hx Hx' Hht Hht' Hall Hall' E E'.
  pose proof Hw as (Hver & Hlock & Hni & Hno & Hins & Houts).
  pose proof Hw' as (Hver' & Hlock' & Hni' & Hno' & Hins' & Houts').
  destruct (all_like_flags ht Hall) as (Ha & Hs & Hn).
  destruct (all_like_flags ht' Hall') as (Ha' & Hs' & Hn').
  unfold spec_legacy_preimage in E, E'. rewrite Hx, Hs in E. rewrite Hx', Hs' in E'. cbn [andb] in E, E'.
  unfold legacy_ins, legacy_outs in E, E'. rewrite Ha, Hn, Hs in E. rewrite Ha', Hn', Hs' in E'.
  assert (EE : forall a b : bytes, Some a = Some p -> Some b = Some p -> a = b) by (intros; congruence).
  pose proof (EE _ _ E E') as Q. clear E E' EE.
  unfold spec_ser in Q. cbn [tx_version tx_segwit tx_ins tx_outs tx_locktime] in Q.
  rewrite !app_nil_l in Q. rewrite <- !app_assoc in Q.
  apply le4_split in Q; try assumption. destruct Q as [Ever Q].
  apply (ser_list_inj ser_in wf_txin0 ser_in_inj) in Q;
    try (rewrite map_idx_length; assumption);
    try (apply (Forall_map_idx wf_sin wf_txin0); [intros; apply legacy_in_wf; assumption|assumption]).
  destruct Q as [Eins Q].
  apply (ser_list_inj ser_out wf_txout ser_out_inj) in Q; try assumption; try (apply Forall_wf_txout; assumption).
  destruct Q as [Eouts Q].
  apply le4_split in Q; try assumption. destruct Q as [Elock Q].
  assert (Eht : ht = ht').
  { rewrite <- (app_nil_r (le_bytes 4 ht)), <- (app_nil_r (le_bytes 4 ht')) in Q.
    apply le4_split in Q; try assumption. apply Q. }
  (* position and script code of the signed input *)
  pose proof (f_equal (fun l => nth_error l i) Eins) as En. cbv beta in En.
  rewrite !map_idx_nth in En. rewrite Hx in En. cbn [option_map plus] in En.
  destruct (nth_error (st_ins t') i) as [y'|] eqn:Hy'; [|discriminate En]. cbn [option_map] in En.
  assert (Escr : ti_script (legacy_in H160 i ht i x) = ti_script (legacy_in H160 i' ht' i y')) by congruence.
  unfold legacy_in in Escr. cbn [ti_script] in Escr. rewrite Nat.eqb_refl in Escr.
  pose proof (si_code_small H160 H160_len x (Forall_nth_error _ _ _ _ Hins Hx)) as [Hlo _].
  destruct (Nat.eqb_spec i i') as [Ei|Ei].
  2:{ rewrite Escr in Hlo. cbn [length] in Hlo. lia. }
  subst i'. assert (y' = x') by congruence. subst y'.
  repeat split; try assumption.
  - unfold outpoints. rewrite <- (legacy_ins_outpoints i ht (st_ins t) O), <- (legacy_ins_outpoints i ht' (st_ins t') O).
    rewrite Eins. reflexivity.
  - unfold sequences. rewrite <- (legacy_ins_sequences i ht (st_ins t) Hs Hn O),
      <- (legacy_ins_sequences i ht' (st_ins t') Hs' Hn' O). rewrite Eins. reflexivity.
Qed.

End WithHashes.
