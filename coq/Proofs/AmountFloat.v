(* Proofs/AmountFloat.v — error analysis of  round(RN(r) / d)  in binary64 and its transfer to primitive floats. *)
From Coq Require Import ZArith Reals Lia Lra Bool.
From Coq Require Import Floats.
From Flocq Require Import Core.Core IEEE754.BinarySingleNaN IEEE754.PrimFloat.
From Verif Require Import Float.DecRound Float.B64 Proofs.AmountDecRound.
Open Scope R_scope.

Local Instance fexp64_valid : Valid_exp fexp64 := fexp_correct 53 1024 _.
Local Instance fexp64_mono : Monotone_exp fexp64 := fexp_monotone 53 1024.

(* absolute error of one rounding below 2^25 (amounts in main units are below 2.1e7 < 2^25) *)
Lemma RN_error_25 : forall r, Rabs r < bpow radix2 25 -> Rabs (RN r - r) <= bpow radix2 (-29).
Proof.
intros r Hr.
destruct (Req_dec r 0) as [Hz|Hz].
- subst r. rewrite round_0 by apply valid_rnd_N. rewrite Rminus_0_r, Rabs_R0. apply bpow_ge_0.
- eapply Rle_trans. apply error_le_half_ulp; typeclasses eauto.
  rewrite ulp_neq_0 by exact Hz.
  unfold cexp.
  assert (Hm : (mag radix2 r <= 25)%Z) by (apply mag_le_bpow; assumption).
  assert (He : (fexp64 (mag radix2 r) <= -28)%Z).
  { unfold SpecFloat.fexp, SpecFloat.emin. lia. }
  replace (bpow radix2 (-29)) with (/2 * bpow radix2 (-28)).
  apply Rmult_le_compat_l. lra. apply bpow_le. exact He.
  change (-28)%Z with (1 + -29)%Z. rewrite bpow_plus. simpl (bpow radix2 1). lra.
Qed.

(* a value within 1/4 of an integer below 2^51 rounds (binary64, then to integer) to that integer *)
Lemma near_int_rounds : forall y n, (Z.abs n < 2 ^ 51)%Z -> Rabs (y - IZR n) <= /4 ->
  Rabs (RN y - IZR n) <= /4 /\ ZnearestE (RN y) = n.
Proof.
intros y n Hn Hy.
assert (Hfmt : forall k, (Z.abs k < 2 ^ 53)%Z -> generic_format radix2 fexp64 (IZR k * bpow radix2 (-2))).
{ intros k Hk. apply (generic_format_FLT radix2 (-1074) 53).
  exists (Float radix2 k (-2)). reflexivity. exact Hk. simpl. lia. }
assert (Hlo : generic_format radix2 fexp64 (IZR n - /4)).
{ replace (IZR n - /4) with (IZR (4 * n - 1) * bpow radix2 (-2)).
  apply Hfmt. lia. rewrite minus_IZR, mult_IZR. simpl (bpow radix2 (-2)). lra. }
assert (Hhi : generic_format radix2 fexp64 (IZR n + /4)).
{ replace (IZR n + /4) with (IZR (4 * n + 1) * bpow radix2 (-2)).
  apply Hfmt. lia. rewrite plus_IZR, mult_IZR. simpl (bpow radix2 (-2)). lra. }
apply Rabs_le_inv in Hy.
assert (H1 : IZR n - /4 <= RN y).
{ rewrite <- (round_generic radix2 fexp64 ZnearestE (IZR n - /4)) by exact Hlo.
  apply round_le; try typeclasses eauto. lra. }
assert (H2 : RN y <= IZR n + /4).
{ rewrite <- (round_generic radix2 fexp64 ZnearestE (IZR n + /4)) by exact Hhi.
  apply round_le; try typeclasses eauto. lra. }
split.
- apply Rabs_le. lra.
- apply Znearest_imp. apply Rabs_lt. lra.
Qed.

(* the two-step analysis: x = RN r, then RN (x / d), then nearest integer *)
Lemma two_step_exact : forall r d n,
  0 < d -> Rabs r < bpow radix2 25 -> (Z.abs n < 2 ^ 51)%Z ->
  Rabs (r / d - IZR n) + bpow radix2 (-29) / d <= /4 ->
  Rabs (RN (RN r / d) - IZR n) <= /4 /\ ZnearestE (RN (RN r / d)) = n.
Proof.
intros r d n Hd Hr Hn Hb.
apply near_int_rounds. exact Hn.
replace (RN r / d - IZR n) with ((RN r - r) / d + (r / d - IZR n)) by (field; lra).
eapply Rle_trans. apply Rabs_triang.
assert (Rabs ((RN r - r) / d) <= bpow radix2 (-29) / d).
{ unfold Rdiv. rewrite Rabs_mult. rewrite (Rabs_pos_eq (/ d)).
  apply Rmult_le_compat_r. left; apply Rinv_0_lt_compat; exact Hd. apply RN_error_25; exact Hr.
  left; apply Rinv_0_lt_compat; exact Hd. }
lra.
Qed.

(* ---- transfer to primitive floats ---- *)
Definition FR (x : PrimFloat.float) : R := B2R (Prim2B x).
Definition Ffin (x : PrimFloat.float) : bool := is_finite (Prim2B x).

Lemma FR_SF : forall x, FR x = SF2R radix2 (Prim2SF x).
Proof. intros x. unfold FR. rewrite <- B2SF_Prim2B. symmetry. apply SF2R_B2SF. Qed.

Lemma Ffin_SF : forall x, Ffin x = is_finite_SF (Prim2SF x).
Proof. intros x. unfold Ffin. rewrite <- B2SF_Prim2B. symmetry. apply is_finite_SF_B2SF. Qed.

Lemma FR_format : forall x, generic_format radix2 fexp64 (FR x).
Proof. intros x. apply (generic_format_B2R 53 1024). Qed.

Lemma prim_of_sf : forall z, valid_binary z = true ->
  FR (SF2Prim z) = SF2R radix2 z /\ Ffin (SF2Prim z) = is_finite_SF z.
Proof.
intros z Hz. rewrite FR_SF, Ffin_SF. rewrite Prim2SF_SF2Prim by exact Hz. split; reflexivity.
Qed.

Lemma b64_round_finite : forall x, Ffin x = true -> b64_round x = Some (ZnearestE (FR x)).
Proof.
intros x Hf. unfold b64_round. rewrite FR_SF. rewrite Ffin_SF in Hf.
destruct (Prim2SF x) as [s|s| |s m e]; try discriminate Hf.
- simpl. f_equal. symmetry. apply Znearest_imp. rewrite Rminus_diag_eq by reflexivity. rewrite Rabs_R0. lra.
- apply sf_to_Z_rne_finite.
Qed.

Lemma prim_div : forall v d, Ffin v = true -> FR d <> 0 ->
  Rabs (RN (FR v / FR d)) < bpow radix2 1024 ->
  FR (v / d)%float = RN (FR v / FR d) /\ Ffin (v / d)%float = true.
Proof.
intros v d Hv Hd Hlt. unfold FR, Ffin in *.
rewrite div_equiv.
generalize (Bdiv_correct prec emax Hprec Hmax mode_NE (Prim2B v) (Prim2B d) Hd).
simpl round_mode.
rewrite Rlt_bool_true by exact Hlt.
intros [H1 [H2 _]]. split. exact H1. rewrite H2. exact Hv.
Qed.

Lemma FR_one : FR one = 1.
Proof. rewrite FR_SF. vm_compute Prim2SF. unfold SF2R, F2R. simpl. lra. Qed.

Lemma Ffin_one : Ffin one = true.
Proof. rewrite Ffin_SF. reflexivity. Qed.

Lemma prim_mul_one : forall v, Ffin v = true -> FR (v * one)%float = FR v /\ Ffin (v * one)%float = true.
Proof.
intros v Hv.
assert (Hr : RN (FR v * FR one) = FR v).
{ rewrite FR_one, Rmult_1_r. apply round_generic. apply valid_rnd_N. apply FR_format. }
assert (Hb : Rabs (FR v) < bpow radix2 1024).
{ unfold FR. apply (abs_B2R_lt_emax 53 1024). }
unfold FR, Ffin in *.
rewrite mul_equiv.
generalize (Bmult_correct prec emax Hprec Hmax mode_NE (Prim2B v) (Prim2B one)).
simpl round_mode. change (SpecFloat.fexp prec emax) with fexp64. rewrite Hr.
rewrite Rlt_bool_true by exact Hb.
intros [H1 [H2 _]]. split. exact H1. rewrite H2, Hv. exact Ffin_one.
Qed.

Lemma prim_mul : forall v w, Ffin v = true -> Ffin w = true ->
  Rabs (RN (FR v * FR w)) < bpow radix2 1024 ->
  FR (v * w)%float = RN (FR v * FR w) /\ Ffin (v * w)%float = true.
Proof.
intros v w Hv Hw Hlt. unfold FR, Ffin in *.
rewrite mul_equiv.
generalize (Bmult_correct prec emax Hprec Hmax mode_NE (Prim2B v) (Prim2B w)).
simpl round_mode. change (SpecFloat.fexp prec emax) with fexp64.
rewrite Rlt_bool_true by exact Hlt.
intros [H1 [H2 _]]. split. exact H1. rewrite H2, Hv, Hw. reflexivity.
Qed.

(* float("<digits of n>") is n itself below 2^53 *)
Lemma RN_int53 : forall n, (Z.abs n < 2 ^ 53)%Z -> RN (IZR n) = IZR n.
Proof.
intros n Hn. apply round_generic. apply valid_rnd_N.
apply (generic_format_FLT radix2 (-1074) 53).
exists (Float radix2 n 0). unfold F2R; simpl; ring. exact Hn. simpl; lia.
Qed.

Lemma b64_of_dec_int : forall n, (0 < n < 2 ^ 53)%Z ->
  FR (b64_of_dec false n 0) = IZR n /\ Ffin (b64_of_dec false n 0) = true.
Proof.
intros n Hn.
assert (Hdec : dec_to_sf false n 0 = ratio_to_sf false n 1).
{ unfold dec_to_sf.
  replace (n <=? 0)%Z with false by (symmetry; apply Z.leb_gt; lia).
  replace (310 <? 0)%Z with false by reflexivity.
  replace (0 + (Z.log2 n + 1) <? -330)%Z with false
    by (symmetry; apply Z.ltb_ge; pose proof (Z.log2_nonneg n); lia).
  simpl (0 <=? 0)%Z. cbv iota. rewrite Z.pow_0_r, Z.mul_1_r. reflexivity. }
unfold b64_of_dec. rewrite Hdec.
destruct (ratio_to_sf_correct false n 1) as [Hv Hz]; try lia.
replace (IZR n / IZR 1) with (IZR n) in Hz by (simpl; field).
rewrite RN_int53 in Hz by lia.
destruct Hz as [Hz1 [Hz2 _]].
{ apply Rlt_trans with (bpow radix2 53). rewrite <- abs_IZR. change (bpow radix2 53) with (IZR (2 ^ 53)).
  apply IZR_lt. lia. apply bpow_lt. lia. }
destruct (prim_of_sf _ Hv) as [Hf1 Hf2]. rewrite Hz1 in Hf1. rewrite Hz2 in Hf2.
split; assumption.
Qed.
