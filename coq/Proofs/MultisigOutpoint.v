(* Proofs/MultisigOutpoint.v — the concrete outpoint behind the abstract name [ti_prev] of Model/Multisig.v.

   An Input object holds the output index as 4 bytes BIG endian (Input.output_n); the wire format writes the same
   number as 4 bytes LITTLE endian after the byte-reversed txid.  When a cosigner wallet imports a Transaction object
   or raw hex, Wallet.transaction_create reads the object's field back with int.from_bytes(output_n, 'big') and
   builds a new Input from (prev_txid, that number).  [handoff_preserves_committed_fields] speaks about the abstract
   name; the lemmas here say that the concrete reading is the identity on every 32-bit index and that distinct
   (txid, index) pairs have distinct wire outpoints, so "same name" and "same 36 bytes in the signed digest" coincide.
   The witness at the end shows what reading the field with the other byte order does: index 1 becomes 16777216. *)
From Coq Require Import ZArith List Lia.
From Coq.Strings Require Import Byte.
From Verif Require Import Lib.Bytes.
Import ListNotations.
Open Scope Z_scope.

Definition input_index_field (n : Z) : bytes := be_bytes 4 n.          (* Input.output_n *)
Definition lib_import_index (f : bytes) : Z := of_be f.                (* int.from_bytes(output_n, 'big') *)
Definition wire_outpoint (txid : bytes) (n : Z) : bytes := rev txid ++ le_bytes 4 n.

(* what an importing wallet puts on the wire for an input it was handed as an object *)
Definition lib_import_outpoint (txid : bytes) (field : bytes) : bytes := wire_outpoint txid (lib_import_index field).

Lemma import_index_roundtrip n : 0 <= n < 2 ^ 32 -> lib_import_index (input_index_field n) = n.
Proof. intros H. unfold lib_import_index, input_index_field. apply of_be_be_bytes_small. exact H. Qed.

Lemma import_keeps_outpoint txid n :
  0 <= n < 2 ^ 32 -> lib_import_outpoint txid (input_index_field n) = wire_outpoint txid n.
Proof. intros H. unfold lib_import_outpoint. rewrite import_index_roundtrip by exact H. reflexivity. Qed.

Lemma wire_outpoint_length txid n : length (wire_outpoint txid n) = (length txid + 4)%nat.
Proof. unfold wire_outpoint. rewrite app_length, rev_length, le_bytes_length. reflexivity. Qed.

Lemma app_inj_same_length {A} (a : list A) : forall b c d, length a = length c -> a ++ b = c ++ d -> a = c /\ b = d.
Proof.
  induction a as [|x a IH]; intros b c d Hl He; destruct c as [|y c]; simpl in *; try discriminate.
  - split; [reflexivity | exact He].
  - injection He as Hx Hr. injection Hl as Hl. destruct (IH b c d Hl Hr) as [Ha Hb]. subst. split; reflexivity.
Qed.

Lemma wire_outpoint_inj t1 n1 t2 n2 :
  length t1 = length t2 -> 0 <= n1 < 2 ^ 32 -> 0 <= n2 < 2 ^ 32 ->
  wire_outpoint t1 n1 = wire_outpoint t2 n2 -> t1 = t2 /\ n1 = n2.
Proof.
  intros Hl H1 H2 He. unfold wire_outpoint in He.
  apply app_inj_same_length in He; [| rewrite !rev_length; exact Hl].
  destruct He as [Ht Hn]. split.
  - rewrite <- (rev_involutive t1), <- (rev_involutive t2), Ht. reflexivity.
  - apply (le_bytes_inj 4); assumption.
Qed.

(* reading the object's field with the other byte order: output 1 of a funding transaction becomes output 16777216 *)
Example import_other_byte_order_refuted : of_le (input_index_field 1) = 16777216 /\ of_le (input_index_field 1) <> 1.
Proof. vm_compute. split; [reflexivity | discriminate]. Qed.

Example import_index_example :
  lib_import_index (input_index_field 65536) = 65536 /\ input_index_field 65536 = [x00; x01; x00; x00]%byte
  /\ le_bytes 4 65536 = [x00; x00; x01; x00]%byte.
Proof. vm_compute. repeat split; reflexivity. Qed.
