(* Proofs/Base58Fixed.v — the fixed-length Base58Check guards of the key importers (bitcoinlib/keys.py):
     HDKey.from_wif, HDKey.__init__ (extended keys):  bkey = change_base(s, 58, 256); len(bkey) != 82 -> raise;
                                                       bkey[-4:] != double_sha256(bkey[:-4])[:4] -> raise
     bip38_decrypt:                                    the same with 43.
   An accepted string decodes to EXACTLY the prescribed number of bytes, the last four are the checksum of all the
   others (the whole payload, nothing before or after it escapes the checksum), and the string is THE Base58Check
   spelling of that payload — so payload + junk, junk + payload, a payload one byte short, or a right-length body with a
   wrong checksum byte are all refused.  H is arbitrary (double SHA-256 in the implementation). *)
From Coq Require Import ZArith List Bool Lia.
From Coq.Strings Require Import Byte.
From Verif Require Import Lib.Bytes Model.Base58 Proofs.Base58.
Import ListNotations.

Section WithHash.
Variable H : bytes -> bytes.

Definition lib_fixed_check (total : nat) (s : bytes) : option bytes :=
  match lib_b58_dec false s 0 with
  | None => None
  | Some d =>
      if negb (Nat.eqb (length d) total) then None
      else if bytes_eqb (skipn (length d - 4) d) (firstn 4 (H (firstn (length d - 4) d)))
           then Some (firstn (length d - 4) d) else None
  end.

Definition lib_xkey_check := lib_fixed_check 82.      (* HDKey.from_wif / HDKey(import_key = extended key string) *)
Definition lib_bip38_check := lib_fixed_check 43.     (* bip38_decrypt *)

Lemma fixed_accepted_has_exact_length : forall total s p,
  (4 <= total)%nat -> lib_fixed_check total s = Some p ->
  length p = (total - 4)%nat /\
  exists d, spec_b58_dec s = Some d /\ length d = total /\ d = p ++ firstn 4 (H p) /\ s = b58check_enc H p.
Proof.
  intros total s p Ht. unfold lib_fixed_check. rewrite lib_b58_dec_spec.
  destruct (spec_b58_dec s) as [b|] eqn:E; [|discriminate].
  unfold pad_left. cbn [Nat.sub repeat app].
  destruct b as [|b0 b']; [discriminate|]. remember (b0 :: b') as d eqn:Dd. clear Dd.
  destruct (Nat.eqb (length d) total) eqn:L; cbn [negb]; [|discriminate].
  apply Nat.eqb_eq in L.
  destruct (bytes_eqb _ _) eqn:C; [|discriminate].
  apply bytes_eqb_true in C. intros Hp. injection Hp as Hp.
  assert (Hd : d = p ++ firstn 4 (H p)).
  { rewrite <- (firstn_skipn (length d - 4) d) at 1. rewrite C, Hp. reflexivity. }
  split.
  - rewrite <- Hp, firstn_length. lia.
  - exists d. repeat split; try assumption.
    unfold b58check_enc. rewrite <- Hd. symmetry. apply b58_enc_dec. exact E.
Qed.

(* a body of any other length is refused whatever its bytes are: in particular payload ++ checksum ++ junk *)
Lemma fixed_other_length_refused : forall total s d,
  spec_b58_dec s = Some d -> length d <> total -> lib_fixed_check total s = None.
Proof.
  intros total s d E L. unfold lib_fixed_check. rewrite lib_b58_dec_spec, E.
  unfold pad_left. cbn [Nat.sub repeat app].
  destruct d as [|d0 d']; [reflexivity|].
  destruct (Nat.eqb (length (d0 :: d')) total) eqn:Q; [apply Nat.eqb_eq in Q; contradiction|reflexivity].
Qed.

End WithHash.
