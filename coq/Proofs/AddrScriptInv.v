(* Proofs/AddrScriptInv.v — C05: raw locking script -> script type and address. *)
From Coq Require Import ZArith List Bool Lia String.
From Coq.Strings Require Import Byte.
From Verif Require Import Lib.Bytes Gen.GenNetworks Gen.GenConsts Model.Wire Model.AddrScript.
From Verif Require Import Proofs.ScriptCodec Proofs.AddrScriptSpec Proofs.AddrScriptTac.
Import ListNotations.
Open Scope Z_scope.

Section WithH.
Variable H160 : bytes -> bytes.

(* =========================== raw locking script -> type and address =========================== *)
Lemma lib_out_script_eq fx net s : s <> [] -> fx_tb fx s = s ->
  lib_out_script H160 fx net s =
  lib_output_k H160 fx {| a_addr := AaNone; a_hash := []; a_pubkey := []; a_lock := s; a_stype := None;
                          a_witver := 0; a_enc := None; a_net := net |} (lib_script_parse s).
Proof.
  intros Hne Htb. unfold lib_out_script.
  rewrite lib_output_eq; [ | reflexivity | apply tb_of; exact Htb | reflexivity | exact I
                           | cbn [a_addr a_hash a_pubkey a_lock]; destruct s; [congruence|reflexivity] ].
  cbn [a_lock]. destruct s; [congruence|reflexivity].
Qed.

Definition std_cmds (d : dest) : list cmd :=
  match d_stype d with
  | P2pkh => [Op x76; Op xa9; Data (d_payload d); Op x88; Op xac]
  | P2sh => [Op xa9; Data (d_payload d); Op x87]
  | _ => [Op (spec_opn (d_witver d)); Data (d_payload d)]
  end.

(* the real parser (whole-script heuristic, sub-script re-parsing, multisig checks included) reads a
   standard locking script as exactly its template items *)
Lemma payload_is_data d : standard d = true -> get_data_type (d_payload d) = DData.
Proof.
  intros Hstd. apply gdt_hash. destruct d as [st w p]. unfold standard in Hstd.
  cbn [d_stype d_witver d_payload] in *.
  destruct st; apply andb_true_iff in Hstd; destruct Hstd as [_ H];
    first [ exact H | rewrite H; reflexivity | rewrite H; apply orb_true_r ].
Qed.

(* one tactic for "all shapes, versions enumerated, payload length known but bytes abstract" *)
Ltac shapes_len d Hstd :=
  let st := fresh "st" in let w := fresh "w" in let p := fresh "p" in
  destruct d as [st w p]; apply standard_inv in Hstd;
  destruct st;
  [ destruct Hstd as [-> Hl] | destruct Hstd as [-> Hl] | destruct Hstd as [-> Hl] | destruct Hstd as [-> Hl]
  | let Hw := fresh "Hw" in
    destruct Hstd as [Hw [Hl|Hl]];
    unfold versions_1_16 in Hw; simpl in Hw; repeat (destruct Hw as [<-|Hw]); try contradiction ].

Lemma std_cmds_wf d : standard d = true -> forallb wf_cmd (std_cmds d) = true.
Proof.
  intros Hstd. shapes_len d Hstd;
    cbn [std_cmds d_stype d_payload d_witver forallb wf_cmd]; rewrite Hl; reflexivity.
Qed.

Lemma std_cmds_inert d : standard d = true -> inert_from false (std_cmds d) = true.
Proof.
  intros Hstd. pose proof (payload_is_data d Hstd) as Hg. destruct d as [st w p]. cbn [d_payload] in Hg.
  destruct st; cbn [std_cmds d_stype d_payload d_witver inert_from]; rewrite Hg; reflexivity.
Qed.

Lemma std_cmds_serialize d : standard d = true -> lib_serialize (std_cmds d) = Some (spec_lock_script d).
Proof.
  intros Hstd. std_shapes d Hstd; reflexivity.
Qed.

Lemma std_no_whole_heuristic d : standard d = true ->
  (match spec_lock_script d with
   | b :: _ => whole_script_data (bz b) (Z.of_nat (List.length (spec_lock_script d)))
   | [] => false
   end) = false.
Proof.
  intros Hstd. std_shapes d Hstd; vm_compute; reflexivity.
Qed.

(* the real parser (whole-script heuristic, sub-script re-parsing, multisig checks included) reads a
   standard locking script as exactly its template items *)
Lemma parse_std d : standard d = true ->
  lib_parse_bytes (fun _ => true) (fun _ => true) (spec_lock_script d) = POk (items_of_cmds (std_cmds d)).
Proof.
  intros Hstd. unfold lib_parse_bytes.
  exact (proj1 (script_roundtrip_lib _ _ (std_cmds d) (spec_lock_script d) _
                  (std_cmds_wf d Hstd) (std_cmds_inert d Hstd) (std_cmds_serialize d Hstd)
                  (std_no_whole_heuristic d Hstd))).
Qed.

Lemma script_parse_std d : standard d = true ->
  lib_script_parse (spec_lock_script d) =
  SOk (items_of_cmds (std_cmds d)) [stype_name (d_stype d)] (d_payload d).
Proof.
  intros Hstd. unfold lib_script_parse. rewrite (parse_std d Hstd).
  pose proof (payload_is_data d Hstd) as Hg.
  shapes_len d Hstd; cbn [d_payload] in Hg;
    cbn [std_cmds d_stype d_payload d_witver items_of_cmds map has_keysig existsb item_keysig bp_of_item];
    rewrite Hg; cbn [orb]; unfold blen; rewrite Hl; vm_compute; reflexivity.
Qed.

Lemma lib_inverse_script fx net d :
  In net all_networks -> standard d = true ->
  fx_tb fx (d_payload d) = d_payload d -> fx_tb fx (spec_lock_script d) = spec_lock_script d -> pfx_ok fx net ->
  out_is (lib_out_script H160 fx net (spec_lock_script d))
         (spec_lock_script d) (stype_name (d_stype d)) (nw_name net) (OaIs (spec_address net d)).
Proof.
  intros Hn Hstd Htb Htbs Hp.
  rewrite lib_out_script_eq; [ | destruct d as [[] w p]; discriminate | exact Htbs ].
  rewrite (script_parse_std d Hstd). clear Htbs.
  destruct fx as [fw fn fp fa tb0]. cbn [fx_tb] in Htb.
  std_shapes d Hstd; cbn [d_payload] in Htb; (each_net Hn; out_k Htb Hp).
Qed.

End WithH.
