(* Proofs/SignPlaceHashType.v — the hash type a parsed input is verified under.
   Transaction.verify asks signature_hash for the digest of Input.hash_type; after Transaction.parse that is the
   hash-type byte of the input's FIRST signature (scriptSig: Input.__init__; witness: fix C02-5).  Signature
   relation indexed by the digest, as in Proofs/TamperDigest.v; nothing is assumed about it. *)
From Coq Require Import List Bool Arith ZArith Lia.
From Verif Require Import Model.VerifyInput Model.SignPlace Proofs.VerifyInput Proofs.SignPlace Proofs.TamperDigest.
Import ListNotations.

Section ParsedHashType.
  Context {B D : Type}.
  Variable svd : D -> B -> Z -> bool.     (* "body b is valid for key k over digest d" *)
  Variable digest : Z -> D.               (* the digest of this input for a hash type *)
  Variable htb : B -> Z.                  (* the hash-type byte a serialized signature carries *)

  Lemma parsed_ht_fixed segwit (s : sg B) ss : lib_parsed_ht htb true segwit (s :: ss) = htb (body s).
  Proof. unfold lib_parsed_ht. rewrite andb_false_r. reflexivity. Qed.

  Lemma parsed_ht_unfixed_segwit (s : sg B) ss : lib_parsed_ht htb false true (s :: ss) = 1%Z.
  Proof. reflexivity. Qed.

  Lemma roundtrip_ht fixed txsw (x : @sinput B) :
    si_ht (lib_roundtrip_input htb fixed txsw x)
    = lib_parsed_ht htb fixed (si_segwit x) (si_sigs (lib_roundtrip_input htb fixed txsw x)).
  Proof. reflexivity. Qed.

  (* a parsed input (repaired parse path, every input kind) is verified over the digest for the hash-type byte of
     its first signature *)
  Theorem verify_uses_signature_hash_type_thm txsw (x : @sinput B) s ss :
    let x' := lib_roundtrip_input htb true txsw x in
    si_sigs x' = s :: ss ->
    si_ht x' = htb (body s) /\
    fst (lib_verify_input_run (svd (digest (si_ht x'))) (si_keys x') (si_sigs x') (si_m x'))
    = lib_verify_input (svd (digest (htb (body s)))) false (si_keys x) (map (@body B) (s :: ss)) (si_m x).
  Proof.
    intros x' E.
    assert (Eh : si_ht x' = htb (body s)).
    { unfold x'. rewrite roundtrip_ht. fold x'. rewrite E. apply parsed_ht_fixed. }
    split; [exact Eh|]. rewrite verify_input_run_fst. rewrite Eh, E. reflexivity.
  Qed.

  Lemma sio_head_valid (sv : B -> Z -> bool) : forall keys s l,
    signed_in_order sv keys (s :: l) -> exists k, In k keys /\ sv s k = true.
  Proof.
    induction keys as [|k ks IH]; intros s l H; inversion H as [|? ? ? Hr|? ? ? ? Hv Hr]; subst.
    - destruct (IH _ _ Hr) as (k' & Hin & Hv). exists k'. split; [right; exact Hin|exact Hv].
    - exists k. split; [left; reflexivity|exact Hv].
  Qed.

  (* ... so a first signature that is valid only for another digest d0 (e.g. made for SIGHASH_ALL while its byte says
     something else) makes the verdict False, whatever else the input carries *)
  Theorem signature_for_other_hash_type_fails_thm txsw (x : @sinput B) s ss d0 :
    let x' := lib_roundtrip_input htb true txsw x in
    si_sigs x' = s :: ss -> 1 <= si_m x ->
    digest (htb (body s)) <> d0 -> bound_to svd d0 (si_keys x) (body s) ->
    fst (lib_verify_input_run (svd (digest (si_ht x'))) (si_keys x') (si_sigs x') (si_m x')) = false.
  Proof.
    intros x' E Hm Hne Hb.
    destruct (verify_uses_signature_hash_type_thm txsw x s ss E) as (_ & Ev). fold x' in Ev. rewrite Ev.
    destruct (lib_verify_input (svd (digest (htb (body s)))) false (si_keys x) (map (@body B) (s :: ss)) (si_m x)) eqn:Ex;
      [|reflexivity].
    apply verify_exact_thm in Ex; [|exact Hm]. destruct Ex as (_ & Ho).
    destruct (si_m x) as [|m']; [lia|]. rewrite map_cons in Ho. simpl firstn in Ho.
    destruct (sio_head_valid _ _ _ _ Ho) as (k & Hk & Hv).
    rewrite (Hb _ k Hne Hk) in Hv. discriminate.
  Qed.

  (* the parse path before fix C02-5: a segwit input is verified over the SIGHASH_ALL digest whatever its witness
     signature carries *)
  Theorem unrepaired_segwit_ignores_hash_type_thm txsw (x : @sinput B) :
    si_segwit x = true -> si_ht (lib_roundtrip_input htb false txsw x) = 1%Z.
  Proof.
    intros Hs. rewrite roundtrip_ht. rewrite Hs. unfold lib_parsed_ht.
    destruct (si_sigs (lib_roundtrip_input htb false txsw x)); reflexivity.
  Qed.
End ParsedHashType.
