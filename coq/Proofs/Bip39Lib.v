(* Proofs/Bip39Lib.v — the library's sentence generation is BIP39's; word lookup; seed; SHA-256 output length. *)
From Coq Require Import ZArith List Bool Lia.
From Coq.Strings Require Import Byte.
From Verif Require Import Lib.Bytes Lib.BitRegroup Model.ChangeBase Model.Bip39 Crypto.Sha256.
From Verif Require Import Proofs.ChangeBase Proofs.Bip39Spec.
Import ListNotations.
Open Scope Z_scope.

(* ---------------- the executable hash has 32-byte output ---------------- *)
Lemma round256_length st k w : length st = 8%nat -> length (round256 st k w) = 8%nat.
Proof.
  intros Hl. do 9 (destruct st as [|? st]; try discriminate). reflexivity.
Qed.

Lemma rounds256_length ks : forall t bw win st, length st = 8%nat -> length (rounds256 ks t bw win st) = 8%nat.
Proof.
  induction ks as [|k ks IH]; intros t bw win st Hl; [exact Hl|].
  cbn [rounds256]. apply IH. apply round256_length, Hl.
Qed.

Lemma compress256_length st block : length st = 8%nat -> length (compress256 st block) = 8%nat.
Proof.
  intros Hl. unfold compress256. rewrite map_length, combine_length, rounds256_length by exact Hl. lia.
Qed.

Lemma blocks256_length fuel : forall st bs, length st = 8%nat -> length (blocks256 fuel st bs) = 8%nat.
Proof.
  induction fuel as [|f IH]; intros st bs Hl; [exact Hl|].
  cbn [blocks256]. destruct bs; [exact Hl|]. apply IH, compress256_length, Hl.
Qed.

Lemma flat_map_be4_length l : length (flat_map (be_bytes 4) l) = (4 * length l)%nat.
Proof.
  induction l as [|x r IH]; [reflexivity|]. cbn [flat_map length]. rewrite app_length, be_bytes_length, IH. lia.
Qed.

Lemma sha256_length msg : length (sha256 msg) = 32%nat.
Proof.
  unfold sha256. rewrite flat_map_be4_length, blocks256_length; reflexivity.
Qed.

(* ---------------- to_bytes is the identity on entropies that do not read as hex text ---------------- *)
Lemma lib_to_bytes_id s : hexlike s = false -> lib_to_bytes s = s.
Proof.
  unfold hexlike, lib_to_bytes. destruct s as [|c r]; [reflexivity|].
  destruct (fromhex (c :: r)); [discriminate | reflexivity].
Qed.

Section Lib.
  Variable H : bytes -> bytes.
  Hypothesis H_len : forall x, length (H x) = 32%nat.

  Lemma lib_checksum_spec ent k : length ent = (4 * k)%nat -> (k <= 256)%nat -> hexlike ent = false ->
    lib_checksum H ent = Some (firstn k (bytes_to_bits (H ent))).
  Proof.
    intros Hl Hk Hx. destruct (spec_bits H H_len ent k Hl Hk) as [E1 _].
    unfold lib_checksum. rewrite (lib_to_bytes_id ent Hx), E1.
    replace (length ent mod 4)%nat with O by (rewrite Hl, Nat.mul_comm, Nat.mod_mul; lia).
    cbn [Nat.eqb]. f_equal. f_equal.
    replace 256%nat with (8 * length (map bz (H ent)))%nat by (rewrite map_length, H_len; reflexivity).
    apply lib_cb_256_2_full, map_bz_in_base.
  Qed.

  (* to_mnemonic produces the BIP39 indices: every entropy of 4k bytes, k = 1..256, any leading zeros *)
  Theorem lib_to_indices_spec ent k : length ent = (4 * k)%nat -> (1 <= k <= 256)%nat -> hexlike ent = false ->
    lib_to_indices H ent = Some (spec_to_indices H ent).
  Proof.
    intros Hl Hk Hx. destruct (spec_bits H H_len ent k Hl ltac:(lia)) as [E1 [E2 [E3 E4]]].
    unfold lib_to_indices. rewrite (lib_to_bytes_id ent Hx).
    rewrite of_be_val. change 256 with (2 ^ Z.of_nat 8).
    rewrite <- val_unpack by apply map_bz_in_base. fold (bytes_to_bits ent).
    replace (length ent * 8)%nat with (length (bytes_to_bits ent)) by (rewrite bytes_to_bits_length; lia).
    rewrite lib_cb_10_2_spec.
    - rewrite (lib_checksum_spec ent k Hl ltac:(lia) Hx). f_equal.
      rewrite (spec_to_indices_eq H H_len ent k Hl ltac:(lia)).
      apply lib_cb_2_2048_spec; assumption.
    - apply bytes_to_bits_in_base.
    - intros E. apply (f_equal (@length Z)) in E. rewrite bytes_to_bits_length, Hl in E. simpl in E. lia.
  Qed.
End Lib.

(* ---------------- word lookup ---------------- *)
Section Words.
  Variable W : Type.
  Variable weqb : W -> W -> bool.
  Hypothesis weqb_spec : forall a b, weqb a b = true <-> a = b.

  Lemma weqb_refl a : weqb a a = true.
  Proof. apply weqb_spec. reflexivity. Qed.

  Lemma index_of_none w wl : index_of W weqb w wl = None <-> ~ In w wl.
  Proof.
    induction wl as [|x r IH]; cbn [index_of In]; [tauto|].
    destruct (weqb w x) eqn:E.
    - apply weqb_spec in E. subst. split; [discriminate | intros Hn; exfalso; apply Hn; left; reflexivity].
    - assert (Hne : x <> w) by (intros ->; rewrite weqb_refl in E; discriminate).
      destruct (index_of W weqb w r) eqn:Ei.
      + split; [discriminate|]. intros Hn. exfalso.
        assert (Hc : ~ In w r) by tauto. apply IH in Hc. discriminate.
      + split; [|reflexivity]. intros _. destruct IH as [IH1 _]. specialize (IH1 eq_refl). tauto.
  Qed.

  Lemma index_of_some w wl : forall i, index_of W weqb w wl = Some i ->
    0 <= i < Z.of_nat (length wl) /\ forall d, nth (Z.to_nat i) wl d = w.
  Proof.
    induction wl as [|x r IH]; intros i Hi; cbn [index_of] in Hi; [discriminate|].
    destruct (weqb w x) eqn:E.
    - apply weqb_spec in E. subst x. assert (i = 0) by congruence. subst i.
      cbn [length]. split; [lia | reflexivity].
    - destruct (index_of W weqb w r) as [j|] eqn:Ej; [|discriminate].
      assert (i = j + 1) by congruence. subst i. destruct (IH j eq_refl) as [Hr Hn].
      cbn [length]. split; [lia|]. intros d.
      replace (Z.to_nat (j + 1)) with (S (Z.to_nat j)) by lia. cbn [nth]. apply Hn.
  Qed.

  (* list.index finds position i of the i-th word when the list has no duplicates *)
  Lemma index_of_nth wl : NoDup wl -> forall i d, (i < length wl)%nat ->
    index_of W weqb (nth i wl d) wl = Some (Z.of_nat i).
  Proof.
    induction wl as [|x r IH]; intros Hnd i d Hi; [simpl in Hi; lia|].
    inversion Hnd as [|? ? Hnotin Hnd']; subst.
    destruct i as [|i]; cbn [nth index_of].
    - rewrite weqb_refl. reflexivity.
    - cbn [length] in Hi.
      destruct (weqb (nth i r d) x) eqn:E.
      + apply weqb_spec in E. exfalso. apply Hnotin. rewrite <- E. apply nth_In. lia.
      + rewrite IH by (assumption || lia). f_equal. lia.
  Qed.

  Lemma indices_of_words d wl idx : NoDup wl -> in_base (Z.of_nat (length wl)) idx ->
    indices_of W weqb (map (word_at W d wl) idx) wl = Some idx.
  Proof.
    intros Hnd. induction idx as [|i r IH]; intros Hb; [reflexivity|].
    apply in_base_cons in Hb. destruct Hb as [Hi Hr].
    cbn [map indices_of]. unfold word_at at 1.
    rewrite index_of_nth by (assumption || lia). rewrite IH by exact Hr.
    rewrite Z2Nat.id by lia. reflexivity.
  Qed.

  Lemma indices_of_unknown w ws wl : In w ws -> ~ In w wl -> indices_of W weqb ws wl = None.
  Proof.
    intros Hin Hout. induction ws as [|x r IH]; [destruct Hin|].
    cbn [indices_of]. destruct Hin as [->|Hin].
    - apply index_of_none in Hout. rewrite Hout. reflexivity.
    - rewrite (IH Hin). destruct (index_of W weqb x wl); reflexivity.
  Qed.

  (* a sentence containing a word outside the list is rejected, whatever the hash *)
  Theorem unknown_word_rejected H w ws wl : In w ws -> ~ In w wl ->
    lib_entropy_of_words H W weqb wl ws = None.
  Proof. intros Hin Hout. unfold lib_entropy_of_words. rewrite (indices_of_unknown w ws wl Hin Hout). reflexivity. Qed.

  (* on the words of an index list, the word-level decoder is the index-level decoder *)
  Theorem words_then_indices H d wl idx : NoDup wl -> length wl = 2048%nat -> in_base 2048 idx ->
    lib_entropy_of_words H W weqb wl (map (word_at W d wl) idx) = lib_to_entropy H idx.
  Proof.
    intros Hnd Hl Hb. unfold lib_entropy_of_words. rewrite indices_of_words; [reflexivity | exact Hnd |].
    rewrite Hl. exact Hb.
  Qed.
End Words.

(* ---------------- seed ---------------- *)
Section Seed.
  Variable str : Type.
  Variable NFKD : str -> str.
  Variable utf8 : str -> bytes.
  Variable KDF : bytes -> bytes -> Z -> Z -> bytes.
  Variable accepts : str -> bool.

  Theorem lib_seed_is_spec s pw :
    lib_to_seed str NFKD utf8 KDF accepts s pw =
      if accepts (NFKD s) then Some (spec_seed str NFKD utf8 KDF s pw) else None.
  Proof. unfold lib_to_seed, lib_seed_query, spec_seed. destruct (accepts (NFKD s)); reflexivity. Qed.

  (* the code before the repair hands PBKDF2 a different salt whenever NFKD changes the password's encoding *)
  Lemma unfixed_query_differs s pw q : utf8 pw <> utf8 (NFKD pw) ->
    lib_seed_query_unfixed str NFKD utf8 accepts s pw = Some q ->
    q <> (utf8 (NFKD s), mnemonic_salt ++ utf8 (NFKD pw)).
  Proof.
    intros Hne Hq. unfold lib_seed_query_unfixed in Hq. destruct (accepts (NFKD s)); [|discriminate].
    assert (q = (utf8 (NFKD s), mnemonic_salt ++ utf8 pw)) by congruence. subst q.
    intros E. apply (f_equal snd) in E. cbn [snd] in E. apply app_inv_head in E. contradiction.
  Qed.
End Seed.
