(* Proofs/LedgerDefault.v — C08 round 3: a reading that NAMES its account does not depend on which account is the
   wallet's default (Wallet._get_account_defaults: only an argument left empty is replaced by the default; the
   explicit account 0 of a wallet whose default account is 1 stays 0). *)
From Coq Require Import ZArith List Bool.
From Verif Require Import Lib.Bytes Model.Ledger.
Import ListNotations.
Open Scope Z_scope.

(* the same ledger in a wallet whose default account is d (same network) *)
Definition with_default_account (s : ledger) (d : Z) : ledger :=
  mkL (l_keys s) (l_txs s) (l_cache s) (fst (l_default s), d) (l_bip32 s).

Lemma named_account_ignores_default_proof : forall s a fn d,
  snd (step s (BalanceOf (Some a) fn)) = snd (step (with_default_account s d) (BalanceOf (Some a) fn)) /\
  (forall g mc, snd (step s (UtxosOf g mc)) = snd (step (with_default_account s d) (UtxosOf g mc))) /\
  l_keys (fst (step s (BalanceOf (Some a) fn))) = l_keys (fst (step (with_default_account s d) (BalanceOf (Some a) fn))) /\
  l_cache (fst (step s (BalanceOf (Some a) fn))) = l_cache (fst (step (with_default_account s d) (BalanceOf (Some a) fn))).
Proof.
  intros s a fn d. unfold step, step_gen, with_default_account, balance_update, lookup_grp, reported, utxos.
  destruct s as [ks txs c [dn da] b]. simpl. destruct fn; simpl; repeat split; reflexivity.
Qed.

(* and it is needed that the account is named: the default reading follows the default account *)
Definition two_accounts : ledger :=
  fst (step (fst (step (fst (step (fst (step (init (0, 1) true) (NewKey 1 (0, 0) 5))) (NewKey 2 (0, 1) 5)))
                       (UtxosUpdate true (0, 0) None [mkP 1 7 0 100 3]))) (UtxosUpdate true (0, 1) None [mkP 2 8 0 50 3])).

Lemma named_account_example :
  snd (step two_accounts (BalanceOf (Some 0) None)) = OBal 100 /\
  snd (step (with_default_account two_accounts 0) (BalanceOf (Some 0) None)) = OBal 100 /\
  snd (step two_accounts Balance) = OBal 50 /\
  snd (step (with_default_account two_accounts 0) Balance) = OBal 100 /\
  map u_value (utxos two_accounts (0, 0) 0) = [100] /\ map u_value (utxos two_accounts (l_default two_accounts) 0) = [50].
Proof. vm_compute. repeat split. Qed.
