(* Proofs/VerifyObject.v — one attribute of a signed Transaction object written by hand: what verify() of the object says
   against what the bytes raw() returns are worth.

     digest_source_is_raw_source       every field the consensus digest commits to is taken by the library's digest
                                       functions from the SAME attribute raw() serializes it from
     write_epochs_agree                hence a write of any attribute that is not verification context changes the
                                       library's digest of input i exactly when it changes the consensus digest of the
                                       bytes (amounts: what the verifier is told); second copies (version_int,
                                       output_n_int) and all other attributes change neither
     input_verdict_is_serialised_verdict   Input.verify on the signature list == CHECKMULTISIG on what update_scripts
                                       serializes of it (the first m signatures, when there are m)
     probe_object_is_broadcast         the machine: for every such write on a plainly signed state the verdict of the
                                       object is the consensus verdict on its bytes *)
From Coq Require Import List Bool Arith ZArith Lia.
From Verif Require Import Lib.Bytes Model.VerifyInput Model.SignPlace Proofs.VerifyInput Proofs.SignPlace.
Import ListNotations.
Local Open Scope nat_scope.

Lemma digest_source_is_raw_source_thm f : lib_digest_source f = lib_raw_source f.
Proof. destruct f; reflexivity. Qed.

Lemma existsb_ext' {A} (f g : A -> bool) l : (forall x, f x = g x) -> existsb f l = existsb g l.
Proof. intros E. induction l as [|x r IH]; [reflexivity|]. cbn [existsb]. rewrite E, IH. reflexivity. Qed.

Lemma existsb_all_false {A} (f : A -> bool) l : (forall x, f x = false) -> existsb f l = false.
Proof. intros E. induction l as [|x r IH]; [reflexivity|]. cbn [existsb]. rewrite E, IH. reflexivity. Qed.

Lemma commit_reads_ext src src' nin nout sw i a :
  (forall f, src f = src' f) -> commit_reads src nin nout sw i a = commit_reads src' nin nout sw i a.
Proof. intros E. unfold commit_reads. apply existsb_ext'. intros f. rewrite E. reflexivity. Qed.

Lemma new_epochs_ext r r' es es' : (forall i, r i = r' i) -> new_epochs r es es' = new_epochs r' es es'.
Proof. intros E. unfold new_epochs. apply map_ext. intros [i e]. cbn [fst snd]. rewrite E. reflexivity. Qed.

Lemma map_snd_combine_seq {A} (l : list A) : forall k, map snd (combine (seq k (length l)) l) = l.
Proof. induction l as [|x r IH]; intros k; [reflexivity|]. cbn [length seq combine map snd]. rewrite IH. reflexivity. Qed.

Lemma new_epochs_none r es es' : (forall i, r i = false) -> new_epochs r es es' = es.
Proof.
  intros E. unfold new_epochs. transitivity (map (@snd nat Z) (combine (seq 0 (length es)) es)).
  - apply map_ext. intros [i e]. cbn [fst snd]. rewrite E. reflexivity.
  - apply map_snd_combine_seq.
Qed.

Lemma code_reads_plain kinds i a : is_ctx_attr a = false -> code_reads kinds i a = false.
Proof. destruct a; cbn; intros H; try reflexivity; discriminate. Qed.

(* a write that is not verification context: the library's digests and the consensus digests of the bytes move together *)
Theorem write_epochs_agree_thm kinds nout ins a es es' :
  is_ctx_attr a = false ->
  lib_write_epochs lib_digest_source kinds nout ins a es es' = raw_write_epochs nout ins a es es'.
Proof.
  intros H. unfold lib_write_epochs, raw_write_epochs. apply new_epochs_ext. intros i.
  rewrite code_reads_plain by exact H. rewrite orb_false_r.
  apply commit_reads_ext. exact digest_source_is_raw_source_thm.
Qed.

(* no field is taken from the second copies or from any other attribute *)
Definition shadow_attr (a : attr) : bool :=
  match a with AVersionInt | AOutNInt _ | AOther => true | _ => false end.

Lemma commit_reads_shadow nin nout sw i a : shadow_attr a = true -> commit_reads lib_digest_source nin nout sw i a = false.
Proof.
  intros H. unfold commit_reads. apply existsb_all_false. intros f.
  destruct a; try discriminate; destruct f; reflexivity.
Qed.

Theorem shadow_write_unseen_thm kinds nout ins a es es' :
  shadow_attr a = true ->
  lib_write_epochs lib_digest_source kinds nout ins a es es' = es /\ raw_write_epochs nout ins a es es' = es.
Proof.
  intros H.
  assert (C : is_ctx_attr a = false) by (destruct a; try discriminate; reflexivity).
  rewrite <- write_epochs_agree_thm with (kinds := kinds) by exact C.
  assert (E : lib_write_epochs lib_digest_source kinds nout ins a es es' = es).
  { unfold lib_write_epochs. apply new_epochs_none. intros i.
    rewrite commit_reads_shadow by exact H. rewrite code_reads_plain by exact C. reflexivity. }
  split; exact E.
Qed.

(* the witness that the first theorem is sharp: a digest that took the version from version_int sees the write of
   version_int and not the write of the serialized version *)
Lemma alt_source_reads :
  commit_reads alt_digest_source_version_int 1 2 true 0 AVersion = false /\
  commit_reads alt_digest_source_version_int 1 2 true 0 AVersionInt = true /\
  commit_reads lib_raw_source 1 2 true 0 AVersion = true /\
  commit_reads lib_raw_source 1 2 true 0 AVersionInt = false.
Proof. vm_compute. repeat split. Qed.

(* ---------- Input.verify on the object's signature list == CHECKMULTISIG on its serialized form ---------- *)
Section Ser.
  Context {S K : Type}.
  Variable sv : S -> K -> bool.

  Lemma loop_firstn : forall keys sigs need,
    lib_verify_loop sv keys sigs need = lib_verify_loop sv keys (firstn need sigs) need.
  Proof.
    induction keys as [|k ks IH]; intros sigs need.
    - destruct need; reflexivity.
    - destruct need as [|n]; [reflexivity|].
      destruct sigs as [|s ss]; [reflexivity|].
      change (firstn (Datatypes.S n) (s :: ss)) with (s :: firstn n ss).
      rewrite (loop_eq sv (k :: ks) (s :: ss)), (loop_eq sv (k :: ks) (s :: firstn n ss)).
      destruct (sv s k).
      + apply IH.
      + rewrite (IH (s :: ss) (Datatypes.S n)). reflexivity.
  Qed.

  Lemma loop_ext_in (sv' : S -> K -> bool) : forall keys sigs need,
    (forall s k, In s sigs -> sv s k = sv' s k) ->
    lib_verify_loop sv keys sigs need = lib_verify_loop sv' keys sigs need.
  Proof.
    induction keys as [|k ks IH]; intros sigs need E; rewrite (loop_eq sv), (loop_eq sv').
    - reflexivity.
    - destruct need as [|n]; [reflexivity|].
      destruct sigs as [|s ss]; [reflexivity|].
      rewrite <- (E s k) by (left; reflexivity).
      destruct (sv s k).
      + apply IH. intros s0 k0 H0. apply E. right. exact H0.
      + apply IH. exact E.
  Qed.
End Ser.

Section SerRun.
  Context {B : Type}.
  Variable sv : B -> Z -> bool.

  Lemma bodies_roundtrip m (sigs : list (sg B)) :
    map (@body B) (lib_roundtrip_sigs m sigs)
    = if Nat.leb m (length sigs) then firstn m (map (@body B) sigs) else [].
  Proof.
    unfold lib_roundtrip_sigs. destruct (Nat.leb m (length sigs)); [|reflexivity].
    rewrite map_map. rewrite firstn_map. apply map_ext. intros s. reflexivity.
  Qed.

  Theorem input_verdict_is_serialised_verdict_thm keys (sigs : list (sg B)) (m : nat) :
    (1 <= m)%nat ->
    fst (lib_verify_input_run sv keys sigs m)
    = spec_input_broadcast sv keys (map (@body B) (lib_roundtrip_sigs m sigs)) m.
  Proof.
    intros Hm. rewrite verify_input_run_fst. rewrite bodies_roundtrip. unfold spec_input_broadcast.
    assert (L1 : Nat.leb 1 m = true) by (apply Nat.leb_le; exact Hm).
    destruct (Nat.leb m (length sigs)) eqn:E.
    - apply Nat.leb_le in E.
      rewrite firstn_length_le by (rewrite map_length; exact E).
      rewrite Nat.eqb_refl, L1. cbn [andb].
      rewrite <- loop_firstn.
      unfold lib_verify_input. destruct sigs as [|s ss]; [cbn in E; lia|]. reflexivity.
    - apply Nat.leb_gt in E.
      assert (N : Nat.eqb (length (@nil B)) m = false) by (apply Nat.eqb_neq; cbn; lia).
      rewrite N. cbn [andb].
      destruct (lib_verify_input sv false keys (map (@body B) sigs) m) eqn:V; [|reflexivity].
      apply verify_exact_thm in V; [|exact Hm]. destruct V as (V & _). rewrite map_length in V. lia.
  Qed.
End SerRun.

(* ---------- the machine ---------- *)
Definition plain_body (b : cbody) : Prop := let '(_, _, _, hm, hc) := b in hm = 1%Z /\ hc = 1%Z.
(* every input was signed through Transaction.sign only (SIGHASH_ALL), has a computable digest and a threshold *)
Definition plain_input (x : @sinput cbody) : Prop :=
  si_ht x = 1%Z /\ si_hash_ok x = true /\ (1 <= si_m x)%nat /\ Forall (fun s => plain_body (body s)) (si_sigs x).

Lemma write_inputs_plain a ins : is_ctx_attr a = false -> write_inputs a ins = ins.
Proof.
  intros H. unfold write_inputs.
  assert (E : forall jx : nat * @sinput cbody, write_input a (fst jx) (snd jx) = snd jx).
  { intros [j x]. destruct a; try discriminate; reflexivity. }
  rewrite (map_ext _ _ E). apply map_snd_combine_seq.
Qed.

Lemma ser_broken_plain a j sw : is_ctx_attr a = false -> ser_broken a j sw = false.
Proof. destruct a; cbn; intros H; try reflexivity; discriminate. Qed.

Lemma plain_relations_agree n sw e (b : cbody) k :
  plain_body b -> c_sv_at (sw || c_legacy_digest_ok n 1) e 1 b k = c_cons e b k.
Proof.
  destruct b as [[[[p e0] v] hm] hc]. intros (H1 & H2). subst hm hc. unfold c_sv_at, c_cons.
  replace (sw || c_legacy_digest_ok n 1) with true by (destruct sw; reflexivity).
  rewrite andb_true_r. reflexivity.
Qed.

Lemma tx_verify_from_forallb (svi : nat -> cbody -> Z -> bool) : forall l i,
  Forall (fun x : @sinput cbody => si_hash_ok x = true) l ->
  lib_tx_verify_from svi i (map (@view cbody) l)
  = forallb (fun ix => lib_verify_input (svi (fst ix)) false (si_keys (snd ix)) (map (@body cbody) (si_sigs (snd ix)))
                         (si_m (snd ix)))
            (combine (seq i (length l)) l).
Proof.
  induction l as [|x r IH]; intros i H; [reflexivity|].
  inversion H as [|? ? Hx Hr]; subst.
  cbn [map lib_tx_verify_from length seq combine forallb fst snd view vi_hash_ok vi_coinbase vi_keys vi_sigs vi_m].
  rewrite Hx. cbn [negb].
  destruct (lib_verify_input (svi i) false (si_keys x) (map (@body cbody) (si_sigs x)) (si_m x)); [|reflexivity].
  cbn [andb]. apply IH. exact Hr.
Qed.

Lemma forallb_ext_in {A} (f g : A -> bool) l : (forall x, In x l -> f x = g x) -> forallb f l = forallb g l.
Proof.
  induction l as [|x r IH]; intros E; [reflexivity|]. cbn [forallb].
  rewrite (E x) by (left; reflexivity). rewrite IH; [reflexivity|]. intros y Hy. apply E. right. exact Hy.
Qed.

Lemma in_combine_seq_nth {A} (l : list A) : forall k i x, In (i, x) (combine (seq k (length l)) l) ->
  k <= i /\ nth_error l (i - k) = Some x.
Proof.
  induction l as [|y r IH]; intros k i x H; [destruct H|].
  cbn [length seq combine] in H. destruct H as [H|H].
  - inversion H; subst. split; [lia|]. rewrite Nat.sub_diag. reflexivity.
  - apply IH in H. destruct H as (H1 & H2). split; [lia|].
    replace (i - k) with (Datatypes.S (i - Datatypes.S k)) by lia. exact H2.
Qed.

Theorem probe_object_is_broadcast_thm st a nout es' kinds b v r :
  is_ctx_attr a = false ->
  Forall plain_input (cs_ins st) ->
  run_probe lib_digest_source st a nout es' kinds = ObsBoth b v r ->
  b = r.
Proof.
  intros Hc Hp. unfold run_probe.
  rewrite (write_inputs_plain a _ Hc).
  rewrite (write_epochs_agree_thm kinds nout (cs_ins st) a (cs_epochs st) es' Hc).
  set (es := raw_write_epochs nout (cs_ins st) a (cs_epochs st) es').
  set (ins := cs_ins st) in *.
  pose proof (tx_run_is_tx_verify (c_svi es ins) ins) as T.
  destruct (lib_tx_verify_run (c_svi es ins) ins) as [b0 ins'] eqn:R. cbn [fst] in T.
  intros E. inversion E; subst b v r. clear E.
  rewrite T. unfold lib_tx_verify.
  rewrite tx_verify_from_forallb.
  2:{ eapply Forall_impl; [|exact Hp]. intros x (_ & H & _). exact H. }
  unfold spec_broadcast. apply forallb_ext_in. intros [i x] Hin. cbn [fst snd].
  apply in_combine_seq_nth in Hin. destruct Hin as (_ & Hn). rewrite Nat.sub_0_r in Hn.
  rewrite (ser_broken_plain a i (si_segwit x) Hc). cbn [negb andb].
  assert (Px : plain_input x).
  { rewrite Forall_forall in Hp. apply Hp. eapply nth_error_In. exact Hn. }
  destruct Px as (Hht & _ & Hm & Hs).
  rewrite <- (input_verdict_is_serialised_verdict_thm (c_cons (epoch_at es i)) (si_keys x) (si_sigs x) (si_m x) Hm).
  rewrite verify_input_run_fst.
  unfold lib_verify_input. destruct (map (@body cbody) (si_sigs x)) as [|s0 ss0] eqn:Eb; [reflexivity|].
  rewrite <- Eb. apply loop_ext_in. intros s k Hs0.
  unfold c_svi. rewrite Hn. rewrite Hht. apply plain_relations_agree.
  apply in_map_iff in Hs0. destruct Hs0 as (sg0 & <- & Hin0).
  rewrite Forall_forall in Hs. apply Hs. exact Hin0.
Qed.

(* the same statement fails for the verification-context attributes and for the derived scripts (recorded class
   object_bytes_out_of_sync), e.g. the witness list written by hand: the object verifies, its bytes do not;
   and it fails for a digest that takes the version from version_int (the seeded change C02-p) *)
Lemma probe_examples :
  let st := {| cs_ins := fst (lib_sign_tx (fun _ => c_mk 0) None [init_input true [0%Z] 1] false true [0%Z]);
               cs_epochs := [0%Z] |} in
  run_probe lib_digest_source st AVersion 2 [7%Z] [3%Z] = ObsBoth false [Some false] false /\
  run_probe lib_digest_source st AVersionInt 2 [7%Z] [3%Z] = ObsBoth true [Some true] true /\
  run_probe lib_digest_source st (AInValue 0) 2 [7%Z] [3%Z] = ObsBoth false [Some false] false /\
  run_probe lib_digest_source st AOther 2 [7%Z] [3%Z] = ObsBoth true [Some true] true /\
  run_probe lib_digest_source st (AWitnesses 0) 2 [7%Z] [3%Z] = ObsBoth true [Some true] false /\
  run_probe lib_digest_source st (ASignatures 0 []) 2 [7%Z] [3%Z] = ObsBoth false [Some false] true /\
  run_probe alt_digest_source_version_int st AVersion 2 [7%Z] [3%Z] = ObsBoth true [Some true] false /\
  run_probe alt_digest_source_version_int st AVersionInt 2 [7%Z] [3%Z] = ObsBoth false [Some false] true.
Proof. vm_compute. repeat split. Qed.
