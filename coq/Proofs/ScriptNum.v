(* Proofs/ScriptNum.v — script number encode/decode (C18, used by C19). *)
From Coq Require Import ZArith List Bool Lia.
From Coq.Strings Require Import Byte.
From Verif Require Import Lib.Bytes Model.Wire.
Import ListNotations.
Open Scope Z_scope.

Lemma last_snoc (A : Type) (l : list A) (x d : A) : last (l ++ [x]) d = x.
Proof. induction l as [|y l IH]; [reflexivity|]. simpl. destruct (l ++ [x]) eqn:E; [destruct l; discriminate|exact IH]. Qed.

Lemma removelast_snoc (A : Type) (l : list A) (x : A) : removelast (l ++ [x]) = l.
Proof. rewrite removelast_app by discriminate. simpl. apply app_nil_r. Qed.

Lemma snoc_decomp (A : Type) (l : list A) (d : A) : l <> [] -> l = removelast l ++ [last l d].
Proof. intros H. apply app_removelast_last. exact H. Qed.

Lemma of_le_snoc f l : of_le (f ++ [l]) = of_le f + 256 ^ Z.of_nat (length f) * bz l.
Proof. rewrite of_le_app. cbn [of_le]. lia. Qed.

Lemma pow256_pos k : 0 < 256 ^ Z.of_nat k.
Proof. apply Z.pow_pos_nonneg; lia. Qed.

Lemma pow256_mono a b : (a <= b)%nat -> 256 ^ Z.of_nat a <= 256 ^ Z.of_nat b.
Proof. intros H. apply Z.pow_le_mono_r; lia. Qed.

Lemma byte_len_pos a : 0 < a -> (1 <= byte_len a)%nat.
Proof.
  intros H. unfold byte_len. destruct (a <=? 0) eqn:E; [apply Z.leb_le in E; lia|].
  pose proof (Z.log2_nonneg a). assert (0 <= Z.log2 a / 8) by (apply Z.div_pos; lia). lia.
Qed.

Lemma byte_len_unique a k : (1 <= k)%nat ->
  256 ^ Z.of_nat (k - 1) <= a < 256 ^ Z.of_nat k -> byte_len a = k.
Proof.
  intros Hk [Hlo Hhi].
  assert (Ha : 0 < a) by (pose proof (pow256_pos (k - 1)); lia).
  pose proof (byte_len_bound a ltac:(lia)) as Hb.
  pose proof (byte_len_min a Ha) as Hm.
  pose proof (byte_len_pos a Ha) as Hp.
  replace (Z.of_nat (byte_len a) - 1) with (Z.of_nat (byte_len a - 1)) in Hm by lia.
  destruct (Nat.lt_trichotomy (byte_len a) k) as [Hlt | [Heq | Hgt]]; [|exact Heq|].
  - pose proof (pow256_mono (byte_len a) (k - 1) ltac:(lia)). lia.
  - pose proof (pow256_mono k (byte_len a - 1) ltac:(lia)). lia.
Qed.

(* shape of the minimal little-endian form of a > 0 *)
Lemma enc_shape a : 0 < a ->
  let enc := le_bytes (byte_len a) a in
  exists f l, enc = f ++ [l] /\ length f = (byte_len a - 1)%nat /\
              a = of_le f + 256 ^ Z.of_nat (byte_len a - 1) * bz l /\ 1 <= bz l.
Proof.
  intros Ha enc.
  pose proof (byte_len_pos a Ha) as Hp.
  assert (Hne : enc <> []).
  { intros E. apply (f_equal (@length byte)) in E. unfold enc in E. rewrite le_bytes_length in E.
    simpl in E. lia. }
  exists (removelast enc), (last enc x00).
  assert (Hd : enc = removelast enc ++ [last enc x00]) by (apply snoc_decomp; exact Hne).
  assert (Hlen : length (removelast enc) = (byte_len a - 1)%nat).
  { apply (f_equal (@length byte)) in Hd. rewrite app_length in Hd. unfold enc in Hd at 1.
    rewrite le_bytes_length in Hd. simpl in Hd. lia. }
  split; [exact Hd|]. split; [exact Hlen|].
  assert (Hv : of_le enc = a).
  { unfold enc. apply of_le_le_bytes_small. split; [lia|]. apply byte_len_bound. lia. }
  rewrite Hd, of_le_snoc, Hlen in Hv.
  split; [symmetry; exact Hv|].
  pose proof (bz_range (last enc x00)) as Hr.
  destruct (Z.eq_dec (bz (last enc x00)) 0) as [Hz|Hz]; [|lia].
  exfalso. rewrite Hz in Hv.
  pose proof (of_le_range (removelast enc)) as Hf. rewrite Hlen in Hf.
  pose proof (byte_len_min a Ha) as Hm.
  replace (Z.of_nat (byte_len a) - 1) with (Z.of_nat (byte_len a - 1)) in Hm by lia. lia.
Qed.

Lemma lib_encode_num_eq z : lib_encode_num z =
  if z =? 0 then []
  else
    let a := Z.abs z in
    let neg := z <? 0 in
    let enc := le_bytes (byte_len a) a in
    let l := last enc x00 in
    if high_set l then enc ++ [if neg then x80 else x00]
    else if neg then removelast enc ++ [set_high l]
    else enc.
Proof. reflexivity. Qed.

Lemma lib_decode_num_snoc f l : lib_decode_num (f ++ [l]) =
  let num := of_le (f ++ [clear_high l]) in if high_set l then - num else num.
Proof.
  unfold lib_decode_num. destruct (f ++ [l]) eqn:E; [destruct f; discriminate|].
  rewrite <- E. rewrite last_snoc, removelast_snoc. reflexivity.
Qed.

Lemma high_set_spec b : high_set b = true <-> 128 <= bz b.
Proof. unfold high_set. apply Z.leb_le. Qed.

Lemma bz_set_high b : bz b < 128 -> bz (set_high b) = bz b + 128.
Proof. intros H. unfold set_high. rewrite bz_zb. pose proof (bz_range b). apply Z.mod_small. lia. Qed.

Lemma bz_clear_high b : bz (clear_high b) = bz b mod 128.
Proof.
  unfold clear_high. rewrite bz_zb. pose proof (Z.mod_pos_bound (bz b) 128 ltac:(lia)).
  apply Z.mod_small. lia.
Qed.

(* decode (encode z) = z for every integer, no bound *)
Lemma scriptnum_roundtrip z : lib_decode_num (lib_encode_num z) = z.
Proof.
  rewrite lib_encode_num_eq. destruct (z =? 0) eqn:Ez; [apply Z.eqb_eq in Ez; subst; reflexivity|].
  apply Z.eqb_neq in Ez. cbv zeta.
  assert (Ha : 0 < Z.abs z) by lia.
  destruct (enc_shape (Z.abs z) Ha) as (f & l & Hd & Hlen & Hv & Hl1).
  rewrite Hd, last_snoc, removelast_snoc. pose proof (bz_range l) as Hr.
  destruct (high_set l) eqn:Eh.
  - apply high_set_spec in Eh. rewrite lib_decode_num_snoc. cbv zeta.
    assert (Hc : of_le ((f ++ [l]) ++ [clear_high (if z <? 0 then x80 else x00)]) = Z.abs z).
    { rewrite of_le_snoc, bz_clear_high. rewrite of_le_snoc, Hlen.
      destruct (z <? 0); [change (bz x80) with 128|change (bz x00) with 0]; cbn; lia. }
    rewrite Hc. destruct (z <? 0) eqn:En.
    + apply Z.ltb_lt in En. change (high_set x80) with true. cbv iota. lia.
    + apply Z.ltb_ge in En. change (high_set x00) with false. cbv iota. lia.
  - assert (Hlt : bz l < 128) by (destruct (Z_lt_dec (bz l) 128); [assumption|]; exfalso;
        assert (high_set l = true) by (apply high_set_spec; lia); congruence).
    destruct (z <? 0) eqn:En.
    + apply Z.ltb_lt in En. rewrite lib_decode_num_snoc. cbv zeta.
      assert (Hs : high_set (set_high l) = true) by (apply high_set_spec; rewrite bz_set_high; lia).
      rewrite Hs, of_le_snoc, bz_clear_high, bz_set_high, Hlen by lia.
      replace ((bz l + 128) mod 128) with (bz l) by (Z.div_mod_to_equations; lia). lia.
    + apply Z.ltb_ge in En. rewrite lib_decode_num_snoc. cbv zeta.
      rewrite Eh, of_le_snoc, bz_clear_high, Hlen.
      rewrite (Z.mod_small (bz l)) by lia. lia.
Qed.

(* the encoding is minimal in the sense of Bitcoin Core's IsMinimallyEncoded *)
Lemma scriptnum_minimal z : core_minimal (lib_encode_num z) = true.
Proof.
  rewrite lib_encode_num_eq. destruct (z =? 0) eqn:Ez; [reflexivity|].
  apply Z.eqb_neq in Ez. cbv zeta.
  assert (Ha : 0 < Z.abs z) by lia.
  destruct (enc_shape (Z.abs z) Ha) as (f & l & Hd & Hlen & Hv & Hl1).
  rewrite Hd, last_snoc, removelast_snoc. pose proof (bz_range l) as Hr.
  unfold core_minimal.
  destruct (high_set l) eqn:Eh.
  - rewrite rev_app_distr. cbn [rev app]. rewrite rev_app_distr. cbn [rev app].
    destruct (z <? 0); [change (bz x80 mod 128) with 0|change (bz x00 mod 128) with 0];
      cbn [Z.eqb]; exact Eh.
  - assert (Hlt : bz l < 128) by (destruct (Z_lt_dec (bz l) 128); [assumption|]; exfalso;
        assert (high_set l = true) by (apply high_set_spec; lia); congruence).
    destruct (z <? 0).
    + rewrite rev_app_distr. cbn [rev app]. rewrite bz_set_high by lia.
      replace ((bz l + 128) mod 128) with (bz l) by (Z.div_mod_to_equations; lia).
      destruct (bz l =? 0) eqn:E0; [apply Z.eqb_eq in E0; lia|reflexivity].
    + rewrite rev_app_distr. cbn [rev app]. rewrite (Z.mod_small (bz l)) by lia.
      destruct (bz l =? 0) eqn:E0; [apply Z.eqb_eq in E0; lia|reflexivity].
Qed.

Lemma le_bytes_of_le_len l k : length l = k -> le_bytes k (of_le l) = l.
Proof. intros <-. apply le_bytes_of_le. Qed.

(* every minimally encoded byte string is the encoding of the number it decodes to:
   together with the two lemmas above, encode z is THE unique minimal encoding of z *)
Lemma scriptnum_canonical b : core_minimal b = true -> lib_encode_num (lib_decode_num b) = b.
Proof.
  intros Hmin.
  destruct b as [|b0 bt] eqn:Eb; [reflexivity|].
  assert (Hne : b <> []) by (subst; discriminate). rewrite <- Eb in *. clear Eb b0 bt.
  pose proof (snoc_decomp _ b x00 Hne) as Hd.
  set (f := removelast b) in *. set (l := last b x00) in *.
  rewrite Hd in Hmin |- *. clear Hd.
  unfold core_minimal in Hmin. rewrite rev_app_distr in Hmin. cbn [rev app] in Hmin.
  pose proof (bz_range l) as Hr.
  rewrite lib_decode_num_snoc. cbv zeta. rewrite of_le_snoc, bz_clear_high.
  pose proof (of_le_range f) as Hf.
  pose proof (pow256_pos (length f)) as Hpp.
  destruct (bz l mod 128 =? 0) eqn:E0.
  - (* sign byte 00 / 80 on top of a byte with its high bit set *)
    apply Z.eqb_eq in E0.
    destruct (rev f) as [|p rf] eqn:Erf; [discriminate|].
    assert (Hf2 : f = rev rf ++ [p]).
    { rewrite <- (rev_involutive f), Erf. reflexivity. }
    apply high_set_spec in Hmin. pose proof (bz_range p) as Hp.
    rewrite E0, Z.mul_0_r, Z.add_0_r.
    assert (Hnum : 256 ^ Z.of_nat (length f - 1) <= of_le f).
    { rewrite Hf2, of_le_snoc, app_length. cbn [length].
      replace (length (rev rf) + 1 - 1)%nat with (length (rev rf)) by lia.
      pose proof (of_le_nonneg (rev rf)). pose proof (pow256_pos (length (rev rf))). nia. }
    assert (Hlenf : (1 <= length f)%nat) by (rewrite Hf2, app_length; simpl; lia).
    pose proof (pow256_pos (length f - 1)) as Hpp1.
    assert (Hbl : byte_len (of_le f) = length f) by (apply byte_len_unique; lia).
    set (num := of_le f) in *.
    assert (Hl : l = if high_set l then x80 else x00).
    { destruct (high_set l) eqn:Eh.
      - apply high_set_spec in Eh. apply bz_inj. change (bz x80) with 128.
        Z.div_mod_to_equations. lia.
      - apply bz_inj. change (bz x00) with 0.
        assert (bz l < 128) by (destruct (Z_lt_dec (bz l) 128); [assumption|]; exfalso;
          assert (high_set l = true) by (apply high_set_spec; lia); congruence).
        Z.div_mod_to_equations. lia. }
    rewrite lib_encode_num_eq. cbv zeta.
    destruct (high_set l) eqn:Eh.
    + destruct (- num =? 0) eqn:Ez; [apply Z.eqb_eq in Ez; lia|].
      replace (Z.abs (- num)) with num by lia. rewrite Hbl.
      unfold num. rewrite le_bytes_of_le. fold num.
      rewrite Hf2 at 1. rewrite last_snoc.
      assert (Hh : high_set p = true) by (apply high_set_spec; lia). rewrite Hh.
      destruct (- num <? 0) eqn:En; [|apply Z.ltb_ge in En; lia].
      f_equal. f_equal. symmetry. exact Hl.
    + destruct (num =? 0) eqn:Ez; [apply Z.eqb_eq in Ez; lia|].
      replace (Z.abs num) with num by lia. rewrite Hbl.
      unfold num. rewrite le_bytes_of_le. fold num.
      rewrite Hf2 at 1. rewrite last_snoc.
      assert (Hh : high_set p = true) by (apply high_set_spec; lia). rewrite Hh.
      destruct (num <? 0) eqn:En; [apply Z.ltb_lt in En; lia|].
      f_equal. f_equal. symmetry. exact Hl.
  - (* top byte carries magnitude bits *)
    apply Z.eqb_neq in E0. clear Hmin.
    pose proof (Z.mod_pos_bound (bz l) 128 ltac:(lia)) as Hm.
    set (num := of_le f + 256 ^ Z.of_nat (length f) * (bz l mod 128)).
    assert (Hnum : 256 ^ Z.of_nat (length f) <= num < 256 ^ Z.of_nat (S (length f))).
    { unfold num. rewrite Nat2Z.inj_succ, Z.pow_succ_r by lia. nia. }
    assert (Hbl : byte_len num = S (length f)).
    { apply byte_len_unique; [lia|]. replace (S (length f) - 1)%nat with (length f) by lia. exact Hnum. }
    assert (Henc : le_bytes (S (length f)) num = f ++ [clear_high l]).
    { unfold num. rewrite <- (bz_clear_high l), <- of_le_snoc.
      apply le_bytes_of_le_len. rewrite app_length. simpl. lia. }
    assert (Hch : high_set (clear_high l) = false).
    { destruct (high_set (clear_high l)) eqn:E; [|reflexivity].
      apply high_set_spec in E. rewrite bz_clear_high in E. lia. }
    rewrite lib_encode_num_eq. cbv zeta.
    destruct (high_set l) eqn:Eh.
    + apply high_set_spec in Eh.
      destruct (- num =? 0) eqn:Ez; [apply Z.eqb_eq in Ez; lia|].
      replace (Z.abs (- num)) with num by lia. rewrite Hbl, Henc, last_snoc, removelast_snoc, Hch.
      destruct (- num <? 0) eqn:En; [|apply Z.ltb_ge in En; lia].
      f_equal. f_equal. apply bz_inj. rewrite bz_set_high by (rewrite bz_clear_high; lia).
      rewrite bz_clear_high. Z.div_mod_to_equations. lia.
    + assert (Hlt : bz l < 128) by (destruct (Z_lt_dec (bz l) 128); [assumption|]; exfalso;
        assert (high_set l = true) by (apply high_set_spec; lia); congruence).
      destruct (num =? 0) eqn:Ez; [apply Z.eqb_eq in Ez; lia|].
      replace (Z.abs num) with num by lia. rewrite Hbl, Henc, last_snoc, Hch.
      destruct (num <? 0) eqn:En; [apply Z.ltb_lt in En; lia|].
      f_equal. f_equal. apply bz_inj. rewrite bz_clear_high. apply Z.mod_small. lia.
Qed.

(* Bitcoin Core's byte loop produces the same bytes *)
Lemma core_abs_bytes_le fuel : forall a, 0 <= a -> (Z.to_nat (Z.log2 a) < fuel)%nat ->
  core_abs_bytes fuel a = le_bytes (byte_len a) a.
Proof.
  induction fuel as [|fuel IH]; intros a Ha Hf; [lia|].
  cbn [core_abs_bytes]. destruct (a <=? 0) eqn:E.
  - apply Z.leb_le in E. assert (a = 0) by lia. subst. reflexivity.
  - apply Z.leb_gt in E.
    assert (Hbl : byte_len a = S (byte_len (a / 256))).
    { destruct (Z_lt_dec a 256) as [Hs|Hb].
      - rewrite Z.div_small by lia. change (byte_len 0) with 0%nat.
        apply byte_len_unique; [lia|]. simpl. lia.
      - assert (0 < a / 256) by (Z.div_mod_to_equations; lia).
        pose proof (byte_len_bound (a / 256) ltac:(lia)) as Hb1.
        pose proof (byte_len_min (a / 256) ltac:(lia)) as Hm1.
        pose proof (byte_len_pos (a / 256) ltac:(lia)) as Hp1.
        apply byte_len_unique; [lia|].
        replace (S (byte_len (a / 256)) - 1)%nat with (byte_len (a / 256)) by lia.
        rewrite Nat2Z.inj_succ, Z.pow_succ_r by lia.
        replace (Z.of_nat (byte_len (a / 256))) with (Z.of_nat (byte_len (a / 256)) - 1 + 1) at 1 by lia.
        rewrite Z.pow_add_r by lia. change (256 ^ 1) with 256.
        Z.div_mod_to_equations. nia. }
    rewrite Hbl. cbn [le_bytes]. f_equal.
    destruct (Z_lt_dec a 256) as [Hs|Hb].
    + rewrite Z.div_small by lia. destruct fuel; reflexivity.
    + apply IH; [Z.div_mod_to_equations; lia|].
      assert (Hl : Z.log2 (a / 256) = Z.log2 a - 8).
      { change 256 with (2 ^ 8). rewrite <- Z.shiftr_div_pow2 by lia.
        rewrite Z.log2_shiftr by lia. assert (8 <= Z.log2 a) by (apply Z.log2_le_pow2; lia). lia. }
      rewrite Hl. assert (8 <= Z.log2 a) by (apply Z.log2_le_pow2; lia). lia.
Qed.

Lemma lib_encode_is_core z : lib_encode_num z = core_scriptnum_ser z.
Proof.
  rewrite lib_encode_num_eq. unfold core_scriptnum_ser.
  destruct (z =? 0); [reflexivity|]. cbv zeta.
  rewrite core_abs_bytes_le by lia. reflexivity.
Qed.
