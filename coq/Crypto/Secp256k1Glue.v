(* Crypto/Secp256k1Glue.v — the curve constants of the executable model are the ones regenerated from
   /repo (bitcoinlib/config/secp256k1.py via translator -> Gen/GenConsts.v).  Breaks when either side changes. *)
From Coq Require Import ZArith.
From Verif Require Import Gen.GenConsts Crypto.Secp256k1.
Open Scope Z_scope.

Lemma secp_p_glue : secp_p = secp256k1_p. Proof. reflexivity. Qed.
Lemma secp_n_glue : secp_n = secp256k1_n. Proof. reflexivity. Qed.
Lemma secp_Gx_glue : secp_Gx = secp256k1_Gx. Proof. reflexivity. Qed.
Lemma secp_Gy_glue : secp_Gy = secp256k1_Gy. Proof. reflexivity. Qed.
Lemma secp_a_glue : secp256k1_a = 0. Proof. reflexivity. Qed.
Lemma secp_b_glue : secp_b = secp256k1_b. Proof. reflexivity. Qed.

Lemma secp_consts_glue :
  secp_p = secp256k1_p /\ secp_n = secp256k1_n /\ secp_Gx = secp256k1_Gx /\ secp_Gy = secp256k1_Gy /\
  secp256k1_a = 0 /\ secp_b = secp256k1_b.
Proof. repeat split. Qed.
