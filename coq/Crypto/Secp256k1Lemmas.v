(* Crypto/Secp256k1Lemmas.v — computed facts about the secp256k1 constants and small structural lemmas
   about the executable definitions.  The group law and primality of p, n are NOT proved here. *)
From Coq Require Import ZArith List Bool Lia.
From Coq.Strings Require Import Byte.
From Verif Require Import Lib.Bytes Crypto.Secp256k1.
Import ListNotations.
Open Scope Z_scope.

(* ---------------------------------------------------------------- constants *)

Lemma secp_p_eq : secp_p = 2 ^ 256 - 2 ^ 32 - 977.
Proof. reflexivity. Qed.

Lemma secp_p_mod_4 : secp_p mod 4 = 3.
Proof. reflexivity. Qed.

Lemma secp_sqrt_exp_eq : 4 * secp_sqrt_exp = secp_p + 1.
Proof. reflexivity. Qed.

(* 2 * ((p + 1) / 4) = (p - 1) / 2 + 1: squaring the candidate root gives a * a^((p-1)/2) *)
Lemma secp_sqrt_exp_euler : 2 * secp_sqrt_exp = (secp_p - 1) / 2 + 1.
Proof. reflexivity. Qed.

Lemma secp_p_pos : 0 < secp_p. Proof. reflexivity. Qed.
Lemma secp_n_pos : 0 < secp_n. Proof. reflexivity. Qed.
Lemma secp_n_lt_p : secp_n < secp_p. Proof. reflexivity. Qed.
Lemma secp_p_lt_2_256 : secp_p < 2 ^ 256. Proof. reflexivity. Qed.
Lemma secp_n_gt_2_255 : 2 ^ 255 < secp_n. Proof. reflexivity. Qed.
Lemma secp_p_odd : Z.odd secp_p = true. Proof. reflexivity. Qed.
Lemma secp_n_odd : Z.odd secp_n = true. Proof. reflexivity. Qed.

(* ---------------------------------------------------------------- structural facts *)

Lemma powmod_range b e m : 0 < m -> 0 <= powmod b e m < m.
Proof.
  intros Hm. unfold powmod. destruct e as [|p|p].
  - apply Z.mod_pos_bound. exact Hm.
  - destruct p; cbn [powmod_pos]; apply Z.mod_pos_bound; exact Hm.
  - lia.
Qed.

Lemma neg_sq_mod p r : (((p - r) mod p) * ((p - r) mod p)) mod p = (r * r) mod p.
Proof.
  rewrite <- Zmult_mod.
  replace ((p - r) * (p - r)) with (r * r + (p - 2 * r) * p) by ring.
  apply Z_mod_plus_full.
Qed.

Lemma mod_sqrt_range a : 0 <= mod_sqrt a < secp_p.
Proof. unfold mod_sqrt. apply powmod_range. exact secp_p_pos. Qed.

Lemma inv_mod_range a m : 0 < m -> 0 <= inv_mod a m < m.
Proof.
  intros Hm. unfold inv_mod. destruct (egcd_loop _ _ _ _ _) as [g t].
  destruct (g =? 1); [apply Z.mod_pos_bound; exact Hm | lia].
Qed.

Lemma pt_mul_0 P : pt_mul 0 P = None.
Proof. reflexivity. Qed.

Lemma pt_mul_1 P : pt_mul 1 P = P.
Proof. reflexivity. Qed.

Lemma pt_mul_2 P : pt_mul 2 P = pt_double P.
Proof. reflexivity. Qed.

Lemma pt_add_inf_l Q : pt_add None Q = Q.
Proof. reflexivity. Qed.

Lemma pt_add_inf_r P : pt_add P None = P.
Proof. destruct P as [[x y]|]; reflexivity. Qed.

Lemma pt_mul_inf k : pt_mul k None = None.
Proof.
  assert (H : forall p, pt_mul_pos p None = None).
  { induction p as [p IH|p IH|]; cbn [pt_mul_pos]; try rewrite IH; reflexivity. }
  destruct k as [|p|p]; cbn [pt_mul]; try rewrite H; reflexivity.
Qed.

Lemma pt_mul_opp k P : pt_mul (- k) P = pt_neg (pt_mul k P) \/ k <= 0.
Proof. destruct k as [|p|p]; [right; lia | left; reflexivity | right; lia]. Qed.

Lemma on_curve_range x y :
  on_curve (Some (x, y)) = true -> 0 <= x < secp_p /\ 0 <= y < secp_p.
Proof.
  unfold on_curve. intros H.
  repeat (apply andb_true_iff in H; destruct H as [H ?]).
  repeat match goal with
         | h : (_ <=? _) = true |- _ => apply Z.leb_le in h
         | h : (_ <? _) = true |- _ => apply Z.ltb_lt in h
         end.
  lia.
Qed.

Lemma on_curve_eqn x y :
  on_curve (Some (x, y)) = true -> (y * y) mod secp_p = (x * x * x + secp_b) mod secp_p.
Proof.
  unfold on_curve. intros H.
  apply andb_true_iff in H. destruct H as [_ H]. apply Z.eqb_eq in H.
  pose proof secp_p_pos as Hp.
  rewrite <- (Z.sub_add (x * x * x + secp_b) (y * y)) at 1.
  rewrite <- Zplus_mod_idemp_l, H. reflexivity.
Qed.

(* ---------------------------------------------------------------- encodings *)

Lemma ser_point_compressed_length x y : length (ser_point_compressed (Some (x, y))) = 33%nat.
Proof. cbn [ser_point_compressed length]. rewrite be_bytes_length. reflexivity. Qed.

Lemma ser_point_uncompressed_length x y : length (ser_point_uncompressed (Some (x, y))) = 65%nat.
Proof. cbn [ser_point_uncompressed length]. rewrite app_length, !be_bytes_length. reflexivity. Qed.

Lemma compress_some x y : compress (Some (x, y)) = Some (Z.odd y, x).
Proof. reflexivity. Qed.

(* decompression returns a point with the requested x that satisfies the curve equation *)
Lemma decompress_on_curve par x x' y :
  decompress par x = Some (x', y) -> x' = x /\ on_curve (Some (x', y)) = true.
Proof.
  unfold decompress. pose proof secp_p_pos as Hp.
  destruct ((x <? 0) || (secp_p <=? x)) eqn:Er; [discriminate|].
  apply orb_false_iff in Er. destruct Er as [E1 E2].
  apply Z.ltb_ge in E1. apply Z.leb_gt in E2.
  set (a := (x * x * x + secp_b) mod secp_p).
  set (r := mod_sqrt a).
  destruct ((r * r) mod secp_p =? a) eqn:Es; [|discriminate].
  apply Z.eqb_eq in Es. intros H.
  assert (Hx : x' = x) by congruence. subst x'. split; [reflexivity|].
  assert (Hr : 0 <= r < secp_p).
  { apply mod_sqrt_range. }
  assert (Hy : 0 <= y < secp_p /\ (y * y) mod secp_p = a).
  { destruct (Bool.eqb (Z.odd r) par).
    - assert (y = r) by congruence. subst y. split; [exact Hr | exact Es].
    - assert (Hy : y = (secp_p - r) mod secp_p) by congruence. subst y.
      split; [apply Z.mod_pos_bound; exact Hp|].
      rewrite neg_sq_mod. exact Es. }
  destruct Hy as [Hy1 Hy2].
  unfold on_curve.
  repeat (apply andb_true_iff; split); try (apply Z.leb_le; lia); try (apply Z.ltb_lt; lia).
  apply Z.eqb_eq.
  rewrite Zminus_mod, Hy2. unfold a. rewrite Z.sub_diag. apply Z.mod_0_l. lia.
Qed.

(* the y parity is the requested one, except for the (non-existent on this curve) root y = 0 *)
Lemma decompress_parity par x x' y :
  decompress par x = Some (x', y) -> y <> 0 -> Z.odd y = par.
Proof.
  unfold decompress. pose proof secp_p_pos as Hp.
  destruct ((x <? 0) || (secp_p <=? x)); [discriminate|].
  set (a := (x * x * x + secp_b) mod secp_p).
  set (r := mod_sqrt a).
  destruct ((r * r) mod secp_p =? a); [|discriminate].
  assert (Hr : 0 <= r < secp_p).
  { apply mod_sqrt_range. }
  destruct (Bool.eqb (Z.odd r) par) eqn:Eb; intros H Hy0.
  - apply Bool.eqb_prop in Eb. congruence.
  - assert (Hy : y = (secp_p - r) mod secp_p) by congruence.
    assert (Hr0 : r <> 0).
    { intros ->. rewrite Z.sub_0_r, Z_mod_same_full in Hy. contradiction. }
    rewrite Z.mod_small in Hy by lia. subst y.
    rewrite Z.odd_sub, secp_p_odd.
    destruct (Z.odd r), par; try reflexivity; discriminate Eb.
Qed.

(* ---------------------------------------------------------------- ECDSA ranges *)

Lemma ecdsa_verify_range z r s Q :
  ecdsa_verify z r s Q = true -> 1 <= r < secp_n /\ 1 <= s < secp_n /\ Q <> None.
Proof.
  unfold ecdsa_verify.
  destruct ((1 <=? r) && (r <? secp_n) && (1 <=? s) && (s <? secp_n)) eqn:E; [|discriminate].
  repeat (apply andb_true_iff in E; destruct E as [E ?]).
  repeat match goal with
         | h : (_ <=? _) = true |- _ => apply Z.leb_le in h
         | h : (_ <? _) = true |- _ => apply Z.ltb_lt in h
         end.
  intros Hv. repeat split; try lia. intros ->. discriminate Hv.
Qed.

Lemma ecdsa_sign_range d z k r s :
  ecdsa_sign d z k = Some (r, s) -> 1 <= r < secp_n /\ 1 <= s < secp_n.
Proof.
  unfold ecdsa_sign. pose proof secp_n_pos as Hn.
  destruct (pt_mul k secp_G) as [[x y]|]; [|discriminate].
  set (r0 := x mod secp_n).
  set (s0 := (inv_mod k secp_n * (z + r0 * d)) mod secp_n).
  destruct ((r0 =? 0) || (s0 =? 0)) eqn:E; [discriminate|].
  apply orb_false_iff in E. destruct E as [E1 E2].
  apply Z.eqb_neq in E1. apply Z.eqb_neq in E2.
  intros H. assert (r = r0 /\ s = s0) as [-> ->] by (split; congruence).
  pose proof (Z.mod_pos_bound x secp_n Hn) as Br.
  pose proof (Z.mod_pos_bound (inv_mod k secp_n * (z + r0 * d)) secp_n Hn) as Bs.
  fold r0 in Br. fold s0 in Bs. lia.
Qed.

Lemma ecdsa_low_s_range s : 1 <= s < secp_n -> 1 <= ecdsa_low_s s <= secp_n / 2.
Proof.
  intros Hs. unfold ecdsa_low_s.
  destruct (secp_n / 2 <? s) eqn:E.
  - apply Z.ltb_lt in E. assert (secp_n = 2 * (secp_n / 2) + 1) by reflexivity. lia.
  - apply Z.ltb_ge in E. lia.
Qed.

Lemma ecdsa_low_s_idem s : ecdsa_low_s s = s \/ ecdsa_low_s s = secp_n - s.
Proof. unfold ecdsa_low_s. destruct (secp_n / 2 <? s); auto. Qed.

Lemma int2octets_length x : length (int2octets x) = 32%nat.
Proof. apply be_bytes_length. Qed.

(* ---------------------------------------------------------------- computed curve facts (about 30 s) *)

Lemma secp_G_on_curve : on_curve secp_G = true.
Proof. vm_compute. reflexivity. Qed.

(* the generator has order dividing n (n is prime and G is finite, so the order is n; primality is not
   proved).  The computation runs once, in the kernel, at Qed. *)
Lemma secp_n_G : pt_mul secp_n secp_G = None.
Proof. vm_cast_no_check (eq_refl (@None (Z * Z))). Qed.
