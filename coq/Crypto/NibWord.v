(* Crypto/NibWord.v — fixed-width machine words as lists of 4-bit digits (most significant first) with the
   operations the hash functions need.  Every digit operation is a lookup table over a 16-constructor
   inductive type; the tables are not written by hand but computed ([Eval vm_compute]) from their
   arithmetic specification on Z, and Crypto/NibWordLemmas.v proves each equal to that specification.
   Extracted, a table is a pair of jump tables, so a 64-bit word operation costs 16 constant-time steps
   (Z.land / Z.lxor are bit-serial over zarith integers when extracted: about 50 times slower). *)
From Coq Require Import ZArith List Bool.
From Coq.Strings Require Import Byte.
From Verif Require Import Lib.Bytes.
Import ListNotations.
Open Scope Z_scope.

Inductive nib : Set := N0 | N1 | N2 | N3 | N4 | N5 | N6 | N7 | N8 | N9 | NA | NB | NC | ND | NE | NF.

Definition nib_to_Z (a : nib) : Z := match a with | N0 => 0 | N1 => 1 | N2 => 2 | N3 => 3 | N4 => 4 | N5 => 5 | N6 => 6 | N7 => 7 | N8 => 8 | N9 => 9 | NA => 10 | NB => 11 | NC => 12 | ND => 13 | NE => 14 | NF => 15 end.
Definition nib_of_Z (z : Z) : nib := match z mod 16 with | 0 => N0 | 1 => N1 | 2 => N2 | 3 => N3 | 4 => N4 | 5 => N5 | 6 => N6 | 7 => N7 | 8 => N8 | 9 => N9 | 10 => NA | 11 => NB | 12 => NC | 13 => ND | 14 => NE | _ => NF end.

(* eta-expansion over the sixteen digits: the skeleton from which the tables are computed *)
Definition nib_tab {A : Type} (f : nib -> A) (a : nib) : A := match a with | N0 => f N0 | N1 => f N1 | N2 => f N2 | N3 => f N3 | N4 => f N4 | N5 => f N5 | N6 => f N6 | N7 => f N7 | N8 => f N8 | N9 => f N9 | NA => f NA | NB => f NB | NC => f NC | ND => f ND | NE => f NE | NF => f NF end.

(* ---- digit tables (computed, not hand-written) *)

Definition nib_not : nib -> nib :=
  Eval vm_compute in (fun a => nib_tab (fun a' => nib_of_Z (15 - nib_to_Z a')) a).

Definition nib_xor : nib -> nib -> nib :=
  Eval vm_compute in
    (fun a b => nib_tab (fun a' => nib_tab (fun b' => nib_of_Z (Z.lxor (nib_to_Z a') (nib_to_Z b'))) b) a).
Definition nib_and : nib -> nib -> nib :=
  Eval vm_compute in
    (fun a b => nib_tab (fun a' => nib_tab (fun b' => nib_of_Z (Z.land (nib_to_Z a') (nib_to_Z b'))) b) a).
Definition nib_or : nib -> nib -> nib :=
  Eval vm_compute in
    (fun a b => nib_tab (fun a' => nib_tab (fun b' => nib_of_Z (Z.lor (nib_to_Z a') (nib_to_Z b'))) b) a).

(* a + b + carry-in: sum digit and carry-out, one table per carry-in *)
Definition nib_sum0 : nib -> nib -> nib :=
  Eval vm_compute in
    (fun a b => nib_tab (fun a' => nib_tab (fun b' => nib_of_Z (nib_to_Z a' + nib_to_Z b')) b) a).
Definition nib_sum1 : nib -> nib -> nib :=
  Eval vm_compute in
    (fun a b => nib_tab (fun a' => nib_tab (fun b' => nib_of_Z (nib_to_Z a' + nib_to_Z b' + 1)) b) a).
Definition nib_cy0 : nib -> nib -> bool :=
  Eval vm_compute in
    (fun a b => nib_tab (fun a' => nib_tab (fun b' => 16 <=? nib_to_Z a' + nib_to_Z b') b) a).
Definition nib_cy1 : nib -> nib -> bool :=
  Eval vm_compute in
    (fun a b => nib_tab (fun a' => nib_tab (fun b' => 16 <=? nib_to_Z a' + nib_to_Z b' + 1) b) a).

(* the digit at bit offset s of the two-digit number hi*16 + lo, i.e. ((hi*16 + lo) >> s) mod 16 *)
Definition nib_sh1 : nib -> nib -> nib :=
  Eval vm_compute in
    (fun hi lo => nib_tab (fun a' => nib_tab (fun b' => nib_of_Z ((16 * nib_to_Z a' + nib_to_Z b') / 2)) lo) hi).
Definition nib_sh2 : nib -> nib -> nib :=
  Eval vm_compute in
    (fun hi lo => nib_tab (fun a' => nib_tab (fun b' => nib_of_Z ((16 * nib_to_Z a' + nib_to_Z b') / 4)) lo) hi).
Definition nib_sh3 : nib -> nib -> nib :=
  Eval vm_compute in
    (fun hi lo => nib_tab (fun a' => nib_tab (fun b' => nib_of_Z ((16 * nib_to_Z a' + nib_to_Z b') / 8)) lo) hi).

Definition nib_sh (s : nat) (hi lo : nib) : nib :=
  match s with
  | O => lo
  | 1%nat => nib_sh1 hi lo
  | 2%nat => nib_sh2 hi lo
  | _ => nib_sh3 hi lo
  end.

(* ---- bytes <-> digits *)

Definition nib_of_bits (b3 b2 b1 b0 : bool) : nib :=
  if b3 then (if b2 then (if b1 then (if b0 then NF else NE) else (if b0 then ND else NC))
              else (if b1 then (if b0 then NB else NA) else (if b0 then N9 else N8)))
  else (if b2 then (if b1 then (if b0 then N7 else N6) else (if b0 then N5 else N4))
        else (if b1 then (if b0 then N3 else N2) else (if b0 then N1 else N0))).

Definition nib_bits : nib -> bool * bool * bool * bool :=
  Eval vm_compute in
    (fun a => nib_tab (fun a' => let z := nib_to_Z a' in
                                 (Z.testbit z 3, Z.testbit z 2, Z.testbit z 1, Z.testbit z 0)) a).

Definition nibs_of_byte (b : byte) : nib * nib :=
  let '(b0, (b1, (b2, (b3, (b4, (b5, (b6, b7))))))) := Byte.to_bits b in
  (nib_of_bits b7 b6 b5 b4, nib_of_bits b3 b2 b1 b0).

Definition byte_of_nibs (hi lo : nib) : byte :=
  let '(b7, b6, b5, b4) := nib_bits hi in
  let '(b3, b2, b1, b0) := nib_bits lo in
  Byte.of_bits (b0, (b1, (b2, (b3, (b4, (b5, (b6, b7))))))).

Definition nword := list nib.

(* big-endian bytes -> digits, most significant first *)
Fixpoint nw_of_bytes (bs : bytes) : nword :=
  match bs with
  | [] => []
  | b :: r => let (hi, lo) := nibs_of_byte b in hi :: lo :: nw_of_bytes r
  end.

(* little-endian bytes -> digits, most significant first *)
Fixpoint nw_of_bytes_le_acc (bs : bytes) (acc : nword) : nword :=
  match bs with
  | [] => acc
  | b :: r => let (hi, lo) := nibs_of_byte b in nw_of_bytes_le_acc r (hi :: lo :: acc)
  end.
Definition nw_of_bytes_le (bs : bytes) : nword := nw_of_bytes_le_acc bs [].

(* pairs of digits -> bytes (big endian); a trailing single digit is dropped *)
Fixpoint nw_to_bytes (w : nword) : bytes :=
  match w with
  | hi :: lo :: r => byte_of_nibs hi lo :: nw_to_bytes r
  | _ => []
  end.

(* the low [width] digits of z, most significant first *)
Fixpoint nw_of_Z_acc (width : nat) (z : Z) (acc : nword) : nword :=
  match width with
  | O => acc
  | S k => nw_of_Z_acc k (z / 16) (nib_of_Z z :: acc)
  end.
Definition nw_of_Z (width : nat) (z : Z) : nword := nw_of_Z_acc width z [].

Fixpoint nw_to_Z_acc (w : nword) (acc : Z) : Z :=
  match w with
  | [] => acc
  | d :: r => nw_to_Z_acc r (16 * acc + nib_to_Z d)
  end.
Definition nw_to_Z (w : nword) : Z := nw_to_Z_acc w 0.

(* ---- digitwise operations (result has the length of the shortest argument) *)

Fixpoint nw_map2 (f : nib -> nib -> nib) (a b : nword) : nword :=
  match a, b with
  | x :: a', y :: b' => f x y :: nw_map2 f a' b'
  | _, _ => []
  end.

Fixpoint nw_map3 (f : nib -> nib -> nib -> nib) (a b c : nword) : nword :=
  match a, b, c with
  | x :: a', y :: b', z :: c' => f x y z :: nw_map3 f a' b' c'
  | _, _, _ => []
  end.

Definition nw_not (a : nword) : nword := map nib_not a.
Definition nw_xor : nword -> nword -> nword := nw_map2 nib_xor.
Definition nw_and : nword -> nword -> nword := nw_map2 nib_and.
Definition nw_or : nword -> nword -> nword := nw_map2 nib_or.
Definition nw_xor3 : nword -> nword -> nword -> nword := nw_map3 (fun x y z => nib_xor (nib_xor x y) z).
(* Ch (x, y, z) = (x and y) xor (not x and z);  Maj (x, y, z) = (x and y) xor (x and z) xor (y and z) *)
Definition nw_ch : nword -> nword -> nword -> nword :=
  nw_map3 (fun x y z => nib_xor (nib_and x y) (nib_and (nib_not x) z)).
Definition nw_maj : nword -> nword -> nword -> nword :=
  nw_map3 (fun x y z => nib_xor (nib_xor (nib_and x y) (nib_and x z)) (nib_and y z)).

(* ---- rotations and shifts of a word of [width] digits by r bits, 0 <= r < 4 * width.
   With q = r / 4 and s = r mod 4, digit j of the result is the digit at bit offset s of the pair
   (l[j], l[j+1]), where l is x ++ x (rotation) or zeros ++ x (shift) from position width - q - 1 on.
   A [rspec] is that recipe (shift?, position, s); callers precompute it once per constant amount
   ([Eval vm_compute in mk_rotr ..]) because nat division is slow in extracted code. *)

Definition rspec := (bool * nat * nat)%type.
Definition mk_rotr (width r : nat) : rspec := (false, (width - r / 4 - 1)%nat, (r mod 4)%nat).
Definition mk_shr (width r : nat) : rspec := (true, (width - r / 4 - 1)%nat, (r mod 4)%nat).
Definition mk_rotl (width r : nat) : rspec := mk_rotr width ((4 * width - r) mod (4 * width)).

Fixpoint nw_window (s : nat) (n : nat) (l : nword) : nword :=
  match n, l with
  | S n', hi :: ((lo :: _) as l') => nib_sh s hi lo :: nw_window s n' l'
  | _, _ => []
  end.

Definition nw_apply (width : nat) (k : rspec) (x : nword) : nword :=
  let '(shift, pos, s) := k in
  nw_window s width (skipn pos ((if shift then repeat N0 width else x) ++ x)).

Definition nw_rotr (width r : nat) (x : nword) : nword := nw_apply width (mk_rotr width r) x.
Definition nw_shr (width r : nat) (x : nword) : nword := nw_apply width (mk_shr width r) x.
Definition nw_rotl (width r : nat) (x : nword) : nword := nw_apply width (mk_rotl width r) x.

(* xor of three rotated / shifted copies of x in one pass (the sigma functions of SHA-2) *)
Fixpoint nw_window3 (s1 s2 s3 : nat) (n : nat) (l1 l2 l3 : nword) : nword :=
  match n, l1, l2, l3 with
  | S n', h1 :: ((o1 :: _) as l1'), h2 :: ((o2 :: _) as l2'), h3 :: ((o3 :: _) as l3') =>
      nib_xor (nib_xor (nib_sh s1 h1 o1) (nib_sh s2 h2 o2)) (nib_sh s3 h3 o3)
      :: nw_window3 s1 s2 s3 n' l1' l2' l3'
  | _, _, _, _ => []
  end.

Definition nw_sigma (width : nat) (k1 k2 k3 : rspec) (x : nword) : nword :=
  let '(sh1, p1, s1) := k1 in
  let '(sh2, p2, s2) := k2 in
  let '(sh3, p3, s3) := k3 in
  let xx := x ++ x in
  let zx := repeat N0 width ++ x in
  nw_window3 s1 s2 s3 width (skipn p1 (if sh1 then zx else xx)) (skipn p2 (if sh2 then zx else xx))
             (skipn p3 (if sh3 then zx else xx)).

(* ---- addition modulo 16^width: ripple carry from the last (least significant) digit *)

Fixpoint nw_addc (a b : nword) : bool * nword :=
  match a, b with
  | x :: a', y :: b' =>
      let (c, r) := nw_addc a' b' in
      if c then (nib_cy1 x y, nib_sum1 x y :: r) else (nib_cy0 x y, nib_sum0 x y :: r)
  | _, _ => (false, [])
  end.

Definition nw_add (a b : nword) : nword := snd (nw_addc a b).
