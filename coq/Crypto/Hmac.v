(* Crypto/Hmac.v — HMAC (RFC 2104) over an arbitrary hash function, and PBKDF2-HMAC-SHA512 (RFC 8018).
   Validated against Python's hmac / hashlib.pbkdf2_hmac in the CRYPTO selftest. *)
From Coq Require Import ZArith List Bool.
From Coq.Strings Require Import Byte.
From Verif Require Import Lib.Bytes Crypto.Sha256 Crypto.Sha512.
Import ListNotations.
Open Scope Z_scope.

Definition xor_byte (a b : byte) : byte := zb (Z.lxor (bz a) (bz b)).

(* bytewise xor, truncated to the shorter argument *)
Fixpoint xor_bytes (a b : bytes) : bytes :=
  match a, b with
  | x :: a', y :: b' => xor_byte x y :: xor_bytes a' b'
  | _, _ => []
  end.

(* key normalised to exactly one block: hashed when longer, then zero-padded *)
Definition hmac_key (H : bytes -> bytes) (blocksize : nat) (key : bytes) : bytes :=
  let k := if (blocksize <? length key)%nat then H key else key in
  k ++ repeat x00 (blocksize - length k).

Definition hmac (H : bytes -> bytes) (blocksize : nat) (key msg : bytes) : bytes :=
  let k := hmac_key H blocksize key in
  let ipad := map (xor_byte x36) k in
  let opad := map (xor_byte x5c) k in
  H (opad ++ H (ipad ++ msg)).

Definition hmac_sha256 (key msg : bytes) : bytes := hmac sha256 64 key msg.
Definition hmac_sha512 (key msg : bytes) : bytes := hmac sha512 128 key msg.

(* PBKDF2: u = U_j, t = U_1 xor ... xor U_j; n further iterations (tail recursive) *)
Fixpoint pbkdf2_loop (PRF : bytes -> bytes) (n : nat) (u t : bytes) : bytes :=
  match n with
  | O => t
  | S n' => let u' := PRF u in pbkdf2_loop PRF n' u' (xor_bytes t u')
  end.

(* block T_i; iterations = 0 is treated like 1 (hashlib rejects it) *)
Definition pbkdf2_block (PRF : bytes -> bytes) (salt : bytes) (iterations : nat) (i : Z) : bytes :=
  let u1 := PRF (salt ++ be_bytes 4 i) in
  pbkdf2_loop PRF (iterations - 1) u1 u1.

Fixpoint pbkdf2_blocks (PRF : bytes -> bytes) (salt : bytes) (iterations : nat) (nblocks : nat) (i : Z)
  : bytes :=
  match nblocks with
  | O => []
  | S k => pbkdf2_block PRF salt iterations i ++ pbkdf2_blocks PRF salt iterations k (i + 1)
  end.

Definition pbkdf2 (PRF : bytes -> bytes -> bytes) (hlen : nat) (password salt : bytes)
  (iterations dklen : nat) : bytes :=
  firstn dklen (pbkdf2_blocks (PRF password) salt iterations ((dklen + hlen - 1) / hlen)%nat 1).

Definition pbkdf2_hmac_sha512 (password salt : bytes) (iterations dklen : nat) : bytes :=
  pbkdf2 hmac_sha512 64 password salt iterations dklen.
