(* Crypto/BitWord.v — fixed-width machine words as bit lists (most significant bit first) with the
   operations the hash functions need.  Every operation is a single structural pass over [list bool],
   so the extracted code runs in time linear in the width with a small constant (Z.land/Z.lxor are
   bit-serial over zarith integers when extracted and about ten times slower). *)
From Coq Require Import ZArith List Bool.
From Coq.Strings Require Import Byte.
From Verif Require Import Lib.Bytes.
Import ListNotations.
Open Scope Z_scope.

Definition bword := list bool.

(* ---- conversions *)

Definition bits_of_byte (b : byte) : bword :=
  let '(b0, (b1, (b2, (b3, (b4, (b5, (b6, b7))))))) := Byte.to_bits b in
  [b7; b6; b5; b4; b3; b2; b1; b0].

(* big-endian bytes -> bits, most significant first *)
Fixpoint bw_of_bytes (bs : bytes) : bword :=
  match bs with
  | [] => []
  | b :: r => bits_of_byte b ++ bw_of_bytes r
  end.

(* groups of eight bits -> bytes; a trailing group of fewer than eight bits is dropped *)
Fixpoint bw_to_bytes (w : bword) : bytes :=
  match w with
  | b7 :: b6 :: b5 :: b4 :: b3 :: b2 :: b1 :: b0 :: r =>
      Byte.of_bits (b0, (b1, (b2, (b3, (b4, (b5, (b6, b7))))))) :: bw_to_bytes r
  | _ => []
  end.

(* the low [width] bits of z, most significant first *)
Fixpoint bw_of_Z_acc (width : nat) (z : Z) (acc : bword) : bword :=
  match width with
  | O => acc
  | S k => bw_of_Z_acc k (Z.div2 z) (Z.odd z :: acc)
  end.
Definition bw_of_Z (width : nat) (z : Z) : bword := bw_of_Z_acc width z [].

Fixpoint bw_to_Z_acc (w : bword) (acc : Z) : Z :=
  match w with
  | [] => acc
  | b :: r => bw_to_Z_acc r (if b then 2 * acc + 1 else 2 * acc)
  end.
Definition bw_to_Z (w : bword) : Z := bw_to_Z_acc w 0.

(* ---- bitwise operations (result has the length of the shortest argument) *)

Fixpoint bw_map2 (f : bool -> bool -> bool) (a b : bword) : bword :=
  match a, b with
  | x :: a', y :: b' => f x y :: bw_map2 f a' b'
  | _, _ => []
  end.

Fixpoint bw_map3 (f : bool -> bool -> bool -> bool) (a b c : bword) : bword :=
  match a, b, c with
  | x :: a', y :: b', z :: c' => f x y z :: bw_map3 f a' b' c'
  | _, _, _ => []
  end.

Definition bw_not (a : bword) : bword := map negb a.
Definition bw_xor : bword -> bword -> bword := bw_map2 xorb.
Definition bw_and : bword -> bword -> bword := bw_map2 andb.
Definition bw_or : bword -> bword -> bword := bw_map2 orb.
Definition bw_xor3 : bword -> bword -> bword -> bword := bw_map3 (fun x y z => xorb (xorb x y) z).
(* Ch (x, y, z) = (x and y) xor (not x and z);  Maj (x, y, z) = (x and y) xor (x and z) xor (y and z) *)
Definition bw_ch : bword -> bword -> bword -> bword := bw_map3 (fun x y z => if x then y else z).
Definition bw_maj : bword -> bword -> bword -> bword :=
  bw_map3 (fun x y z => if x then orb y z else andb y z).

(* ---- rotations and shifts of a word of [width] bits by n <= width *)

Definition bw_rotr (width n : nat) (w : bword) : bword := skipn (width - n) w ++ firstn (width - n) w.
Definition bw_rotl (width n : nat) (w : bword) : bword := skipn n w ++ firstn n w.
Definition bw_shr (width n : nat) (w : bword) : bword := repeat false n ++ firstn (width - n) w.

(* ---- addition modulo 2^width: ripple carry from the last (least significant) bit *)

Fixpoint bw_addc (a b : bword) : bool * bword :=
  match a, b with
  | x :: a', y :: b' =>
      let (c, r) := bw_addc a' b' in
      (if x then orb y c else andb y c, xorb (xorb x y) c :: r)
  | _, _ => (false, [])
  end.

Definition bw_add (a b : bword) : bword := snd (bw_addc a b).
