(* Crypto/Secp256k1.v — textbook affine secp256k1 over Z (SEC 2), ECDSA (SEC 1 / FIPS 186) and the
   RFC 6979 deterministic nonce with HMAC-SHA256.  Executable definitions only; this file does not
   depend on Gen (the constants are tied to the regenerated ones in Crypto/Secp256k1Glue.v).
   NOT proved anywhere: the group law of this instance and primality of [secp_p], [secp_n].
   Validated against fastecdsa in the CRYPTO selftest. *)
From Coq Require Import ZArith List Bool.
From Coq.Strings Require Import Byte.
From Verif Require Import Lib.Bytes Crypto.Sha256 Crypto.Sha512 Crypto.Hmac.
Import ListNotations.
Open Scope Z_scope.

Definition secp_p : Z := 115792089237316195423570985008687907853269984665640564039457584007908834671663.
Definition secp_n : Z := 115792089237316195423570985008687907852837564279074904382605163141518161494337.
Definition secp_Gx : Z := 55066263022277343669578718895168534326250603453777594175500187360389116729240.
Definition secp_Gy : Z := 32670510020758816978083085130507043184471273380659243275938904335757337482424.
Definition secp_b : Z := 7.

(* None = the point at infinity; coordinates of a finite point are kept reduced in [0, p) *)
Definition point := option (Z * Z).
Definition secp_G : point := Some (secp_Gx, secp_Gy).

(* ---------------------------------------------------------------- modular arithmetic *)

(* square-and-multiply, most significant bit first (structural on the exponent); b already reduced *)
Fixpoint powmod_pos (b : Z) (e : positive) (m : Z) : Z :=
  match e with
  | xH => b mod m
  | xO e' => let r := powmod_pos b e' m in (r * r) mod m
  | xI e' => let r := powmod_pos b e' m in (((r * r) mod m) * b) mod m
  end.

(* b^e mod m for e >= 0 (0 for a negative exponent) *)
Definition powmod (b e m : Z) : Z :=
  match e with
  | Z0 => 1 mod m
  | Zpos e' => powmod_pos (b mod m) e' m
  | Zneg _ => 0
  end.

(* extended Euclid on (r0, r1) with Bezout coefficients of the second argument; returns (gcd, coeff) *)
Fixpoint egcd_loop (fuel : nat) (r0 r1 t0 t1 : Z) : Z * Z :=
  match fuel with
  | O => (r0, t0)
  | S f =>
      if r1 =? 0 then (r0, t0)
      else let (q, r) := Z.div_eucl r0 r1 in egcd_loop f r1 r t1 (t0 - q * t1)
  end.

(* enough for moduli up to ~690 bits (at most 1.45 * log2 m steps) *)
Definition egcd_fuel : nat := 1000%nat.

(* a^-1 mod m when gcd (a, m) = 1, otherwise 0 *)
Definition inv_mod (a m : Z) : Z :=
  let (g, t) := egcd_loop egcd_fuel m (a mod m) 0 1 in
  if g =? 1 then t mod m else 0.

(* the same by Fermat (m prime); kept for cross-checking *)
Definition inv_mod_fermat (a m : Z) : Z := powmod a (m - 2) m.

(* ---------------------------------------------------------------- the curve y^2 = x^3 + 7 over F_p *)

Definition on_curve (P : point) : bool :=
  match P with
  | None => true
  | Some (x, y) =>
      (0 <=? x) && (x <? secp_p) && (0 <=? y) && (y <? secp_p) &&
      ((y * y - (x * x * x + secp_b)) mod secp_p =? 0)
  end.

Definition pt_neg (P : point) : point :=
  match P with
  | None => None
  | Some (x, y) => Some (x, (secp_p - y) mod secp_p)
  end.

Definition pt_double (P : point) : point :=
  match P with
  | None => None
  | Some (x, y) =>
      if y =? 0 then None
      else
        let l := (3 * x * x * inv_mod (2 * y) secp_p) mod secp_p in
        let x3 := (l * l - 2 * x) mod secp_p in
        let y3 := (l * (x - x3) - y) mod secp_p in
        Some (x3, y3)
  end.

Definition pt_add (P Q : point) : point :=
  match P, Q with
  | None, _ => Q
  | _, None => P
  | Some (x1, y1), Some (x2, y2) =>
      if x1 =? x2 then
        if (y1 + y2) mod secp_p =? 0 then None else pt_double P
      else
        let l := ((y2 - y1) * inv_mod (x2 - x1) secp_p) mod secp_p in
        let x3 := (l * l - x1 - x2) mod secp_p in
        let y3 := (l * (x1 - x3) - y1) mod secp_p in
        Some (x3, y3)
  end.

(* double-and-add over the binary expansion of k, most significant bit first *)
Fixpoint pt_mul_pos (k : positive) (P : point) : point :=
  match k with
  | xH => P
  | xO k' => pt_double (pt_mul_pos k' P)
  | xI k' => pt_add (pt_double (pt_mul_pos k' P)) P
  end.

Definition pt_mul (k : Z) (P : point) : point :=
  match k with
  | Z0 => None
  | Zpos k' => pt_mul_pos k' P
  | Zneg k' => pt_neg (pt_mul_pos k' P)
  end.

Definition secp_pub (d : Z) : point := pt_mul d secp_G.

(* ---------------------------------------------------------------- square roots, (de)compression *)

Definition secp_sqrt_exp : Z := (secp_p + 1) / 4.

(* candidate square root (p = 3 mod 4): a root of a whenever a is a quadratic residue *)
Definition mod_sqrt (a : Z) : Z := powmod a secp_sqrt_exp secp_p.

(* parity = true selects the odd y (prefix 03), false the even y (prefix 02) *)
Definition decompress (parity : bool) (x : Z) : option (Z * Z) :=
  if (x <? 0) || (secp_p <=? x) then None
  else
    let a := (x * x * x + secp_b) mod secp_p in
    let y := mod_sqrt a in
    if (y * y) mod secp_p =? a then
      Some (x, if Bool.eqb (Z.odd y) parity then y else (secp_p - y) mod secp_p)
    else None.

Definition compress (P : point) : option (bool * Z) :=
  match P with
  | None => None
  | Some (x, y) => Some (Z.odd y, x)
  end.

(* SEC 1 section 2.3.3; the point at infinity is the single byte 00 *)
Definition ser_point_compressed (P : point) : bytes :=
  match P with
  | None => [x00]
  | Some (x, y) => (if Z.odd y then x03 else x02) :: be_bytes 32 x
  end.

Definition ser_point_uncompressed (P : point) : bytes :=
  match P with
  | None => [x00]
  | Some (x, y) => x04 :: be_bytes 32 x ++ be_bytes 32 y
  end.

(* SEC 1 section 2.3.4: 33-byte compressed or 65-byte uncompressed encodings of finite curve points *)
Definition parse_point (b : bytes) : option (Z * Z) :=
  match b with
  | pfx :: rest =>
      if (bz pfx =? 2) || (bz pfx =? 3) then
        if (length rest =? 32)%nat then decompress (bz pfx =? 3) (of_be rest) else None
      else if bz pfx =? 4 then
        if (length rest =? 64)%nat then
          let P := (of_be (firstn 32 rest), of_be (skipn 32 rest)) in
          if on_curve (Some P) then Some P else None
        else None
      else None
  | [] => None
  end.

(* ---------------------------------------------------------------- ECDSA *)

(* textbook signing with private key d, message representative z and nonce k; no low-s normalisation *)
Definition ecdsa_sign (d z k : Z) : option (Z * Z) :=
  match pt_mul k secp_G with
  | None => None
  | Some (x, _) =>
      let r := x mod secp_n in
      let s := (inv_mod k secp_n * (z + r * d)) mod secp_n in
      if (r =? 0) || (s =? 0) then None else Some (r, s)
  end.

(* BIP 62 / BIP 146 canonical form: the smaller of s and n - s *)
Definition ecdsa_low_s (s : Z) : Z := if secp_n / 2 <? s then secp_n - s else s.

Definition ecdsa_verify (z r s : Z) (Q : point) : bool :=
  if (1 <=? r) && (r <? secp_n) && (1 <=? s) && (s <? secp_n) then
    match Q with
    | None => false
    | Some _ =>
        let w := inv_mod s secp_n in
        let u1 := (z * w) mod secp_n in
        let u2 := (r * w) mod secp_n in
        match pt_add (pt_mul u1 secp_G) (pt_mul u2 Q) with
        | None => false
        | Some (x, _) => x mod secp_n =? r
        end
    end
  else false.

(* ---------------------------------------------------------------- RFC 6979, HMAC-SHA256, qlen = 256 *)

(* section 2.3.2 *)
Definition bits2int (b : bytes) : Z :=
  let blen := 8 * Z.of_nat (length b) in
  if 256 <? blen then Z.shiftr (of_be b) (blen - 256) else of_be b.

(* section 2.3.3 (for 0 <= x < 2^256) and 2.3.4 *)
Definition int2octets (x : Z) : bytes := be_bytes 32 x.
Definition bits2octets (b : bytes) : bytes := int2octets (bits2int b mod secp_n).

(* section 3.2 step h; fuel bounds the number of rejected candidates (each is rejected with
   probability < 2^-127); 0 is returned only when the fuel runs out *)
Fixpoint rfc6979_loop (fuel : nat) (K V : bytes) : Z :=
  match fuel with
  | O => 0
  | S f =>
      let V1 := hmac_sha256 K V in
      let k := bits2int V1 in
      if (1 <=? k) && (k <? secp_n) then k
      else
        let K' := hmac_sha256 K (V1 ++ [x00]) in
        rfc6979_loop f K' (hmac_sha256 K' V1)
  end.

Definition rfc6979_nonce_fuel (fuel : nat) (d : Z) (h1 : bytes) : Z :=
  let xh := int2octets d ++ bits2octets h1 in
  let V0 := repeat x01 32 in
  let K0 := repeat x00 32 in
  let K1 := hmac_sha256 K0 (V0 ++ [x00] ++ xh) in
  let V1 := hmac_sha256 K1 V0 in
  let K2 := hmac_sha256 K1 (V1 ++ [x01] ++ xh) in
  let V2 := hmac_sha256 K2 V1 in
  rfc6979_loop fuel K2 V2.

(* d = private key in [1, n), h1 = hash of the message (normally 32 bytes) *)
Definition rfc6979_nonce (d : Z) (h1 : bytes) : Z := rfc6979_nonce_fuel 64 d h1.

(* deterministic ECDSA: z = bits2int h1, k = rfc6979_nonce d h1 *)
Definition ecdsa_sign_rfc6979 (d : Z) (h1 : bytes) : option (Z * Z) :=
  ecdsa_sign d (bits2int h1) (rfc6979_nonce d h1).
