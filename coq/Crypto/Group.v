(* Crypto/Group.v — an abstract commutative group with its Z-action and a generator of order n.
   The laws are packaged as one proposition [group_laws]; theorems that need them take it as a
   visible premise (C03 ckd_commute / path_split).  Nothing here is about secp256k1: the executable
   instance in Crypto/Secp256k1.v is NOT proved to satisfy [group_laws] (no elliptic-curve library is
   installed); [z2_group_laws] below only shows that the premise is satisfiable. *)
From Coq Require Import ZArith Lia Bool.
Open Scope Z_scope.

Record group_laws {Pt : Type} (add : Pt -> Pt -> Pt) (zero : Pt) (neg : Pt -> Pt)
       (smul : Z -> Pt -> Pt) (gen : Pt) (n : Z) : Prop := {
  gl_assoc : forall P Q R, add P (add Q R) = add (add P Q) R;
  gl_comm : forall P Q, add P Q = add Q P;
  gl_zero_l : forall P, add zero P = P;
  gl_neg_l : forall P, add (neg P) P = zero;
  gl_smul_1 : forall P, smul 1 P = P;
  gl_smul_add : forall a b P, smul (a + b) P = add (smul a P) (smul b P);
  gl_n_pos : 0 < n;
  gl_order : smul n gen = zero;
  gl_order_min : forall k, 0 < k < n -> smul k gen <> zero
}.

Section Group.
Variable Pt : Type.
Variable add : Pt -> Pt -> Pt.
Variable zero : Pt.
Variable neg : Pt -> Pt.
Variable smul : Z -> Pt -> Pt.
Variable gen : Pt.
Variable n : Z.
Hypothesis GL : group_laws add zero neg smul gen n.

Lemma g_zero_r P : add P zero = P.
Proof. rewrite (gl_comm _ _ _ _ _ _ GL). apply (gl_zero_l _ _ _ _ _ _ GL). Qed.

Lemma g_cancel_l P Q R : add P Q = add P R -> Q = R.
Proof.
  intros H. apply (f_equal (add (neg P))) in H.
  rewrite !(gl_assoc _ _ _ _ _ _ GL), (gl_neg_l _ _ _ _ _ _ GL), !(gl_zero_l _ _ _ _ _ _ GL) in H. exact H.
Qed.

Lemma g_smul_0 P : smul 0 P = zero.
Proof.
  apply (g_cancel_l (smul 0 P)). rewrite g_zero_r.
  rewrite <- (gl_smul_add _ _ _ _ _ _ GL). reflexivity.
Qed.

Lemma g_smul_succ a P : smul (Z.succ a) P = add (smul a P) P.
Proof. unfold Z.succ. rewrite (gl_smul_add _ _ _ _ _ _ GL), (gl_smul_1 _ _ _ _ _ _ GL). reflexivity. Qed.

(* every multiple of the order annihilates the generator *)
Lemma g_smul_mult_order q : smul (q * n) gen = zero.
Proof.
  pattern q. apply Z.peano_ind.
  - apply g_smul_0.
  - intros x IH. replace (Z.succ x * n) with (x * n + n) by lia.
    rewrite (gl_smul_add _ _ _ _ _ _ GL), IH, (gl_order _ _ _ _ _ _ GL). apply (gl_zero_l _ _ _ _ _ _ GL).
  - intros x IH. replace (x * n) with (Z.pred x * n + n) in IH by lia.
    rewrite (gl_smul_add _ _ _ _ _ _ GL), (gl_order _ _ _ _ _ _ GL), g_zero_r in IH. exact IH.
Qed.

(* scalars act on the generator modulo n *)
Lemma g_smul_mod a : smul (a mod n) gen = smul a gen.
Proof.
  pose proof (gl_n_pos _ _ _ _ _ _ GL) as Hn.
  rewrite (Z.div_mod a n) at 2 by lia.
  rewrite (gl_smul_add _ _ _ _ _ _ GL).
  replace (n * (a / n)) with (a / n * n) by lia.
  rewrite g_smul_mult_order. symmetry. apply (gl_zero_l _ _ _ _ _ _ GL).
Qed.

(* (a + b mod n) G = a G + b G : the identity behind CKDpriv / CKDpub *)
Lemma g_smul_add_mod a b : smul ((a + b) mod n) gen = add (smul a gen) (smul b gen).
Proof. rewrite g_smul_mod. apply (gl_smul_add _ _ _ _ _ _ GL). Qed.

(* a reduced scalar annihilates the generator only when it is 0 *)
Lemma g_smul_mod_zero a : smul (a mod n) gen = zero <-> a mod n = 0.
Proof.
  pose proof (gl_n_pos _ _ _ _ _ _ GL) as Hn.
  pose proof (Z.mod_pos_bound a n Hn) as Hb.
  split.
  - intros H. destruct (Z.eq_dec (a mod n) 0) as [E|E]; [exact E|].
    exfalso. apply (gl_order_min _ _ _ _ _ _ GL (a mod n)); [lia | exact H].
  - intros E. rewrite E. apply g_smul_0.
Qed.

End Group.

(* The premise is satisfiable: Z/2Z *)
Definition z2_smul (k : Z) (b : bool) : bool := if Z.odd k then b else false.

Lemma z2_group_laws : group_laws xorb false (fun b => b) z2_smul true 2.
Proof.
  constructor.
  - intros P Q R. symmetry. apply xorb_assoc.
  - apply xorb_comm.
  - apply xorb_false_l.
  - apply xorb_nilpotent.
  - intros P. reflexivity.
  - intros a b P. unfold z2_smul. rewrite Z.odd_add.
    destruct (Z.odd a), (Z.odd b), P; reflexivity.
  - lia.
  - reflexivity.
  - intros k Hk. assert (k = 1) by lia. subst. discriminate.
Qed.
