(* Crypto/EcdsaAlgebra.v — why ECDSA verification accepts what ECDSA signing produces (C13, sign_verifies).
   Part 1: the executable modular inverse of Crypto/Secp256k1.v (extended Euclid with fuel) is an inverse
           modulo every prime below 2^500.
   Part 2: Section Group — signing and verification written over an ARBITRARY structure (carrier, addition,
           Z-action, base point, x-coordinate map, order n); the laws that the proof uses are Section hypotheses
           and therefore visible premises of the closed theorem.  Nothing here is specific to secp256k1.
   Part 3: the executable ecdsa_sign / ecdsa_verify of Crypto/Secp256k1.v ARE the generic ones at the affine
           instance (by computation).  Not proved (DESIGN section 4 item 3): that the affine instance satisfies
           the laws, and that secp_n is prime. *)
From Coq Require Import ZArith List Bool Lia Znumtheory.
From Verif Require Import Lib.Bytes Crypto.Secp256k1.
Open Scope Z_scope.

(* ---------------------------------------------------------------- Part 1: inv_mod *)

Lemma egcd_loop_S fuel r0 r1 t0 t1 : egcd_loop (S fuel) r0 r1 t0 t1 =
  if r1 =? 0 then (r0, t0) else let (q, r) := Z.div_eucl r0 r1 in egcd_loop fuel r1 r t1 (t0 - q * t1).
Proof. reflexivity. Qed.

Lemma egcd_loop_O r0 r1 t0 t1 : egcd_loop O r0 r1 t0 t1 = (r0, t0).
Proof. reflexivity. Qed.

(* invariant: both remainders are multiples of a modulo m; the product of the remainders at least halves
   in every step, so fuel >= log2 (r0 * r1) suffices *)
Lemma egcd_loop_spec a m : forall fuel r0 r1 t0 t1 g t,
  0 <= r1 < r0 -> r0 * r1 < 2 ^ Z.of_nat fuel ->
  (m | r0 - t0 * a) -> (m | r1 - t1 * a) ->
  egcd_loop fuel r0 r1 t0 t1 = (g, t) ->
  Zis_gcd r0 r1 g /\ 0 <= g /\ (m | g - t * a).
Proof.
  induction fuel as [|f IH]; intros r0 r1 t0 t1 g t Hr Hprod H0 H1 E.
  - rewrite egcd_loop_O in E. assert (g = r0) by congruence. assert (t = t0) by congruence. subst g t.
    change (2 ^ Z.of_nat 0) with 1 in Hprod. assert (r1 = 0) by nia. subst r1.
    split; [apply Zis_gcd_0|]. split; [lia|exact H0].
  - rewrite egcd_loop_S in E. destruct (r1 =? 0) eqn:E0.
    + apply Z.eqb_eq in E0. subst r1. assert (g = r0) by congruence. assert (t = t0) by congruence. subst g t.
      split; [apply Zis_gcd_0|]. split; [lia|exact H0].
    + apply Z.eqb_neq in E0. pose proof (Z_div_mod r0 r1 ltac:(lia)) as Hdm.
      destruct (Z.div_eucl r0 r1) as [q r]. destruct Hdm as [Hq Hrr].
      assert (Hq1 : 1 <= q) by nia.
      rewrite Nat2Z.inj_succ, Z.pow_succ_r in Hprod by lia.
      assert (Hp' : r1 * r < 2 ^ Z.of_nat f) by nia.
      assert (Hc : (m | r - (t0 - q * t1) * a)).
      { replace (r - (t0 - q * t1) * a) with ((r0 - t0 * a) - q * (r1 - t1 * a)) by (subst r0; ring).
        apply Z.divide_sub_r; [exact H0|]. apply Z.divide_mul_r. exact H1. }
      destruct (IH r1 r t1 (t0 - q * t1) g t ltac:(lia) Hp' H1 Hc E) as (Hg & Hg0 & Hgt).
      split; [|split; assumption].
      subst r0. apply Zis_gcd_sym. apply Zis_gcd_for_euclid2. apply Zis_gcd_sym. exact Hg.
Qed.

Lemma egcd_fuel_Z : Z.of_nat egcd_fuel = 1000.
Proof. reflexivity. Qed.

Lemma inv_mod_correct m a : prime m -> m < 2 ^ 500 -> a mod m <> 0 -> (inv_mod a m * a) mod m = 1.
Proof.
  intros Hp Hm Ha. pose proof (prime_ge_2 m Hp) as H2.
  pose proof (Z.mod_pos_bound a m ltac:(lia)) as Hb.
  unfold inv_mod. destruct (egcd_loop egcd_fuel m (a mod m) 0 1) as [g t] eqn:E.
  assert (Hprod : m * (a mod m) < 2 ^ Z.of_nat egcd_fuel).
  { rewrite egcd_fuel_Z. replace 1000 with (500 + 500) by reflexivity. rewrite Z.pow_add_r by lia.
    assert (0 < 2 ^ 500) by (apply Z.pow_pos_nonneg; lia). nia. }
  assert (H0 : (m | m - 0 * a)) by (exists 1; lia).
  assert (H1 : (m | a mod m - 1 * a)).
  { exists (- (a / m)). pose proof (Z.div_mod a m ltac:(lia)). lia. }
  destruct (egcd_loop_spec a m egcd_fuel m (a mod m) 0 1 g t ltac:(lia) Hprod H0 H1 E) as (Hg & Hg0 & Hgt).
  assert (Hrp : rel_prime m (a mod m)).
  { apply prime_rel_prime; [exact Hp|]. intros Hd. apply Z.mod_divide in Hd; [|lia].
    rewrite Z.mod_mod in Hd by lia. contradiction. }
  destruct (Zis_gcd_unique _ _ _ _ Hg Hrp) as [H|H]; [|lia]. subst g.
  change (1 =? 1) with true. cbv iota.
  rewrite Z.mul_mod_idemp_l by lia.
  destruct Hgt as [c Hc]. replace (t * a) with (1 + (- c) * m) by lia.
  rewrite Z_mod_plus_full. apply Z.mod_small. lia.
Qed.

(* ---------------------------------------------------------------- Part 2: the algebra *)

Section Group.
  Variable G : Type.
  Variable gzero : G.
  Variable gadd : G -> G -> G.
  Variable smul : Z -> G -> G.          (* the Z-action: k |-> k . P *)
  Variable gen : G.                     (* base point *)
  Variable xof : G -> option Z.         (* x-coordinate; None for the neutral element *)
  Variable n : Z.                       (* order of the base point *)

  Hypothesis n_prime : prime n.
  Hypothesis n_bound : n < 2 ^ 500.     (* only because the executable inverse runs on 1000 units of fuel *)
  Hypothesis gadd_zero_r : forall P, gadd P gzero = P.
  Hypothesis smul_add : forall a b P, smul (a + b) P = gadd (smul a P) (smul b P).
  Hypothesis smul_mul : forall a b P, smul (a * b) P = smul a (smul b P).
  Hypothesis smul_zero_r : forall a, smul a gzero = gzero.
  Hypothesis gen_order : smul n gen = gzero.
  Hypothesis xof_neg : forall P, xof (smul (-1) P) = xof P.

  (* SEC 1 section 4.1.3 with the message representative z and the nonce k given *)
  Definition g_sign (d z k : Z) : option (Z * Z) :=
    match xof (smul k gen) with
    | None => None
    | Some x =>
        let r := x mod n in
        let s := (inv_mod k n * (z + r * d)) mod n in
        if (r =? 0) || (s =? 0) then None else Some (r, s)
    end.

  (* SEC 1 section 4.1.4 *)
  Definition g_verify (z r s : Z) (Q : G) : bool :=
    if (1 <=? r) && (r <? n) && (1 <=? s) && (s <? n) then
      let w := inv_mod s n in
      let u1 := (z * w) mod n in
      let u2 := (r * w) mod n in
      match xof (gadd (smul u1 gen) (smul u2 Q)) with
      | None => false
      | Some x => x mod n =? r
      end
    else false.

  Lemma n_ge_2 : 2 <= n.
  Proof. apply prime_ge_2. exact n_prime. Qed.

  Lemma smul_congr a b q : a = b + n * q -> smul a gen = smul b gen.
  Proof.
    intros ->. rewrite smul_add. replace (n * q) with (q * n) by ring.
    rewrite smul_mul, gen_order, smul_zero_r. apply gadd_zero_r.
  Qed.

  Lemma mod_witness a b : a mod n = b -> exists q, a = b + n * q.
  Proof. intros <-. exists (a / n). pose proof n_ge_2. pose proof (Z.div_mod a n ltac:(lia)). lia. Qed.

  Lemma unit_mod v : 1 <= v < n -> v mod n <> 0.
  Proof. intros H. rewrite Z.mod_small by lia. lia. Qed.

  (* the combination the verifier forms is k (for s) or -k (for n - s) modulo n *)
  Lemma combine d z k ki r s w u1 u2 e :
    (ki * k) mod n = 1 ->
    (ki * (z + r * d)) mod n = s ->
    (w * s) mod n = e mod n ->
    (z * w) mod n = u1 -> (r * w) mod n = u2 ->
    exists q, u1 + u2 * d = e * k + n * q.
  Proof.
    intros Hk Hs Hw H1 H2.
    destruct (mod_witness _ _ Hk) as [q1 E1]. destruct (mod_witness _ _ Hs) as [q2 E2].
    destruct (mod_witness _ _ H1) as [q4 E4]. destruct (mod_witness _ _ H2) as [q5 E5].
    assert (exists q3, w * s = e + n * q3) as [q3 E3].
    { destruct (mod_witness _ _ Hw) as [qa Ea]. destruct (mod_witness e (e mod n) eq_refl) as [qb Eb].
      exists (qa - qb). lia. }
    assert (Hmain : w * (z + r * d) = e * k + n * (k * q3 - w * q1 * (z + r * d) + w * k * q2)).
    { transitivity (w * (z + r * d) * (ki * k) - n * q1 * w * (z + r * d)); [rewrite E1; ring|].
      replace (w * (z + r * d) * (ki * k)) with (w * k * (ki * (z + r * d))) by ring. rewrite E2.
      replace (w * k * (s + n * q2)) with (k * (w * s) + n * (w * k * q2)) by ring. rewrite E3. ring. }
    exists (k * q3 - w * q1 * (z + r * d) + w * k * q2 - q4 - q5 * d).
    replace (u1 + u2 * d) with (w * (z + r * d) - n * q4 - n * q5 * d) by lia.
    rewrite Hmain. ring.
  Qed.

  (* every signature the textbook signer returns, and its low-S twin, passes the textbook verifier under
     the public key d . G — for every key d, every message representative z and every nonce in [1, n-1] *)
  Theorem sign_verifies d z k r s :
    1 <= k < n -> g_sign d z k = Some (r, s) ->
    g_verify z r s (smul d gen) = true /\ g_verify z r (n - s) (smul d gen) = true.
  Proof.
    intros Hk Hsig. pose proof n_ge_2 as Hn2. unfold g_sign in Hsig.
    destruct (xof (smul k gen)) as [x|] eqn:Ex; [|discriminate]. cbv zeta in Hsig.
    destruct ((x mod n =? 0) || ((inv_mod k n * (z + x mod n * d)) mod n =? 0)) eqn:Ez; [discriminate|].
    apply orb_false_iff in Ez. destruct Ez as [Er0 Es0]. apply Z.eqb_neq in Er0. apply Z.eqb_neq in Es0.
    assert (r = x mod n) by congruence. assert (s = (inv_mod k n * (z + x mod n * d)) mod n) by congruence.
    clear Hsig. pose proof (Z.mod_pos_bound x n ltac:(lia)) as Hrb.
    pose proof (Z.mod_pos_bound (inv_mod k n * (z + x mod n * d)) n ltac:(lia)) as Hsb.
    rewrite <- H in *. rewrite <- H0 in *.
    assert (Hkinv : (inv_mod k n * k) mod n = 1) by (apply inv_mod_correct; auto using unit_mod).
    assert (Hrange : forall s', 1 <= s' < n -> (1 <=? r) && (r <? n) && (1 <=? s') && (s' <? n) = true).
    { intros s' Hs'. repeat (apply andb_true_iff; split); try apply Z.leb_le; try apply Z.ltb_lt; lia. }
    split.
    - unfold g_verify. rewrite (Hrange s) by lia. cbv zeta.
      assert (Hw : (inv_mod s n * s) mod n = 1 mod n).
      { rewrite (Z.mod_small 1) by lia. apply inv_mod_correct; auto using unit_mod. apply unit_mod. lia. }
      destruct (combine d z k (inv_mod k n) r s (inv_mod s n) _ _ 1 Hkinv (eq_sym H0) Hw eq_refl eq_refl) as [q Hq].
      rewrite <- smul_mul, <- smul_add.
      rewrite (smul_congr _ k q) by lia. rewrite Ex. apply Z.eqb_eq. congruence.
    - unfold g_verify. rewrite (Hrange (n - s)) by lia. cbv zeta.
      assert (Hw : (inv_mod (n - s) n * s) mod n = (-1) mod n).
      { assert (Hi : (inv_mod (n - s) n * (n - s)) mod n = 1) by (apply inv_mod_correct; auto; apply unit_mod; lia).
        destruct (mod_witness _ _ Hi) as [q Hq].
        replace (inv_mod (n - s) n * s) with (-1 + (inv_mod (n - s) n - q) * n) by lia.
        apply Z_mod_plus_full. }
      destruct (combine d z k (inv_mod k n) r s (inv_mod (n - s) n) _ _ (-1) Hkinv (eq_sym H0) Hw eq_refl eq_refl) as [q Hq].
      rewrite <- smul_mul, <- smul_add.
      rewrite (smul_congr _ (-1 * k) q) by lia. rewrite smul_mul, xof_neg, Ex. apply Z.eqb_eq. congruence.
  Qed.
End Group.

(* ---------------------------------------------------------------- Part 3: the executable instance *)

Definition xof_pt (P : point) : option Z := match P with Some (x, _) => Some x | None => None end.

Lemma ecdsa_sign_is_generic d z k :
  ecdsa_sign d z k = g_sign point pt_mul secp_G xof_pt secp_n d z k.
Proof. unfold ecdsa_sign, g_sign. destruct (pt_mul k secp_G) as [[x y]|]; reflexivity. Qed.

Lemma ecdsa_verify_is_generic z r s Q :
  ecdsa_verify z r s (Some Q) = g_verify point pt_add pt_mul secp_G xof_pt secp_n z r s (Some Q).
Proof.
  unfold ecdsa_verify, g_verify. destruct ((1 <=? r) && (r <? secp_n) && (1 <=? s) && (s <? secp_n)); [|reflexivity].
  cbv zeta. destruct (pt_add _ _) as [[x y]|]; reflexivity.
Qed.

(* the laws Part 2 uses, stated of the affine secp256k1 instance (NOT proved here; see the header) *)
Definition secp_laws : Prop :=
  prime secp_n /\
  (forall P, pt_add P None = P) /\
  (forall a b P, pt_mul (a + b) P = pt_add (pt_mul a P) (pt_mul b P)) /\
  (forall a b P, pt_mul (a * b) P = pt_mul a (pt_mul b P)) /\
  (forall a, pt_mul a None = None) /\
  pt_mul secp_n secp_G = None /\
  (forall P, xof_pt (pt_mul (-1) P) = xof_pt P).

Lemma secp_n_bound : secp_n < 2 ^ 500.
Proof. unfold secp_n. lia. Qed.

(* sign_verifies carried to the executable definitions, under the laws as one explicit premise *)
Theorem ecdsa_sign_verifies d z k r s Q :
  secp_laws -> 1 <= k < secp_n -> secp_pub d = Some Q ->
  ecdsa_sign d z k = Some (r, s) ->
  ecdsa_verify z r s (Some Q) = true /\ ecdsa_verify z r (secp_n - s) (Some Q) = true.
Proof.
  intros (Hp & L1 & L2 & L3 & L4 & L5 & L6) Hk HQ Hs.
  rewrite ecdsa_sign_is_generic in Hs. rewrite !ecdsa_verify_is_generic. rewrite <- HQ. unfold secp_pub.
  exact (sign_verifies point None pt_add pt_mul secp_G xof_pt secp_n Hp secp_n_bound L1 L2 L3 L4 L5 L6 d z k r s Hk Hs).
Qed.
