(* Crypto/NibWordLemmas.v — every digit table of Crypto/NibWord.v equals its arithmetic specification on
   Z (checked by exhaustive case analysis), and basic length facts of the word operations. *)
From Coq Require Import ZArith List Bool Lia.
From Coq.Strings Require Import Byte.
From Verif Require Import Lib.Bytes Crypto.NibWord.
Import ListNotations.
Open Scope Z_scope.

Lemma nib_to_Z_range a : 0 <= nib_to_Z a < 16.
Proof. destruct a; cbn; lia. Qed.

Lemma nib_of_to_Z a : nib_of_Z (nib_to_Z a) = a.
Proof. destruct a; reflexivity. Qed.

Lemma nib_to_Z_inj a b : nib_to_Z a = nib_to_Z b -> a = b.
Proof. intros H. rewrite <- (nib_of_to_Z a), <- (nib_of_to_Z b), H. reflexivity. Qed.

Lemma nib_not_spec a : nib_to_Z (nib_not a) = 15 - nib_to_Z a.
Proof. destruct a; reflexivity. Qed.

Lemma nib_xor_spec a b : nib_to_Z (nib_xor a b) = Z.lxor (nib_to_Z a) (nib_to_Z b).
Proof. destruct a, b; reflexivity. Qed.

Lemma nib_and_spec a b : nib_to_Z (nib_and a b) = Z.land (nib_to_Z a) (nib_to_Z b).
Proof. destruct a, b; reflexivity. Qed.

Lemma nib_or_spec a b : nib_to_Z (nib_or a b) = Z.lor (nib_to_Z a) (nib_to_Z b).
Proof. destruct a, b; reflexivity. Qed.

Lemma nib_add0_spec a b :
  nib_to_Z (nib_sum0 a b) + (if nib_cy0 a b then 16 else 0) = nib_to_Z a + nib_to_Z b.
Proof. destruct a, b; reflexivity. Qed.

Lemma nib_add1_spec a b :
  nib_to_Z (nib_sum1 a b) + (if nib_cy1 a b then 16 else 0) = nib_to_Z a + nib_to_Z b + 1.
Proof. destruct a, b; reflexivity. Qed.

Lemma nib_sh_spec s hi lo :
  (s <= 3)%nat -> nib_to_Z (nib_sh s hi lo) = ((16 * nib_to_Z hi + nib_to_Z lo) / 2 ^ Z.of_nat s) mod 16.
Proof.
  intros Hs. destruct s as [|[|[|[|s]]]]; [| | | |lia]; destruct hi, lo; reflexivity.
Qed.

Lemma nibs_of_byte_spec b :
  16 * nib_to_Z (fst (nibs_of_byte b)) + nib_to_Z (snd (nibs_of_byte b)) = bz b.
Proof. destruct b; reflexivity. Qed.

Lemma byte_of_nibs_spec hi lo : bz (byte_of_nibs hi lo) = 16 * nib_to_Z hi + nib_to_Z lo.
Proof. destruct hi, lo; reflexivity. Qed.

(* ---- lengths *)

Lemma nw_of_Z_acc_length w : forall z acc, length (nw_of_Z_acc w z acc) = (w + length acc)%nat.
Proof.
  induction w as [|w IH]; intros z acc; cbn [nw_of_Z_acc].
  - reflexivity.
  - rewrite IH. cbn [length]. lia.
Qed.

Lemma nw_of_Z_length w z : length (nw_of_Z w z) = w.
Proof. unfold nw_of_Z. rewrite nw_of_Z_acc_length. cbn [length]. lia. Qed.

Lemma nw_of_bytes_length bs : length (nw_of_bytes bs) = (2 * length bs)%nat.
Proof.
  induction bs as [|b r IH]; [reflexivity|].
  cbn [nw_of_bytes]. destruct (nibs_of_byte b) as [hi lo]. cbn [length]. rewrite IH. lia.
Qed.

Lemma nw_map2_length f a : forall b, length (nw_map2 f a b) = Nat.min (length a) (length b).
Proof.
  induction a as [|x a IH]; intros [|y b]; cbn [nw_map2 length]; try reflexivity.
  rewrite IH. reflexivity.
Qed.

Lemma nw_map3_length f a : forall b c,
  length (nw_map3 f a b c) = Nat.min (length a) (Nat.min (length b) (length c)).
Proof.
  induction a as [|x a IH]; intros [|y b] [|z c]; cbn [nw_map3 length]; try reflexivity.
  rewrite IH. reflexivity.
Qed.

Lemma nw_addc_length a : forall b, length (snd (nw_addc a b)) = Nat.min (length a) (length b).
Proof.
  induction a as [|x a IH]; intros [|y b]; cbn [nw_addc length snd]; try reflexivity.
  specialize (IH b). destruct (nw_addc a b) as [c r]. cbn [snd] in IH.
  destruct c; cbn [snd length]; rewrite IH; reflexivity.
Qed.

Lemma nw_add_length a b : length (nw_add a b) = Nat.min (length a) (length b).
Proof. apply nw_addc_length. Qed.

Lemma nw_window_length s : forall n l, (n < length l)%nat -> length (nw_window s n l) = n.
Proof.
  induction n as [|n IH]; intros l Hl.
  - destruct l; reflexivity.
  - destruct l as [|hi [|lo l']]; cbn [length] in Hl; try lia.
    cbn [nw_window length]. rewrite IH by (cbn [length]; lia). reflexivity.
Qed.

Lemma nw_rotr_length width r x :
  length x = width -> (0 < width)%nat -> length (nw_rotr width r x) = width.
Proof.
  intros Hx Hw. unfold nw_rotr, nw_apply, mk_rotr.
  apply nw_window_length. rewrite skipn_length, app_length, Hx. lia.
Qed.

Lemma nw_shr_length width r x :
  length x = width -> (0 < width)%nat -> length (nw_shr width r x) = width.
Proof.
  intros Hx Hw. unfold nw_shr, nw_apply, mk_shr.
  apply nw_window_length. rewrite skipn_length, app_length, repeat_length, Hx. lia.
Qed.
