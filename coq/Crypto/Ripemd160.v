(* Crypto/Ripemd160.v — executable RIPEMD-160 over [list byte] (Dobbertin, Bosselaers, Preneel 1996):
   little-endian 32-bit words, two parallel lines of 80 steps.  Words are lists of 8 four-bit digits
   (Crypto/NibWord.v, table-driven) so that the extracted code is fast; the Z-word version in the style of
   Sha256.v is kept as [ripemd160_z] in Crypto/Ripemd160Z.v.  Transcription validated against hashlib
   (and against ripemd160_z) in the CRYPTO selftest. *)
From Coq Require Import ZArith List Bool.
From Coq.Strings Require Import Byte.
From Verif Require Import Lib.Bytes Crypto.Sha256 Crypto.NibWord.
Import ListNotations.
Open Scope Z_scope.

(* the five round functions on digits, selected by round index 0..4 *)
Definition rmd_f (i : nat) : nword -> nword -> nword -> nword :=
  match i with
  | 0%nat => nw_map3 (fun x y z => nib_xor (nib_xor x y) z)
  | 1%nat => nw_map3 (fun x y z => nib_or (nib_and x y) (nib_and (nib_not x) z))
  | 2%nat => nw_map3 (fun x y z => nib_xor (nib_or x (nib_not y)) z)
  | 3%nat => nw_map3 (fun x y z => nib_or (nib_and x z) (nib_and y (nib_not z)))
  | _ => nw_map3 (fun x y z => nib_xor x (nib_or y (nib_not z)))
  end.

Definition rmd_add : nword -> nword -> nword := nw_add.
Definition rmd_zero : nword := repeat N0 8.

Definition rmd_KLz : list Z := [0x00000000; 0x5A827999; 0x6ED9EBA1; 0x8F1BBCDC; 0xA953FD4E].
Definition rmd_KRz : list Z := [0x50A28BE6; 0x5C4DD124; 0x6D703EF3; 0x7A6D76E9; 0x00000000].

Definition rmd_KL : list nword := map (nw_of_Z 8) rmd_KLz.
Definition rmd_KR : list nword := map (nw_of_Z 8) rmd_KRz.

Definition rmd_rL : list nat := [
  0; 1; 2; 3; 4; 5; 6; 7; 8; 9; 10; 11; 12; 13; 14; 15;
  7; 4; 13; 1; 10; 6; 15; 3; 12; 0; 9; 5; 2; 14; 11; 8;
  3; 10; 14; 4; 9; 15; 8; 1; 2; 7; 0; 6; 13; 11; 5; 12;
  1; 9; 11; 10; 0; 8; 12; 4; 13; 3; 7; 15; 14; 5; 6; 2;
  4; 0; 5; 9; 7; 12; 2; 10; 14; 1; 3; 8; 11; 6; 15; 13]%nat.

Definition rmd_rR : list nat := [
  5; 14; 7; 0; 9; 2; 11; 4; 13; 6; 15; 8; 1; 10; 3; 12;
  6; 11; 3; 7; 0; 13; 5; 10; 14; 15; 8; 12; 4; 9; 1; 2;
  15; 5; 1; 3; 7; 14; 6; 9; 11; 8; 12; 2; 10; 0; 4; 13;
  8; 6; 4; 1; 3; 11; 15; 0; 5; 12; 2; 13; 9; 7; 10; 14;
  12; 15; 10; 4; 1; 5; 8; 7; 6; 2; 13; 14; 0; 3; 9; 11]%nat.

Definition rmd_sLn : list nat := [
  11; 14; 15; 12; 5; 8; 7; 9; 11; 13; 14; 15; 6; 7; 9; 8;
  7; 6; 8; 13; 11; 9; 7; 15; 7; 12; 15; 9; 11; 7; 13; 12;
  11; 13; 6; 7; 14; 9; 13; 15; 14; 8; 13; 6; 5; 12; 7; 5;
  11; 12; 14; 15; 14; 15; 9; 8; 9; 14; 5; 6; 8; 6; 5; 12;
  9; 15; 5; 11; 6; 8; 13; 12; 5; 12; 13; 14; 11; 8; 5; 6]%nat.

Definition rmd_sRn : list nat := [
  8; 9; 9; 11; 13; 15; 15; 5; 7; 7; 8; 11; 14; 14; 12; 6;
  9; 13; 15; 7; 12; 8; 9; 11; 7; 7; 12; 7; 6; 15; 13; 11;
  9; 7; 15; 11; 8; 6; 6; 14; 12; 13; 5; 14; 13; 13; 7; 5;
  15; 5; 8; 11; 14; 14; 6; 14; 6; 9; 12; 9; 12; 5; 15; 8;
  8; 5; 12; 9; 12; 5; 14; 6; 8; 13; 6; 5; 15; 13; 11; 11]%nat.

(* left rotations by the amounts above (and by 10), precomputed as window recipes *)
Definition rmd_sL : list rspec := Eval vm_compute in map (mk_rotl 8) rmd_sLn.
Definition rmd_sR : list rspec := Eval vm_compute in map (mk_rotl 8) rmd_sRn.
Definition rmd_rol10 : rspec := Eval vm_compute in mk_rotl 8 10.

Definition rmd_state := (nword * nword * nword * nword * nword)%type.

Definition rmd_init : rmd_state :=
  (nw_of_Z 8 0x67452301, nw_of_Z 8 0xEFCDAB89, nw_of_Z 8 0x98BADCFE, nw_of_Z 8 0x10325476, nw_of_Z 8 0xC3D2E1F0).

(* little-endian words of a block *)
Fixpoint words_le (k : nat) (bs : bytes) : list nword :=
  match k with
  | O => []
  | S k' => nw_of_bytes_le (firstn 4 bs) :: words_le k' (skipn 4 bs)
  end.

(* one step: fi = round-function index, kc = round constant, r = message word index, s = rotation *)
Definition rmd_step (fi : nat) (kc : nword) (r : nat) (s : rspec) (X : list nword) (st : rmd_state)
  : rmd_state :=
  let '(a, b, c, d, e) := st in
  let t := rmd_add (nw_apply 8 s (rmd_add (rmd_add a (rmd_f fi b c d)) (rmd_add (nth r X rmd_zero) kc))) e in
  (e, t, b, nw_apply 8 rmd_rol10 c, d).

(* a line of steps; j = step index, left selects the left/right constants and function order *)
Fixpoint rmd_line (left : bool) (j : nat) (rs : list nat) (ss : list rspec) (X : list nword) (st : rmd_state)
  : rmd_state :=
  match rs, ss with
  | r :: rs', s :: ss' =>
      let rd := (j / 16)%nat in
      let fi := if left then rd else (4 - rd)%nat in
      let kc := nth rd (if left then rmd_KL else rmd_KR) rmd_zero in
      rmd_line left (S j) rs' ss' X (rmd_step fi kc r s X st)
  | _, _ => st
  end.

Definition rmd_compress (h : rmd_state) (block : bytes) : rmd_state :=
  let X := words_le 16 block in
  let '(h0, h1, h2, h3, h4) := h in
  let '(al, bl, cl, dl, el) := rmd_line true 0 rmd_rL rmd_sL X h in
  let '(ar, br, cr, dr, er) := rmd_line false 0 rmd_rR rmd_sR X h in
  (rmd_add (rmd_add h1 cl) dr,
   rmd_add (rmd_add h2 dl) er,
   rmd_add (rmd_add h3 el) ar,
   rmd_add (rmd_add h4 al) br,
   rmd_add (rmd_add h0 bl) cr).

Definition rmd_pad (msg : bytes) : bytes :=
  let n := length msg in
  msg ++ [x80] ++ repeat x00 (pad_len n 64 8) ++ le_bytes 8 (8 * Z.of_nat n).

Fixpoint rmd_blocks (fuel : nat) (st : rmd_state) (bs : bytes) : rmd_state :=
  match fuel with
  | O => st
  | S f =>
      match bs with
      | [] => st
      | _ => rmd_blocks f (rmd_compress st (firstn 64 bs)) (skipn 64 bs)
      end
  end.

Definition ripemd160 (msg : bytes) : bytes :=
  let p := rmd_pad msg in
  let '(h0, h1, h2, h3, h4) := rmd_blocks (S (length p / 64)) rmd_init p in
  le_bytes 4 (nw_to_Z h0) ++ le_bytes 4 (nw_to_Z h1) ++ le_bytes 4 (nw_to_Z h2) ++ le_bytes 4 (nw_to_Z h3)
  ++ le_bytes 4 (nw_to_Z h4).

Definition hash160 (b : bytes) : bytes := ripemd160 (sha256 b).
