(* Crypto/Ripemd160Z.v — reference RIPEMD-160 over [list byte] (Dobbertin, Bosselaers, Preneel 1996),
   little-endian 32-bit words as Z in [0, 2^32), in the style of Sha256.v.  Slow when extracted;
   Crypto/Ripemd160.v is the one to import.  The CRYPTO selftest checks ripemd160_z = ripemd160 = hashlib. *)
From Coq Require Import ZArith List Bool.
From Coq.Strings Require Import Byte.
From Verif Require Import Lib.Bytes Crypto.Sha256.
Import ListNotations.
Open Scope Z_scope.

Module Ripemd160Z.

Definition rol32 (n x : Z) : Z := w32 (Z.lor (Z.shiftl x n) (Z.shiftr x (32 - n))).

(* the five round functions, selected by round index 0..4 *)
Definition rmd_f (i : nat) (x y z : Z) : Z :=
  match i with
  | 0%nat => Z.lxor (Z.lxor x y) z
  | 1%nat => Z.lor (Z.land x y) (Z.land (not32 x) z)
  | 2%nat => Z.lxor (Z.lor x (not32 y)) z
  | 3%nat => Z.lor (Z.land x z) (Z.land y (not32 z))
  | _ => Z.lxor x (Z.lor y (not32 z))
  end.

Definition rmd_KL : list Z := [0x00000000; 0x5A827999; 0x6ED9EBA1; 0x8F1BBCDC; 0xA953FD4E].
Definition rmd_KR : list Z := [0x50A28BE6; 0x5C4DD124; 0x6D703EF3; 0x7A6D76E9; 0x00000000].

Definition rmd_rL : list nat := [
  0; 1; 2; 3; 4; 5; 6; 7; 8; 9; 10; 11; 12; 13; 14; 15;
  7; 4; 13; 1; 10; 6; 15; 3; 12; 0; 9; 5; 2; 14; 11; 8;
  3; 10; 14; 4; 9; 15; 8; 1; 2; 7; 0; 6; 13; 11; 5; 12;
  1; 9; 11; 10; 0; 8; 12; 4; 13; 3; 7; 15; 14; 5; 6; 2;
  4; 0; 5; 9; 7; 12; 2; 10; 14; 1; 3; 8; 11; 6; 15; 13]%nat.

Definition rmd_rR : list nat := [
  5; 14; 7; 0; 9; 2; 11; 4; 13; 6; 15; 8; 1; 10; 3; 12;
  6; 11; 3; 7; 0; 13; 5; 10; 14; 15; 8; 12; 4; 9; 1; 2;
  15; 5; 1; 3; 7; 14; 6; 9; 11; 8; 12; 2; 10; 0; 4; 13;
  8; 6; 4; 1; 3; 11; 15; 0; 5; 12; 2; 13; 9; 7; 10; 14;
  12; 15; 10; 4; 1; 5; 8; 7; 6; 2; 13; 14; 0; 3; 9; 11]%nat.

Definition rmd_sL : list Z := [
  11; 14; 15; 12; 5; 8; 7; 9; 11; 13; 14; 15; 6; 7; 9; 8;
  7; 6; 8; 13; 11; 9; 7; 15; 7; 12; 15; 9; 11; 7; 13; 12;
  11; 13; 6; 7; 14; 9; 13; 15; 14; 8; 13; 6; 5; 12; 7; 5;
  11; 12; 14; 15; 14; 15; 9; 8; 9; 14; 5; 6; 8; 6; 5; 12;
  9; 15; 5; 11; 6; 8; 13; 12; 5; 12; 13; 14; 11; 8; 5; 6].

Definition rmd_sR : list Z := [
  8; 9; 9; 11; 13; 15; 15; 5; 7; 7; 8; 11; 14; 14; 12; 6;
  9; 13; 15; 7; 12; 8; 9; 11; 7; 7; 12; 7; 6; 15; 13; 11;
  9; 7; 15; 11; 8; 6; 6; 14; 12; 13; 5; 14; 13; 13; 7; 5;
  15; 5; 8; 11; 14; 14; 6; 14; 6; 9; 12; 9; 12; 5; 15; 8;
  8; 5; 12; 9; 12; 5; 14; 6; 8; 13; 6; 5; 15; 13; 11; 11].

Definition rmd_state := (Z * Z * Z * Z * Z)%type.

Definition rmd_init : rmd_state := (0x67452301, 0xEFCDAB89, 0x98BADCFE, 0x10325476, 0xC3D2E1F0).

(* little-endian words of a block *)
Fixpoint words_le (k : nat) (bs : bytes) : list Z :=
  match k with
  | O => []
  | S k' => of_le (firstn 4 bs) :: words_le k' (skipn 4 bs)
  end.

(* one step: fi = round-function index, kc = round constant, r = message word index, s = rotation *)
Definition rmd_step (fi : nat) (kc : Z) (r : nat) (s : Z) (X : list Z) (st : rmd_state) : rmd_state :=
  let '(a, b, c, d, e) := st in
  let t := add32 (rol32 s (add32 (add32 a (rmd_f fi b c d)) (add32 (nth r X 0) kc))) e in
  (e, t, b, rol32 10 c, d).

(* a line of steps; j = step index, left selects the left/right constants and function order *)
Fixpoint rmd_line (left : bool) (j : nat) (rs : list nat) (ss : list Z) (X : list Z) (st : rmd_state)
  : rmd_state :=
  match rs, ss with
  | r :: rs', s :: ss' =>
      let rd := (j / 16)%nat in
      let fi := if left then rd else (4 - rd)%nat in
      let kc := nth rd (if left then rmd_KL else rmd_KR) 0 in
      rmd_line left (S j) rs' ss' X (rmd_step fi kc r s X st)
  | _, _ => st
  end.

Definition rmd_compress (h : rmd_state) (block : bytes) : rmd_state :=
  let X := words_le 16 block in
  let '(h0, h1, h2, h3, h4) := h in
  let '(al, bl, cl, dl, el) := rmd_line true 0 rmd_rL rmd_sL X h in
  let '(ar, br, cr, dr, er) := rmd_line false 0 rmd_rR rmd_sR X h in
  (add32 (add32 h1 cl) dr,
   add32 (add32 h2 dl) er,
   add32 (add32 h3 el) ar,
   add32 (add32 h4 al) br,
   add32 (add32 h0 bl) cr).

Definition rmd_pad (msg : bytes) : bytes :=
  let n := length msg in
  msg ++ [x80] ++ repeat x00 (pad_len n 64 8) ++ le_bytes 8 (8 * Z.of_nat n).

Fixpoint rmd_blocks (fuel : nat) (st : rmd_state) (bs : bytes) : rmd_state :=
  match fuel with
  | O => st
  | S f =>
      match bs with
      | [] => st
      | _ => rmd_blocks f (rmd_compress st (firstn 64 bs)) (skipn 64 bs)
      end
  end.

Definition ripemd160 (msg : bytes) : bytes :=
  let p := rmd_pad msg in
  let '(h0, h1, h2, h3, h4) := rmd_blocks (S (length p / 64)) rmd_init p in
  le_bytes 4 h0 ++ le_bytes 4 h1 ++ le_bytes 4 h2 ++ le_bytes 4 h3 ++ le_bytes 4 h4.

End Ripemd160Z.

Definition ripemd160_z : bytes -> bytes := Ripemd160Z.ripemd160.
