(* Crypto/HashLemmas.v — output lengths of the executable hash functions, HMAC and PBKDF2.
   These discharge the length hypotheses of the hash-oracle sections elsewhere. *)
From Coq Require Import ZArith List Bool Lia Arith.
From Coq.Strings Require Import Byte.
From Verif Require Import Lib.Bytes Crypto.Sha256 Crypto.Sha256N Crypto.NibWord Crypto.Sha512 Crypto.Ripemd160 Crypto.Hmac.
Import ListNotations.

Lemma flat_map_const_length {A} (f : A -> bytes) (k : nat) (l : list A) :
  (forall x, length (f x) = k) -> length (flat_map f l) = (k * length l)%nat.
Proof.
  intros Hf. induction l as [|x l IH]; simpl.
  - lia.
  - rewrite app_length, Hf, IH. lia.
Qed.

(* ---------------------------------------------------------------- SHA-256 *)

Lemma round256_length st k w : length (round256 st k w) = length st.
Proof.
  destruct st as [|a [|b [|c [|d [|e [|f [|g [|h [|i r]]]]]]]]]; reflexivity.
Qed.

Lemma rounds256_length ks : forall t bw win st, length (rounds256 ks t bw win st) = length st.
Proof.
  induction ks as [|k ks IH]; intros t bw win st.
  - reflexivity.
  - cbn [rounds256]. rewrite IH. apply round256_length.
Qed.

Lemma compress256_length st block : length (compress256 st block) = length st.
Proof.
  unfold compress256. rewrite map_length, combine_length, rounds256_length. apply Nat.min_id.
Qed.

Lemma blocks256_length fuel : forall st bs, length (blocks256 fuel st bs) = length st.
Proof.
  induction fuel as [|f IH]; intros st bs.
  - reflexivity.
  - cbn [blocks256]. destruct bs as [|b bs']; [reflexivity|].
    rewrite IH. apply compress256_length.
Qed.

Lemma sha256_length m : length (sha256 m) = 32%nat.
Proof.
  unfold sha256.
  rewrite (flat_map_const_length (be_bytes 4) 4) by (intros x; apply be_bytes_length).
  rewrite blocks256_length. reflexivity.
Qed.

Lemma sha256d_length m : length (sha256d m) = 32%nat.
Proof. apply sha256_length. Qed.

(* the digit-word variant of Crypto/Sha256N.v *)
Lemma round256_n_length st k w : length (round256_n st k w) = length st.
Proof.
  destruct st as [|a [|b [|c [|d [|e [|f [|g [|h [|i r]]]]]]]]]; reflexivity.
Qed.

Lemma rounds256_n_length ks : forall t bw win st, length (rounds256_n ks t bw win st) = length st.
Proof.
  induction ks as [|k ks IH]; intros t bw win st.
  - reflexivity.
  - cbn [rounds256_n]. rewrite IH. apply round256_n_length.
Qed.

Lemma compress256_n_length st block : length (compress256_n st block) = length st.
Proof.
  unfold compress256_n. rewrite map_length, combine_length, rounds256_n_length. apply Nat.min_id.
Qed.

Lemma blocks256_n_length fuel : forall st bs, length (blocks256_n fuel st bs) = length st.
Proof.
  induction fuel as [|f IH]; intros st bs.
  - reflexivity.
  - cbn [blocks256_n]. destruct bs as [|b bs']; [reflexivity|].
    rewrite IH. apply compress256_n_length.
Qed.

Lemma sha256_n_length m : length (sha256_n m) = 32%nat.
Proof.
  unfold sha256_n.
  rewrite (flat_map_const_length (fun w => be_bytes 4 (nw_to_Z w)) 4) by (intros x; apply be_bytes_length).
  rewrite blocks256_n_length. reflexivity.
Qed.

(* ---------------------------------------------------------------- SHA-512 *)

Lemma round512_length st k w : length (round512 st k w) = length st.
Proof.
  destruct st as [|a [|b [|c [|d [|e [|f [|g [|h [|i r]]]]]]]]]; reflexivity.
Qed.

Lemma rounds512_length ks : forall t bw win st, length (rounds512 ks t bw win st) = length st.
Proof.
  induction ks as [|k ks IH]; intros t bw win st.
  - reflexivity.
  - cbn [rounds512]. rewrite IH. apply round512_length.
Qed.

Lemma compress512_length st block : length (compress512 st block) = length st.
Proof.
  unfold compress512. rewrite map_length, combine_length, rounds512_length. apply Nat.min_id.
Qed.

Lemma blocks512_length fuel : forall st bs, length (blocks512 fuel st bs) = length st.
Proof.
  induction fuel as [|f IH]; intros st bs.
  - reflexivity.
  - cbn [blocks512]. destruct bs as [|b bs']; [reflexivity|].
    rewrite IH. apply compress512_length.
Qed.

Lemma H512w_length : length H512w = 8%nat.
Proof. reflexivity. Qed.

Lemma sha512_length m : length (sha512 m) = 64%nat.
Proof.
  unfold sha512.
  rewrite (flat_map_const_length (fun w => be_bytes 8 (nw_to_Z w)) 8) by (intros x; apply be_bytes_length).
  rewrite blocks512_length, H512w_length. reflexivity.
Qed.

(* ---------------------------------------------------------------- RIPEMD-160 *)

Lemma ripemd160_length m : length (ripemd160 m) = 20%nat.
Proof.
  unfold ripemd160.
  destruct (rmd_blocks _ _ _) as [[[[h0 h1] h2] h3] h4].
  rewrite !app_length, !le_bytes_length. reflexivity.
Qed.

Lemma hash160_length m : length (hash160 m) = 20%nat.
Proof. apply ripemd160_length. Qed.

(* ---------------------------------------------------------------- HMAC *)

Lemma hmac_length (H : bytes -> bytes) (n blocksize : nat) (key msg : bytes) :
  (forall m, length (H m) = n) -> length (hmac H blocksize key msg) = n.
Proof. intros HH. unfold hmac. apply HH. Qed.

Lemma hmac_sha256_length key msg : length (hmac_sha256 key msg) = 32%nat.
Proof. apply hmac_length. exact sha256_length. Qed.

Lemma hmac_sha512_length key msg : length (hmac_sha512 key msg) = 64%nat.
Proof. apply hmac_length. exact sha512_length. Qed.

(* the normalised key is exactly one block when the hash output fits into a block *)
Lemma hmac_key_length (H : bytes -> bytes) (n blocksize : nat) (key : bytes) :
  (forall m, length (H m) = n) -> (n <= blocksize)%nat -> length (hmac_key H blocksize key) = blocksize.
Proof.
  intros HH Hn. unfold hmac_key.
  destruct (blocksize <? length key)%nat eqn:E; rewrite app_length, repeat_length.
  - rewrite HH. lia.
  - apply Nat.ltb_ge in E. lia.
Qed.

(* ---------------------------------------------------------------- PBKDF2 *)

Lemma xor_bytes_length a : forall b, length (xor_bytes a b) = Nat.min (length a) (length b).
Proof.
  induction a as [|x a IH]; intros [|y b]; simpl; try reflexivity.
  rewrite IH. reflexivity.
Qed.

Lemma pbkdf2_loop_length (PRF : bytes -> bytes) (h : nat) :
  (forall m, length (PRF m) = h) ->
  forall n u t, length t = h -> length (pbkdf2_loop PRF n u t) = h.
Proof.
  intros HP. induction n as [|n IH]; intros u t Ht.
  - exact Ht.
  - cbn [pbkdf2_loop]. apply IH. rewrite xor_bytes_length, HP, Ht. apply Nat.min_id.
Qed.

Lemma pbkdf2_block_length (PRF : bytes -> bytes) (h : nat) salt it i :
  (forall m, length (PRF m) = h) -> length (pbkdf2_block PRF salt it i) = h.
Proof. intros HP. unfold pbkdf2_block. apply pbkdf2_loop_length; [exact HP | apply HP]. Qed.

Lemma pbkdf2_blocks_length (PRF : bytes -> bytes) (h : nat) salt it :
  (forall m, length (PRF m) = h) ->
  forall k i, length (pbkdf2_blocks PRF salt it k i) = (k * h)%nat.
Proof.
  intros HP. induction k as [|k IH]; intros i.
  - reflexivity.
  - cbn [pbkdf2_blocks]. rewrite app_length, IH, (pbkdf2_block_length PRF h) by exact HP. lia.
Qed.

Lemma pbkdf2_length (PRF : bytes -> bytes -> bytes) (h : nat) pw salt it dklen :
  (0 < h)%nat -> (forall k m, length (PRF k m) = h) -> length (pbkdf2 PRF h pw salt it dklen) = dklen.
Proof.
  intros Hh HP. unfold pbkdf2. rewrite firstn_length.
  rewrite (pbkdf2_blocks_length (PRF pw) h) by (intros m; apply HP).
  apply Nat.min_l.
  pose proof (Nat.div_mod (dklen + h - 1) h ltac:(lia)) as Hd.
  pose proof (Nat.mod_upper_bound (dklen + h - 1) h ltac:(lia)) as Hm.
  set (q := ((dklen + h - 1) / h)%nat) in *.
  set (r := ((dklen + h - 1) mod h)%nat) in *.
  nia.
Qed.

Lemma pbkdf2_hmac_sha512_length pw salt it dklen : length (pbkdf2_hmac_sha512 pw salt it dklen) = dklen.
Proof.
  unfold pbkdf2_hmac_sha512. apply pbkdf2_length; [lia|]. intros k m. apply hmac_sha512_length.
Qed.
