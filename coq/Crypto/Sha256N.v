(* Crypto/Sha256N.v — SHA-256 (FIPS 180-4) with the 32-bit words as lists of 8 four-bit digits
   (Crypto/NibWord.v, table-driven): the same algorithm as Crypto/Sha256.v, about ten times faster when
   extracted.  NOT proved equal to [sha256]; the CRYPTO selftest checks sha256_n = sha256 = hashlib on
   its corpus.  Offered as a drop-in body for Sha256.v; nothing in Crypto/ depends on it. *)
From Coq Require Import ZArith List Bool.
From Coq.Strings Require Import Byte.
From Verif Require Import Lib.Bytes Crypto.Sha256 Crypto.NibWord.
Import ListNotations.
Open Scope Z_scope.

Definition add32n : nword -> nword -> nword := nw_add.

(* FIPS 180-4 (4.4)-(4.7): rotation / shift amounts, precomputed as window recipes *)
Definition r256_2 := Eval vm_compute in mk_rotr 8 2.
Definition r256_13 := Eval vm_compute in mk_rotr 8 13.
Definition r256_22 := Eval vm_compute in mk_rotr 8 22.
Definition r256_6 := Eval vm_compute in mk_rotr 8 6.
Definition r256_11 := Eval vm_compute in mk_rotr 8 11.
Definition r256_25 := Eval vm_compute in mk_rotr 8 25.
Definition r256_7 := Eval vm_compute in mk_rotr 8 7.
Definition r256_18 := Eval vm_compute in mk_rotr 8 18.
Definition s256_3 := Eval vm_compute in mk_shr 8 3.
Definition r256_17 := Eval vm_compute in mk_rotr 8 17.
Definition r256_19 := Eval vm_compute in mk_rotr 8 19.
Definition s256_10 := Eval vm_compute in mk_shr 8 10.

Definition bsig0_n x := nw_sigma 8 r256_2 r256_13 r256_22 x.
Definition bsig1_n x := nw_sigma 8 r256_6 r256_11 r256_25 x.
Definition ssig0_n x := nw_sigma 8 r256_7 r256_18 s256_3 x.
Definition ssig1_n x := nw_sigma 8 r256_17 r256_19 s256_10 x.

Definition K256n : list nword := map (nw_of_Z 8) K256.
Definition H256n : list nword := map (nw_of_Z 8) H256_init.
Definition zero32n : nword := repeat N0 8.

Fixpoint words_be_n (k : nat) (bs : bytes) : list nword :=
  match k with
  | O => []
  | S k' => nw_of_bytes (firstn 4 bs) :: words_be_n k' (skipn 4 bs)
  end.

Definition sched_next_n (w : list nword) : nword :=
  add32n (add32n (ssig1_n (nth 1 w zero32n)) (nth 6 w zero32n))
         (add32n (ssig0_n (nth 14 w zero32n)) (nth 15 w zero32n)).

Definition round256_n (st : list nword) (k w : nword) : list nword :=
  match st with
  | [a; b; c; d; e; f; g; h] =>
      let t1 := add32n (add32n (add32n h (bsig1_n e)) (add32n (nw_ch e f g) k)) w in
      let t2 := add32n (bsig0_n a) (nw_maj a b c) in
      [add32n t1 t2; a; b; c; add32n d t1; e; f; g]
  | _ => st
  end.

Fixpoint rounds256_n (ks : list nword) (t : nat) (blockw : list nword) (win : list nword) (st : list nword)
  : list nword :=
  match ks with
  | [] => st
  | k :: ks' =>
      let w := if (t <? 16)%nat then nth t blockw zero32n else sched_next_n win in
      rounds256_n ks' (S t) blockw (w :: firstn 15 win) (round256_n st k w)
  end.

Definition compress256_n (st : list nword) (block : bytes) : list nword :=
  let bw := words_be_n 16 block in
  let st' := rounds256_n K256n 0 bw [] st in
  map (fun p => add32n (fst p) (snd p)) (combine st st').

Fixpoint blocks256_n (fuel : nat) (st : list nword) (bs : bytes) : list nword :=
  match fuel with
  | O => st
  | S f =>
      match bs with
      | [] => st
      | _ => blocks256_n f (compress256_n st (firstn 64 bs)) (skipn 64 bs)
      end
  end.

Definition sha256_n (msg : bytes) : bytes :=
  let p := pad256 msg in
  let st := blocks256_n (S (length p / 64)) H256n p in
  flat_map (fun w => be_bytes 4 (nw_to_Z w)) st.
