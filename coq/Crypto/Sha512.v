(* Crypto/Sha512.v — executable SHA-512 over [list byte] (FIPS 180-4).  Same structure as Sha256.v, but
   the 64-bit words are bit lists (Crypto/BitWord.v, most significant bit first) so that the extracted
   code is fast enough for HMAC-SHA512 chains and PBKDF2 with 2048 iterations.  The Z-word version in
   the style of Sha256.v is kept as [sha512_z] in Crypto/Sha512Z.v.  Transcription validated against
   hashlib (and against sha512_z) in the CRYPTO selftest. *)
From Coq Require Import ZArith List Bool.
From Coq.Strings Require Import Byte.
From Verif Require Import Lib.Bytes Crypto.Sha256 Crypto.BitWord Crypto.Sha512Consts.
Import ListNotations.
Open Scope Z_scope.

Definition rotr64 (n : nat) (x : bword) : bword := bw_rotr 64 n x.
Definition shr64 (n : nat) (x : bword) : bword := bw_shr 64 n x.
Definition add64 : bword -> bword -> bword := bw_add.

Definition bsig0_64 x := bw_xor3 (rotr64 28 x) (rotr64 34 x) (rotr64 39 x).
Definition bsig1_64 x := bw_xor3 (rotr64 14 x) (rotr64 18 x) (rotr64 41 x).
Definition ssig0_64 x := bw_xor3 (rotr64 1 x) (rotr64 8 x) (shr64 7 x).
Definition ssig1_64 x := bw_xor3 (rotr64 19 x) (rotr64 61 x) (shr64 6 x).


Definition K512w : list bword := map (bw_of_Z 64) K512.
Definition H512w : list bword := map (bw_of_Z 64) H512_init.
Definition zero64 : bword := repeat false 64.

(* big-endian 64-bit words of a block *)
Fixpoint words_be64 (k : nat) (bs : bytes) : list bword :=
  match k with
  | O => []
  | S k' => bw_of_bytes (firstn 8 bs) :: words_be64 k' (skipn 8 bs)
  end.

Definition sched_next64 (w : list bword) : bword :=
  (* w = [W(t-1); W(t-2); ...; W(t-16)] *)
  add64 (add64 (ssig1_64 (nth 1 w zero64)) (nth 6 w zero64))
        (add64 (ssig0_64 (nth 14 w zero64)) (nth 15 w zero64)).

Definition round512 (st : list bword) (k w : bword) : list bword :=
  match st with
  | [a; b; c; d; e; f; g; h] =>
      let t1 := add64 (add64 (add64 h (bsig1_64 e)) (add64 (bw_ch e f g) k)) w in
      let t2 := add64 (bsig0_64 a) (bw_maj a b c) in
      [add64 t1 t2; a; b; c; add64 d t1; e; f; g]
  | _ => st
  end.

Fixpoint rounds512 (ks : list bword) (t : nat) (blockw : list bword) (win : list bword) (st : list bword)
  : list bword :=
  match ks with
  | [] => st
  | k :: ks' =>
      let w := if (t <? 16)%nat then nth t blockw zero64 else sched_next64 win in
      rounds512 ks' (S t) blockw (w :: firstn 15 win) (round512 st k w)
  end.

Definition compress512 (st : list bword) (block : bytes) : list bword :=
  let bw := words_be64 16 block in
  let st' := rounds512 K512w 0 bw [] st in
  map (fun p => add64 (fst p) (snd p)) (combine st st').

Definition pad512 (msg : bytes) : bytes :=
  let n := length msg in
  msg ++ [x80] ++ repeat x00 (pad_len n 128 16) ++ be_bytes 16 (8 * Z.of_nat n).

Fixpoint blocks512 (fuel : nat) (st : list bword) (bs : bytes) : list bword :=
  match fuel with
  | O => st
  | S f =>
      match bs with
      | [] => st
      | _ => blocks512 f (compress512 st (firstn 128 bs)) (skipn 128 bs)
      end
  end.

Definition sha512 (msg : bytes) : bytes :=
  let p := pad512 msg in
  let st := blocks512 (S (length p / 128)) H512w p in
  flat_map bw_to_bytes st.
