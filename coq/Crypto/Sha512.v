(* Crypto/Sha512.v — executable SHA-512 over [list byte] (FIPS 180-4).  Same structure as Sha256.v, but
   the 64-bit words are lists of 16 four-bit digits (Crypto/NibWord.v, table-driven) so that the extracted
   code is fast enough for HMAC-SHA512 chains and PBKDF2 with 2048 iterations.  The Z-word version in
   the style of Sha256.v is kept as [sha512_z] in Crypto/Sha512Z.v.  Transcription validated against
   hashlib (and against sha512_z) in the CRYPTO selftest. *)
From Coq Require Import ZArith List Bool.
From Coq.Strings Require Import Byte.
From Verif Require Import Lib.Bytes Crypto.Sha256 Crypto.NibWord Crypto.Sha512Consts.
Import ListNotations.
Open Scope Z_scope.

Definition add64 : nword -> nword -> nword := nw_add.

(* FIPS 180-4 (4.10)-(4.13): rotation / shift amounts, precomputed as window recipes *)
Definition r512_28 := Eval vm_compute in mk_rotr 16 28.
Definition r512_34 := Eval vm_compute in mk_rotr 16 34.
Definition r512_39 := Eval vm_compute in mk_rotr 16 39.
Definition r512_14 := Eval vm_compute in mk_rotr 16 14.
Definition r512_18 := Eval vm_compute in mk_rotr 16 18.
Definition r512_41 := Eval vm_compute in mk_rotr 16 41.
Definition r512_1 := Eval vm_compute in mk_rotr 16 1.
Definition r512_8 := Eval vm_compute in mk_rotr 16 8.
Definition s512_7 := Eval vm_compute in mk_shr 16 7.
Definition r512_19 := Eval vm_compute in mk_rotr 16 19.
Definition r512_61 := Eval vm_compute in mk_rotr 16 61.
Definition s512_6 := Eval vm_compute in mk_shr 16 6.

Definition bsig0_64 x := nw_sigma 16 r512_28 r512_34 r512_39 x.
Definition bsig1_64 x := nw_sigma 16 r512_14 r512_18 r512_41 x.
Definition ssig0_64 x := nw_sigma 16 r512_1 r512_8 s512_7 x.
Definition ssig1_64 x := nw_sigma 16 r512_19 r512_61 s512_6 x.

Definition K512w : list nword := map (nw_of_Z 16) K512.
Definition H512w : list nword := map (nw_of_Z 16) H512_init.
Definition zero64 : nword := repeat N0 16.

(* big-endian 64-bit words of a block *)
Fixpoint words_be64 (k : nat) (bs : bytes) : list nword :=
  match k with
  | O => []
  | S k' => nw_of_bytes (firstn 8 bs) :: words_be64 k' (skipn 8 bs)
  end.

Definition sched_next64 (w : list nword) : nword :=
  (* w = [W(t-1); W(t-2); ...; W(t-16)] *)
  add64 (add64 (ssig1_64 (nth 1 w zero64)) (nth 6 w zero64))
        (add64 (ssig0_64 (nth 14 w zero64)) (nth 15 w zero64)).

Definition round512 (st : list nword) (k w : nword) : list nword :=
  match st with
  | [a; b; c; d; e; f; g; h] =>
      let t1 := add64 (add64 (add64 h (bsig1_64 e)) (add64 (nw_ch e f g) k)) w in
      let t2 := add64 (bsig0_64 a) (nw_maj a b c) in
      [add64 t1 t2; a; b; c; add64 d t1; e; f; g]
  | _ => st
  end.

Fixpoint rounds512 (ks : list nword) (t : nat) (blockw : list nword) (win : list nword) (st : list nword)
  : list nword :=
  match ks with
  | [] => st
  | k :: ks' =>
      let w := if (t <? 16)%nat then nth t blockw zero64 else sched_next64 win in
      rounds512 ks' (S t) blockw (w :: firstn 15 win) (round512 st k w)
  end.

Definition compress512 (st : list nword) (block : bytes) : list nword :=
  let bw := words_be64 16 block in
  let st' := rounds512 K512w 0 bw [] st in
  map (fun p => add64 (fst p) (snd p)) (combine st st').

Definition pad512 (msg : bytes) : bytes :=
  let n := length msg in
  msg ++ [x80] ++ repeat x00 (pad_len n 128 16) ++ be_bytes 16 (8 * Z.of_nat n).

Fixpoint blocks512 (fuel : nat) (st : list nword) (bs : bytes) : list nword :=
  match fuel with
  | O => st
  | S f =>
      match bs with
      | [] => st
      | _ => blocks512 f (compress512 st (firstn 128 bs)) (skipn 128 bs)
      end
  end.

Definition sha512 (msg : bytes) : bytes :=
  let p := pad512 msg in
  let st := blocks512 (S (length p / 128)) H512w p in
  flat_map (fun w => be_bytes 8 (nw_to_Z w)) st.
