(* Crypto/Sha512Z.v — reference SHA-512 over [list byte] (FIPS 180-4), words as Z in [0, 2^64), same
   structure as Sha256.v.  Slow when extracted (Z.land/Z.lxor are bit-serial); Crypto/Sha512.v is the
   one to import.  The CRYPTO selftest checks sha512_z = sha512 = hashlib on its corpus. *)
From Coq Require Import ZArith List Bool.
From Coq.Strings Require Import Byte.
From Verif Require Import Lib.Bytes Crypto.Sha256 Crypto.Sha512Consts.
Import ListNotations.
Open Scope Z_scope.

Module Sha512Z.

Definition mask64 : Z := 18446744073709551615.
Definition w64 (x : Z) : Z := Z.land x mask64.
Definition add64 (a b : Z) : Z := w64 (a + b).
Definition rotr64 (n x : Z) : Z := w64 (Z.lor (Z.shiftr x n) (Z.shiftl x (64 - n))).
Definition shr64 (n x : Z) : Z := Z.shiftr x n.
Definition not64 (x : Z) : Z := mask64 - x.

Definition Ch64 (x y z : Z) := Z.lxor (Z.land x y) (Z.land (not64 x) z).
Definition Maj64 (x y z : Z) := Z.lxor (Z.lxor (Z.land x y) (Z.land x z)) (Z.land y z).
Definition bsig0_64 x := Z.lxor (Z.lxor (rotr64 28 x) (rotr64 34 x)) (rotr64 39 x).
Definition bsig1_64 x := Z.lxor (Z.lxor (rotr64 14 x) (rotr64 18 x)) (rotr64 41 x).
Definition ssig0_64 x := Z.lxor (Z.lxor (rotr64 1 x) (rotr64 8 x)) (shr64 7 x).
Definition ssig1_64 x := Z.lxor (Z.lxor (rotr64 19 x) (rotr64 61 x)) (shr64 6 x).


(* big-endian 64-bit words of a block *)
Fixpoint words_be64 (k : nat) (bs : bytes) : list Z :=
  match k with
  | O => []
  | S k' => of_be (firstn 8 bs) :: words_be64 k' (skipn 8 bs)
  end.

Definition sched_next64 (w : list Z) : Z :=
  (* w = [W(t-1); W(t-2); ...; W(t-16)] *)
  add64 (add64 (ssig1_64 (nth 1 w 0)) (nth 6 w 0)) (add64 (ssig0_64 (nth 14 w 0)) (nth 15 w 0)).

Definition round512 (st : list Z) (k w : Z) : list Z :=
  match st with
  | [a; b; c; d; e; f; g; h] =>
      let t1 := add64 (add64 (add64 h (bsig1_64 e)) (add64 (Ch64 e f g) k)) w in
      let t2 := add64 (bsig0_64 a) (Maj64 a b c) in
      [add64 t1 t2; a; b; c; add64 d t1; e; f; g]
  | _ => st
  end.

Fixpoint rounds512 (ks : list Z) (t : nat) (blockw : list Z) (win : list Z) (st : list Z) : list Z :=
  match ks with
  | [] => st
  | k :: ks' =>
      let w := if (t <? 16)%nat then nth t blockw 0 else sched_next64 win in
      rounds512 ks' (S t) blockw (w :: firstn 15 win) (round512 st k w)
  end.

Definition compress512 (st : list Z) (block : bytes) : list Z :=
  let bw := words_be64 16 block in
  let st' := rounds512 K512 0 bw [] st in
  map (fun p => add64 (fst p) (snd p)) (combine st st').

Definition pad512 (msg : bytes) : bytes :=
  let n := length msg in
  msg ++ [x80] ++ repeat x00 (pad_len n 128 16) ++ be_bytes 16 (8 * Z.of_nat n).

Fixpoint blocks512 (fuel : nat) (st : list Z) (bs : bytes) : list Z :=
  match fuel with
  | O => st
  | S f =>
      match bs with
      | [] => st
      | _ => blocks512 f (compress512 st (firstn 128 bs)) (skipn 128 bs)
      end
  end.

Definition sha512 (msg : bytes) : bytes :=
  let p := pad512 msg in
  let st := blocks512 (S (length p / 128)) H512_init p in
  flat_map (be_bytes 8) st.

End Sha512Z.

Definition sha512_z : bytes -> bytes := Sha512Z.sha512.
