(* Crypto/Sha256.v — executable SHA-256 over [list byte] (FIPS 180-4), words as Z in [0, 2^32).
   Transcription validated against hashlib in the correspondence runs; no axioms. *)
From Coq Require Import ZArith List Bool.
From Coq.Strings Require Import Byte.
From Verif Require Import Lib.Bytes.
Import ListNotations.
Open Scope Z_scope.

Definition w32 (x : Z) : Z := Z.land x 4294967295.
Definition add32 (a b : Z) : Z := w32 (a + b).
Definition rotr32 (n x : Z) : Z := w32 (Z.lor (Z.shiftr x n) (Z.shiftl x (32 - n))).
Definition shr32 (n x : Z) : Z := Z.shiftr x n.
Definition not32 (x : Z) : Z := 4294967295 - x.

Definition Ch (x y z : Z) := Z.lxor (Z.land x y) (Z.land (not32 x) z).
Definition Maj (x y z : Z) := Z.lxor (Z.lxor (Z.land x y) (Z.land x z)) (Z.land y z).
Definition bsig0 x := Z.lxor (Z.lxor (rotr32 2 x) (rotr32 13 x)) (rotr32 22 x).
Definition bsig1 x := Z.lxor (Z.lxor (rotr32 6 x) (rotr32 11 x)) (rotr32 25 x).
Definition ssig0 x := Z.lxor (Z.lxor (rotr32 7 x) (rotr32 18 x)) (shr32 3 x).
Definition ssig1 x := Z.lxor (Z.lxor (rotr32 17 x) (rotr32 19 x)) (shr32 10 x).

Definition K256 : list Z := [
  0x428a2f98; 0x71374491; 0xb5c0fbcf; 0xe9b5dba5; 0x3956c25b; 0x59f111f1; 0x923f82a4; 0xab1c5ed5;
  0xd807aa98; 0x12835b01; 0x243185be; 0x550c7dc3; 0x72be5d74; 0x80deb1fe; 0x9bdc06a7; 0xc19bf174;
  0xe49b69c1; 0xefbe4786; 0x0fc19dc6; 0x240ca1cc; 0x2de92c6f; 0x4a7484aa; 0x5cb0a9dc; 0x76f988da;
  0x983e5152; 0xa831c66d; 0xb00327c8; 0xbf597fc7; 0xc6e00bf3; 0xd5a79147; 0x06ca6351; 0x14292967;
  0x27b70a85; 0x2e1b2138; 0x4d2c6dfc; 0x53380d13; 0x650a7354; 0x766a0abb; 0x81c2c92e; 0x92722c85;
  0xa2bfe8a1; 0xa81a664b; 0xc24b8b70; 0xc76c51a3; 0xd192e819; 0xd6990624; 0xf40e3585; 0x106aa070;
  0x19a4c116; 0x1e376c08; 0x2748774c; 0x34b0bcb5; 0x391c0cb3; 0x4ed8aa4a; 0x5b9cca4f; 0x682e6ff3;
  0x748f82ee; 0x78a5636f; 0x84c87814; 0x8cc70208; 0x90befffa; 0xa4506ceb; 0xbef9a3f7; 0xc67178f2].

Definition H256_init : list Z := [
  0x6a09e667; 0xbb67ae85; 0x3c6ef372; 0xa54ff53a; 0x510e527f; 0x9b05688c; 0x1f83d9ab; 0x5be0cd19].

(* big-endian words of a block *)
Fixpoint words_be (k : nat) (bs : bytes) : list Z :=
  match k with
  | O => []
  | S k' => of_be (firstn 4 bs) :: words_be k' (skipn 4 bs)
  end.

(* message schedule: keep the last 16 words in a list, newest first *)
Definition sched_next (w : list Z) : Z :=
  (* w = [W(t-1); W(t-2); ...; W(t-16)] *)
  add32 (add32 (ssig1 (nth 1 w 0)) (nth 6 w 0)) (add32 (ssig0 (nth 14 w 0)) (nth 15 w 0)).

Definition round256 (st : list Z) (k w : Z) : list Z :=
  match st with
  | [a; b; c; d; e; f; g; h] =>
      let t1 := add32 (add32 (add32 h (bsig1 e)) (add32 (Ch e f g) k)) w in
      let t2 := add32 (bsig0 a) (Maj a b c) in
      [add32 t1 t2; a; b; c; add32 d t1; e; f; g]
  | _ => st
  end.

(* rounds: ks = remaining constants, win = last 16 words (newest first), t = round index *)
Fixpoint rounds256 (ks : list Z) (t : nat) (blockw : list Z) (win : list Z) (st : list Z) : list Z :=
  match ks with
  | [] => st
  | k :: ks' =>
      let w := if (t <? 16)%nat then nth t blockw 0 else sched_next win in
      rounds256 ks' (S t) blockw (w :: firstn 15 win) (round256 st k w)
  end.

Definition compress256 (st : list Z) (block : bytes) : list Z :=
  let bw := words_be 16 block in
  let st' := rounds256 K256 0 bw [] st in
  map (fun p => add32 (fst p) (snd p)) (combine st st').

Definition pad_len (n : nat) (blk : nat) (lenbytes : nat) : nat :=
  (* number of zero bytes so that n + 1 + zeros + lenbytes = 0 mod blk *)
  let r := ((n + 1 + lenbytes) mod blk)%nat in
  if (r =? 0)%nat then O else (blk - r)%nat.

Definition pad256 (msg : bytes) : bytes :=
  let n := length msg in
  msg ++ [x80] ++ repeat x00 (pad_len n 64 8) ++ be_bytes 8 (8 * Z.of_nat n).

Fixpoint blocks256 (fuel : nat) (st : list Z) (bs : bytes) : list Z :=
  match fuel with
  | O => st
  | S f =>
      match bs with
      | [] => st
      | _ => blocks256 f (compress256 st (firstn 64 bs)) (skipn 64 bs)
      end
  end.

Definition sha256 (msg : bytes) : bytes :=
  let p := pad256 msg in
  let st := blocks256 (S (length p / 64)) H256_init p in
  flat_map (be_bytes 4) st.

Definition sha256d (msg : bytes) : bytes := sha256 (sha256 msg).
