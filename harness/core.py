"""harness/core.py — shared machinery of every property check.

A property module (harness/props/cXX.py) provides:
  PROP            'C18'
  COQ_FILES       list of .v files (relative to coq/) whose .vo must build, Properties/CXX.v last
  DRIVER          name of the OCaml driver (ocaml/<name>_driver.ml, model extracted by Extract/<X>.v) or None
  IMPL            path of the implementation adapter (run with /venv/bin/python, PYTHONPATH=/repo)
  gen_cases(rng, tier) -> list of Case(kind, req, nontrivial_key)
  prop_check(case, impl_out) -> None | str     property-level verdict on the implementation's own answer
                                               (None = satisfies the property / not decidable here)
  KNOWN_CLASSES   {class_id: predicate(case, impl_out, model_out) -> bool}  (optional)
  ALLOWED_AXIOMS  list of axiom names allowed in Print Assumptions output
"""
import fcntl, hashlib, json, os, random, re, shutil, subprocess, sys, time

VERIF = os.path.dirname(os.path.dirname(os.path.abspath(__file__)))
REPO = os.environ.get('VERIF_REPO', '/repo')
COQ = os.path.join(VERIF, 'coq')
OCAML = os.path.join(VERIF, 'ocaml')
RUN = os.path.join(VERIF, 'run')
PY = '/venv/bin/python'
FORBIDDEN = re.compile(r'\b(Admitted|admit|Axiom|Axioms|Parameter|Parameters|Conjecture|Conjectures|'
                       r'Admit Obligations|bypass_check|Unset Guard Checking|Unset Positivity Checking|'
                       r'Unset Universe Checking|type-in-type|impredicative-set)\b')


class Case:
    __slots__ = ('kind', 'req', 'key', 'meta')

    def __init__(self, kind, req, key=None, meta=None):
        self.kind, self.req, self.key, self.meta = kind, req, key, meta


class Result:
    """Accumulates what a run found; rendered into evidence and the exit code."""

    def __init__(self, prop, tier, seed):
        self.prop, self.tier, self.seed = prop, tier, seed
        self.t0 = time.time()
        self.violations = []      # (what, replay_path, has_input)
        self.known_hits = []      # strings
        self.stale_known = []
        self.notes = []
        self.cov = {}
        self.assumptions = []
        self.trusted = []
        self.obligations = 0
        self.discharged = 0
        self.checker_cmd = ''
        self.samples = []
        self.evaluations = 0
        self.distinct = set()
        self.hist = {}

    def count(self, kind, n=1):
        self.hist[kind] = self.hist.get(kind, 0) + n


def sh(cmd, cwd=None, timeout=600, env=None, inp=None):
    p = subprocess.run(cmd, shell=isinstance(cmd, str), cwd=cwd, timeout=timeout, env=env, input=inp,
                       stdout=subprocess.PIPE, stderr=subprocess.STDOUT, text=True)
    return p.returncode, p.stdout


ALT = REPO != '/repo'      # a run against a scratch copy: keep it apart from the registered run's files


def run_dir(prop):
    d = os.path.join(RUN, prop + ('_alt_%d' % os.getpid() if ALT else ''))
    shutil.rmtree(d, ignore_errors=True)
    os.makedirs(os.path.join(d, 'data'), exist_ok=True)
    os.makedirs(os.path.join(RUN, 'replays'), exist_ok=True)
    return d


def impl_env(rundir, extra=None):
    """Environment of every implementation subprocess: the working tree of /repo, a fresh data dir."""
    env = {k: v for k, v in os.environ.items() if k in ('PATH', 'HOME', 'LANG', 'LC_ALL', 'TMPDIR')}
    env.update(PYTHONPATH=REPO + os.pathsep + os.path.join(VERIF, 'harness'), PYTHONHASHSEED='0',
               BCL_DATA_DIR=os.path.join(rundir, 'data') + os.sep,
               PYTHONDONTWRITEBYTECODE='1', BITCOINLIB_VERIF='1', PIP_NO_INDEX='1')
    if extra:
        env.update(extra)
    return env


# ------------------------------------------------------------------ Coq side

def scan_forbidden():
    bad = []
    for root, _, files in os.walk(COQ):
        for f in files:
            if f.endswith('.v'):
                p = os.path.join(root, f)
                txt = open(p, encoding='utf8').read()
                txt = re.sub(r'\(\*.*?\*\)', '', txt, flags=re.S)
                for m in FORBIDDEN.finditer(txt):
                    bad.append('%s: %s' % (os.path.relpath(p, COQ), m.group(0)))
    return bad


def regenerate(res):
    """Run the translator against /repo's working tree; write Gen/*.v only when content changes."""
    tr = os.path.join(VERIF, 'translator', 'gen_all.py')
    if not os.path.exists(tr):
        return True, ''
    rc, out = sh([PY, tr, REPO, os.path.join(COQ, 'Gen')], timeout=300,
                 env=impl_env(os.path.join(RUN, 'translator')))
    if rc != 0:
        res.notes.append('translator failed: ' + out[-400:])
    return rc == 0, out


_LOCK_DEPTH = [0]


class BuildLock:
    """One build (translator -> make -> Properties compile -> extraction) at a time across all checks; re-entrant."""

    def __enter__(self):
        if _LOCK_DEPTH[0] == 0:
            self.f = open(os.path.join(COQ, '.lock'), 'w')
            fcntl.flock(self.f, fcntl.LOCK_EX)
            _LOCK_DEPTH.append(self.f)
        _LOCK_DEPTH[0] += 1
        return self

    def __exit__(self, *a):
        _LOCK_DEPTH[0] -= 1
        if _LOCK_DEPTH[0] == 0:
            f = _LOCK_DEPTH.pop()
            fcntl.flock(f, fcntl.LOCK_UN)
            f.close()
        return False


def coq_make(vfiles, jobs=8, timeout=3000):
    """Build the .vo of each listed file (and what it depends on) with coq_makefile's Makefile."""
    with BuildLock():
        # _CoqProject lists every .v under coq/ (kept sorted so the Makefile is regenerated only on change)
        vs = []
        for root, _, files in os.walk(COQ):
            for f in files:
                if f.endswith('.v'):
                    vs.append(os.path.relpath(os.path.join(root, f), COQ))
        vs.sort()
        hdr = open(os.path.join(COQ, '_CoqProject.in')).read()
        want = hdr + '\n'.join(vs) + '\n'
        cp = os.path.join(COQ, '_CoqProject')
        if not os.path.exists(cp) or open(cp).read() != want or not os.path.exists(os.path.join(COQ, 'Makefile')):
            open(cp, 'w').write(want)
            rc, out = sh('coq_makefile -f _CoqProject -o Makefile', cwd=COQ, timeout=120)
            if rc != 0:
                return False, out
        targets = ' '.join(v[:-2] + '.vo' for v in vfiles)
        rc, out = sh('timeout %d make -j%d %s' % (timeout, jobs, targets), cwd=COQ, timeout=timeout + 30)
        return rc == 0, out


THM = re.compile(r'^\s*(Theorem|Example)\s+([A-Za-z0-9_\']+)', re.M)


def check_properties_file(prop_v, allowed_axioms, res):
    """Compile Properties/CXX.v (always, ~1s) and read back Print Assumptions output."""
    src = open(os.path.join(COQ, prop_v)).read()
    thms = [m.group(2) for m in THM.finditer(src) if m.group(1) == 'Theorem']
    examples = [m.group(2) for m in THM.finditer(src) if m.group(1) == 'Example']
    cmd = 'timeout 900 coqc -Q . Verif -w -notation-overridden %s' % prop_v
    rc, out = sh(cmd, cwd=COQ, timeout=930)
    res.checker_cmd = ('cd coq && coq_makefile -f _CoqProject -o Makefile && make <deps> && ' + cmd)
    res.obligations = len(thms) + len(examples)
    if rc != 0:
        res.discharged = 0
        return False, thms, out
    # every "Print Assumptions" yields either "Closed under the global context" or an "Axioms:" block
    blocks = re.split(r'(?=Closed under the global context|Axioms:)', out)
    blocks = [b for b in blocks if b.startswith('Closed') or b.startswith('Axioms:')]
    n_print = len(re.findall(r'^\s*Print Assumptions', src, flags=re.M))
    ok = True
    axioms_seen = set()
    for b in blocks:
        if b.startswith('Axioms:'):
            for m in re.finditer(r'^([A-Za-z0-9_.\']+)\s*:', b[len('Axioms:'):], flags=re.M):
                axioms_seen.add(m.group(1))
    bad = sorted(a for a in axioms_seen if a.split('.')[-1] not in allowed_axioms and a not in allowed_axioms)
    if bad:
        ok = False
        res.notes.append('unexpected axioms: ' + ', '.join(bad))
    if len(blocks) != n_print or n_print < len(thms):
        ok = False
        res.notes.append('Print Assumptions count mismatch: %d blocks, %d commands, %d theorems'
                         % (len(blocks), n_print, len(thms)))
    res.discharged = res.obligations if ok else 0
    res.trusted.append('Print Assumptions (%d theorems): %s' % (
        len(thms), 'all closed under the global context' if not axioms_seen else 'axioms used: ' + ', '.join(sorted(axioms_seen))))
    return ok, thms, out


def build_driver(name):
    """Link the extracted model + driver (only when sources are newer than the binary)."""
    exe = os.path.join(OCAML, 'bin', name + '_driver')
    srcs = [os.path.join(OCAML, f) for f in ('common.ml', name + '_model.mli', name + '_model.ml', name + '_driver.ml')]
    for s in srcs:
        if not os.path.exists(s):
            return None, 'missing ' + s
    with open(os.path.join(OCAML, '.lock_' + name), 'w') as lk:
        fcntl.flock(lk, fcntl.LOCK_EX)
        if os.path.exists(exe) and all(os.path.getmtime(exe) >= os.path.getmtime(s) for s in srcs):
            return exe, ''
        os.makedirs(os.path.join(OCAML, 'bin'), exist_ok=True)
        bdir = os.path.join(OCAML, 'bin', 'build_' + name)
        shutil.rmtree(bdir, ignore_errors=True)
        os.makedirs(bdir)
        for s in srcs:
            shutil.copy(s, bdir)
        pk = 'zarith'
        extra = ''
        flags_file = os.path.join(OCAML, name + '_driver.flags')
        if os.path.exists(flags_file):
            extra = open(flags_file).read().strip()
        rc, out = sh('timeout 600 ocamlfind ocamlopt -w -a -package %s %s -linkpkg common.ml %s_model.mli %s_model.ml '
                     '%s_driver.ml -o ../%s_driver' % (pk, extra, name, name, name, name), cwd=bdir, timeout=630)
        shutil.rmtree(bdir, ignore_errors=True)
        if rc != 0:
            return None, out
        return exe, out


def run_lines(argv, lines, env=None, timeout=3600, cwd=None):
    """Feed request lines on stdin, return response lines (one per request)."""
    inp = '\n'.join(lines) + '\n'
    p = subprocess.run(argv, input=inp, stdout=subprocess.PIPE, stderr=subprocess.PIPE, text=True,
                       env=env, timeout=timeout, cwd=cwd)
    outs = p.stdout.split('\n')
    if outs and outs[-1] == '':
        outs.pop()
    return p.returncode, outs, p.stderr


def run_driver(exe, lines, timeout=3600):
    # large stack for deep non-tail recursion in extracted code
    return run_lines(['bash', '-c', 'ulimit -s unlimited 2>/dev/null || ulimit -s 1000000; exec "%s"' % exe], lines,
                     timeout=timeout)


def run_impl(script, lines, rundir, timeout=3600, extra_env=None):
    return run_lines([PY, os.path.join(VERIF, script)], lines, env=impl_env(rundir, extra_env), timeout=timeout,
                     cwd=rundir)


# ------------------------------------------------------------------ findings / evidence

def load_known(prop):
    out = []
    for p in (os.path.join(VERIF, 'known_findings.json'), os.environ.get('VERIF_EXTRA_KNOWN')):
        if p and os.path.exists(p):
            out += [e for e in json.load(open(p))['findings'] if e['property'] == prop]
    return out


def write_replay(prop, payload):
    d = os.path.join(RUN, 'replays')
    os.makedirs(d, exist_ok=True)
    h = hashlib.sha1(json.dumps(payload, sort_keys=True).encode()).hexdigest()[:10]
    path = os.path.join(d, '%s-%s.json' % (prop, h))
    json.dump(payload, open(path, 'w'), indent=1, sort_keys=True)
    return path


def violation(res, what, payload, has_input=True):
    payload = dict(payload)
    payload.setdefault('property', res.prop)
    payload['what'] = what
    path = write_replay(res.prop, payload)
    res.violations.append((what, path, has_input))
    line = 'VIOLATION property=%s replay=%s' % (res.prop, path)
    if not has_input:
        line += ' no-failing-input-found'
    print(line, flush=True)


def finish(res, level_assumptions, rule, exhaustive=False):
    evdir = os.path.join(RUN, 'evidence_alt') if ALT else os.path.join(VERIF, 'evidence')
    os.makedirs(evdir, exist_ok=True)
    cov = dict(res.cov)
    cov.update(obligations=max(res.obligations, 1), discharged=res.discharged,
               checker_cmd=res.checker_cmd or 'coqc', trusted_base=res.trusted,
               evaluations=res.evaluations, distinct_nontrivial=len(res.distinct), rule=rule,
               samples=res.samples[:12], input_distribution=res.hist,
               known_finding_hits=res.known_hits, stale_known_findings=res.stale_known,
               notes=res.notes, exhaustive=exhaustive,
               traces_validated_against_impl=res.evaluations)
    ev = dict(property_id=res.prop, tier=res.tier, seed=res.seed, level='proof', coverage=cov,
              assumptions=level_assumptions, wall_s=round(time.time() - res.t0, 2),
              violations=len(res.violations))
    json.dump(ev, open(os.path.join(evdir, res.prop + '.json'), 'w'), indent=1)
    for n in res.notes:
        print('note:', n)
    print('%s tier=%s seed=%d obligations=%d discharged=%d evaluations=%d distinct_nontrivial=%d known=%d '
          'violations=%d wall=%.1fs' % (res.prop, res.tier, res.seed, res.obligations, res.discharged,
                                        res.evaluations, len(res.distinct), len(res.known_hits),
                                        len(res.violations), time.time() - res.t0))
    return 1 if res.violations else 0


# ------------------------------------------------------------------ the standard flow

EXTRACTION_TB = ('extraction: Coq extraction plugin with ExtrOcamlBasic + ExtrOcamlZBigInt only (bool, option, '
                 'list, prod, unit, sumbool -> OCaml natives; positive/N/Z -> zarith); no Extract Constant / '
                 'Extract Inductive of our own; OCaml 4.13.1, zarith, ocaml/common.ml and the per-property driver')


def standard_check(mod, tier, seed, replay=None):
    """proof re-check + differential correspondence + known findings, for one property module."""
    res = Result(mod.PROP, tier, seed)
    rundir = run_dir(mod.PROP)
    rng = random.Random(seed)
    proof_ok = True
    broken = []

    # 1. proof side
    _bl = BuildLock()
    _bl.__enter__()
    try:
        bad = scan_forbidden()
        if bad:
            proof_ok = False
            broken.append('forbidden tokens in development: ' + '; '.join(bad[:5]))
        gen_ok, gen_out = regenerate(res)
        if not gen_ok:
            proof_ok = False
            broken.append('translator: ' + gen_out[-300:])
        prop_v = mod.COQ_FILES[-1]
        ok, out = coq_make([f for f in mod.COQ_FILES], timeout=getattr(mod, 'COQ_TIMEOUT', 2400))
        if not ok:
            proof_ok = False
            m = re.search(r'File "\./([^"]+)", line (\d+)[^\n]*\n(Error:[^\n]*(?:\n[^\n]*){0,6})', out)
            broken.append('coq build failed: ' + (('%s line %s: %s' % (m.group(1), m.group(2), m.group(3))) if m else out[-600:]))
        if ok:
            pok, thms, pout = check_properties_file(prop_v, getattr(mod, 'ALLOWED_AXIOMS', []), res)
            if not pok:
                proof_ok = False
                broken.append('Properties file: ' + pout[-400:])
        # source-to-model tie files of this property (Properties/Tie*.v: "regenerated definition = model function")
        for tie_v in getattr(mod, 'TIE_FILES', []):
            ob0, di0, cmd0 = res.obligations, res.discharged, res.checker_cmd
            tok, tout = coq_make([tie_v], timeout=1200)
            if tok:
                tok, _, tout = check_properties_file(tie_v, getattr(mod, 'ALLOWED_AXIOMS', []), res)
                res.obligations, res.discharged = ob0 + res.obligations, di0 + res.discharged
            else:
                res.obligations, res.discharged = ob0 + 1, di0
            res.checker_cmd = cmd0 + ' ; ' + tie_v
            if not tok:
                proof_ok = False
                m = re.search(r'File "\./([^"]+)", line (\d+)[^\n]*\n(Error:[^\n]*(?:\n[^\n]*){0,6})', tout)
                broken.append('source-to-model tie %s no longer checks: %s' % (
                    tie_v, ('%s line %s: %s' % (m.group(1), m.group(2), m.group(3))) if m else tout[-500:]))
        if proof_ok and tier == 'thorough' and not replay:
            # independent re-check of the compiled property file and everything it depends on
            lib = 'Verif.' + prop_v[:-2].replace('/', '.')
            rc_c, out_c = sh('timeout 7000 coqchk -o -silent -Q . Verif %s' % lib, cwd=COQ, timeout=7030)
            summ = out_c[out_c.find('CONTEXT SUMMARY'):] if 'CONTEXT SUMMARY' in out_c else out_c[-600:]
            res.trusted.append('coqchk -o %s: exit %d%s; %s' % (lib, rc_c, ' (time limit reached: no verdict from the independent '
                               're-check in this run)' if rc_c == 124 else '', ' '.join(summ.split())[:900]))
            if rc_c == 124:
                res.notes.append('coqchk did not finish within its time limit (machine load); the kernel check by coqc stands')
            elif rc_c != 0:
                proof_ok = False
                broken.append('coqchk failed: ' + out_c[-300:])
        res.trusted.insert(0, 'Coq 8.16.1 kernel + VM (vm_compute); native_compute not used')
        res.trusted.append(getattr(mod, 'EXTRACTION_TB', EXTRACTION_TB))
        if getattr(mod, 'ALLOWED_AXIOMS', None):
            res.trusted.append('standard-library axioms allowed for this property: ' + ', '.join(mod.ALLOWED_AXIOMS))
        res.trusted.append('translator/gen_all.py (tables regenerated from /repo each run) and harness/*.py; '
                           'implementation adapter calls the public API with PYTHONPATH=/repo and a fresh BCL_DATA_DIR')

        # 2. correspondence
        exe = None
        if getattr(mod, 'DRIVER', None):
            exe, dout = build_driver(mod.DRIVER)
            if exe is None:
                proof_ok = False
                broken.append('driver build failed: ' + dout[-400:])

    finally:
        _bl.__exit__(None, None, None)
    cases = []
    if replay:
        rp = json.load(open(replay))
        for c in rp.get('cases', []):
            cases.append(Case(c['kind'], c['req'], c.get('key')))
    else:
        cases = mod.gen_cases(rng, tier)
        if not proof_ok and tier != 'thorough':
            # a proof / tie obligation broke: widen the search for a failing input with the thorough streams, capped so
            # that the quick command stays within minutes (evenly spaced sample, boundary streams come first and stay dense)
            extra = mod.gen_cases(random.Random(seed + 1), 'thorough')
            cap = getattr(mod, 'ESCALATE_CAP', max(2000, 3 * len(cases)))
            if len(extra) > cap:
                head = extra[:cap // 2]
                rest = extra[cap // 2:]
                step = max(1, len(rest) // (cap - len(head)))
                extra = head + rest[::step][:cap - len(head)]
            seen = {c.req for c in cases}
            cases += [c for c in extra if c.req not in seen]
            res.notes.append('proof side broken: search widened with %d cases of the thorough streams' % (len(cases) - len(seen)))
    failing_input_found = False
    if cases:
        reqs = [c.req for c in cases]
        rc_i, impl_out, impl_err = run_impl(mod.IMPL, reqs, rundir, timeout=getattr(mod, 'IMPL_TIMEOUT', 3000))
        if len(impl_out) != len(reqs):
            res.notes.append('implementation adapter produced %d answers for %d requests; stderr tail: %s'
                             % (len(impl_out), len(reqs), impl_err[-600:]))
            if len(impl_out) < len(reqs) and len(impl_out) > 0:
                # the adapter process died while answering request number len(impl_out): the library did something no
                # adapter survives (hard crash, endless loop killed by the timeout).  That request is judged as a CRASH
                # answer; the requests after it were not reached and are dropped from this run.
                k = len(impl_out)
                impl_out = impl_out + ['CRASH adapter process died: ' + ' '.join(impl_err.split())[-160:]]
                cases = cases[:k + 1]
                reqs = reqs[:k + 1]
            else:
                print('note: adapter failure; machinery error', file=sys.stderr)
                finish(res, mod.ASSUMPTIONS, mod.RULE)
                sys.exit(2)
        model_out = None
        if exe:
            rc_m, model_out, model_err = run_driver(exe, [mod.model_req(c) for c in cases] if hasattr(mod, 'model_req') else reqs)
            if len(model_out) != len(reqs):
                res.notes.append('driver produced %d answers for %d requests: %s' % (len(model_out), len(reqs), model_err[-300:]))
                finish(res, mod.ASSUMPTIONS, mod.RULE)
                sys.exit(2)
        nviol = 0
        n_prop_listed = n_corr_listed = 0
        active_known = set()
        for e in load_known(mod.PROP):
            if e.get('status') == 'known':
                active_known.add(e.get('class') or e.get('id'))
                active_known.add(e.get('id'))
        for i, c in enumerate(cases):
            res.evaluations += 1
            res.count(c.kind)
            io = impl_out[i]
            mo = model_out[i] if model_out is not None else None
            triv = getattr(mod, 'is_trivial', lambda c, o: o.startswith('ERR'))(c, io)
            if not triv:
                res.distinct.add(c.key if c.key is not None else c.req)
            if len(res.samples) < 12 and (i % max(1, len(cases) // 12) == 0):
                res.samples.append({'kind': c.kind, 'request': c.req[:200], 'impl': io[:200],
                                    'model': (mo[:200] if mo is not None else None)})
            pv = mod.prop_check(c, io)
            same = getattr(mod, 'same', lambda c, a, b: a == b)
            disagree = mo is not None and not same(c, io, mo)
            if pv is not None:
                # a property failure inside a recorded class is a known finding, not a new violation
                kc = None
                for cid, pred in getattr(mod, 'KNOWN_CLASSES', {}).items():
                    if cid not in active_known and cid not in getattr(mod, 'DOMAIN_CLASSES', ()):
                        continue      # only classes recorded as `known` excuse anything (a `fixed` entry suppresses nothing)
                    try:
                        if pred(c, io, mo):
                            kc = cid
                            break
                    except Exception:
                        pass
                if kc is not None:
                    res.count('known:' + kc)
                    pv = None
            if pv is None and not disagree:
                continue
            nviol += 1
            # up to 5 property failures (with failing input) and up to 3 correspondence-only breaks are listed, so that an
            # early batch of model differences cannot crowd out the failing inputs
            if pv is not None:
                n_prop_listed += 1
            else:
                n_corr_listed += 1
            if (pv is not None and n_prop_listed <= 5) or (pv is None and n_corr_listed <= 3):
                if pv is not None:
                    failing_input_found = True
                    violation(res, 'property fails on the implementation: ' + pv,
                              {'cases': [{'kind': c.kind, 'req': c.req}], 'impl': io, 'model': mo,
                               'replay_cmd': './check %s --replay <this file>' % mod.PROP})
                else:
                    violation(res, 'correspondence broken (model and implementation differ; property-level check '
                                   'finds no failing input here): kind=%s' % c.kind,
                              {'cases': [{'kind': c.kind, 'req': c.req}], 'impl': io, 'model': mo,
                               'obligation': 'correspondence %s/%s' % (mod.PROP, c.kind)}, has_input=False)
        listed = min(n_prop_listed, 5) + min(n_corr_listed, 3)
        if nviol > listed:
            res.notes.append('%d further disagreements not listed' % (nviol - listed))

    # 2b. extraction cross-check: a sample of the extracted model's answers is re-proved inside Coq by vm_compute
    if exe and cases and hasattr(mod, 'golden') and proof_ok:
        k = 400 if tier == 'thorough' else 60
        step = max(1, len(cases) // k)
        stmts = []
        for i in range(0, len(cases), step):
            try:
                g = mod.golden(cases[i], model_out[i])
            except Exception:
                g = None
            if g:
                stmts.append(g)
        if stmts:
            gv = os.path.join(rundir, 'Golden%s.v' % mod.PROP)
            with open(gv, 'w') as f:
                f.write(mod.GOLDEN_HEADER + '\n')
                for j, st in enumerate(stmts):
                    f.write('Goal %s. Proof. vm_compute. reflexivity. Qed.\n' % st)
            rc_g, out_g = sh('timeout 900 coqc -Q %s Verif -w -notation-overridden %s' % (COQ, gv), cwd=rundir, timeout=930)
            res.cov['extraction_crosscheck'] = {'statements': len(stmts), 'ok': rc_g == 0}
            res.trusted.append('extraction cross-check: %d extracted-model answers re-proved inside Coq by vm_compute: %s'
                               % (len(stmts), 'all accepted' if rc_g == 0 else 'FAILED'))
            if rc_g != 0:
                proof_ok = False
                broken.append('extraction cross-check failed (extracted program and Coq evaluation differ): ' + out_g[-400:])

    # 3. known findings must still reproduce
    for e in load_known(mod.PROP):
        if e.get('status') != 'known':
            continue
        try:
            rep = mod.reproduce_known(e, rundir)
        except Exception as ex:
            rep = False
            res.notes.append('known finding %s: reproduction crashed: %r' % (e['id'], ex))
        if rep:
            res.known_hits.append(e['id'])
            print('KNOWN-FINDING: property=%s %s' % (mod.PROP, e['what_fails']))
        else:
            res.stale_known.append(e['id'])

    # 4. a broken proof side without a failing input is still a violation
    if not proof_ok and not failing_input_found:
        violation(res, 'proof obligation no longer checks: ' + ' | '.join(broken),
                  {'obligation': broken, 'note': 'differential + property-level search found no failing input'},
                  has_input=False)
    elif not proof_ok:
        res.notes.append('proof side broken: ' + ' | '.join(broken))
    return finish(res, mod.ASSUMPTIONS, mod.RULE, exhaustive=getattr(mod, 'EXHAUSTIVE', False))
