"""./check --setup : full .vo build of the Coq files every claimed property needs, and their drivers,
from files on disk (offline).  Only properties listed in MANIFEST.json are built."""
import importlib, json, os, sys
import core


def main():
    res = core.Result('setup', 'quick', 0)
    ok, out = core.regenerate(res)
    if not ok:
        print(out[-2000:]); return 2
    man = json.load(open(os.path.join(core.VERIF, 'MANIFEST.json')))
    vfiles, drivers = [], []
    for c in man['checks']:
        mod = importlib.import_module('props.' + c['property_id'].lower())
        for f in list(mod.COQ_FILES) + list(getattr(mod, 'TIE_FILES', [])):
            if f not in vfiles:
                vfiles.append(f)
        d = getattr(mod, 'DRIVER', None)
        if d and d not in drivers:
            drivers.append(d)
    ok, out = core.coq_make(vfiles, jobs=16, timeout=3400)
    print(out[-3000:])
    if not ok:
        print('setup: coq build failed'); return 2
    for name in drivers:
        exe, o = core.build_driver(name)
        if exe is None:
            print(o[-2000:]); print('setup: driver %s failed' % name); return 2
        print('driver', name, 'ok')
    print('setup ok')
    return 0
