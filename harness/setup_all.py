"""./check --setup : build the whole Coq development (full .vo build) and every driver, from files on disk."""
import glob, os, sys
import core


def main():
    res = core.Result('setup', 'quick', 0)
    ok, out = core.regenerate(res)
    if not ok:
        print(out[-2000:]); return 2
    vs = []
    for root, _, files in os.walk(core.COQ):
        for f in files:
            if f.endswith('.v'):
                vs.append(os.path.relpath(os.path.join(root, f), core.COQ))
    ok, out = core.coq_make(sorted(vs), jobs=16, timeout=3400)
    print(out[-3000:])
    if not ok:
        print('setup: coq build failed'); return 2
    for d in sorted(glob.glob(os.path.join(core.OCAML, '*_driver.ml'))):
        name = os.path.basename(d)[:-len('_driver.ml')]
        exe, o = core.build_driver(name)
        if exe is None:
            print(o[-2000:]); print('setup: driver %s failed' % name); return 2
        print('driver', name, 'ok')
    print('setup ok')
    return 0
