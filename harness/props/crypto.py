"""`./check CRYPTO` resolves to this module name; the selftest itself lives in crypto_selftest.py."""
from props.crypto_selftest import *          # noqa: F401,F403
