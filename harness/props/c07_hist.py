"""C07 — histories of operations on ONE wallet (request kind `hist`, model coq/Model/TxCreateHistory.v).

Generators (three families), the model request, the comparison with the model and the INDEPENDENT oracle: the oracle
keeps its own books (which outpoints the wallet was told about, with which value / account / key / confirmations,
which ones a broadcast transaction of this wallet consumed, which one a replacement released) from the request line
and from the raw transactions it parses itself; it never reads the wallet's values back.
"""
import hashlib

H_BASE = 1000
HKINDS = [('bitcoinlib_test', 'S,0,1,1,0'), ('bitcoinlib_test', 'S,0,1,1,0'), ('bitcoinlib_test', 'L,0,1,1,0'),
          ('bitcoinlib_test', 'P,0,1,1,0'), ('bitcoinlib_test', 'S,0,1,1,1'), ('bitcoinlib_test', 'S,1,3,2,0'),
          ('bitcoin', 'S,0,1,1,0'), ('litecoin', 'L,0,1,1,0')]
SEQ_RBF, SEQ_LOCK, SEQ_MAX = 0xfffffffd, 0xfffffffe, 0xffffffff


def B():
    import props.c07 as base
    return base


def nkeys(wk):
    f = wk.split(',')
    return 1 if f[4] == '1' else (2 if f[1] == '1' else 4)


def acct_of_key(k):
    return 0 if k < 2 else 1


def txid_of(i):
    return hashlib.sha256(b'c07-%d' % i).hexdigest()


def outpoint(i):
    return (txid_of(i), i % 4)


# ---------------------------------------------------------------- op tokens
def tok_listing(items):
    return ';'.join('%d:%d:%d:%d' % x for x in items) or '-'


def tok_outs(rng, net, amounts):
    return ';'.join('%s:%d:0' % (B().rand_script(rng, net).hex(), a) for a in amounts)


def op_update(via, acct, rescan, items):
    return 'u~%s~%s~%d~%s' % (via, acct, rescan, tok_listing(items))


def op_create(outs, o1, inputs='N', fee='none', minc=1, maxu='N', k=1, keys='-', acct='N', lt=0, rbf=0, shuf=0):
    return 'c~%s~%s~%s~%d~%s~%d~%s~%s~%d~%d~%d~%s' % (outs, inputs, fee, minc, maxu, k, keys, acct, lt, rbf, shuf, o1)


def op_send(outs, o1, inputs='N', fee='none', minc=1, maxu='N', k=1, keys='-', acct='N', lt=0, rbf=0, shuf=0, bc=0, pk=0,
            via='s'):
    return 's~%s~%s~%s~%d~%s~%d~%s~%s~%d~%d~%d~%s~%s~%d~%d~%s' % (
        outs, inputs, fee, minc, maxu, k, keys, acct, lt, rbf, shuf, o1, o1, bc, pk, via)


def op_sweep(single, targets, o1, fee='none', fpk='N', minc=1, maxu=999, keys='-', acct='N', lt=0, rbf=0, bc=0, pk=0):
    return 'w~%d~%s~%s~%s~%d~%d~%s~%s~%d~%d~%s~%s~%d~%d' % (
        single, targets, fee, fpk, minc, maxu, keys, acct, lt, rbf, o1, o1, bc, pk)


def good_oracle(rng, lim):
    """mostly an estimate inside the limits, so that histories get somewhere"""
    if rng.random() < 0.15:
        return B().gen_oracle(rng, lim)
    fpk = B().logu(rng, max(lim[1], 1), max(lim[1] + 1, min(lim[2], lim[1] * 40)))
    ws = '/'.join(str(rng.randrange(1, 1000)) for _ in range(5))
    return '%d,%d,%d,%d,%s' % (fpk, fpk, rng.randrange(1000), rng.randrange(1000), ws)


def typical_fee(lim):
    return max(300, lim[1] // 4)


# ---------------------------------------------------------------- generators
def header(net, wk, pub=0, bcount=800000):
    return 'hist %s %s %d %d' % (net, wk, pub, bcount)


def mk_view(rng, wk, n, lim, with_acct1=False, confs=(1, 1, 2, 3, 6, 10, 10, 0)):
    """[(id, value, conf, key)] for account 0 (keys 0,1) and optionally account 1 (keys 2,3; ids from 20)"""
    nk = nkeys(wk)
    base = B().logu(rng, 20 * max(lim[0], 1000), 10 ** 9)
    items = []
    for i in range(n):
        r = rng.random()
        v = base if r < 0.3 else (base + rng.randrange(-3, 4) if r < 0.4 else B().logu(rng, 5 * max(lim[0], 1000), 10 ** 10))
        items.append((i, v, rng.choice(confs), rng.randrange(min(nk, 2))))
    if with_acct1 and nk == 4:
        for i in range(20, 20 + rng.randrange(1, 4)):
            items.append((i, B().logu(rng, 5 * max(lim[0], 1000), 10 ** 10), rng.choice(confs), 2 + rng.randrange(2)))
    return items


def init_ops(rng, items):
    ops = []
    a0 = [x for x in items if acct_of_key(x[3]) == 0]
    a1 = [x for x in items if acct_of_key(x[3]) == 1]
    ops.append(op_update(rng.choice('px'), rng.choice(['N', '0']), rng.randrange(2), a0))
    if a1:
        ops.append(op_update(rng.choice('px'), '1', rng.randrange(2), a1))
    return ops


def gen_seq(rng, tier, allow_ms_bump=False):
    """family 1: broadcast -> utxos_update / utxo_add / reopen / bumpfee -> further creations"""
    net, wk = rng.choice(HKINDS)
    lim = B().LIMITS[net]
    o = good_oracle(rng, lim)
    n = rng.randrange(3, 8)
    items = mk_view(rng, wk, n, lim, with_acct1=rng.random() < 0.25, confs=(1, 1, 2, 3, 6, 10, 10, 10, 0))
    a0 = [x for x in items if acct_of_key(x[3]) == 0]
    ops = init_ops(rng, items)
    believed = set(x[0] for x in a0)
    total = sum(x[1] for x in a0)
    fee = typical_fee(lim)
    nfresh = [50]
    for _round in range(rng.randrange(1, 4)):
        alive = [x for x in a0 if x[0] in believed]
        r = rng.random()
        bc = 1 if rng.random() < 0.9 else 0
        rbf = 1 if rng.random() < 0.3 else 0
        shuf = rng.randrange(2)
        spend_is_send = True
        if r < 0.4 and len(alive) >= 2:
            # automatic selection which needs at least two inputs
            mx = max(x[1] for x in alive)
            tot = sum(x[1] for x in alive)
            amount = rng.randrange(mx + 1, max(mx + 2, int(tot * 0.95))) if tot > mx + 2 else max(1, mx // 2)
            ops.append(op_send(tok_outs(rng, net, [max(1, amount - 20 * fee)]), o, fee=rng.choice(['none', 'i%d' % fee]),
                               k=rng.choice([1, 1, 2, 0]), bc=bc, rbf=rbf, shuf=shuf, minc=rng.choice([0, 1])))
            believed.clear()        # unknown what was taken: nothing is believed any more
        elif r < 0.75 and len(alive) >= 2:
            pick = rng.sample(alive, rng.randrange(2, min(3, len(alive)) + 1))
            tot = sum(x[1] for x in pick)
            inp = ','.join('%d:2:N:N' % x[0] for x in pick)
            ops.append(op_send(tok_outs(rng, net, [max(1, int(tot * rng.uniform(0.2, 0.9)))]), o, inputs=inp,
                               fee=rng.choice(['none', 'i%d' % fee]), k=rng.choice([1, 1, 2]), bc=bc, rbf=rbf, shuf=shuf))
            if bc:
                believed -= set(x[0] for x in pick)
        else:
            spend_is_send = True
            ops.append(op_sweep(1, tok_outs(rng, net, [0]), o, fee=rng.choice(['none', 'i%d' % (3 * fee)]),
                                maxu=rng.choice([999, 999, 2, 3]), minc=rng.choice([0, 1, 1, 2]), bc=bc, rbf=rbf))
            believed.clear()
        if rbf and rng.random() < 0.7 and (wk.split(',')[1] == '0' or allow_ms_bump):
            ops.append('b~0~%d~%d' % (rng.choice([0, B().logu(rng, 300, 30000)]), bc if rng.random() < 0.85 else 1 - bc))
        # what the wallet hears afterwards
        for _ in range(rng.randrange(1, 3)):
            r = rng.random()
            if r < 0.55:
                sub = a0 if rng.random() < 0.7 else rng.sample(a0, rng.randrange(1, len(a0) + 1))
                bump = rng.choice([0, 0, 1, 3])
                lst = [(i, v, c + bump, k) for (i, v, c, k) in sub]
                if rng.random() < 0.5:
                    lst += [(i, 0, rng.choice([0, 1, 2, 6]), 0) for i in sorted(rng.sample(range(H_BASE, H_BASE + 40), 12))]
                ops.append(op_update(rng.choice('px'), rng.choice(['N', '0']), rng.randrange(2), lst))
            elif r < 0.85:
                if rng.random() < 0.65:
                    x = rng.choice(a0)
                    ops.append('a~%d:%d:%d:%d' % (x[0], x[1], x[2] + rng.randrange(3), x[3]))
                else:
                    nfresh[0] += 1
                    v = B().logu(rng, 5 * max(lim[0], 1000), 10 ** 9)
                    ops.append('a~%d:%d:%d:%d' % (nfresh[0], v, rng.choice([0, 1, 3]), rng.randrange(min(nkeys(wk), 2))))
                    a0.append((nfresh[0], v, 3, 0))
            else:
                ops.append('r')
        # further creations
        for _ in range(rng.randrange(1, 3)):
            r = rng.random()
            amount = max(1, int(total * rng.uniform(0.02, 0.6)))
            if r < 0.4:
                ops.append(op_create(tok_outs(rng, net, [amount]), o, fee=rng.choice(['none', 'i%d' % fee]),
                                     k=rng.choice([1, 2, 0]), minc=rng.choice([0, 1, 1, 2]), shuf=rng.randrange(2)))
            elif r < 0.8:
                ops.append(op_send(tok_outs(rng, net, [amount]), o, fee=rng.choice(['none', 'i%d' % fee]),
                                   k=rng.choice([1, 2, 0]), minc=rng.choice([0, 1, 1, 2]), bc=rng.randrange(2),
                                   shuf=rng.randrange(2), via=rng.choice('sst')))
            else:
                ops.append(op_sweep(1, tok_outs(rng, net, [0]), o, minc=rng.choice([0, 1, 2]), bc=rng.randrange(2)))
    return '%s %s' % (header(net, wk), ' '.join(ops))


def gen_shapes(rng, tier, allow_unknown):
    """family 2: explicit inputs in every accepted shape, with caller-supplied key / value that disagree with the wallet"""
    net, wk = rng.choice(HKINDS)
    lim = B().LIMITS[net]
    nk = nkeys(wk)
    o = good_oracle(rng, lim)
    items = mk_view(rng, wk, rng.randrange(2, 6), lim, with_acct1=rng.random() < 0.2)
    ops = init_ops(rng, items)
    fee = typical_fee(lim)
    for _ in range(rng.randrange(1, 4)):
        pick = rng.sample(items, rng.randrange(1, min(3, len(items)) + 1))
        toks, real, claimed = [], 0, 0
        for (i, v, c, k) in pick:
            shape = rng.choice(['2', '3', '4', '4', '4', 'a', 'o', 'o'])
            claim = rng.choice([v, 2 * v, v // 2, 0, None, v + 1, v - 1, 10 ** 12, 3 * v])
            key = rng.choice([k, k, (k + 1) % nk, 'X', 'N'])
            if shape == '2':
                key, claim = 'N', None
            elif shape == '3':
                claim = None
            elif shape == 'o':
                key = 'N'
            toks.append('%d:%s:%s:%s' % (i, shape, key, 'N' if claim is None else claim))
            real += v
            claimed += claim if claim else v
        if allow_unknown and wk.split(',')[1] == '0' and rng.random() < 0.15:
            # an outpoint the wallet has never heard of, with an address of the wallet and a value (offline use)
            v = B().logu(rng, 10000, 10 ** 9)
            toks.append('%d:a:%d:%d' % (rng.randrange(900, 990), rng.randrange(min(nk, 2)), v))
            claimed += v
        if rng.random() < 0.04:
            toks.append('%d:2:N:N' % rng.randrange(900, 990))           # unknown, nothing known about it: must be refused
        r = rng.random()
        if r < 0.35 or claimed == real:
            target = max(1, int(real * rng.uniform(0.1, 0.98)))
        elif r < 0.7:
            lo, hi = sorted((real, claimed))
            target = rng.randrange(lo, hi + 1)                            # between the real and the claimed total
        else:
            target = max(1, claimed - rng.choice([0, fee, 2 * fee, 50 * fee]))
        feetok = rng.choice(['none', 'none', 'i%d' % fee, 'i%d' % (2 * fee)])
        outs = tok_outs(rng, net, [target])
        kw = dict(inputs=','.join(toks), fee=feetok, k=rng.choice([1, 1, 2, 0]), shuf=rng.randrange(2),
                  rbf=rng.randrange(2) if rng.random() < 0.3 else 0, lt=rng.choice([0, 0, 500000]))
        if rng.random() < 0.5:
            ops.append(op_create(outs, o, **kw))
        else:
            ops.append(op_send(outs, o, bc=rng.randrange(2), **kw))
            if rng.random() < 0.5:
                ops.append(op_create(tok_outs(rng, net, [max(1, real // 7)]), o, fee='i%d' % fee))
    return '%s %s' % (header(net, wk), ' '.join(ops))


def gen_args(rng, tier):
    """family 3: send / send_to / sweep with every argument away from its default, on UTXO sets with a DECOY: an output
    that violates one of the constraints (too few confirmations, other key, other account) and would be the natural
    pick, while the admissible outputs cover the amount only together"""
    hd = [k for k in HKINDS if nkeys(k[1]) == 4]
    net, wk = rng.choice(hd if rng.random() < 0.75 else HKINDS)
    lim = B().LIMITS[net]
    nk = nkeys(wk)
    pub = 1 if (nk == 4 and rng.random() < 0.15) else 0
    fee = typical_fee(lim)
    minc = rng.choice([0, 1, 2, 2, 6, 6])
    constraint = rng.choice(['conf', 'conf', 'key', 'acct', 'none'] if nk == 4 and not pub else ['conf', 'conf', 'key', 'none'] if nk >= 2 else ['conf', 'none'])
    if constraint == 'conf' and minc == 0:
        minc = rng.choice([2, 6])
    base = B().logu(rng, 40 * max(lim[0], 1000), 10 ** 8)
    n_ok = rng.randrange(2, 5)
    acct = '1' if (constraint == 'acct' or (nk == 4 and not pub and rng.random() < 0.3)) else rng.choice(['N', '0'])
    a = 1 if acct == '1' else 0
    mykeys = [2, 3] if a == 1 else list(range(min(nk, 2)))
    okconf = lambda: rng.choice([minc, minc, minc + 1, minc + 4, 10]) if minc else rng.choice([0, 1, 5])
    items, ident = [], iter(range(0, 40))
    keys = '-'
    kf = None
    if constraint == 'key' or rng.random() < 0.25:
        kf = rng.choice(mykeys)
        keys = rng.choice(['i%d' % kf, 'l%d' % kf])
        if rng.random() < 0.15 and len(mykeys) > 1:
            keys, kf = 'l%s' % ','.join(str(x) for x in mykeys), None
    for _ in range(n_ok):
        items.append((next(ident), base + rng.randrange(-2000, 2000) if rng.random() < 0.6 else int(base * rng.uniform(0.4, 1.0)),
                      okconf(), kf if kf is not None else rng.choice(mykeys)))
    good_total = sum(x[1] for x in items)
    good_max = max(x[1] for x in items)
    # decoys
    nd = rng.randrange(1, 3)
    for _ in range(nd):
        v = int(good_total * rng.uniform(1.0, 3.0)) if rng.random() < 0.7 else int(base * rng.uniform(0.5, 1.5))
        if constraint == 'conf':
            items.append((next(ident), v, rng.choice([minc - 1, 1, minc - 1, 0]) if minc > 1 else 0, kf if kf is not None else rng.choice(mykeys)))
        elif constraint == 'key' and kf is not None and len(mykeys) > 1:
            items.append((next(ident), v, 10, [x for x in mykeys if x != kf][0]))
        elif constraint == 'acct':
            items.append((next(ident), v, 10, rng.randrange(2)))
        elif rng.random() < 0.5:
            items.append((next(ident), v, okconf(), kf if kf is not None else rng.choice(mykeys)))
    rng.shuffle(items)
    ops = []
    for acc in (0, 1):
        sub = [x for x in items if acct_of_key(x[3]) == acc]
        if sub:
            ops.append(op_update(rng.choice('px'), str(acc) if acc else rng.choice(['N', '0']), rng.randrange(2), sub))
    for _ in range(rng.randrange(1, 3)):
        o = good_oracle(rng, lim)
        r = rng.random()
        if r < 0.6:
            amount = rng.randrange(good_max + 1, max(good_max + 2, good_total - 30 * fee)) if good_total - 30 * fee > good_max + 2 \
                else max(1, good_max // 2)
        elif r < 0.85:
            amount = max(1, int(good_total * rng.uniform(0.05, 1.0)))
        else:
            amount = max(1, int(good_total * rng.uniform(1.0, 2.5)))        # more than the admissible outputs hold
        nrec = rng.choice([1, 1, 2])
        amounts = [amount] if nrec == 1 else [amount // 3, amount - amount // 3]
        maxu = rng.choice(['N', 'N', '0', '2', '3', '5', '1'])
        lt = rng.choice([0, 0, 1, 500000, 1700000000])
        rbf = rng.randrange(2)
        k = rng.choice([0, 0, 0, 0, 2, 3, 1, 5])
        feetok = 'none' if rng.random() < 0.8 else rng.choice(['named', 'i%d' % fee])
        bc = 1 if rng.random() < 0.5 else 0
        pk = 1 if (pub and rng.random() < 0.8) else (1 if rng.random() < 0.1 and nk == 4 and a == 0 else 0)
        r = rng.random()
        if r < 0.72:
            via = 't' if (nrec == 1 and rng.random() < 0.35) else 's'
            ops.append(op_send(tok_outs(rng, net, amounts), o, fee=feetok, minc=minc, maxu='N' if via == 't' else maxu, k=k,
                               keys=keys, acct=acct, lt=lt, rbf=rbf, shuf=rng.randrange(2), bc=bc, pk=pk, via=via))
        elif r < 0.85:
            ops.append(op_create(tok_outs(rng, net, amounts), o, fee=feetok, minc=minc, maxu=maxu, k=k, keys=keys, acct=acct,
                                 lt=lt, rbf=rbf, shuf=rng.randrange(2)))
        else:
            single = rng.randrange(2)
            tg = tok_outs(rng, net, [0]) if single else tok_outs(rng, net, [max(1, good_total // 5), 0])
            ops.append(op_sweep(single, tg, o, fee=rng.choice(['none', 'named', 'i%d' % (4 * fee)]),
                                fpk=rng.choice(['N', str(B().logu(rng, lim[1], lim[2]))]), minc=minc,
                                maxu=rng.choice([999, 2, 3, 1]), keys=keys, acct=acct, lt=lt, rbf=rbf, bc=bc, pk=pk))
        if bc and rng.random() < 0.4:
            ops.append(rng.choice(['r', op_update('x', acct, 0, [x for x in items if acct_of_key(x[3]) == a])]))
    return '%s %s' % (header(net, wk, pub, rng.choice([800000, 800000, 0, 123456])), ' '.join(ops))


CODE = {'bitcoinlib_test': 'TST', 'bitcoin': 'BTC', 'litecoin': 'LTC'}       # currency codes (frozen here)


def form_tok(rng, net, script, n, how, sym=None):
    """recipient token script:amount:change:form; the text names exactly n smallest units"""
    import props.c17 as c17
    if how in 'svSV':
        if sym is None:
            sym = rng.choice(['', '', '', '', 'sat', 'm', 'm', 'µ'])
        r = rng.random()
        # without a currency code the library reads the text in its default network (bitcoin)
        code = CODE[net] if (r < 0.8 or sym != '' or net != 'bitcoin') else ''
        text = c17.amount_str(n, sym, code, ' ', trim=rng.random() < 0.8).strip()
        if sym == 'sat' and net == 'bitcoin' and rng.random() < 0.5:
            text = '%d sat' % n
        return '%s:%d:0:%s%s' % (script.hex(), n, how, text.encode('utf8').hex())
    if how in 'If':
        return '%s:%d:0:%s' % (script.hex(), n, how)
    return '%s:%d:0' % (script.hex(), n)


def pick_amount(rng, hi):
    """decimal amounts whose binary64 quotient by 1e-8 lies just below / above a whole number: k/100, k/1000, k/10 of the
    main unit, random 8-decimal amounts, amounts one unit around them"""
    r = rng.random()
    if r < 0.3:
        n = rng.randrange(1, 1000) * 10 ** 6
    elif r < 0.5:
        n = rng.randrange(1, 10000) * 10 ** 5
    elif r < 0.55:
        n = rng.randrange(1, 100) * 10 ** 7
    elif r < 0.9:
        n = rng.randrange(1000, 10 ** 9)
    else:
        n = rng.choice([29000000, 57000000, 58000000, 112681006, 203489073, 851872643, 115000000, 1001, 100000000])
    while n >= hi:
        n //= 10
    return max(n, 1001)


def gen_amounts(rng, tier):
    """family 4: the recipient amount in every accepted form (int, whole float, value string with / without denominator
    symbol and currency code, Value object; inside (address, amount) tuples and inside Output objects) through send_to /
    send / transaction_create"""
    net, wk = rng.choice(HKINDS)
    lim = B().LIMITS[net]
    o = good_oracle(rng, lim)
    fee = typical_fee(lim)
    n = rng.randrange(2, 5)
    items = [(i, 10 ** 9 + rng.randrange(10 ** 8), rng.choice([1, 3, 10]), rng.randrange(min(nkeys(wk), 2))) for i in range(n)]
    ops = [op_update(rng.choice('px'), rng.choice(['N', '0']), 0, items)]
    for _ in range(rng.randrange(1, 4)):
        via = rng.choice(['t', 's', 's', 'c'])
        nrec = 1 if via == 't' else rng.choice([1, 1, 2, 3])
        toks = []
        for _j in range(nrec):
            how = rng.choice(['s', 's', 's', 'v', 'v', 'f', 'i'] if via == 't' else ['s', 's', 's', 'v', 'v', 'S', 'V', 'I', 'f', 'i'])
            toks.append(form_tok(rng, net, B().rand_script(rng, net), pick_amount(rng, 4 * 10 ** 8), how))
        kw = dict(fee=rng.choice(['none', 'i%d' % fee, 'i%d' % (3 * fee)]), k=rng.choice([1, 1, 2, 0]), shuf=rng.randrange(2),
                  minc=rng.choice([0, 1]))
        if via == 'c':
            ops.append(op_create(';'.join(toks), o, **kw))
        else:
            bc = rng.randrange(2)
            ops.append(op_send(';'.join(toks), o, bc=bc, via=via, **kw))
            if bc and rng.random() < 0.6:
                ops.append(op_update('x', 'N', 0, [(i, v, c + 1, k) for (i, v, c, k) in items]))
    return '%s %s' % (header(net, wk), ' '.join(ops))


def gen_conflict(rng, tier):
    """family 5: CONFLICTING stored transactions: two (three) broadcast transactions spend the same output (the second is
    built with an explicit input list, replace-by-fee), then transaction_delete / WalletTransaction.delete / bumpfee of
    either one in both orders, listings and re-opening in between, then creations that need the contested output"""
    hk = [x for x in HKINDS if x[1].split(',')[1] == '0']
    net, wk = rng.choice(hk if rng.random() < 0.85 else HKINDS)
    ms = wk.split(',')[1] == '1'
    lim = B().LIMITS[net]
    o = good_oracle(rng, lim)
    fee = typical_fee(lim)
    n = rng.randrange(3, 6)
    lo = 200 * max(lim[0], 1000, fee)
    items = [(i, B().logu(rng, lo, 50 * lo), rng.choice([1, 2, 3, 6, 10]), rng.randrange(min(nkeys(wk), 2))) for i in range(n)]
    ops = [op_update(rng.choice('px'), rng.choice(['N', '0']), rng.randrange(2), items)]
    contested = rng.sample(items, rng.randrange(1, 3))
    rest = [x for x in items if x not in contested]

    def spend(pick, mul, rbf=1, bc=1):
        tot = sum(x[1] for x in pick)
        inp = ','.join('%d:%s:N:N' % (x[0], rng.choice(['2', '2', 'o'])) for x in pick)
        return op_send(tok_outs(rng, net, [max(1, int(tot * rng.uniform(0.2, 0.8)))]), o, inputs=inp, fee='i%d' % (mul * fee),
                       k=rng.choice([1, 1, 2]), bc=bc, rbf=rbf, shuf=rng.randrange(2))
    stored = []
    # the original
    r = rng.random()
    if r < 0.6:
        ops.append(spend(contested, 1))
    else:
        # automatic selection that needs everything
        tot = sum(x[1] for x in items)
        ops.append(op_send(tok_outs(rng, net, [int(tot * 0.9)]), o, fee='i%d' % fee, bc=1, rbf=1, minc=0))
    stored.append(len(ops) - 1)
    if rng.random() < 0.2:
        ops.append(rng.choice(['r', op_update('x', 'N', 0, items)]))
    # the conflicting one(s)
    for j in range(rng.choice([1, 1, 1, 2])):
        r = rng.random()
        pick = list(contested) if r < 0.5 else (contested[:1] + rng.sample(rest, min(len(rest), 1)) if r < 0.8 else
                                                 contested + rng.sample(rest, min(len(rest), 1)))
        ops.append(spend(pick, 2 + j))
        stored.append(len(ops) - 1)
    if not ms and rng.random() < 0.25:
        ops.append('b~0~%d~1' % B().logu(rng, 300, 5000))          # replaces the transaction stored LAST
        stored.append(len(ops) - 1)
    order = list(stored)
    if rng.random() < 0.6:
        order.sort()                                                # the one stored FIRST goes first
    else:
        rng.shuffle(order)
    total = sum(x[1] for x in items)
    for p_ in order[:rng.randrange(1, len(order) + 1)] + ([rng.choice(stored)] if rng.random() < 0.15 else []):
        ops.append('d~%d~%s' % (p_, rng.choice('wo')))
        r = rng.random()
        if r < 0.3:
            ops.append(op_update(rng.choice('px'), rng.choice(['N', '0']), rng.randrange(2), items))
        elif r < 0.4:
            ops.append('r')
        r = rng.random()
        bc = 1 if rng.random() < 0.3 else 0
        if r < 0.45:
            amount = int(total * rng.uniform(0.55, 0.97))
            ops.append(op_send(tok_outs(rng, net, [amount]), o, fee=rng.choice(['none', 'i%d' % fee]), minc=rng.choice([0, 1]),
                               bc=bc, k=rng.choice([1, 2]), via=rng.choice('st')))
        elif r < 0.8:
            ops.append(op_sweep(1, tok_outs(rng, net, [0]), o, fee=rng.choice(['none', 'i%d' % (3 * fee)]), minc=rng.choice([0, 1]), bc=bc))
        else:
            ops.append(op_create(tok_outs(rng, net, [int(total * rng.uniform(0.3, 0.9))]), o, fee='i%d' % fee, minc=rng.choice([0, 1])))
        if bc:
            stored.append(len(ops) - 1)
    return '%s %s' % (header(net, wk), ' '.join(ops))


def gen_hist_cases(rng, tier, allow_unknown, allow_ms_bump=False):
    from core import Case
    n1, n2, n3 = (1500, 1500, 2500) if tier == 'thorough' else (70, 70, 120)
    cs = []
    # the shape of the demo histories of the recorded seeds (two-input broadcast, then the provider lists the outputs again)
    w = '0014' + '11' * 20
    cs.append(Case('hist', 'hist bitcoinlib_test S,0,1,1,0 0 800000 u~x~N~1~0:100000000:10:0;1:100000000:10:1;2:100000000:10:0 '
                           's~%s:150000000:0~N~i10000~1~N~1~-~N~0~0~0~33333,33333,0,0,-~33333,33333,0,0,-~1~0~s '
                           'u~p~N~1~0:100000000:10:0;1:100000000:10:1;2:100000000:10:0 '
                           's~%s:60000000:0~N~i10000~1~N~1~-~N~0~0~0~33333,33333,0,0,-~33333,33333,0,0,-~0~0~s' % (w, w)))
    for _ in range(n1):
        cs.append(Case('hist', gen_seq(rng, tier, allow_ms_bump)))
    for _ in range(n2):
        cs.append(Case('hist', gen_shapes(rng, tier, allow_unknown)))
    for _ in range(n3):
        cs.append(Case('hist', gen_args(rng, tier)))
    n4, n5 = (1500, 1200) if tier == 'thorough' else (60, 50)
    # amounts written as decimal text whose binary64 quotient by 1e-8 falls just below the whole number
    t1, t2 = '0.29 TST'.encode().hex(), '570000 µTST'.encode().hex()
    cs.append(Case('hist', 'hist bitcoinlib_test S,0,1,1,0 0 800000 u~x~N~0~0:1000000000:10:0;1:1000000000:10:1 '
                           's~%s:29000000:0:s%s~N~i10000~1~N~1~-~N~0~0~0~33333,33333,0,0,-~33333,33333,0,0,-~0~0~t '
                           'c~%s:57000000:0:V%s;%s:851872643:0:v%s~N~i10000~1~N~1~-~N~0~0~0~33333,33333,0,0,-'
                           % (w, t1, w, t2, '0014' + '22' * 20, '8.51872643 TST'.encode().hex())))
    for _ in range(n4):
        cs.append(Case('hist', gen_amounts(rng, tier)))
    for _ in range(n5):
        cs.append(Case('hist', gen_conflict(rng, tier)))
    return cs


# ---------------------------------------------------------------- model request / comparison
def model_req_hist(c, side):
    b = B()
    t = c.req.split(' ')
    net, wk, pub, bcount = t[1], t[2], t[3], t[4]
    out = ['hist', str(b.NETS.index(net)), wk, bcount, '%d/%d' % b.MULT, '%d/%d' % b.MULT2]
    sd = side.get(c.req) or {}
    for pos, tok in enumerate(t[5:]):
        f = tok.split('~')
        k = f[0]
        if k in ('c', 's') and f[1] != '-':
            f[1] = ';'.join(':'.join(x.split(':')[:3]) for x in f[1].split(';'))      # the model gets the exact amounts
        if k == 'w':
            f[2] = ';'.join(':'.join(x.split(':')[:3]) for x in f[2].split(';'))
        if k == 'c':
            out.append('~'.join(f[:11] + f[12:]))
        elif k == 'd':
            out.append('d~%s' % f[1])
        elif k == 's':
            sg = '1' if (pub == '0' or f[15] == '1') else '0'
            out.append('~'.join(f[:11] + [f[12], f[13], f[14], sg]))
        elif k == 'w':
            out.append('~'.join(f[:14] + ['1' if pub == '0' else '0']))      # sweep has no priv_keys argument
        elif k == 'u':
            out.append('u~%s~%s~%s' % (f[2], f[3], f[4]))
        elif k == 'a':
            key = int(f[1].split(':')[3])
            out.append('a~%d~%s' % (acct_of_key(key) if nkeys(wk) == 4 else 0, f[1]))
        elif k == 'b':
            pre = sd.get(str(pos))
            if pre:
                out.append('b~%s~%s~%s~%d~%s~%s~%d~%d' % (f[1], f[2], f[3], pre.get('sg', 1), pre['ins'], pre['outs'],
                                                          pre['fee'], pre['vsize']))
            else:
                out.append('b~%s~%s~%s~1~-~-~0~0' % (f[1], f[2], f[3]))
        else:
            out.append(tok)
    return ' '.join(out)


def _fields(main):
    d = {}
    for x in main.split(' ')[1:]:
        k, _, v = x.partition('=')
        d[k] = v
    return d


def _canon_op(opkind, ans):
    main, _, snap = ans.partition(' U=')
    if main.startswith('OK '):
        d = _fields(main)
        ins = sorted(d.get('in', '-').split(','))
        outs = sorted(d.get('out', '-').split(';'))
        if 'lt' in d:
            main = 'OK fee=%s change=%s vsize=%s in=%s out=%s lt=%s pushed=%s' % (
                d.get('fee'), d.get('change'), d.get('vsize') if opkind == 'c' else '', ','.join(ins), ';'.join(outs),
                d.get('lt'), d.get('pushed'))
        else:
            main = 'OK fee=%s in=%s out=%s pushed=%s' % (d.get('fee'), ','.join(ins), ';'.join(outs), d.get('pushed'))
    return main + ' U=' + snap


def same_hist(c, io, mo):
    kinds = [x[0] for x in c.req.split(' ')[5:]]
    a = io.split(' | ')[0].split(' @ ')
    m = mo.split(' @ ')
    if len(a) != len(kinds) or len(m) != len(kinds):
        return False
    return all(_canon_op(k, x) == _canon_op(k, y) for k, x, y in zip(kinds, a, m))


def first_difference(c, io, mo):
    kinds = [x[0] for x in c.req.split(' ')[5:]]
    a = io.split(' | ')[0].split(' @ ')
    m = mo.split(' @ ')
    for i, (k, x, y) in enumerate(zip(kinds, a, m)):
        if _canon_op(k, x) != _canon_op(k, y):
            return i, _canon_op(k, x), _canon_op(k, y)
    return None


# ---------------------------------------------------------------- independent oracle
def parse_raw2(h):
    """independent parser: ([(txid, n, sequence)], [(value, script_hex)], locktime, txid of this transaction)"""
    b = bytes.fromhex(h)
    p = [4]

    def rd(n):
        x = b[p[0]:p[0] + n]
        if len(x) != n:
            raise ValueError('short')
        p[0] += n
        return x

    def vi():
        f = rd(1)[0]
        if f < 0xfd:
            return f
        return int.from_bytes(rd({0xfd: 2, 0xfe: 4, 0xff: 8}[f]), 'little')
    segwit = b[4] == 0 and b[5] == 1
    if segwit:
        p[0] = 6
    start = p[0]
    ins = []
    for _ in range(vi()):
        txid = rd(32)[::-1].hex()
        n = int.from_bytes(rd(4), 'little')
        rd(vi())
        ins.append((txid, n, int.from_bytes(rd(4), 'little')))
    outs = []
    for _ in range(vi()):
        v = int.from_bytes(rd(8), 'little')
        outs.append((v, rd(vi()).hex()))
    body = b[start:p[0]]
    lock = int.from_bytes(b[-4:], 'little')
    txid = hashlib.sha256(hashlib.sha256(b[:4] + body + b[-4:]).digest()).digest()[::-1].hex()
    return ins, outs, lock, txid


def _kv(s):
    d = {}
    if s and s != '-':
        for x in s.split(' '):
            k, _, v = x.partition('=')
            d[k] = v
    return d


class Books:
    """what the oracle knows about the wallet, from the request line and the raw transactions only"""

    def __init__(self):
        self.known = {}       # outpoint -> dict(value, acct, key)
        self.conf = {}        # txid -> confirmations the wallet was told
        self.unspent = set()  # outpoints the wallet may spend according to everything it was told
        self.consumed = {}    # outpoint -> txid of the live broadcast transaction of this wallet that spends it
        self.live = {}        # txid of a broadcast transaction -> dict(ins=[outpoints], own=[outpoints], acct)
        self.id2op = {}       # ids >= H_BASE -> outpoint (own outputs of broadcast transactions)
        self.unsent = set()   # broadcast transactions the wallet has dropped for a replacement it never sent

    def op_of_id(self, i):
        if i >= H_BASE:
            return self.id2op.get(i)
        return outpoint(i)

    def hear(self, acct, items, rescan, nk):
        if rescan:
            for op in list(self.unspent):
                if self.known[op]['acct'] == acct:
                    self.unspent.discard(op)
        for (i, v, c, k) in items:
            op = self.op_of_id(i)
            if op is None:
                continue
            if op not in self.known:
                self.known[op] = dict(value=v, acct=acct, key=k)
            else:
                self.known[op]['key'] = k if i < H_BASE else self.known[op]['key']
            self.conf[op[0]] = c
            if op not in self.consumed:
                self.unspent.add(op)

    def broadcast(self, txid, ins, own, acct):
        self.live[txid] = dict(ins=list(ins), own=list(own), acct=acct)
        for op in ins:
            self.consumed[op] = txid
            self.unspent.discard(op)
        for (op, v) in own:
            self.known[op] = dict(value=v, acct=acct, key=-1)
            self.unspent.add(op)
        self.conf[txid] = 0

    def replace(self, txid):
        """the wallet drops its broadcast transaction txid (fee bump): what it consumed is released, what it made is gone"""
        tx = self.live.pop(txid, None)
        if not tx:
            return
        for op in tx['ins']:
            if self.consumed.get(op) == txid:
                del self.consumed[op]
                others = [t for t, x in self.live.items() if op in x['ins']]
                if others:
                    self.consumed[op] = others[0]
                elif op in self.known:
                    self.unspent.add(op)
        for (op, v) in tx['own']:
            self.known.pop(op, None)
            self.unspent.discard(op)


def amount_text(form):
    return bytes.fromhex(form[1:]).decode('utf8')


def exact_amount(x):
    """(script, exact number of smallest units requested, denominator symbol or None) of one recipient token
    script:amount:change[:form]; for the textual forms the amount is computed HERE from the text (decimal / Fraction
    arithmetic, frozen unit table of harness/props/c17.py), the integer field is not consulted"""
    p = x.split(':')
    if len(p) > 3 and p[3] and p[3][0] in 'svSV':
        import props.c17 as c17
        text = amount_text(p[3])
        q = c17.exact_units(text)
        if q is None or q.denominator != 1:
            raise ValueError('amount text %r does not denote a whole number of units' % text)
        return p[0], int(q), c17._unit_symbol(text)
    return p[0], int(p[1]), None


def den_class_known(sym):
    """the denominator symbol belongs to a float class recorded for C17 (class decision of harness/props/c17.py)"""
    if not sym:
        return False
    import props.c17 as c17
    cid = c17.CLASS_OF_SYM.get(sym)
    return cid is not None and 'den_' + cid in c17.KNOWN_CLASSES and c17.known_status('den_' + cid) == 'known'


def _items(tok):
    if tok == '-':
        return []
    return [tuple(int(y) for y in x.split(':')) for x in tok.split(';')]


def violated_hist(c, io):
    try:
        return _violated_hist(c, io)
    except Exception as e:        # an answer the oracle cannot even read is not a pass
        return [('unreadable', 'the oracle could not interpret the answer: %r' % (e,))]


def _violated_hist(c, io):
    b = B()
    t = c.req.split(' ')
    net, wk, pub, bcount = t[1], t[2], t[3], int(t[4])
    dust, fmin, fmax = b.LIMITS[net]
    nk = nkeys(wk)
    single = wk.split(',')[4] == '1'
    optoks = t[5:]
    if io.startswith('CRASH') or io == 'BADREQ' or ' | ' not in io:
        return [('crash', io[:120])]
    mains = io.split(' | ')[0].split(' @ ')
    extras = io.split(' | ')[1].split(' @ ')
    if len(mains) != len(optoks) or len(extras) != len(optoks):
        return [('crash', 'answer has %d parts for %d operations' % (len(mains), len(optoks)))]
    bk = Books()
    bad = []
    last = None       # dict(txid, pushed, recipients, acct) of the transaction object held by the caller
    for pos, (tok, ans, xs) in enumerate(zip(optoks, mains, extras)):
        f = tok.split('~')
        k = f[0]
        main, _, snap = ans.partition(' U=')
        ex = _kv(xs)
        where = 'op %d (%s): ' % (pos, k)
        if main.startswith('CRASH'):
            bad.append(('crash', where + main[:100]))
            continue
        if k == 'u':
            acct = 0 if f[2] == 'N' else int(f[2])
            if main.startswith('U '):
                bk.hear(acct, _items(f[4]), f[3] == '1', nk)
        elif k == 'a':
            it = _items(f[1])
            if main.startswith('U '):
                bk.hear(acct_of_key(it[0][3]) if nk == 4 else 0, it, False, nk)
        elif k == 'r':
            last = None
        elif k in ('c', 's', 'w') and main.startswith('OK '):
            bad += _judge_tx(bk, k, f, main, ex, where, net, wk, pub, bcount, dust, fmin, fmax, nk, single)
            d = _fields(main)
            try:
                rins, routs, lock, txid = parse_raw2(ex['raw'])
            except Exception:
                rins = None
            if rins is not None:
                acct = (0 if f[8] == 'N' else int(f[8]))
                pushed = d.get('pushed') == '1'
                wch = set(ex.get('wchange', '-').split(','))
                if pushed:
                    own = [((txid, n), v) for n, (v, sc) in enumerate(routs) if sc in wch]
                    bk.broadcast(txid, [(a, n) for (a, n, _) in rins], own, acct)
                    for nt in (ex.get('new', '-').split(',') if ex.get('new', '-') != '-' else []):
                        i, tx_, n, v = nt.split(':')
                        if tx_ == txid and int(n) < len(routs) and routs[int(n)][0] == int(v) and routs[int(n)][1] in wch:
                            bk.id2op[int(i)] = (txid, int(n))
                if k in ('s', 'w'):
                    last = dict(txid=txid, pushed=pushed, acct=acct, fee=int(d['fee']),
                                outs=[(v, sc) for (v, sc) in routs], wch=wch, ins=[(a, n) for (a, n, _) in rins])
        elif k in ('s', 'w'):
            last = last        # a refused request leaves the previous object with the caller
        elif k == 'd':
            if main == 'D':
                txid = ex.get('txid')
                if txid not in bk.live:
                    bad.append(('delete', where + 'the wallet deleted transaction %s which it never broadcast' % str(txid)[:12]))
                # the outputs this transaction consumed are released unless ANOTHER stored transaction spends them too
                bk.replace(txid)
                if last is not None and last['txid'] == txid:
                    last = None
            elif main == 'NOTX':
                txid = ex.get('txid')
                if txid and txid in bk.live:
                    bad.append(('delete', where + 'transaction %s is stored, the wallet says it is not found' % txid[:12]))
            else:
                bad.append(('delete', where + 'transaction_delete answered %s' % main[:60]))
        elif k == 'b':
            if main.startswith('OK ') and last is not None:
                bad += _judge_bump(bk, f, main, ex, where, last, dust)
                d = _fields(main)
                try:
                    rins, routs, lock, txid = parse_raw2(ex['raw'])
                except Exception:
                    rins = None
                if rins is not None:
                    pushed = d.get('pushed') == '1'
                    if last['pushed'] and f[3] == '1' and not pushed:
                        # a replacement was to be sent and was not (it does not verify): the transaction broadcast
                        # before is still the one the network has, what it consumed stays consumed
                        bk.unsent.add(last['txid'])
                    elif last['pushed']:
                        bk.replace(last['txid'])
                    wch = set(ex.get('wchange', '-').split(','))
                    if pushed:
                        own = [((txid, n), v) for n, (v, sc) in enumerate(routs) if sc in wch]
                        bk.broadcast(txid, [(a, n) for (a, n, _) in rins], own, last['acct'])
                        for nt in (ex.get('new', '-').split(',') if ex.get('new', '-') != '-' else []):
                            i, tx_, n, v = nt.split(':')
                            if tx_ == txid and int(n) < len(routs) and routs[int(n)][0] == int(v):
                                bk.id2op[int(i)] = (txid, int(n))
                    if last['pushed'] and not pushed:
                        last = None
                    else:
                        last = dict(txid=txid, pushed=pushed or last['pushed'], acct=last['acct'], fee=int(d['fee']),
                                    outs=list(routs), wch=wch, ins=[(a, n) for (a, n, _) in rins])
            elif not main.startswith('OK '):
                last = None
        # the wallet's own list of spendable outputs must never contain what its broadcast transactions consumed
        if snap and snap not in ('-', 'ERR'):
            for x in snap.split(','):
                i = int(x.split(':')[0])
                op = bk.op_of_id(i) if i >= 0 else None
                if op is not None and op in bk.consumed:
                    bad.append(('replacement_unsent' if bk.consumed[op] in bk.unsent else 'spendable_set', where + 'the wallet lists output %d (%s:%d) as unspent, its broadcast '
                                'transaction %s spends it' % (i, op[0][:12], op[1], bk.consumed[op][:12])))
                    break
        elif snap == 'ERR':
            bad.append(('crash', where + 'Wallet.utxos() failed'))
        if len(bad) >= 6:
            break
    return bad


def _explicit(tok):
    """[(id, shape, key, claim)] of an inputs token"""
    r = []
    for s in tok.split(','):
        i, shape, kk, claim = s.split(':')
        r.append((int(i), shape, kk, None if claim == 'N' else int(claim)))
    return r


def _judge_tx(bk, k, f, main, ex, where, net, wk, pub, bcount, dust, fmin, fmax, nk, single):
    bad = []
    d = _fields(main)
    fee = int(d['fee'])
    try:
        rins, routs, lock, txid = parse_raw2(ex['raw'])
    except Exception as e:
        return [('raw', where + 'raw() unreadable: %r' % (e,))]
    if k == 'w':
        explicit, inputs_tok, fee_tok, minc, maxu = False, 'N', f[3], int(f[5]), f[6]
        keys, acct_tok, lt, rbf = f[7], f[8], int(f[9]), f[10] == '1'
    else:
        inputs_tok, fee_tok, minc, maxu = f[2], f[3], int(f[4]), f[5]
        explicit = inputs_tok not in ('N', '-')
        keys, acct_tok, lt, rbf = f[7], f[8], int(f[9]), f[10] == '1'
        if k == 's' and f[16] == 't':
            maxu = 'N'
    acct = 0 if acct_tok == 'N' else int(acct_tok)
    ops = [(a, n) for (a, n, _) in rins]
    tag_in = 'explicit_inputs' if explicit else 'inputs'
    # ---- every input: an output of this wallet, distinct, currently unspent, confirmed as required, inside the
    #      requested account / keys
    unknown = [op for op in ops if op not in bk.known]
    if unknown:
        shapes = {outpoint(i): sh for (i, sh, kk, cl) in _explicit(inputs_tok)} if explicit else {}
        if all(shapes.get(op) == 'a' for op in unknown):
            bad.append(('explicit_unknown', where + 'input %s:%d is not an output this wallet knows of (the caller named an '
                        'address and a value)' % (unknown[0][0][:12], unknown[0][1])))
        else:
            bad.append(('inputs', where + 'input %s:%d is not an output of this wallet' % (unknown[0][0][:12], unknown[0][1])))
    if len(set(ops)) != len(ops):
        bad.append((tag_in, where + 'the same output is spent twice'))
    for op in ops:
        if op in bk.known and op not in bk.unspent:
            why = ('consumed by the broadcast transaction %s' % bk.consumed[op][:12]) if op in bk.consumed \
                else 'not listed as unspent any more'
            bad.append(('replacement_unsent' if bk.consumed.get(op) in bk.unsent else tag_in,
                        where + 'input %s:%d is not currently unspent (%s)' % (op[0][:12], op[1], why)))
            break
    if not explicit:
        for op in ops:
            if op not in bk.known:
                continue
            if bk.conf.get(op[0], 0) < minc:
                bad.append(('inputs', where + 'input %s:%d has %d confirmations, %d required' % (
                    op[0][:12], op[1], bk.conf.get(op[0], 0), minc)))
                break
        for op in ops:
            if op in bk.known and bk.known[op]['acct'] != acct:
                bad.append(('inputs', where + 'input %s:%d belongs to account %d, account %d was requested' % (
                    op[0][:12], op[1], bk.known[op]['acct'], acct)))
                break
        if keys != '-':
            want = set(int(x) for x in keys[1:].split(','))
            for op in ops:
                if op in bk.known and bk.known[op]['key'] not in want:
                    bad.append(('inputs', where + 'input %s:%d is an output of key %d, input_key_id=%s was requested' % (
                        op[0][:12], op[1], bk.known[op]['key'], keys)))
                    break
    # the key the transaction names for an input is the key of the output (not a key_id the caller wrote into a tuple)
    ik = ex.get('inkeys', '-')
    if ik != '-' and len(ik.split(',')) == len(ops):
        for op, kx in zip(ops, ik.split(',')):
            if op in bk.known and bk.known[op]['key'] >= 0 and int(kx) != -2 and int(kx) != bk.known[op]['key'] \
                    and not (nk == 1 and int(kx) == 0):
                bad.append(('input_key', where + 'input %s:%d is an output of key %d, the transaction unlocks it with key %s' % (
                    op[0][:12], op[1], bk.known[op]['key'], kx)))
                break
    if maxu not in ('N',) and int(maxu) > 0 and len(ops) > int(maxu):
        bad.append(('inputs', where + '%d inputs, max_utxos=%s' % (len(ops), maxu)))
    # ---- value conservation with the REAL values of the outputs spent
    tout = sum(v for v, _ in routs)
    if all(op in bk.known for op in ops):
        tin = sum(bk.known[op]['value'] for op in ops)
        if tin != tout + fee:
            bad.append(('conserve', where + 'inputs are worth %d, outputs %d + reported fee %d' % (tin, tout, fee)))
        rep = ex.get('invals', '-')
        if rep != '-':
            rv = sorted(int(x) for x in rep.split(','))
            if rv != sorted(bk.known[op]['value'] for op in ops):
                bad.append(('conserve', where + 'the transaction reports input values %r, the outputs spent are worth %r' % (
                    rv, sorted(bk.known[op]['value'] for op in ops))))
    elif explicit:
        # inputs unknown to the wallet: at least the caller's own figures must balance
        cl = {outpoint(i): c_ for (i, sh, kk, c_) in _explicit(inputs_tok)}
        tin = sum(bk.known[op]['value'] if op in bk.known else (cl.get(op) or 0) for op in ops)
        if tin != tout + fee:
            bad.append(('conserve', where + 'inputs %d != outputs %d + fee %d' % (tin, tout, fee)))
    if fee < 0:
        bad.append(('fee_negative', where + 'fee %d < 0' % fee))
    vs = int(ex.get('vsize', '0') or 0)
    if vs > 0 and fee >= 0:
        rate = fee * 1000 // vs
        if not (fmin <= rate <= fmax):
            bad.append(('rate', where + 'fee %d on vsize %d = %d per kB outside [%d, %d]' % (fee, vs, rate, fmin, fmax)))
    freq = int(fee_tok[1:]) if fee_tok[0] == 'i' else None
    if k != 'w' and freq is not None and freq > 0 and not (freq <= fee <= freq + max(dust, 0)):
        bad.append(('fee_request', where + 'fee %d requested, the transaction pays %d' % (freq, fee)))
    # ---- outputs
    wch = set(ex.get('wchange', '-').split(','))
    have = [(sc, v) for v, sc in routs]
    if any(v < 0 or v >= 2 ** 63 for v, _ in routs):
        bad.append(('negative_output', where + 'output value out of range'))
    if k == 'w':
        tg = [exact_amount(x)[:2] for x in f[2].split(';')]
        rest = list(have)
        if f[1] == '1':
            if len(have) != 1 or have[0][0] != tg[0][0]:
                bad.append(('recipients', where + 'sweep to one address produced outputs %r' % [(s[:12], v) for s, v in have]))
        else:
            for s, v in tg:
                if v != 0:
                    if (s, v) in rest:
                        rest.remove((s, v))
                    else:
                        bad.append(('recipients', where + 'sweep target %s:%d missing' % (s[:12], v)))
            zs = [s for s, v in tg if v == 0]
            for s, v in rest:
                if s in zs:
                    zs.remove(s)
                else:
                    bad.append(('recipients', where + 'sweep output %s:%d was not requested' % (s[:12], v)))
    else:
        want3 = [exact_amount(x) for x in f[1].split(';')] if f[1] != '-' else []
        want = [(sc, v) for (sc, v, sym) in want3]
        others = list(have)
        for (sc, v, sym), x in zip(want3, f[1].split(';') if f[1] != '-' else []):
            if (sc, v) in others:
                others.remove((sc, v))
            elif sym is not None:
                paid = [pv for (ps, pv) in others if ps == sc]
                bad.append(('amount_den_known' if den_class_known(sym) else 'recipients',
                            where + 'requested %r = %d for %s, the transaction pays %r' % (amount_text(x.split(':')[3]), v, sc[:12], paid)))
                if paid:
                    others.remove((sc, paid[0]))          # the same fact is not reported again as an unrequested output
            else:
                bad.append(('recipients', where + 'requested output %s:%d missing' % (sc[:12], v)))
        for s, v in others:
            if s not in wch:
                bad.append(('recipients', where + 'extra output %s:%d does not pay a change key of this wallet' % (s[:12], v)))
        if len(set(s for s, v in others)) != len(others):
            bad.append(('recipients', where + 'change key reused inside one transaction'))
        kreq = int(f[6])
        if kreq >= 1 and len(others) not in ((0, 1) if single else (0, kreq)):
            bad.append(('nchange', where + '%d change outputs, number_of_change_outputs=%d' % (len(others), kreq)))
        if kreq == 0 and len(others) > 5:
            bad.append(('nchange', where + '%d change outputs for a random number between 1 and 5' % len(others)))
        # insufficient funds must fail
        if explicit:
            avail = sum(bk.known[outpoint(i)]['value'] if outpoint(i) in bk.known else
                        ((c_ or 0) if sh == 'a' else 0) for (i, sh, kk, c_) in _explicit(inputs_tok))
        else:
            kw = None if keys == '-' else set(int(x) for x in keys[1:].split(','))
            avail = sum(bk.known[op]['value'] for op in bk.unspent
                        if bk.known[op]['acct'] == acct and bk.conf.get(op[0], 0) >= minc
                        and (kw is None or bk.known[op]['key'] in kw))
        if avail < sum(v for _, v in want) + (freq or 0):
            # outputs the wallet re-opened for a replacement it never sent explain the difference: same finding
            lost = sum(bk.known[op]['value'] for op, tx_ in bk.consumed.items() if tx_ in bk.unsent and op in bk.known)
            bad.append(('replacement_unsent' if (not explicit and avail + lost >= sum(v for _, v in want) + (freq or 0))
                        else 'insufficient', where + 'available %d < requested %d + requested fee %d, yet a transaction was returned'
                        % (avail, sum(v for _, v in want), freq or 0)))
    # ---- locktime and sequence numbers as requested
    want_lt = lt if lt else (bcount if bcount else 0)
    if lock != want_lt:
        bad.append(('locktime', where + 'nLockTime %d, requested %d' % (lock, want_lt)))
    dseq = SEQ_RBF if rbf else (SEQ_LOCK if 0 < want_lt < 0xffffffff else SEQ_MAX)
    objs = set(outpoint(i) for (i, sh, kk, c_) in _explicit(inputs_tok) if sh == 'o') if explicit else set()
    for (a, n, sq) in rins:
        if sq != ((SEQ_RBF if rbf else SEQ_MAX) if (a, n) in objs else dseq):
            bad.append(('sequence', where + 'input %s:%d has sequence %#x, expected %#x (replace_by_fee=%s, locktime=%d)' % (
                a[:12], n, sq, dseq, rbf, want_lt)))
            break
    # ---- signatures: with all private keys at hand the transaction returned by send / sweep is signed
    if k in ('s', 'w') and ex.get('ver') == '0' and (pub == '0' or (k == 's' and f[15] == '1')):
        bad.append(('unsigned', where + 'the transaction returned is not (completely) signed although the keys were available'))
    return bad


def _judge_bump(bk, f, main, ex, where, last, dust):
    bad = []
    d = _fields(main)
    fee = int(d['fee'])
    try:
        rins, routs, lock, txid = parse_raw2(ex['raw'])
    except Exception as e:
        return [('raw', where + 'raw() of the bumped transaction unreadable: %r' % (e,))]
    ops = [(a, n) for (a, n, _) in rins]
    if len(set(ops)) != len(ops):
        bad.append(('inputs', where + 'after bumpfee the same output is spent twice'))
    if any(op not in bk.known for op in ops):
        bad.append(('inputs', where + 'after bumpfee an input is not an output of this wallet'))
    else:
        tin = sum(bk.known[op]['value'] for op in ops)
        tout = sum(v for v, _ in routs)
        if tin != tout + fee:
            bad.append(('conserve', where + 'after bumpfee: inputs are worth %d, outputs %d + fee %d' % (tin, tout, fee)))
        # an input added by bumpfee must be spendable (the inputs of the replaced transaction are its own)
        mine = set(last['ins'])
        for op in ops:
            if op not in mine and op not in bk.unspent:
                bad.append(('inputs', where + 'bumpfee added input %s:%d which is not currently unspent' % (op[0][:12], op[1])))
                break
            if op not in mine and bk.conf.get(op[0], 0) < 1:
                bad.append(('inputs', where + 'bumpfee added input %s:%d which has no confirmation' % (op[0][:12], op[1])))
                break
    if fee < last['fee']:
        bad.append(('bump_fee', where + 'fee after bumpfee %d < fee before %d' % (fee, last['fee'])))
    if any(v < 0 or v >= 2 ** 63 for v, _ in routs):
        bad.append(('bump_negative_output', where + 'output value out of range after bumpfee'))
    before = [(v, sc) for (v, sc) in last['outs'] if sc not in last['wch']]
    after = [(v, sc) for (v, sc) in routs]
    for x in before:
        if after.count(x) < before.count(x):
            bad.append(('recipients', where + 'recipient %s:%d not paid any more after bumpfee' % (x[1][:12], x[0])))
            break
    return bad
