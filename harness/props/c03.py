"""C03 — HD key derivation conforms to BIP32; public and private derivation agree."""
import hashlib, hmac, os
from core import Case

PROP = 'C03'
COQ_FILES = ['Proofs/Bip32Construct.v', 'Extract/C03.v', 'Proofs/Bip32Glue.v', 'Proofs/Bip32Session.v', 'Properties/C03.v']
ESCALATE_CAP = 1500
DRIVER = 'c03'
IMPL = 'harness/impl/c03_impl.py'
ALLOWED_AXIOMS = []
ASSUMPTIONS = [
    'theorems are about coq/Model/Bip32.v: spec_* is CKDpriv/CKDpub/master generation/serialization written from the BIP32 text, '
    'generic over a group, an HMAC-SHA512 oracle and a HASH160 oracle; lib_* mirrors HDKey.from_seed/child_private/child_public/'
    'subkey_for_path/public()/fingerprint/wif() of bitcoinlib/keys.py for compressed keys as repaired by fixes/C03-1..7; '
    'tie to /repo: (a) the guards and flag handling of from_seed/child_private/child_public/subkey_for_path (comparison operators, '
    'thresholds, marker set, HMAC key, hardened-on-public raise, bare-M) are re-read from the source AST on every run '
    '(translator/gen_bip32.py -> Gen/GenBip32.v) and proved equal to the model (Proofs/Bip32Glue.v, theorem source_is_model); curve '
    'constants by Crypto/Secp256k1Glue.v; (b) differential correspondence of every lib_* function through the public API on each run',
    'ckd_commute and path_split are proved for ANY commutative group with Z-action and generator of order n (premise group_laws, '
    'visible in the statements) and ANY HMAC/HASH160/serP functions. The executable secp256k1 instance (Crypto/Secp256k1.v) is NOT '
    'proved to satisfy group_laws (associativity of the chord-tangent law, order of G; no elliptic-curve library installed): the '
    'instantiation to secp256k1 carries that premise. lib_is_spec, ckd_metadata, hardened_from_public_fails, path_markers, '
    'master_range are concrete and premise-free (they do not use group laws)',
    'modelled, not verified: the Gallina SHA-256/SHA-512/RIPEMD-160/HMAC transcriptions equal the standards (CRYPTO selftest + this '
    'correspondence); the y coordinate a derived public HDKey recomputes lazily from (x, parity) equals the y of the computed point '
    '(decompress o compress = id on curve points needs primality of p: C04); Python int() is modelled for ASCII items up to 4300 '
    'characters; uncompressed HD keys (compressed=False, the library warns they are non-standard), path_expand/wallet path templates '
    '(C09), non-bitcoin networks and import validation of extended-key strings (C12) are outside this model',
    'sessions (many calls on ONE HDKey object and on its public() copies / children): lib_session is a fold in which every request '
    'names the object it acts on; derivation_session_is_function / derivation_session_repeatable / public_copy_never_private say that '
    'every answer is the stateless lib_* function of the named object\'s key material, which never changes, and that nothing obtained '
    'from a public-only object carries or needs private material. The model has no hidden state by construction; that the LIBRARY has '
    'none is tied (a) statically: what the derivation methods, HDKey.__init__, public(), public_master, network_change write is re-read '
    'from the AST on every run and proved equal to the model\'s state (theorem source_is_stateless: no writes in the derivation methods, no '
    'cache attribute, deepcopy + cleared private fields), (b) dynamically: whole sessions are run on one live object per session and '
    'compared step by step (named object after the call, returned object) with the fold and with an independent BIP32 oracle. The '
    'wallet settings network / witness_type / multisig that network_change and public_master write on self are modelled as they are '
    '(public_master(multisig=True) marks the key as multisig for later calls; multisig=False does not unmark it); they select the account '
    'path and version bytes only. wif(child_index=n) is modelled as repaired by fixes/C03-8 (an export without side effect); the '
    'requests that pass child_index are generated when VERIF_C03_FIX8=1 (the code before the repair stores n in the object: finding 8). '
    'Not in the sessions: key_type single, uncompressed keys; network names other than bitcoin, '
    'testnet, litecoin (frozen SLIP-44 coin types and BIP32 version bytes in harness/props/c03.py)',
    'construction forms: Proofs/Bip32Construct.v lib_construct models what HDKey.__init__ keeps of what it is handed (key= / chain= '
    'keywords; 64 bytes key||chain; hex / bytes / int / WIF / BIP38 private key, hex / bytes / (x, y) public key with chain=; a Key or '
    'HDKey OBJECT with chain=, whose own chain code and metadata are not consulted; 32 zero bytes when a plain key comes without '
    'chain=); theorems construction_is_callers_key / construction_derives_callers_children / '
    'construction_ignores_imported_objects_chain; tied by correspondence only (every `ctor:` start token is evaluated by the '
    'extracted lib_construct and by the real constructor, with and without explicit depth / parent_fingerprint / child_index / '
    'is_private / compressed / key_type / network arguments, positional and import_key= keyword), not by a source-AST tie. Not '
    'decided here: HDKey(<HDKey object>) WITHOUT chain= (the library drops the object\'s chain code and uses 32 zero bytes), a '
    '128-character hex string of key||chain (read as a plain key), multisig=True next to a key format that implies multisig=False '
    '(get_key_format overrides the argument), uncompressed public keys',
    'lib_is_spec_sound needs public start keys with coordinates in [0,p) and a non-empty chain code; whether the library rejects a '
    'public key that is off the curve is left to fastecdsa (modelled: congruence test after reduction mod p)',
]
RULE = ('corpus (BIP32 test vectors 1-4, keys with leading-zero secrets), seeds of every length 16..64, boundary indices '
        '{0,1,2^31-1,2^31,2^31+1,2^32-1,2^32} x every marker spelling x m/M/no prefix x private/public/xprv-string/xpub-string start, '
        'every split point of random mixed paths of depth 0..10, direct child_private/child_public calls, malformed path strings; '
        'sessions of 6..40 calls on one object created from seed / passphrase / fields / xprv / xpub strings / from_wif with every network, '
        'witness type and multisig setting: derive - public() - same path in the same and in other spellings - original again, '
        'child_private/child_public with the same indices before and after public(), child then parent then child.public(), '
        'public_master / public_master_multisig with every argument, network_change and every export between derivations, random sessions; '
        'every construction form of the start key (key=/chain= keywords as bytes / hex / int, import_key with key=, 64 bytes key||chain, '
        'hex, hex+01, bytes, bytes+01, int, WIF, BIP38 + password, Key object made from hex / bytes / int / WIF / keywords and for another '
        'network, HDKey object with another / the same / a zero chain code, public hex / bytes / (x, y)) x optional arguments x '
        'BIP32 vector 1 master, a deep child, a leading-zero secret, a zero chain code (chain= given and omitted), public and private, '
        'as start of derive / child_private / child_public requests and of sessions on every network; '
        'non-trivial = the implementation returned a key; distinct by request')

VPRV, VPUB = '0488ade4', '0488b21e'
# fixes/C03-8 (wif(child_index=n) no longer stores n in the key object): '1' once the repair is in /repo.  With '0' the
# requests that call wif() with the child_index argument are not generated (the unrepaired code fails them: finding 8).
FIX8 = os.environ.get('VERIF_C03_FIX8', '1') == '1'

# ---------------------------------------------------------------- independent BIP32 (from the BIP text)
P = 2 ** 256 - 2 ** 32 - 977
N = 0xFFFFFFFFFFFFFFFFFFFFFFFFFFFFFFFEBAAEDCE6AF48A03BBFD25E8CD0364141
GX = 0x79BE667EF9DCBBAC55A06295CE870B07029BFCDB2DCE28D959F2815B16F81798
GY = 0x483ADA7726A3C4655DA4FBFC0E1108A8FD17B448A68554199C47D08FFB10D4B8
H31 = 1 << 31


def _jdbl(p):
    x, y, z = p
    if y == 0 or z == 0:
        return (0, 1, 0)
    s = 4 * x * y * y % P
    m = 3 * x * x % P
    x2 = (m * m - 2 * s) % P
    y2 = (m * (s - x2) - 8 * pow(y, 4, P)) % P
    return (x2, y2, 2 * y * z % P)


def _jadd_affine(p, q):
    """Jacobian p + affine q (q finite)."""
    x1, y1, z1 = p
    if z1 == 0:
        return (q[0], q[1], 1)
    z2 = z1 * z1 % P
    u2 = q[0] * z2 % P
    s2 = q[1] * z2 * z1 % P
    if u2 == x1:
        if s2 != y1:
            return (0, 1, 0)
        return _jdbl(p)
    h = (u2 - x1) % P
    r = (s2 - y1) % P
    h2 = h * h % P
    h3 = h2 * h % P
    x3 = (r * r - h3 - 2 * x1 * h2) % P
    y3 = (r * (x1 * h2 - x3) - y1 * h3) % P
    return (x3, y3, h * z1 % P)


def _affine(p):
    if p[2] == 0:
        return None
    zi = pow(p[2], -1, P)
    return (p[0] * zi * zi % P, p[1] * zi * zi * zi % P)


_GTAB = []


def _gtab():
    if not _GTAB:
        q = (GX, GY, 1)
        for _ in range(256):
            _GTAB.append(_affine(q))
            q = _jdbl(q)
    return _GTAB


def mul_g(k):
    """k*G for 0 <= k < 2^256 (None = infinity)."""
    t = _gtab()
    acc = (0, 1, 0)
    i = 0
    while k:
        if k & 1:
            acc = _jadd_affine(acc, t[i])
        k >>= 1
        i += 1
    return _affine(acc)


def add_pts(a, b):
    if a is None:
        return b
    if b is None:
        return a
    return _affine(_jadd_affine((a[0], a[1], 1), b))


def ser_p(pt):
    return bytes([2 + (pt[1] & 1)]) + pt[0].to_bytes(32, 'big')


def on_curve(pt):
    return pt is not None and 0 <= pt[0] < P and 0 <= pt[1] < P and (pt[1] * pt[1] - pt[0] ** 3 - 7) % P == 0


def decompress(b):
    x = int.from_bytes(b[1:], 'big')
    if x >= P or b[0] not in (2, 3):
        return None
    a = (pow(x, 3, P) + 7) % P
    y = pow(a, (P + 1) // 4, P)
    if y * y % P != a:
        return None
    if (y & 1) != (b[0] & 1):
        y = P - y
    return (x, y)


def h160(b):
    return hashlib.new('ripemd160', hashlib.sha256(b).digest()).digest()


class XK:
    """extended key: k (int) or None, K (point), c, depth, fingerprint of parent, child number"""
    __slots__ = ('k', 'K', 'c', 'depth', 'pfp', 'idx')

    def __init__(self, k, K, c, depth, pfp, idx):
        self.k, self.K, self.c, self.depth, self.pfp, self.idx = k, K, c, depth, pfp, idx

    def neuter(self):
        return XK(None, self.K, self.c, self.depth, self.pfp, self.idx)


def master(seed):
    i = hmac.new(b'Bitcoin seed', seed, hashlib.sha512).digest()
    il = int.from_bytes(i[:32], 'big')
    if il == 0 or il >= N:
        return None
    return XK(il, mul_g(il), i[32:], 0, b'\0\0\0\0', 0)


def ckd(x, i):
    """CKDpriv for private parents, CKDpub for public ones; None = invalid / failure."""
    if x is None or not 0 <= i < (1 << 32):
        return None
    if x.k is not None:
        data = (b'\0' + x.k.to_bytes(32, 'big') if i >= H31 else ser_p(x.K)) + i.to_bytes(4, 'big')
    else:
        if i >= H31:
            return None
        data = ser_p(x.K) + i.to_bytes(4, 'big')
    I = hmac.new(x.c, data, hashlib.sha512).digest()
    il = int.from_bytes(I[:32], 'big')
    if il >= N:
        return None
    fp = h160(ser_p(x.K))[:4]
    if x.k is not None:
        k2 = (il + x.k) % N
        if k2 == 0:
            return None
        return XK(k2, mul_g(k2), I[32:], x.depth + 1, fp, i)
    K2 = add_pts(mul_g(il), x.K)
    if K2 is None:
        return None
    return XK(None, K2, I[32:], x.depth + 1, fp, i)


B58 = '123456789ABCDEFGHJKLMNPQRSTUVWXYZabcdefghijkmnopqrstuvwxyz'


def b58check(raw):
    raw = raw + hashlib.sha256(hashlib.sha256(raw).digest()).digest()[:4]
    v = int.from_bytes(raw, 'big')
    s = ''
    while v:
        v, r = divmod(v, 58)
        s = B58[r] + s
    return '1' * (len(raw) - len(raw.lstrip(b'\0'))) + s


def ser_x(x, private):
    if not (0 <= x.depth < 256 and 0 <= x.idx < (1 << 32)):
        return 'ERR'
    head = x.depth.to_bytes(1, 'big') + x.pfp + x.idx.to_bytes(4, 'big') + x.c
    if private:
        return b58check(bytes.fromhex(VPRV) + head + b'\0' + x.k.to_bytes(32, 'big'))
    return b58check(bytes.fromhex(VPUB) + head + ser_p(x.K))


def show(x, w=True):
    if x is None:
        return 'ERR'
    return ' '.join([('%064x' % x.k) if x.k is not None else '-', ser_p(x.K).hex(), x.c.hex() or '-', str(x.depth), str(x.idx),
                     x.pfp.hex() or '-', 'x' if not w else ser_x(x, True) if x.k is not None else '-',
                     ser_x(x, False) if w else 'x'])


MARKERS = "'HhPp"


def parse_path(path):
    """BIP32 path notation -> (starts_public, [indices]) or None; numbers read as Python reads them."""
    items = path.split('/')
    pub = False
    if items[0] == 'm':
        items = items[1:]
    elif items[0] == 'M':
        items, pub = items[1:], True
    out = []
    for it in items:
        if not it:
            return None
        marked = it[-1] in MARKERS
        if marked:
            it = it[:-1]
        try:
            v = int(it)
        except ValueError:
            return None
        if v < 0 or (marked and v >= H31):
            return None
        out.append(v + H31 if marked else v)
    return pub, out


def key_of_tok(t):
    p = t.split(':')
    if p[0] in ('seed', 'seedpub'):
        x = master(bytes.fromhex(p[1]))
        return x.neuter() if (x is not None and p[0] == 'seedpub') else x
    if p[0] == 'phrase':
        return master(bytes.fromhex(p[3]))
    if p[0] in ('xstr', 'xwif'):
        p = p[2:]
    if p[0] == 'ctor':
        p = p[4:]                      # whatever the construction form: the key the caller specified
    kind, k, c, d, f, i = p
    c = b'' if c == '-' else bytes.fromhex(c)
    f = b'' if f == '-' else bytes.fromhex(f)
    if kind == 'prv':
        kk = int(k, 16)
        return XK(kk, mul_g(kk), c, int(d), f, int(i))
    K = decompress(bytes.fromhex(k))
    if K is None:
        return 'offcurve'
    return XK(None, K, c, int(d), f, int(i))


def derive(x, pub, idxs):
    if pub:
        x = x.neuter()
    for i in idxs:
        x = ckd(x, i)
        if x is None:
            return None
    return x


# ---------------------------------------------------------------- generators
def hp(s):
    return s.encode().hex() or '-'


def rand_bytes(rng, n):
    return bytes(rng.randrange(256) for _ in range(n))


BOUND = [0, 1, H31 - 1, H31, H31 + 1, (1 << 32) - 1]
VECTORS = [
    ('000102030405060708090a0b0c0d0e0f', ["0'", '1', "2'", '2', '1000000000']),
    ('fffcf9f6f3f0edeae7e4e1dedbd8d5d2cfccc9c6c3c0bdbab7b4b1aeaba8a5a29f9c999693908d8a8784817e7b7875726f6c696663605d5a5754514e4b484542',
     ['0', "2147483647'", '1', "2147483646'", '2']),
    ('4b381541583be4423346c643850da4b320e46a87ae3d2a4e6da11eba819cd4acba45d239319ac14f863b8d5ab5a0d0c64d2e8a1e7d1457df2e5a3c51c73235be',
     ["0'"]),
    ('3ddd5602285899a946114506157c7997e5444528f3003f6134712147db19b678', ["0'", "1'"]),
]
# strings of the BIP32 text (test vectors 1-3), checked against the independent implementation in gen_cases
VECTOR_STRINGS = {
    ('000102030405060708090a0b0c0d0e0f', 'm'): (
        'xprv9s21ZrQH143K3QTDL4LXw2F7HEK3wJUD2nW2nRk4stbPy6cq3jPPqjiChkVvvNKmPGJxWUtg6LnF5kejMRNNU3TGtRBeJgk33yuGBxrMPHi',
        'xpub661MyMwAqRbcFtXgS5sYJABqqG9YLmC4Q1Rdap9gSE8NqtwybGhePY2gZ29ESFjqJoCu1Rupje8YtGqsefD265TMg7usUDFdp6W1EGMcet8'),
    ('000102030405060708090a0b0c0d0e0f', "m/0'/1/2'/2/1000000000"): (
        'xprvA41z7zogVVwxVSgdKUHDy1SKmdb533PjDz7J6N6mV6uS3ze1ai8FHa8kmHScGpWmj4WggLyQjgPie1rFSruoUihUZREPSL39UNdE3BBDu76',
        'xpub6H1LXWLaKsWFhvm6RVpEL9P4KfRZSW7abD2ttkWP3SSQvnyA8FSVqNTEcYFgJS2UaFcxupHiYkro49S8yGasTvXEYBVPamhGW6cFJodrTHy'),
    (VECTORS[2][0], 'm'): (
        'xprv9s21ZrQH143K25QhxbucbDDuQ4naNntJRi4KUfWT7xo4EKsHt2QJDu7KXp1A3u7Bi1j8ph3EGsZ9Xvz9dGuVrtHHs7pXeTzjuxBrCmmhgC6',
        'xpub661MyMwAqRbcEZVB4dScxMAdx6d4nFc9nvyvH3v4gJL378CSRZiYmhRoP7mBy6gSPSCYk6SzXPTf3ND1cZAceL7SfJ1Z3GC8vBgp2epUt13'),
}


def fields_of(x, private):
    if private:
        return 'prv:%064x:%s:%d:%s:%d' % (x.k, x.c.hex(), x.depth, x.pfp.hex(), x.idx)
    return 'pub:%s:%s:%d:%s:%d' % (ser_p(x.K).hex(), x.c.hex(), x.depth, x.pfp.hex(), x.idx)


def start_forms(x):
    """the same key presented as fields / as extended-key string, private and public"""
    out = [fields_of(x.neuter(), False), 'xstr:%s:%s' % (ser_x(x, False), fields_of(x.neuter(), False))]
    if x.k is not None:
        out += [fields_of(x, True), 'xstr:%s:%s' % (ser_x(x, True), fields_of(x, True))]
    return out


# ---- construction forms: every way HDKey(...) accepts the key material (k, c) and the metadata
# WIF version bytes (chainparams base58Prefixes[SECRET_KEY]), frozen
WIF_VERSION = {'bitcoin': 0x80, 'testnet': 0xef, 'litecoin': 0xb0}
# BIP38 test vectors of the BIP text (no EC multiply, compressed): (encrypted key, passphrase, secret)
BIP38_VECTORS = [
    ('6PYNKZ1EAgYgmQfmNVamxyXVWHzK5s6DGhwP4J5o44cvXdoY7sRzhtpUeo', 'TestingOneTwoThree',
     'cbf4b9f70470856bb4f40f80b87edb90865997ffee6df315ab166d713af433a5'),
    ('6PYLtMnXvfG3oJde97zRyLYFZCYizPU5T3LwgdYJz1fRhh16bU7u6PPmY7', 'Satoshi',
     '09c2686880095b1a4c249ee3ac4eea8a014f11e6f986d0b5025ac1f39afbd9ae'),
]
CTOR_PRV = ['kwbytes', 'kwhex', 'kwint', 'kwboth', 'cat64', 'hex', 'hexc', 'bytes', 'bytesc', 'int', 'wif', 'keyhex', 'keybytes',
            'keyint', 'keywif', 'keypos', 'hdobj', 'hdobjsame', 'hdseed']
CTOR_PUB = ['kwbytes', 'kwhex', 'pubhex', 'pubbytes', 'point']
CTOR_OBJ = ('keyhex', 'keybytes', 'keyint', 'keypos', 'hdobj', 'hdobjsame', 'hdseed')
ZERO_CHAIN = bytes(32)


def wif_of(k, net='bitcoin'):
    return b58check(bytes([WIF_VERSION[net]]) + k.to_bytes(32, 'big') + b'\1')


def ctor_tok(x, form, opts='', net='bitcoin'):
    """token of the construction form [form] with options [opts] for the extended key x (see harness/impl/c03_impl.py)"""
    private = x.k is not None
    if (x.depth, x.pfp, x.idx) != (0, b'\0\0\0\0', 0) and 'm' not in opts:
        opts += 'm'
    if x.c != ZERO_CHAIN or form in ('kwbytes', 'kwhex', 'kwint', 'kwboth', 'cat64'):
        opts = opts.replace('z', '')
    if form in ('kwbytes', 'kwhex') and not private and 'p' not in opts:
        opts += 'p'                                    # key= of a public key needs is_private=False
    aux = '-'
    if form in ('wif', 'keywif'):
        aux = wif_of(x.k, net)
    elif form == 'point':
        aux = '%x,%x' % x.K
    return 'ctor:%s:%s:%s:%s' % (form, opts or '-', aux, fields_of(x, private))


def ctor_opts(rng, form, session=False):
    """a random combination of the optional arguments"""
    o = ''.join(ch for ch in 'mpctKz' if rng.random() < 0.4)
    if not session and rng.random() < 0.3:
        o += 'n'
    if form in CTOR_OBJ and rng.random() < 0.4:
        o += 'o'
    if form.startswith('kw'):
        o = o.replace('K', '')
    return o


def ctor_forms(rng, x, net='bitcoin', session=False, nopts=1):
    """x in every construction form (plain call, then [nopts] random option combinations each)"""
    out = []
    for form in (CTOR_PRV if x.k is not None else CTOR_PUB):
        out.append(ctor_tok(x, form, '', net))
        for _ in range(nopts):
            out.append(ctor_tok(x, form, ctor_opts(rng, form, session), net))
    return out


def rand_index(rng):
    r = rng.random()
    if r < 0.35:
        return rng.choice(BOUND)
    if r < 0.7:
        return rng.randrange(0, 20)
    if r < 0.85:
        return rng.randrange(0, H31)
    return rng.randrange(H31, 1 << 32)


def spell(rng, i, force_marker=None):
    """a spelling of index i as path element"""
    if i >= H31 and (force_marker is not None or rng.random() < 0.8):
        return '%d%s' % (i - H31, force_marker or rng.choice(MARKERS))
    return str(i)


class Vers:
    """which requests also ask for the two export strings (always in the corpus, one in [every] elsewhere)"""

    def __init__(self, rng, every):
        self.rng, self.every = rng, every

    def __call__(self, always=False):
        return VPRV + ' ' + VPUB if always or self.rng.randrange(self.every) == 0 else '- -'


def add_derive(cs, kind, key, path, form='s', v=None):
    cs.append(Case(kind, 'derive %s %s %s %s' % (key, hp(path), form, v or (VPRV + ' ' + VPUB)), meta=('derive', key, path)))


def gen_cases(rng, tier):
    big = tier == 'thorough'
    cs = []
    vers = Vers(rng, 2 if big else 6)
    # the independent implementation reproduces the strings printed in the BIP
    for (seed, path), (sprv, spub) in VECTOR_STRINGS.items():
        pub, idxs = parse_path(path)
        x = derive(master(bytes.fromhex(seed)), pub, idxs)
        assert (ser_x(x, True), ser_x(x, False)) == (sprv, spub), 'oracle does not reproduce BIP32 vector ' + path
    # --- corpus: BIP32 test vectors, every prefix of the chain, from seed / from the public key where allowed
    for seed, chain in VECTORS:
        for j in range(len(chain) + 1):
            p = '/'.join(['m'] + chain[:j])
            add_derive(cs, 'vector', 'seed:' + seed, p)
            add_derive(cs, 'vector', 'seed:' + seed, p.replace("'", 'H'), v=vers())
            add_derive(cs, 'vector', 'seed:' + seed, 'M' + p[1:], v=vers())
            add_derive(cs, 'vector', 'seedpub:' + seed, p, v=vers())
    # --- corpus: secrets with leading zero bytes (tiny secrets, and searched children)
    c0 = bytes(range(32))
    for k in (1, 2, 255, 256, N - 1, N - 2, 1 << 200):
        x = XK(k, mul_g(k), c0, 0, b'\0\0\0\0', 0)
        forms = start_forms(x)
        for n, p in enumerate(('m', "m/0'", 'm/0', 'M/0', "m/0/1'/2", 'm/2147483647/0')):
            for st in (forms if big else [forms[(n + k) % 4], forms[2]]):
                add_derive(cs, 'leading_zero', st, p, v=vers(n < 2))
    m0 = master(bytes.fromhex(VECTORS[0][0]))
    found = 0
    for i in range(H31, H31 + 4000):
        I = hmac.new(m0.c, b'\0' + m0.k.to_bytes(32, 'big') + i.to_bytes(4, 'big'), hashlib.sha512).digest()
        if (int.from_bytes(I[:32], 'big') + m0.k) % N < (1 << 248):
            add_derive(cs, 'leading_zero', 'seed:' + VECTORS[0][0], "m/%d'/0" % (i - H31))
            add_derive(cs, 'leading_zero', 'seed:' + VECTORS[0][0], 'm/%d/0' % i)
            found += 1
            if found >= 3:
                break
    # --- seeds of every length 16..64
    for n in range(16, 65):
        seed = rand_bytes(rng, n).hex()
        add_derive(cs, 'seed_len', 'seed:' + seed, 'm', v=vers(n % 8 == 0))
        add_derive(cs, 'seed_len', 'seed:' + seed, rng.choice(["m/0'", 'm/0', 'M/0', "0'/1", 'M']), v=vers())
    for n in (1, 8, 15, 65, 100):
        add_derive(cs, 'seed_len', 'seed:' + rand_bytes(rng, n).hex(), 'm/1', v=vers())
    # --- boundary indices x marker spellings x prefix x start form
    base = master(rand_bytes(rng, 32))
    child = ckd(ckd(base, H31 + 7), 3)
    for x in (base, child):
        forms = start_forms(x)
        for i in BOUND + [1 << 32, (1 << 32) + 1, H31 - 2]:
            spellings = [str(i)]
            if i < H31:
                spellings += ['%d%s' % (i, m) for m in MARKERS]
            else:
                spellings += ['%d%s' % (i, m) for m in "'h"]           # marked and >= 2^31: must be refused
            for ns, sp in enumerate(spellings):
                for prefix in ('m/', 'M/', ''):
                    # quick tier: every (index, spelling, prefix) from a private and a public start; thorough: every form
                    use = forms if big else ([forms[0], forms[2]] if x is base else [forms[1 + 2 * (ns % 2)]])
                    for st in use:
                        add_derive(cs, 'boundary', st, prefix + sp, v=vers())
                    if big or x is base:
                        add_derive(cs, 'boundary', forms[0], prefix + sp + '/1', v=vers())
                        add_derive(cs, 'boundary', forms[-1], prefix + '1/' + sp, form='l', v=vers())
        for st in forms:
            for p in ('m', 'M'):
                add_derive(cs, 'boundary', st, p)
                add_derive(cs, 'boundary', st, p, form='l', v=vers())
    # --- direct child_private / child_public calls
    for x in (base, child):
        forms = start_forms(x)
        for st in (forms if big or x is base else [forms[0], forms[3]]):
            for i in BOUND + [-1, 1 << 32, 5, H31 + 5]:
                cs.append(Case('child_public', 'cpub %s %d %s' % (st, i, vers()), meta=('cpub', st, i)))
                for h in (0, 1):
                    cs.append(Case('child_private', 'cpriv %s %d %d %s' % (st, i, h, vers()), meta=('cpriv', st, i, h)))
    # --- depth limit of the serialization
    for d in (254, 255):
        x = XK(base.k, base.K, base.c, d, b'\1\2\3\4', 9)
        for st in (fields_of(x, True), fields_of(x, False)):
            for p in ('m', '0', '0/1'):
                add_derive(cs, 'depth_limit', st, p)
    # --- random mixed paths, every split point
    for _ in range(400 if big else 40):
        x = master(rand_bytes(rng, rng.randrange(16, 65)))
        depth = rng.randrange(0, 11)
        idxs = [rand_index(rng) for _ in range(depth)]
        if rng.random() < 0.6:
            # keep a non-hardened suffix so that public derivation has work to do
            cut = rng.randrange(0, depth + 1)
            idxs = idxs[:cut] + [i % H31 for i in idxs[cut:]]
        items = [spell(rng, i) for i in idxs]
        st = rng.choice(start_forms(x)[2:])
        add_derive(cs, 'random_path', st, '/'.join(['m'] + items), v=vers())
        add_derive(cs, 'random_path', st, '/'.join(items) if items else 'm', form='l', v=vers())
        add_derive(cs, 'random_path', st, '/'.join(['M'] + items), v=vers())
        for j in range(depth + 1):
            p1 = '/'.join(['m'] + items[:j])
            p2 = '/'.join(items[j:]) if j < depth else 'm'
            cs.append(Case('split', 'split %s %s %s %s' % (st, hp(p1), hp(p2), vers()), meta=('split', st, p1, p2)))
    # --- public start keys, random non-hardened paths with an occasional hardened element
    for _ in range(400 if big else 40):
        x = ckd(master(rand_bytes(rng, 32)), rng.choice([0, H31, 44 + H31]))
        depth = rng.randrange(1, 9)
        idxs = [rng.choice([0, 1, H31 - 1, rng.randrange(H31)]) for _ in range(depth)]
        if rng.random() < 0.3:
            idxs[rng.randrange(depth)] = rng.choice([H31, H31 + 1, (1 << 32) - 1])
        items = [spell(rng, i) for i in idxs]
        st = rng.choice(start_forms(x)[:2])
        add_derive(cs, 'public_path', st, '/'.join(rng.choice([['m'], ['M'], []]) + items), v=vers())
    # --- malformed paths and number spellings
    st_prv, st_pub = fields_of(base, True), fields_of(base.neuter(), False)
    bad = ['', '/', 'm/', 'M/', 'm//1', 'm/1/', 'x', 'm/x', "m/'", "m/1''", "m/1'h", 'm/-1', "m/-1'", 'm/-0', 'm/+1', 'm/ 1', 'm/1 ',
           "m/1 '", "m/ 1'", 'm/1_0', 'm/1__0', 'm/_1', 'm/1_', 'm/007', "m/007'", 'm/0x10', 'm/1e3', 'm/1.0', 'm/m', 'm/M', 'M/m',
           'mm', 'm/1/m', ' m/1', 'm /1', "m/1'/", "m/H", "m/1H2", 'm/\t1', 'm/1\n', 'm/1\x0b', 'm/\x1c1', 'm/1\x00', 'm/4294967296',
           "m/4294967296'", 'm/99999999999999999999999', "m/2147483648'", "m/2147483649h", "m/4294967295'", 'm/1/2/3/x',
           'M/1/2/3/-4', "0'", "M/0'", "M/0h/1", 'M/2147483648', 'M/2147483649', 'm/2147483648', 'm/2147483648/1']
    for p in bad:
        for st in (st_prv, st_pub):
            add_derive(cs, 'malformed', st, p, v=vers())
    for _ in range(2000 if big else 150):
        alphabet = "0123456789'hHpP/mM_ +-x\t"
        p = ''.join(rng.choice(alphabet) for _ in range(rng.randrange(1, 9)))
        add_derive(cs, 'malformed', rng.choice((st_prv, st_pub)), p, v=vers())
    # --- public keys that are not curve points
    for _ in range(40 if big else 6):
        while True:
            xb = rand_bytes(rng, 32)
            if decompress(b'\2' + xb) is None:
                break
        st = 'pub:%s:%s:0:00000000:0' % ((b'\2' + xb).hex(), base.c.hex())
        add_derive(cs, 'off_curve', st, '0', v=vers())
        add_derive(cs, 'off_curve', st, 'm', v=vers())
    # --- construction forms: the same (k, c, metadata) handed to the constructor in every way it accepts; the children
    #     are the BIP32 children of the key the caller specified
    v1 = master(bytes.fromhex(VECTORS[0][0]))
    lz = XK(255, mul_g(255), bytes(range(1, 33)), 0, b'\0\0\0\0', 0)
    zc = XK(base.k, base.K, ZERO_CHAIN, 0, b'\0\0\0\0', 0)
    cpaths = ['m', "m/0'", 'm/0/1', 'M/0', "m/44h/0h/0h/0/5", 'M']
    for n, x in enumerate((v1, child, lz, zc, v1.neuter(), child.neuter(), zc.neuter())):
        for t, st in enumerate(ctor_forms(rng, x, nopts=3 if big else 1)):
            ps = cpaths if big else [cpaths[(n + t) % 3], cpaths[3 + (n + t) % 3]]
            for p in ps:
                add_derive(cs, 'ctor_form', st, p, v=vers(t % 4 == 0))
            if big or (t + n) % 3 == 0:
                i = rng.choice([0, 1, H31 - 1])
                cs.append(Case('ctor_form', 'cpub %s %d %s' % (st, i, vers()), meta=('cpub', st, i)))
                cs.append(Case('ctor_form', 'cpriv %s %d %d %s' % (st, i, t % 2, vers()), meta=('cpriv', st, i, t % 2)))
    for enc, pw, sec in BIP38_VECTORS[:2 if big else 1]:
        kk = int(sec, 16)
        x = XK(kk, mul_g(kk), rand_bytes(rng, 32), 0, b'\0\0\0\0', 0)
        st = 'ctor:bip38:%s:%s,%s:%s' % (rng.choice(['-', 'K', 'm']), enc, pw.encode().hex(), fields_of(x, True))
        add_derive(cs, 'ctor_form', st, "m/0'/1")
    # --- wif(child_index=n): the export with another child number; the key keeps its own
    if FIX8:
        for x in (base, child):
            for st in start_forms(x):
                for n in ['-', 0, 1, child.idx, H31, (1 << 32) - 1, 1 << 32, -1, rng.randrange(1 << 32)]:
                    for a in (0, 1):
                        cs.append(Case('wif_child_index', 'wifidx %s %s %d %s %s' % (st, n, a, VPRV, VPUB), meta=('wifidx', st, n, a)))
    # --- sessions: sequences of calls on ONE object and on the objects derived from it
    cs += gen_sessions(rng, big)
    return cs


# ---------------------------------------------------------------- sessions on one HDKey object
# Frozen protocol constants (never read from /repo): SLIP-44 coin types; BIP32 / chainparams version bytes of the
# legacy extended keys (xprv/xpub, tprv/tpub, Ltpv/Ltub).
NETS = {'bitcoin': (0, '0488ade4', '0488b21e'), 'testnet': (1, '04358394', '043587cf'), 'litecoin': (2, '019d9cfe', '019da462')}
# BIP44 / BIP45 / BIP48 / BIP49 / BIP84 purposes by (witness type, multisig)
PURPOSE = {('l', 0): 44, ('p', 0): 49, ('s', 0): 84, ('l', 1): 45, ('p', 1): 48, ('s', 1): 48}
EXPORTS = ['wif', 'wifpub', 'wifprv', 'wifkey', 'dict', 'dictprv', 'json', 'repr', 'addr', 'fp', 'hash']


def ser_net(x, private, net):
    if not (0 <= x.depth < 256 and 0 <= x.idx < (1 << 32)):
        return 'ERR'
    head = x.depth.to_bytes(1, 'big') + x.pfp + x.idx.to_bytes(4, 'big') + x.c
    if private:
        return b58check(bytes.fromhex(NETS[net][1]) + head + b'\0' + x.k.to_bytes(32, 'big'))
    return b58check(bytes.fromhex(NETS[net][2]) + head + ser_p(x.K))


class SObj:
    """an HDKey object as BIP32 sees it: the extended key, plus the wallet settings the API documents"""

    def __init__(self, x, net, wit, multi):
        self.x, self.net, self.wit, self.multi = x, net, wit, multi

    def show(self, w):
        x = self.x
        return ' '.join([('%064x' % x.k) if x.k is not None else '-', ser_p(x.K).hex(), x.c.hex() or '-', str(x.depth), str(x.idx),
                         x.pfp.hex() or '-', 'x' if not w else ser_net(x, True, self.net) if x.k is not None else '-',
                         ser_net(x, False, self.net) if w else 'x', self.net, self.wit, str(self.multi)])


def account_path(o, account, purpose):
    """the account-level (last hardened) node of the wallet structure: BIP44/49/84 m/purpose'/coin'/account',
    BIP45 m/45', BIP48 m/48'/coin'/account'/script' (1 = p2sh-segwit, 2 = segwit)"""
    pur = purpose or PURPOSE[(o.wit, o.multi)]
    coin = NETS[o.net][0]
    if o.multi and o.wit == 'l':
        idx = [pur]
    elif o.multi:
        idx = [pur, coin, account, 1 if o.wit == 'p' else 2]
    else:
        idx = [pur, coin, account]
    if any(not 0 <= i < H31 for i in idx):
        return None
    return [i + H31 for i in idx]


class SessionOracle:
    """evaluates a session step by step: the answers BIP32 (and the documented settings semantics) define"""

    def __init__(self, key_tok, cfg_tok):
        cfg = cfg_tok.split(',')
        x = key_of_tok(key_tok)
        self.valid = x is not None and x != 'offcurve'
        if self.valid:
            self.slots = [SObj(x, cfg[0], cfg[4], int(cfg[5]))]
            self.pub_only = [x.k is None]          # slots that hold public-only objects by construction

    def step(self, st):
        """(answer, description of the call, named object is public-only, the call needs private material)"""
        slots, pub_only = self.slots, self.pub_only
        f = st.split(',')
        slot, w, op = int(f[0]), f[1] == '1', f[2:]
        o = slots[slot] if slot < len(slots) else None
        if o is None:
            slots.append(None)
            pub_only.append(False)
            return ('T none R FAIL', 'step on an object that does not exist', False, False)
        kind = op[0]
        res, what, needs_private = 'FAIL', kind, False
        if kind == 'p':
            path = bytes.fromhex(op[1] if op[1] != '-' else '').decode('ascii')
            what = 'subkey_for_path(%r)' % (path.split('/') if op[2] == 'l' else path)
            pp = parse_path(path)
            if pp is not None:
                needs_private = any(i >= H31 for i in pp[1])
                if not pp[1]:
                    res = o.x.neuter() if (pp[0] and o.x.k is not None) else 'SELF'
                else:
                    res = derive(o.x, pp[0], pp[1]) or 'FAIL'
        elif kind == 'cpriv':
            i, h = int(op[1]), op[2] == '1'
            what, needs_private = 'child_private(%d, hardened=%s)' % (i, h), True
            if o.x.k is not None and 0 <= i < (1 << 32):
                res = ckd(o.x, i + H31 if (h and i < H31) else i) or 'FAIL'
        elif kind == 'cpub':
            i = int(op[1])
            what, needs_private = 'child_public(%d)' % i, i >= H31
            if 0 <= i < H31:
                res = ckd(o.x.neuter(), i) or 'FAIL'
        elif kind == 'pub':
            what, res = 'public()', o.x.neuter()
        elif kind == 'pm':
            account, purpose = int(op[1]), (None if op[2] == '-' else int(op[2]))
            if op[3] == '1':
                o.multi = 1
            if op[4] != '-':
                o.wit = op[4]
            what = '%s(account_id=%d, purpose=%s, multisig=%s, witness_type=%s, as_private=%s)' % (
                'public_master_multisig' if op[6] == 'mm' else 'public_master', account, purpose, op[3], op[4], op[5])
            needs_private = True
            idx = account_path(o, account, purpose)
            if idx is not None:
                y = derive(o.x, False, idx)
                res = 'FAIL' if y is None else (y if op[5] == '1' else y.neuter())
        elif kind == 'net':
            what, res = 'network_change(%r)' % op[1], 'SELF'
            assert NETS[op[1]] == (int(op[2]), op[3], op[4])
            o.net = op[1]
        elif kind == 'exp':
            what, res = 'export ' + ' '.join(op[1:]), 'SELF'
        if isinstance(res, XK):
            n = SObj(res, o.net, o.wit, o.multi)
            slots.append(n)
            pub_only.append(res.k is None)
            res = 'NEW ' + n.show(w)
        else:
            slots.append(None)
            pub_only.append(False)
        return ('T %s R %s' % (o.show(False), res), what, pub_only[slot], needs_private)


def session_eval(req):
    """one (answer, ...) tuple per step; None when the start key itself is invalid"""
    t = req.split(' ')
    so = SessionOracle(t[1], t[2])
    if not so.valid:
        return None
    return [so.step(st) for st in t[3:]]


def session_verdict(req, out, exp=False):
    """None, or how the implementation's session answer violates the property"""
    if exp is False:
        exp = session_eval(req)
    if exp is None:
        return None if out == 'ERR' else 'session on an invalid start key answered %s' % out[:80]
    got = out.split(' | ') if exp else []
    if out == 'ERR' or len(got) != len(exp):
        return 'session of %d steps on a valid start key answered %s' % (len(exp), out[:120])
    for j, (g, (e, what, pub, needs)) in enumerate(zip(got, exp)):
        if g == e:
            continue
        slot = req.split(' ')[3 + j].split(',')[0]
        where = 'step %d: %s on object %s%s' % (j, what, slot, ' (public-only)' if pub else '')
        gr = g.split(' R ')[-1]
        if pub and gr.startswith('NEW ') and gr.split(' ')[1] not in ('-', 'LEAK'):
            return '%s returned PRIVATE material: %s' % (where, gr[:110])
        if pub and needs and not gr.startswith('FAIL'):
            return '%s needs private material and must fail, returned: %s' % (where, gr[:110])
        if g.split(' R ')[0] != e.split(' R ')[0]:
            return '%s changed the object it was called on: %s, expected %s' % (where, g.split(' R ')[0][2:150], e.split(' R ')[0][2:150])
        return '%s gives %s, BIP32 defines %s' % (where, gr[:160], e.split(' R ')[-1][:160])
    return None


def spell_path(rng, idxs, prefix=None, force_marker=None):
    items = [spell(rng, i, force_marker) for i in idxs]
    if prefix is None:
        prefix = rng.choice(['m', 'm', '', '']) if items else 'm'
    return '/'.join(([prefix] if prefix else []) + items)


class SessionBuilder:
    """builds the request line; slot numbers as the protocol defines them (0 = start, k+1 = result of step k)"""

    def __init__(self, rng, key_tok, net, wit, multi, wevery=3):
        self.rng, self.key, self.cfg = rng, key_tok, (net, wit, multi)
        self.steps, self.wevery, self.exp = [], wevery, []
        self.oracle = SessionOracle(key_tok, '%s,%d,%s,%s,%s,%d' % ((net,) + NETS[net] + (wit, multi)))
        assert self.oracle.valid

    def add(self, slot, *op, w=None):
        if w is None:
            w = self.rng.randrange(self.wevery) == 0
        self.steps.append('%d,%d,%s' % (slot, 1 if w else 0, ','.join(str(a) for a in op)))
        self.exp.append(self.oracle.step(self.steps[-1]))
        return len(self.steps)                 # the slot of the object this step returns

    def alive(self, slot):
        return slot < len(self.oracle.slots) and self.oracle.slots[slot] is not None

    def path(self, slot, idxs, prefix=None, marker=None, form=None, w=None):
        p = spell_path(self.rng, idxs, prefix, marker)
        return self.add(slot, 'p', hp(p), form or self.rng.choice('sssl'), w=w)

    def raw_path(self, slot, p, form='s', w=None):
        return self.add(slot, 'p', hp(p), form, w=w)

    def net(self, slot, name):
        return self.add(slot, 'net', name, *NETS[name])

    def pm(self, slot, account=0, purpose='-', multi='-', wit='-', as_private=0, via='m'):
        return self.add(slot, 'pm', account, purpose, multi, wit, as_private, via)

    def req(self):
        net, wit, multi = self.cfg
        return 'sess %s %s,%d,%s,%s,%s,%d %s' % (self.key, net, NETS[net][0], NETS[net][1], NETS[net][2], wit, multi, ' '.join(self.steps))


def session_starts(rng, x, net):
    """the same key as start object in every form the API accepts"""
    out = [fields_of(x.neuter(), False), 'xstr:%s:%s' % (ser_net(x, False, net), fields_of(x.neuter(), False))]
    if x.k is not None:
        out += [fields_of(x, True), 'xstr:%s:%s' % (ser_net(x, True, net), fields_of(x, True)),
                'xwif:%s:%s' % (ser_net(x, True, net), fields_of(x, True))]
    return out


MNEMONIC = 'abandon abandon abandon abandon abandon abandon abandon abandon abandon abandon abandon about'
MNEMONIC2 = 'legal winner thank year wave sausage worth useful legal winner thank yellow'


def phrase_tok(words, password):
    seed = hashlib.pbkdf2_hmac('sha512', words.encode(), b'mnemonic' + password.encode(), 2048)        # BIP39
    return 'phrase:%s:%s:%s' % (words.encode().hex(), password.encode().hex() or '-', seed.hex()), master(seed)


def gen_sessions(rng, big):
    cs = []

    def emit(kind, b):
        cs.append(Case(kind, b.req(), meta=('sess', b.exp)))

    def start(i):
        """(token, XK, net, wit, multi): start objects of every form, settings of every kind"""
        net = ['bitcoin', 'testnet', 'litecoin'][i % 3] if i % 4 else 'bitcoin'
        wit, multi = 'lps'[(i // 2) % 3] if i % 5 == 0 else 'l', 1 if i % 7 == 3 else 0
        form = i % 9
        if form == 0:
            seed = rand_bytes(rng, rng.randrange(16, 65))
            return 'seed:' + seed.hex(), master(seed), net, wit, multi
        if form == 1:
            tok, x = phrase_tok(rng.choice([MNEMONIC, MNEMONIC2]), rng.choice(['', 'TREZOR', 'pw %d' % i]))
            return tok, x, net, wit, multi
        if form == 8:
            seed = rand_bytes(rng, 32)
            return 'seedpub:' + seed.hex(), master(seed).neuter(), net, wit, multi
        x = master(rand_bytes(rng, 32))
        if form in (3, 5, 6):
            x = ckd(ckd(x, rng.choice([H31, 44 + H31, 7])), rng.choice([0, 1, H31 + 2]))
        # fields / extended-key string / from_wif, private and public
        k = {2: 2, 3: 3, 4: 4, 5: 2, 6: 0, 7: 1}[form]
        return session_starts(rng, x, net)[k], (x if k >= 2 else x.neuter()), net, wit, multi

    nstart = 0

    def fresh(private=True):
        nonlocal nstart
        nstart += 1
        while private and nstart % 9 in (6, 7, 8):
            nstart += 1
        tok, x, net, wit, multi = start(nstart)
        return SessionBuilder(rng, tok, net, wit, multi), x

    idx_pool = [0, 1, 2, 5, H31 - 1, H31, H31 + 1, 44 + H31, (1 << 32) - 1]

    # --- derive from the private object, take a public() copy, ask the copy for the same paths (same spelling, other
    #     spelling, list form, relative), then the original again; every path kind: hardened, plain, mixed, deep
    for rep in range(6 if big else 2):
        paths = [[H31], [0, 1], [44 + H31, H31, H31 + rep], [5, H31 - 1, 7], [rng.choice(idx_pool), rng.choice(idx_pool)],
                 [rng.randrange(H31) for _ in range(rng.randrange(1, 5))]]
        for marker in ("'", 'h', 'H', 'p', 'P')[: 5 if big else 2 + rep]:
            b, x = fresh()
            for q in paths:
                b.path(0, q, 'm', marker, 's')
            pub = b.add(0, 'pub', w=True)
            for q in paths:
                b.path(pub, q, 'm', marker, 's', w=True)           # literally the same strings as before the copy
            for q in paths:
                b.path(pub, q)                                     # any other spelling / form
            for q in paths[:3]:
                b.path(0, q, 'm', marker, 's')                     # the original still derives privately
            b.raw_path(pub, 'm', w=True)
            b.raw_path(0, 'm', w=True)
            b.raw_path(0, 'M', w=True)
            emit('sess_public_copy', b)
    # --- child_private / child_public on one object, then on its public copy, same indices
    for rep in range(8 if big else 3):
        b, x = fresh()
        idxs = [0, rng.choice(idx_pool), rng.randrange(20), H31 + rng.randrange(3)]
        for i in idxs:
            b.add(0, 'cpriv', i, 0)
            if i < H31:
                b.add(0, 'cpriv', i, 1)
            b.add(0, 'cpub', i)
        pub = b.add(0, 'pub')
        for i in idxs:
            b.add(pub, 'cpub', i, w=True)
            b.add(pub, 'cpriv', i, rng.randrange(2))
            b.path(pub, [i])
            b.add(0, 'cpub', i)
            b.add(0, 'cpriv', i, 0, w=True)
        emit('sess_child_calls', b)
    # --- children: derive from a child, from its parent again, from the child's public copy, and compare the long way
    for rep in range(8 if big else 3):
        b, x = fresh()
        a, c, d = rng.choice([H31, 44 + H31, 3]), rng.choice([0, H31 + 1, 9]), rng.randrange(H31)
        ch = b.path(0, [a])
        g1 = b.path(ch, [c, d], '')
        b.path(0, [a, c, d], w=True)
        g2 = b.path(ch, [c], 'm')
        b.path(g2, [d], rng.choice(['', 'm']), w=True)
        cp = b.add(ch, 'pub')
        b.path(cp, [c, d], w=True)
        b.path(cp, [d])
        b.path(cp, [d + H31 if d + H31 < (1 << 32) else H31])
        b.path(0, [a], 'M')
        b.path(0, [a, c, d], 'M')
        b.path(ch, [c, d], 'M', w=True)
        b.raw_path(ch, 'm')
        b.path(0, [a, c], w=True)
        b.add(g1, 'cpriv', 0, 1)
        b.add(cp, 'cpriv', 0, 1)
        emit('sess_children', b)
    # --- account helpers: public_master / public_master_multisig with every argument, before and after public()
    for rep in range(10 if big else 4):
        b, x = fresh()
        b.pm(0)
        b.pm(0, account=rng.randrange(1, 5))
        b.pm(0, as_private=1)
        b.pm(0, account=rep, purpose=rng.choice([44, 49, 84, 99, 0]))
        pub = b.add(0, 'pub')
        b.pm(pub)
        b.pm(pub, as_private=1)
        w = 'lps'[rep % 3]
        b.pm(0, wit=w, as_private=rep % 2)
        b.pm(0, account=2, multi=0)
        if rep % 2:
            b.pm(0, account=1, multi=1, wit=rng.choice(['-', 'p', 's']), via=rng.choice(['m', 'mm']))
            b.pm(0, account=1)                                       # the key now is a multisig key
            b.pm(0, account=1, multi=0, as_private=1)
        acc = b.pm(0, account=3, as_private=1)
        b.path(acc, [0, rep])
        b.pm(0, account=3)
        b.pm(0, account=H31)
        b.pm(0, account=-1)
        b.pm(0, purpose=-5)
        b.raw_path(0, 'm', w=True)
        emit('sess_account', b)
    # --- network_change and exports between derivations
    for rep in range(8 if big else 3):
        b, x = fresh()
        q = [rng.choice([H31, 1]), rep]
        c1 = b.path(0, q, w=True)
        b.net(0, ['litecoin', 'testnet', 'bitcoin'][rep % 3])
        b.path(0, q, w=True)
        b.add(c1, 'exp', 'wif', w=True)
        pub = b.add(0, 'pub', w=True)
        b.net(pub, ['testnet', 'bitcoin', 'litecoin'][rep % 3])
        b.add(0, 'exp', rng.choice(EXPORTS), w=True)
        b.path(pub, [1, 2], w=True)
        b.pm(0, as_private=rep % 2)
        for e in rng.sample(EXPORTS, 4):
            t = rng.choice([0, pub, c1])
            b.add(t, 'exp', e)
            b.path(t, [rng.randrange(3)], w=True)
        if FIX8:
            for t in (0, pub, c1):
                b.add(t, 'exp', 'wifidx', rng.choice([1, 2, 7, H31 + 1]), w=True)
                b.raw_path(t, 'm', w=True)
                b.path(t, [1], w=True)
        emit('sess_network_exports', b)
    # --- every construction form as start object of a session: derive, public(), the same paths, children
    for rep in range(3 if big else 1):
        net = ['bitcoin', 'testnet', 'litecoin'][rep % 3]
        xm = master(rand_bytes(rng, 32))
        xc = ckd(ckd(xm, 44 + H31), 1)
        for n, x0 in enumerate((xm, xc, xm.neuter(), xc.neuter())):
            if not big and n == 1:
                x0 = XK(xm.k, xm.K, ZERO_CHAIN, 0, b'\0\0\0\0', 0)
            for t, st in enumerate(ctor_forms(rng, x0, net, session=True, nopts=1)):
                if not big and t % 2 == (0 if n in (0, 2) else 1) and rep == 0:
                    continue
                net_t = net if big else ['bitcoin', 'testnet', 'litecoin'][(t // 2) % 3]
                if net_t != net:
                    st = ctor_tok(x0, st.split(':')[1], st.split(':')[2].replace('-', ''), net_t)
                # multisig=True only where the constructor takes the argument as given (forms that go through
                # get_key_format take the multisig flag from the key format)
                direct = st.split(':')[1] in CTOR_OBJ + ('kwbytes', 'kwhex', 'kwint', 'kwboth', 'cat64')
                b = SessionBuilder(rng, st, net_t, 'lps'[t % 3] if t % 4 == 0 else 'l', 1 if (t % 5 == 3 and direct) else 0)
                q1, q2 = [rng.choice([H31, 0, 44 + H31]), t % 3], [rng.randrange(4), 1]
                if x0.k is None:
                    q1 = [q % H31 for q in q1]
                b.raw_path(0, 'm', w=True)
                b.path(0, q1, w=True)
                b.path(0, q2)
                pub = b.add(0, 'pub', w=True)
                b.path(pub, q2, w=True)
                b.add(0, 'cpub', q2[0])
                b.add(0, 'cpriv', q2[0], t % 2, w=True)
                b.path(0, q1, rng.choice(['m', '', 'M']))
                emit('sess_ctor_form', b)
    # --- random sessions
    for rep in range(300 if big else 36):
        b, x = fresh(private=False)
        pool = [[rng.choice(idx_pool + [rng.randrange(H31), rng.randrange(20)]) for _ in range(rng.randrange(1, 4))] for _ in range(2)]
        pool += [pool[0][:1], pool[0] + [rng.randrange(4)], pool[1] + [rng.choice(idx_pool)]]
        live, used = [0], []
        for _ in range(rng.randrange(6, 15)):
            t = rng.choice(live + [0, live[-1]])
            r = rng.random()
            if r < 0.2 and used:
                n = b.raw_path(t, *rng.choice(used))                 # literally a request made before, on this or another object
            elif r < 0.45:
                n = b.path(t, rng.choice(pool), rng.choice(['m', 'm', '', '', 'M']) if rng.random() < 0.9 else None)
                f = b.steps[-1].split(',')
                used.append((bytes.fromhex(f[3]).decode('ascii') if f[3] != '-' else '', f[4]))
            elif r < 0.55:
                i = rng.choice([q[0] for q in pool] + idx_pool)
                n = b.add(t, 'cpriv', i, rng.randrange(2) if i < H31 else 0)
            elif r < 0.65:
                n = b.add(t, 'cpub', rng.choice([q[0] for q in pool] + idx_pool + [-1, 1 << 32]))
            elif r < 0.77:
                n = b.add(t, 'pub')
            elif r < 0.85:
                n = b.pm(t, account=rng.choice([0, 0, 1, 7]), purpose=rng.choice(['-', '-', 44, 84]), multi=rng.choice(['-', '-', 0, 1]),
                         wit=rng.choice(['-', '-', 'l', 'p', 's']), as_private=rng.randrange(2))
            elif r < 0.89:
                n = b.net(t, rng.choice(list(NETS)))
            elif r < 0.97:
                if FIX8 and rng.random() < 0.3:
                    n = b.add(t, 'exp', 'wifidx', rng.choice(idx_pool))
                else:
                    n = b.add(t, 'exp', rng.choice(EXPORTS))
            else:
                n = b.add(rng.randrange(len(b.steps) + 3), 'pub')        # may name a failed or future step
            if b.alive(n):
                live.append(n)
        emit('sess_random', b)
    return cs


def is_trivial(c, out):
    return out.startswith('ERR') or out == 'BADREQ' or (c.req.startswith('sess ') and ' R NEW ' not in out)


# ---------------------------------------------------------------- property-level verdict on the implementation
def unhp(h):
    return bytes.fromhex(h if h != '-' else '').decode('ascii')


def meta_of_req(req):
    """the case description of a request line (replayed cases carry none)"""
    t = req.split(' ')
    try:
        if t[0] == 'derive':
            return ('derive', t[1], unhp(t[2]))
        if t[0] == 'split':
            return ('split', t[1], unhp(t[2]), unhp(t[3]))
        if t[0] == 'cpub':
            return ('cpub', t[1], int(t[2]))
        if t[0] == 'cpriv':
            return ('cpriv', t[1], int(t[2]), int(t[3]))
        if t[0] == 'wifidx':
            return ('wifidx', t[1], t[2] if t[2] == '-' else int(t[2]), int(t[3]))
    except (ValueError, IndexError):
        pass
    return None


def expected(c):
    """what BIP32 defines for the request, as answer line; None = not decided here"""
    m = c.meta or meta_of_req(c.req)
    if m is None:
        return None
    w = not c.req.endswith(' - -')
    x = key_of_tok(m[1])
    if x == 'offcurve':
        # an extended public key whose X is not on the curve is invalid; nothing may be derived from it
        return 'ERR'
    if x is None:
        return 'ERR'
    if m[0] == 'derive':
        pp = parse_path(m[2])
        if pp is None:
            return 'ERR'
        return show(derive(x, pp[0], pp[1]), w)
    if m[0] == 'split':
        p1, p2 = parse_path(m[2]), parse_path(m[3])
        if p1 is None or p2 is None:
            return 'ERR'
        y = derive(x, p1[0], p1[1])
        return show(derive(y.neuter(), p2[0], p2[1]) if y is not None else None, w)
    if m[0] == 'wifidx':
        n, a = m[2], m[3]
        y = x if n == '-' else XK(x.k, x.K, x.c, x.depth, x.pfp, n)
        return '%s %d' % (ser_x(y, bool(a) and x.k is not None), x.idx)
    if m[0] == 'cpub':
        i = m[2]
        if i >= H31 or i < 0:
            return 'ERR'                     # a hardened child can never be obtained from public data
        return show(ckd(x.neuter(), i), w)
    if m[0] == 'cpriv':
        i, h = m[2], m[3]
        if x.k is None:
            return 'ERR'
        if h and i >= H31:
            return None                      # the API gives no meaning to "hardened" plus an index that already has the bit
        if i < 0 or i >= (1 << 32):
            return 'ERR'
        return show(ckd(x, i + H31 if h else i), w)
    return None


def prop_check(c, out):
    if out.startswith('CRASH') or out == 'BADREQ':
        return 'unexpected answer %r' % out[:120]
    if ' LEAK ' in (' ' + out + ' '):
        return 'public result still holds private fields: %s' % out[:80]
    if c.req.startswith('sess '):
        return session_verdict(c.req, out, c.meta[1] if c.meta else False)
    exp = expected(c)
    if exp is None or exp == out:
        return None
    m = c.meta or meta_of_req(c.req)
    what = {'derive': 'subkey_for_path(%r)' % (m[2],), 'split': 'subkey_for_path(%r).public().subkey_for_path(%r)' % (m[2], m[3] if len(m) > 3 else ''),
            'cpub': 'child_public(%s)' % (m[2],), 'cpriv': 'child_private(%s, hardened=%s)' % (m[2], m[3] if len(m) > 3 else ''),
            'wifidx': 'wif(is_private=%s, child_index=%s) and the child number of the key afterwards' % (m[3] if len(m) > 3 else '', m[2])}[m[0]]
    return '%s from %s gives %s, BIP32 defines %s' % (what, m[1][:40], out[:150], exp[:150])


KNOWN_CLASSES = {}


def reproduce_known(entry, rundir):
    from core import run_impl
    rc, out, err = run_impl(IMPL, [entry['witness']['request']], rundir)
    return len(out) == 1 and out[0] == entry['witness']['impl_answer']
