"""C03 — HD key derivation conforms to BIP32; public and private derivation agree."""
import hashlib, hmac
from core import Case

PROP = 'C03'
COQ_FILES = ['Extract/C03.v', 'Proofs/Bip32Glue.v', 'Properties/C03.v']
DRIVER = 'c03'
IMPL = 'harness/impl/c03_impl.py'
ALLOWED_AXIOMS = []
ASSUMPTIONS = [
    'theorems are about coq/Model/Bip32.v: spec_* is CKDpriv/CKDpub/master generation/serialization written from the BIP32 text, '
    'generic over a group, an HMAC-SHA512 oracle and a HASH160 oracle; lib_* mirrors HDKey.from_seed/child_private/child_public/'
    'subkey_for_path/public()/fingerprint/wif() of bitcoinlib/keys.py for compressed keys as repaired by fixes/C03-1..7; '
    'tie to /repo: (a) the guards and flag handling of from_seed/child_private/child_public/subkey_for_path (comparison operators, '
    'thresholds, marker set, HMAC key, hardened-on-public raise, bare-M) are re-read from the source AST on every run '
    '(translator/gen_bip32.py -> Gen/GenBip32.v) and proved equal to the model (Proofs/Bip32Glue.v, theorem source_is_model); curve '
    'constants by Crypto/Secp256k1Glue.v; (b) differential correspondence of every lib_* function through the public API on each run',
    'ckd_commute and path_split are proved for ANY commutative group with Z-action and generator of order n (premise group_laws, '
    'visible in the statements) and ANY HMAC/HASH160/serP functions. The executable secp256k1 instance (Crypto/Secp256k1.v) is NOT '
    'proved to satisfy group_laws (associativity of the chord-tangent law, order of G; no elliptic-curve library installed): the '
    'instantiation to secp256k1 carries that premise. lib_is_spec, ckd_metadata, hardened_from_public_fails, path_markers, '
    'master_range are concrete and premise-free (they do not use group laws)',
    'modelled, not verified: the Gallina SHA-256/SHA-512/RIPEMD-160/HMAC transcriptions equal the standards (CRYPTO selftest + this '
    'correspondence); the y coordinate a derived public HDKey recomputes lazily from (x, parity) equals the y of the computed point '
    '(decompress o compress = id on curve points needs primality of p: C04); Python int() is modelled for ASCII items up to 4300 '
    'characters; uncompressed HD keys (compressed=False, the library warns they are non-standard), path_expand/wallet path templates '
    '(C09), non-bitcoin networks and import validation of extended-key strings (C12) are outside this model',
    'lib_is_spec_sound needs public start keys with coordinates in [0,p) and a non-empty chain code; whether the library rejects a '
    'public key that is off the curve is left to fastecdsa (modelled: congruence test after reduction mod p)',
]
RULE = ('corpus (BIP32 test vectors 1-4, keys with leading-zero secrets), seeds of every length 16..64, boundary indices '
        '{0,1,2^31-1,2^31,2^31+1,2^32-1,2^32} x every marker spelling x m/M/no prefix x private/public/xprv-string/xpub-string start, '
        'every split point of random mixed paths of depth 0..10, direct child_private/child_public calls, malformed path strings; '
        'non-trivial = the implementation returned a key; distinct by request')

VPRV, VPUB = '0488ade4', '0488b21e'

# ---------------------------------------------------------------- independent BIP32 (from the BIP text)
P = 2 ** 256 - 2 ** 32 - 977
N = 0xFFFFFFFFFFFFFFFFFFFFFFFFFFFFFFFEBAAEDCE6AF48A03BBFD25E8CD0364141
GX = 0x79BE667EF9DCBBAC55A06295CE870B07029BFCDB2DCE28D959F2815B16F81798
GY = 0x483ADA7726A3C4655DA4FBFC0E1108A8FD17B448A68554199C47D08FFB10D4B8
H31 = 1 << 31


def _jdbl(p):
    x, y, z = p
    if y == 0 or z == 0:
        return (0, 1, 0)
    s = 4 * x * y * y % P
    m = 3 * x * x % P
    x2 = (m * m - 2 * s) % P
    y2 = (m * (s - x2) - 8 * pow(y, 4, P)) % P
    return (x2, y2, 2 * y * z % P)


def _jadd_affine(p, q):
    """Jacobian p + affine q (q finite)."""
    x1, y1, z1 = p
    if z1 == 0:
        return (q[0], q[1], 1)
    z2 = z1 * z1 % P
    u2 = q[0] * z2 % P
    s2 = q[1] * z2 * z1 % P
    if u2 == x1:
        if s2 != y1:
            return (0, 1, 0)
        return _jdbl(p)
    h = (u2 - x1) % P
    r = (s2 - y1) % P
    h2 = h * h % P
    h3 = h2 * h % P
    x3 = (r * r - h3 - 2 * x1 * h2) % P
    y3 = (r * (x1 * h2 - x3) - y1 * h3) % P
    return (x3, y3, h * z1 % P)


def _affine(p):
    if p[2] == 0:
        return None
    zi = pow(p[2], -1, P)
    return (p[0] * zi * zi % P, p[1] * zi * zi * zi % P)


_GTAB = []


def _gtab():
    if not _GTAB:
        q = (GX, GY, 1)
        for _ in range(256):
            _GTAB.append(_affine(q))
            q = _jdbl(q)
    return _GTAB


def mul_g(k):
    """k*G for 0 <= k < 2^256 (None = infinity)."""
    t = _gtab()
    acc = (0, 1, 0)
    i = 0
    while k:
        if k & 1:
            acc = _jadd_affine(acc, t[i])
        k >>= 1
        i += 1
    return _affine(acc)


def add_pts(a, b):
    if a is None:
        return b
    if b is None:
        return a
    return _affine(_jadd_affine((a[0], a[1], 1), b))


def ser_p(pt):
    return bytes([2 + (pt[1] & 1)]) + pt[0].to_bytes(32, 'big')


def on_curve(pt):
    return pt is not None and 0 <= pt[0] < P and 0 <= pt[1] < P and (pt[1] * pt[1] - pt[0] ** 3 - 7) % P == 0


def decompress(b):
    x = int.from_bytes(b[1:], 'big')
    if x >= P or b[0] not in (2, 3):
        return None
    a = (pow(x, 3, P) + 7) % P
    y = pow(a, (P + 1) // 4, P)
    if y * y % P != a:
        return None
    if (y & 1) != (b[0] & 1):
        y = P - y
    return (x, y)


def h160(b):
    return hashlib.new('ripemd160', hashlib.sha256(b).digest()).digest()


class XK:
    """extended key: k (int) or None, K (point), c, depth, fingerprint of parent, child number"""
    __slots__ = ('k', 'K', 'c', 'depth', 'pfp', 'idx')

    def __init__(self, k, K, c, depth, pfp, idx):
        self.k, self.K, self.c, self.depth, self.pfp, self.idx = k, K, c, depth, pfp, idx

    def neuter(self):
        return XK(None, self.K, self.c, self.depth, self.pfp, self.idx)


def master(seed):
    i = hmac.new(b'Bitcoin seed', seed, hashlib.sha512).digest()
    il = int.from_bytes(i[:32], 'big')
    if il == 0 or il >= N:
        return None
    return XK(il, mul_g(il), i[32:], 0, b'\0\0\0\0', 0)


def ckd(x, i):
    """CKDpriv for private parents, CKDpub for public ones; None = invalid / failure."""
    if x is None or not 0 <= i < (1 << 32):
        return None
    if x.k is not None:
        data = (b'\0' + x.k.to_bytes(32, 'big') if i >= H31 else ser_p(x.K)) + i.to_bytes(4, 'big')
    else:
        if i >= H31:
            return None
        data = ser_p(x.K) + i.to_bytes(4, 'big')
    I = hmac.new(x.c, data, hashlib.sha512).digest()
    il = int.from_bytes(I[:32], 'big')
    if il >= N:
        return None
    fp = h160(ser_p(x.K))[:4]
    if x.k is not None:
        k2 = (il + x.k) % N
        if k2 == 0:
            return None
        return XK(k2, mul_g(k2), I[32:], x.depth + 1, fp, i)
    K2 = add_pts(mul_g(il), x.K)
    if K2 is None:
        return None
    return XK(None, K2, I[32:], x.depth + 1, fp, i)


B58 = '123456789ABCDEFGHJKLMNPQRSTUVWXYZabcdefghijkmnopqrstuvwxyz'


def b58check(raw):
    raw = raw + hashlib.sha256(hashlib.sha256(raw).digest()).digest()[:4]
    v = int.from_bytes(raw, 'big')
    s = ''
    while v:
        v, r = divmod(v, 58)
        s = B58[r] + s
    return '1' * (len(raw) - len(raw.lstrip(b'\0'))) + s


def ser_x(x, private):
    if not (0 <= x.depth < 256 and 0 <= x.idx < (1 << 32)):
        return 'ERR'
    head = x.depth.to_bytes(1, 'big') + x.pfp + x.idx.to_bytes(4, 'big') + x.c
    if private:
        return b58check(bytes.fromhex(VPRV) + head + b'\0' + x.k.to_bytes(32, 'big'))
    return b58check(bytes.fromhex(VPUB) + head + ser_p(x.K))


def show(x, w=True):
    if x is None:
        return 'ERR'
    return ' '.join([('%064x' % x.k) if x.k is not None else '-', ser_p(x.K).hex(), x.c.hex() or '-', str(x.depth), str(x.idx),
                     x.pfp.hex() or '-', 'x' if not w else ser_x(x, True) if x.k is not None else '-',
                     ser_x(x, False) if w else 'x'])


MARKERS = "'HhPp"


def parse_path(path):
    """BIP32 path notation -> (starts_public, [indices]) or None; numbers read as Python reads them."""
    items = path.split('/')
    pub = False
    if items[0] == 'm':
        items = items[1:]
    elif items[0] == 'M':
        items, pub = items[1:], True
    out = []
    for it in items:
        if not it:
            return None
        marked = it[-1] in MARKERS
        if marked:
            it = it[:-1]
        try:
            v = int(it)
        except ValueError:
            return None
        if v < 0 or (marked and v >= H31):
            return None
        out.append(v + H31 if marked else v)
    return pub, out


def key_of_tok(t):
    p = t.split(':')
    if p[0] in ('seed', 'seedpub'):
        x = master(bytes.fromhex(p[1]))
        return x.neuter() if (x is not None and p[0] == 'seedpub') else x
    if p[0] == 'xstr':
        p = p[2:]
    kind, k, c, d, f, i = p
    c = b'' if c == '-' else bytes.fromhex(c)
    f = b'' if f == '-' else bytes.fromhex(f)
    if kind == 'prv':
        kk = int(k, 16)
        return XK(kk, mul_g(kk), c, int(d), f, int(i))
    K = decompress(bytes.fromhex(k))
    if K is None:
        return 'offcurve'
    return XK(None, K, c, int(d), f, int(i))


def derive(x, pub, idxs):
    if pub:
        x = x.neuter()
    for i in idxs:
        x = ckd(x, i)
        if x is None:
            return None
    return x


# ---------------------------------------------------------------- generators
def hp(s):
    return s.encode().hex() or '-'


def rand_bytes(rng, n):
    return bytes(rng.randrange(256) for _ in range(n))


BOUND = [0, 1, H31 - 1, H31, H31 + 1, (1 << 32) - 1]
VECTORS = [
    ('000102030405060708090a0b0c0d0e0f', ["0'", '1', "2'", '2', '1000000000']),
    ('fffcf9f6f3f0edeae7e4e1dedbd8d5d2cfccc9c6c3c0bdbab7b4b1aeaba8a5a29f9c999693908d8a8784817e7b7875726f6c696663605d5a5754514e4b484542',
     ['0', "2147483647'", '1', "2147483646'", '2']),
    ('4b381541583be4423346c643850da4b320e46a87ae3d2a4e6da11eba819cd4acba45d239319ac14f863b8d5ab5a0d0c64d2e8a1e7d1457df2e5a3c51c73235be',
     ["0'"]),
    ('3ddd5602285899a946114506157c7997e5444528f3003f6134712147db19b678', ["0'", "1'"]),
]
# strings of the BIP32 text (test vectors 1-3), checked against the independent implementation in gen_cases
VECTOR_STRINGS = {
    ('000102030405060708090a0b0c0d0e0f', 'm'): (
        'xprv9s21ZrQH143K3QTDL4LXw2F7HEK3wJUD2nW2nRk4stbPy6cq3jPPqjiChkVvvNKmPGJxWUtg6LnF5kejMRNNU3TGtRBeJgk33yuGBxrMPHi',
        'xpub661MyMwAqRbcFtXgS5sYJABqqG9YLmC4Q1Rdap9gSE8NqtwybGhePY2gZ29ESFjqJoCu1Rupje8YtGqsefD265TMg7usUDFdp6W1EGMcet8'),
    ('000102030405060708090a0b0c0d0e0f', "m/0'/1/2'/2/1000000000"): (
        'xprvA41z7zogVVwxVSgdKUHDy1SKmdb533PjDz7J6N6mV6uS3ze1ai8FHa8kmHScGpWmj4WggLyQjgPie1rFSruoUihUZREPSL39UNdE3BBDu76',
        'xpub6H1LXWLaKsWFhvm6RVpEL9P4KfRZSW7abD2ttkWP3SSQvnyA8FSVqNTEcYFgJS2UaFcxupHiYkro49S8yGasTvXEYBVPamhGW6cFJodrTHy'),
    (VECTORS[2][0], 'm'): (
        'xprv9s21ZrQH143K25QhxbucbDDuQ4naNntJRi4KUfWT7xo4EKsHt2QJDu7KXp1A3u7Bi1j8ph3EGsZ9Xvz9dGuVrtHHs7pXeTzjuxBrCmmhgC6',
        'xpub661MyMwAqRbcEZVB4dScxMAdx6d4nFc9nvyvH3v4gJL378CSRZiYmhRoP7mBy6gSPSCYk6SzXPTf3ND1cZAceL7SfJ1Z3GC8vBgp2epUt13'),
}


def fields_of(x, private):
    if private:
        return 'prv:%064x:%s:%d:%s:%d' % (x.k, x.c.hex(), x.depth, x.pfp.hex(), x.idx)
    return 'pub:%s:%s:%d:%s:%d' % (ser_p(x.K).hex(), x.c.hex(), x.depth, x.pfp.hex(), x.idx)


def start_forms(x):
    """the same key presented as fields / as extended-key string, private and public"""
    out = [fields_of(x.neuter(), False), 'xstr:%s:%s' % (ser_x(x, False), fields_of(x.neuter(), False))]
    if x.k is not None:
        out += [fields_of(x, True), 'xstr:%s:%s' % (ser_x(x, True), fields_of(x, True))]
    return out


def rand_index(rng):
    r = rng.random()
    if r < 0.35:
        return rng.choice(BOUND)
    if r < 0.7:
        return rng.randrange(0, 20)
    if r < 0.85:
        return rng.randrange(0, H31)
    return rng.randrange(H31, 1 << 32)


def spell(rng, i, force_marker=None):
    """a spelling of index i as path element"""
    if i >= H31 and (force_marker is not None or rng.random() < 0.8):
        return '%d%s' % (i - H31, force_marker or rng.choice(MARKERS))
    return str(i)


class Vers:
    """which requests also ask for the two export strings (always in the corpus, one in [every] elsewhere)"""

    def __init__(self, rng, every):
        self.rng, self.every = rng, every

    def __call__(self, always=False):
        return VPRV + ' ' + VPUB if always or self.rng.randrange(self.every) == 0 else '- -'


def add_derive(cs, kind, key, path, form='s', v=None):
    cs.append(Case(kind, 'derive %s %s %s %s' % (key, hp(path), form, v or (VPRV + ' ' + VPUB)), meta=('derive', key, path)))


def gen_cases(rng, tier):
    big = tier == 'thorough'
    cs = []
    vers = Vers(rng, 2 if big else 6)
    # the independent implementation reproduces the strings printed in the BIP
    for (seed, path), (sprv, spub) in VECTOR_STRINGS.items():
        pub, idxs = parse_path(path)
        x = derive(master(bytes.fromhex(seed)), pub, idxs)
        assert (ser_x(x, True), ser_x(x, False)) == (sprv, spub), 'oracle does not reproduce BIP32 vector ' + path
    # --- corpus: BIP32 test vectors, every prefix of the chain, from seed / from the public key where allowed
    for seed, chain in VECTORS:
        for j in range(len(chain) + 1):
            p = '/'.join(['m'] + chain[:j])
            add_derive(cs, 'vector', 'seed:' + seed, p)
            add_derive(cs, 'vector', 'seed:' + seed, p.replace("'", 'H'), v=vers())
            add_derive(cs, 'vector', 'seed:' + seed, 'M' + p[1:], v=vers())
            add_derive(cs, 'vector', 'seedpub:' + seed, p, v=vers())
    # --- corpus: secrets with leading zero bytes (tiny secrets, and searched children)
    c0 = bytes(range(32))
    for k in (1, 2, 255, 256, N - 1, N - 2, 1 << 200):
        x = XK(k, mul_g(k), c0, 0, b'\0\0\0\0', 0)
        forms = start_forms(x)
        for n, p in enumerate(('m', "m/0'", 'm/0', 'M/0', "m/0/1'/2", 'm/2147483647/0')):
            for st in (forms if big else [forms[(n + k) % 4], forms[2]]):
                add_derive(cs, 'leading_zero', st, p, v=vers(n < 2))
    m0 = master(bytes.fromhex(VECTORS[0][0]))
    found = 0
    for i in range(H31, H31 + 4000):
        I = hmac.new(m0.c, b'\0' + m0.k.to_bytes(32, 'big') + i.to_bytes(4, 'big'), hashlib.sha512).digest()
        if (int.from_bytes(I[:32], 'big') + m0.k) % N < (1 << 248):
            add_derive(cs, 'leading_zero', 'seed:' + VECTORS[0][0], "m/%d'/0" % (i - H31))
            add_derive(cs, 'leading_zero', 'seed:' + VECTORS[0][0], 'm/%d/0' % i)
            found += 1
            if found >= 3:
                break
    # --- seeds of every length 16..64
    for n in range(16, 65):
        seed = rand_bytes(rng, n).hex()
        add_derive(cs, 'seed_len', 'seed:' + seed, 'm', v=vers(n % 8 == 0))
        add_derive(cs, 'seed_len', 'seed:' + seed, rng.choice(["m/0'", 'm/0', 'M/0', "0'/1", 'M']), v=vers())
    for n in (1, 8, 15, 65, 100):
        add_derive(cs, 'seed_len', 'seed:' + rand_bytes(rng, n).hex(), 'm/1', v=vers())
    # --- boundary indices x marker spellings x prefix x start form
    base = master(rand_bytes(rng, 32))
    child = ckd(ckd(base, H31 + 7), 3)
    for x in (base, child):
        forms = start_forms(x)
        for i in BOUND + [1 << 32, (1 << 32) + 1, H31 - 2]:
            spellings = [str(i)]
            if i < H31:
                spellings += ['%d%s' % (i, m) for m in MARKERS]
            else:
                spellings += ['%d%s' % (i, m) for m in "'h"]           # marked and >= 2^31: must be refused
            for ns, sp in enumerate(spellings):
                for prefix in ('m/', 'M/', ''):
                    # quick tier: every (index, spelling, prefix) from a private and a public start; thorough: every form
                    use = forms if big else ([forms[0], forms[2]] if x is base else [forms[1 + 2 * (ns % 2)]])
                    for st in use:
                        add_derive(cs, 'boundary', st, prefix + sp, v=vers())
                    if big or x is base:
                        add_derive(cs, 'boundary', forms[0], prefix + sp + '/1', v=vers())
                        add_derive(cs, 'boundary', forms[-1], prefix + '1/' + sp, form='l', v=vers())
        for st in forms:
            for p in ('m', 'M'):
                add_derive(cs, 'boundary', st, p)
                add_derive(cs, 'boundary', st, p, form='l', v=vers())
    # --- direct child_private / child_public calls
    for x in (base, child):
        forms = start_forms(x)
        for st in (forms if big or x is base else [forms[0], forms[3]]):
            for i in BOUND + [-1, 1 << 32, 5, H31 + 5]:
                cs.append(Case('child_public', 'cpub %s %d %s' % (st, i, vers()), meta=('cpub', st, i)))
                for h in (0, 1):
                    cs.append(Case('child_private', 'cpriv %s %d %d %s' % (st, i, h, vers()), meta=('cpriv', st, i, h)))
    # --- depth limit of the serialization
    for d in (254, 255):
        x = XK(base.k, base.K, base.c, d, b'\1\2\3\4', 9)
        for st in (fields_of(x, True), fields_of(x, False)):
            for p in ('m', '0', '0/1'):
                add_derive(cs, 'depth_limit', st, p)
    # --- random mixed paths, every split point
    for _ in range(400 if big else 40):
        x = master(rand_bytes(rng, rng.randrange(16, 65)))
        depth = rng.randrange(0, 11)
        idxs = [rand_index(rng) for _ in range(depth)]
        if rng.random() < 0.6:
            # keep a non-hardened suffix so that public derivation has work to do
            cut = rng.randrange(0, depth + 1)
            idxs = idxs[:cut] + [i % H31 for i in idxs[cut:]]
        items = [spell(rng, i) for i in idxs]
        st = rng.choice(start_forms(x)[2:])
        add_derive(cs, 'random_path', st, '/'.join(['m'] + items), v=vers())
        add_derive(cs, 'random_path', st, '/'.join(items) if items else 'm', form='l', v=vers())
        add_derive(cs, 'random_path', st, '/'.join(['M'] + items), v=vers())
        for j in range(depth + 1):
            p1 = '/'.join(['m'] + items[:j])
            p2 = '/'.join(items[j:]) if j < depth else 'm'
            cs.append(Case('split', 'split %s %s %s %s' % (st, hp(p1), hp(p2), vers()), meta=('split', st, p1, p2)))
    # --- public start keys, random non-hardened paths with an occasional hardened element
    for _ in range(400 if big else 40):
        x = ckd(master(rand_bytes(rng, 32)), rng.choice([0, H31, 44 + H31]))
        depth = rng.randrange(1, 9)
        idxs = [rng.choice([0, 1, H31 - 1, rng.randrange(H31)]) for _ in range(depth)]
        if rng.random() < 0.3:
            idxs[rng.randrange(depth)] = rng.choice([H31, H31 + 1, (1 << 32) - 1])
        items = [spell(rng, i) for i in idxs]
        st = rng.choice(start_forms(x)[:2])
        add_derive(cs, 'public_path', st, '/'.join(rng.choice([['m'], ['M'], []]) + items), v=vers())
    # --- malformed paths and number spellings
    st_prv, st_pub = fields_of(base, True), fields_of(base.neuter(), False)
    bad = ['', '/', 'm/', 'M/', 'm//1', 'm/1/', 'x', 'm/x', "m/'", "m/1''", "m/1'h", 'm/-1', "m/-1'", 'm/-0', 'm/+1', 'm/ 1', 'm/1 ',
           "m/1 '", "m/ 1'", 'm/1_0', 'm/1__0', 'm/_1', 'm/1_', 'm/007', "m/007'", 'm/0x10', 'm/1e3', 'm/1.0', 'm/m', 'm/M', 'M/m',
           'mm', 'm/1/m', ' m/1', 'm /1', "m/1'/", "m/H", "m/1H2", 'm/\t1', 'm/1\n', 'm/1\x0b', 'm/\x1c1', 'm/1\x00', 'm/4294967296',
           "m/4294967296'", 'm/99999999999999999999999', "m/2147483648'", "m/2147483649h", "m/4294967295'", 'm/1/2/3/x',
           'M/1/2/3/-4', "0'", "M/0'", "M/0h/1", 'M/2147483648', 'M/2147483649', 'm/2147483648', 'm/2147483648/1']
    for p in bad:
        for st in (st_prv, st_pub):
            add_derive(cs, 'malformed', st, p, v=vers())
    for _ in range(2000 if big else 150):
        alphabet = "0123456789'hHpP/mM_ +-x\t"
        p = ''.join(rng.choice(alphabet) for _ in range(rng.randrange(1, 9)))
        add_derive(cs, 'malformed', rng.choice((st_prv, st_pub)), p, v=vers())
    # --- public keys that are not curve points
    for _ in range(40 if big else 6):
        while True:
            xb = rand_bytes(rng, 32)
            if decompress(b'\2' + xb) is None:
                break
        st = 'pub:%s:%s:0:00000000:0' % ((b'\2' + xb).hex(), base.c.hex())
        add_derive(cs, 'off_curve', st, '0', v=vers())
        add_derive(cs, 'off_curve', st, 'm', v=vers())
    return cs


def is_trivial(c, out):
    return out.startswith('ERR') or out == 'BADREQ'


# ---------------------------------------------------------------- property-level verdict on the implementation
def expected(c):
    """what BIP32 defines for the request, as answer line; None = not decided here"""
    m = c.meta
    if m is None:
        return None
    w = not c.req.endswith(' - -')
    x = key_of_tok(m[1])
    if x == 'offcurve':
        # an extended public key whose X is not on the curve is invalid; nothing may be derived from it
        return 'ERR'
    if x is None:
        return 'ERR'
    if m[0] == 'derive':
        pp = parse_path(m[2])
        if pp is None:
            return 'ERR'
        return show(derive(x, pp[0], pp[1]), w)
    if m[0] == 'split':
        p1, p2 = parse_path(m[2]), parse_path(m[3])
        if p1 is None or p2 is None:
            return 'ERR'
        y = derive(x, p1[0], p1[1])
        return show(derive(y.neuter(), p2[0], p2[1]) if y is not None else None, w)
    if m[0] == 'cpub':
        i = m[2]
        if i >= H31 or i < 0:
            return 'ERR'                     # a hardened child can never be obtained from public data
        return show(ckd(x.neuter(), i), w)
    if m[0] == 'cpriv':
        i, h = m[2], m[3]
        if x.k is None:
            return 'ERR'
        if h and i >= H31:
            return None                      # the API gives no meaning to "hardened" plus an index that already has the bit
        if i < 0 or i >= (1 << 32):
            return 'ERR'
        return show(ckd(x, i + H31 if h else i), w)
    return None


def prop_check(c, out):
    if out.startswith('CRASH') or out == 'BADREQ':
        return 'unexpected answer %r' % out[:120]
    if ' LEAK ' in (' ' + out + ' '):
        return 'public result still holds private fields: %s' % out[:80]
    exp = expected(c)
    if exp is None or exp == out:
        return None
    m = c.meta
    what = {'derive': 'subkey_for_path(%r)' % (m[2],), 'split': 'subkey_for_path(%r).public().subkey_for_path(%r)' % (m[2], m[3] if len(m) > 3 else ''),
            'cpub': 'child_public(%s)' % (m[2],), 'cpriv': 'child_private(%s, hardened=%s)' % (m[2], m[3] if len(m) > 3 else '')}[m[0]]
    return '%s from %s gives %s, BIP32 defines %s' % (what, m[1][:40], out[:150], exp[:150])


KNOWN_CLASSES = {}


def reproduce_known(entry, rundir):
    from core import run_impl
    rc, out, err = run_impl(IMPL, [entry['witness']['request']], rundir)
    return len(out) == 1 and out[0] == entry['witness']['impl_answer']
