"""C17 — amount conversion is exact to the smallest unit (values.py, Output / add_output / raw)."""
from fractions import Fraction
from decimal import Decimal, ROUND_HALF_EVEN, localcontext
from core import Case

PROP = 'C17'
COQ_FILES = ['Extract/C17.v', 'Properties/C17.v']
DRIVER = 'c17'
IMPL = 'harness/impl/c17_impl.py'
# Exactly what Print Assumptions prints for the theorems of Properties/C17.v.  All are declared by the standard
# library: the classical real numbers (used through Flocq), the specification axioms of primitive floats
# (FloatAxioms), and the primitive float / 63-bit integer types and operations themselves (registered primitives,
# which Print Assumptions lists under "Axioms:").
ALLOWED_AXIOMS = [
    'ClassicalDedekindReals.sig_forall_dec', 'ClassicalDedekindReals.sig_not_dec', 'Classical_Prop.classic',
    'FunctionalExtensionality.functional_extensionality_dep',
    'FloatAxioms.Prim2SF_SF2Prim', 'FloatAxioms.Prim2SF_valid', 'FloatAxioms.SF2Prim_Prim2SF',
    'FloatAxioms.div_spec', 'FloatAxioms.mul_spec',
    'PrimFloat.float', 'PrimInt63.int', 'PrimInt63.eqb', 'PrimInt63.land', 'PrimInt63.lor', 'PrimInt63.lsl',
    'PrimInt63.lsr', 'PrimInt63.sub',
    'abs', 'div', 'eqb', 'frshiftexp', 'ldshiftexp', 'leb', 'ltb', 'mul', 'normfr_mantissa', 'of_uint63', 'opp',
]
ASSUMPTIONS = [
    'theorems are about coq/Model/Amount.v + coq/Float/{B64,DecRound}.v: values.py and the value handling of '
    'transactions.py mirrored operation by operation on Coq primitive binary64 floats (PrimFloat), constants '
    'taken from the regenerated tables (Gen/GenNetworks.v, Gen/GenConsts.v) as float.hex() strings',
    'axioms: the standard library specification of primitive floats (FloatAxioms: Prim2SF/SF2Prim round trip, '
    'mul_spec, div_spec) and, through Flocq/Reals, the classical real numbers (sig_forall_dec, sig_not_dec, '
    'functional_extensionality_dep, Classical_Prop.classic); the primitive float and int63 operations that '
    'Print Assumptions lists are the kernel primitives; nothing else',
    'extraction additionally uses ExtrOCamlFloats + ExtrOCamlInt63 (PrimFloat.float -> OCaml float, Uint63 of '
    'coq-core kernel); the driver prints floats as float.hex() text from the IEEE bits',
    'modelled, not verified: CPython itself (float(), round(), %-formatting are modelled by the exact integer '
    'algorithms of DecRound.v and validated bit for bit every run), math.log10 in Value.str (modelled as the '
    'correctly rounded logarithm near powers of ten; exhaustively compared over every denominator x network), '
    'str.split / str.upper outside ASCII + micro sign, float() grammar extensions (underscores, non-ASCII digits)',
    'currency_repr other than code, Value.__floordiv__/__round__/__float__ and comparison operators are not modelled',
]
RULE = ('amounts 0..21e14: boundary stream (powers of two and ten +-3, top of the range, binade edges of n/1e8), '
        'seeded uniform/log-uniform stream; every amount is written exactly in each denominator symbol x currency '
        'code x network and sent through Value(str), value_to_satoshi, from_satoshi().str(), format->parse, Output, '
        'add_output/raw; malformed stream of mutated strings; Python float()/round()/% validated on seeded hard cases '
        '(halfway points); floats compared as float.hex() text; non-trivial = implementation returned a value')

TOP = 21 * 10 ** 14
# metric prefixes (exponent relative to the main unit), written from https://en.bitcoin.it/wiki/Units
SYMS = {'µsat': -14, 'msat': -11, 'n': -9, 'sat': -8, 'fin': -7, 'µ': -6, 'm': -3, 'c': -2, 'd': -1, '': 0,
        'da': 1, 'h': 2, 'k': 3, 'M': 6, 'G': 9, 'T': 12, 'P': 15, 'E': 18, 'Z': 21, 'Y': 24}
SYM_ORDER = sorted(SYMS, key=lambda s: -len(s))
NETS = ['bitcoinlib_test', 'bitcoin', 'testnet', 'testnet4', 'signet', 'regtest', 'litecoin', 'litecoin_legacy',
        'litecoin_testnet', 'dogecoin', 'dogecoin_testnet']
CODES = ['BTC', 'LTC', 'DOGE', 'TST', 'tBTC', 'sBTC', 'rBTC', 'XLT', 'tDOGE']
CODE_NET = {'BTC': 'bitcoin', 'LTC': 'litecoin', 'DOGE': 'dogecoin', 'TST': 'bitcoinlib_test', 'TBTC': 'testnet',
            'SBTC': 'signet', 'RBTC': 'regtest', 'XLT': 'litecoin_testnet', 'TDOGE': 'dogecoin_testnet'}
# denominator symbols with a recorded finding (fixes/C17-known.json): the extra float multiplication by the
# denominator loses a unit, the default number of decimals cannot represent a unit, or the symbol cannot be parsed
CLASS_OF_SYM = {'msat': 'msat', 'n': 'n', 'fin': 'fin', 'µ': 'u', 'm': 'm', 'd': 'd', 'da': 'da', 'h': 'h', 'k': 'k',
                'M': 'M', 'G': 'G', 'T': 'T', 'P': 'P', 'E': 'E', 'Z': 'Z', 'Y': 'Y'}


def hs(s):
    return s.encode('utf8').hex() if s else '-'


def unhs(h):
    return '' if h == '-' else bytes.fromhex(h).decode('utf8')


def dec_str(n, k, trim=False):
    """the decimal numeral of n * 10^-k (n >= 0) with k fractional digits"""
    if k <= 0:
        return str(n * 10 ** (-k))
    s = str(n).rjust(k + 1, '0')
    r = s[:-k] + '.' + s[-k:]
    if trim:
        r = r.rstrip('0').rstrip('.')
    return r


def amount_str(n, sym, code, sep=' ', trim=False):
    """n smallest units written exactly in the unit <sym><code>"""
    return dec_str(n, SYMS[sym] + 8, trim) + sep + sym + code


# ---------------------------------------------------------------- independent oracle
def split_unit(unit):
    """(symbol, code) of a unit token as the documentation defines it: [<denominator>][<currency>] — the currency
    is one of the network currency codes (case-insensitive) or absent"""
    if unit.upper() in CODE_NET:
        # a bare currency code; note 'TBTC'/'tBTC' and 'TDOGE' are themselves currency codes
        return '', unit
    for s in SYM_ORDER:
        if s and unit.startswith(s):
            rest = unit[len(s):]
            if rest == '' or rest.upper() in CODE_NET:
                return s, rest
    return None


def exact_units(text):
    """exact number of smallest units a well-formed amount string denotes (Fraction), or None"""
    parts = text.split()
    if not 1 <= len(parts) <= 2:
        return None
    try:
        q = Fraction(Decimal(parts[0]))
    except Exception:
        return None
    sym = ''
    if len(parts) == 2:
        su = split_unit(parts[1])
        if su is None:
            return None
        sym = su[0]
    return q * Fraction(10) ** (SYMS[sym] + 8)


def is_int_tok(s):
    return s.lstrip('-').isdigit()


def nearest_ok(got, exact):
    """got is acceptable for the exact amount: equal when it is a whole number of units, else one of its two neighbours"""
    if exact.denominator == 1:
        return got == exact.numerator
    return abs(Fraction(got) - exact) < 1


def _unit_symbol(text):
    parts = text.split()
    if len(parts) == 2:
        su = split_unit(parts[1])
        if su:
            return su[0]
        # 'da…' is swallowed by the 'd' prefix in the library; still a 'da' case
        if parts[1].startswith('da'):
            return 'da'
    return ''


def _dspec_symbol(tok, default):
    if tok.startswith('s:'):
        return unhs(tok[2:])
    return default if tok == '-' else None


def req_symbols(c):
    """denominator symbols a case involves, decided from the request alone"""
    t = c.req.split(' ')
    k = t[0]
    try:
        if k in ('vts', 'val', 'tobytes'):
            return {_unit_symbol(unhs(t[1]))}
        if k == 'strv':
            return {_unit_symbol(unhs(t[1])), _dspec_symbol(t[2], '')}
        if k in ('output', 'outraw', 'addout') and t[1].startswith('s:'):
            return {_unit_symbol(unhs(t[1][2:]))}
        if k == 'rt':
            return {_dspec_symbol(t[2], 'sat')}
        if k == 'str':
            return {_dspec_symbol(t[2], 'sat'), _dspec_symbol(t[3], 'sat')}
    except Exception:
        pass
    return set()


def prop_check(c, out):
    t = c.req.split(' ')
    k = t[0]
    if out.startswith('CRASH') or out == 'BADREQ' or out.startswith('?'):
        return 'unexpected answer %r' % out[:120]
    if c.kind.startswith('bad_') or c.kind == 'tables' or k == 'arith':
        return None
    if k in ('vts', 'val', 'tobytes'):
        text = unhs(t[1])
        ex = exact_units(text)
        if ex is None or not c.kind.startswith('ok_'):
            return None
        if k == 'vts':
            want_net = None if t[2] == '-' else unhs(t[2])
            parts = text.split()
            code = split_unit(parts[1])[1] if len(parts) == 2 else ''
            if want_net and code and CODE_NET[code.upper()] != want_net:
                return None if out == 'ERR' else 'amount in %s accepted for network %s' % (code, want_net)
            got = out
        elif k == 'val':
            got = out.split(' ')[-1] if out != 'ERR' else 'ERR'
        else:
            if ex.denominator == 1 and 0 <= ex < 2 ** 64:
                return None if out == int(ex).to_bytes(8, 'little').hex() else \
                    'Value(%r).to_bytes() = %s, exact amount is %d' % (text, out, ex)
            return None
        if not is_int_tok(got):
            return 'well-formed amount %r is not converted (%s)' % (text, got)
        if not nearest_ok(int(got), ex):
            return '%r converts to %s smallest units, exact amount is %s' % (text, got, ex)
        return None
    if k == 'rt':
        n = int(t[1])
        if out == 'ERR':
            return 'from_satoshi(%d).str(...) raises' % n
        s, back = out.split(' ')
        if back != str(n):
            return 'from_satoshi(%d).str(%s) = %r parses back to %s' % (n, t[2], unhs(s), back)
        return None
    if k == 'str':
        # the formatted text must denote the amount (to within half a unit) when no explicit decimals were asked for
        if t[4] != '-' or out == 'ERR' or t[3] == 'a':
            return None
        n = int(t[1])
        ex = exact_units(unhs(out))
        if ex is not None and abs(ex - n) >= Fraction(1, 2):
            return 'from_satoshi(%d, %s).str(%s) = %r denotes %s units' % (n, t[2], t[3], unhs(out), ex)
        return None
    if k == 'strv':
        return None
    if k in ('addout', 'outraw'):
        if out == 'ERR':
            return None
        v, raw = out.split(' ')
        if raw == 'ERR':
            return None
        # something was serialised: the value must be an integer 0 <= v < 2^64 and the bytes its encoding
        if v.startswith('i:'):
            z = int(v[2:])
        elif v.startswith('f:') and v[2:] not in ('nan', 'inf', '-inf') and float.fromhex(v[2:]).is_integer():
            z = int(float.fromhex(v[2:]))
        else:
            return 'output value %s is not an integer but raw() serialises %s' % (v, raw)
        if not (0 <= z < 2 ** 64) or raw != z.to_bytes(8, 'little').hex():
            return 'output value %s serialised as %s' % (v, raw)
        return None
    if k == 'output':
        if out == 'ERR' or not t[1].startswith('s:'):
            return None
        ex = exact_units(unhs(t[1][2:]))
        if ex is None or not c.kind.startswith('ok_'):
            return None
        if not out.startswith('i:') or not nearest_ok(int(out[2:]), ex):
            return 'Output(value=%r).value = %s, exact amount is %s' % (unhs(t[1][2:]), out, ex)
        return None
    # ---- Python primitives (validation of the DecRound model against exact arithmetic)
    if k == 'pyfloat':
        s = unhs(t[1])
        try:
            q = Fraction(Decimal(s))
        except Exception:
            return None
        try:
            want = (q.numerator / q.denominator).hex()
        except OverflowError:
            want = 'inf' if q > 0 else '-inf'
        if s.strip().startswith('-') and q == 0:
            want = '-0x0.0p+0'
        return None if out == want else 'float(%r) = %s, correctly rounded value is %s' % (s, out, want)
    if k == 'pyfloatint':
        z = int(t[1])
        try:
            want = (z / 1).hex()
        except OverflowError:
            want = 'ERR'
        return None if out == want else 'float(%d) = %s, expected %s' % (z, out, want)
    if k == 'pyround' or k == 'pyfmt':
        x = float.fromhex(t[1])
        if x != x or x in (float('inf'), float('-inf')):
            return None
        with localcontext() as ctx:
            ctx.prec = 2000
            if k == 'pyround' and t[2] == '-':
                want = str(int(Decimal(x).quantize(Decimal(1), rounding=ROUND_HALF_EVEN)))
                return None if out == want else 'round(%s) = %s, expected %s' % (t[1], out, want)
            nd = int(t[2])
            if nd > 330:
                return None
            d = Decimal(x).quantize(Decimal(1).scaleb(-nd), rounding=ROUND_HALF_EVEN)
            if k == 'pyfmt':
                want = format(d, 'f')
                if x == 0 and str(x).startswith('-') and not want.startswith('-'):
                    want = '-' + want
                return None if unhs(out) == want else "'%%.%df' %% %s = %r, expected %r" % (nd, t[1], unhs(out), want)
            q = Fraction(d)
            want = (q.numerator / q.denominator)
            if want == 0 and (x < 0 or str(x).startswith('-')):
                want = -0.0
            return None if out == want.hex() else 'round(%s, %d) = %s, expected %s' % (t[1], nd, out, want.hex())
    return None


# ---------------------------------------------------------------- known classes (decided from the request alone)
def _sym_class(sym):
    return lambda c, io, mo: sym in req_symbols(c)


KNOWN_CLASSES = {'den_' + cid: _sym_class(sym) for sym, cid in CLASS_OF_SYM.items()}
KNOWN_CLASSES['output_ctor_unchecked'] = \
    lambda c, io, mo: c.req.startswith('outraw f:')


def reproduce_known(entry, rundir):
    from core import run_impl
    rc, out, err = run_impl(IMPL, [entry['witness']['request']], rundir)
    return len(out) == 1 and out[0] == entry['witness']['impl_answer']


def is_trivial(c, out):
    return out.startswith('ERR') or out == 'BADREQ'


# ---------------------------------------------------------------- generators
def amounts(rng, count, big):
    vals = set(range(0, 300))
    for k in range(1, 52):
        for d in range(-3, 4):
            vals.add((1 << k) + d)
    for k in range(1, 16):
        for m in (1, 2, 5, 21):
            for d in range(-3, 4):
                vals.add(m * 10 ** k + d)
    # binade edges of n/1e8 (where the spacing of the parsed float doubles)
    for k in range(-26, 25):
        e = (10 ** 8 << k) if k >= 0 else (10 ** 8 >> -k)
        for d in range(-2, 3):
            vals.add(e + d)
    for d in range(0, 2000 if big else 200):
        vals.add(TOP - d)
    vals.update([TOP, 2099999999493631, 123456789, 1200000, 2099999997690000])
    out = [v for v in vals if 0 <= v <= TOP]
    out.sort()
    for _ in range(count):
        m = rng.randrange(4)
        if m == 0:
            out.append(rng.randrange(TOP + 1))
        elif m == 1:
            out.append(rng.getrandbits(rng.randrange(1, 51)) % (TOP + 1))
        elif m == 2:
            out.append(TOP - rng.randrange(10 ** rng.randrange(1, 15)))
        else:
            out.append(rng.randrange(1, 10 ** rng.randrange(1, 9)) * 10 ** rng.randrange(0, 8) % (TOP + 1))
    return out


def hard_decimal_strings(rng, count):
    """decimal strings at and next to the midpoint of two adjacent doubles (the hard cases of float())"""
    import struct
    res = []
    for _ in range(count):
        e = rng.choice([rng.randrange(-1074, 971), rng.randrange(-60, 60)])
        m = rng.getrandbits(53) | (1 << 52) if rng.random() < 0.9 else rng.getrandbits(rng.randrange(1, 53))
        mid = Fraction(2 * m + 1) * Fraction(2) ** (e - 1)
        with localcontext() as ctx:
            ctx.prec = 1200
            d = Decimal(mid.numerator) / Decimal(mid.denominator)
            s = format(d, 'f') if -400 < d.adjusted() < 400 else str(d)
        mode = rng.randrange(4)
        if mode == 1 and '.' in s:
            s = s + '1'
        elif mode == 2 and '.' in s and len(s) > 3:
            s = s[:-1]
        elif mode == 3:
            s = ('%de%d' % (mid.numerator, 0)) if mid.denominator == 1 else s
        res.append(s)
    return res


def gen_cases(rng, tier):
    big = tier == 'thorough'
    cs = []
    add = cs.append
    add(Case('tables', 'tables'))
    ams = amounts(rng, 60000 if big else 4000, big)
    syms = list(SYMS)
    nets_h = [hs(n) for n in NETS]

    # --- every amount in every denominator symbol, codes / networks rotated; bitcoin always
    for i, n in enumerate(ams):
        for j, sym in enumerate(syms):
            code = 'BTC' if (i + j) % 3 else CODES[(i + j) % len(CODES)]
            text = amount_str(n, sym, code, trim=(i % 5 == 0))
            # 'T' + BTC / DOGE is itself a currency code (tBTC, tDOGE upper-cased): recorded under class den_T
            add(Case('ok_val', 'val %s %s' % (hs(text), nets_h[(i + j) % len(nets_h)])))
        # value_to_satoshi with / without the network argument; the symbol alone (default network)
        sym = syms[i % len(syms)]
        code = CODES[i % len(CODES)]
        text = amount_str(n, sym, code)
        add(Case('ok_vts', 'vts %s -' % hs(text)))
        add(Case('ok_vts', 'vts %s %s' % (hs(text), hs(CODE_NET[code.upper()]))))
        add(Case('ok_vts', 'vts %s %s' % (hs(text), nets_h[i % len(nets_h)])))
        add(Case('ok_vts', 'vts %s -' % hs(dec_str(n, SYMS[sym] + 8) + ' ' + sym)))
        add(Case('ok_vts', 'vts %s -' % hs(dec_str(n, 8))))
        add(Case('ok_vts', 'vts %s -' % hs('%d sat' % n)))
        add(Case('ok_vts', 'vts %s -' % hs(dec_str(n, 8) + ' btc')))
        if i % 7 == 0:
            add(Case('ok_vts', 'vts %s -' % hs('  ' + dec_str(n, 8) + '\t' + code.lower() + ' ')))
            add(Case('ok_tobytes', 'tobytes %s %s' % (hs(dec_str(n, 8) + ' BTC'), hs('bitcoin'))))
            add(Case('ok_tobytes', 'tobytes %s %s' % (hs(amount_str(n, sym, 'LTC')), hs('litecoin'))))
        # sub-satoshi denominators with amounts that are not whole units
        if i % 3 == 0:
            add(Case('ok_val', 'val %s %s' % (hs('%d msat' % (n * 1000 + rng.randrange(1000))), hs('bitcoin'))))
            add(Case('ok_val', 'val %s %s' % (hs('%d µsat' % (n * 10 ** 6 + rng.randrange(10 ** 6))), hs('bitcoin'))))
            add(Case('ok_val', 'val %s %s' % (hs(dec_str(n * 1000 + rng.randrange(1000), 11) + ' BTC'), hs('bitcoin'))))
        # --- from_satoshi / str / format -> parse
        net = nets_h[i % len(nets_h)]
        add(Case('rt_default', 'rt %d - %s' % (n, net)))
        add(Case('rt_unit', 'rt %d f:%s %s' % (n, (1.0).hex(), net)))
        sy = syms[(i // 2) % len(syms)]
        add(Case('rt_sym', 'rt %d %s %s' % (n, ('s:' + hs(sy)) if sy else 'f:' + (1.0).hex(), net)))
        add(Case('rt_sym', 'rt %d s:%s %s' % (n, hs('sat'), hs('bitcoin'))))
        s1 = syms[i % len(syms)]
        s2 = syms[(i // 3) % len(syms)]
        d1 = ('s:' + hs(s1)) if s1 else '-'
        d2 = ('s:' + hs(s2)) if s2 else 'f:' + (1.0).hex()
        add(Case('str', 'str %d %s %s - %s' % (n, d1, d2, net)))
        add(Case('str', 'str %d - %s - %s' % (n, d2, net)))
        add(Case('str_dec', 'str %d %s %s %d %s' % (n, d1, d2, rng.randrange(-2, 16), net)))
        add(Case('str_auto', 'str %d - a - %s' % (n, net)))
        add(Case('str_auto', 'str %d - a %d %s' % (n, rng.randrange(0, 10), net)))
        add(Case('fromsat', 'fromsat %d %s %s' % (n, d1, net)))
        add(Case('fromsat', 'fromsat %d - %s' % (-n, net)))
        if i % 4 == 0:
            add(Case('strv', 'strv %s a - %s' % (hs(amount_str(n, sym, 'BTC')), hs('bitcoin'))))
            add(Case('strv', 'strv %s %s - %s' % (hs(amount_str(n, '', 'BTC')), d2, hs('bitcoin'))))
        # --- outputs
        add(Case('ok_output', 'output s:%s %s' % (hs(amount_str(n, sym, code)), hs(CODE_NET[code.upper()]))))
        if i % 3 == 0:
            add(Case('ok_output', 'output s:%s %s' % (hs(dec_str(n, 8) + ' BTC'), hs('bitcoin'))))
            add(Case('ok_output', 'output s:%s %s' % (hs('%d sat' % n), hs('bitcoin'))))
            add(Case('output', 'output i:%d %s' % (n, net)))
            add(Case('addout', 'addout i:%d %s' % (n, net)))
            add(Case('addout', 'addout f:%s %s' % (float(n).hex(), net)))
            add(Case('outraw', 'outraw i:%d %s' % (n, net)))
            add(Case('outraw', 'outraw s:%s %s' % (hs(dec_str(n, 8) + ' BTC'), hs('bitcoin'))))
    # every denominator x network: default decimals (math.log10) and symbol resolution, exhaustively
    for net in nets_h:
        for s1 in syms:
            for s2 in syms + ['BTC', 'mBTC', 'daX', 'sats', 'auto', 'x']:
                for n in (0, 1, 123456789, TOP):
                    d1 = ('s:' + hs(s1)) if s1 else '-'
                    add(Case('str_grid', 'str %d %s s:%s - %s' % (n, d1, hs(s2) if s2 else hs('BTC'), net)))
    # --- integers / floats / strings into Output, add_output, raw
    specials_i = [0, 1, -1, -5, 2 ** 63 - 1, 2 ** 63, 2 ** 64 - 1, 2 ** 64, 2 ** 64 + 1, 2 ** 53 + 1, TOP, TOP + 1,
                  10 ** 30, -10 ** 30, 2 ** 1023, 2 ** 1024, 2 ** 1024 - 2 ** 970, 2 ** 1024 - 2 ** 970 - 1, 10 ** 400]
    specials_f = [0.0, -0.0, 1.0, 1.5, 0.5, -1.0, -0.5, 1e3, 1e15, 2.0 ** 53, 2.0 ** 63, 2.0 ** 64, 1.8446744073709552e19,
                  1.8446744073709550e19, 1e300, float('inf'), float('-inf'), float('nan'), 5e-324, 0.1, 100000000.5,
                  2.1e15, 1e-8, 123456789.0, 99999999.99999999]
    strs = ['100', '1e3', '1 BTC', ' 12 ', '1.0', '-3', '+7', '', 'abc', '0.5', '12 sat', '1.5 sat', '0.5 sat',
            '2.5 sat', '0.000000015 BTC', '-1 BTC', 'nan', 'inf', '1e400', '1e-400 BTC', 'nan BTC', 'inf sat']
    for net in ('bitcoin', 'litecoin', 'dogecoin', 'nonet'):
        for z in specials_i:
            for kind in ('output', 'addout', 'outraw'):
                add(Case(kind, '%s i:%d %s' % (kind, z, hs(net))))
        for f in specials_f:
            for kind in ('output', 'addout', 'outraw'):
                add(Case(kind, '%s f:%s %s' % (kind, f.hex(), hs(net))))
        for s in strs:
            for kind in ('output', 'addout', 'outraw'):
                add(Case('bad_' + kind, '%s s:%s %s' % (kind, hs(s), hs(net))))
    for _ in range(4000 if big else 400):
        f = rng.choice([rng.random() * 10 ** rng.randrange(0, 20), float(rng.randrange(0, 2 ** 60)),
                        -rng.random() * 1000, rng.randrange(0, 10 ** 9) + 0.5])
        add(Case('addout', 'addout f:%s %s' % (f.hex(), hs('bitcoin'))))
        add(Case('outraw', 'outraw f:%s %s' % (f.hex(), hs('bitcoin'))))
    # --- malformed / unusual strings
    base = ['1 BTC', '1.5 mBTC', '100 sat', '0.1', '21000000 BTC', '5 µBTC', '7 satLTC', '1 TBTC', '1 daBTC', '2 da',
            '1 tBTC', '1 TDOGE', '3 hLTC', '1 XYZ', '1 EUR', '1 USD', '9 sBTC', '9 satBTC', '4 MDOGE', '1 kXLT']
    extra = ['', ' ', 'BTC', '1BTC', '1 BTC extra', '1  BTC', '1\tBTC', '1\nBTC', '1e-8 BTC', '1E8 sat', '+1 BTC',
             '-1 BTC', '-0 BTC', '.5 BTC', '5. BTC', '. BTC', '1e BTC', '1e+ BTC', '0x10 BTC', '1,5 BTC', 'nan BTC',
             'inf BTC', '-inf BTC', 'Infinity BTC', 'NaN', '1e400 BTC', '1e-400 BTC', '1e309 sat', '1e-330', '1e-320',
             '00012.500 BTC', '1 btc', '1 Btc', '1 mbtc', '1 MBTC', '1 µsat', '1 msat', '1 µ', '1 m', '1 sat ', '1 sats',
             '1 satoshi', '1 c', '1 cBTC', '1 dBTC', '1 dDOGE', '1 ddoge', '1 DOGE', '1 doge', '1 dOGE', '1 hBTC',
             '1 T', '1 TLTC', '1 Y', '1 YBTC', '1 ZBTC', '1 EBTC', '1 PBTC', '1 GBTC', '1 nBTC', '1 finBTC',
             '1 fin', '1 finLTC', '1 µsatLTC', '1 msatDOGE', '1 satTST', '1 tst', '1 mTST', '1 rBTC', '1 mrBTC',
             '1 mtBTC', '1 msBTC', '1 satsBTC', '1 BTCBTC', '1 mm', '1 mmBTC', '1.2.3 BTC', '--1 BTC', '1 -BTC',
             '12345678901234567890123456789 sat', '0.' + '0' * 40 + '1 YBTC', '1' + '0' * 330 + ' sat',
             '0.' + '9' * 60 + ' BTC', '1' * 400 + ' µsat', '4.9e-324 BTC', '2.47e-324', '2.48e-324', '1.7976931348623158e308',
             '1.7976931348623159e308', '17976931348623158' + '0' * 292]
    for s in base + extra:
        for net in ('-', hs('bitcoin'), hs('litecoin'), hs('testnet'), hs('nonet')):
            add(Case('bad_vts', 'vts %s %s' % (hs(s), net)))
        add(Case('bad_val', 'val %s %s' % (hs(s), hs('bitcoin'))))
        add(Case('bad_val', 'val %s %s' % (hs(s), hs('dogecoin'))))
        add(Case('bad_strv', 'strv %s - - %s' % (hs(s), hs('bitcoin'))))
        add(Case('bad_strv', 'strv %s a - %s' % (hs(s), hs('bitcoin'))))
    alphabet = list('0123456789') * 3 + list('.. eE+-  \tmkµnsatBTCLdcfiMGhYZ')
    for _ in range(30000 if big else 3000):
        s = rng.choice(base + extra[:60])
        l = list(s)
        for _ in range(rng.randrange(1, 3)):
            m = rng.randrange(3)
            p = rng.randrange(len(l) + 1)
            if m == 0:
                l.insert(p, rng.choice(alphabet))
            elif m == 1 and l:
                del l[min(p, len(l) - 1)]
            elif l:
                l[min(p, len(l) - 1)] = rng.choice(alphabet)
        s = ''.join(l)
        if '_' in s:
            continue
        add(Case('bad_vts', 'vts %s %s' % (hs(s), rng.choice(['-', hs('bitcoin'), hs('litecoin')]))))
        add(Case('bad_val', 'val %s %s' % (hs(s), hs('bitcoin'))))
    # --- arithmetic on Value objects
    for _ in range(3000 if big else 300):
        a = amount_str(rng.randrange(TOP // 2), rng.choice(['', 'm', 'sat', 'µ', 'k']), 'BTC')
        b = amount_str(rng.randrange(TOP // 2), rng.choice(['', 'm', 'sat', 'µ', 'c']), rng.choice(['BTC', 'BTC', 'LTC']))
        for op in ('add', 'sub', 'mul', 'div'):
            add(Case('arith', 'arith %s %s %s %d' % (op, hs(a), hs(b), rng.choice([0, 1, 2, 3, 7, 10, 1000, -3]))))
    # --- Python primitives: float(), float(int), round(), round(x, nd), '%.*f'
    for s in hard_decimal_strings(rng, 6000 if big else 600):
        add(Case('pyfloat', 'pyfloat ' + hs(s)))
    for _ in range(20000 if big else 2000):
        digs = rng.randrange(1, 25)
        m = rng.randrange(10 ** digs)
        e = rng.choice([0, -8, -rng.randrange(0, 30), rng.randrange(-340, 320)])
        s = rng.choice(['%de%d' % (m, e), dec_str(m, rng.randrange(0, 20)), '-%dE%+d' % (m, e), '%d.%de%d' % (m, m, e)])
        add(Case('pyfloat', 'pyfloat ' + hs(s)))
    for z in specials_i + [rng.getrandbits(rng.randrange(1, 1100)) * rng.choice([1, -1]) for _ in range(3000 if big else 300)] + \
            [(1 << k) + d for k in range(52, 70) for d in (-1, 0, 1)] + \
            [((rng.getrandbits(53) | 1 << 52) * 2 + 1) << rng.randrange(0, 200) for _ in range(300)]:
        add(Case('pyfloatint', 'pyfloatint %d' % z))
    xs = list(specials_f) + [2.675, 0.125, 0.375, 2.5, 3.5, -2.5, 1e22, 1e23, 0.30000000000000004, 5e-324, 1.7976931348623157e308]
    for _ in range(12000 if big else 1200):
        m = rng.randrange(5)
        if m == 0:
            xs.append(rng.random() * 10 ** rng.randrange(-10, 20))
        elif m == 1:
            xs.append((rng.randrange(10 ** 6) * 2 + 1) / 2 ** rng.randrange(1, 12))       # exact binary ties
        elif m == 2:
            xs.append(rng.randrange(TOP) / 1e-8 / 1e8 * rng.choice([1, -1]))
        elif m == 3:
            import struct
            xs.append(struct.unpack('>d', struct.pack('>Q', rng.getrandbits(64)))[0])
        else:
            xs.append(rng.randrange(TOP) * 1e-8)
    for x in xs:
        add(Case('pyround', 'pyround %s -' % x.hex()))
        nd = rng.choice([0, 1, 2, 3, 5, 8, 8, rng.randrange(0, 25), rng.randrange(0, 340)])
        add(Case('pyround', 'pyround %s %d' % (x.hex(), nd)))
        add(Case('pyfmt', 'pyfmt %s %d' % (x.hex(), min(nd, 60))))
    return cs


# ---------------------------------------------------------------- extraction cross-check (re-proved in Coq by vm_compute)
GOLDEN_HEADER = """From Coq Require Import ZArith List String. From Coq Require Import Floats.PrimFloat.
From Verif Require Import Float.DecRound Float.B64 Model.Amount. Import ListNotations. Open Scope Z_scope."""


def _coq_str(s):
    return '[' + '; '.join(str(ord(ch)) for ch in s) + ']'


def golden(c, mo):
    t = c.req.split(' ')
    if mo.startswith('CRASH') or mo == 'BADREQ':
        return None
    if t[0] == 'vts' and len(t[1]) <= 160:
        net = 'None' if t[2] == '-' else '(Some %s)' % _coq_str(unhs(t[2]))
        return 'lib_value_to_satoshi %s %s = %s' % (_coq_str(unhs(t[1])), net,
                                                    'Err' if mo == 'ERR' else 'Ok (%s)' % mo)
    if t[0] == 'pyround' and 'nan' not in t[1] and 'inf' not in t[1]:
        if t[2] == '-':
            return 'b64_round (hexf "%s") = %s' % (t[1], 'None' if mo == 'ERR' else 'Some (%s)' % mo)
        if int(t[2]) <= 30:
            return 'b64_round_nd (hexf "%s") %s = hexf "%s"' % (t[1], t[2], mo)
    if t[0] == 'pyfmt' and 'nan' not in t[1] and 'inf' not in t[1]:
        return 'b64_fmt (hexf "%s") %s = %s' % (t[1], t[2], _coq_str(unhs(mo)))
    if t[0] == 'pyfloat' and len(t[1]) <= 120 and mo not in ('ERR', 'nan'):
        return 'py_float %s = Some (hexf "%s")' % (_coq_str(unhs(t[1])), mo)
    return None


EXTRACTION_TB = ('extraction: Coq extraction plugin with ExtrOcamlBasic + ExtrOcamlZBigInt + ExtrOCamlFloats + ExtrOCamlInt63 (bool, option, list, prod, '
                 'unit, sumbool -> OCaml natives; positive/N/Z -> zarith; PrimFloat.float -> OCaml float, Uint63 -> coq-core kernel Uint63); no Extract '
                 'Constant / Extract Inductive of our own; linked with -rectypes -thread -package zarith,coq-core.kernel; OCaml 4.13.1')
